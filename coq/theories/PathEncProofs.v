(* Bridge from the generated rows of the DAG models (PathEnc.v) to their meaning, and the
   composition with the decoding theorem (DagDecode.decode_exact): C01 / C02 on DAGs. *)
From Coq Require Import List NArith ZArith QArith Lqa Bool Arith Lia Permutation.
Import ListNotations.
From FP Require Import Lin Blocks BlocksProofs PathEnc Euler EulerProofs1 EulerProofs4 DagDecode.
Set Default Timeout 60.
Local Close Scope Q_scope.

Record wf_graph (G : stgraph) : Prop := {
  wf_nodup_e : NoDup (g_edges G);
  wf_ends : forall e, In e (g_edges G) -> In (fst e) (g_nodes G) /\ In (snd e) (g_nodes G);
  wf_succ : forall v, succs G v = map snd (filter (fun e => (fst e =? v)%N) (g_edges G));
  wf_pred : forall v, Permutation (preds G v) (map fst (filter (fun e => (snd e =? v)%N) (g_edges G)));
  wf_src : forall e, In e (g_edges G) -> snd e <> g_src G;
  wf_snk : forall e, In e (g_edges G) -> fst e <> g_snk G;
  wf_st : g_src G <> g_snk G }.

(* ---- membership of generated rows / columns ---- *)
Lemma sat_rows_in a rs r : Forall (sat_row a) rs -> In r rs -> sat_row a r.
Proof. intros H. rewrite Forall_forall in H. apply H. Qed.
Lemma sat_cols_in a cs c : Forall (sat_col a) cs -> In c cs -> sat_col a c.
Proof. intros H. rewrite Forall_forall in H. apply H. Qed.
Lemma sat_rows_incl a rs rs' : Forall (sat_row a) rs -> incl rs' rs -> Forall (sat_row a) rs'.
Proof. intros H I. rewrite Forall_forall in *. intros r Hr. apply H, I, Hr. Qed.

Lemma in_layers k i : In i (layers k) <-> exists n, (n < k)%nat /\ i = N.of_nat n.
Proof.
  unfold layers. rewrite in_map_iff. split.
  - intros (n & <- & Hn). apply in_seq in Hn. exists n. split; [lia|reflexivity].
  - intros (n & Hn & ->). exists n. split; [reflexivity|apply in_seq; lia].
Qed.

(* ---- the value of a binary variable as an integer ---- *)
Definition xval (a : var -> Q) (i : N) (e : PathEnc.edge) : Z :=
  if Qeq_bool (a (Edge (fst e) (snd e) i)) 1 then 1%Z else 0%Z.

Lemma xval_bin a i e : bin (a (Edge (fst e) (snd e) i)) ->
  (a (Edge (fst e) (snd e) i) == inject_Z (xval a i e))%Q /\ (xval a i e = 0%Z \/ xval a i e = 1%Z).
Proof.
  intros [H|H]; unfold xval.
  - destruct (Qeq_bool (a (Edge (fst e) (snd e) i)) 1) eqn:E.
    + apply Qeq_bool_iff in E. rewrite H in E. discriminate E.
    + split; [exact H|left; reflexivity].
  - destruct (Qeq_bool (a (Edge (fst e) (snd e) i)) 1) eqn:E.
    + split; [exact H|right; reflexivity].
    + apply Qeq_bool_neq in E. contradiction.
Qed.

Lemma sumq_inject a i (l : list PathEnc.edge) :
  (forall e, In e l -> bin (a (Edge (fst e) (snd e) i))) ->
  (sumq (fun e => a (Edge (fst e) (snd e) i)) l == inject_Z (sumx (xval a i) l))%Q.
Proof.
  induction l as [|e l IH]; intros H; cbn [sumq sumx fold_right]; [reflexivity|].
  fold (sumx (xval a i) l). rewrite inject_Z_plus, <- IH by (intros e' He'; apply H; right; exact He').
  destruct (xval_bin a i e (H e (or_introl eq_refl))) as [E _]. rewrite E. reflexivity.
Qed.

Lemma inject_Z_inj_eq x y : (inject_Z x == inject_Z y)%Q -> x = y.
Proof. unfold Qeq, inject_Z. cbn [Qnum Qden]. lia. Qed.

Lemma sumq_map {A B} (g : B -> Q) (f : A -> B) l : sumq g (map f l) = sumq (fun x => g (f x)) l.
Proof. induction l as [|x l IH]; cbn [map sumq]; [reflexivity|]. rewrite IH. reflexivity. Qed.

Lemma sumq_perm {A} (g : A -> Q) l l' : Permutation l l' -> (sumq g l == sumq g l')%Q.
Proof. induction 1; cbn [sumq]; lra. Qed.

Section PathRows.
  Variable G : stgraph.
  Variable k : nat.
  Variable a : var -> Q.
  Hypothesis WF : wf_graph G.
  Hypothesis Hcols : Forall (sat_col a) (edge_cols G k).
  Hypothesis Hrows : Forall (sat_row a) (path_rows G k false).

  Let s := g_src G.
  Let t := g_snk G.
  Let E := g_edges G.

  Lemma edge_bin i e : In i (layers k) -> In e E -> bin (a (Edge (fst e) (snd e) i)).
  Proof.
    intros Hi He. apply bin_of_col. apply (sat_cols_in a _ _ Hcols).
    unfold edge_cols. apply in_flat_map. exists i. split; [exact Hi|].
    apply (in_map (fun e => bincol (Edge (fst e) (snd e) i))) in He. exact He.
  Qed.

  Lemma sum_out_src i : In i (layers k) -> sumx (xval a i) (outs E s) = 1%Z.
  Proof.
    intros Hi.
    assert (R : sat_row a (row_10a G false i)).
    { apply (sat_rows_in a _ _ Hrows). unfold path_rows. apply in_or_app. left. apply in_map. exact Hi. }
    unfold sat_row, row_10a, mkrow in R. cbn [sns lhs rhs] in R.
    rewrite (eval_map_const a (fun v => Edge (g_src G) v i) 1%Q) in R.
    rewrite (wf_succ G WF) in R. rewrite sumq_map in R.
    assert (Eq : (sumq (fun e => a (Edge (g_src G) (snd e) i)) (filter (fun e => (fst e =? g_src G)%N) (g_edges G))
                 == sumq (fun e => a (Edge (fst e) (snd e) i)) (outs E s))%Q).
    { unfold outs, E, s. apply sumq_ext. intros e He. apply filter_In in He. destruct He as [_ He].
      apply N.eqb_eq in He. rewrite He. reflexivity. }
    rewrite Eq in R. rewrite sumq_inject in R.
    - apply inject_Z_inj_eq. change (inject_Z 1) with 1%Q. lra.
    - intros e He. apply edge_bin; [exact Hi|]. unfold outs in He. apply filter_In in He. tauto.
  Qed.

  Lemma sum_in_out i v : In i (layers k) -> v <> s -> v <> t ->
    sumx (xval a i) (ins E v) = sumx (xval a i) (outs E v).
  Proof.
    intros Hi Hs Ht.
    destruct (in_dec N.eq_dec v (g_nodes G)) as [Hv|Hv].
    - assert (R : sat_row a (row_10c G i v)).
      { apply (sat_rows_in a _ _ Hrows). unfold path_rows. apply in_or_app. right. apply in_flat_map. exists i. split; [exact Hi|].
        apply in_map. unfold inner. apply filter_In. split; [exact Hv|].
        destruct (N.eqb_spec v (g_src G)); [contradiction|]. destruct (N.eqb_spec v (g_snk G)); [contradiction|]. reflexivity. }
      unfold sat_row, row_10c, mkrow in R. cbn [sns lhs rhs] in R.
      rewrite eval_app in R.
      rewrite (eval_map_const a (fun u => Edge u v i) 1%Q), (eval_map_const a (fun w => Edge v w i) (- (1))%Q) in R.
      rewrite (sumq_perm _ _ _ (wf_pred G WF v)) in R. rewrite (wf_succ G WF) in R. rewrite !sumq_map in R.
      assert (E1 : (sumq (fun e => a (Edge (fst e) v i)) (filter (fun e => (snd e =? v)%N) (g_edges G))
                   == sumq (fun e => a (Edge (fst e) (snd e) i)) (ins E v))%Q).
      { unfold ins, E. apply sumq_ext. intros e He. apply filter_In in He. destruct He as [_ He]. apply N.eqb_eq in He. rewrite He. reflexivity. }
      assert (E2 : (sumq (fun e => a (Edge v (snd e) i)) (filter (fun e => (fst e =? v)%N) (g_edges G))
                   == sumq (fun e => a (Edge (fst e) (snd e) i)) (outs E v))%Q).
      { unfold outs, E. apply sumq_ext. intros e He. apply filter_In in He. destruct He as [_ He]. apply N.eqb_eq in He. rewrite He. reflexivity. }
      rewrite E1, E2 in R. rewrite !sumq_inject in R.
      + apply inject_Z_inj_eq. lra.
      + intros e He. apply edge_bin; [exact Hi|]. unfold outs in He. apply filter_In in He. tauto.
      + intros e He. apply edge_bin; [exact Hi|]. unfold ins in He. apply filter_In in He. tauto.
    - (* not a node: no incident edges *)
      assert (I0 : ins E v = []).
      { unfold ins. destruct (filter (fun e => (snd e =? v)%N) E) as [|e l] eqn:F; [reflexivity|exfalso].
        assert (He : In e (filter (fun e => (snd e =? v)%N) E)) by (rewrite F; left; reflexivity).
        apply filter_In in He. destruct He as [He Hv']. apply N.eqb_eq in Hv'. apply Hv. rewrite <- Hv'. apply (wf_ends G WF e He). }
      assert (O0 : outs E v = []).
      { unfold outs. destruct (filter (fun e => (fst e =? v)%N) E) as [|e l] eqn:F; [reflexivity|exfalso].
        assert (He : In e (filter (fun e => (fst e =? v)%N) E)) by (rewrite F; left; reflexivity).
        apply filter_In in He. destruct He as [He Hv']. apply N.eqb_eq in Hv'. apply Hv. rewrite <- Hv'. apply (wf_ends G WF e He). }
      rewrite I0, O0. reflexivity.
  Qed.

  Lemma ins_src_nil : ins E s = [].
  Proof.
    unfold ins. destruct (filter (fun e => (snd e =? s)%N) E) as [|e l] eqn:F; [reflexivity|exfalso].
    assert (He : In e (filter (fun e => (snd e =? s)%N) E)) by (rewrite F; left; reflexivity).
    apply filter_In in He. destruct He as [He Hv']. apply N.eqb_eq in Hv'. exact (wf_src G WF e He Hv').
  Qed.
  Lemma outs_snk_nil : outs E t = [].
  Proof.
    unfold outs. destruct (filter (fun e => (fst e =? t)%N) E) as [|e l] eqn:F; [reflexivity|exfalso].
    assert (He : In e (filter (fun e => (fst e =? t)%N) E)) by (rewrite F; left; reflexivity).
    apply filter_In in He. destruct He as [He Hv']. apply N.eqb_eq in Hv'. exact (wf_snk G WF e He Hv').
  Qed.

  (* C01 (DAG): in every layer the edges with value 1 are exactly the edges of ONE source-to-sink
     path, which the decoder (first successor with value 1) returns without running out of fuel *)
  Theorem layer_is_one_path (rank : node -> nat) (Rm : nat) i :
    (forall u v, In (u, v) E -> (rank u < rank v)%nat) -> (forall v, (rank v <= Rm)%nat) ->
    In i (layers k) ->
    exists p, decode E (xval a i) t (S Rm) s = Some p /\ last p s = t /\
              Permutation (Sup E (xval a i)) (pairs (s :: p)).
  Proof.
    intros Hrank HR Hi.
    apply (decode_exact E (xval a i) s t rank Rm (wf_nodup_e G WF) Hrank HR).
    - intros e He. apply (xval_bin a i e). apply edge_bin; assumption.
    - apply sum_out_src. exact Hi.
    - intros v Hs Ht. apply sum_in_out; assumption.
    - apply ins_src_nil.
    - apply outs_snk_nil.
    - apply (wf_st G WF).
  Qed.
End PathRows.

(* ---- kFlowDecomp rows ---- *)
Section KfdRows.
  Variable I : kfd_inst.
  Variable a : var -> Q.
  Hypothesis Hsat : sat a (encode_kfd I).

  Let G := p_graph (f_base I).
  Let k := p_k (f_base I).

  Lemma kfd_cols_sat : Forall (sat_col a) (edge_cols G k) /\ Forall (sat_col a) (kfd_cols I).
  Proof.
    destruct Hsat as [Hc _]. unfold encode_kfd in Hc. cbn [cols] in Hc. unfold base_cols in Hc.
    rewrite !Forall_app in Hc. tauto.
  Qed.
  Lemma kfd_rows_sat : Forall (sat_row a) (path_rows G k (p_allow_empty (f_base I))) /\ Forall (sat_row a) (kfd_rows I).
  Proof.
    destruct Hsat as [_ Hr]. unfold encode_kfd in Hr. cbn [rows] in Hr. unfold base_rows in Hr.
    rewrite !Forall_app in Hr. tauto.
  Qed.

  Lemma kfd_edge_bin i e : In i (layers k) -> In e (g_edges G) -> bin (a (Edge (fst e) (snd e) i)).
  Proof. intros Hi He. apply (edge_bin G k a (proj1 kfd_cols_sat) i e Hi He). Qed.

  Lemma kfd_w_bounds i : In i (layers k) -> (0 <= a (W i) <= f_wmax I)%Q.
  Proof.
    intros Hi. assert (C : sat_col a (wcol_ (W i) (f_wmax I) (f_int I))).
    { apply (sat_cols_in a _ _ (proj2 kfd_cols_sat)). unfold kfd_cols. apply in_or_app. right.
      apply (in_map (fun i => wcol_ (W i) (f_wmax I) (f_int I))) in Hi. exact Hi. }
    unfold sat_col, wcol_ in C. cbn [cvar clb cub] in C. tauto.
  Qed.

  (* integrality of the weights when weight_type = int *)
  Lemma kfd_w_int i : In i (layers k) -> f_int I = true -> is_int (a (W i)).
  Proof.
    intros Hi Hint. assert (C : sat_col a (wcol_ (W i) (f_wmax I) (f_int I))).
    { apply (sat_cols_in a _ _ (proj2 kfd_cols_sat)). unfold kfd_cols. apply in_or_app. right.
      apply (in_map (fun i => wcol_ (W i) (f_wmax I) (f_int I))) in Hi. exact Hi. }
    unfold sat_col, wcol_ in C. cbn [cvar clb cub cint] in C. apply C. exact Hint.
  Qed.

  (* C02 (MILP route, DAG): for every non-ignored edge the weights of the layers that use it add up
     to its flow value *)
  Theorem kfd_flow_explained e : In e (g_edges G) -> mem_edge e (f_ignore I) = false ->
    (sumq (fun i => a (W i) * inject_Z (xval a i e)) (layers k) == lookup_q e (f_flow I) 0)%Q.
  Proof.
    intros He Hig.
    assert (Hin : incl (kfd_edge_rows I e) (kfd_rows I)).
    { intros r Hr. unfold kfd_rows. apply in_flat_map. exists e. split; [|exact Hr].
      apply filter_In. split; [exact He|]. rewrite Hig. reflexivity. }
    pose proof (sat_rows_incl a _ _ (proj2 kfd_rows_sat) Hin) as HR.
    unfold kfd_edge_rows in HR. fold k in HR. rewrite Forall_app in HR. destruct HR as [HP HD].
    inversion HD as [|? ? HD1 _]; subst. unfold sat_row, mkrow in HD1. cbn [sns lhs rhs] in HD1.
    rewrite (eval_map_const a (fun i => Pi (fst e) (snd e) i) 1%Q) in HD1.
    rewrite <- HD1. rewrite Qmult_1_l. apply sumq_ext. intros i Hi.
    rewrite Forall_flat_map in HP. specialize (HP i Hi).
    apply (mcc_rows_exact a _ _ _ 0%Q (f_wmax I) (kfd_edge_bin i e Hi He) (kfd_w_bounds i Hi)) in HP.
    rewrite HP. destruct (xval_bin a i e (kfd_edge_bin i e Hi He)) as [E _]. rewrite <- E. ring.
  Qed.
End KfdRows.

(* number of occurrences of an edge among the value-1 edges of a layer *)
Lemma count_Sup (E : list PathEnc.edge) (x : PathEnc.edge -> Z) e : NoDup E -> In e E ->
  EulerProofs4.count_e e (Sup E x) = if (x e =? 1)%Z then 1%nat else 0%nat.
Proof.
  intros ND Hin. unfold Sup. induction E as [|e' E IH]; [destruct Hin|].
  inversion ND as [|? ? Hni ND']; subst. cbn [filter].
  destruct Hin as [->|Hin].
  - assert (Z0 : EulerProofs4.count_e e (filter (one x) E) = 0%nat).
    { clear IH ND ND'. induction E as [|e2 E IH2]; [reflexivity|]. cbn [filter].
      assert (Hne : e2 <> e) by (intros ->; apply Hni; left; reflexivity).
      assert (Hni' : ~ In e E) by (intros X; apply Hni; right; exact X).
      destruct (one x e2); [cbn [EulerProofs4.count_e]|apply IH2; exact Hni'].
      destruct (eqe e2 e) eqn:Q; [apply EulerProofs4.eqe_true in Q; contradiction|]. cbn. apply IH2. exact Hni'. }
    unfold one at 1. destruct (x e =? 1)%Z eqn:X.
    + cbn [EulerProofs4.count_e]. rewrite (proj2 (EulerProofs4.eqe_true e e) eq_refl). rewrite Z0. reflexivity.
    + exact Z0.
  - assert (Hne : e' <> e) by (intros ->; contradiction).
    destruct (one x e').
    + cbn [EulerProofs4.count_e]. destruct (eqe e' e) eqn:Q; [apply EulerProofs4.eqe_true in Q; contradiction|]. cbn. apply IH; assumption.
    + apply IH; assumption.
Qed.

(* ---- C01 + C02 on DAGs, MILP route of kFlowDecomp ---- *)
Theorem kfd_sound (I : kfd_inst) (a : var -> Q) (rank : node -> nat) (Rm : nat) :
  let G := p_graph (f_base I) in let k := p_k (f_base I) in
  let E := g_edges G in let s := g_src G in let t := g_snk G in
  wf_graph G -> p_allow_empty (f_base I) = false ->
  (forall u v, In (u, v) E -> (rank u < rank v)%nat) -> (forall v, (rank v <= Rm)%nat) ->
  sat a (encode_kfd I) ->
  (* every layer decodes to one source-to-sink path using exactly the value-1 edges *)
  (forall i, In i (layers k) ->
     exists p, decode E (xval a i) t (S Rm) s = Some p /\ last p s = t /\
               Permutation (Sup E (xval a i)) (pairs (s :: p)) /\
               (forall e, In e E -> EulerProofs4.count_e e (pairs (s :: p)) = Z.to_nat (xval a i e))) /\
  (* weights are within bounds, of the requested type, and explain every non-ignored edge *)
  (forall i, In i (layers k) -> (0 <= a (W i) <= f_wmax I)%Q /\ (f_int I = true -> is_int (a (W i)))) /\
  (forall e, In e E -> mem_edge e (f_ignore I) = false ->
     (sumq (fun i => a (W i) * inject_Z (xval a i e)) (layers k) == lookup_q e (f_flow I) 0)%Q).
Proof.
  intros G k E s t WF Hae Hrank HR Hsat. split; [|split].
  - intros i Hi.
    pose proof (kfd_cols_sat I a Hsat) as [Hc _]. pose proof (kfd_rows_sat I a Hsat) as [Hr _].
    rewrite Hae in Hr.
    destruct (layer_is_one_path G k a WF Hc Hr rank Rm i Hrank HR Hi) as (p & D & L & P).
    exists p. repeat split; try assumption.
    intros e He. etransitivity; [symmetry; apply (EulerProofs4.count_e_perm e _ _ P)|].
    etransitivity; [apply (count_Sup E (xval a i) e (wf_nodup_e G WF) He)|].
    destruct (xval_bin a i e (kfd_edge_bin I a Hsat i e Hi He)) as [_ [X|X]]; rewrite X; reflexivity.
  - intros i Hi. split; [apply (kfd_w_bounds I a Hsat i Hi)|apply (kfd_w_int I a Hsat i Hi)].
  - intros e He Hig. apply (kfd_flow_explained I a Hsat e He Hig).
Qed.

(* the executable decoder of PathEnc is the decoder of the theorem *)
Lemma follow_ones_decode E x t fuel : forall v, follow_ones E x t fuel v = decode E x t fuel v.
Proof.
  induction fuel as [|f IH]; intros v; cbn [follow_ones decode]; [reflexivity|].
  destruct (v =? t)%N; [reflexivity|].
  change (find (x_one x) (out_edges E v)) with (find (one x) (outs E v)).
  destruct (find (one x) (outs E v)) as [e|]; [rewrite IH|]; reflexivity.
Qed.

(* ---- kPathCover rows ---- *)
Lemma sumq_bin_pos {A} (g : A -> Q) (l : list A) :
  (forall x, In x l -> bin (g x)) -> (1 <= sumq g l)%Q -> exists x, In x l /\ (g x == 1)%Q.
Proof.
  induction l as [|x l IH]; intros Hb Hs; cbn [sumq] in Hs.
  - exfalso. apply (Qle_not_lt _ _ Hs). reflexivity.
  - destruct (Hb x (or_introl eq_refl)) as [H0|H1].
    + destruct IH as (y & Hy & Gy); [intros y Hy; apply Hb; right; exact Hy|rewrite H0 in Hs; lra|].
      exists y. split; [right; exact Hy|exact Gy].
    + exists x. split; [left; reflexivity|exact H1].
Qed.

Theorem kpc_covers (I : path_inst) (ignore : list PathEnc.edge) (a : var -> Q) :
  sat a (encode_kpc I ignore) ->
  forall e, In e (g_edges (p_graph I)) -> mem_edge e ignore = false ->
  exists i, In i (layers (p_k I)) /\ xval a i e = 1%Z.
Proof.
  intros [Hc Hr] e He Hig. unfold encode_kpc in Hc, Hr. cbn [cols rows] in Hc, Hr.
  unfold base_cols in Hc. rewrite Forall_app in Hc. destruct Hc as [Hc _].
  rewrite Forall_app in Hr. destruct Hr as [_ Hr].
  assert (R : sat_row a (mkrow (map (fun i => (Edge (fst e) (snd e) i, 1%Q)) (layers (p_k I))) SGe 1%Q)).
  { apply (sat_rows_in a _ _ Hr). unfold kpc_rows.
    apply (in_map (fun e => mkrow (map (fun i => (Edge (fst e) (snd e) i, 1%Q)) (layers (p_k I))) SGe 1%Q)).
    apply filter_In. split; [exact He|rewrite Hig; reflexivity]. }
  unfold sat_row, mkrow in R. cbn [sns lhs rhs] in R.
  rewrite (eval_map_const a (fun i => Edge (fst e) (snd e) i) 1%Q) in R. rewrite Qmult_1_l in R.
  destruct (sumq_bin_pos (fun i => a (Edge (fst e) (snd e) i)) (layers (p_k I))) as (i & Hi & Gi).
  - intros i Hi. apply (edge_bin (p_graph I) (p_k I) a Hc i e Hi He).
  - exact R.
  - exists i. split; [exact Hi|]. unfold xval. apply Qeq_bool_iff in Gi. rewrite Gi. reflexivity.
Qed.

(* ---- subpath constraints (7a / 7b) ---- *)
Lemma eval_map_coef_edges a i (I : path_inst) (c : list PathEnc.edge) :
  (eval a (map (fun e => (Edge (fst e) (snd e) i, elen I e)) c) == sumq (fun e => elen I e * a (Edge (fst e) (snd e) i)) c)%Q.
Proof. apply (eval_map_coef a (fun e => Edge (fst e) (snd e) i) (elen I) c). Qed.

Lemma in_zipn {A} (l : list A) : forall s j c, In (j, c) (zipn s l) -> exists n, j = N.of_nat n /\ (s <= n)%nat /\ nth_error l (n - s) = Some c.
Proof.
  induction l as [|x l IH]; intros s j c H; [destruct H|]. cbn [zipn] in H. destruct H as [E|H].
  - injection E as <- <-. exists s. rewrite Nat.sub_diag. auto.
  - destruct (IH (Datatypes.S s) j c H) as (n & -> & Hn & Hnth). exists n. split; [reflexivity|]. split; [lia|].
    replace (n - s)%nat with (Datatypes.S (n - Datatypes.S s)) by lia. exact Hnth.
Qed.

Lemma zipn_in {A} (l : list A) : forall s n c, nth_error l n = Some c -> In (N.of_nat (s + n), c) (zipn s l).
Proof.
  induction l as [|x l IH]; intros s n c H; [destruct n; discriminate|]. destruct n as [|n]; cbn [nth_error] in H.
  - injection H as ->. rewrite Nat.add_0_r. left. reflexivity.
  - right. replace (s + Datatypes.S n)%nat with (Datatypes.S s + n)%nat by lia. apply IH. exact H.
Qed.

(* C10: every constraint is realised in ONE layer: some layer i carries at least the required
   (edge- or length-weighted) fraction of the constraint's edges *)
Theorem cons_rows_sound (I : path_inst) (a : var -> Q) :
  Forall (sat_col a) (base_cols I) -> Forall (sat_row a) (base_rows I) ->
  forall n c, nth_error (p_cons I) n = Some c ->
  exists i, In i (layers (p_k I)) /\
    (cons_length I c * p_cov I <= sumq (fun e => elen I e * a (Edge (fst e) (snd e) i)) c)%Q.
Proof.
  intros Hc Hr n c Hn.
  unfold base_cols in Hc. rewrite Forall_app in Hc. destruct Hc as [_ Hcc].
  unfold base_rows in Hr. rewrite Forall_app in Hr. destruct Hr as [_ Hrc].
  assert (Hne : p_cons I <> []) by (intros E; rewrite E in Hn; destruct n; discriminate).
  unfold cons_cols in Hcc. unfold cons_rows in Hrc.
  destruct (p_cons I) as [|c0 cs] eqn:EC; [contradiction|]. rewrite <- EC in *.
  rewrite Forall_app in Hrc. destruct Hrc as [H7a H7b].
  set (j := N.of_nat n).
  assert (Hj : In j (cons_idx I)).
  { unfold cons_idx. apply in_map. apply in_seq. split; [lia|]. cbn [plus]. apply nth_error_Some. rewrite Hn. discriminate. }
  (* 7b: some layer has R i j = 1 *)
  assert (R7b : sat_row a (row_7b I j)) by (apply (sat_rows_in a _ _ H7b); apply in_map; exact Hj).
  unfold sat_row, row_7b, mkrow in R7b. cbn [sns lhs rhs] in R7b.
  rewrite (eval_map_const a (fun i => R i j) 1%Q) in R7b. rewrite Qmult_1_l in R7b.
  destruct (sumq_bin_pos (fun i => a (R i j)) (layers (p_k I))) as (i & Hi & Ri).
  - intros i Hi. apply bin_of_col. apply (sat_cols_in a _ _ Hcc). apply in_flat_map. exists i. split; [exact Hi|].
    apply (in_map (fun j => bincol (R i j))). exact Hj.
  - exact R7b.
  - exists i. split; [exact Hi|].
    assert (R7a : sat_row a (row_7a I i (j, c))).
    { apply (sat_rows_in a _ _ H7a). apply in_flat_map. exists i. split; [exact Hi|]. apply in_map.
      pose proof (zipn_in (p_cons I) 0 n c Hn) as Z. cbn [plus] in Z. exact Z. }
    unfold sat_row, row_7a, mkrow in R7a. cbn [sns lhs rhs fst snd] in R7a.
    rewrite eval_app, eval_map_coef_edges in R7a. cbn [eval fst snd] in R7a. rewrite Ri in R7a. lra.
Qed.

Lemma flat_map_ext_in' {A B} (f g : A -> list B) l : (forall x, In x l -> f x = g x) -> flat_map f l = flat_map g l.
Proof. induction l as [|x l IH]; intros H; cbn [flat_map]; [reflexivity|]. rewrite (H x (or_introl eq_refl)), IH; [reflexivity|]. intros y Hy. apply H. right. exact Hy. Qed.

(* C10: an ignored edge's flow value has no influence on the generated model *)
Theorem kfd_ignore_frame (I : kfd_inst) (flow' : list (PathEnc.edge * Q)) :
  (forall e, In e (g_edges (p_graph (f_base I))) -> mem_edge e (f_ignore I) = false ->
             lookup_q e flow' 0%Q = lookup_q e (f_flow I) 0%Q) ->
  encode_kfd {| f_base := f_base I; f_flow := flow'; f_ignore := f_ignore I; f_wmax := f_wmax I; f_int := f_int I |}
  = encode_kfd I.
Proof.
  intros H. unfold encode_kfd. cbn [f_base]. f_equal. f_equal.
  unfold kfd_rows. cbn [f_base f_ignore].
  apply flat_map_ext_in'. intros e He. apply filter_In in He. destruct He as [He Hig].
  unfold kfd_edge_rows. cbn [f_base f_wmax f_flow]. f_equal. f_equal.
  rewrite (H e He); [reflexivity|]. destruct (mem_edge e (f_ignore I)); [discriminate|reflexivity].
Qed.
