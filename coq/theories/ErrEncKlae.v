(* kLeastAbsErrors (DAG, no given weights): completeness WITH subpath constraints over paths given as node
   lists, decoding of satisfying assignments, and the optimality statement as one theorem: the objective
   of an optimal satisfying assignment of ErrEnc.encode_klae is the minimum of
   sum_e scale_e * |f(e) - sum_i w_i [e on path i]|  over ALL choices of k source-to-sink paths covering
   the subpath constraints and all non-negative weights of the requested type (klae_optimal); the bound
   w_max of the LP is removed with the clipping lemma. *)
From Coq Require Import List NArith ZArith QArith Qabs Qround Lqa Bool Arith Lia Permutation.
Import ListNotations.
From FP Require Import Lin Blocks BlocksProofs PathEnc Aug AugProofs Euler EulerProofs1 EulerProofs2 EulerProofs4 DagDecode
                       PathEncProofs PathEncComplete ErrEnc ErrEncProofs ErrEncProofs3 ErrEncComplete ErrEncOptimal.
Set Default Timeout 120.
Local Open Scope Q_scope.

Definition klae_err (I : err_inst) (P : N -> list node) (w : N -> Q) (e : PathEnc.edge) : Q :=
  Qabs (flow_of I e - sumq (fun i => w i * onq P i e) (layers (eK I))).
Definition klae_cost (I : err_inst) (P : N -> list node) (w : N -> Q) : Q :=
  sumq (fun e => scale_of I e * klae_err I P w e) (basic_edges I).

Definition klae_asg (I : err_inst) (P : N -> list node) (w : N -> Q) (ch : N -> N) (x : var) : Q :=
  match vidx x with
  | [u; v; i] => if (vfam x =? fEdge)%N then onq P i (u, v)
                 else if (vfam x =? fPi)%N then w i * onq P i (u, v) else 0
  | [p; q] => if (vfam x =? fErr)%N then klae_err I P w (p, q)
              else if (vfam x =? fR)%N then indq (p =? ch q)%N else 0
  | [i] => if (vfam x =? fW)%N then w i else 0
  | _ => 0
  end.

Lemma klae_asg_agrees I P w ch v : vfam v = fEdge \/ vfam v = fR -> asg P w ch v = klae_asg I P w ch v.
Proof.
  intros H. unfold asg, klae_asg, onq, on. destruct v as [f idx]. cbn [vfam vidx] in *.
  destruct H as [-> | ->]; destruct idx as [|a [|b [|c [|d r]]]]; reflexivity.
Qed.

Section KlaeComplete.
  Variable I : err_inst.
  Let G := eG I.
  Let k := eK I.
  Variable P : N -> list node.
  Variable w : N -> Q.
  Variable ch : N -> N.
  Hypothesis Hg : e_given I = None.
  Hypothesis WF : wf_graph G.
  Hypothesis Hae : p_allow_empty (e_base I) = false.
  Hypothesis Hcons : forall c e, In c (p_cons (e_base I)) -> In e c -> 0 <= elen (e_base I) e.
  Hypothesis HP : st_paths G k P.
  Hypothesis Hw : forall i, In i (layers k) -> 0 <= w i <= w_max I /\ (e_int I = true -> is_int (w i)).
  Hypothesis Herr : forall e, In e (basic_edges I) -> klae_err I P w e <= w_max I /\ (e_int I = true -> is_int (klae_err I P w e)).
  Hypothesis Hch : forall n c, nth_error (p_cons (e_base I)) n = Some c ->
     In (ch (N.of_nat n)) (layers k) /\
     cons_length (e_base I) c * p_cov (e_base I) <= sumq (fun e => elen (e_base I) e * indq (mem_edge e (pairs (P (ch (N.of_nat n)))))) c.

  Let a := klae_asg I P w ch.
  Lemma la_edge u v i : a (Edge u v i) = onq P i (u, v). Proof. reflexivity. Qed.
  Lemma la_pi u v i : a (Pi u v i) = w i * onq P i (u, v). Proof. reflexivity. Qed.
  Lemma la_w i : a (W i) = w i. Proof. reflexivity. Qed.
  Lemma la_err e : a (Err (fst e) (snd e)) = klae_err I P w e.
  Proof. unfold a, klae_asg, Err. cbn [vidx vfam]. rewrite <- surjective_pairing. reflexivity. Qed.

  Theorem klae_complete_sat : sat a (encode_klae I) /\ objective a (encode_klae I) == klae_cost I P w.
  Proof.
    split; [split|].
    - unfold encode_klae. cbn [cols]. unfold klae_cols. rewrite Hg. rewrite !Forall_app. repeat split.
      + destruct (base_sat_asg (e_base I) P w ch WF Hae HP Hcons Hch) as [HC HR].
        destruct (base_transfer (e_base I) (asg P w ch) a (klae_asg_agrees I P w ch) (conj HC HR)) as [HC' _]. exact HC'.
      + unfold pi_cols. apply Forall_forall. intros c Hc. apply in_map_iff in Hc. destruct Hc as ([i e] & <- & Hie).
        unfold all_ik in Hie. apply in_flat_map in Hie. destruct Hie as (i' & Hi & Hie). apply in_map_iff in Hie.
        destruct Hie as (e' & E & He). injection E as <- <-. cbn [fst snd].
        unfold sat_col, wcol_. cbn [cvar clb cub cint]. rewrite la_pi, <- surjective_pairing.
        destruct (Hw i' Hi) as ([W1 W2] & W3). pose proof (onq01 P i' e') as O.
        split; [nra|split; [nra|]]. intros Hint. apply is_int_mult; [apply W3; exact Hint|apply onq_int].
      + unfold w_cols. apply Forall_forall. intros c Hc. apply in_map_iff in Hc. destruct Hc as (i & <- & Hi).
        unfold sat_col, wcol_. cbn [cvar clb cub cint]. rewrite la_w. destruct (Hw i Hi) as (W1 & W2). tauto.
      + unfold err_cols. apply Forall_forall. intros c Hc. apply in_map_iff in Hc. destruct Hc as (e & <- & He).
        unfold sat_col, wcol_. cbn [cvar clb cub cint]. rewrite la_err. destruct (Herr e He) as [E1 E2].
        split; [apply Qabs_nonneg|split; [exact E1|exact E2]].
    - unfold encode_klae. cbn [rows]. unfold klae_rows. rewrite Hg. rewrite Forall_app. split.
      + destruct (base_sat_asg (e_base I) P w ch WF Hae HP Hcons Hch) as [HC HR].
        destruct (base_transfer (e_base I) (asg P w ch) a (klae_asg_agrees I P w ch) (conj HC HR)) as [_ HR']. exact HR'.
      + apply Forall_flat_map. intros e He. unfold klae_edge_rows. apply Forall_app. split.
        * unfold pi_prod_rows. apply Forall_flat_map. intros i Hi.
          apply (mcc_rows_exact a _ _ _ 0 (w_max I)).
          -- rewrite la_edge, <- surjective_pairing. unfold onq. destruct (mem_edge e (pairs (P i))); [right|left]; reflexivity.
          -- rewrite la_w. apply (Hw i Hi).
          -- rewrite la_pi, la_edge, la_w. ring.
        * assert (HS : sumq (fun i => a (Pi (fst e) (snd e) i)) (layers (eK I)) == sumq (fun i => w i * onq P i e) (layers (eK I))).
          { apply sumq_ext. intros i _. rewrite la_pi, <- surjective_pairing. reflexivity. }
          pose proof (Qle_Qabs (flow_of I e - sumq (fun i => w i * onq P i e) (layers (eK I)))) as A1.
          pose proof (Qle_Qabs (- (flow_of I e - sumq (fun i => w i * onq P i e) (layers (eK I))))) as A2.
          rewrite Qabs_opp in A2. fold (klae_err I P w e) in A1, A2.
          constructor; [|constructor; [|constructor]]; unfold sat_row, row_9aa, row_9ab, mkrow; cbn [sns lhs rhs];
            rewrite eval_app.
          -- rewrite (eval_map_const a (fun i => Pi (fst e) (snd e) i) (- (1))). cbn [eval fst snd]. rewrite HS, la_err. lra.
          -- rewrite (eval_map_const a (fun i => Pi (fst e) (snd e) i) 1). cbn [eval fst snd]. rewrite HS, la_err. lra.
    - rewrite (klae_objective_value I a). unfold klae_cost. apply sumq_ext. intros e _. rewrite la_err. reflexivity.
  Qed.
End KlaeComplete.

(* ------------------------------------------------------------------ choices *)
(* what the LP can represent: weights and errors within the bound w_max *)
Definition klae_choice (I : err_inst) (P : N -> list node) (w : N -> Q) : Prop :=
  st_paths (eG I) (eK I) P /\
  (forall i, In i (layers (eK I)) -> 0 <= w i <= w_max I /\ (e_int I = true -> is_int (w i))) /\
  (forall e, In e (basic_edges I) -> klae_err I P w e <= w_max I /\ (e_int I = true -> is_int (klae_err I P w e))) /\
  constraints_covered (e_base I) P.

Theorem klae_complete (I : err_inst) (P : N -> list node) (w : N -> Q) :
  e_given I = None -> wf_graph (eG I) -> p_allow_empty (e_base I) = false ->
  (forall c e, In c (p_cons (e_base I)) -> In e c -> 0 <= elen (e_base I) e) ->
  klae_choice I P w ->
  exists a, sat a (encode_klae I) /\ objective a (encode_klae I) == klae_cost I P w /\
            (forall i, a (W i) = w i) /\ (forall u v i, a (Edge u v i) = onq P i (u, v)) /\
            (forall e, a (Err (fst e) (snd e)) = klae_err I P w e).
Proof.
  intros Hg WF Hae Hcons (HP & Hw & Herr & Hcov).
  destruct (finite_choice (p_cons (e_base I))
              (fun n c i => In i (layers (eK I)) /\
                 cons_length (e_base I) c * p_cov (e_base I) <= sumq (fun e => elen (e_base I) e * indq (mem_edge e (pairs (P i)))) c)
              Hcov) as (ch & Hch).
  exists (klae_asg I P w ch).
  destruct (klae_complete_sat I P w ch Hg WF Hae Hcons HP Hw Herr Hch) as [S O].
  split; [exact S|split; [exact O|split; [reflexivity|split; [reflexivity|]]]].
  intros e. apply la_err.
Qed.

(* every satisfying assignment decodes to paths and weights whose absolute errors are dominated by
   the error variables *)
Theorem klae_decodes (I : err_inst) (a : var -> Q) (rank : node -> nat) (Rm : nat) :
  e_given I = None -> wf_graph (eG I) -> p_allow_empty (e_base I) = false ->
  (forall u v, In (u, v) (g_edges (eG I)) -> (rank u < rank v)%nat) -> (forall v, (rank v <= Rm)%nat) ->
  (forall c e, In c (p_cons (e_base I)) -> In e c -> In e (g_edges (eG I))) ->
  sat a (encode_klae I) ->
  let P := dec_path (eG I) a Rm in let w := fun i => a (W i) in
  st_paths (eG I) (eK I) P /\
  (forall i, In i (layers (eK I)) -> 0 <= w i <= w_max I /\ (e_int I = true -> is_int (w i))) /\
  (forall e, In e (basic_edges I) -> klae_err I P w e <= a (Err (fst e) (snd e)) /\ a (Err (fst e) (snd e)) <= w_max I) /\
  constraints_covered (e_base I) P.
Proof.
  intros Hg WF Hae Hrank HR HconsE Hsat P w.
  destruct (klae_enc_sound I a rank Rm WF Hae Hg Hrank HR Hsat) as (Hpaths & Hbounds & Hdom & Hobj).
  assert (Hbin : forall i e, In i (layers (eK I)) -> In e (g_edges (eG I)) -> bin (a (Edge (fst e) (snd e) i)))
    by (intros i e Hi He; apply (klae_edge_bin I a Hsat Hg i e Hi He)).
  assert (Hpaths' : forall i, In i (layers (eK I)) ->
     exists p, decode (g_edges (eG I)) (xval a i) (g_snk (eG I)) (Datatypes.S Rm) (g_src (eG I)) = Some p /\
               last p (g_src (eG I)) = g_snk (eG I) /\ Permutation (Sup (g_edges (eG I)) (xval a i)) (pairs (g_src (eG I) :: p))).
  { intros i Hi. destruct (Hpaths i Hi) as (p & D & L & Pm & _). exists p. tauto. }
  split; [apply (dec_st_paths (eG I) (eK I) a rank Rm Hrank Hpaths')|]. split; [exact Hbounds|]. split.
  - intros e He. pose proof (basic_in I e He) as HeG. split.
    + unfold klae_err, P, w.
      assert (E1 : sumq (fun i => a (W i) * onq (dec_path (eG I) a Rm) i e) (layers (eK I))
                   == sumq (fun i => a (W i) * inject_Z (xval a i e)) (layers (eK I))).
      { apply sumq_ext. intros i Hi. rewrite (proj1 (dec_onq (eG I) (eK I) a Rm Hbin Hpaths' i e Hi HeG)). reflexivity. }
      rewrite E1. apply (Hdom e He).
    + assert (C : sat_col a (wcol_ (Err (fst e) (snd e)) (w_max I) (e_int I))).
      { apply (sat_cols_in a _ _ (proj2 (proj2 (proj2 (klae_cols_sat I a Hsat Hg))))). unfold err_cols.
        apply (in_map (fun e => wcol_ (Err (fst e) (snd e)) (w_max I) (e_int I))) in He. exact He. }
      unfold sat_col, wcol_ in C. cbn [cvar clb cub] in C. tauto.
  - intros n c Hn.
    destruct Hsat as [Hc Hr]. unfold encode_klae in Hc, Hr. cbn [cols rows] in Hc, Hr.
    rewrite Forall_app in Hc, Hr. destruct Hc as [Hc _]. destruct Hr as [Hr _].
    destruct (cons_rows_sound (e_base I) a Hc Hr n c Hn) as (i & Hi & Hcv).
    exists i. split; [exact Hi|].
    assert (E1 : sumq (fun e => elen (e_base I) e * indq (mem_edge e (pairs (P i)))) c ==
                 sumq (fun e => elen (e_base I) e * a (Edge (fst e) (snd e) i)) c).
    { apply sumq_ext. intros e He.
      assert (HeE : In e (g_edges (eG I))) by (apply (HconsE c e); [apply nth_error_In with n; exact Hn|exact He]).
      pose proof (proj2 (dec_onq (eG I) (eK I) a Rm Hbin Hpaths' i e Hi HeE)) as Q. unfold onq in Q. unfold P. rewrite Q. reflexivity. }
    rewrite E1. exact Hcv.
Qed.

(* ------------------------------------------------------------------ arithmetic helpers *)
Definition xz (P : N -> list node) (i : N) (e : PathEnc.edge) : Z := if mem_edge e (pairs (P i)) then 1%Z else 0%Z.
Lemma onq_xz P i e : onq P i e = inject_Z (xz P i e).
Proof. unfold onq, xz. destruct (mem_edge e (pairs (P i))); reflexivity. Qed.
Lemma xz01 P i e : xz P i e = 0%Z \/ xz P i e = 1%Z.
Proof. unfold xz. destruct (mem_edge e (pairs (P i))); [right|left]; reflexivity. Qed.

Lemma is_int_opp q : is_int q -> is_int (- q).
Proof. intros [z Hz]. exists (- z)%Z. rewrite Hz, inject_Z_opp. reflexivity. Qed.
Lemma is_int_plus p q : is_int p -> is_int q -> is_int (p + q).
Proof. intros [a Ha] [b Hb]. exists (a + b)%Z. rewrite Ha, Hb, inject_Z_plus. reflexivity. Qed.
Lemma is_int_abs q : is_int q -> is_int (Qabs q).
Proof.
  intros [z Hz]. exists (Z.abs z). rewrite Hz. unfold Qabs, inject_Z. reflexivity.
Qed.
Lemma is_int_qmin p q : is_int p -> is_int q -> is_int (qmin p q).
Proof. intros Hp Hq. unfold qmin. destruct (Qle_bool p q); assumption. Qed.

Lemma list_max_in l : forall d, list_max d l = d \/ In (list_max d l) l.
Proof.
  unfold list_max. induction l as [|x l IH]; intros d; cbn [fold_left]; [left; reflexivity|].
  destruct (IH (qmax d x)) as [E|E].
  - rewrite E. unfold qmax. destruct (Qle_bool d x); [right; left; reflexivity|left; reflexivity].
  - right. right. exact E.
Qed.

Lemma max_flow_in I : basic_edges I <> [] -> exists e, In e (basic_edges I) /\ max_flow I = flow_of I e.
Proof.
  intros Hne. unfold max_flow, max_of. destruct (basic_edges I) as [|e0 r] eqn:B; [congruence|]. cbn [map].
  destruct (list_max_in (map (flow_of I) r) (flow_of I e0)) as [E|E].
  - exists e0. split; [left; reflexivity|exact E].
  - apply in_map_iff in E. destruct E as (e & E & He). exists e. split; [right; exact He|symmetry; exact E].
Qed.

Lemma cast_int_id b q : (b = true -> is_int q) -> cast b q == q.
Proof.
  unfold cast. destruct b; [|reflexivity]. intros H. destruct (H eq_refl) as [z Hz].
  rewrite (Qfloor_comp _ _ Hz), Qfloor_Z. symmetry. exact Hz.
Qed.

(* ------------------------------------------------------------------ C07 as one theorem *)
Definition adm_weights (I : err_inst) (w : N -> Q) : Prop :=
  forall i, In i (layers (eK I)) -> 0 <= w i /\ (e_int I = true -> is_int (w i)).

(* documented domain: constraints name edges, lengths and weights non-negative, scalings non-negative, integer
   weight type only with integer input weights, at least one non-ignored weighted edge, k >= 1 *)
Definition klae_side (I : err_inst) : Prop :=
  (forall c e, In c (p_cons (e_base I)) -> In e c -> In e (g_edges (eG I)) /\ 0 <= elen (e_base I) e) /\
  (forall e, In e (basic_edges I) -> 0 <= flow_of I e /\ 0 <= scale_of I e /\ (e_int I = true -> is_int (flow_of I e))) /\
  basic_edges I <> [] /\ (1 <= eK I)%nat.

Lemma klae_err_int I P w e : (e_int I = true -> is_int (flow_of I e)) ->
  (forall i, In i (layers (eK I)) -> e_int I = true -> is_int (w i)) -> e_int I = true -> is_int (klae_err I P w e).
Proof.
  intros Hf Hw Hi. unfold klae_err. apply is_int_abs. apply is_int_plus; [apply Hf; exact Hi|].
  apply is_int_opp. apply sumq_is_int. intros i Hin. apply is_int_mult; [apply Hw; assumption|apply onq_int].
Qed.

(* clipping the weights at max f yields a choice the LP can represent, with no larger cost *)
Lemma klae_clip I P w : klae_side I -> st_paths (eG I) (eK I) P -> adm_weights I w -> constraints_covered (e_base I) P ->
  let w' := fun i => qmin (w i) (max_flow I) in
  klae_choice I P w' /\ klae_cost I P w' <= klae_cost I P w.
Proof.
  intros (Hcons & Hfs & Hne & Hk) HP Hw Hcov w'.
  destruct (max_flow_in I Hne) as (em & Hem & Emax).
  assert (Hmint : e_int I = true -> is_int (max_flow I)) by (rewrite Emax; apply (Hfs em Hem)).
  assert (Hcast : cast (e_int I) (max_flow I) == max_flow I) by (apply cast_int_id; exact Hmint).
  destruct (wmax_no_loss I w (xz P) (fun e He => proj1 (Hfs e He)) (fun i Hi => proj1 (Hw i Hi))
              (fun i e _ _ => xz01 P i e) Hne) as [Hb Hle]. fold w' in Hb, Hle.
  assert (Hm0 : 0 <= max_flow I) by (rewrite Emax; apply (Hfs em Hem)).
  assert (Hmw : max_flow I <= w_max I).
  { pose proof (w_max_ge I) as HW. rewrite Hcast in HW.
    assert (H1 : 1 <= inject_Z (Z.of_nat (eK I))) by (change 1 with (inject_Z 1); rewrite <- Zle_Qle; lia).
    assert (H2 : 0 <= (inject_Z (Z.of_nat (eK I)) - 1) * max_flow I) by (apply Qmult_le_0_compat; lra). lra. }
  assert (Eerr : forall v e, klae_err I P v e == Qabs (flow_of I e - sumq (fun i => v i * inject_Z (xz P i e)) (layers (eK I)))).
  { intros v e. unfold klae_err. assert (E : sumq (fun i => v i * onq P i e) (layers (eK I)) == sumq (fun i => v i * inject_Z (xz P i e)) (layers (eK I)))
      by (apply sumq_ext; intros i _; rewrite onq_xz; reflexivity). rewrite E. reflexivity. }
  split.
  - split; [exact HP|]. split; [|split; [|exact Hcov]].
    + intros i Hi. destruct (Hb i Hi) as [B0 B1]. split; [split; [exact B0|eapply Qle_trans; [exact B1|exact Hmw]]|]. intros Hint. unfold w'.
      apply is_int_qmin; [apply (Hw i Hi); exact Hint|apply Hmint; exact Hint].
    + intros e He. split.
      * rewrite Eerr. apply (err_fits_bound I w' (xz P) e Hk Hcast He (proj1 (Hfs e He)) Hb (fun i _ => xz01 P i e)).
      * apply klae_err_int; [apply (Hfs e He)|].
        intros i Hi Hint. unfold w'. apply is_int_qmin; [apply (Hw i Hi); exact Hint|apply Hmint; exact Hint].
  - unfold klae_cost. apply sumq_le_mono. intros e He. destruct (Hfs e He) as (_ & S0 & _).
    pose proof (Hle e He) as L.
    assert (L' : klae_err I P w' e <= klae_err I P w e) by (rewrite (Eerr w' e), (Eerr w e); exact L).
    assert (H2 : 0 <= scale_of I e * (klae_err I P w e - klae_err I P w' e)) by (apply Qmult_le_0_compat; lra). lra.
Qed.

Theorem klae_optimal (I : err_inst) (a : var -> Q) (rank : node -> nat) (Rm : nat) :
  e_given I = None -> wf_graph (eG I) -> p_allow_empty (e_base I) = false ->
  (forall u v, In (u, v) (g_edges (eG I)) -> (rank u < rank v)%nat) -> (forall v, (rank v <= Rm)%nat) ->
  klae_side I ->
  sat a (encode_klae I) -> (forall b, sat b (encode_klae I) -> objective a (encode_klae I) <= objective b (encode_klae I)) ->
  (* the optimum is attained by k source-to-sink paths and admissible weights ... *)
  (exists P w, st_paths (eG I) (eK I) P /\ adm_weights I w /\ constraints_covered (e_base I) P /\
               klae_cost I P w == objective a (encode_klae I)) /\
  (* ... and no choice of k paths and non-negative weights of the requested type (bounded or not) is cheaper *)
  (forall P w, st_paths (eG I) (eK I) P -> adm_weights I w -> constraints_covered (e_base I) P ->
               objective a (encode_klae I) <= klae_cost I P w).
Proof.
  intros Hg WF Hae Hrank HR Hside Hsat Hopt. pose proof Hside as (Hcons & Hfs & Hne & Hk). split.
  - destruct (klae_decodes I a rank Rm Hg WF Hae Hrank HR (fun c e Hc He => proj1 (Hcons c e Hc He)) Hsat) as (HP & Hw & Hd & Hcov).
    set (P := dec_path (eG I) a Rm) in *. set (w := fun i => a (W i)) in *.
    exists P, w. split; [exact HP|]. split; [intros i Hi; destruct (Hw i Hi) as [[W0 _] Wi]; tauto|]. split; [exact Hcov|].
    assert (Hch : klae_choice I P w).
    { split; [exact HP|]. split; [exact Hw|]. split; [|exact Hcov]. intros e He. destruct (Hd e He) as [D1 D2]. split; [lra|].
      apply klae_err_int; [apply (Hfs e He)|intros i Hi; apply (Hw i Hi)]. }
    destruct (klae_complete I P w Hg WF Hae (fun c e Hc He => proj2 (Hcons c e Hc He)) Hch) as (b & Sb & Ob & _).
    apply Qle_antisym.
    + (* cost <= objective a: every error is dominated by its error variable *)
      rewrite (klae_objective_value I a). unfold klae_cost. apply sumq_le_mono. intros e He.
      destruct (Hfs e He) as (_ & S0 & _). destruct (Hd e He) as [D1 _].
      assert (H2 : 0 <= scale_of I e * (a (Err (fst e) (snd e)) - klae_err I P w e)) by (apply Qmult_le_0_compat; lra). lra.
    + rewrite <- Ob. apply Hopt. exact Sb.
  - intros P w HP Hw Hcov.
    destruct (klae_clip I P w Hside HP Hw Hcov) as [Hch Hle].
    destruct (klae_complete I P _ Hg WF Hae (fun c e Hc He => proj2 (Hcons c e Hc He)) Hch) as (b & Sb & Ob & _).
    apply (Qle_trans _ (objective b (encode_klae I))); [apply Hopt; exact Sb|]. rewrite Ob. exact Hle.
Qed.
