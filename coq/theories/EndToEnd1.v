(* From the caller's DAG to the s-t instance the theorems are about: the s-t graph built by the augmentation (Aug.v) with
   adjacency tables derived from the edge list is well formed (PathEncProofs.wf_graph), and a topological order of the caller's
   graph extends to a rank function of the s-t graph. *)
From Coq Require Import List NArith ZArith QArith Bool Arith Lia Permutation.
Import ListNotations.
From FP Require Import Lin PathEnc Aug AugProofs DagDecode PathEncProofs WfCheck.
Set Default Timeout 60.
Local Close Scope Q_scope.

Definition table (f : node -> list node) (l : list node) : list (node * list node) := map (fun v => (v, f v)) l.

Lemma lookup_table f l v : lookup_adj v (table f l) = if memnb v l then f v else [].
Proof.
  induction l as [|u l IH]; [reflexivity|]. cbn [table map lookup_adj memnb existsb].
  rewrite (N.eqb_sym v u). destruct (N.eqb_spec u v) as [->|_]; [reflexivity|]. exact IH.
Qed.

Definition st_of (V : list node) (E : list edge) (s t : node) : stgraph :=
  let A := aug_edges V E [] [] s t in
  {| g_nodes := s :: t :: V; g_edges := A; g_src := s; g_snk := t;
     g_succ := table (succ_of A) (s :: t :: V); g_pred := table (pred_of A) (s :: t :: V) |}.

Section StOf.
  Variables (V : list node) (E : list edge) (s t : node).
  Hypothesis Hs : ~ In s V.
  Hypothesis Ht : ~ In t V.
  Hypothesis Hst : s <> t.
  Hypothesis HE : forall e, In e E -> In (fst e) V /\ In (snd e) V.
  Hypothesis NDV : NoDup V.
  Hypothesis NDE : NoDup E.

  Let A := aug_edges V E [] [] s t.

  Lemma synth_nodup : forall l, NoDup l -> (forall u, In u l -> In u V) ->
    NoDup (flat_map (fun u => (if is_start E [] u then [(s, u)] else []) ++ (if is_end E [] u then [(u, t)] else [])) l).
  Proof.
    induction l as [|u l IH]; intros ND Hl; [constructor|]. inversion ND as [|? ? Hu ND']; subst. cbn [flat_map].
    assert (HuV : In u V) by (apply Hl; left; reflexivity).
    assert (Hrest : forall e, In e (flat_map (fun u => (if is_start E [] u then [(s, u)] else []) ++ (if is_end E [] u then [(u, t)] else [])) l) ->
                      exists u', In u' l /\ (e = (s, u') \/ e = (u', t))).
    { intros e He. apply in_flat_map in He. destruct He as (u' & Hu' & He). exists u'. split; [exact Hu'|].
      apply in_app_or in He. destruct He as [He|He].
      - destruct (is_start E [] u'); [destruct He as [<-|[]]; left; reflexivity|destruct He].
      - destruct (is_end E [] u'); [destruct He as [<-|[]]; right; reflexivity|destruct He]. }
    apply NoDup_app_intro.
    - apply NoDup_app_intro.
      + destruct (is_start E [] u); [constructor; [intros []|constructor]|constructor].
      + destruct (is_end E [] u); [constructor; [intros []|constructor]|constructor].
      + intros e H1 H2. destruct (is_start E [] u); [|destruct H1]. destruct H1 as [<-|[]].
        destruct (is_end E [] u); [|destruct H2]. destruct H2 as [H2|[]]. inversion H2. subst. contradiction.
    - apply IH; [exact ND'|]. intros x Hx. apply Hl. right. exact Hx.
    - intros e H1 H2. destruct (Hrest e H2) as (u' & Hu' & Hcase).
      assert (Hne : u' <> u) by (intros ->; contradiction).
      assert (Hu'V : In u' V) by (apply Hl; right; exact Hu').
      apply in_app_or in H1. destruct H1 as [H1|H1].
      + destruct (is_start E [] u); [|destruct H1]. destruct H1 as [<-|[]]. destruct Hcase as [Eq|Eq]; inversion Eq; subst.
        * congruence.
        * contradiction.
      + destruct (is_end E [] u); [|destruct H1]. destruct H1 as [<-|[]]. destruct Hcase as [Eq|Eq]; inversion Eq; subst.
        * contradiction.
        * congruence.
  Qed.

  Lemma aug_nodup : NoDup A.
  Proof.
    unfold A, aug_edges. apply NoDup_app_intro; [exact NDE|apply synth_nodup; [exact NDV|auto]|].
    intros e H1 H2. apply in_flat_map in H2. destruct H2 as (u & Hu & H2). apply HE in H1.
    apply in_app_or in H2. destruct H2 as [H2|H2].
    - destruct (is_start E [] u); [|destruct H2]. destruct H2 as [<-|[]]. cbn in H1. tauto.
    - destruct (is_end E [] u); [|destruct H2]. destruct H2 as [<-|[]]. cbn in H1. tauto.
  Qed.

  Lemma aug_ends e : In e A -> In (fst e) (s :: t :: V) /\ In (snd e) (s :: t :: V).
  Proof.
    intros He. apply (aug_in V E [] [] s t) in He. destruct He as [He|[(u & Hu & _ & ->)|(u & Hu & _ & ->)]].
    - apply HE in He. cbn. tauto.
    - cbn. tauto.
    - cbn. tauto.
  Qed.

  Theorem st_of_wf : wf_graph (st_of V E s t).
  Proof.
    constructor; cbn [st_of g_nodes g_edges g_src g_snk g_succ g_pred]; fold A.
    - exact aug_nodup.
    - exact aug_ends.
    - intros v. unfold succs. cbn [st_of g_succ]. fold A. rewrite lookup_table.
      destruct (memnb v (s :: t :: V)) eqn:M; [reflexivity|].
      unfold succ_of. rewrite filter_nil_not_node; [reflexivity|]. intros e He. apply N.eqb_neq. intros Eq.
      assert (H : In v (s :: t :: V)) by (rewrite <- Eq; apply (aug_ends e He)). apply memnb_In in H. congruence.
    - intros v. unfold preds. cbn [st_of g_pred]. fold A. rewrite lookup_table.
      destruct (memnb v (s :: t :: V)) eqn:M; [apply Permutation_refl|].
      unfold pred_of. rewrite filter_nil_not_node; [constructor|]. intros e He. apply N.eqb_neq. intros Eq.
      assert (H : In v (s :: t :: V)) by (rewrite <- Eq; apply (aug_ends e He)). apply memnb_In in H. congruence.
    - intros [a b] He Eq. cbn in Eq. subst b. revert He. apply aug_no_into_s; assumption.
    - intros [a b] He Eq. cbn in Eq. subst a. revert He. apply aug_no_out_t; assumption.
    - exact Hst.
  Qed.

  (* ---- a rank function of the s-t graph from a topological order of the caller's graph ---- *)
  Variable topo : list node.
  Fixpoint posn (l : list node) (v : node) : nat :=
    match l with [] => O | x :: r => if (x =? v)%N then O else S (posn r v) end.
  Lemma posn_le l v : (posn l v <= length l)%nat.
  Proof. induction l as [|x r IH]; cbn [posn length]; [lia|]. destruct (x =? v)%N; lia. Qed.

  Definition st_rank (v : node) : nat :=
    if (v =? s)%N then 0%nat else if (v =? t)%N then S (S (length topo)) else S (posn topo v).

  Hypothesis Htopo : forall u v, In (u, v) E -> (posn topo u < posn topo v)%nat.

  Theorem st_rank_increasing : forall u v, In (u, v) A -> (st_rank u < st_rank v)%nat.
  Proof.
    intros u v He. apply (aug_in V E [] [] s t) in He. unfold st_rank.
    destruct He as [He|[(x & Hx & _ & Eq)|(x & Hx & _ & Eq)]].
    - pose proof (HE _ He) as [Hu Hv]. cbn in Hu, Hv.
      destruct (N.eqb_spec u s) as [->|_]; [contradiction|]. destruct (N.eqb_spec u t) as [->|_]; [contradiction|].
      destruct (N.eqb_spec v s) as [->|_]; [contradiction|]. destruct (N.eqb_spec v t) as [->|_]; [contradiction|].
      specialize (Htopo u v He). lia.
    - injection Eq as -> ->. rewrite N.eqb_refl.
      destruct (N.eqb_spec x s) as [->|_]; [contradiction|]. destruct (N.eqb_spec x t); lia.
    - injection Eq as -> ->. destruct (N.eqb_spec x s) as [->|_]; [contradiction|].
      destruct (N.eqb_spec x t) as [->|_]; [contradiction|]. rewrite N.eqb_refl.
      destruct (N.eqb_spec t s) as [E'|_]; [congruence|]. pose proof (posn_le topo x). lia.
  Qed.

  Lemma st_rank_le : forall v, (st_rank v <= S (S (length topo)))%nat.
  Proof. intros v. unfold st_rank. destruct (v =? s)%N; [lia|]. destruct (v =? t)%N; [lia|]. pose proof (posn_le topo v). lia. Qed.
End StOf.
