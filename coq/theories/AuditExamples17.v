(* Instances of the exact hypotheses of older Props theorems (audit of Props/C04*.v, C16.v; see audit/props_C04_C06_C09_C16.md). *)
From Coq Require Import List NArith ZArith QArith Lqa Bool Arith Lia.
Import ListNotations.
From FP Require Import Lin Blocks BlocksProofs PathEnc PathEncProofs Euler EulerProofs1 EulerProofs4 WalkDecode SatCheck
                       WalkEncRows WalkEncRowsProofs WalkEncComplete WalkEncIff WalkSearch WalkMinimum WalkExamples.
From FP Require MiscEnc MiscEncProofs MefBound MefChecked.
Set Default Timeout 90.
Local Close Scope Q_scope.

(* ---- C04_small_flow_on_cycle_edge_is_infeasible: the self-loop with flow 1/4 meets every hypothesis *)
Definition quarter_loop : kfdc_inst := scale_inst (1 # 4)%Q (loop_inst 1).
Lemma small_flow_hypotheses :
  c_scale_free quarter_loop = false /\ In (0, 0)%N (kept_edges quarter_loop) /\ is_scc_edge (c_graph quarter_loop) (0, 0)%N = true /\
  In (0, 0)%N (map fst (c_flow quarter_loop)) /\ (0 < flow_of quarter_loop (0, 0)%N < 1)%Q /\
  forall a, ~ sat a (encode_kfdc quarter_loop).
Proof.
  split; [reflexivity|]. split; [vm_compute; left; reflexivity|]. split; [vm_compute; reflexivity|]. split; [vm_compute; left; reflexivity|].
  split; [vm_compute; split; reflexivity|]. intros a Ha. apply loop_quarter_infeasible. exists a. exact Ha.
Qed.

(* ---- C04_search_returns_least_feasible_k / C04_search_inconclusive_gives_no_answer: all hypotheses on a concrete status sequence *)
Definition ex_out (k : nat) : outcome := if k <? 3 then Infeasible else Optimal.
Lemma search_min_hypotheses :
  (forall j, ex_out j = Optimal <-> 3 <= j) /\ (forall j, ex_out j = Infeasible <-> ~ 3 <= j) /\
  (forall j : nat, (fun _ : nat => false) j = false) /\ (forall g, @None nat = Some g -> 3 <= g) /\
  3 <= 3 /\ (forall j, j < 3 -> ~ 3 <= j) /\ 2 <= 3 <= 5 /\
  mfdc_solve ex_out (fun _ => false) None 2 5 = Solved 3.
Proof.
  split; [intros j; unfold ex_out; destruct (Nat.ltb_spec j 3); split; intros H'; try discriminate; try reflexivity; lia|].
  split; [intros j; unfold ex_out; destruct (Nat.ltb_spec j 3); split; intros H'; try discriminate; try reflexivity; lia|].
  split; [reflexivity|]. split; [intros g Hg; discriminate Hg|]. split; [lia|]. split; [intros j Hj; lia|]. split; [lia|reflexivity].
Qed.

Definition ex_out2 (k : nat) : outcome := if k <? 3 then Infeasible else Other.
Lemma search_inconclusive_hypotheses :
  2 <= 3 <= 5 /\
  (forall j, 2 <= j < 3 -> ex_out2 j = Infeasible /\ (fun _ : nat => false) j = false /\ uses_given None j = false) /\
  ((fun _ : nat => false) 3 = true \/ (ex_out2 3 = Other /\ uses_given None 3 = false)) /\
  mfdc_solve ex_out2 (fun _ => false) None 2 5 = Unsolved.
Proof.
  split; [lia|]. split; [intros j Hj; assert (j = 2) by lia; subst; repeat split|]. split; [right; split; reflexivity|reflexivity].
Qed.

(* ---- C04_caps_of_the_code_as_it_is: every hypothesis on the self-loop traversed twice *)
Lemma caps_simple_hypotheses :
  c_scale_free (loop_inst 2) = false /\ (0 < kfdc_wmax (loop_inst 2))%Q /\ walk_decomposition (loop_inst 2) loop2_P loop2_w /\
  (forall i, In i (layers (c_k (loop_inst 2))) -> (loop2_w i <= kfdc_wmax (loop_inst 2))%Q) /\
  (forall i e, In i (layers (c_k (loop_inst 2))) -> In e (g_edges (c_graph (loop_inst 2))) ->
     (inject_Z (mult loop2_P i e) <= cap (kfdc_walk (loop_inst 2)) e)%Q).
Proof.
  destruct loop2_admissible as (HD & (C1 & C2 & _) & _).
  split; [reflexivity|]. split; [vm_compute; reflexivity|]. split; [exact HD|]. split; [exact C1|exact C2].
Qed.

(* ---- C16_optimal_solution_is_closest_flow (and its checked / integral forms): the solver hypotheses [sat a] and optimality of [a]
   on a -> b (3), b -> c (5): the assignment carrying the flow 3, 3 is satisfying, has objective 2, and is optimal *)
Import MiscEnc MiscEncProofs MefBound MefChecked.
Local Open Scope Q_scope.
Definition amef : mef_inst :=
  {| mef_nodes := [0; 1; 2]%N; mef_edges := [(0, 1); (1, 2)]%N; mef_flow := [((0, 1)%N, 3); ((1, 2)%N, 5)];
     mef_ignore := []; mef_scale := []; mef_lambda := 0; mef_src := None; mef_int := true |}.
Definition amef_a : var -> Q := assign_of amef (fun _ => 3).

Lemma amef_cost x : flow_cost amef x == absd 3 (x (0, 1)%N) + absd 5 (x (1, 2)%N).
Proof.
  unfold flow_cost. change (charged amef) with [(0, 1); (1, 2)]%N. change (src_out amef) with (@nil PathEnc.edge).
  cbn [sumq]. change (MiscEnc.scale_of amef (0, 1)%N) with 1. change (MiscEnc.scale_of amef (1, 2)%N) with 1.
  change (fval amef (0, 1)%N) with 3. change (fval amef (1, 2)%N) with 5. change (mef_lambda amef) with 0. ring.
Qed.

Lemma amef_solver_hypotheses :
  mef_domain_b amef = true /\ mef_int amef = true /\
  sat amef_a (encode_mef amef) /\ (forall b, sat b (encode_mef amef) -> obj_le (encode_mef amef) amef_a b) /\
  objective amef_a (encode_mef amef) == 2 /\ xof amef_a (0, 1)%N == 3 /\ xof amef_a (1, 2)%N == 3.
Proof.
  assert (Hsat : sat amef_a (encode_mef amef)).
  { split; [apply Forall_dec_cols; vm_compute; reflexivity|apply Forall_dec_rows; vm_compute; reflexivity]. }
  assert (Hobj : objective amef_a (encode_mef amef) == 2) by (vm_compute; reflexivity).
  split; [vm_compute; reflexivity|]. split; [reflexivity|]. split; [exact Hsat|]. split; [|split; [exact Hobj|split; vm_compute; reflexivity]].
  intros b Hb. unfold obj_le. change (maximize (encode_mef amef)) with false. cbv iota. rewrite Hobj.
  assert (Hs : forall e, In e (mef_edges amef) -> 0 <= MiscEnc.scale_of amef e) by (intros e _; unfold MiscEnc.scale_of; cbn; lra).
  pose proof (mef_objective_lower_bound amef b Hs Hb) as Hlb. rewrite amef_cost in Hlb.
  pose proof (proj1 (mef_enc_exact amef b) Hb) as (_ & Hc & _).
  specialize (Hc 1%N ltac:(cbn; tauto) eq_refl). cbn in Hc.
  destruct (absd_spec 3 (xof b (0, 1)%N)) as (A1 & A2 & _). destruct (absd_spec 5 (xof b (1, 2)%N)) as (B1 & B2 & _). lra.
Qed.

(* ---- C09_minpathcovercycles_returns_minimum_within_caps: ALL hypotheses (solver specification included) on the self-loop graph:
   the k-cover model is feasible exactly for k >= 1 *)
From FP Require Import WalkCoverIff WalkWidthCaps.
Local Close Scope Q_scope.
Lemma loop_cover_adm j : 1 <= j -> cover_admissible (kset loop_kpcc j) (fun _ => [1; 0; 0; 2]%N).
Proof.
  intros Hj. split; [|split; [|split; [|split]]].
  - intros i _. split; [reflexivity|]. split; [reflexivity|]. intros e He. cbn in He. cbn. tauto.
  - intros e He _. exists 0%N. split; [apply in_layers; exists 0; split; [cbn; lia|reflexivity]|].
    cbn in He. destruct He as [<-|[<-|[<-|[]]]]; vm_compute; discriminate.
  - intros i e _ He. cbn in He. destruct He as [<-|[<-|[<-|[]]]]; vm_compute; discriminate.
  - split; [intros e i H|intros e i m H]; cbn in H; destruct H.
  - intros n c H. cbn in H. destruct n; discriminate.
Qed.
Lemma loop_cover_0 : ~ exists P, cover_admissible (kset loop_kpcc 0) P.
Proof.
  intros (P & _ & Hc & _). destruct (Hc (0, 0)%N) as (i & Hi & _); [cbn; tauto|vm_compute; reflexivity|]. cbn in Hi. exact Hi.
Qed.
Definition cover_out (j : nat) : outcome := if j =? 0 then Infeasible else Optimal.
Lemma loop_cover_search_hypotheses :
  (forall j, pc_k (kset loop_kpcc j) = j /\ wf_stg (pc_graph (kset loop_kpcc j)) /\ o_allow_empty (pc_opts (kset loop_kpcc j)) = false /\
             winputs_ok (kpcc_walk (kset loop_kpcc j))) /\
  (forall j, cover_out j = Optimal <-> exists a, sat a (encode_kpcc (kset loop_kpcc j))) /\
  (forall j, cover_out j = Infeasible <-> ~ exists a, sat a (encode_kpcc (kset loop_kpcc j))) /\
  (exists P, cover_admissible (kset loop_kpcc 1) P) /\
  (forall j, j < 1 -> ~ exists P, cover_admissible (kset loop_kpcc j) P) /\ 0 <= 1 <= 3 /\
  mfdc_solve cover_out (fun _ => false) None 0 3 = Solved 1.
Proof.
  assert (Hinst : forall j, pc_k (kset loop_kpcc j) = j /\ wf_stg (pc_graph (kset loop_kpcc j)) /\ o_allow_empty (pc_opts (kset loop_kpcc j)) = false /\
             winputs_ok (kpcc_walk (kset loop_kpcc j))).
  { intros j. split; [reflexivity|]. split; [exact loopG_wf|]. split; [reflexivity|].
    split; [intros c e Hc; cbn in Hc; destruct Hc|intros w e Hw; cbn in Hw; destruct Hw]. }
  assert (Iff : forall j, (exists a, sat a (encode_kpcc (kset loop_kpcc j))) <-> 1 <= j).
  { intros j. destruct (Hinst j) as (_ & WF & Hae & Hin). rewrite (kpcc_feasible_iff_within_caps _ WF Hae Hin). split.
    - intros HP. destruct j; [exfalso; exact (loop_cover_0 HP)|lia].
    - intros Hj. eexists. exact (loop_cover_adm j Hj). }
  split; [exact Hinst|]. split; [|split; [|split; [|split; [|split; [lia|reflexivity]]]]].
  - intros j. rewrite Iff. unfold cover_out. destruct j; cbn; split; intros H; try discriminate; try reflexivity; lia.
  - intros j. rewrite Iff. unfold cover_out. destruct j; cbn; split; intros H; try discriminate; try reflexivity; lia.
  - eexists. exact (loop_cover_adm 1 (le_n _)).
  - intros j Hj. assert (j = 0) by lia. subst. exact loop_cover_0.
Qed.

(* ---- C06_excess_flow_safe / C06_excess_pos_dec_sound: all hypotheses about the decomposition D on the flow 5 splitting 3 / 2 *)
From FP Require Safety SafetyReach SafetyProofs1 SafetyProofs3.
Definition xfl : list ((N * N) * Z) := [((0,1)%N,5%Z);((1,2)%N,3%Z);((1,3)%N,2%Z);((2,4)%N,3%Z);((3,4)%N,2%Z);((4,5)%N,5%Z)].
Definition xD : list (list N * Z) := [([0;1;2;4;5]%N, 3%Z); ([0;1;3;4;5]%N, 2%Z)].
Lemma excess_hypotheses :
  Safety.excess_pos_dec xfl [0;1;2;4;5]%N = true /\
  (forall pw, In pw xD -> (0 <= snd pw)%Z) /\
  (forall pw, In pw xD -> incl (Safety.pairs (fst pw)) (map fst xfl)) /\
  (forall pw x, In pw xD -> ~ In (last (fst pw) 0%N, x) (map fst xfl)) /\
  (forall e, In e (map fst xfl) -> SafetyProofs3.Wt xD (SafetyProofs3.hasb e) = Safety.flow_of xfl e) /\
  (0 < Safety.excess (map fst xfl) (Safety.flow_of xfl) [0;1;2;4;5]%N)%Z.
Proof.
  split; [vm_compute; reflexivity|]. split; [intros pw [<-|[<-|[]]]; cbn; lia|].
  split; [intros pw [<-|[<-|[]]] e He; cbn in He |- *; tauto|].
  split; [intros pw x [<-|[<-|[]]] H; cbn in H; repeat (destruct H as [H|H]; [discriminate H|]); exact H|].
  split; [intros e He; cbn in He; repeat (destruct He as [<-|He]; [vm_compute; reflexivity|]); destruct He|vm_compute; reflexivity].
Qed.

(* ---- C09_search_returns_least_feasible_k (Search.search_min): all four hypotheses on a concrete status list *)
From FP Require Search.
Lemma mpc_search_hypotheses :
  let feasible := fun k => (2 <=? k)%nat in
  let sts := map (fun k => Search.mkraw (if feasible k then Search.Optimal else Search.Infeasible) false) (seq 1 4) in
  (forall i, (i < 5 - 1)%nat -> exists x, nth_error sts i = Some x /\
             Search.status_of x = if feasible (1 + i)%nat then Search.Optimal else Search.Infeasible) /\
  feasible 2%nat = true /\ (forall k, (k < 2)%nat -> feasible k = false) /\ (1 <= 2 < 5)%nat /\
  Search.so_res (Search.mpc_solve true 1 5 sts) = Search.Solved 2.
Proof.
  cbn zeta. split; [|split; [reflexivity|split; [|split; [lia|vm_compute; reflexivity]]]].
  - intros i Hi. do 4 (destruct i as [|i]; [eexists; split; reflexivity|]). lia.
  - intros k Hk. destruct k as [|[|k]]; [reflexivity|reflexivity|lia].
Qed.

(* ---- C06_inexact_excess_flow_safe: all hypotheses (interval bounds around the flow 5 -> 3 / 2 -> 5, the decomposition xD) *)
Definition xlb (e : N * N) : Z := (Safety.flow_of xfl e - 1)%Z.
Definition xub (e : N * N) : Z := (Safety.flow_of xfl e + 1)%Z.
Lemma inexact_hypotheses :
  (forall e, (xlb e <= Safety.flow_of xfl e)%Z) /\ (forall e, (Safety.flow_of xfl e <= xub e)%Z) /\
  (forall pw, In pw xD -> (0 <= snd pw)%Z) /\
  (forall pw, In pw xD -> incl (Safety.pairs (fst pw)) (map fst xfl)) /\
  (forall pw x, In pw xD -> ~ In (last (fst pw) 0%N, x) (map fst xfl)) /\
  (forall e, In e (map fst xfl) -> SafetyProofs3.Wt xD (SafetyProofs3.hasb e) = Safety.flow_of xfl e) /\
  incl (Safety.pairs [0;1;2;4;5]%N) (map fst xfl) /\
  (0 < Safety.inexact_excess (map fst xfl) xlb xub [0;1;2;4;5]%N)%Z.
Proof.
  destruct excess_hypotheses as (_ & H2 & H3 & H4 & H5 & _).
  split; [intros e; unfold xlb; lia|]. split; [intros e; unfold xub; lia|]. split; [exact H2|]. split; [exact H3|]. split; [exact H4|].
  split; [exact H5|]. split; [intros e He; cbn in He |- *; tauto|vm_compute; reflexivity].
Qed.

(* ---- C06_fix_certified_sound: one concrete (G, X, ss, C): the figure-eight graph with a by-pass, two trusted items, their two safe
   sequences (pairwise incompatible: both leave the source), and a walk cover of the items *)
Definition fGc : list (N * N) := [(0,1);(1,2);(2,1);(2,3);(3,2);(2,4);(4,9);(0,5);(5,9)]%N.
Definition fX : list (list (N * N)) := [[(3,2)]; [(0,5)]]%N.
Definition fss : list (list (N * N)) := [[(0,1);(1,2);(2,3);(3,2);(2,4);(4,9)]; [(0,5);(5,9)]]%N.
Definition fC : list (list (N * N)) := [[(0,1);(1,2);(2,3);(3,2);(2,1);(1,2);(2,4);(4,9)]; [(0,5);(5,9)]]%N.
Lemma fix_certified_hypotheses :
  Safety.pairwise_incompat_dec fGc 0%N 9%N fss = true /\ forallb (Safety.safe_dec fGc 0%N 9%N fX) fss = true /\
  Safety.walk_cover fGc 0%N 9%N fX fC.
Proof.
  split; [vm_compute; reflexivity|]. split; [vm_compute; reflexivity|]. split.
  - intros w [<-|[<-|[]]]; (split; [repeat constructor|intros e He; cbn in He |- *; tauto]).
  - intros c [<-|[<-|[]]].
    + eexists. split; [left; reflexivity|]. apply SafetyReach.greedy0. vm_compute. reflexivity.
    + eexists. split; [right; left; reflexivity|]. apply SafetyReach.greedy0. vm_compute. reflexivity.
Qed.

(* ---- C09_minpathcover_end_to_end / C09_minpathcover_returns_the_width in EDGE mode: the solver-specification hypotheses on the diamond
   1 -> {2,3} -> 4 (source 0, sink 5): the k-cover model is feasible exactly for k >= 2 *)
From FP Require Import PathCoverComplete EndToEnd1 EndToEnd2 EndToEndCover EndToEndExample Dilworth.
Lemma pairs_out_unique : forall (l : list N) a b c, NoDup l -> In (a, b) (EulerProofs1.pairs l) -> In (a, c) (EulerProofs1.pairs l) -> b = c.
Proof.
  induction l as [|x l IH]; intros a b c ND H1 H2; [destruct H1|]. destruct l as [|y r]; [destruct H1|].
  change (EulerProofs1.pairs (x :: y :: r)) with ((x, y) :: EulerProofs1.pairs (y :: r)) in *. inversion ND as [|? ? Hx ND']; subst.
  assert (F : forall d, In (x, d) (EulerProofs1.pairs (y :: r)) -> False).
  { intros d Hd. apply Hx. apply in_removelast. apply (in_pairs_fst (x, d) (y :: r) Hd). }
  destruct H1 as [E1|H1], H2 as [E2|H2].
  - congruence.
  - injection E1 as <- <-. exfalso. exact (F c H2).
  - injection E2 as <- <-. exfalso. exact (F b H1).
  - exact (IH a b c ND' H1 H2).
Qed.

Definition dP (i : N) : list N := if (i =? 0)%N then [0; 1; 2; 4; 5]%N else [0; 1; 3; 4; 5]%N.
Lemma edge_cover_solver_hypotheses :
  let feasible := fun k => (2 <=? k)%nat in
  let sts := map (fun k => Search.mkraw (if feasible k then Search.Optimal else Search.Infeasible) false) (seq 1 4) in
  (forall k, feasible k = true <-> exists a, sat a (encode_kpc (cover_inst xV xE 0%N 5%N k) (synth xV xE 0%N 5%N))) /\
  (forall i, (i < Datatypes.S (length xE) - 1)%nat -> exists x, nth_error sts i = Some x /\
             Search.status_of x = if feasible (1 + i)%nat then Search.Optimal else Search.Infeasible) /\
  (forall k, (k < 1)%nat -> feasible k = false) /\
  Search.so_res (Search.mpc_solve true 1 (Datatypes.S (length xE)) sts) = Search.Solved 2.
Proof.
  cbn zeta. destruct diamond_premises as (Hs & Ht & Hst & HE & NDV & NDE & Htopo).
  split; [|split; [|split; [|vm_compute; reflexivity]]].
  - intros k.
    rewrite (kpc_feasible_iff (cover_inst xV xE 0%N 5%N k) _ (st_rank 0%N 5%N [1; 2; 3; 4]%N) (Datatypes.S (Datatypes.S 4))
               (st_of_wf xV xE 0%N 5%N Hs Ht Hst HE NDV NDE) eq_refl
               (st_rank_increasing xV xE 0%N 5%N Hs Ht Hst HE _ Htopo) (fun v => st_rank_le 0%N 5%N Hst _ v)
               (fun c e (Hc : In c []) => match Hc with end)).
    rewrite Nat.leb_le. split.
    + intros Hk. exists dP. split; [split|intros n c Hn; destruct n; discriminate].
      * intros i _. unfold dP. destruct (i =? 0)%N; (split; [reflexivity|]); (split; [reflexivity|]);
          (split; [repeat constructor; cbn; intuition discriminate|]); intros e He; vm_compute in He; vm_compute; tauto.
      * intros e He Hig. vm_compute in He.
        destruct He as [<-|[<-|[<-|[<-|He]]]].
        -- exists 0%N. split; [apply (proj2 (in_layers k _)); exists 0%nat; split; [lia|reflexivity]|vm_compute; reflexivity].
        -- exists 1%N. split; [apply (proj2 (in_layers k _)); exists 1%nat; split; [lia|reflexivity]|vm_compute; reflexivity].
        -- exists 0%N. split; [apply (proj2 (in_layers k _)); exists 0%nat; split; [lia|reflexivity]|vm_compute; reflexivity].
        -- exists 1%N. split; [apply (proj2 (in_layers k _)); exists 1%nat; split; [lia|reflexivity]|vm_compute; reflexivity].
        -- repeat (destruct He as [<-|He]; [vm_compute in Hig; discriminate Hig|]). destruct He.
    + intros (P & (HP & Hcov) & _). destruct k as [|[|k]]; [exfalso|exfalso|lia].
      * destruct (Hcov (1, 2)%N ltac:(vm_compute; tauto) ltac:(vm_compute; reflexivity)) as (i & Hi & _). destruct Hi.
      * destruct (Hcov (1, 2)%N ltac:(vm_compute; tauto) ltac:(vm_compute; reflexivity)) as (i & Hi & M1).
        destruct (Hcov (1, 3)%N ltac:(vm_compute; tauto) ltac:(vm_compute; reflexivity)) as (j & Hj & M2).
        cbn in Hi, Hj. destruct Hi as [<-|[]]. destruct Hj as [<-|[]].
        apply mem_edge_In in M1, M2. destruct (HP 0%N ltac:(left; reflexivity)) as (_ & _ & ND & _).
        pose proof (pairs_out_unique _ _ _ _ ND M1 M2) as X. discriminate X.
  - intros i Hi. change (length xE) with 4%nat in Hi. do 4 (destruct i as [|i]; [eexists; split; reflexivity|]). lia.
  - intros k Hk. destruct k; [reflexivity|lia].
Qed.

(* ---- C04_returns_minimum_within_caps: ALL hypotheses (solver specification included) on the self-loop graph with flow 2: an
   admissible decomposition into j walks exists exactly for j >= 1 (one walk of weight 1 going round twice, j - 1 walks of weight 0) *)
From FP Require Import WalkEncRows WalkEncIff WalkSearch WalkExamples WalkMinimum.
Definition loopk (j : nat) : kfdc_inst :=
  {| c_graph := loopG; c_k := j; c_flow := [((0, 0)%N, 2%Q)]; c_ignore := []; c_int := false;
     c_cons := []; c_cov := 1%Q; c_opts := no_opts; c_safe_lists := []; c_fix := []; c_given := None;
     c_scale_free := false |}.
Definition lkP (i : N) : list node := if (i =? 0)%N then [1; 0; 0; 0; 2]%N else [1; 0; 2]%N.
Definition lkw (i : N) : Q := if (i =? 0)%N then 1%Q else 0%Q.

Lemma loopk_adm j : 1 <= j -> admissible (loopk j) lkP lkw.
Proof.
  intros Hj.
  assert (Hq : (1 <= qnat j)%Q).
  { unfold qnat. change 1%Q with (inject_Z 1). rewrite <- Zle_Qle. lia. }
  assert (Hwm : (kfdc_wmax (loopk j) == qnat j * 2)%Q).
  { unfold kfdc_wmax. change (c_k (loopk j)) with j. apply Qmult_comp; [reflexivity|]. vm_compute. reflexivity. }
  assert (HD : walk_decomposition (loopk j) lkP lkw).
  { split; [|split].
    - intros i _. unfold lkP. destruct (i =? 0)%N; (split; [reflexivity|]); (split; [reflexivity|]); intros e He; cbn in He; cbn; tauto.
    - intros i _. unfold lkw. destruct (i =? 0)%N; (split; [lra|discriminate]).
    - intros e He. vm_compute in He. destruct He as [<-|[]]. change (flow_of (loopk j) (0, 0)%N) with 2%Q.
      change (c_k (loopk j)) with j. destruct j as [|n]; [lia|].
      change (layers (Datatypes.S n)) with (0%N :: map N.of_nat (seq 1 n)). cbn [sumq].
      rewrite (MefBound.sumq_zero _ (map N.of_nat (seq 1 n))).
      + vm_compute. reflexivity.
      + intros x Hx. apply in_map_iff in Hx. destruct Hx as (m & <- & Hm). apply in_seq in Hm. unfold lkw.
        destruct (N.eqb_spec (N.of_nat m) 0); [lia|]. ring. }
  split; [exact HD|]. split; [|split; [|split]].
  - apply (within_caps_simple (loopk j) lkP lkw eq_refl); [rewrite Hwm; lra|exact HD| |].
    + intros i _. rewrite Hwm. unfold lkw. destruct (i =? 0)%N; lra.
    + intros i e _ He. cbn in He. unfold mult, lkP. destruct He as [<-|[<-|[<-|[]]]]; destruct (i =? 0)%N; vm_compute; discriminate.
  - split; [intros e i H|intros e i m H]; vm_compute in H; destruct H.
  - intros n c H. cbn in H. destruct n; discriminate.
  - intros ws n w H. discriminate H.
Qed.
Lemma loopk_0 : ~ exists P wt, admissible (loopk 0) P wt.
Proof.
  intros (P & wt & (_ & _ & Hf) & _). specialize (Hf (0, 0)%N ltac:(vm_compute; tauto)). vm_compute in Hf. discriminate Hf.
Qed.
Lemma loop_flow_search_hypotheses :
  (forall j, c_k (loopk j) = j /\ wf_stg (c_graph (loopk j)) /\ o_allow_empty (c_opts (loopk j)) = false /\ inputs_ok (loopk j)) /\
  (forall j, cover_out j = Optimal <-> exists a, sat a (encode_kfdc (loopk j))) /\
  (forall j, cover_out j = Infeasible <-> ~ exists a, sat a (encode_kfdc (loopk j))) /\
  (forall j : nat, (fun _ : nat => false) j = false) /\
  (forall g, @None nat = Some g -> exists P wt, admissible (loopk g) P wt) /\
  (exists P wt, admissible (loopk 1) P wt) /\
  (forall j, j < 1 -> ~ exists P wt, admissible (loopk j) P wt) /\ 0 <= 1 <= 3 /\
  mfdc_solve cover_out (fun _ => false) None 0 3 = Solved 1.
Proof.
  assert (Hinst : forall j, c_k (loopk j) = j /\ wf_stg (c_graph (loopk j)) /\ o_allow_empty (c_opts (loopk j)) = false /\ inputs_ok (loopk j)).
  { intros j. split; [reflexivity|]. split; [exact loopG_wf|]. split; [reflexivity|].
    split; [intros c e Hc; cbn in Hc; destruct Hc|intros w e Hw; cbn in Hw; destruct Hw]. }
  assert (Iff : forall j, (exists a, sat a (encode_kfdc (loopk j))) <-> 1 <= j).
  { intros j. destruct (Hinst j) as (_ & WF & Hae & Hin). rewrite (kfdc_feasible_iff_within_caps _ WF Hae Hin). split.
    - intros HP. destruct j; [exfalso; exact (loopk_0 HP)|lia].
    - intros Hj. exists lkP, lkw. exact (loopk_adm j Hj). }
  split; [exact Hinst|]. split; [|split; [|split; [reflexivity|split; [discriminate|split; [|split; [|split; [lia|reflexivity]]]]]]].
  - intros j. rewrite Iff. unfold cover_out. destruct j; cbn; split; intros H; try discriminate; try reflexivity; lia.
  - intros j. rewrite Iff. unfold cover_out. destruct j; cbn; split; intros H; try discriminate; try reflexivity; lia.
  - exists lkP, lkw. exact (loopk_adm 1 (le_n _)).
  - intros j Hj. assert (j = 0) by lia. subst. exact loopk_0.
Qed.
