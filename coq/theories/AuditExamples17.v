(* Instances of the exact hypotheses of older Props theorems (audit of Props/C04*.v, C16.v; see audit/props_C04_C06_C09_C16.md). *)
From Coq Require Import List NArith ZArith QArith Lqa Bool Arith Lia.
Import ListNotations.
From FP Require Import Lin Blocks BlocksProofs PathEnc PathEncProofs Euler EulerProofs1 EulerProofs4 WalkDecode SatCheck
                       WalkEncRows WalkEncRowsProofs WalkEncComplete WalkEncIff WalkSearch WalkMinimum WalkExamples.
From FP Require MiscEnc MiscEncProofs MefBound MefChecked.
Set Default Timeout 90.
Local Close Scope Q_scope.

(* ---- C04_small_flow_on_cycle_edge_is_infeasible: the self-loop with flow 1/4 meets every hypothesis *)
Definition quarter_loop : kfdc_inst := scale_inst (1 # 4)%Q (loop_inst 1).
Lemma small_flow_hypotheses :
  c_scale_free quarter_loop = false /\ In (0, 0)%N (kept_edges quarter_loop) /\ is_scc_edge (c_graph quarter_loop) (0, 0)%N = true /\
  In (0, 0)%N (map fst (c_flow quarter_loop)) /\ (0 < flow_of quarter_loop (0, 0)%N < 1)%Q /\
  forall a, ~ sat a (encode_kfdc quarter_loop).
Proof.
  split; [reflexivity|]. split; [vm_compute; left; reflexivity|]. split; [vm_compute; reflexivity|]. split; [vm_compute; left; reflexivity|].
  split; [vm_compute; split; reflexivity|]. intros a Ha. apply loop_quarter_infeasible. exists a. exact Ha.
Qed.

(* ---- C04_search_returns_least_feasible_k / C04_search_inconclusive_gives_no_answer: all hypotheses on a concrete status sequence *)
Definition ex_out (k : nat) : outcome := if k <? 3 then Infeasible else Optimal.
Lemma search_min_hypotheses :
  (forall j, ex_out j = Optimal <-> 3 <= j) /\ (forall j, ex_out j = Infeasible <-> ~ 3 <= j) /\
  (forall j : nat, (fun _ : nat => false) j = false) /\ (forall g, @None nat = Some g -> 3 <= g) /\
  3 <= 3 /\ (forall j, j < 3 -> ~ 3 <= j) /\ 2 <= 3 <= 5 /\
  mfdc_solve ex_out (fun _ => false) None 2 5 = Solved 3.
Proof.
  split; [intros j; unfold ex_out; destruct (Nat.ltb_spec j 3); split; intros H'; try discriminate; try reflexivity; lia|].
  split; [intros j; unfold ex_out; destruct (Nat.ltb_spec j 3); split; intros H'; try discriminate; try reflexivity; lia|].
  split; [reflexivity|]. split; [intros g Hg; discriminate Hg|]. split; [lia|]. split; [intros j Hj; lia|]. split; [lia|reflexivity].
Qed.

Definition ex_out2 (k : nat) : outcome := if k <? 3 then Infeasible else Other.
Lemma search_inconclusive_hypotheses :
  2 <= 3 <= 5 /\
  (forall j, 2 <= j < 3 -> ex_out2 j = Infeasible /\ (fun _ : nat => false) j = false /\ uses_given None j = false) /\
  ((fun _ : nat => false) 3 = true \/ (ex_out2 3 = Other /\ uses_given None 3 = false)) /\
  mfdc_solve ex_out2 (fun _ => false) None 2 5 = Unsolved.
Proof.
  split; [lia|]. split; [intros j Hj; assert (j = 2) by lia; subst; repeat split|]. split; [right; split; reflexivity|reflexivity].
Qed.

(* ---- C04_caps_of_the_code_as_it_is: every hypothesis on the self-loop traversed twice *)
Lemma caps_simple_hypotheses :
  c_scale_free (loop_inst 2) = false /\ (0 < kfdc_wmax (loop_inst 2))%Q /\ walk_decomposition (loop_inst 2) loop2_P loop2_w /\
  (forall i, In i (layers (c_k (loop_inst 2))) -> (loop2_w i <= kfdc_wmax (loop_inst 2))%Q) /\
  (forall i e, In i (layers (c_k (loop_inst 2))) -> In e (g_edges (c_graph (loop_inst 2))) ->
     (inject_Z (mult loop2_P i e) <= cap (kfdc_walk (loop_inst 2)) e)%Q).
Proof.
  destruct loop2_admissible as (HD & (C1 & C2 & _) & _).
  split; [reflexivity|]. split; [vm_compute; reflexivity|]. split; [exact HD|]. split; [exact C1|exact C2].
Qed.

(* ---- C16_optimal_solution_is_closest_flow (and its checked / integral forms): the solver hypotheses [sat a] and optimality of [a]
   on a -> b (3), b -> c (5): the assignment carrying the flow 3, 3 is satisfying, has objective 2, and is optimal *)
Import MiscEnc MiscEncProofs MefBound MefChecked.
Local Open Scope Q_scope.
Definition amef : mef_inst :=
  {| mef_nodes := [0; 1; 2]%N; mef_edges := [(0, 1); (1, 2)]%N; mef_flow := [((0, 1)%N, 3); ((1, 2)%N, 5)];
     mef_ignore := []; mef_scale := []; mef_lambda := 0; mef_src := None; mef_int := true |}.
Definition amef_a : var -> Q := assign_of amef (fun _ => 3).

Lemma amef_cost x : flow_cost amef x == absd 3 (x (0, 1)%N) + absd 5 (x (1, 2)%N).
Proof.
  unfold flow_cost. change (charged amef) with [(0, 1); (1, 2)]%N. change (src_out amef) with (@nil PathEnc.edge).
  cbn [sumq]. change (MiscEnc.scale_of amef (0, 1)%N) with 1. change (MiscEnc.scale_of amef (1, 2)%N) with 1.
  change (fval amef (0, 1)%N) with 3. change (fval amef (1, 2)%N) with 5. change (mef_lambda amef) with 0. ring.
Qed.

Lemma amef_solver_hypotheses :
  mef_domain_b amef = true /\ mef_int amef = true /\
  sat amef_a (encode_mef amef) /\ (forall b, sat b (encode_mef amef) -> obj_le (encode_mef amef) amef_a b) /\
  objective amef_a (encode_mef amef) == 2 /\ xof amef_a (0, 1)%N == 3 /\ xof amef_a (1, 2)%N == 3.
Proof.
  assert (Hsat : sat amef_a (encode_mef amef)).
  { split; [apply Forall_dec_cols; vm_compute; reflexivity|apply Forall_dec_rows; vm_compute; reflexivity]. }
  assert (Hobj : objective amef_a (encode_mef amef) == 2) by (vm_compute; reflexivity).
  split; [vm_compute; reflexivity|]. split; [reflexivity|]. split; [exact Hsat|]. split; [|split; [exact Hobj|split; vm_compute; reflexivity]].
  intros b Hb. unfold obj_le. change (maximize (encode_mef amef)) with false. cbv iota. rewrite Hobj.
  assert (Hs : forall e, In e (mef_edges amef) -> 0 <= MiscEnc.scale_of amef e) by (intros e _; unfold MiscEnc.scale_of; cbn; lra).
  pose proof (mef_objective_lower_bound amef b Hs Hb) as Hlb. rewrite amef_cost in Hlb.
  pose proof (proj1 (mef_enc_exact amef b) Hb) as (_ & Hc & _).
  specialize (Hc 1%N ltac:(cbn; tauto) eq_refl). cbn in Hc.
  destruct (absd_spec 3 (xof b (0, 1)%N)) as (A1 & A2 & _). destruct (absd_spec 5 (xof b (1, 2)%N)) as (B1 & B2 & _). lra.
Qed.

(* ---- C09_minpathcovercycles_returns_minimum_within_caps: ALL hypotheses (solver specification included) on the self-loop graph:
   the k-cover model is feasible exactly for k >= 1 *)
From FP Require Import WalkCoverIff WalkWidthCaps.
Local Close Scope Q_scope.
Lemma loop_cover_adm j : 1 <= j -> cover_admissible (kset loop_kpcc j) (fun _ => [1; 0; 0; 2]%N).
Proof.
  intros Hj. split; [|split; [|split; [|split]]].
  - intros i _. split; [reflexivity|]. split; [reflexivity|]. intros e He. cbn in He. cbn. tauto.
  - intros e He _. exists 0%N. split; [apply in_layers; exists 0; split; [cbn; lia|reflexivity]|].
    cbn in He. destruct He as [<-|[<-|[<-|[]]]]; vm_compute; discriminate.
  - intros i e _ He. cbn in He. destruct He as [<-|[<-|[<-|[]]]]; vm_compute; discriminate.
  - split; [intros e i H|intros e i m H]; cbn in H; destruct H.
  - intros n c H. cbn in H. destruct n; discriminate.
Qed.
Lemma loop_cover_0 : ~ exists P, cover_admissible (kset loop_kpcc 0) P.
Proof.
  intros (P & _ & Hc & _). destruct (Hc (0, 0)%N) as (i & Hi & _); [cbn; tauto|vm_compute; reflexivity|]. cbn in Hi. exact Hi.
Qed.
Definition cover_out (j : nat) : outcome := if j =? 0 then Infeasible else Optimal.
Lemma loop_cover_search_hypotheses :
  (forall j, pc_k (kset loop_kpcc j) = j /\ wf_stg (pc_graph (kset loop_kpcc j)) /\ o_allow_empty (pc_opts (kset loop_kpcc j)) = false /\
             winputs_ok (kpcc_walk (kset loop_kpcc j))) /\
  (forall j, cover_out j = Optimal <-> exists a, sat a (encode_kpcc (kset loop_kpcc j))) /\
  (forall j, cover_out j = Infeasible <-> ~ exists a, sat a (encode_kpcc (kset loop_kpcc j))) /\
  (exists P, cover_admissible (kset loop_kpcc 1) P) /\
  (forall j, j < 1 -> ~ exists P, cover_admissible (kset loop_kpcc j) P) /\ 0 <= 1 <= 3 /\
  mfdc_solve cover_out (fun _ => false) None 0 3 = Solved 1.
Proof.
  assert (Hinst : forall j, pc_k (kset loop_kpcc j) = j /\ wf_stg (pc_graph (kset loop_kpcc j)) /\ o_allow_empty (pc_opts (kset loop_kpcc j)) = false /\
             winputs_ok (kpcc_walk (kset loop_kpcc j))).
  { intros j. split; [reflexivity|]. split; [exact loopG_wf|]. split; [reflexivity|].
    split; [intros c e Hc; cbn in Hc; destruct Hc|intros w e Hw; cbn in Hw; destruct Hw]. }
  assert (Iff : forall j, (exists a, sat a (encode_kpcc (kset loop_kpcc j))) <-> 1 <= j).
  { intros j. destruct (Hinst j) as (_ & WF & Hae & Hin). rewrite (kpcc_feasible_iff_within_caps _ WF Hae Hin). split.
    - intros HP. destruct j; [exfalso; exact (loop_cover_0 HP)|lia].
    - intros Hj. eexists. exact (loop_cover_adm j Hj). }
  split; [exact Hinst|]. split; [|split; [|split; [|split; [|split; [lia|reflexivity]]]]].
  - intros j. rewrite Iff. unfold cover_out. destruct j; cbn; split; intros H; try discriminate; try reflexivity; lia.
  - intros j. rewrite Iff. unfold cover_out. destruct j; cbn; split; intros H; try discriminate; try reflexivity; lia.
  - eexists. exact (loop_cover_adm 1 (le_n _)).
  - intros j Hj. assert (j = 0) by lia. subst. exact loop_cover_0.
Qed.

(* ---- C06_excess_flow_safe / C06_excess_pos_dec_sound: all hypotheses about the decomposition D on the flow 5 splitting 3 / 2 *)
From FP Require Safety SafetyProofs3.
Definition xfl : list ((N * N) * Z) := [((0,1)%N,5%Z);((1,2)%N,3%Z);((1,3)%N,2%Z);((2,4)%N,3%Z);((3,4)%N,2%Z);((4,5)%N,5%Z)].
Definition xD : list (list N * Z) := [([0;1;2;4;5]%N, 3%Z); ([0;1;3;4;5]%N, 2%Z)].
Lemma excess_hypotheses :
  Safety.excess_pos_dec xfl [0;1;2;4;5]%N = true /\
  (forall pw, In pw xD -> (0 <= snd pw)%Z) /\
  (forall pw, In pw xD -> incl (Safety.pairs (fst pw)) (map fst xfl)) /\
  (forall pw x, In pw xD -> ~ In (last (fst pw) 0%N, x) (map fst xfl)) /\
  (forall e, In e (map fst xfl) -> SafetyProofs3.Wt xD (SafetyProofs3.hasb e) = Safety.flow_of xfl e) /\
  (0 < Safety.excess (map fst xfl) (Safety.flow_of xfl) [0;1;2;4;5]%N)%Z.
Proof.
  split; [vm_compute; reflexivity|]. split; [intros pw [<-|[<-|[]]]; cbn; lia|].
  split; [intros pw [<-|[<-|[]]] e He; cbn in He |- *; tauto|].
  split; [intros pw x [<-|[<-|[]]] H; cbn in H; repeat (destruct H as [H|H]; [discriminate H|]); exact H|].
  split; [intros e He; cbn in He; repeat (destruct He as [<-|He]; [vm_compute; reflexivity|]); destruct He|vm_compute; reflexivity].
Qed.

(* ---- C09_search_returns_least_feasible_k (Search.search_min): all four hypotheses on a concrete status list *)
From FP Require Search.
Lemma mpc_search_hypotheses :
  let feasible := fun k => (2 <=? k)%nat in
  let sts := map (fun k => Search.mkraw (if feasible k then Search.Optimal else Search.Infeasible) false) (seq 1 4) in
  (forall i, (i < 5 - 1)%nat -> exists x, nth_error sts i = Some x /\
             Search.status_of x = if feasible (1 + i)%nat then Search.Optimal else Search.Infeasible) /\
  feasible 2%nat = true /\ (forall k, (k < 2)%nat -> feasible k = false) /\ (1 <= 2 < 5)%nat /\
  Search.so_res (Search.mpc_solve true 1 5 sts) = Search.Solved 2.
Proof.
  cbn zeta. split; [|split; [reflexivity|split; [|split; [lia|vm_compute; reflexivity]]]].
  - intros i Hi. do 4 (destruct i as [|i]; [eexists; split; reflexivity|]). lia.
  - intros k Hk. destruct k as [|[|k]]; [reflexivity|reflexivity|lia].
Qed.
