(* optimize_with_safety_as_subpath_constraints for the path-cover models: appending lists that are SAFE for path covers
   (contained in some path of every cover) to the subpath constraints never changes feasibility of the k-cover model. *)
From Coq Require Import List NArith ZArith QArith Lqa Bool Arith Lia Permutation.
Import ListNotations.
From FP Require Import Lin Blocks BlocksProofs PathEnc Euler EulerProofs1 EulerProofs2 DagDecode PathEncProofs PathEncComplete PathCoverComplete SafeFix.
Set Default Timeout 60.
Local Close Scope Q_scope.

Definition add_cons_p (B : path_inst) (Ss : list (list PathEnc.edge)) : path_inst :=
  {| p_graph := p_graph B; p_k := p_k B; p_allow_empty := p_allow_empty B;
     p_cons := p_cons B ++ Ss; p_cov := p_cov B; p_len := p_len B |}.

Section CoverSafetyAsConstraints.
  Variable B : path_inst.
  Variable ignore : list PathEnc.edge.
  Let G := p_graph B.
  Let k := p_k B.
  Variable rank : node -> nat.
  Variable Rm : nat.
  Variable Ss : list (list PathEnc.edge).
  Hypothesis WF : wf_graph G.
  Hypothesis Hae : p_allow_empty B = false.
  Hypothesis Hrank : forall u v, In (u, v) (g_edges G) -> (rank u < rank v)%nat.
  Hypothesis HR : forall v, (rank v <= Rm)%nat.
  Hypothesis Hcons : forall c e, In c (p_cons B ++ Ss) -> In e c -> In e (g_edges G) /\ (0 <= elen B e)%Q.
  Hypothesis Hcov1 : (p_cov B <= 1)%Q.
  Hypothesis Hsafe : forall P, path_cover B ignore P -> constraints_covered B P ->
      forall S, In S Ss -> exists i, In i (layers k) /\ incl S (pairs (P i)).

  Theorem cover_safety_as_constraints_preserves_feasibility :
    (exists a, sat a (encode_kpc (add_cons_p B Ss) ignore)) <-> (exists a, sat a (encode_kpc B ignore)).
  Proof.
    assert (Hc1 : forall c e, In c (p_cons B) -> In e c -> In e (g_edges G) /\ (0 <= elen B e)%Q)
      by (intros c e Hc He; apply (Hcons c e); [apply in_or_app; left; exact Hc|exact He]).
    rewrite (kpc_feasible_iff (add_cons_p B Ss) ignore rank Rm WF Hae Hrank HR Hcons).
    rewrite (kpc_feasible_iff B ignore rank Rm WF Hae Hrank HR Hc1).
    split.
    - intros (P & Hd & Hcc). exists P. split; [exact Hd|].
      intros n c Hn. apply (Hcc n c). cbn [add_cons_p p_cons]. rewrite nth_error_app1; [exact Hn|].
      apply nth_error_Some. intros En. pose proof (eq_trans (eq_sym En) Hn) as Ebad. discriminate Ebad.
    - intros (P & Hd & Hcc). exists P. split; [exact Hd|].
      intros n c Hn. cbn [add_cons_p p_cons] in Hn.
      destruct (Nat.lt_ge_cases n (length (p_cons B))) as [Hlt|Hge].
      + rewrite nth_error_app1 in Hn by exact Hlt. exact (Hcc n c Hn).
      + rewrite nth_error_app2 in Hn by exact Hge.
        assert (HcS : In c Ss) by (apply nth_error_In with (n - length (p_cons B))%nat; exact Hn).
        destruct (Hsafe P Hd Hcc c HcS) as (i & Hi & Hincl). exists i. split; [exact Hi|].
        change (elen (add_cons_p B Ss)) with (elen B). change (p_cov (add_cons_p B Ss)) with (p_cov B).
        change (cons_length (add_cons_p B Ss) c) with (cons_length B c).
        rewrite (sumq_all_on (elen B) c (pairs (P i)) Hincl), cons_length_sumq.
        assert (N0 : (0 <= sumq (elen B) c)%Q).
        { apply sumq_nonneg. intros e He. apply (Hcons c e); [apply in_or_app; right; exact HcS|exact He]. }
        nra.
  Qed.
End CoverSafetyAsConstraints.
