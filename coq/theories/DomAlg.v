(* Executable model of the dominator computations of safetypathcoverscycles.py: find_idom (the FIRST arc that lies on every walk from
   a node to the sink -- the code finds it with one augmenting path and a residual search; its answer is canonical, so the model
   computes it from the definition with the verified closure), the dominator chain obtained by iterating it (Arc_Dominator_Tree.
   get_dominators), the same towards the source in the reversed graph, and the sequence returned for a core arc.  Proved for every
   digraph (cycles, self-loops) and every node from which the sink is reachable -- the precondition under which find_idom works at
   all -- : the computed first arc is the first element of the dominator order of DomSpec.v, the computed chain IS that order, hence
   every sequence the model returns is safe. *)
From Coq Require Import List Bool Arith NArith ZArith Lia.
Import ListNotations.
From FP Require Import SafetyReach Safety SafetyProofs1 SafetyProofs2 DomSpec.
Set Default Timeout 60.

Definition all_bridges (G : graph) (v t : node) : list edge := filter (bridgeb G v t) G.
Definition without (G : graph) (B : list edge) : graph := filter (fun e => negb (existsb (eqe e) B)) G.
(* find_idom(adj, v, t): the first arc common to all v-t walks (None: there is none, the code then takes the sink itself) *)
Definition first_bridge (G : graph) (v t : node) : option edge :=
  let B := all_bridges G v t in find (fun b => reachb (without G B) v (fst b)) B.
(* get_dominators, towards the sink *)
Fixpoint dom_chain (G : graph) (fuel : nat) (v t : node) : list edge :=
  match fuel with
  | O => []
  | S k => match first_bridge G v t with None => [] | Some b => b :: dom_chain G k (snd b) t end
  end.
(* the sequence for an arc: its dominators towards the source (computed in the reversed graph, turned back), the arc, its dominators
   towards the sink *)
Definition dom_sequence (G : graph) (s t : node) (e : edge) : list edge :=
  rev (map swap (dom_chain (rev_graph G) (S (length G)) (fst e) s)) ++ e :: dom_chain G (S (length G)) (snd e) t.

Lemma existsb_eqe_In e B : existsb (eqe e) B = true <-> In e B.
Proof.
  rewrite existsb_exists. split.
  - intros (x & Hx & Q). destruct (eqe_spec e x); [subst; exact Hx|discriminate].
  - intros H. exists e. split; [exact H|]. destruct (eqe_spec e e); congruence.
Qed.
Lemma without_In G B e : In e (without G B) <-> In e G /\ ~ In e B.
Proof.
  unfold without. rewrite filter_In, negb_true_iff. split; intros [H1 H2]; (split; [exact H1|]).
  - intros Hin. apply existsb_eqe_In in Hin. congruence.
  - destruct (existsb (eqe e) B) eqn:Q; [apply existsb_eqe_In in Q; contradiction|reflexivity].
Qed.
Lemma filter_nil_none {A} (f : A -> bool) l x : filter f l = [] -> In x l -> f x = false.
Proof.
  induction l as [|a l IH]; intros H Hx; [destruct Hx|]. cbn [filter] in H. destruct (f a) eqn:Q; [discriminate|].
  destruct Hx as [<-|Hx]; [exact Q|apply IH; assumption].
Qed.
Lemma find_unique {A} (f : A -> bool) l b : In b l -> f b = true -> (forall x, In x l -> f x = true -> x = b) -> find f l = Some b.
Proof.
  induction l as [|a l IH]; intros Hb Hf Hu; [destruct Hb|]. cbn [find]. destruct (f a) eqn:Q.
  - f_equal. apply Hu; [left; reflexivity|exact Q].
  - destruct Hb as [->|Hb]; [congruence|]. apply IH; [exact Hb|exact Hf|]. intros x Hx. apply Hu. right. exact Hx.
Qed.
Lemma nodup_split_unique {A} (l1 l2 l1' l2' : list A) c : NoDup (l1 ++ c :: l2) -> l1 ++ c :: l2 = l1' ++ c :: l2' -> l1 = l1' /\ l2 = l2'.
Proof.
  revert l1'. induction l1 as [|a l1 IH]; intros l1' ND E.
  - destruct l1' as [|b l1']; [cbn in E; injection E as E; auto|]. cbn in E. injection E as -> E. exfalso.
    inversion ND as [|? ? Hc _]; subst. apply Hc. apply in_or_app. right. left. reflexivity.
  - destruct l1' as [|b l1'].
    + cbn in E. injection E as -> E. exfalso. inversion ND as [|? ? Hc _]; subst. apply Hc. apply in_or_app. right. left. reflexivity.
    + cbn in E. injection E as -> E. inversion ND; subst. destruct (IH l1' ltac:(assumption) E) as [-> ->]. auto.
Qed.

Lemma chain_cons_inv m b w z : chain m (b :: w) z -> fst b = m /\ chain (snd b) w z.
Proof. intros C. inversion C; subst. cbn. auto. Qed.

Section FirstBridge.
  Variable G : graph.
  Variables v t : node.
  Variable P : list edge.
  Hypothesis HP : st_walk G v t P.
  Hypothesis NDP : NoDup P.
  Let br := bridgeb G v t.

  Lemma bridge_on_P d : br d = true -> In d P.
  Proof. intros H. exact (proj1 (bridgeb_correct _ _ _ _) H P HP). Qed.
  Lemma all_bridges_In d : In d (all_bridges G v t) <-> br d = true.
  Proof.
    unfold all_bridges. rewrite filter_In. split; [tauto|]. intros H. split; [|exact H]. apply (proj2 HP). apply bridge_on_P. exact H.
  Qed.

  (* the first bridge of the walk is reachable without bridges, and it is the only bridge that is *)
  Lemma first_bridge_of_path P0 b P1 : P = P0 ++ b :: P1 -> filter br P0 = [] -> br b = true ->
    first_bridge G v t = Some b.
  Proof.
    intros EP H0 Hb. unfold first_bridge. apply find_unique.
    - apply all_bridges_In. exact Hb.
    - apply reachb_correct. exists P0. pose proof HP as [C I]. rewrite EP in C, I. destruct (chain_app_inv _ _ _ _ C) as (m & C0 & C1).
      destruct (chain_cons_inv _ _ _ _ C1) as [Em _]. rewrite Em. split; [exact C0|]. intros x Hx. apply without_In. split; [apply I; apply in_or_app; left; exact Hx|].
      intros Hin. apply all_bridges_In in Hin. rewrite (filter_nil_none br P0 x H0 Hx) in Hin. discriminate.
    - intros b' Hb' Hr. apply all_bridges_In in Hb'. apply reachb_correct in Hr. destruct Hr as (W' & CW' & IW').
      pose proof (bridge_on_P b' Hb') as Hin'. destruct (in_split _ _ Hin') as (Q & Q' & EQ).
      pose proof HP as [C I].
      assert (HW : st_walk G v t (W' ++ b' :: Q')).
      { split.
        - rewrite EQ in C. destruct (chain_app_inv _ _ _ _ C) as (m & _ & C2). destruct (chain_cons_inv _ _ _ _ C2) as [Em _].
          eapply chain_app; [exact CW'|]. rewrite Em. exact C2.
        - intros x Hx. apply in_app_or in Hx. destruct Hx as [Hx|Hx]; [apply (proj1 (proj1 (without_In _ _ _) (IW' x Hx)))|].
          apply I. rewrite EQ. apply in_or_app. right. exact Hx. }
      pose proof (proj1 (bridgeb_correct _ _ _ _) Hb _ HW) as Hbin. apply in_app_or in Hbin. destruct Hbin as [Hbin|[Hbin|Hbin]].
      + exfalso. apply (proj2 (proj1 (without_In _ _ _) (IW' b Hbin))). apply all_bridges_In. exact Hb.
      + exact Hbin.
      + exfalso. destruct (in_split _ _ Hbin) as (A & A' & EA). rewrite EA in EQ.
        assert (E2 : P0 ++ b :: P1 = (Q ++ b' :: A) ++ b :: A') by (rewrite <- EP, EQ, <- app_assoc; reflexivity).
        pose proof NDP as ND'. rewrite EP in ND'. destruct (nodup_split_unique _ _ _ _ _ ND' E2) as [E0 _].
        assert (Hin0 : In b' P0) by (rewrite E0; apply in_or_app; right; left; reflexivity).
        rewrite (filter_nil_none br P0 b' H0 Hin0) in Hb'. discriminate.
  Qed.
  Lemma no_bridge_none : filter br P = [] -> first_bridge G v t = None.
  Proof.
    intros H. unfold first_bridge. assert (E : all_bridges G v t = []).
    { destruct (all_bridges G v t) as [|d l] eqn:E; [reflexivity|]. exfalso. assert (Hd : In d (all_bridges G v t)) by (rewrite E; left; reflexivity).
      apply all_bridges_In in Hd. rewrite (filter_nil_none br P d H (bridge_on_P d Hd)) in Hd. discriminate. }
    rewrite E. reflexivity.
  Qed.

  (* after the first bridge the dominators are the remaining ones *)
  Lemma tail_bridges P0 b P1 : P = P0 ++ b :: P1 -> br b = true ->
    filter (bridgeb G (snd b) t) P1 = filter br P1.
  Proof.
    intros EP Hb. apply filter_ext_in. intros d Hd. pose proof HP as [C I]. pose proof NDP as ND'. rewrite EP in C, I, ND'.
    destruct (chain_app_inv _ _ _ _ C) as (m & C0 & C1). destruct (chain_cons_inv _ _ _ _ C1) as [Em C1']. set (y := snd b) in *.
    destruct (bridgeb G y t d) eqn:B1; destruct (br d) eqn:B2; try reflexivity; exfalso.
    - (* d on every y-t walk but avoided by some v-t walk W: W passes b, its rest is a y-t walk *)
      unfold br, bridgeb in B2. apply negb_false_iff in B2. apply reachb_correct in B2. destruct B2 as (W & CW & IW).
      assert (HW : st_walk G v t W) by (split; [exact CW|intros e He; apply IW in He; apply filter_In in He; apply He]).
      pose proof (proj1 (bridgeb_correct _ _ _ _) Hb _ HW) as Hbin. destruct (in_split _ _ Hbin) as (W1 & W2 & ->).
      destruct (chain_app_inv _ _ _ _ CW) as (m' & _ & CW2). destruct (chain_cons_inv _ _ _ _ CW2) as [_ CW2']. fold y in CW2'.
      assert (H2 : st_walk G y t W2) by (split; [exact CW2'|intros e He; apply (proj2 HW); apply in_or_app; right; right; exact He]).
      pose proof (proj1 (bridgeb_correct _ _ _ _) B1 _ H2) as Hd2.
      assert (Hd3 : In d (remove_edge G d)) by (apply IW; apply in_or_app; right; right; exact Hd2).
      apply filter_In in Hd3. destruct Hd3 as [_ Q]. apply neqe_true in Q. congruence.
    - (* d on every v-t walk but avoided by some y-t walk W: P0 ++ [b] ++ W avoids d *)
      unfold bridgeb in B1. apply negb_false_iff in B1. apply reachb_correct in B1. destruct B1 as (W & CW & IW).
      assert (HW : st_walk G v t (P0 ++ b :: W)).
      { split; [eapply chain_app; [exact C0|destruct b as [bx by0]; cbn [fst snd] in *; subst m; constructor; exact CW]|]. intros e He. apply in_app_or in He.
        destruct He as [He|[<-|He]]; [apply I; apply in_or_app; left; exact He|apply I; apply in_or_app; right; left; reflexivity|].
        apply IW in He. apply filter_In in He. apply He. }
      pose proof (proj1 (bridgeb_correct _ _ _ _) B2 _ HW) as Hdin. apply in_app_or in Hdin. destruct Hdin as [H|[H|H]].
      + apply (NoDup_app_not_in P0 (b :: P1) d ND'); [right; exact Hd|exact H].
      + subst d. apply NoDup_remove_2 in ND'. apply ND'. apply in_or_app. right. exact Hd.
      + apply IW in H. apply filter_In in H. destruct H as [_ Q]. apply neqe_true in Q. congruence.
  Qed.
End FirstBridge.

(* find_idom returns the first dominator *)
Theorem first_bridge_correct G v t bs : (exists w, st_walk G v t w) -> dom_order G v t bs -> first_bridge G v t = hd_error bs.
Proof.
  intros (w & C & I) Hbs. destruct (walk_nodup G w v t C I) as (P & CP & IP & ND).
  assert (HP : st_walk G v t P) by (split; [exact CP|intros x Hx; apply I, IP, Hx]).
  rewrite (dom_order_unique G v t bs _ Hbs (dom_order_of_path G v t P HP ND)).
  destruct (filter_first (bridgeb G v t) P) as [E|(P0 & b & P1 & EP & H0 & Hb)].
  - rewrite E. apply (no_bridge_none G v t P HP). exact E.
  - rewrite (first_bridge_of_path G v t P HP ND P0 b P1 EP H0 Hb). rewrite EP, filter_app, H0. cbn [app filter]. rewrite Hb. reflexivity.
Qed.

(* get_dominators returns the dominators in their order *)
Theorem dom_chain_correct G t : forall n v bs, (exists w, st_walk G v t w) -> dom_order G v t bs -> length bs < n ->
  dom_chain G n v t = bs.
Proof.
  induction n as [|n IH]; intros v bs Hw Hbs Hlen; [lia|]. cbn [dom_chain]. rewrite (first_bridge_correct G v t bs Hw Hbs).
  destruct bs as [|b r]; [reflexivity|]. cbn [hd_error]. f_equal.
  destruct Hw as (w & C & I). destruct (walk_nodup G w v t C I) as (P & CP & IP & ND).
  assert (HP : st_walk G v t P) by (split; [exact CP|intros x Hx; apply I, IP, Hx]).
  pose proof (dom_order_unique G v t _ _ Hbs (dom_order_of_path G v t P HP ND)) as E.
  destruct (filter_first (bridgeb G v t) P) as [E0|(P0 & b' & P1 & EP & H0 & Hb)]; [rewrite E0 in E; discriminate|].
  rewrite EP, filter_app, H0 in E. cbn [app filter] in E. rewrite Hb in E. injection E as Eb Er. subst b'.
  pose proof CP as CP'. pose proof ND as ND'. rewrite EP in CP', ND'.
  destruct (chain_app_inv _ _ _ _ CP') as (m & C0 & C1). destruct (chain_cons_inv _ _ _ _ C1) as [_ C1'].
  assert (HP1 : st_walk G (snd b) t P1).
  { split; [exact C1'|]. intros e He. apply (proj2 HP). rewrite EP. apply in_or_app. right. right. exact He. }
  assert (ND1 : NoDup P1).
  { clear - ND'. induction P0 as [|a P0 IHp]; [inversion ND'; assumption|]. inversion ND'; subst. apply IHp. assumption. }
  apply IH.
  - exists P1. exact HP1.
  - rewrite Er. rewrite <- (tail_bridges G v t P HP ND P0 b P1 EP Hb). apply dom_order_of_path; assumption.
  - cbn [length] in Hlen. lia.
Qed.

Lemma dom_order_length G v t bs : (exists w, st_walk G v t w) -> dom_order G v t bs -> length bs <= length G.
Proof.
  intros (w & Hw) (ND & Hin & _). apply (NoDup_incl_length ND). intros d Hd. apply (proj2 Hw). exact (proj1 (Hin d) Hd w Hw).
Qed.

(* ---- towards the source: the reversed graph ---- *)
Lemma rev_graph_invol G : rev_graph (rev_graph G) = G.
Proof. unfold rev_graph. rewrite map_map. rewrite (map_ext _ (fun e => e)); [apply map_id|apply swap_swap]. Qed.
Lemma st_walk_rev G a b w : st_walk G a b w -> st_walk (rev_graph G) b a (rev (map swap w)).
Proof.
  intros [C I]. split; [apply chain_rev; exact C|]. intros x Hx. apply in_rev in Hx. apply in_map_iff in Hx. destruct Hx as (e & <- & He).
  apply in_map. apply I. exact He.
Qed.
Lemma dom_order_rev G s u l : dom_order (rev_graph G) u s l -> dom_order G s u (rev (map swap l)).
Proof.
  intros (ND & Hin & Hsub). split; [|split].
  - apply NoDup_rev. apply FinFun.Injective_map_NoDup; [|exact ND]. intros a b H. rewrite <- (swap_swap a), <- (swap_swap b), H. reflexivity.
  - intros d. rewrite <- in_rev, in_map_iff. split.
    + intros (x & <- & Hx) w Hw. pose proof (proj1 (Hin x) Hx (rev (map swap w)) (st_walk_rev _ _ _ _ Hw)) as Hx2. clear Hx. rename Hx2 into Hx.
      apply in_rev in Hx. apply in_map_iff in Hx. destruct Hx as (y & E & Hy). rewrite <- E, swap_swap. exact Hy.
    + intros Hd. exists (swap d). split; [apply swap_swap|]. apply Hin. intros w Hw.
      pose proof (st_walk_rev _ _ _ _ Hw) as Hw'. rewrite rev_graph_invol in Hw'. specialize (Hd _ Hw').
      apply in_rev in Hd. apply in_map_iff in Hd. destruct Hd as (y & E & Hy). rewrite <- E, swap_swap. exact Hy.
  - intros W HW. pose proof (Hsub _ (st_walk_rev _ _ _ _ HW)) as H. apply subseq_map with (f := swap) in H. apply subseq_rev in H.
    rewrite rev_swap_invol in H. exact H.
Qed.

(* the sequence the model returns for an arc is its dominator chain, hence safe *)
Theorem dom_sequence_is_the_dominator_chain G s t e :
  (exists w, st_walk G s (fst e) w) -> (exists w, st_walk G (snd e) t w) ->
  exists bl br, dom_order G s (fst e) bl /\ dom_order G (snd e) t br /\ dom_sequence G s t e = bl ++ e :: br.
Proof.
  intros Hl Hr.
  assert (Hl' : exists w, st_walk (rev_graph G) (fst e) s w) by (destruct Hl as (w & Hw); exists (rev (map swap w)); apply st_walk_rev; exact Hw).
  destruct (dominators_totally_ordered _ _ _ Hl') as (l & Hlo). destruct (dominators_totally_ordered _ _ _ Hr) as (br & Hro).
  exists (rev (map swap l)), br. split; [apply dom_order_rev; exact Hlo|]. split; [exact Hro|]. unfold dom_sequence.
  rewrite (dom_chain_correct (rev_graph G) s (S (length G)) (fst e) l Hl' Hlo).
  2:{ pose proof (dom_order_length _ _ _ _ Hl' Hlo) as H. unfold rev_graph in H. rewrite map_length in H. lia. }
  rewrite (dom_chain_correct G t (S (length G)) (snd e) br Hr Hro); [reflexivity|].
  pose proof (dom_order_length _ _ _ _ Hr Hro). lia.
Qed.
Theorem dom_sequence_safe G s t X e :
  In e X -> (exists w, st_walk G s (fst e) w) -> (exists w, st_walk G (snd e) t w) -> safe_for_edges G s t X (dom_sequence G s t e).
Proof.
  intros HX Hl Hr. destruct (dom_sequence_is_the_dominator_chain G s t e Hl Hr) as (bl & br & H1 & H2 & ->).
  destruct e as [u v]. exact (dominator_chain_is_safe G s t X u v bl br HX H1 H2).
Qed.

Example cyc_dom_sequence : dom_sequence cycG 0%N 3%N (1, 2)%N = [(1, 2); (2, 3)]%N /\ first_bridge cycG 2%N 3%N = Some (2, 3)%N /\
  dom_sequence cycG 0%N 3%N (4, 1)%N = [(0, 4); (4, 1); (1, 2); (2, 3)]%N.
Proof. vm_compute. auto. Qed.

(* ================================================================================================================= *)
(* maximal_safe_sequences_via_dominators: the two arc dominator trees, their restriction to X (idom_X / children_X), the unitary
   paths, the choice of the core arcs and the returned sequences *)
Definition oeqb (a b : option edge) : bool :=
  match a, b with None, None => true | Some x, Some y => eqe x y | _, _ => false end.
Definition memX (e : edge) (X : list edge) : bool := existsb (eqe e) X.

Section Trees.
  Variable G : graph.
  Variables s t : node.
  Variable X : list edge.

  (* s_idoms / t_idoms; None = the root (the source, resp. the sink) *)
  Definition idom_s (e : edge) : option edge := option_map swap (first_bridge (rev_graph G) (fst e) s).
  Definition idom_t (e : edge) : option edge := first_bridge G (snd e) t.

  Section OneTree.
    Variable idom : edge -> option edge.
    (* idom_X: the nearest proper ancestor in X (None: the root) *)
    Fixpoint upX (fuel : nat) (e : edge) : option edge :=
      match fuel with
      | O => None
      | S k => match idom e with None => None | Some p => if memX p X then Some p else upX k p end
      end.
    Definition fuelT : nat := S (length G).
    Definition kidsX (a : option edge) : list edge := filter (fun e => oeqb (upX fuelT e) a) X.
    Definition unique_child (a : option edge) : bool := match kidsX a with [_] => true | _ => false end.
    Definition is_leafX (a : option edge) : bool := match kidsX a with [] => true | _ => false end.
    (* find_unitary_path_X(arc, "up"): climb while the parent has exactly one child and is not the root *)
    Fixpoint up_path (fuel : nat) (e : edge) : list edge :=
      e :: match fuel with
           | O => []
           | S k => match upX fuelT e with Some p => if unique_child (Some p) then up_path k p else [] | None => [] end
           end.
    (* find_unitary_path_X(arc, "down"): descend while there is exactly one child *)
    Fixpoint down_path (fuel : nat) (e : edge) : list edge :=
      e :: match fuel with
           | O => []
           | S k => match kidsX (Some e) with [c] => down_path k c | _ => [] end
           end.
  End OneTree.

  Fixpoint prefix_eqb (a b : list edge) : bool :=     (* a is a prefix of b *)
    match a, b with
    | [], _ => true
    | x :: a', y :: b' => eqe x y && prefix_eqb a' b'
    | _ :: _, [] => false
    end.
  Fixpoint nodup_edges (l : list edge) : list edge :=
    match l with [] => [] | e :: r => if memX e r then nodup_edges r else e :: nodup_edges r end.
  Lemma nodup_edges_In e : forall l, In e (nodup_edges l) -> In e l.
  Proof.
    induction l as [|a l IH]; [intros []|]. cbn [nodup_edges]. destruct (memX a l); [intros H; right; apply IH; exact H|].
    intros [<-|H]; [left; reflexivity|right; apply IH; exact H].
  Qed.
  Definition is_core (leaf : edge) : bool :=
    let sp := up_path idom_s (S (length X)) leaf in
    let tp := down_path idom_t (S (length X)) leaf in
    (length tp <=? length sp) && prefix_eqb tp sp && is_leafX idom_t (Some (last tp leaf)).
  Definition cores : list edge := filter (fun e => is_leafX idom_s (Some e) && is_core e) (nodup_edges X).
  Definition dominator_sequences : list (list edge) := map (dom_sequence G s t) cores.

  (* every sequence the model returns is the dominator chain of an arc of X, hence safe -- provided every arc lies between the
     source and the sink, the precondition under which the code's find_idom finds its paths *)
  Theorem dominator_sequences_safe :
    (forall e, In e X -> (exists w, st_walk G s (fst e) w) /\ (exists w, st_walk G (snd e) t w)) ->
    forall q, In q dominator_sequences -> safe_for_edges G s t X q.
  Proof.
    intros Hreach q Hq. unfold dominator_sequences in Hq. apply in_map_iff in Hq. destruct Hq as (e & <- & He).
    unfold cores in He. apply filter_In in He. destruct He as [He _]. apply nodup_edges_In in He.
    destruct (Hreach e He) as [H1 H2]. exact (dom_sequence_safe G s t X e He H1 H2).
  Qed.
End Trees.

Example cyc_sequences :
  dominator_sequences cycG 0%N 3%N [(1, 2); (4, 1)]%N = [[(0, 4); (4, 1); (1, 2); (2, 3)]%N].
Proof. vm_compute. reflexivity. Qed.
