(* C06 helper: generic verified reachability by iteration to a fixed point (clos_correct), sub-sequences with
   exact greedy matching, walks as edge chains.  Used by Safety.v (product-automaton deciders). *)
From Coq Require Import List Bool Arith NArith Lia.
Import ListNotations.

Section Closure.
  Variable A : Type.
  Variable eqb : A -> A -> bool.
  Hypothesis eqb_spec : forall x y, reflect (x = y) (eqb x y).
  Variable step : A -> list A.

  Definition mem (x : A) (l : list A) : bool := existsb (eqb x) l.
  Lemma mem_In x l : mem x l = true <-> In x l.
  Proof.
    unfold mem. rewrite existsb_exists. split.
    - intros (y & Hy & E). destruct (eqb_spec x y); [subst; assumption|discriminate].
    - intros H. exists x. split; [assumption|]. destruct (eqb_spec x x); congruence.
  Qed.

  Fixpoint add_all (xs acc : list A) : list A :=
    match xs with
    | [] => acc
    | x :: r => if mem x acc then add_all r acc else add_all r (x :: acc)
    end.

  Lemma add_all_In xs : forall acc y, In y (add_all xs acc) <-> In y xs \/ In y acc.
  Proof.
    induction xs as [|x r IH]; intros acc y; simpl; [tauto|].
    destruct (mem x acc) eqn:M; rewrite IH.
    - apply mem_In in M. split; [tauto|]. intros [[<-|H]|H]; tauto.
    - simpl. tauto.
  Qed.

  Lemma add_all_NoDup xs : forall acc, NoDup acc -> NoDup (add_all xs acc).
  Proof.
    induction xs as [|x r IH]; intros acc H; simpl; [assumption|].
    destruct (mem x acc) eqn:M; apply IH; [assumption|].
    constructor; [|assumption]. intros HI. apply mem_In in HI. congruence.
  Qed.

  Lemma add_all_length xs : forall acc, length acc <= length (add_all xs acc).
  Proof.
    induction xs as [|x r IH]; intros acc; simpl; [lia|].
    destruct (mem x acc); [apply IH|]. specialize (IH (x :: acc)). simpl in IH. lia.
  Qed.

  Fixpoint clos (fuel : nat) (S : list A) : list A :=
    match fuel with
    | O => S
    | Datatypes.S f =>
        let S' := add_all (flat_map step S) S in
        if length S' =? length S then S else clos f S'
    end.

  Inductive reach (x0 : A) : A -> Prop :=
  | reach_refl : reach x0 x0
  | reach_step x y : reach x0 x -> In y (step x) -> reach x0 y.

  (* soundness: everything in the closure is reachable from some seed *)
  Lemma clos_sound fuel : forall S y, In y (clos fuel S) -> exists x, In x S /\ reach x y.
  Proof.
    induction fuel as [|f IH]; intros S y H; simpl in H.
    - exists y. split; [assumption|constructor].
    - destruct (length (add_all (flat_map step S) S) =? length S).
      + exists y. split; [assumption|constructor].
      + destruct (IH _ _ H) as (x & Hx & R). apply add_all_In in Hx. destruct Hx as [Hx|Hx].
        * apply in_flat_map in Hx. destruct Hx as (x' & Hx' & Hs). exists x'. split; [assumption|].
          clear - R Hs. induction R; [econstructor 2; [constructor|assumption]|econstructor 2; eassumption].
        * exists x. tauto.
  Qed.

  Definition closed (S : list A) : Prop := forall x y, In x S -> In y (step x) -> In y S.

  Lemma closed_reach S x y : closed S -> In x S -> reach x y -> In y S.
  Proof. intros C Hx R. induction R; [assumption|eapply C; eassumption]. Qed.

  Lemma clos_incl fuel : forall S x, In x S -> In x (clos fuel S).
  Proof.
    induction fuel as [|f IH]; intros S x H; simpl; [assumption|].
    destruct (_ =? _); [assumption|]. apply IH. apply add_all_In. tauto.
  Qed.

  (* a universe bounding everything that can ever be added *)
  Variable U : list A.
  Hypothesis step_in_U : forall x y, In x U -> In y (step x) -> In y U.

  Lemma stable_closed S : NoDup S ->
    length (add_all (flat_map step S) S) = length S -> closed S.
  Proof.
    intros ND L x y Hx Hy.
    destruct (mem y S) eqn:M; [apply mem_In; assumption|exfalso].
    assert (HnotIn : ~ In y S) by (intros HI; apply mem_In in HI; congruence).
    set (S' := add_all (flat_map step S) S) in *.
    assert (ND' : NoDup S') by (apply add_all_NoDup; assumption).
    assert (Hy' : In y S').
    { apply add_all_In. left. apply in_flat_map. exists x. tauto. }
    assert (Hincl : incl (y :: S) S').
    { intros z [<-|Hz]; [assumption|]. apply add_all_In. tauto. }
    assert (NoDup (y :: S)) by (constructor; assumption).
    pose proof (NoDup_incl_length H Hincl) as Hlen. simpl in Hlen. lia.
  Qed.

  Lemma clos_closed fuel : forall S, NoDup S -> incl S U -> NoDup U ->
    length U < fuel + length S -> closed (clos fuel S).
  Proof.
    induction fuel as [|f IH]; intros S ND Hin NDU Hf; simpl.
    - exfalso. pose proof (NoDup_incl_length ND Hin). lia.
    - destruct (length (add_all (flat_map step S) S) =? length S) eqn:E.
      + apply Nat.eqb_eq in E. apply stable_closed; assumption.
      + apply Nat.eqb_neq in E. apply IH.
        * apply add_all_NoDup. assumption.
        * intros z Hz. apply add_all_In in Hz. destruct Hz as [Hz|Hz]; [|apply Hin; assumption].
          apply in_flat_map in Hz. destruct Hz as (x & Hx & Hs). eapply step_in_U; [apply Hin; eassumption|assumption].
        * assumption.
        * pose proof (add_all_length (flat_map step S) S). lia.
  Qed.

  Theorem clos_correct x0 y : NoDup U -> In x0 U ->
    (In y (clos (S (length U)) [x0]) <-> reach x0 y).
  Proof.
    intros NDU H0. split.
    - intros H. destruct (clos_sound _ _ _ H) as (x & [<-|[]] & R). exact R.
    - intros R. eapply closed_reach; [|apply clos_incl; left; reflexivity|exact R].
      apply clos_closed; try assumption.
      + constructor; [intros []|constructor].
      + intros z [<-|[]]. assumption.
      + simpl. lia.
  Qed.
End Closure.


Notation node := N.
Definition edge := (node * node)%type.
Definition graph := list edge.
Definition eqe (e1 e2 : edge) : bool := (fst e1 =? fst e2)%N && (snd e1 =? snd e2)%N.
Lemma eqe_spec e1 e2 : reflect (e1 = e2) (eqe e1 e2).
Proof.
  destruct e1 as [a b], e2 as [c d]. unfold eqe. simpl.
  destruct (N.eqb_spec a c), (N.eqb_spec b d); simpl; constructor; congruence.
Qed.

Lemma NoDup_app_intro {A} (l1 l2 : list A) :
  NoDup l1 -> NoDup l2 -> (forall x, In x l1 -> In x l2 -> False) -> NoDup (l1 ++ l2).
Proof.
  induction 1 as [|a l Ha ND IH]; intros N2 D; simpl; [assumption|].
  constructor.
  - intros H. apply in_app_or in H. destruct H as [H|H]; [contradiction|]. apply (D a); [left; reflexivity|assumption].
  - apply IH; [assumption|]. intros x H1 H2. apply (D x); [right|]; assumption.
Qed.

Lemma NoDup_flat_map {A B} (f : A -> list B) (l : list A) :
  NoDup l -> (forall x, In x l -> NoDup (f x)) ->
  (forall x y z, In x l -> In y l -> x <> y -> In z (f x) -> In z (f y) -> False) ->
  NoDup (flat_map f l).
Proof.
  induction 1 as [|a l Ha ND IH]; intros Hf Hd; cbn [flat_map]; [constructor|].
  apply NoDup_app_intro.
  - apply Hf. left. reflexivity.
  - apply IH; [intros x Hx; apply Hf; right; assumption|].
    intros x y z Hx Hy. apply Hd; right; assumption.
  - intros z H1 H2. apply in_flat_map in H2. destruct H2 as (y & Hy & H2).
    apply (Hd a y z); [left; reflexivity|right; assumption|intros ->; contradiction|assumption|assumption].
Qed.

(* ---------- sub-sequences and greedy matching ---------- *)
Inductive subseq {A} : list A -> list A -> Prop :=
| sub_nil w : subseq [] w
| sub_take a l w : subseq l w -> subseq (a :: l) (a :: w)
| sub_skip a l w : subseq l w -> subseq l (a :: w).

Lemma sub_drop_head {A} (a : A) l w : subseq (a :: l) w -> subseq l w.
Proof.
  induction w as [|b w IH]; intros H; inversion H; subst.
  - constructor 3. assumption.
  - constructor 3. apply IH. assumption.
Qed.
Lemma sub_head_eq {A} (a : A) l w : subseq (a :: l) (a :: w) <-> subseq l w.
Proof. split; intros H; [inversion H; subst; [assumption|apply sub_drop_head with a; assumption]|constructor; assumption]. Qed.
Lemma sub_head_neq {A} (a b : A) l w : a <> b -> (subseq (a :: l) (b :: w) <-> subseq (a :: l) w).
Proof. intros N. split; intros H; [inversion H; subst; [congruence|assumption]|constructor 3; assumption]. Qed.
Lemma sub_nil_r {A} (l : list A) : subseq l [] <-> l = [].
Proof. split; intros H; [inversion H; reflexivity|subst; constructor]. Qed.

Section Greedy.
  Variable seq : list edge.
  Definition adv (j : nat) (e : edge) : nat :=
    match nth_error seq j with
    | Some e' => if eqe e' e then S j else j
    | None => j
    end.
  Definition run (j : nat) (w : list edge) : nat := fold_left adv w j.

  Lemma adv_le j e : j <= length seq -> adv j e <= length seq.
  Proof.
    intros H. unfold adv. destruct (nth_error seq j) eqn:E; [|assumption].
    assert (j < length seq) by (apply nth_error_Some; congruence). destruct (eqe _ _); lia.
  Qed.
  Lemma run_le w : forall j, j <= length seq -> run j w <= length seq.
  Proof. induction w as [|e w IH]; intros j H; simpl; [assumption|]. apply IH, adv_le, H. Qed.
  Lemma adv_end e : adv (length seq) e = length seq.
  Proof. unfold adv. assert (H : nth_error seq (length seq) = None) by (apply nth_error_None; lia). rewrite H. reflexivity. Qed.
  Lemma run_end w : run (length seq) w = length seq.
  Proof. induction w as [|e w IH]; simpl; [reflexivity|]. rewrite adv_end. exact IH. Qed.

  Lemma skipn_nth j e' : nth_error seq j = Some e' -> skipn j seq = e' :: skipn (S j) seq.
  Proof.
    revert j. induction seq as [|a l IH]; intros j H; [destruct j; discriminate|].
    destruct j as [|j]; simpl in *; [congruence|]. apply IH. assumption.
  Qed.

  Lemma greedy w : forall j, j <= length seq ->
    (subseq (skipn j seq) w <-> run j w = length seq).
  Proof.
    induction w as [|e w IH]; intros j Hj.
    - simpl. rewrite sub_nil_r. split; intros H.
      + destruct (Nat.eq_dec j (length seq)); [assumption|].
        assert (j < length seq) by lia. apply nth_error_Some in H0.
        destruct (nth_error seq j) eqn:E; [|congruence]. rewrite (skipn_nth _ _ E) in H. discriminate.
      + subst. apply skipn_all.
    - change (run j (e :: w)) with (run (adv j e) w). unfold adv.
      destruct (nth_error seq j) as [e'|] eqn:E.
      + rewrite (skipn_nth _ _ E).
        assert (Hlt : j < length seq) by (apply nth_error_Some; congruence).
        destruct (eqe_spec e' e) as [->|Hne].
        * rewrite sub_head_eq. apply IH. lia.
        * rewrite (sub_head_neq _ _ _ _ Hne), <- (skipn_nth _ _ E). apply IH. lia.
      + apply nth_error_None in E. assert (j = length seq) by lia. subst.
        rewrite skipn_all. rewrite run_end. split; intros _; [reflexivity|constructor].
  Qed.

  Corollary greedy0 w : subseq seq w <-> run 0 w = length seq.
  Proof. apply (greedy w 0). lia. Qed.
End Greedy.

(* ---------- walks as edge lists ---------- *)
Inductive chain : node -> list edge -> node -> Prop :=
| chain_nil v : chain v [] v
| chain_cons v u w z : chain u w z -> chain v ((v, u) :: w) z.

Lemma chain_snoc v w z u : chain v w z -> chain v (w ++ [(z, u)]) u.
Proof. induction 1; simpl; constructor; [constructor|assumption]. Qed.
Lemma chain_snoc_inv v w e z : chain v (w ++ [e]) z -> chain v w (fst e) /\ snd e = z.
Proof.
  revert v. induction w as [|a w IH]; intros v H; simpl in H.
  - inversion H; subst. inversion H4; subst. split; constructor.
  - inversion H; subst. destruct (IH _ H4). split; [constructor; assumption|assumption].
Qed.


(* ---------- more list / sub-sequence / chain lemmas ---------- *)
Lemma subseq_single {A} (e : A) w : subseq [e] w <-> In e w.
Proof.
  induction w as [|x w IH]; split; intros H.
  - inversion H.
  - destruct H.
  - inversion H; subst; [left; reflexivity|right; apply IH; assumption].
  - destruct H as [->|H]; [constructor; constructor|constructor 3; apply IH; assumption].
Qed.
Lemma subseq_refl {A} (l : list A) : subseq l l.
Proof. induction l; constructor; assumption. Qed.
Lemma subseq_app {A} (a b w1 w2 : list A) : subseq a w1 -> subseq b w2 -> subseq (a ++ b) (w1 ++ w2).
Proof.
  induction 1 as [w|x l w Hs IH|x l w Hs IH]; intros Hb; simpl.
  - induction w as [|x w IH]; simpl; [assumption|constructor 3; assumption].
  - constructor. apply IH. assumption.
  - constructor 3. apply IH. assumption.
Qed.
Lemma subseq_In {A} (l w : list A) x : subseq l w -> In x l -> In x w.
Proof.
  induction 1 as [|a l w Hs IH|a l w Hs IH]; intros Hx; [destruct Hx| |right; apply IH; assumption].
  destruct Hx as [->|Hx]; [left; reflexivity|right; apply IH; assumption].
Qed.
Lemma subseq_skip_l {A} (l w1 w2 : list A) : subseq l w2 -> subseq l (w1 ++ w2).
Proof. intros H. induction w1; simpl; [assumption|constructor 3; assumption]. Qed.

Lemma forallb_false_ex {A} (f : A -> bool) l : forallb f l = false -> exists x, In x l /\ f x = false.
Proof.
  induction l as [|a l IH]; simpl; [discriminate|].
  destruct (f a) eqn:E; simpl; intros H.
  - destruct (IH H) as (x & Hx & Hf). exists x. split; [right|]; assumption.
  - exists a. split; [left; reflexivity|assumption].
Qed.

Lemma chain_app v w1 m w2 z : chain v w1 m -> chain m w2 z -> chain v (w1 ++ w2) z.
Proof. induction 1 as [|v0 u0 w0 z0 Hc IH]; intros Hm; simpl; [assumption|constructor; apply IH; assumption]. Qed.
Lemma chain_app_inv a w1 w2 z : chain a (w1 ++ w2) z -> exists m, chain a w1 m /\ chain m w2 z.
Proof.
  revert a. induction w1 as [|e w1 IH]; intros a H; simpl in H.
  - exists a. split; [constructor|assumption].
  - inversion H as [|? ? ? ? Hc]; subst. destruct (IH _ Hc) as (m & H1 & H2). exists m. split; [constructor; assumption|assumption].
Qed.
