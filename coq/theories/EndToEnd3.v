(* C03 end to end, from hypotheses about the CALLER's input only: for every DAG (given with a topological order and its adjacency
   lists, checked by Peel.peel_inputs_ok) and every non-negative conserving integer flow on it, MinFlowDecomp's search over
   k = lb .. |E| -- with a solver that decides each generated model exactly and a valid lower bound lb -- returns the least
   number of weighted source-to-sink paths that explain the flow, and that number is at most the number of positive edges.
   No premise mentions the s-t graph, well-formedness, ranks or the existence of a decomposition: they are all derived. *)
From Coq Require Import List NArith ZArith QArith Lqa Bool Arith Lia Permutation.
Import ListNotations.
From FP Require Import Lin Blocks BlocksProofs PathEnc Aug AugProofs Euler EulerProofs1 EulerProofs2 DagDecode PathEncProofs PathEncComplete WfCheck EndToEnd1 EndToEnd2.
From FP Require Import Search SearchProofs1 SearchProofs2.
From FP Require Reach ReachProofs1 Peel PeelProofs1 PeelProofs3.
Set Default Timeout 60.
Local Close Scope Q_scope.

Lemma posn_pos l v : posn l v = Peel.pos l v.
Proof. induction l as [|x r IH]; [reflexivity|]. cbn [posn Peel.pos]. rewrite IH. reflexivity. Qed.

Lemma least_true (g : nat -> bool) : forall n, g n = true -> exists k, (k <= n)%nat /\ g k = true /\ forall j, (j < k)%nat -> g j = false.
Proof.
  induction n as [n IH] using lt_wf_ind. intros Hn.
  destruct (existsb g (seq 0 n)) eqn:Ex.
  - apply existsb_exists in Ex. destruct Ex as (j & Hj & Hg). apply in_seq in Hj.
    destruct (IH j ltac:(lia) Hg) as (k & Hk & Hgk & Hmin). exists k. split; [lia|]. split; assumption.
  - exists n. split; [lia|]. split; [exact Hn|]. intros j Hj.
    destruct (g j) eqn:Gj; [|reflexivity]. exfalso.
    assert (existsb g (seq 0 n) = true) by (apply existsb_exists; exists j; split; [apply in_seq; lia|exact Gj]). congruence.
Qed.

Lemma npos_le_length G f : (Peel.npos G f <= length G)%nat.
Proof. unfold Peel.npos. induction G as [|e G IH]; cbn [filter length]; [lia|]. destruct (0 <? f e)%Z; cbn [length]; lia. Qed.

Theorem minflowdecomp_end_to_end
    (V : list node) (E : list edge) (s t : node) (f : edge -> Z)
    (Pa Sa : list (node * list node)) (topo : list node)
    (feasible : nat -> bool) (lb : nat) (sts : list raw) :
  (* the caller's input: a DAG with duplicate-free nodes, edges between nodes, synthetic names s, t not used by the caller *)
  NoDup V -> (forall e, In e E -> In (fst e) V /\ In (snd e) V) -> ~ In s V -> ~ In t V -> s <> t ->
  Peel.peel_inputs_ok E Pa Sa topo = true ->
  (* a non-negative conserving integer flow *)
  PeelProofs1.nonneg E f -> PeelProofs1.conserving E f ->
  (* solver specification: the run for k says whether the generated model is satisfiable; lb is a valid lower bound *)
  (forall k, feasible k = true <-> exists a, sat a (encode_kfd (e2e_inst V E s t f k))) ->
  (forall i, (i < S (length E) - lb)%nat -> exists x, nth_error sts i = Some x /\
             status_of x = if feasible (lb + i)%nat then Optimal else Infeasible) ->
  (forall k, (k < lb)%nat -> feasible k = false) ->
  exists kopt,
    so_res (mpc_solve true lb (S (length E)) sts) = Solved kopt /\
    (kopt <= Peel.npos E f)%nat /\
    (exists P w, decomposition (e2e_inst V E s t f kopt) P w) /\
    (forall k, (k < kopt)%nat -> ~ exists P w, decomposition (e2e_inst V E s t f k) P w).
Proof.
  intros NDV HE Hs Ht Hst Hok Hnn Hcons Hspec Hsts Hlb.
  pose proof Hok as Hok'. unfold Peel.peel_inputs_ok in Hok'.
  apply andb_true_iff in Hok'. destruct Hok' as [Hok' _]. apply andb_true_iff in Hok'. destruct Hok' as [Hok' _].
  apply andb_true_iff in Hok'. destruct Hok' as [Hok' _]. apply andb_true_iff in Hok'. destruct Hok' as [Hok' Hbefore].
  apply andb_true_iff in Hok'. destruct Hok' as [HndE Hndt].
  apply ReachProofs1.nodupE_NoDup in HndE. apply ReachProofs1.nodupb_NoDup in Hndt.
  assert (Htopo : forall u v, In (u, v) E -> (posn topo u < posn topo v)%nat).
  { intros u v He. rewrite !posn_pos. apply PeelProofs3.beforeb_pos; [exact Hndt|].
    rewrite forallb_forall in Hbefore. exact (Hbefore (u, v) He). }
  destruct (PeelProofs3.greedy_peeling_explains_code E Pa Sa topo f Hok Hnn Hcons) as (D & _ & HD1 & HD2 & Hlen).
  pose proof (e2e_model_feasible V E s t f topo Hs Ht Hst HE NDV HndE Htopo D HD1 HD2) as Hfeas.
  apply Hspec in Hfeas.
  destruct (least_true feasible (length D) Hfeas) as (kopt & Hk & Hgk & Hmin).
  assert (WF := st_of_wf V E s t Hs Ht Hst HE NDV HndE).
  assert (Hrank := st_rank_increasing V E s t Hs Ht Hst HE topo Htopo).
  assert (HR : forall v, (st_rank s t topo v <= S (S (length topo)))%nat) by (intros v; apply st_rank_le; exact Hst).
  assert (Hiff : forall k, (exists a, sat a (encode_kfd (e2e_inst V E s t f k))) <-> (exists P w, decomposition (e2e_inst V E s t f k) P w)).
  { intros k. apply (kfd_feasible_iff (e2e_inst V E s t f k) (st_rank s t topo) (S (S (length topo)))); [exact WF|reflexivity|reflexivity|exact Hrank|exact HR]. }
  exists kopt. split; [|split; [|split]].
  - apply (search_min feasible lb (S (length E)) kopt sts Hsts Hgk Hmin).
    split.
    + destruct (Nat.le_gt_cases lb kopt) as [H|H]; [exact H|]. rewrite (Hlb kopt H) in Hgk. discriminate.
    + apply Nat.lt_succ_r. eapply Nat.le_trans; [exact Hk|]. eapply Nat.le_trans; [exact Hlen|apply npos_le_length].
  - eapply Nat.le_trans; [exact Hk|exact Hlen].
  - apply Hiff. apply Hspec. exact Hgk.
  - intros k Hk' Hex. apply Hiff in Hex. apply Hspec in Hex. rewrite (Hmin k Hk') in Hex. discriminate.
Qed.
