(* Proofs about the row-level models of MiscEnc.v (C15, C16): bridges from the generated rows and
   columns to semantic statements, objective lemmas, pre-processing and search-loop facts. *)
From Coq Require Import List NArith ZArith QArith Lqa Bool Lia Psatz.
Import ListNotations.
From FP Require Import Lin Blocks BlocksProofs PathEnc PathEncProofs MiscEnc.
Set Default Timeout 60.
Open Scope Q_scope.

(* ---------------------------------------------------------------- generic helpers *)
Lemma Forall_map_iff {A B} (P : B -> Prop) (f : A -> B) l : Forall P (map f l) <-> forall x, In x l -> P (f x).
Proof. rewrite Forall_map, Forall_forall. reflexivity. Qed.

Lemma sat_row_eq a l r : sat_row a (mkrow l SEq r) <-> eval a l == r.
Proof. reflexivity. Qed.
Lemma sat_row_le a l r : sat_row a (mkrow l SLe r) <-> eval a l <= r.
Proof. reflexivity. Qed.
Lemma sat_row_ge a l r : sat_row a (mkrow l SGe r) <-> r <= eval a l.
Proof. reflexivity. Qed.

Lemma eval_ones_sumq {A} a (mk : A -> var) (l : list A) :
  eval a (map (fun x => (mk x, 1)) l) == sumq (fun x => a (mk x)) l.
Proof. rewrite eval_map_const. ring. Qed.

Lemma Qlt_bool_iff a b : Qlt_bool a b = true <-> a < b.
Proof.
  unfold Qlt_bool. rewrite negb_true_iff. split.
  - intros H. apply Qnot_le_lt. intros C. apply Qle_bool_iff in C. congruence.
  - intros H. destruct (Qle_bool b a) eqn:E; [|reflexivity]. apply Qle_bool_iff in E. lra.
Qed.

Lemma sumq_nonneg {A} (g : A -> Q) l : (forall x, In x l -> 0 <= g x) -> 0 <= sumq g l.
Proof.
  induction l as [|x l IH]; intros H; cbn [sumq]; [lra|].
  assert (0 <= g x) by (apply H; left; reflexivity).
  assert (0 <= sumq g l) by (apply IH; intros y Hy; apply H; right; exact Hy). lra.
Qed.

Lemma sumq_le {A} (g h : A -> Q) l : (forall x, In x l -> g x <= h x) -> sumq g l <= sumq h l.
Proof.
  induction l as [|x l IH]; intros H; cbn [sumq]; [lra|].
  assert (g x <= h x) by (apply H; left; reflexivity).
  assert (sumq g l <= sumq h l) by (apply IH; intros y Hy; apply H; right; exact Hy). lra.
Qed.

(* ================================================================== MinErrorFlow (C16) *)
Section MEF.
  Variable I : mef_inst.
  Let E := mef_edges I.
  Let ub := mef_ub I.

  Definition xof (a : var -> Q) (e : edge) : Q := a (Xe e).
  Definition errof (a : var -> Q) (e : edge) : Q := a (Erre e).

  (* what the rows and columns of encode_mef say, in graph terms *)
  Definition mef_sem (a : var -> Q) : Prop :=
    (forall e, In e E -> 0 <= xof a e <= ub /\ 0 <= errof a e <= ub /\
                         (mef_int I = true -> is_int (xof a e) /\ is_int (errof a e))) /\
    (forall v, In v (mef_nodes I) -> conserved I v = true ->
               sumq (xof a) (mef_in_edges E v) == sumq (xof a) (out_edges E v)) /\
    (forall e, In e E -> if ignored I e then errof a e == 0
                         else fval I e - xof a e <= errof a e /\ xof a e - fval I e <= errof a e).

  Lemma cons_row_sem a v : sat_row a (cons_row I v) <-> sumq (xof a) (mef_in_edges E v) == sumq (xof a) (out_edges E v).
  Proof.
    unfold cons_row. rewrite sat_row_eq, eval_app, eval_ones_sumq, eval_map_const. fold E. unfold xof. split; intros H; lra.
  Qed.

  Lemma err_rows_sem a e : Forall (sat_row a) (err_rows I e) <->
    (if ignored I e then errof a e == 0 else fval I e - xof a e <= errof a e /\ xof a e - fval I e <= errof a e).
  Proof.
    unfold err_rows, xof, errof. destruct (ignored I e).
    - split.
      + intros H. inversion H as [|? ? H1 _]; subst. unfold sat_row, mkrow in H1. cbn [sns lhs rhs eval fst snd] in H1. lra.
      + intros H. constructor; [|constructor]. unfold sat_row, mkrow. cbn [sns lhs rhs eval fst snd]. lra.
    - split.
      + intros H. inversion H as [|? ? H1 H']; subst. inversion H' as [|? ? H2 _]; subst.
        unfold sat_row, mkrow in H1, H2. cbn [sns lhs rhs eval fst snd] in H1, H2. split; lra.
      + intros [H1 H2]. repeat constructor; unfold sat_row, mkrow; cbn [sns lhs rhs eval fst snd]; lra.
  Qed.

  Theorem mef_enc_exact a : sat a (encode_mef I) <-> mef_sem a.
  Proof.
    unfold sat, encode_mef, mef_sem. cbn [cols rows]. unfold mef_cols, mef_rows.
    rewrite !Forall_app, !Forall_map_iff, Forall_flat_map. fold E. fold ub.
    split.
    - intros ((HX & HE) & HC & HR). split; [|split].
      + intros e He. destruct (HX e He) as (A1 & A2 & A3). destruct (HE e He) as (B1 & B2 & B3).
        cbn [cvar clb cub cint qcol] in *. unfold xof, errof. tauto.
      + intros v Hv Hc. apply cons_row_sem. apply HC. apply filter_In. split; assumption.
      + intros e He. apply err_rows_sem. apply HR. exact He.
    - intros (HB & HC & HR). split; [split|split].
      + intros e He. destruct (HB e He) as (A & B & C). unfold sat_col. cbn [cvar clb cub cint qcol]. unfold xof, errof in *. tauto.
      + intros e He. destruct (HB e He) as (A & B & C). unfold sat_col. cbn [cvar clb cub cint qcol]. unfold xof, errof in *. tauto.
      + intros v Hv. apply filter_In in Hv. destruct Hv as [Hv Hc]. apply cons_row_sem. apply HC; assumption.
      + intros e He. apply err_rows_sem. apply HR. exact He.
  Qed.

  (* |f - x| without Qabs *)
  Definition absd (f x : Q) : Q := if Qle_bool x f then f - x else x - f.
  Lemma absd_spec f x : f - x <= absd f x /\ x - f <= absd f x /\ (absd f x == f - x \/ absd f x == x - f).
  Proof.
    unfold absd. destruct (Qle_bool x f) eqn:E0.
    - apply Qle_bool_iff in E0. repeat split; try lra; try (left; lra).
    - assert (f < x). { apply Qnot_le_lt. intros C. apply Qle_bool_iff in C. congruence. }
      repeat split; try lra; try (right; lra).
  Qed.
  Lemma absd_least f x r : f - x <= r -> x - f <= r -> absd f x <= r.
  Proof. intros H1 H2. destruct (absd_spec f x) as (_ & _ & [H|H]); rewrite H; assumption. Qed.

  Definition charged : list edge := filter (fun e => negb (ignored I e)) E.
  Definition src_out : list edge :=
    if Qlt_bool 0 (mef_lambda I) then match mef_src I with Some s => out_edges E s | None => [] end else [].

  (* the objective: scaled error variables of the charged edges + lambda * flow leaving the source *)
  Lemma mef_objective_sem a :
    objective a (encode_mef I) ==
    sumq (fun e => scale_of I e * errof a e) charged + mef_lambda I * sumq (xof a) src_out.
  Proof.
    unfold objective, encode_mef, mef_obj, charged, src_out. cbn [obj]. fold E.
    rewrite eval_app, eval_map_coef. unfold errof, xof.
    destruct (Qlt_bool 0 (mef_lambda I)); [destruct (mef_src I)|]; cbn [eval sumq]; try rewrite eval_map_const; ring.
  Qed.

  (* the cost of a flow x: scaled L1 distance on the charged edges + sparsity term *)
  Definition flow_cost (x : edge -> Q) : Q :=
    sumq (fun e => scale_of I e * absd (fval I e) (x e)) charged + mef_lambda I * sumq x src_out.

  Lemma charged_in e : In e charged -> In e E /\ ignored I e = false.
  Proof. unfold charged. rewrite filter_In, negb_true_iff. tauto. Qed.

  (* every LP solution pays at least the cost of its flow *)
  Theorem mef_objective_lower_bound a :
    (forall e, In e E -> 0 <= scale_of I e) -> sat a (encode_mef I) ->
    flow_cost (xof a) <= objective a (encode_mef I).
  Proof.
    intros Hs Hsat. apply mef_enc_exact in Hsat. destruct Hsat as (_ & _ & HR).
    rewrite mef_objective_sem. unfold flow_cost.
    assert (sumq (fun e => scale_of I e * absd (fval I e) (xof a e)) charged <=
            sumq (fun e => scale_of I e * errof a e) charged).
    { apply sumq_le. intros e He. destruct (charged_in e He) as [HeE Hig].
      specialize (HR e HeE). rewrite Hig in HR. destruct HR as [H1 H2].
      pose proof (absd_least _ _ _ H1 H2). pose proof (Hs e HeE). nra. }
    lra.
  Qed.

  (* the assignment that carries a flow x with tight error variables *)
  Definition assign_of (x : edge -> Q) (v : var) : Q :=
    match vidx v with
    | [s; t] => if (vfam v =? fX)%N then x (s, t)
                else if (vfam v =? fErr)%N then (if ignored I (s, t) then 0 else absd (fval I (s, t)) (x (s, t)))
                else 0
    | _ => 0
    end.
  Lemma assign_x x e : xof (assign_of x) e = x e.
  Proof. destruct e as [s t]. reflexivity. Qed.
  Lemma assign_err x e : errof (assign_of x) e = if ignored I e then 0 else absd (fval I e) (x e).
  Proof. destruct e as [s t]. reflexivity. Qed.

  (* a flow on the model graph, within the variable bounds *)
  Definition is_flow_ub (x : edge -> Q) : Prop :=
    (forall e, In e E -> 0 <= x e <= ub /\ (mef_int I = true -> is_int (x e))) /\
    (forall v, In v (mef_nodes I) -> conserved I v = true -> sumq x (mef_in_edges E v) == sumq x (out_edges E v)).

  Lemma is_int_sub p q : is_int p -> is_int q -> is_int (p - q).
  Proof. intros [z1 H1] [z2 H2]. exists (z1 - z2)%Z. rewrite H1, H2. unfold Zminus. rewrite inject_Z_plus, inject_Z_opp. ring. Qed.
  Lemma is_int_0 : is_int 0. Proof. exists 0%Z. reflexivity. Qed.
  Lemma is_int_absd p q : is_int p -> is_int q -> is_int (absd p q).
  Proof. intros Hp Hq. unfold absd. destruct (Qle_bool q p); apply is_int_sub; assumption. Qed.

  Hypothesis f_range : forall e, In e E -> 0 <= fval I e <= ub.
  Hypothesis f_int : mef_int I = true -> forall e, In e E -> is_int (fval I e).

  Theorem mef_tight_assignment x : is_flow_ub x ->
    sat (assign_of x) (encode_mef I) /\
    (objective (assign_of x) (encode_mef I) == flow_cost x).
  Proof.
    intros [HB HC]. split.
    - apply mef_enc_exact. unfold mef_sem. repeat split.
      + rewrite assign_x. apply HB. exact H.
      + rewrite assign_x. apply HB. exact H.
      + rewrite assign_err. destruct (ignored I e); [lra|]. destruct (absd_spec (fval I e) (x e)) as (A & B & _).
        destruct (HB e H) as [[? ?] _]. destruct (f_range e H). lra.
      + rewrite assign_err. destruct (ignored I e).
        * destruct (f_range e H). lra.
        * destruct (HB e H) as [[? ?] _]. destruct (f_range e H). apply absd_least; lra.
      + rewrite assign_x. apply HB; assumption.
      + rewrite assign_err. destruct (ignored I e); [apply is_int_0|]. apply is_int_absd; [apply f_int; assumption|apply HB; assumption].
      + intros v Hv Hc. rewrite (sumq_ext (xof (assign_of x)) x), (sumq_ext (xof (assign_of x)) x (out_edges E v)).
        * apply HC; assumption.
        * intros e _. rewrite assign_x. reflexivity.
        * intros e _. rewrite assign_x. reflexivity.
      + intros e He. rewrite assign_err, assign_x. destruct (ignored I e); [reflexivity|].
        destruct (absd_spec (fval I e) (x e)) as (A & B & _). split; assumption.
    - rewrite mef_objective_sem. unfold flow_cost.
      rewrite (sumq_ext (xof (assign_of x)) x src_out) by (intros e _; rewrite assign_x; reflexivity).
      rewrite (sumq_ext (fun e => scale_of I e * errof (assign_of x) e) (fun e => scale_of I e * absd (fval I e) (x e)) charged).
      + reflexivity.
      + intros e He. destruct (charged_in e He) as [_ Hig]. rewrite assign_err, Hig. reflexivity.
  Qed.

  (* relative to the solver specification: an optimal LP solution is a closest flow among the flows within the bounds *)
  Theorem mef_optimal_is_closest a :
    (forall e, In e E -> 0 <= scale_of I e) ->
    sat a (encode_mef I) -> (forall b, sat b (encode_mef I) -> obj_le (encode_mef I) a b) ->
    is_flow_ub (xof a) /\
    (forall y, is_flow_ub y -> flow_cost (xof a) <= flow_cost y) /\
    (0 < mef_lambda I \/ mef_lambda I == 0 -> (forall e, In e E -> 0 < scale_of I e \/ ignored I e = true) ->
     objective a (encode_mef I) == flow_cost (xof a)).
  Proof.
    intros Hs Hsat Hopt. pose proof Hsat as Hsem. apply mef_enc_exact in Hsem. destruct Hsem as (HB & HC & HR).
    assert (Hflow : is_flow_ub (xof a)).
    { split; [|exact HC]. intros e He. destruct (HB e He) as (A & _ & B). split; [exact A|]. intros Hi. apply B. exact Hi. }
    split; [exact Hflow|]. split.
    - intros y Hy. destruct (mef_tight_assignment y Hy) as [Sy Oy].
      pose proof (Hopt _ Sy) as Hle. unfold obj_le in Hle. cbn [maximize encode_mef] in Hle.
      pose proof (mef_objective_lower_bound a Hs Hsat). lra.
    - intros _ _. destruct (mef_tight_assignment (xof a) Hflow) as [Sy Oy].
      pose proof (Hopt _ Sy) as Hle. unfold obj_le in Hle. cbn [maximize encode_mef] in Hle.
      pose proof (mef_objective_lower_bound a Hs Hsat). lra.
  Qed.
End MEF.

(* the corrected graph has exactly the node list and the edge list it was built from *)
Theorem mef_same_graph I nodes edges x :
  fst (corrected_graph I nodes edges x) = nodes /\ map fst (snd (corrected_graph I nodes edges x)) = edges /\
  (forall e, In e edges -> In (e, if has_flow I e then Some (corrected_value I x e) else None) (snd (corrected_graph I nodes edges x))).
Proof.
  unfold corrected_graph. cbn [fst snd]. split; [reflexivity|]. split.
  - rewrite map_map. cbn [fst]. apply map_id.
  - intros e He. apply in_map_iff. exists e. split; [reflexivity|exact He].
Qed.

(* few-values model: contains every row and column of the first model and the budget row *)
Theorem mef2_within_budget I subset eps opt nvals a :
  sat a (encode_mef2 I subset eps opt nvals) ->
  sat a (encode_mef I) /\ objective a (encode_mef I) <= (1 + eps) * opt.
Proof.
  unfold sat, encode_mef2. cbn [cols rows]. rewrite !Forall_app. intros ((HC & _) & HR & _ & HB).
  split; [split; assumption|]. inversion HB as [|? ? H1 _]; subst. exact H1.
Qed.

(* ================================================================== MinSetCover (C15) *)
Lemma zipn_in_nth {A} (l : list A) : forall s i x, In (i, x) (zipn s l) ->
  exists n, (s <= n < s + length l)%nat /\ i = N.of_nat n /\ nth_error l (n - s) = Some x.
Proof.
  induction l as [|y l IH]; intros s i x H; [destruct H|].
  cbn [zipn] in H. destruct H as [H|H].
  - injection H as <- <-. exists s. cbn [length]. split; [lia|]. split; [reflexivity|]. rewrite Nat.sub_diag. reflexivity.
  - destruct (IH _ _ _ H) as (n & Hn & Hi & Hx). exists n. cbn [length]. split; [lia|]. split; [exact Hi|].
    replace (n - s)%nat with (S (n - S s)) by lia. exact Hx.
Qed.

Lemma zipn_in_idxs {A} (l : list A) i x : In (i, x) (zipn 0 l) -> In i (idxs l).
Proof.
  intros H. destruct (zipn_in_nth l 0 i x H) as (n & Hn & Hi & _). unfold idxs. apply in_layers. exists n. split; [lia|exact Hi].
Qed.

Lemma bin_sum_ge1 {A} (g : A -> Q) l : (forall x, In x l -> bin (g x)) ->
  (1 <= sumq g l <-> exists x, In x l /\ g x == 1).
Proof.
  induction l as [|x l IH]; intros Hb; cbn [sumq].
  - split; [intros H; lra|intros (x & [] & _)].
  - assert (Hx : bin (g x)) by (apply Hb; left; reflexivity).
    assert (Hl : forall y, In y l -> bin (g y)) by (intros y Hy; apply Hb; right; exact Hy).
    assert (Hn : 0 <= sumq g l) by (apply sumq_nonneg; intros y Hy; destruct (Hl y Hy) as [E|E]; rewrite E; lra).
    destruct Hx as [Hx|Hx].
    + rewrite Hx. split.
      * intros H. assert (H' : 1 <= sumq g l) by lra. apply (IH Hl) in H'. destruct H' as (y & Hy & Hy1). exists y. split; [right; exact Hy|exact Hy1].
      * intros (y & [<-|Hy] & Hy1); [lra|]. assert (1 <= sumq g l) by (apply (IH Hl); exists y; split; assumption). lra.
    + split; [intros _; exists x; split; [left; reflexivity|exact Hx]|intros _; lra].
Qed.

Section MSC.
  Variable I : msc_inst.

  Definition msc_sem (a : var -> Q) : Prop :=
    (forall i, In i (idxs (sc_subsets I)) -> bin (a (Sub i))) /\
    (forall el, In el (sc_universe I) ->
       exists i S, In (i, S) (zipn 0 (sc_subsets I)) /\ nmem el S = true /\ a (Sub i) == 1).

  (* the rows are satisfied exactly when the chosen subsets (value 1) cover the universe *)
  Theorem msc_enc_exact m a : encode_msc I = Some m -> (sat a m <-> msc_sem a).
  Proof.
    unfold encode_msc. destruct (msc_obj 0 (sc_subsets I) (msc_weights I)) as [o|]; [|discriminate]. cbn [option_map]. intros E. injection E as <-.
    unfold sat, msc_sem. cbn [cols rows]. unfold msc_cols, msc_rows. rewrite !Forall_map_iff.
    assert (Hrow : (forall i, In i (idxs (sc_subsets I)) -> bin (a (Sub i))) -> forall el,
              sat_row a (cover_row I el) <->
              exists i S, In (i, S) (zipn 0 (sc_subsets I)) /\ nmem el S = true /\ a (Sub i) == 1).
    { intros Hb el. unfold cover_row. rewrite sat_row_ge, eval_ones_sumq.
      rewrite (bin_sum_ge1 (fun iS => a (Sub (fst iS)))).
      - split.
        + intros ([i S] & Hin & H1). apply filter_In in Hin. destruct Hin as [Hin Hm]. exists i, S. cbn [fst snd] in *. tauto.
        + intros (i & S & Hin & Hm & H1). exists (i, S). split; [apply filter_In; split; assumption|exact H1].
      - intros [i S] Hin. apply filter_In in Hin. destruct Hin as [Hin _]. apply Hb. cbn [fst]. eapply zipn_in_idxs. exact Hin. }
    split.
    - intros [HC HR]. assert (Hb : forall i, In i (idxs (sc_subsets I)) -> bin (a (Sub i))).
      { intros i Hi. apply bin_of_col. apply (HC i Hi). }
      split; [exact Hb|]. intros el Hel. apply (Hrow Hb). apply HR. exact Hel.
    - intros [Hb HU]. split.
      + intros i Hi. apply col_of_bin. apply Hb. exact Hi.
      + intros el Hel. apply (Hrow Hb). apply HU. exact Hel.
  Qed.

  (* objective = total weight: sum over the subsets of weight * value *)
  Lemma msc_obj_sem a : forall subsets ws i o, msc_obj i subsets ws = Some o ->
    eval a o == sumq (fun iw => snd iw * a (Sub (fst iw))) (zipn i (firstn (length subsets) ws)) /\
    (length subsets <= length ws)%nat.
  Proof.
    induction subsets as [|S0 r IH]; intros ws i o H; cbn [msc_obj] in H.
    - injection H as <-. cbn. split; [reflexivity|lia].
    - destruct ws as [|w wr]; [discriminate|]. destruct (msc_obj (S i) r wr) as [o'|] eqn:E; [|discriminate].
      cbn [option_map] in H. injection H as <-. destruct (IH wr (S i) o' E) as [H1 H2].
      cbn [length firstn zipn sumq eval fst snd]. split; [rewrite H1; ring|lia].
  Qed.

  Theorem msc_objective_is_weight m a : encode_msc I = Some m ->
    objective a m == sumq (fun iw => snd iw * a (Sub (fst iw))) (zipn 0 (firstn (length (sc_subsets I)) (msc_weights I))).
  Proof.
    unfold encode_msc. destruct (msc_obj 0 (sc_subsets I) (msc_weights I)) as [o|] eqn:E; [|discriminate].
    cbn [option_map]. intros H. injection H as <-. unfold objective. cbn [obj]. apply (msc_obj_sem a _ _ _ _ E).
  Qed.

  (* default weights (None): a model is always built and its objective is the number of chosen subsets *)
  Lemma msc_obj_repeat a : forall subsets i, exists o, msc_obj i subsets (repeat 1 (length subsets)) = Some o /\
    eval a o == sumq (fun j => a (Sub j)) (map N.of_nat (seq i (length subsets))).
  Proof.
    induction subsets as [|S0 r IH]; intros i; cbn [length repeat msc_obj seq map sumq].
    - exists []. split; reflexivity.
    - destruct (IH (S i)) as (o & -> & Ho). eexists. split; [reflexivity|]. cbn [eval fst snd]. rewrite Ho. ring.
  Qed.

  Theorem msc_default_weights_unit a : sc_weights I = None ->
    exists m, encode_msc I = Some m /\ objective a m == sumq (fun j => a (Sub j)) (idxs (sc_subsets I)).
  Proof.
    intros Hn. unfold encode_msc, msc_weights. rewrite Hn. destruct (msc_obj_repeat a (sc_subsets I) 0%nat) as (o & -> & Ho).
    eexists. split; [reflexivity|]. unfold objective. cbn [obj]. exact Ho.
  Qed.
End MSC.

(* FIXED finding #18 (4e8a1f8): before the fix the documented default (no weights) built no model although a cover exists *)
Theorem msc_old_default_weights_refuted : exists I : msc_inst,
  sc_weights I = None /\ encode_msc_old I = None /\ encode_msc I <> None /\
  (forall el, In el (sc_universe I) -> exists S, In S (sc_subsets I) /\ nmem el S = true).
Proof.
  exists {| sc_universe := [1; 2; 3]%N; sc_subsets := [[1; 2]; [2; 3]; [3]]%N; sc_weights := None |}.
  split; [reflexivity|]. split; [reflexivity|]. split; [discriminate|]. cbn [sc_universe sc_subsets].
  intros el [<-|[<-|[<-|[]]]].
  - exists [1; 2]%N. split; [left; reflexivity|reflexivity].
  - exists [1; 2]%N. split; [left; reflexivity|reflexivity].
  - exists [3]%N. split; [right; right; left; reflexivity|reflexivity].
Qed.

(* ================================================================== MinGenSet: the search loop *)
Lemma mgsm_loop_on_spec status : forall ks tried res, mgsm_loop_on status ks = (tried, res) ->
  exists pre, Forall (fun k' => status k' = MgInfeasible) pre /\
  match res with
  | Some k => exists post, ks = pre ++ k :: post /\ tried = pre ++ [k] /\ status k = MgOptimal
  | None => (tried = ks /\ pre = ks) \/
            (exists k post, ks = pre ++ k :: post /\ tried = pre ++ [k] /\ status k = MgOther)
  end.
Proof.
  induction ks as [|k r IH]; intros tried res H; cbn [mgsm_loop_on] in H.
  - injection H as <- <-. exists []. split; [constructor|]. left. split; reflexivity.
  - destruct (status k) eqn:Es.
    + injection H as <- <-. exists []. split; [constructor|]. exists r. repeat split. exact Es.
    + destruct (mgsm_loop_on status r) as [t' r'] eqn:Er. injection H as <- <-.
      destruct (IH t' r' eq_refl) as (pre & Hp & Hres). exists (k :: pre). split; [constructor; assumption|].
      destruct r' as [k'|].
      * destruct Hres as (post & -> & -> & Hs). exists post. repeat split. exact Hs.
      * destruct Hres as [[-> ->]|(k' & post & -> & -> & Hs)].
        -- left. split; reflexivity.
        -- right. exists k', post. repeat split. exact Hs.
    + injection H as <- <-. exists []. split; [constructor|]. right. exists k, r. repeat split. exact Es.
Qed.

Lemma seq_split_at : forall pre lb len k post, seq lb len = pre ++ k :: post ->
  pre = seq lb (length pre) /\ k = (lb + length pre)%nat.
Proof.
  induction pre as [|p pre IH]; intros lb len k post H.
  - destruct len; [discriminate|]. cbn [seq app] in H. injection H as -> _. cbn. split; [reflexivity|lia].
  - destruct len; [discriminate|]. cbn [seq app] in H. injection H as <- H. destruct (IH _ _ _ _ H) as [H1 H2].
    cbn [length seq]. split; [f_equal; exact H1|lia].
Qed.

Section MgsSearch.
  Variable feasible : nat -> Prop.          (* "the model for k has a satisfying assignment" *)
  Variable status : nat -> mstatus.
  Hypothesis opt_feasible : forall k, status k = MgOptimal -> feasible k.
  Hypothesis inf_infeasible : forall k, status k = MgInfeasible -> ~ feasible k.

  (* the loop answers k only if the model for k is optimal and every smaller size from the lower bound on
     was proven infeasible: k is the least feasible size >= lowerbound *)
  Theorem mgsm_loop_sound lb n extra tried k : mgsm_loop status lb n extra = (tried, Some k) ->
    feasible k /\ In k (mgsm_range lb n extra) /\ (Nat.max 1 lb <= k)%nat /\ forall k', (Nat.max 1 lb <= k' < k)%nat -> ~ feasible k'.
  Proof.
    unfold mgsm_loop. intros H. apply mgsm_loop_on_spec in H. destruct H as (pre & Hp & post & Hks & Htr & Hs).
    unfold mgsm_range, mgsm_first in *. cbv zeta in Hks. destruct (seq_split_at _ _ _ _ _ Hks) as [Hpre Hk].
    split; [apply opt_feasible; exact Hs|]. split; [rewrite Hks; apply in_or_app; right; left; reflexivity|]. split; [lia|].
    intros k' Hk'. apply inf_infeasible. rewrite Forall_forall in Hp. apply Hp. rewrite Hpre. apply in_seq. lia.
  Qed.

  (* unsolved means: the whole range was proven infeasible, or an inconclusive status was met (and the loop stopped there) *)
  Theorem mgsm_loop_none lb n extra tried : mgsm_loop status lb n extra = (tried, None) ->
    (tried = mgsm_range lb n extra /\ forall k, In k (mgsm_range lb n extra) -> ~ feasible k) \/
    (exists k, In k tried /\ status k = MgOther).
  Proof.
    unfold mgsm_loop. intros H. apply mgsm_loop_on_spec in H. destruct H as (pre & Hp & [[-> Hpre]|(k & post & Hks & -> & Hs)]).
    - left. split; [reflexivity|]. intros k Hk. apply inf_infeasible. rewrite Forall_forall in Hp. apply Hp. rewrite Hpre. exact Hk.
    - right. exists k. split; [apply in_or_app; right; left; reflexivity|exact Hs].
  Qed.

  (* with conclusive statuses the loop succeeds whenever some size of its range is feasible *)
  Theorem mgsm_loop_complete lb n extra : (forall k, status k = MgOptimal \/ status k = MgInfeasible) ->
    (exists k, In k (mgsm_range lb n extra) /\ feasible k) -> exists tried k, mgsm_loop status lb n extra = (tried, Some k).
  Proof.
    intros Hc (k0 & Hin & Hf). unfold mgsm_loop. induction (mgsm_range lb n extra) as [|k r IH]; [destruct Hin|].
    cbn [mgsm_loop_on]. destruct (Hc k) as [E|E]; rewrite E.
    - exists [k], k. reflexivity.
    - destruct Hin as [->|Hin]; [exfalso; apply (inf_infeasible _ E); exact Hf|].
      destruct (IH Hin) as (tried & k' & ->). exists (k :: tried), k'. reflexivity.
  Qed.
End MgsSearch.

(* FIXED finding mgs_lowerbound_below_one (2a5d8e1): the loop that started at the lower bound itself met the empty model k = 0
   (status kModelEmpty = MgOther) for lowerbound 0 and stopped unsolved; the loop as it is now starts at 1 and answers *)
Theorem mgsm_loop_from_lb_zero_refuted : exists (status : nat -> mstatus) n,
  status 0%nat = MgOther /\ status 1%nat = MgOptimal /\
  mgsm_loop_from_lb status 0 n 0 = ([0%nat], None) /\ mgsm_loop status 0 n 0 = ([1%nat], Some 1%nat) /\
  mgsm_range_z (-3) n 0 = mgsm_range 0 n 0.
Proof. exists (fun k => if (k =? 0)%nat then MgOther else MgOptimal), 1%nat. repeat split; reflexivity. Qed.

(* FIXED finding #14 (03febc7): the old loop skipped an inconclusive status and reported the next size as solved;
   the loop as it is now stops unsolved on the same history *)
Theorem mgsm_loop_old_skips_inconclusive_refuted : exists (status : nat -> mstatus) lb n tried k,
  status 1%nat = MgOther /\ mgsm_loop_old status lb n = (tried, Some k) /\ In 1%nat tried /\ (1 < k)%nat /\
  mgsm_loop status lb n 0 = ([1%nat], None).
Proof.
  exists (fun k => if (k =? 1)%nat then MgOther else MgOptimal), 1%nat, 3%nat, [1; 2]%nat, 2%nat.
  repeat split; try reflexivity; [left; reflexivity|lia].
Qed.

(* FIXED finding (f5a395c): int() truncates a solver value inside the integrality tolerance toward zero;
   round(), which the code uses now, returns the intended integer (py_round_near below) *)
Theorem py_int_truncates_refuted : exists q : Q, 3 - (1 # 1000000) <= q /\ q < 3 /\ py_int q = 2%Z.
Proof. exists (29999999 # 10000000). split; [|split]; [unfold Qle; cbn; lia|unfold Qlt; cbn; lia|reflexivity]. Qed.

(* ================================================================== MinGenSet: generating multisets *)
Fixpoint dotz (xs : list Z) (g : list Q) : Q :=
  match xs, g with
  | x :: xr, v :: gr => inject_Z x * v + dotz xr gr
  | _, _ => 0
  end.

Definition gen_by (mult : nat) (g : list Q) (a : Q) : Prop :=
  exists xs : list Z, length xs = length g /\ Forall (fun x => (0 <= x <= Z.of_nat mult)%Z) xs /\ a == dotz xs g.

(* g is a generating multiset for (numbers, total) with multiplicities <= mult *)
Definition genset (mult : nat) (numbers : list Q) (total : Q) (g : list Q) : Prop :=
  Forall (fun v => 0 <= v) g /\ sumql g == total /\ forall a, In a numbers -> gen_by mult g a.

(* FIXED finding #13 (2966290): numbers [5], total 6: the OLD loop's range is [1], size 1 has no generating multiset, size 2 has *)
Theorem mgsm_loop_old_upper_end_refuted : exists numbers total,
  (exists g, length g = 2%nat /\ genset 1 numbers total g) /\
  (forall g, length g = 1%nat -> ~ genset 1 numbers total g) /\
  In 2%nat (mgsm_range 1 (length numbers) 0) /\ ~ In 2%nat (mgsm_range_old 1 (length numbers)) /\
  forall status, snd (mgsm_loop_old status 1 (length numbers)) = None \/ snd (mgsm_loop_old status 1 (length numbers)) = Some 1%nat.
Proof.
  exists [5], 6. split; [|split; [|split; [|split]]].
  - exists [1; 5]. split; [reflexivity|]. split; [|split].
    + repeat constructor; lra.
    + vm_compute; reflexivity.
    + intros a [<-|[]]. exists [0; 1]%Z. split; [reflexivity|]. split; [repeat (apply Forall_cons; [lia|]); apply Forall_nil|]. vm_compute; reflexivity.
  - intros g Hl (_ & Hs & Hg). destruct g as [|v [|? ?]]; try discriminate. cbn [sumql] in Hs.
    destruct (Hg 5 (or_introl eq_refl)) as (xs & Hlx & Hx & He). destruct xs as [|x [|? ?]]; try discriminate.
    cbn [dotz] in He. inversion Hx as [|? ? Hx0 _]; subst.
    assert (x = 0 \/ x = 1)%Z as [->| ->] by lia; try change (inject_Z 0) with 0 in He; try change (inject_Z 1) with 1 in He; lra.
  - cbn. right. left. reflexivity.
  - cbn. intros [C|[]]. discriminate.
  - intros status. unfold mgsm_loop_old. cbn. destruct (is_opt (status 1%nat)); [right|left]; reflexivity.
Qed.

(* second witness of #13: [1,2,4], total 7: {1,2,4} has size 3 = len(numbers), which the range excludes *)
Theorem mgsm_loop_old_upper_end_refuted2 : exists numbers total,
  (exists g, length g = 3%nat /\ genset 1 numbers total g) /\
  ~ In 3%nat (mgsm_range_old 1 (length numbers)) /\ In 3%nat (mgsm_range 1 (length numbers) 0).
Proof.
  exists [1; 2; 4], 7. split; [|split].
  - exists [1; 2; 4]. split; [reflexivity|]. split; [|split].
    + repeat constructor; lra.
    + vm_compute; reflexivity.
    + intros a [<-|[<-|[<-|[]]]].
      * exists [1; 0; 0]%Z. split; [reflexivity|]. split; [repeat (apply Forall_cons; [lia|]); apply Forall_nil|]. vm_compute; reflexivity.
      * exists [0; 1; 0]%Z. split; [reflexivity|]. split; [repeat (apply Forall_cons; [lia|]); apply Forall_nil|]. vm_compute; reflexivity.
      * exists [0; 0; 1]%Z. split; [reflexivity|]. split; [repeat (apply Forall_cons; [lia|]); apply Forall_nil|]. vm_compute; reflexivity.
  - cbn. intros [C|[C|[]]]; discriminate.
  - vm_compute. tauto.
Qed.

(* ================================================================== MinGenSet: what the rows force *)
Lemma int_in_range q (n : nat) : is_int q -> 0 <= q <= inject_Z (Z.of_nat n) ->
  exists z, q == inject_Z z /\ (0 <= z <= Z.of_nat n)%Z.
Proof.
  intros [z Hz] [H0 H1]. exists z. split; [exact Hz|]. rewrite Hz in H0, H1.
  change 0 with (inject_Z 0) in H0. rewrite <- Zle_Qle in H0, H1. lia.
Qed.

Lemma bin_int_range q (n : nat) : (1 <= n)%nat -> bin q -> exists z, q == inject_Z z /\ (0 <= z <= Z.of_nat n)%Z.
Proof. intros Hn [H|H]; [exists 0%Z|exists 1%Z]; (split; [rewrite H; reflexivity|lia]). Qed.

Lemma in_ijc I k i j c : In (i, j, c) (ijc I k) <-> In i (layers k) /\ In j (layers (parts_t I)) /\ In c (idxs (parts_of I)).
Proof.
  unfold ijc. rewrite in_flat_map. split.
  - intros (i' & Hi & H). apply in_flat_map in H. destruct H as (j' & Hj & H). apply in_map_iff in H.
    destruct H as (c' & E & Hc). injection E as <- <- <-. tauto.
  - intros (Hi & Hj & Hc). exists i. split; [exact Hi|]. apply in_flat_map. exists j. split; [exact Hj|].
    apply in_map_iff. exists c. split; [reflexivity|exact Hc].
Qed.

Section MGS.
  Variable pub : Q.                         (* bound handed to the integer product helper *)
  Variable piub : Q.                        (* upper bound of the pi columns *)
  Variable I : mgs_inst.
  Variable k : nat.
  Let total := mg_total I.
  Let t := parts_t I.
  Hypothesis mult_pos : (1 <= mg_mult I)%nat.
  Hypothesis pub_ge : mg_total I <= pub.

  Definition mgs_sem (a : var -> Q) : Prop :=
    (forall i, In i (layers k) -> 0 <= a (Gen i) <= total /\ (mg_int I = true -> is_int (a (Gen i)))) /\
    sumq (fun i => a (Gen i)) (layers k) == total /\
    (forall j aj, In (j, aj) (zipn 0 (mg_numbers I)) ->
       (forall i, In i (layers k) ->
          exists z : Z, a (Xv i j) == inject_Z z /\ (0 <= z <= Z.of_nat (mg_mult I))%Z /\
                        (mult1 I = false -> (z < 2 ^ Z.of_nat (num_bits pub))%Z) /\
                        a (Pij i j) == a (Xv i j) * a (Gen i) /\ a (Pij i j) <= piub) /\
       sumq (fun i => a (Pij i j)) (layers k) == aj) /\
    (forall i, In i (layers (k - 2)) -> a (Gen i) <= a (Gen (i + 1)%N)) /\
    (forall c cs, In (c, cs) (zipn 0 (parts_of I)) ->
       (forall i, In i (layers k) ->
          (forall j, In j (layers t) -> bin (a (Yv i j c)) /\ a (PiY i j c) == a (Yv i j c) * a (Gen i)) /\
          sumq (fun j => a (Yv i j c)) (layers t) == 1) /\
       (forall j v, In (j, v) (zipn 0 cs) -> sumq (fun i => a (PiY i j c)) (layers k) == v)).

  Lemma part_cols_unfold : parts_of I <> [] -> part_cols I k =
    map (fun t => bincol (Yv (fst (fst t)) (snd (fst t)) (snd t))) (ijc I k) ++
    map (fun t => qcol (PiY (fst (fst t)) (snd (fst t)) (snd t)) 0%Q (mg_total I) (mg_int I)) (ijc I k).
  Proof. unfold part_cols, ijc. destruct (parts_of I); [congruence|reflexivity]. Qed.

  Lemma part_rows_unfold : parts_of I <> [] -> part_rows I k =
    flat_map (fun t => let '(i, j, c) := t in mcc_rows (Yv i j c) (Gen i) (PiY i j c) 0%Q (mg_total I)) (ijc I k) ++
    flat_map (fun i => map (fun c => mkrow (map (fun j => (Yv i j c, 1%Q)) (layers (parts_t I))) SEq 1%Q) (idxs (parts_of I))) (layers k) ++
    flat_map (fun cc => map (fun jv => mkrow (map (fun i => (PiY i (fst jv) (fst cc), 1%Q)) (layers k)) SEq (snd jv))
                            (zipn 0 (snd cc))) (zipn 0 (parts_of I)).
  Proof. unfold part_rows, ijc. destruct (parts_of I); [congruence|reflexivity]. Qed.

  Theorem mgs_enc_sound a : sat a (encode_mgs_gen pub piub I k) -> mgs_sem a.
  Proof.
    unfold sat, encode_mgs_gen. cbn [cols rows]. unfold mgs_cols, mgs_rows.
    rewrite !Forall_app. intros ((CG & CX & CP & CB & CY) & (RT & RJ & RS & RP)).
    rewrite Forall_map_iff in CG. rewrite Forall_flat_map in CX. rewrite Forall_flat_map in RJ. rewrite Forall_flat_map in CP.
    assert (HG : forall i, In i (layers k) -> 0 <= a (Gen i) <= total /\ (mg_int I = true -> is_int (a (Gen i)))).
    { intros i Hi. destruct (CG i Hi) as (A & B & C). cbn [cvar clb cub cint qcol] in *. fold total in B. tauto. }
    unfold mgs_sem. split; [exact HG|]. split; [|split; [|split]].
    - inversion RT as [|? ? H1 _]; subst. unfold row_total in H1. rewrite sat_row_eq, eval_ones_sumq in H1. exact H1.
    - intros j aj Hj. specialize (RJ _ Hj). rewrite Forall_app, Forall_flat_map in RJ. destruct RJ as [RPR RSUM]. cbn [fst snd] in *.
      split.
      + intros i Hi. specialize (RPR i Hi). destruct (HG i Hi) as [HGi _].
        assert (HPc : a (Pij i j) <= piub).
        { specialize (CP i Hi). rewrite Forall_map_iff in CP. destruct (CP j (zipn_in_idxs _ _ _ Hj)) as (_ & B & _). exact B. }
        assert (HXc : sat_col a (qcol (Xv i j) 0 (x_ub I) true)).
        { specialize (CX i Hi). rewrite Forall_map_iff in CX. apply CX. eapply zipn_in_idxs. exact Hj. }
        unfold prod_rows in RPR. unfold x_ub in HXc. destruct (mult1 I) eqn:M.
        * assert (Hb : bin (a (Xv i j))) by (apply bin_of_col; exact HXc).
          destruct (bin_int_range _ _ mult_pos Hb) as (z & Hz & Hr). exists z. split; [exact Hz|]. split; [exact Hr|]. split; [discriminate|]. split; [|exact HPc].
          apply (mcc_rows_exact a (Xv i j) (Gen i) (Pij i j) 0 (mg_total I) Hb); [exact HGi|exact RPR].
        * rewrite Forall_flat_map in CB.
          assert (HBc : Forall (sat_col a) (intprod_cols (Pij i j) 0 pub (num_bits pub))).
          { specialize (CB j (zipn_in_idxs _ _ _ Hj)). rewrite Forall_flat_map in CB. apply CB. exact Hi. }
          assert (Hsem := proj1 (intprod_rows_sem (Xv i j) (Gen i) (Pij i j) 0 pub (num_bits pub)
                                  ltac:(split; discriminate) ltac:(split; discriminate) ltac:(split; discriminate) a) (conj HBc RPR)).
          cbn zeta in Hsem. destruct Hsem as (HB & HF & HVx & HVp).
          assert (Hip : intprod (num_bits pub) (a (Xv i j)) (a (Gen i)) (a (Pij i j)) 0 pub).
          { eexists _, _. split; [|split; [exact HB|split; [exact HF|split; [exact HVx|exact HVp]]]].
            rewrite map_length, seq_length. reflexivity. }
          assert (H0t : 0 <= 0 <= pub) by (fold total in pub_ge; lra).
          assert (HGp : 0 <= a (Gen i) <= pub) by (fold total in pub_ge; lra).
          apply (intprod_exact _ _ _ _ _ _ HGp H0t) in Hip. destruct Hip as (z & Hz & Hr & Hp).
          exists z. split; [exact Hz|]. split; [|split; [intros _; lia|split; [exact Hp|exact HPc]]].
          destruct HXc as (_ & Hu & _). cbn [cvar cub qcol] in Hu. rewrite Hz in Hu. rewrite <- Zle_Qle in Hu. lia.
      + inversion RSUM as [|? ? H1 _]; subst. unfold row_sum_pi in H1. rewrite sat_row_eq, eval_ones_sumq in H1. exact H1.
    - intros i Hi. unfold sym_rows in RS. rewrite Forall_map_iff in RS. specialize (RS i Hi).
      rewrite sat_row_le in RS. cbn [eval fst snd] in RS. lra.
    - intros c cs Hc.
      assert (Hne : parts_of I <> []) by (intros E0; rewrite E0 in Hc; destruct Hc).
      rewrite (part_cols_unfold Hne) in CY. rewrite (part_rows_unfold Hne) in RP.
      rewrite Forall_app in CY. destruct CY as [CYb _]. rewrite Forall_map_iff in CYb.
      rewrite !Forall_app, !Forall_flat_map in RP. destruct RP as (RM & RU & RSm).
      assert (Hcidx : In c (idxs (parts_of I))) by (eapply zipn_in_idxs; exact Hc).
      split.
      + intros i Hi. split.
        * intros j Hj. assert (Hin : In (i, j, c) (ijc I k)) by (apply in_ijc; fold t; tauto).
          assert (Hb : bin (a (Yv i j c))) by (apply bin_of_col; apply (CYb _ Hin)).
          split; [exact Hb|]. specialize (RM _ Hin). cbn beta iota in RM.
          apply (mcc_rows_exact a (Yv i j c) (Gen i) (PiY i j c) 0 (mg_total I) Hb); [apply HG; exact Hi|exact RM].
        * specialize (RU i Hi). rewrite Forall_map_iff in RU. specialize (RU c Hcidx).
          rewrite sat_row_eq, eval_ones_sumq in RU. exact RU.
      + intros j v Hjv. specialize (RSm _ Hc). cbn [fst snd] in RSm. rewrite Forall_map_iff in RSm. specialize (RSm _ Hjv).
        cbn [fst snd] in RSm. rewrite sat_row_eq, eval_ones_sumq in RSm. exact RSm.
  Qed.
End MGS.

(* ---- soundness in terms of multisets ---- *)
Lemma sumql_map {A} (f : A -> Q) l : sumql (map f l) == sumq f l.
Proof. induction l as [|x l IH]; cbn [map sumql sumq]; [reflexivity|rewrite IH; reflexivity]. Qed.

Lemma choose_zs {A} (l : list A) (x g p : A -> Q) (m : Z) :
  (forall i, In i l -> exists z, x i == inject_Z z /\ (0 <= z <= m)%Z /\ p i == x i * g i) ->
  exists zs, length zs = length l /\ Forall (fun z => (0 <= z <= m)%Z) zs /\ sumq p l == dotz zs (map g l).
Proof.
  induction l as [|i l IH]; intros H.
  - exists []. split; [reflexivity|]. split; [constructor|reflexivity].
  - destruct (H i (or_introl eq_refl)) as (z & Hz & Hr & Hp).
    destruct IH as (zs & Hl & Hf & Hs); [intros j Hj; apply H; right; exact Hj|].
    exists (z :: zs). cbn [length map sumq dotz]. split; [lia|]. split; [constructor; assumption|].
    rewrite Hs, Hp, Hz. reflexivity.
Qed.

Lemma zipn_of_in {A} (l : list A) : forall s x, In x l -> exists i, In (i, x) (zipn s l).
Proof.
  induction l as [|y l IH]; intros s x H; [destruct H|]. destruct H as [->|H].
  - exists (N.of_nat s). left. reflexivity.
  - destruct (IH (S s) x H) as (i & Hi). exists i. right. exact Hi.
Qed.

(* every satisfying assignment carries a generating multiset of size k *)
Lemma prod_ub_ge I : mg_total I <= prod_ub I /\ inject_Z (Z.of_nat (mg_mult I)) <= prod_ub I.
Proof.
  unfold prod_ub. cbn zeta. destruct (Qle_bool (inject_Z (Z.of_nat (mg_mult I))) (mg_total I)) eqn:E.
  - apply Qle_bool_iff in E. split; [lra|exact E].
  - split; [|lra]. apply Qlt_le_weak. apply Qnot_le_lt. intros C. apply Qle_bool_iff in C. congruence.
Qed.

(* the bit vector of the multiplicity (b959a54) can represent every value 0 .. max_multiplicity *)
Theorem mgs_bits_suffice I : 0 <= mg_total I -> (Z.of_nat (mg_mult I) < 2 ^ Z.of_nat (num_bits (prod_ub I)))%Z.
Proof.
  intros H0. destruct (prod_ub_ge I) as [Ht Hm]. destruct (num_bits_spec (prod_ub I)) as [Hp _]; [lra|].
  unfold pow2 in Hp. assert (inject_Z (Z.of_nat (mg_mult I)) + 1 <= inject_Z (2 ^ Z.of_nat (num_bits (prod_ub I)))) by lra.
  change 1 with (inject_Z 1) in H. rewrite <- inject_Z_plus, <- Zle_Qle in H. lia.
Qed.

Theorem mgs_enc_sound_code I k a : (1 <= mg_mult I)%nat -> sat a (encode_mgs I k) -> mgs_sem (prod_ub I) (pi_ub I) I k a.
Proof. intros Hm Hs. unfold encode_mgs in Hs. exact (mgs_enc_sound (prod_ub I) (pi_ub I) I k Hm (proj1 (prod_ub_ge I)) a Hs). Qed.

Theorem mgs_sound_multiset I k a : (1 <= mg_mult I)%nat -> sat a (encode_mgs I k) ->
  let g := map (fun i => a (Gen i)) (layers k) in
  length g = k /\ genset (mg_mult I) (mg_numbers I) (mg_total I) g /\
  (mg_int I = true -> Forall is_int g).
Proof.
  intros Hm Hsat. apply (mgs_enc_sound_code I k a Hm) in Hsat. destruct Hsat as (HG & HT & HJ & _ & _). cbn zeta.
  split; [unfold layers; rewrite !map_length, seq_length; reflexivity|]. split; [split; [|split]|].
  - apply Forall_map_iff. intros i Hi. apply HG. exact Hi.
  - rewrite sumql_map. exact HT.
  - intros aj Hin. destruct (zipn_of_in _ 0 _ Hin) as (j & Hj). destruct (HJ j aj Hj) as [HX HS].
    destruct (choose_zs (layers k) (fun i => a (Xv i j)) (fun i => a (Gen i)) (fun i => a (Pij i j)) (Z.of_nat (mg_mult I))) as (zs & Hl & Hf & Hs).
    { intros i Hi. destruct (HX i Hi) as (z & Hz & Hr & _ & Hp). exists z. tauto. }
    exists zs. split; [rewrite map_length; exact Hl|]. split; [exact Hf|]. rewrite <- Hs, HS. reflexivity.
  - intros Hi. apply Forall_map_iff. intros i Hin. apply HG; assumption.
Qed.

(* ================================================================== MinGenSet: pre-processing *)
Lemma qmem_spec x l : qmem x l = true <-> exists y, In y l /\ x == y.
Proof.
  unfold qmem. rewrite existsb_exists. split; intros (y & Hy & E); exists y; (split; [exact Hy|]); apply Qeq_bool_iff; exact E.
Qed.

Lemma qnodup_incl l : forall y, In y (qnodup l) -> In y l.
Proof.
  induction l as [|x l IH]; intros y H; [exact H|]. cbn [qnodup] in H. destruct (qmem x (qnodup l)).
  - right. apply IH. exact H.
  - destruct H as [->|H]; [left; reflexivity|right; apply IH; exact H].
Qed.

Lemma qnodup_complete l : forall x, In x l -> exists y, In y (qnodup l) /\ x == y.
Proof.
  induction l as [|z l IH]; intros x H; [destruct H|]. cbn [qnodup]. destruct H as [->|H].
  - destruct (qmem x (qnodup l)) eqn:E.
    + apply qmem_spec in E. exact E.
    + exists x. split; [left; reflexivity|reflexivity].
  - destruct (IH x H) as (y & Hy & E). exists y. split; [|exact E]. destruct (qmem z (qnodup l)); [exact Hy|right; exact Hy].
Qed.

Lemma gen_by_eq m g a b : a == b -> gen_by m g a -> gen_by m g b.
Proof. intros E (xs & H1 & H2 & H3). exists xs. repeat split; try assumption. rewrite <- E. exact H3. Qed.

Lemma dotz_repeat1 g : dotz (repeat 1%Z (length g)) g == sumql g.
Proof. induction g as [|v g IH]; cbn [length repeat dotz sumql]; [reflexivity|]. rewrite IH. change (inject_Z 1) with 1. ring. Qed.
Lemma dotz_repeat0 g : dotz (repeat 0%Z (length g)) g == 0.
Proof. induction g as [|v g IH]; cbn [length repeat dotz]; [reflexivity|]. rewrite IH. change (inject_Z 0) with 0. ring. Qed.

Lemma gen_total m g total : (1 <= m)%nat -> sumql g == total -> gen_by m g total.
Proof.
  intros Hm Hs. exists (repeat 1%Z (length g)). split; [apply repeat_length|]. split.
  - apply Forall_forall. intros x Hx. apply repeat_spec in Hx. subst. lia.
  - rewrite dotz_repeat1. symmetry. exact Hs.
Qed.
Lemma gen_zero m g : gen_by m g 0.
Proof.
  exists (repeat 0%Z (length g)). split; [apply repeat_length|]. split.
  - apply Forall_forall. intros x Hx. apply repeat_spec in Hx. subst. lia.
  - rewrite dotz_repeat0. reflexivity.
Qed.

Lemma dotz_compl : forall xs g, length xs = length g ->
  dotz (map (fun x => (1 - x)%Z) xs) g == sumql g - dotz xs g.
Proof.
  induction xs as [|x xs IH]; intros [|v g] H; try discriminate; cbn [map dotz sumql]; [ring|].
  rewrite IH by (cbn in H; lia). unfold Zminus. rewrite inject_Z_plus, inject_Z_opp. change (inject_Z 1) with 1. ring.
Qed.

(* with multiplicities 0/1 the complement of a generated number is generated *)
Lemma gen_compl g total v : sumql g == total -> gen_by 1 g v -> gen_by 1 g (total - v).
Proof.
  intros Hs (xs & Hl & Hf & He). exists (map (fun x => (1 - x)%Z) xs). split; [rewrite map_length; exact Hl|]. split.
  - apply Forall_map_iff. intros x Hx. rewrite Forall_forall in Hf. specialize (Hf x Hx). lia.
  - rewrite (dotz_compl _ _ Hl), <- He, Hs. reflexivity.
Qed.

Lemma in_removed compl numbers total y : In y (mgs_removed_gen compl numbers total) ->
  exists v, In v numbers /\
    ((compl = true /\ y = (total - v)%Q /\ qmem (total - v) numbers = true /\ v < total - v) \/ (y = v /\ (v == total \/ v == 0))).
Proof.
  unfold mgs_removed_gen. rewrite in_flat_map. intros (v & Hv & H). exists v. split; [exact Hv|]. apply in_app_or in H. destruct H as [H|H].
  - destruct (compl && qmem (total - v) numbers && Qlt_bool v (total - v)) eqn:E; [|destruct H].
    apply andb_true_iff in E. destruct E as [E1 E2]. apply andb_true_iff in E1. destruct E1 as [E0 E1].
    apply Qlt_bool_iff in E2. destruct H as [<-|[]]. left. tauto.
  - destruct (Qeq_bool v total || Qeq_bool v 0) eqn:E; [|destruct H]. destruct H as [<-|[]]. right. split; [reflexivity|].
    apply orb_true_iff in E. destruct E as [E|E]; apply Qeq_bool_iff in E; tauto.
Qed.

(* removal of total / zero / duplicates, and of complements when [compl]: sound whenever complements are
   only removed for max_multiplicity = 1 *)
Lemma removal_sound_gen compl mult numbers total g : (1 <= mult)%nat -> (compl = true -> mult = 1%nat) ->
  genset mult (mgs_preprocess_gen compl true numbers total) total g -> genset mult numbers total g.
Proof.
  intros Hm Hc (Hpos & Hsum & Hgen). split; [exact Hpos|]. split; [exact Hsum|].
  cbn [mgs_preprocess_gen] in Hgen.
  assert (Hkept : forall a, In a numbers -> qmem a (mgs_removed_gen compl numbers total) = false -> gen_by mult g a).
  { intros a Ha R. destruct (qnodup_complete (filter (fun x => negb (qmem x (mgs_removed_gen compl numbers total))) numbers) a) as (y & Hy & E).
    - apply filter_In. split; [exact Ha|]. rewrite R. reflexivity.
    - apply (gen_by_eq mult g y a); [symmetry; exact E|]. apply Hgen. exact Hy. }
  assert (Hsmall : forall v, In v numbers -> v < total - v -> gen_by mult g v).
  { intros v Hv Hlt. destruct (qmem v (mgs_removed_gen compl numbers total)) eqn:R; [|apply Hkept; assumption].
    apply qmem_spec in R. destruct R as (y & Hy & E). destruct (in_removed _ _ _ _ Hy) as (v' & Hv' & [(_ & -> & _ & Hlt')|(-> & [Et|E0])]).
    - exfalso. lra.
    - apply (gen_by_eq mult g total v); [rewrite E, Et; reflexivity|]. apply gen_total; [exact Hm|exact Hsum].
    - apply (gen_by_eq mult g 0 v); [rewrite E, E0; reflexivity|]. apply gen_zero. }
  intros a Ha. destruct (qmem a (mgs_removed_gen compl numbers total)) eqn:R; [|apply Hkept; assumption].
  apply qmem_spec in R. destruct R as (y & Hy & E). destruct (in_removed _ _ _ _ Hy) as (v & Hv & [(Hcp & -> & _ & Hlt)|(-> & [Et|E0])]).
  - specialize (Hc Hcp). subst mult. apply (gen_by_eq 1 g (total - v) a); [symmetry; exact E|]. apply gen_compl; [exact Hsum|]. apply Hsmall; assumption.
  - apply (gen_by_eq mult g total a); [rewrite E, Et; reflexivity|]. apply gen_total; [exact Hm|exact Hsum].
  - apply (gen_by_eq mult g 0 a); [rewrite E, E0; reflexivity|]. apply gen_zero.
Qed.

(* the pre-processing of __init__ as it is now (complements only for max_multiplicity = 1, 295fbde) loses nothing,
   for EVERY max_multiplicity >= 1 *)
Theorem complement_removal_sound mult numbers total g : (1 <= mult)%nat ->
  genset mult (mgs_preprocess true mult numbers total) total g -> genset mult numbers total g.
Proof.
  intros Hm. unfold mgs_preprocess. apply removal_sound_gen; [exact Hm|]. intros E. apply Nat.eqb_eq in E. exact E.
Qed.

(* FIXED finding #23 (295fbde): the old code removed complements for every multiplicity, which is unsound:
   [2,3] with total 5 keeps only 2; {1,4} generates 2 = 2*1 but not 3 with multiplicities <= 2.
   The pre-processing as it is now keeps both numbers. *)
Theorem complement_removal_old_refuted : exists numbers total g,
  genset 2 (mgs_preprocess_old true numbers total) total g /\ ~ genset 2 numbers total g /\
  mgs_preprocess true 2 numbers total = numbers.
Proof.
  exists [2; 3], 5, [1; 4]. split; [|split; [|reflexivity]].
  - change (mgs_preprocess_old true [2; 3] 5) with [2]. split; [repeat constructor; lra|]. split; [vm_compute; reflexivity|].
    intros a [<-|[]]. exists [2; 0]%Z. split; [reflexivity|]. split; [repeat (apply Forall_cons; [lia|]); apply Forall_nil|]. vm_compute; reflexivity.
  - intros (_ & _ & Hg). destruct (Hg 3 (or_intror (or_introl eq_refl))) as (xs & Hl & Hf & He).
    destruct xs as [|x1 [|x2 [|? ?]]]; try discriminate.
    inversion Hf as [|? ? H1 Hf']; subst. inversion Hf' as [|? ? H2 _]; subst.
    cbn [dotz] in He. cbn in H1, H2.
    assert (x1 = 0 \/ x1 = 1 \/ x1 = 2)%Z as [->|[->| ->]] by lia;
    (assert (x2 = 0 \/ x2 = 1 \/ x2 = 2)%Z as [->|[->| ->]] by lia); vm_compute in He; discriminate He.
Qed.

(* FIXED finding (b959a54; C12 #8 at this call site): in the OLD encoder the multiplicity got ceil(log2(total+1)) bits; with total = 1 and
   max_multiplicity = 2 the multiplicity 2 cannot be represented: {1/4, 3/4} generates 1/2 = 2 * 1/4 and 1/4,
   but the model for k = 2 has no satisfying assignment *)
Theorem mgs_old_multiplicity_bits_refuted : exists (I : mgs_inst) (k : nat) (g : list Q),
  mg_mult I = 2%nat /\ length g = k /\ genset (mg_mult I) (mg_numbers I) (mg_total I) g /\
  (forall a, ~ sat a (encode_mgs_old I k)) /\ (Z.of_nat (mg_mult I) < 2 ^ Z.of_nat (num_bits (prod_ub I)))%Z.
Proof.
  exists {| mg_numbers := [1 # 2; 1 # 4]; mg_total := 1; mg_int := false; mg_mult := 2; mg_parts := None |}, 2%nat, [1 # 4; 3 # 4].
  split; [reflexivity|]. split; [reflexivity|]. split.
  - cbn [mg_mult mg_numbers mg_total]. split; [repeat constructor; lra|]. split; [vm_compute; reflexivity|].
    intros a [<-|[<-|[]]].
    + exists [2; 0]%Z. split; [reflexivity|]. split; [repeat (apply Forall_cons; [lia|]); apply Forall_nil|]. vm_compute; reflexivity.
    + exists [1; 0]%Z. split; [reflexivity|]. split; [repeat (apply Forall_cons; [lia|]); apply Forall_nil|]. vm_compute; reflexivity.
  - split; [|vm_compute; reflexivity]. intros a Hsat. unfold encode_mgs_old in Hsat. apply mgs_enc_sound in Hsat; [|cbn; lia|cbn [mg_total]; lra]. destruct Hsat as (_ & HT & HJ & _ & _).
    cbn [mg_total mg_numbers] in HT, HJ.
    change (layers 2) with [0; 1]%N in *. cbn [sumq] in HT.
    destruct (HJ 0%N (1 # 2) (or_introl eq_refl)) as [HX0 HS0].
    destruct (HJ 1%N (1 # 4) (or_intror (or_introl eq_refl))) as [HX1 HS1].
    cbn [sumq] in HS0, HS1.
    destruct (HX0 0%N (or_introl eq_refl)) as (z00 & E00 & R00 & B00 & P00 & _).
    destruct (HX0 1%N (or_intror (or_introl eq_refl))) as (z10 & E10 & R10 & B10 & P10 & _).
    destruct (HX1 0%N (or_introl eq_refl)) as (z01 & E01 & R01 & B01 & P01 & _).
    destruct (HX1 1%N (or_intror (or_introl eq_refl))) as (z11 & E11 & R11 & B11 & P11 & _).
    specialize (B00 eq_refl). specialize (B10 eq_refl). specialize (B01 eq_refl). specialize (B11 eq_refl).
    change (2 ^ Z.of_nat (num_bits _))%Z with 2%Z in *.
    rewrite P00, P10, E00, E10 in HS0. rewrite P01, P11, E01, E11 in HS1.
    assert (z00 = 0 \/ z00 = 1)%Z as [->| ->] by lia; assert (z10 = 0 \/ z10 = 1)%Z as [->| ->] by lia;
    assert (z01 = 0 \/ z01 = 1)%Z as [->| ->] by lia; assert (z11 = 0 \/ z11 = 1)%Z as [->| ->] by lia;
    change (inject_Z 0) with 0 in *; change (inject_Z 1) with 1 in *; lra.
Qed.

(* ---- boolean deciders for closed instances (non-vacuity examples) ---- *)
Lemma Forall_dec_cols a cs : forallb (fun c => Qle_bool (clb c) (a (cvar c)) && Qle_bool (a (cvar c)) (cub c) &&
                                         (negb (cint c) || (Zpos (Qden (Qred (a (cvar c)))) =? 1)%Z)) cs = true ->
  Forall (sat_col a) cs.
Proof.
  intros H. rewrite forallb_forall in H. apply Forall_forall. intros c Hc. specialize (H c Hc).
  apply andb_true_iff in H. destruct H as [H H3]. apply andb_true_iff in H. destruct H as [H1 H2].
  apply Qle_bool_iff in H1. apply Qle_bool_iff in H2. split; [exact H1|]. split; [exact H2|].
  intros Hi. rewrite Hi in H3. cbn [negb orb] in H3. apply Z.eqb_eq in H3.
  exists (Qnum (Qred (a (cvar c)))). rewrite <- (Qred_correct (a (cvar c))) at 1.
  destruct (Qred (a (cvar c))) as [n d]. cbn [Qnum Qden] in *. injection H3 as ->. reflexivity.
Qed.
Definition row_ok (a : var -> Q) (r : row) : bool :=
  match sns r with
  | SLe => Qle_bool (eval a (lhs r)) (rhs r)
  | SGe => Qle_bool (rhs r) (eval a (lhs r))
  | SEq => Qeq_bool (eval a (lhs r)) (rhs r)
  end.
Lemma Forall_dec_rows a rs : forallb (row_ok a) rs = true -> Forall (sat_row a) rs.
Proof.
  intros H. rewrite forallb_forall in H. apply Forall_forall. intros r Hr. specialize (H r Hr).
  unfold row_ok in H. unfold sat_row. destruct (sns r); [apply Qle_bool_iff|apply Qle_bool_iff|apply Qeq_bool_iff]; exact H.
Qed.

(* ---- round(): a solver value within 1/2 of an integer is read as that integer (the code as it is, f5a395c) ---- *)
From Coq Require Import Qround.
Theorem py_round_near q z : inject_Z z - (1 # 2) < q -> q < inject_Z z + (1 # 2) -> py_round_half_even q = z.
Proof.
  intros H1 H2. unfold py_round_half_even. destruct q as [n d]. cbn [Qnum Qden]. change (n / Z.pos d)%Z with (Qfloor (n # d)). cbn zeta. set (q := n # d) in *.
  pose proof (Qfloor_le q) as F1. pose proof (Qlt_floor q) as F2. rewrite inject_Z_plus in F2. change (inject_Z 1) with 1 in F2.
  assert (Hz : (Qfloor q = z \/ Qfloor q = z - 1)%Z).
  { assert (A : inject_Z (Qfloor q) < inject_Z (z + 1)) by (rewrite inject_Z_plus; change (inject_Z 1) with 1; lra).
    assert (B : inject_Z (z - 2) < inject_Z (Qfloor q)).
    { unfold Zminus. rewrite !inject_Z_plus. change (inject_Z (- (2))) with (- (2)). change (inject_Z 1) with 1. lra. }
    rewrite <- Zlt_Qlt in A, B. lia. }
  destruct Hz as [E|E]; rewrite E.
  - destruct (Qlt_bool (q - inject_Z z) (1 # 2)) eqn:L; [reflexivity|].
    exfalso. assert (q - inject_Z z < 1 # 2) by lra. apply Qlt_bool_iff in H. congruence.
  - assert (Ez : inject_Z (z - 1) == inject_Z z - 1).
    { unfold Zminus. rewrite inject_Z_plus. change (inject_Z (- (1))) with (- (1)). ring. }
    destruct (Qlt_bool (q - inject_Z (z - 1)) (1 # 2)) eqn:L.
    + apply Qlt_bool_iff in L. rewrite Ez in L. lra.
    + destruct (Qlt_bool (1 # 2) (q - inject_Z (z - 1))) eqn:L2; [lia|].
      exfalso. assert (1 # 2 < q - inject_Z (z - 1)) by (rewrite Ez; lra). apply Qlt_bool_iff in H. congruence.
Qed.

(* ---- partition constraints and the search range ---- *)
Fixpoint part_sum (asg : list nat) (g : list Q) (j : nat) : Q :=
  match asg, g with
  | p :: ar, v :: gr => (if (p =? j)%nat then v else 0) + part_sum ar gr j
  | _, _ => 0
  end.
(* every element of g is put into exactly one part; the part sums are the numbers of the constraint *)
Definition part_ok (g : list Q) (cons : list Q) : Prop :=
  exists asg, length asg = length g /\ forall j v, nth_error cons j = Some v -> part_sum asg g j == v.

(* FIXED finding (883b781): without the extra cut points the range lowerbound .. len(numbers)+1 misses generating sets
   that partition constraints force to be larger: numbers [1,1], total 6, constraints [2,2,2] and [6] are met by
   {1,1,2,2} (size 4); the old range ends at 3, the range as it is now reaches 5 *)
Theorem mgsm_range_old_partition_refuted : exists numbers total parts g,
  length g = 4%nat /\ genset 1 numbers total g /\ Forall (part_ok g) parts /\
  ~ In 4%nat (mgsm_range 1 (length numbers) 0) /\ In 4%nat (mgsm_range 1 (length numbers) (extra_cuts (Some parts))).
Proof.
  exists [1; 1], 6, [[2; 2; 2]; [6]], [1; 1; 2; 2]. split; [reflexivity|]. split; [|split; [|split]].
  - split; [repeat constructor; lra|]. split; [vm_compute; reflexivity|].
    intros a [<-|[<-|[]]]; exists [1; 0; 0; 0]%Z; (split; [reflexivity|]); (split; [repeat (apply Forall_cons; [lia|]); apply Forall_nil|]); vm_compute; reflexivity.
  - constructor; [|constructor; [|constructor]].
    + exists [0; 0; 1; 2]%nat. split; [reflexivity|]. intros j v H. do 3 (destruct j as [|j]; [cbn in H; injection H as <-; vm_compute; reflexivity|]). destruct j; discriminate.
    + exists [0; 0; 0; 0]%nat. split; [reflexivity|]. intros [|j] v H; cbn in H; [injection H as <-; vm_compute; reflexivity|destruct j; discriminate].
  - vm_compute. intros [C|[C|[C|[]]]]; discriminate.
  - vm_compute. tauto.
Qed.

(* FIXED finding (a068bcc): with multiplicities a number may exceed the total; bounding the products pi by the total
   made small generating sets infeasible: numbers [1,2], total 1, multiplicity 2 is generated by {1} (2 = 2*1), the
   encoder as it is now admits it for k = 1, the old one (pi <= total) admits nothing for k = 1 *)
Definition ex_pi_inst : mgs_inst := {| mg_numbers := [1; 2]; mg_total := 1; mg_int := false; mg_mult := 2; mg_parts := None |}.
Definition ex_pi_assign (v : var) : Q :=
  match vidx v with
  | [i] => if (vfam v =? fGen)%N then 1 else 0
  | [i; j] => if (vfam v =? fX)%N || (vfam v =? fPi)%N then (if (j =? 0)%N then 1 else 2) else 0
  | [p; i; j; b] => if (j =? b)%N then 1 else 0          (* Bit / Comp of product (0, j): x = 1 -> bit 0, x = 2 -> bit 1; gen = 1 *)
  | _ => 0
  end.
Theorem mgs_pi_bound_old_refuted : exists (I : mgs_inst) (k : nat),
  genset (mg_mult I) (mg_numbers I) (mg_total I) [1] /\ k = 1%nat /\
  (exists a, sat a (encode_mgs I k)) /\ forall a, ~ sat a (encode_mgs_pi_old I k).
Proof.
  exists ex_pi_inst, 1%nat. split; [|split; [reflexivity|split]].
  - split; [repeat constructor; lra|]. split; [vm_compute; reflexivity|].
    intros a [<-|[<-|[]]]; [exists [1]%Z|exists [2]%Z]; (split; [reflexivity|]); (split; [repeat (apply Forall_cons; [cbn; lia|]); apply Forall_nil|]); vm_compute; reflexivity.
  - exists ex_pi_assign. split; [apply Forall_dec_cols|apply Forall_dec_rows]; vm_compute; reflexivity.
  - intros a Hsat. unfold encode_mgs_pi_old in Hsat. apply mgs_enc_sound in Hsat; [|cbn; lia|apply prod_ub_ge].
    destruct Hsat as (_ & HT & HJ & _ & _). cbn [mg_total mg_numbers ex_pi_inst] in HT, HJ.
    change (layers 1) with [0]%N in *. cbn [sumq] in HT.
    destruct (HJ 1%N 2 (or_intror (or_introl eq_refl))) as [HX HS]. cbn [sumq] in HS.
    destruct (HX 0%N (or_introl eq_refl)) as (z & _ & _ & _ & _ & HP). lra.
Qed.
