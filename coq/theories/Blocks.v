(* Row-level models of SolverWrapper's modelling helpers:
     add_binary_continuous_product_constraint, add_integer_continuous_product_constraint,
     add_piecewise_constant_constraint.
   Each returns the columns it creates and the rows it adds, in the order the Python code adds them. *)
From Coq Require Import List NArith ZArith QArith Bool Lia.
Import ListNotations.
From FP Require Import Lin.
Local Close Scope Q_scope.

Definition mkrow (l : lin) (s : sense) (r : Q) : row := {| lhs := l; sns := s; rhs := r |}.

(* add_binary_continuous_product_constraint(b, c, p, lb, ub):
     p <= ub*b ; p >= lb*b ; p <= c - lb*(1-b) ; p >= c - ub*(1-b) *)
Definition mcc_rows (b c p : var) (lb ub : Q) : list row :=
  [ mkrow [(p, 1); (b, - ub)]%Q SLe 0%Q;
    mkrow [(p, 1); (b, - lb)]%Q SGe 0%Q;
    mkrow [(p, 1); (c, - (1)); (b, - lb)]%Q SLe (- lb)%Q;
    mkrow [(p, 1); (c, - (1)); (b, - ub)]%Q SGe (- ub)%Q ].

(* num_bits = ceil(log2(ub + 1)) : the least n with ub + 1 <= 2^n (0 when ub + 1 <= 1) *)
Fixpoint least_pow (fuel : nat) (n : nat) (target : Q) : nat :=
  match fuel with
  | O => n
  | S f => if Qle_bool target (inject_Z (2 ^ Z.of_nat n)) then n else least_pow f (S n) target
  end.
Definition num_bits (ub : Q) : nat :=
  let t := (ub + 1)%Q in
  (* 2^(numerator) >= value, so this fuel always suffices *)
  least_pow (S (Z.to_nat (Qnum t))) 0 t.

Definition pow2 (j : nat) : Q := inject_Z (2 ^ Z.of_nat j).

Definition bit_idx (n : nat) : list nat := seq 0 n.

(* add_integer_continuous_product_constraint(x, c, p, lb, ub) with n = num_bits ub *)
Definition intprod_cols (p : var) (lb ub : Q) (n : nat) : list col :=
  map (fun j => {| cvar := Bit p (N.of_nat j); clb := 0; cub := 1; cint := true |}) (bit_idx n) ++
  map (fun j => {| cvar := Comp p (N.of_nat j); clb := lb; cub := ub; cint := false |}) (bit_idx n).

Definition intprod_rows (x c p : var) (lb ub : Q) (n : nat) : list row :=
  [ mkrow (map (fun j => (Bit p (N.of_nat j), pow2 j)) (bit_idx n) ++ [(x, - (1))%Q]) SEq 0%Q ] ++
  flat_map (fun j => mcc_rows (Bit p (N.of_nat j)) c (Comp p (N.of_nat j)) lb ub) (bit_idx n) ++
  [ mkrow (map (fun j => (Comp p (N.of_nat j), pow2 j)) (bit_idx n) ++ [(p, - (1))%Q]) SEq 0%Q ].

(* add_piecewise_constant_constraint(x, y, ranges, constants): pieces (L, U, c) *)
Definition piece := (Q * Q * Q)%type.
Definition pL (p : piece) : Q := fst (fst p).
Definition pU (p : piece) : Q := snd (fst p).
Definition pC (p : piece) : Q := snd p.

Definition qmax (a b : Q) : Q := if Qle_bool a b then b else a.
Definition qmin (a b : Q) : Q := if Qle_bool a b then a else b.
Definition list_max (d : Q) (l : list Q) : Q := fold_left qmax l d.
Definition list_min (d : Q) (l : list Q) : Q := fold_left qmin l d.

(* M = max((max(Us) - min(Ls)) * 2, max(constants) - min(constants))
   (empty list: Python raises; the model is only used with >= 1 piece) *)
Definition pwc_M (ps : list piece) : Q :=
  match ps with
  | [] => 0%Q
  | p0 :: r => qmax ((list_max (pU p0) (map pU r) - list_min (pL p0) (map pL r)) * 2)%Q
                    (list_max (pC p0) (map pC r) - list_min (pC p0) (map pC r))%Q
  end.
(* the value used before the fix (kept for the _refuted witness of the old behaviour) *)
Definition pwc_M_old (ps : list piece) : Q :=
  match ps with
  | [] => 0%Q
  | p0 :: r => ((list_max (pU p0) (map pU r) - list_min (pL p0) (map pL r)) * 2)%Q
  end.

Definition pwc_cols (y : var) (ps : list piece) : list col :=
  map (fun j => {| cvar := Zsel y (N.of_nat j); clb := 0; cub := 1; cint := true |}) (seq 0 (length ps)).

Definition pwc_piece_rows (x y : var) (M : Q) (j : nat) (p : piece) : list row :=
  let z := Zsel y (N.of_nat j) in
  [ mkrow [(x, 1); (z, - M)]%Q SGe (pL p - M)%Q;
    mkrow [(x, 1); (z, M)]%Q SLe (pU p + M)%Q;
    mkrow [(y, 1); (z, M)]%Q SLe (pC p + M)%Q;
    mkrow [(y, 1); (z, - M)]%Q SGe (pC p - M)%Q ].

Fixpoint indexed {A} (i : nat) (l : list A) : list (nat * A) :=
  match l with [] => [] | a :: r => (i, a) :: indexed (S i) r end.

Definition pwc_rows_M (x y : var) (M : Q) (ps : list piece) : list row :=
  [ mkrow (map (fun j => (Zsel y (N.of_nat j), 1%Q)) (seq 0 (length ps))) SEq 1%Q ] ++
  flat_map (fun jp => pwc_piece_rows x y M (fst jp) (snd jp)) (indexed 0 ps).

Definition pwc_rows (x y : var) (ps : list piece) : list row := pwc_rows_M x y (pwc_M ps) ps.
