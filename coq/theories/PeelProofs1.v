(* C17/C02 — proofs, part 1: greedy peeling of a non-negative conserving flow on a DAG explains the flow
   exactly, for ANY path finder that returns a positive-bottleneck source-to-sink path whenever one
   exists (ported from the design prototype). *)
From Coq Require Import List NArith ZArith Bool Arith Lia Permutation.
Import ListNotations.
From FP Require Import Reach ReachProofs1 Peel.
Set Default Timeout 60.
Open Scope Z_scope.

Lemma pairs_cons2 a b r : pairs (a :: b :: r) = (a, b) :: pairs (b :: r).
Proof. reflexivity. Qed.

Lemma sumL_le {A} (g h : A -> Z) l : (forall a, In a l -> g a <= h a) -> sumL g l <= sumL h l.
Proof. induction l as [|a l IH]; intros H; simpl; [lia|]. pose proof (H a (or_introl eq_refl)). specialize (IH (fun a' i => H a' (or_intror i))). lia. Qed.
Lemma sumL_ext {A} (g h : A -> Z) l : (forall a, In a l -> g a = h a) -> sumL g l = sumL h l.
Proof. intros H. apply Z.le_antisymm; apply sumL_le; intros a Ha; rewrite (H a Ha); lia. Qed.
Lemma sumL_nonneg {A} (g : A -> Z) l : (forall a, In a l -> 0 <= g a) -> 0 <= sumL g l.
Proof. induction l as [|a l IH]; intros H; simpl; [lia|]. pose proof (H a (or_introl eq_refl)). specialize (IH (fun a' i => H a' (or_intror i))). lia. Qed.
Lemma sumL_member {A} (g : A -> Z) l a : (forall a, In a l -> 0 <= g a) -> In a l -> g a <= sumL g l.
Proof.
  induction l as [|b l IH]; intros H Hin; [destruct Hin|]. simpl. destruct Hin as [<-|Hin].
  - pose proof (sumL_nonneg g l (fun a' i => H a' (or_intror i))). lia.
  - specialize (IH (fun a' i => H a' (or_intror i)) Hin). pose proof (H b (or_introl eq_refl)). lia.
Qed.
Lemma sumL_pos_ex {A} (g : A -> Z) l : 0 < sumL g l -> exists a, In a l /\ 0 < g a.
Proof.
  induction l as [|a l IH]; simpl; [lia|]. intros H. destruct (Z_lt_le_dec 0 (g a)); [exists a; tauto|].
  destruct IH as (b & Hb & Hg); [lia|]. exists b. tauto.
Qed.
Lemma sumL_sub {A} (g h : A -> Z) l : sumL (fun a => g a - h a) l = sumL g l - sumL h l.
Proof. induction l as [|a l IH]; simpl; [reflexivity|]. rewrite IH. lia. Qed.
Lemma sumL_scale {A} (g : A -> Z) c l : sumL (fun a => c * g a) l = c * sumL g l.
Proof. induction l as [|a l IH]; simpl; [lia|]. rewrite IH. lia. Qed.

Section Peel.
  Variable G : list edge.
  Hypothesis G_nodup : NoDup G.
  Variable rank : node -> nat.
  Hypothesis Hrank : forall u v, In (u, v) G -> (rank u < rank v)%nat.

  Notation outs := (outs G).
  Notation ins := (ins G).
  Notation npos := (npos G).
  Lemma ins_In e v : In e (ins v) <-> In e G /\ snd e = v.
  Proof. unfold Peel.ins. rewrite filter_In, N.eqb_eq. tauto. Qed.
  Lemma outs_In e v : In e (outs v) <-> In e G /\ fst e = v.
  Proof. unfold Peel.outs. rewrite filter_In, N.eqb_eq. tauto. Qed.

  Definition nonneg (f : edge -> Z) : Prop := forall e, In e G -> 0 <= f e.
  Definition conserving (f : edge -> Z) : Prop :=
    forall v, ins v <> [] -> outs v <> [] -> sumL f (ins v) = sumL f (outs v).

  (* a source-to-sink path with at least one edge *)
  Definition ss_path (p : list node) : Prop :=
    pairs p <> [] /\ incl (pairs p) G /\ ins (hd 0%N p) = [] /\ outs (last p 0%N) = [].


  (* ---- structure of the pairs of a path whose ranks increase ---- *)
  Lemma last_cons_default (w : list node) : forall a b, last (b :: w) a = last w b.
  Proof.
    induction w as [|c w IH]; intros a b; [reflexivity|].
    change (last (b :: c :: w) a) with (last (c :: w) a). rewrite (IH a c). symmetry. apply IH.
  Qed.

  Lemma pairs_rank a p e : incl (pairs (a :: p)) G -> In e (pairs (a :: p)) -> (rank a <= rank (fst e))%nat.
  Proof.
    revert a. induction p as [|b p IH]; intros a HG He; [destruct He|].
    rewrite pairs_cons2 in *. destruct He as [<-|He]; [simpl; lia|].
    assert (In (a, b) G) by (apply HG; left; reflexivity). apply Hrank in H.
    specialize (IH b (fun e' h => HG e' (or_intror h)) He). lia.
  Qed.

  Lemma pairs_nodup a p : incl (pairs (a :: p)) G -> NoDup (pairs (a :: p)).
  Proof.
    revert a. induction p as [|b p IH]; intros a HG; [constructor|].
    rewrite pairs_cons2 in *. constructor.
    - intros Hin. apply pairs_rank in Hin; [|intros e' h; apply HG; right; exact h]. simpl in Hin.
      assert (In (a, b) G) by (apply HG; left; reflexivity). apply Hrank in H. lia.
    - apply IH. intros e' h. apply HG. right. exact h.
  Qed.

  (* in/out degree of v inside the pairs of a rank-increasing path *)
  Lemma deg_pairs a p v : incl (pairs (a :: p)) G ->
    sumL (fun e => ind1 (memE e (pairs (a :: p)))) (outs v) - sumL (fun e => ind1 (memE e (pairs (a :: p)))) (ins v)
    = ind1 (v =? a)%N - ind1 (v =? last p a)%N.
  Proof.
    revert a. induction p as [|b p IH]; intros a HG.
    - cbn [pairs last]. assert (forall l, sumL (fun e : edge => ind1 (memE e [])) l = 0) by (unfold sumL; induction l; simpl; [reflexivity|assumption]).
      rewrite !H. destruct (v =? a)%N; simpl; lia.
    - rewrite pairs_cons2 in *. rewrite last_cons_default.
      assert (Hab : In (a, b) G) by (apply HG; left; reflexivity).
      assert (HG' : incl (pairs (b :: p)) G) by (intros e' h; apply HG; right; exact h).
      specialize (IH b HG').
      assert (Hnot : ~ In (a, b) (pairs (b :: p))).
      { intros Hin. apply pairs_rank in Hin; [|exact HG']. simpl in Hin. apply Hrank in Hab. lia. }
      (* splitting the indicator of the cons *)
      assert (Hsplit : forall l, NoDup l ->
         sumL (fun e => ind1 (memE e ((a, b) :: pairs (b :: p)))) l
         = ind1 (memE (a, b) l) + sumL (fun e => ind1 (memE e (pairs (b :: p)))) l).
      { induction l as [|e l IHl]; intros ND; [reflexivity|]. inversion ND; subst.
        cbn [sumL fold_right]. fold (sumL (fun e0 => ind1 (memE e0 ((a, b) :: pairs (b :: p)))) l).
        fold (sumL (fun e0 => ind1 (memE e0 (pairs (b :: p)))) l). rewrite (IHl H2).
        cbn [memE existsb]. fold (memE e (pairs (b :: p))). fold (memE (a, b) l).
        destruct (eqe_spec e (a, b)) as [->|Hne].
        - destruct (eqe_spec (a, b) (a, b)); [|congruence].
          assert (memE (a, b) l = false) by (destruct (memE (a, b) l) eqn:M; [apply memE_In in M; contradiction|reflexivity]).
          assert (memE (a, b) (pairs (b :: p)) = false) by (destruct (memE (a, b) (pairs (b :: p))) eqn:M; [apply memE_In in M; contradiction|reflexivity]).
          rewrite H, H0. simpl. lia.
        - destruct (eqe_spec (a, b) e); [congruence|]. simpl. lia. }
      rewrite !Hsplit by (apply NoDup_filter; assumption).
      assert (Ho : ind1 (memE (a, b) (outs v)) = ind1 (v =? a)%N).
      { destruct (N.eqb_spec v a) as [E|Hne].
        - rewrite E. assert (H : memE (a, b) (outs a) = true) by (apply memE_In, outs_In; tauto). rewrite H. reflexivity.
        - destruct (memE (a, b) (outs v)) eqn:M; [|reflexivity]. apply memE_In, outs_In in M. simpl in M. destruct M; congruence. }
      assert (Hi : ind1 (memE (a, b) (ins v)) = ind1 (v =? b)%N).
      { destruct (N.eqb_spec v b) as [E|Hne].
        - rewrite E. assert (H : memE (a, b) (ins b) = true) by (apply memE_In, ins_In; tauto). rewrite H. reflexivity.
        - destruct (memE (a, b) (ins v)) eqn:M; [|reflexivity]. apply memE_In, ins_In in M. simpl in M. destruct M; congruence. }
      rewrite Ho, Hi. lia.
  Qed.

  Lemma sub_conserving f b p : conserving f -> ss_path p -> conserving (sub f b p).
  Proof.
    intros C (Hne & HG & Hs & Ht) v Hi Ho. unfold sub.
    rewrite !sumL_sub, !sumL_scale. rewrite (C v Hi Ho).
    destruct p as [|a p]; [simpl in Hne; congruence|].
    pose proof (deg_pairs a p v HG) as D. simpl hd in Hs. rewrite last_cons_default in Ht.
    destruct (N.eqb_spec v a) as [->|Hva]; [congruence|].
    destruct (N.eqb_spec v (last p a)) as [->|Hvl]; [congruence|]. cbn [ind1] in D.
    assert (E : sumL (fun e => ind1 (memE e (pairs (a :: p)))) (ins v) = sumL (fun e => ind1 (memE e (pairs (a :: p)))) (outs v)) by lia.
    rewrite E. reflexivity.
  Qed.

  Lemma sub_nonneg f b p : nonneg f -> (forall e, In e (pairs p) -> b <= f e) -> 0 <= b -> nonneg (sub f b p).
  Proof.
    intros N Hb Hb0 e He. unfold sub. destruct (memE e (pairs p)) eqn:M; simpl.
    - apply memE_In in M. specialize (Hb e M). lia.
    - specialize (N e He). lia.
  Qed.


  Lemma npos_sub_lt f b p : nonneg f -> incl (pairs p) G -> 0 < b ->
    (forall e, In e (pairs p) -> b <= f e) -> (exists e, In e (pairs p) /\ f e = b) ->
    (npos (sub f b p) < npos f)%nat.
  Proof.
    intros N HG Hb Hmin (e0 & He0 & Hf0). unfold Peel.npos.
    assert (He0G : In e0 G) by (apply HG; assumption).
    clear G_nodup Hrank. revert He0G. generalize G as L. clear HG. intros L.
    induction L as [|e L IH]; intros Hin; [destruct Hin|].
    assert (Hle : forall L' : list edge, (length (filter (fun e => (0 <? sub f b p e)%Z) L') <= length (filter (fun e => (0 <? f e)%Z) L'))%nat).
    { induction L' as [|x L' IH']; simpl; [lia|]. unfold sub at 1.
      destruct (0 <? f x) eqn:F; destruct (0 <? f x - b * ind1 (memE x (pairs p))) eqn:S; simpl; try lia.
      apply Z.ltb_lt in S. apply Z.ltb_ge in F. destruct (memE x (pairs p)); simpl in S; lia. }
    simpl. destruct Hin as [->|Hin].
    - unfold sub at 1. assert (memE e0 (pairs p) = true) by (apply memE_In; assumption). rewrite H. simpl ind1.
      assert (0 <? f e0 - b * 1 = false) by (apply Z.ltb_ge; lia). rewrite H0.
      assert (0 <? f e0 = true) by (apply Z.ltb_lt; lia). rewrite H1. simpl. specialize (Hle L). lia.
    - specialize (IH Hin). unfold sub at 1.
      destruct (0 <? f e) eqn:F; destruct (0 <? f e - b * ind1 (memE e (pairs p))) eqn:S; simpl; try lia.
      apply Z.ltb_lt in S. apply Z.ltb_ge in F. destruct (memE e (pairs p)); simpl in S; lia.
  Qed.

  (* ---- a positive edge lies on a source-to-sink path of positive edges ---- *)
  Variable R : nat.
  Hypothesis HR : forall v, (rank v <= R)%nat.

  Lemma pairs_app_mid l1 v l2 :
    pairs (l1 ++ v :: l2) = pairs (l1 ++ [v]) ++ pairs (v :: l2).
  Proof.
    induction l1 as [|a l1 IH]; simpl.
    - reflexivity.
    - destruct l1 as [|b l1].
      + simpl. reflexivity.
      + simpl in *. rewrite IH. reflexivity.
  Qed.
  Lemma pairs_app (q r : list node) a b : 
    pairs ((q ++ [a]) ++ b :: r) = pairs (q ++ [a]) ++ (a, b) :: pairs (b :: r).
  Proof. rewrite <- app_assoc. simpl ([a] ++ b :: r). rewrite pairs_app_mid. reflexivity. Qed.

  Lemma last_snoc (q : list node) a d : last (q ++ [a]) d = a.
  Proof. induction q as [|x q IH]; [reflexivity|]. simpl. destruct (q ++ [a]) eqn:E; [destruct q; discriminate|]. exact IH. Qed.
  Lemma hd_snoc (q : list node) a d : hd d (q ++ [a]) = hd a q.
  Proof. destruct q; reflexivity. Qed.

  Lemma backward f : nonneg f -> conserving f -> forall n v, rank v = n ->
    (exists e, In e (outs v) /\ 0 < f e) ->
    exists q, ins (hd v q) = [] /\ incl (pairs (q ++ [v])) G /\ forall e, In e (pairs (q ++ [v])) -> 0 < f e.
  Proof.
    intros N C. induction n as [n IH] using lt_wf_ind. intros v Hn (e & He & Hf).
    destruct (ins v) as [|e' l] eqn:Ei.
    - exists []. simpl. split; [assumption|split; intros ? []].
    - assert (Hi : ins v <> []) by (rewrite Ei; discriminate).
      assert (Ho : outs v <> []) by (intros E0; rewrite E0 in He; destruct He).
      pose proof (C v Hi Ho) as Cv.
      assert (0 < sumL f (ins v)).
      { rewrite Cv. pose proof (sumL_member f (outs v) e (fun a Ha => N a (proj1 (proj1 (outs_In a v) Ha))) He). lia. }
      apply sumL_pos_ex in H. destruct H as ([u v'] & Hu & Hfu). apply ins_In in Hu. destruct Hu as [HuG Hv]. simpl in Hv. subst v'.
      destruct (IH (rank u) ltac:(apply Hrank in HuG; lia) u eq_refl) as (q & Hq1 & Hq2 & Hq3).
      { exists (u, v). split; [apply outs_In; tauto|assumption]. }
      exists (q ++ [u]). rewrite hd_snoc. split; [|split].
      + destruct q; assumption.
      + rewrite pairs_app. intros x Hx. apply in_app_or in Hx. destruct Hx as [Hx|[<-|[]]]; [apply Hq2|]; assumption.
      + rewrite pairs_app. intros x Hx. apply in_app_or in Hx. destruct Hx as [Hx|[<-|[]]]; [apply Hq3|]; assumption.
  Qed.

  Lemma forward f : nonneg f -> conserving f -> forall n v, (R - rank v = n)%nat ->
    (exists e, In e (ins v) /\ 0 < f e) ->
    exists r, outs (last r v) = [] /\ incl (pairs (v :: r)) G /\ forall e, In e (pairs (v :: r)) -> 0 < f e.
  Proof.
    intros N C. induction n as [n IH] using lt_wf_ind. intros v Hn (e & He & Hf).
    destruct (outs v) as [|e' l] eqn:Eo.
    - exists []. simpl. split; [assumption|split; intros ? []].
    - assert (Ho : outs v <> []) by (rewrite Eo; discriminate).
      assert (Hi : ins v <> []) by (intros E0; rewrite E0 in He; destruct He).
      pose proof (C v Hi Ho) as Cv.
      assert (0 < sumL f (outs v)).
      { rewrite <- Cv. pose proof (sumL_member f (ins v) e (fun a Ha => N a (proj1 (proj1 (ins_In a v) Ha))) He). lia. }
      apply sumL_pos_ex in H. destruct H as ([v' u] & Hu & Hfu). apply outs_In in Hu. destruct Hu as [HuG Hv]. simpl in Hv. subst v'.
      pose proof (Hrank _ _ HuG) as Hr. pose proof (HR u) as Hru.
      destruct (IH (R - rank u)%nat ltac:(lia) u eq_refl) as (r & Hr1 & Hr2 & Hr3).
      { exists (v, u). split; [apply ins_In; tauto|assumption]. }
      exists (u :: r). rewrite last_cons_default. split; [assumption|]. rewrite pairs_cons2. split.
      + intros x [<-|Hx]; [assumption|apply Hr2; assumption].
      + intros x [<-|Hx]; [assumption|apply Hr3; assumption].
  Qed.

  Lemma positive_path f e0 : nonneg f -> conserving f -> In e0 G -> 0 < f e0 ->
    exists p, ss_path p /\ forall e, In e (pairs p) -> 0 < f e.
  Proof.
    intros N C HG Hf. destruct e0 as [a b].
    destruct (backward f N C (rank a) a eq_refl) as (q & Hq1 & Hq2 & Hq3).
    { exists (a, b). split; [apply outs_In; tauto|assumption]. }
    destruct (forward f N C (R - rank b)%nat b eq_refl) as (r & Hr1 & Hr2 & Hr3).
    { exists (a, b). split; [apply ins_In; tauto|assumption]. }
    exists ((q ++ [a]) ++ b :: r). unfold ss_path. rewrite !pairs_app. split; [split; [|split; [|split]]|].
    - intros E. apply app_eq_nil in E. destruct E as [_ E]. discriminate E.
    - intros x Hx. apply in_app_or in Hx. destruct Hx as [Hx|[<-|Hx]]; [apply Hq2|assumption|apply Hr2]; assumption.
    - rewrite <- app_assoc. simpl. destruct q as [|x q]; simpl in *; assumption.
    - rewrite <- (app_nil_r ((q ++ [a]) ++ b :: r)) at 1. 
      assert (forall (l1 : list node) x l2 d, last (l1 ++ x :: l2) d = last l2 x).
      { induction l1 as [|y l1 IHl]; intros x l2 d; simpl app; [apply last_cons_default|].
        rewrite last_cons_default. rewrite <- (IHl x l2 y). reflexivity. }
      rewrite app_nil_r. rewrite H. assumption.
    - intros x Hx. apply in_app_or in Hx. destruct Hx as [Hx|[<-|Hx]]; [apply Hq3|assumption|apply Hr3]; assumption.
  Qed.

  (* ---- the peeling loop, for any sound and complete path finder ---- *)
  Variable find : (edge -> Z) -> mb_outcome.
  Hypothesis find_sound : forall f b p, nonneg f -> find f = MBPath b p ->
    0 < b /\ ss_path p /\ (forall e, In e (pairs p) -> b <= f e) /\ (exists e, In e (pairs p) /\ f e = b).
  Hypothesis find_complete : forall f, nonneg f -> conserving f -> find f = MBNoPath ->
    forall p, ss_path p -> exists e, In e (pairs p) /\ f e <= 0.
  Hypothesis find_nosink : forall f, find f <> MBNoSink.

  Theorem peel_explains : forall fuel f, nonneg f -> conserving f -> (npos f < fuel)%nat ->
    exists D, peel find fuel f = PeelOK D /\
              (forall e, In e G -> explained D e = f e) /\
              Forall (fun pw => ss_path (fst pw) /\ 0 < snd pw) D /\
              (length D <= npos f)%nat.
  Proof.
    induction fuel as [|k IH]; intros f N C Hf; [lia|]. cbn [peel].
    destruct (find f) as [b p| |] eqn:F.
    - destruct (find_sound f b p N F) as (Hb & Hp & Hmin & Hex).
      assert (HG : incl (pairs p) G) by (destruct Hp as (_ & HG & _); exact HG).
      pose proof (npos_sub_lt f b p N HG Hb Hmin Hex) as Hlt.
      destruct (IH (sub f b p)) as (D & HD & He & HF & HL).
      + apply sub_nonneg; [assumption|assumption|lia].
      + apply sub_conserving; assumption.
      + lia.
      + rewrite HD. exists ((p, b) :: D). repeat split.
        * intros e HeG. specialize (He e HeG). unfold explained in *. cbn [sumL fold_right fst snd].
          unfold sumL in He. rewrite He. unfold sub. lia.
        * constructor; [split; assumption|assumption].
        * cbn [length]. lia.
    - exists []. repeat split; [|constructor|cbn; lia].
      intros e HeG. unfold explained. cbn. pose proof (N e HeG) as Hn.
      destruct (Z_lt_le_dec 0 (f e)) as [Hpos|Hle]; [exfalso|lia].
      destruct (positive_path f e N C HeG Hpos) as (p & Hp & Hall).
      destruct (find_complete f N C F p Hp) as (e' & He' & Hle). specialize (Hall e' He'). lia.
    - exfalso. exact (find_nosink f F).
  Qed.

  (* Without conservation: for ANY non-negative flow the loop terminates within #positive edges rounds, every returned
     path is a source-to-sink path of the graph with a positive weight, and no edge is explained beyond its flow. *)
  Theorem peel_routes : forall fuel f, nonneg f -> (npos f < fuel)%nat ->
    exists D, peel find fuel f = PeelOK D /\
              Forall (fun pw => ss_path (fst pw) /\ 0 < snd pw) D /\
              (forall e, In e G -> 0 <= explained D e <= f e) /\
              (length D <= npos f)%nat.
  Proof.
    induction fuel as [|k IH]; intros f N Hf; [lia|]. cbn [peel].
    destruct (find f) as [b p| |] eqn:F.
    - destruct (find_sound f b p N F) as (Hb & Hp & Hmin & Hex).
      assert (HG : incl (pairs p) G) by (destruct Hp as (_ & HG & _); exact HG).
      pose proof (npos_sub_lt f b p N HG Hb Hmin Hex) as Hlt.
      destruct (IH (sub f b p)) as (D & HD & HF & He & HL).
      + apply sub_nonneg; [assumption|assumption|lia].
      + lia.
      + rewrite HD. exists ((p, b) :: D). repeat split.
        * constructor; [split; assumption|assumption].
        * specialize (He e H). unfold explained in *. cbn [sumL fold_right fst snd]. unfold sumL in He.
          destruct (memE e (pairs p)); cbn [ind1]; lia.
        * specialize (He e H). unfold explained in *. cbn [sumL fold_right fst snd]. unfold sumL in He.
          unfold sub in He. lia.
        * cbn [length]. lia.
    - exists []. repeat split; [constructor|cbn; lia|cbn; apply N; assumption|cbn; lia].
    - exfalso. exact (find_nosink f F).
  Qed.

  (* a DAG with at least one edge has a node with in-edges and without out-edges *)
  Lemma dag_has_sink : G <> [] -> exists u v, In (u, v) G /\ outs v = [].
  Proof.
    intros Hne. destruct G as [|[u0 v0] G0] eqn:EG; [congruence|]. rewrite <- EG in *.
    assert (H0 : In (u0, v0) G) by (rewrite EG; left; reflexivity). clear EG Hne.
    assert (Gen : forall n u v, (R - rank v = n)%nat -> In (u, v) G -> exists u' v', In (u', v') G /\ outs v' = []).
    { induction n as [n IH] using lt_wf_ind. intros u v Hn Huv.
      destruct (outs v) as [|[a b] l] eqn:Eo; [exists u, v; tauto|].
      assert (Hab : In (a, b) (outs v)) by (rewrite Eo; left; reflexivity).
      apply outs_In in Hab. destruct Hab as [Hab Ha]. cbn in Ha. subst a.
      pose proof (Hrank _ _ Hab). pose proof (HR b).
      apply (IH (R - rank b)%nat ltac:(lia) v b eq_refl Hab). }
    apply (Gen _ u0 v0 eq_refl H0).
  Qed.
End Peel.
