(* NodeExpLen — the length attribute in the node expansion (C11): with node_length_attr = l the
   constructor puts the node's length on the node edge (v.0, v.1) and length 0 on every connecting edge
   (u.1, v.0) whose original edge carries no length, so the length of an expanded route is the sum of
   the node lengths of the original route. *)
From Coq Require Import List String Ascii Bool Arith ZArith Lia.
Import ListNotations.
From FP Require Import NodeExp NodeExpProofs.
Local Open Scope string_scope.
Local Open Scope list_scope.
Set Default Timeout 30.

(* ------------------------------------------------------------------ dicts *)
Lemma dget_dset d k v k' : ne_dget (ne_dset d k v) k' = if String.eqb k k' then Some v else ne_dget d k'.
Proof.
  induction d as [|[k0 v0] d IH]; cbn [ne_dset ne_dget]; [reflexivity|].
  destruct (String.eqb_spec k0 k) as [->|Hk0]; cbn [ne_dget].
  - destruct (String.eqb k k'); reflexivity.
  - rewrite IH. destruct (String.eqb_spec k0 k') as [->|Hk']; [|reflexivity].
    destruct (String.eqb_spec k k'); [congruence|reflexivity].
Qed.

Lemma dget_dupdate_none a : forall d k, ne_dget a k = None -> ne_dget (ne_dupdate d a) k = ne_dget d k.
Proof.
  unfold ne_dupdate. induction a as [|[k0 v0] a IH]; intros d k H; cbn [fold_left fst snd]; [reflexivity|].
  cbn [ne_dget] in H. destruct (String.eqb k0 k) eqn:E; [discriminate|].
  rewrite IH by exact H. rewrite dget_dset, E. reflexivity.
Qed.

Lemma dget_dupdate_single d k x k' : ne_dget (ne_dupdate d [(k, x)]) k' = if String.eqb k k' then Some x else ne_dget d k'.
Proof. unfold ne_dupdate. cbn [fold_left fst snd]. apply dget_dset. Qed.

(* ------------------------------------------------------------------ edge lookup through the graph operations *)
Definition ne_elook (g : ne_nx) (e : string * string) : option ne_attrs := ne_eget (ne_xe g) e.

Lemma edge_eqb_refl e : ne_edge_eqb e e = true.
Proof. now apply edge_eqb_eq. Qed.
Lemma edge_eqb_false e f : ne_edge_eqb e f = false <-> e <> f.
Proof.
  split.
  - intros H E. apply edge_eqb_eq in E. congruence.
  - intros H. destruct (ne_edge_eqb e f) eqn:E; auto. apply edge_eqb_eq in E. congruence.
Qed.

Lemma eget_upd_edge l e a f :
  ne_eget (ne_upd_edge l e a) f = if ne_edge_eqb e f then option_map (fun d => ne_dupdate d a) (ne_eget l f) else ne_eget l f.
Proof.
  induction l as [|[f0 d0] l IH]; cbn [ne_upd_edge ne_eget option_map]; [now destruct (ne_edge_eqb e f)|].
  destruct (ne_edge_eqb f0 e) eqn:E0; cbn [ne_eget].
  - apply edge_eqb_eq in E0. subst f0. destruct (ne_edge_eqb e f); reflexivity.
  - rewrite IH. destruct (ne_edge_eqb f0 f) eqn:E1; [|reflexivity].
    apply edge_eqb_eq in E1. subst f0. apply edge_eqb_false in E0.
    assert (E2 : ne_edge_eqb e f = false) by (apply edge_eqb_false; congruence). now rewrite E2.
Qed.

Lemma eget_app_single l e d f :
  ne_eget (l ++ [(e, d)]) f = match ne_eget l f with Some x => Some x | None => if ne_edge_eqb e f then Some d else None end.
Proof.
  induction l as [|[f0 d0] l IH]; cbn [app ne_eget]; [reflexivity|].
  destruct (ne_edge_eqb f0 f); auto.
Qed.

Lemma has_edge_elook g e : ne_has_edge g e = match ne_elook g e with Some _ => true | None => false end.
Proof.
  unfold ne_has_edge, ne_elook. induction (ne_xe g) as [|[f0 d0] l IH]; cbn [existsb ne_eget fst]; [reflexivity|].
  destruct (ne_edge_eqb f0 e); cbn [orb]; auto.
Qed.

Lemma touch_xe g v : ne_xe (ne_touch g v) = ne_xe g.
Proof. unfold ne_touch. destruct (ne_has_node g v); reflexivity. Qed.

Lemma elook_add_node g v a f : ne_elook (ne_add_node g v a) f = ne_elook g f.
Proof. unfold ne_elook, ne_add_node. destruct (ne_has_node g v); reflexivity. Qed.

Lemma elook_add_edge g u v a f :
  ne_elook (ne_add_edge g u v a) f =
  if ne_edge_eqb (u, v) f then Some (ne_dupdate (match ne_elook g f with Some d => d | None => [] end) a) else ne_elook g f.
Proof.
  unfold ne_add_edge. cbv zeta. rewrite has_edge_elook. unfold ne_elook. rewrite !touch_xe.
  destruct (ne_eget (ne_xe g) (u, v)) as [d|] eqn:E; cbn [ne_xe].
  - rewrite ?touch_xe, eget_upd_edge. destruct (ne_edge_eqb (u, v) f) eqn:Ef; [|reflexivity].
    apply edge_eqb_eq in Ef. subst f. now rewrite E.
  - rewrite ?touch_xe, eget_app_single. destruct (ne_edge_eqb (u, v) f) eqn:Ef.
    + apply edge_eqb_eq in Ef. subst f. now rewrite E.
    + destruct (ne_eget (ne_xe g) f); reflexivity.
Qed.

Lemma elook_set_eattr g u v k x f :
  ne_elook (ne_set_eattr g u v k x) f =
  if ne_edge_eqb (u, v) f then option_map (fun d => ne_dupdate d [(k, x)]) (ne_elook g f) else ne_elook g f.
Proof. unfold ne_elook, ne_set_eattr. cbn [ne_xe]. apply eget_upd_edge. Qed.

Lemma elook_none_iff g e : ne_elook g e = None <-> ~ In e (ne_ekeys g).
Proof.
  rewrite <- has_edge_In, has_edge_elook. destruct (ne_elook g e); split; intros H; try congruence; auto.
Qed.

(* ------------------------------------------------------------------ the value of attribute l on an edge *)
Definition ne_L (g : ne_nx) (l : string) (f : string * string) : option Z :=
  match ne_elook g f with Some d => ne_dget d l | None => None end.

Lemma L_add_node g v a l f : ne_L (ne_add_node g v a) l f = ne_L g l f.
Proof. unfold ne_L. now rewrite elook_add_node. Qed.

Lemma L_add_edge_nolen g u v a l f : ne_dget a l = None -> ne_L (ne_add_edge g u v a) l f = ne_L g l f.
Proof.
  intros H. unfold ne_L. rewrite elook_add_edge. destruct (ne_edge_eqb (u, v) f); [|reflexivity].
  rewrite dget_dupdate_none by exact H. destruct (ne_elook g f); reflexivity.
Qed.

Lemma L_add_edge_other g u v a l f : (u, v) <> f -> ne_L (ne_add_edge g u v a) l f = ne_L g l f.
Proof. intros H. apply edge_eqb_false in H. unfold ne_L. now rewrite elook_add_edge, H. Qed.

Lemma L_set_eattr_other g u v k x l f : (u, v) <> f -> ne_L (ne_set_eattr g u v k x) l f = ne_L g l f.
Proof. intros H. apply edge_eqb_false in H. unfold ne_L. now rewrite elook_set_eattr, H. Qed.

Lemma L_set_eattr_otherkey g u v k x l f : k <> l -> ne_L (ne_set_eattr g u v k x) l f = ne_L g l f.
Proof.
  intros H. unfold ne_L. rewrite elook_set_eattr. destruct (ne_edge_eqb (u, v) f); [|reflexivity].
  destruct (ne_elook g f) as [d|]; cbn [option_map]; [|reflexivity].
  rewrite dget_dupdate_single. apply String.eqb_neq in H. now rewrite H.
Qed.

Lemma L_set_eattr_same g u v x l : ne_elook g (u, v) <> None -> ne_L (ne_set_eattr g u v l x) l (u, v) = Some x.
Proof.
  intros H. unfold ne_L. rewrite elook_set_eattr, edge_eqb_refl. destruct (ne_elook g (u, v)) as [d|]; [|congruence].
  cbn [option_map]. rewrite dget_dupdate_single, String.eqb_refl. reflexivity.
Qed.

Lemma elook_add_edge_same g u v a : ne_elook (ne_add_edge g u v a) (u, v) <> None.
Proof. rewrite elook_add_edge, edge_eqb_refl. discriminate. Qed.

(* ------------------------------------------------------------------ steps of the constructor *)
(* no original edge carries the length attribute (it is a NODE attribute); edges that do carry it keep
   their own value, which is outside this theorem *)
Definition ne_nolen_node (l : string) (nd : ne_innode) : Prop :=
  (forall pe, In pe (ne_preds nd) -> ne_dget (snd pe) l = None) /\ (forall se, In se (ne_succs nd) -> ne_dget (snd se) l = None).

Lemma pred_step_L l n0 st pe f :
  ne_dget (snd pe) l = None ->
  ne_L (fst (ne_pred_step (Some l) n0 st pe)) l f = if ne_edge_eqb (ne_exp1 (fst pe), n0) f then Some 0%Z else ne_L (fst st) l f.
Proof.
  intros H. unfold ne_pred_step. cbn [fst]. rewrite H.
  destruct (ne_edge_eqb (ne_exp1 (fst pe), n0) f) eqn:E.
  - apply edge_eqb_eq in E. subst f. apply L_set_eattr_same, elook_add_edge_same.
  - apply edge_eqb_false in E. rewrite L_set_eattr_other by exact E. now apply L_add_edge_nolen.
Qed.

Lemma pred_fold_L l n0 ps : forall st f,
  (forall pe, In pe ps -> ne_dget (snd pe) l = None) ->
  ne_L (fst (fold_left (ne_pred_step (Some l) n0) ps st)) l f =
  if existsb (fun pe => ne_edge_eqb (ne_exp1 (fst pe), n0) f) ps then Some 0%Z else ne_L (fst st) l f.
Proof.
  induction ps as [|pe ps IH]; intros st f H; cbn [fold_left existsb]; [reflexivity|].
  rewrite IH by (intros; apply H; now right). rewrite pred_step_L by (apply H; now left).
  destruct (ne_edge_eqb (ne_exp1 (fst pe), n0) f); cbn [orb]; [|reflexivity].
  destruct (existsb _ ps); reflexivity.
Qed.

Lemma succ_fold_L l n1 ss : forall g f,
  (forall se, In se ss -> ne_dget (snd se) l = None) ->
  ne_L (fold_left (ne_succ_step n1) ss g) l f = ne_L g l f.
Proof.
  induction ss as [|se ss IH]; intros g f H; cbn [fold_left]; [reflexivity|].
  rewrite IH by (intros; apply H; now right). unfold ne_succ_step. apply L_add_edge_nolen. apply H. now left.
Qed.

Definition ne_node_key (nd : ne_innode) : string * string := (ne_exp0 (ne_nm nd), ne_exp1 (ne_nm nd)).
Definition ne_pred_hit (nd : ne_innode) (f : string * string) : bool :=
  existsb (fun pe => ne_edge_eqb (ne_exp1 (fst pe), ne_exp0 (ne_nm nd)) f) (ne_preds nd).

Lemma pred_hit_node_key nd nd' : ne_pred_hit nd (ne_node_key nd') = false.
Proof.
  unfold ne_pred_hit, ne_node_key. destruct (existsb _ (ne_preds nd)) eqn:E; [|reflexivity].
  apply existsb_exists in E. destruct E as [pe [_ E]]. apply edge_eqb_eq in E. injection E as E _.
  symmetry in E. now apply exp0_neq_exp1 in E.
Qed.

(* the part of the node step before the two loops, seen from an edge other than the node edge *)
Lemma node_step_L_other flow l st nd f :
  flow <> l -> ne_nolen_node l nd -> f <> ne_node_key nd ->
  ne_L (fst (ne_node_step flow (Some l) st nd)) l f = if ne_pred_hit nd f then Some 0%Z else ne_L (fst st) l f.
Proof.
  intros Hfl [Hp Hs] Hf. unfold ne_node_step. cbn [fst].
  rewrite succ_fold_L by exact Hs. rewrite pred_fold_L by exact Hp. fold (ne_pred_hit nd f).
  destruct (ne_pred_hit nd f); [reflexivity|]. cbn [fst].
  assert (K : (ne_exp0 (ne_nm nd), ne_exp1 (ne_nm nd)) <> f) by (intros E; apply Hf; now rewrite <- E).
  set (g3 := ne_add_edge (ne_add_node (ne_add_node (fst st) (ne_exp0 (ne_nm nd)) (ne_at nd)) (ne_exp1 (ne_nm nd)) (ne_at nd))
                         (ne_exp0 (ne_nm nd)) (ne_exp1 (ne_nm nd)) (ne_at nd)).
  assert (K3 : ne_L g3 l f = ne_L (fst st) l f).
  { unfold g3. rewrite L_add_edge_other by exact K. now rewrite !L_add_node. }
  destruct (ne_dget (ne_at nd) flow); cbn [fst]; destruct (ne_dget (ne_at nd) l);
    rewrite ?L_set_eattr_other by exact K; exact K3.
Qed.

(* ... and from the node edge itself, when it is new *)
Lemma node_step_L_key flow l st nd :
  flow <> l -> ne_nolen_node l nd -> ne_elook (fst st) (ne_node_key nd) = None ->
  ne_L (fst (ne_node_step flow (Some l) st nd)) l (ne_node_key nd) = ne_dget (ne_at nd) l.
Proof.
  intros Hfl [Hp Hs] Hnew. unfold ne_node_step. cbn [fst].
  rewrite succ_fold_L by exact Hs. rewrite pred_fold_L by exact Hp. fold (ne_pred_hit nd (ne_node_key nd)).
  rewrite pred_hit_node_key. cbn [fst]. unfold ne_node_key in *.
  set (n0 := ne_exp0 (ne_nm nd)) in *. set (n1 := ne_exp1 (ne_nm nd)) in *.
  set (g3 := ne_add_edge (ne_add_node (ne_add_node (fst st) n0 (ne_at nd)) n1 (ne_at nd)) n0 n1 (ne_at nd)).
  assert (E3 : ne_elook g3 (n0, n1) <> None) by apply elook_add_edge_same.
  assert (L3 : ne_dget (ne_at nd) l = None -> ne_L g3 l (n0, n1) = None).
  { intros Hn. unfold g3. rewrite L_add_edge_nolen by exact Hn. rewrite !L_add_node. unfold ne_L. now rewrite Hnew. }
  destruct (ne_dget (ne_at nd) flow) as [x|]; cbn [fst]; destruct (ne_dget (ne_at nd) l) as [y|] eqn:El.
  - apply L_set_eattr_same. rewrite elook_set_eattr, edge_eqb_refl. destruct (ne_elook g3 (n0, n1)); [discriminate|congruence].
  - rewrite L_set_eattr_otherkey by exact Hfl. now apply L3.
  - now apply L_set_eattr_same.
  - now apply L3.
Qed.

(* ------------------------------------------------------------------ the whole constructor *)
Definition ne_nolen (l : string) (G : ne_ingraph) : Prop := forall nd, In nd G -> ne_nolen_node l nd.

Lemma node_key_inj nd nd' : ne_node_key nd = ne_node_key nd' -> ne_nm nd = ne_nm nd'.
Proof. unfold ne_node_key. intros H. injection H as H _. now apply exp0_inj in H. Qed.

(* steps of OTHER nodes leave the node edge of nd alone *)
Lemma fold_L_key_preserved flow l G : forall st nd,
  flow <> l -> ne_nolen l G -> (forall nd', In nd' G -> ne_nm nd' <> ne_nm nd) ->
  ne_L (fst (fold_left (ne_node_step flow (Some l)) G st)) l (ne_node_key nd) = ne_L (fst st) l (ne_node_key nd).
Proof.
  induction G as [|nd0 G IH]; intros st nd Hfl Hn Hd; cbn [fold_left]; [reflexivity|].
  rewrite IH; auto; [|intros x Hx; apply Hn; now right|intros x Hx; apply Hd; now right].
  rewrite node_step_L_other; auto; [|apply Hn; now left|].
  - now rewrite pred_hit_node_key.
  - intros E. apply node_key_inj in E. apply (Hd nd0 (or_introl eq_refl)). congruence.
Qed.

Lemma node_key_not_in_keys nd nd' : ne_nm nd <> ne_nm nd' -> ~ In (ne_node_key nd) (ne_keys_of_node nd').
Proof.
  intros Hne H. unfold ne_keys_of_node, ne_node_key in *. cbn [In] in H. rewrite in_app_iff in H.
  destruct H as [H|[H|H]].
  - injection H as H _. apply exp0_inj in H. congruence.
  - apply in_map_iff in H. destruct H as [pe [H _]]. injection H as H _. symmetry in H. now apply exp0_neq_exp1 in H.
  - apply in_map_iff in H. destruct H as [se [H _]]. injection H as H _. symmetry in H. now apply exp0_neq_exp1 in H.
Qed.

(* A: the node edge carries exactly the node's length attribute (absent iff absent on the node) *)
Lemma fold_L_node_edges flow l G : forall st,
  flow <> l -> ne_nolen l G -> NoDup (map ne_nm G) ->
  (forall nd, In nd G -> ne_elook (fst st) (ne_node_key nd) = None) ->
  forall nd, In nd G -> ne_L (fst (fold_left (ne_node_step flow (Some l)) G st)) l (ne_node_key nd) = ne_dget (ne_at nd) l.
Proof.
  induction G as [|nd0 G IH]; intros st Hfl Hn Hd Hnew nd Hin; [destruct Hin|].
  cbn [fold_left]. cbn [map] in Hd. inversion Hd as [|? ? Hnot Hd']; subst.
  destruct Hin as [<-|Hin].
  - rewrite fold_L_key_preserved; auto.
    + apply node_step_L_key; auto. * apply Hn. now left. * apply Hnew. now left.
    + intros x Hx. apply Hn. now right.
    + intros x Hx E. apply Hnot. rewrite <- E. now apply in_map.
  - apply IH; auto.
    + intros x Hx. apply Hn. now right.
    + intros x Hx. apply elook_none_iff. intros Hk. apply node_step_keys in Hk. destruct Hk as [Hk|Hk].
      * apply (proj1 (elook_none_iff (fst st) (ne_node_key x))); auto. apply Hnew. now right.
      * revert Hk. apply node_key_not_in_keys. intros E. apply Hnot. rewrite <- E. now apply in_map.
Qed.

(* B: every connecting edge ends with length 0 *)
Lemma fold_L_conn_preserved flow l G : forall st f,
  flow <> l -> ne_nolen l G -> (forall nd, In nd G -> f <> ne_node_key nd) ->
  ne_L (fst st) l f = Some 0%Z -> ne_L (fst (fold_left (ne_node_step flow (Some l)) G st)) l f = Some 0%Z.
Proof.
  induction G as [|nd0 G IH]; intros st f Hfl Hn Hf H0; cbn [fold_left]; [exact H0|].
  apply IH; auto; [intros x Hx; apply Hn; now right|intros x Hx; apply Hf; now right|].
  rewrite node_step_L_other; auto; [|apply Hn; now left|apply Hf; now left].
  destruct (ne_pred_hit nd0 f); auto.
Qed.

Lemma fold_L_conn flow l G : forall st,
  flow <> l -> ne_nolen l G ->
  forall nd p, In nd G -> In p (map fst (ne_preds nd)) ->
  ne_L (fst (fold_left (ne_node_step flow (Some l)) G st)) l (ne_exp1 p, ne_exp0 (ne_nm nd)) = Some 0%Z.
Proof.
  assert (NK : forall p v nd', (ne_exp1 p, ne_exp0 v) <> ne_node_key nd').
  { intros p v nd' E. unfold ne_node_key in E. injection E as E _. symmetry in E. now apply exp0_neq_exp1 in E. }
  induction G as [|nd0 G IH]; intros st Hfl Hn nd p Hin Hp; [destruct Hin|].
  cbn [fold_left]. destruct Hin as [<-|Hin].
  - apply fold_L_conn_preserved; auto; [intros x Hx; apply Hn; now right|].
    rewrite node_step_L_other; auto; [|apply Hn; now left].
    assert (Hh : ne_pred_hit nd0 (ne_exp1 p, ne_exp0 (ne_nm nd0)) = true).
    { unfold ne_pred_hit. apply existsb_exists. apply in_map_iff in Hp. destruct Hp as [pe [<- Hpe]].
      exists pe. split; auto. apply edge_eqb_refl. }
    now rewrite Hh.
  - apply IH; auto. intros x Hx. apply Hn. now right.
Qed.

(* ------------------------------------------------------------------ lengths of routes *)
(* the length of an edge as every consumer reads it: G[u][v].get(length_attr, 1) *)
Definition ne_elen (X : ne_nx) (l : string) (e : string * string) : Z :=
  match ne_L X l e with Some x => x | None => 1%Z end.
(* the length of a node of the original graph, with the same default *)
Definition ne_nlen (G : ne_ingraph) (l : string) (v : string) : Z :=
  match find (fun nd => String.eqb (ne_nm nd) v) G with
  | Some nd => match ne_dget (ne_at nd) l with Some x => x | None => 1%Z end
  | None => 1%Z
  end.
Definition ne_zsum (xs : list Z) : Z := fold_right Z.add 0%Z xs.

Theorem expand_lengths G flow l :
  ne_wf G -> flow <> l -> ne_nolen l G ->
  let X := fst (ne_expand_core G flow (Some l)) in
  (forall v, ne_inode G v -> ne_elen X l (ne_exp0 v, ne_exp1 v) = ne_nlen G l v) /\
  (forall u v, ne_iedge G u v -> ne_elen X l (ne_exp1 u, ne_exp0 v) = 0%Z).
Proof.
  intros W Hfl Hn X. split.
  - intros v Hv. unfold ne_nlen. destruct (find _ G) as [nd|] eqn:Ef.
    + apply find_some in Ef. destruct Ef as [Hin E]. apply String.eqb_eq in E. subst v.
      unfold ne_elen, X, ne_expand_core. change (ne_exp0 (ne_nm nd), ne_exp1 (ne_nm nd)) with (ne_node_key nd).
      rewrite fold_L_node_edges; auto using wf_nodup.
    + exfalso. unfold ne_inode in Hv. apply in_map_iff in Hv. destruct Hv as [nd [E Hin]].
      apply (find_none _ _ Ef) in Hin. cbn in Hin. rewrite E, String.eqb_refl in Hin. discriminate.
  - intros u v [nd [Hin [<- Hu]]]. unfold ne_elen, X, ne_expand_core. now rewrite fold_L_conn.
Qed.

(* the length of an expanded route = the sum of the node lengths of the route it condenses to *)
Theorem expanded_route_length G flow l p :
  ne_wf G -> flow <> l -> ne_nolen l G ->
  (forall v, In v p -> ne_inode G v) -> ne_walk (ne_iedge G) p ->
  ne_zsum (map (ne_elen (fst (ne_expand_core G flow (Some l))) l) (ne_pairs (ne_expand_path p))) = ne_zsum (map (ne_nlen G l) p).
Proof.
  intros W Hfl Hn HN Wk. destruct (expand_lengths G flow l W Hfl Hn) as [A B].
  induction Wk as [v | a b r Hab Wk IH].
  - cbn. rewrite A by (apply HN; now left). reflexivity.
  - rewrite pairs_expand_cons. cbn [map ne_zsum fold_right].
    rewrite A by (apply HN; now left). rewrite (B a b Hab). fold (ne_zsum (map (ne_elen (fst (ne_expand_core G flow (Some l))) l) (ne_pairs (ne_expand_path (b :: r))))).
    rewrite IH by (intros v Hv; apply HN; now right). cbn [map ne_zsum fold_right]. lia.
Qed.

(* ------------------------------------------------------------------ independence from the attributes of the caller's EDGES *)
(* NodeExpandedDiGraph copies the data of an original edge (u, v) onto the connecting edge (u.1, v.0); such data may
   even use the name of the node weight attribute ("decoy" values).  Neither the weights of the expanded instance
   (the values on the node edges) nor edges_to_ignore depend on it. *)
Lemma pred_fold_L_nodekey len n0 ps k nd : forall st,
  ne_L (fst (fold_left (ne_pred_step len n0) ps st)) k (ne_node_key nd) = ne_L (fst st) k (ne_node_key nd).
Proof.
  assert (NK : forall p, (ne_exp1 p, n0) <> ne_node_key nd).
  { intros p E. unfold ne_node_key in E. injection E as E _. symmetry in E. now apply exp0_neq_exp1 in E. }
  induction ps as [|pe ps IH]; intros st; cbn [fold_left]; [reflexivity|].
  rewrite IH. unfold ne_pred_step. cbn [fst].
  destruct len as [l|]; [destruct (ne_dget (snd pe) l)|]; rewrite ?L_set_eattr_other by apply NK; now rewrite L_add_edge_other by apply NK.
Qed.

Lemma succ_fold_L_nodekey n1v ss k nd : forall g,
  ne_L (fold_left (ne_succ_step (ne_exp1 n1v)) ss g) k (ne_node_key nd) = ne_L g k (ne_node_key nd).
Proof.
  induction ss as [|se ss IH]; intros g; cbn [fold_left]; [reflexivity|].
  rewrite IH. unfold ne_succ_step. apply L_add_edge_other.
  intros E. unfold ne_node_key in E. injection E as E _. symmetry in E. now apply exp0_neq_exp1 in E.
Qed.

Lemma node_step_L_foreign flow len st nd' nd k :
  ne_nm nd' <> ne_nm nd ->
  ne_L (fst (ne_node_step flow len st nd')) k (ne_node_key nd) = ne_L (fst st) k (ne_node_key nd).
Proof.
  intros Hne. unfold ne_node_step. cbn [fst]. rewrite succ_fold_L_nodekey, pred_fold_L_nodekey. cbn [fst].
  assert (K : (ne_exp0 (ne_nm nd'), ne_exp1 (ne_nm nd')) <> ne_node_key nd).
  { intros E. change (ne_node_key nd' = ne_node_key nd) in E. now apply node_key_inj in E. }
  destruct (ne_dget (ne_at nd') flow); cbn [fst]; destruct len as [l|]; try destruct (ne_dget (ne_at nd') l);
    rewrite ?L_set_eattr_other by exact K; rewrite L_add_edge_other by exact K; now rewrite !L_add_node.
Qed.

Lemma node_step_L_own_flow flow len st nd :
  len <> Some flow -> ne_elook (fst st) (ne_node_key nd) = None ->
  ne_L (fst (ne_node_step flow len st nd)) flow (ne_node_key nd) = ne_dget (ne_at nd) flow.
Proof.
  intros Hl Hnew. unfold ne_node_step. cbn [fst]. rewrite succ_fold_L_nodekey, pred_fold_L_nodekey. cbn [fst].
  unfold ne_node_key in *. set (n0 := ne_exp0 (ne_nm nd)) in *. set (n1 := ne_exp1 (ne_nm nd)) in *.
  set (g3 := ne_add_edge (ne_add_node (ne_add_node (fst st) n0 (ne_at nd)) n1 (ne_at nd)) n0 n1 (ne_at nd)).
  assert (E3 : ne_elook g3 (n0, n1) <> None) by apply elook_add_edge_same.
  assert (L3 : ne_dget (ne_at nd) flow = None -> ne_L g3 flow (n0, n1) = None).
  { intros Hn. unfold g3. rewrite L_add_edge_nolen by exact Hn. rewrite !L_add_node. unfold ne_L. now rewrite Hnew. }
  assert (Hk : forall l, len = Some l -> l <> flow) by (intros l -> E; apply Hl; now rewrite E).
  destruct (ne_dget (ne_at nd) flow) as [x|] eqn:Ef; cbn [fst]; destruct len as [l|]; try destruct (ne_dget (ne_at nd) l);
    rewrite ?L_set_eattr_otherkey by (apply Hk; reflexivity); try (now apply L_set_eattr_same); now apply L3.
Qed.

Lemma fold_L_foreign flow len G k nd : forall st,
  (forall nd', In nd' G -> ne_nm nd' <> ne_nm nd) ->
  ne_L (fst (fold_left (ne_node_step flow len) G st)) k (ne_node_key nd) = ne_L (fst st) k (ne_node_key nd).
Proof.
  induction G as [|nd0 G IH]; intros st Hd; cbn [fold_left]; [reflexivity|].
  rewrite IH by (intros x Hx; apply Hd; now right). apply node_step_L_foreign. apply Hd. now left.
Qed.

Lemma fold_L_weights flow len G : forall st,
  len <> Some flow -> NoDup (map ne_nm G) ->
  (forall nd, In nd G -> ne_elook (fst st) (ne_node_key nd) = None) ->
  forall nd, In nd G -> ne_L (fst (fold_left (ne_node_step flow len) G st)) flow (ne_node_key nd) = ne_dget (ne_at nd) flow.
Proof.
  induction G as [|nd0 G IH]; intros st Hl Hd Hnew nd Hin; [destruct Hin|].
  cbn [fold_left]. cbn [map] in Hd. inversion Hd as [|? ? Hnot Hd']; subst.
  destruct Hin as [<-|Hin].
  - rewrite fold_L_foreign.
    + apply node_step_L_own_flow; auto. apply Hnew. now left.
    + intros x Hx E. apply Hnot. rewrite <- E. now apply in_map.
  - apply IH; auto.
    intros x Hx. apply elook_none_iff. intros Hk. apply node_step_keys in Hk. destruct Hk as [Hk|Hk].
    + apply (proj1 (elook_none_iff (fst st) (ne_node_key x))); auto. apply Hnew. now right.
    + revert Hk. apply node_key_not_in_keys. intros E. apply Hnot. rewrite <- E. now apply in_map.
Qed.

(* the weight of the expanded instance on the node edge of v is v's own value, whatever the caller's edges carry *)
Theorem expand_weights G flow len nd :
  NoDup (map ne_nm G) -> len <> Some flow -> In nd G ->
  ne_L (fst (ne_expand_core G flow len)) flow (ne_exp0 (ne_nm nd), ne_exp1 (ne_nm nd)) = ne_dget (ne_at nd) flow.
Proof.
  intros Hd Hl Hin. unfold ne_expand_core. change (ne_exp0 (ne_nm nd), ne_exp1 (ne_nm nd)) with (ne_node_key nd).
  apply fold_L_weights; auto.
Qed.

(* the same graph with all edge data removed *)
Definition ne_strip (nd : ne_innode) : ne_innode :=
  {| ne_nm := ne_nm nd; ne_at := ne_at nd;
     ne_preds := map (fun pe => (fst pe, [])) (ne_preds nd); ne_succs := map (fun se => (fst se, [])) (ne_succs nd) |}.

Lemma ign_of_node_strip flow nd : ne_ign_of_node flow (ne_strip nd) = ne_ign_of_node flow nd.
Proof. unfold ne_ign_of_node, ne_strip. cbn [ne_nm ne_at ne_preds]. now rewrite map_map. Qed.

Theorem expand_independent_of_edge_attributes G flow len len' :
  NoDup (map ne_nm G) -> len <> Some flow -> len' <> Some flow ->
  (* edges_to_ignore is literally the same list *)
  snd (ne_expand_core G flow len) = snd (ne_expand_core (map ne_strip G) flow len') /\
  (* and every node edge carries the same weight *)
  (forall nd, In nd G ->
     ne_L (fst (ne_expand_core G flow len)) flow (ne_node_key nd) = ne_L (fst (ne_expand_core (map ne_strip G) flow len')) flow (ne_node_key nd)).
Proof.
  intros Hd Hl Hl'. split.
  - rewrite !expand_ignore_exact. induction G as [|nd G IH]; [reflexivity|]. cbn [map flat_map].
    inversion Hd; subst. rewrite ign_of_node_strip, IH; auto.
  - intros nd Hin. unfold ne_node_key. rewrite expand_weights by auto.
    assert (Hd' : NoDup (map ne_nm (map ne_strip G))) by (rewrite map_map; exact Hd).
    change (ne_exp0 (ne_nm nd), ne_exp1 (ne_nm nd)) with (ne_exp0 (ne_nm (ne_strip nd)), ne_exp1 (ne_nm (ne_strip nd))).
    rewrite (expand_weights (map ne_strip G) flow len' (ne_strip nd)); auto. now apply in_map.
Qed.
