(* C17 — executable models of the reachability substrate.
   * generic [clos]/[closure]: iteration to a fixed point, fuel = size of the universe + 1
   * stDiGraph.nodes_reachable / nodes_reaching / is_scc_edge / compute_edge_max_reachable_value as the
     code computes them: through the SCC condensation (mapping node -> SCC id, condensation edges,
     topological order of the condensation: all three are OUTPUTS OF networkx and enter the model as
     inputs that a verified checker [cond_ok] validates per instance), per-SCC node sets, pull/push
     dynamic programmes over the condensation, and the two per-node caches
   * stDAG.reachable_nodes_from / nodes_reaching: pull DP over the (reverse) topological order
   * the cache state machine of stDiGraph for query sequences (with the aliasing switch: the code hands
     out the cached set object itself).
   Proofs are in ReachProofs*.v. *)
From Coq Require Import List NArith ZArith Bool Arith Lia.
Import ListNotations.

Notation node := N.
Definition edge := (node * node)%type.

Definition eqe (e1 e2 : edge) : bool := (fst e1 =? fst e2)%N && (snd e1 =? snd e2)%N.
Definition memN (x : N) (l : list N) : bool := existsb (N.eqb x) l.
Definition memE (e : edge) (l : list edge) : bool := existsb (eqe e) l.

Fixpoint nodupE (l : list edge) : bool :=
  match l with [] => true | x :: r => negb (memE x r) && nodupE r end.
(* finite maps given as association lists (first entry wins), with a default *)
Definition map_of (l : list (node * N)) (d : N) (v : node) : N :=
  match find (fun p => (fst p =? v)%N) l with Some p => snd p | None => d end.

Fixpoint pairs (w : list node) : list edge :=
  match w with
  | a :: ((b :: _) as r) => (a, b) :: pairs r
  | _ => []
  end.

(* ------------------------------------------------------------------------------------------ *)
(* generic closure *)
Section Closure.
  Variable A : Type.
  Variable eqb : A -> A -> bool.
  Variable step : A -> list A.

  Definition mem (x : A) (l : list A) : bool := existsb (eqb x) l.

  Fixpoint add_all (xs acc : list A) : list A :=
    match xs with
    | [] => acc
    | x :: r => if mem x acc then add_all r acc else add_all r (x :: acc)
    end.

  Fixpoint clos (fuel : nat) (S : list A) : list A :=
    match fuel with
    | O => S
    | Datatypes.S f =>
        let S' := add_all (flat_map step S) S in
        if length S' =? length S then S else clos f S'
    end.

  (* declarative reachability: reflexive-transitive closure of [step] *)
  Inductive reach (x0 : A) : A -> Prop :=
  | reach_refl : reach x0 x0
  | reach_step x y : reach x0 x -> In y (step x) -> reach x0 y.
End Closure.
Arguments mem {A}. Arguments add_all {A}. Arguments clos {A}. Arguments reach {A}.

(* adjacency derived from an edge list (order of the list) *)
Definition succs_of (E : list edge) (u : node) : list node := map snd (filter (fun e => (fst e =? u)%N) E).
Definition preds_of (E : list edge) (v : node) : list node := map fst (filter (fun e => (snd e =? v)%N) E).

(* [closure U step v]: everything reachable from v (v included); U = universe (all nodes) *)
Definition closure (U : list N) (step : N -> list N) (v : N) : list N := clos N.eqb step (S (length U)) [v].

Definition greach (E : list edge) : node -> node -> Prop := reach (succs_of E).
Definition greach_rev (E : list edge) : node -> node -> Prop := reach (preds_of E).

(* ------------------------------------------------------------------------------------------ *)
(* pull / push dynamic programmes over an order (shared by the condensation DPs and the stDAG sets) *)
Definition upd {T} (m : N -> T) (v : N) (a : T) : N -> T := fun x => if (x =? v)%N then a else m x.

Section DP.
  Variable T : Type.
  Variable dep : N -> list N.
  Variable join : T -> T -> T.
  Variable join2 : N -> N -> T -> T -> T.     (* may look at the pair (c, s) *)

  (* for c in order: for s in dep(c): m[c] = join2 c s (m[c], m[s]) *)
  Definition pull_step (m : N -> T) (c : N) : N -> T :=
    upd m c (fold_left (fun acc s => join2 c s acc (m s)) (dep c) (m c)).
  Definition pull (order : list N) (m0 : N -> T) : N -> T := fold_left pull_step order m0.

  (* for c in order: for s in dep(c): m[s] = join(m[s], m[c]) *)
  Definition push_step (m : N -> T) (c : N) : N -> T :=
    fold_left (fun m' s => upd m' s (join (m' s) (m' c))) (dep c) m.
  Definition push (order : list N) (m0 : N -> T) : N -> T := fold_left push_step order m0.
End DP.
Arguments pull {T}. Arguments push {T}. Arguments pull_step {T}. Arguments push_step {T}.

(* every element's dependencies are processed before it, no element twice *)
Fixpoint sorted (dep : N -> list N) (done rest : list N) : Prop :=
  match rest with
  | [] => True
  | v :: r => ~ In v done /\ (forall u, In u (dep v) -> In u done) /\ sorted dep (done ++ [v]) r
  end.

(* ------------------------------------------------------------------------------------------ *)
(* the condensation as networkx hands it over *)
Record cond := { c_map : node -> N;             (* C.graph["mapping"] *)
                 c_edges : list (N * N);        (* C.edges() *)
                 c_topo : list N }.             (* list(nx.topological_sort(C)); contains every SCC id *)

Fixpoint nodupb (l : list N) : bool :=
  match l with [] => true | x :: r => negb (memN x r) && nodupb r end.
Fixpoint beforeb (l : list N) (a b : N) : bool :=
  match l with [] => false | x :: r => if (x =? a)%N then memN b r else beforeb r a b end.

Section StDiGraph.
  Variable V : list node.          (* list(G.nodes()) of the augmented graph *)
  Variable E : list edge.          (* list(G.edges()) *)
  Variable C : cond.

  (* verified per-instance checker of what networkx returned:
     same SCC id <-> mutually reachable; condensation edges = images of the inter-SCC edges;
     the order is a topological order of the condensation containing every SCC id *)
  Definition mutual (u v : node) : bool :=
    memN v (closure V (succs_of E) u) && memN u (closure V (succs_of E) v).
  Definition cond_ok : bool :=
    nodupb V &&
    forallb (fun e => memN (fst e) V && memN (snd e) V) E &&
    forallb (fun u => forallb (fun v => Bool.eqb (c_map C u =? c_map C v)%N (mutual u v)) V) V &&
    forallb (fun e => (c_map C (fst e) =? c_map C (snd e))%N || memE (c_map C (fst e), c_map C (snd e)) (c_edges C)) E &&
    forallb (fun ce => existsb (fun e => eqe (c_map C (fst e), c_map C (snd e)) ce) E && negb (fst ce =? snd ce)%N) (c_edges C) &&
    nodupb (c_topo C) &&
    forallb (fun v => memN (c_map C v) (c_topo C)) V &&
    forallb (fun ce => beforeb (c_topo C) (fst ce) (snd ce)) (c_edges C).

  Definition nodes_by_scc (c : N) : list node := filter (fun n => (c_map C n =? c)%N) V.

  (* set(nx.descendants(C, cv)) | {cv}   /   set(nx.ancestors(C, cu)) | {cu} *)
  Definition descendants (c : N) : list N := closure (c_topo C) (succs_of (c_edges C)) c.
  Definition ancestors (c : N) : list N := closure (c_topo C) (preds_of (c_edges C)) c.

  (* None = ValueError (node not in the graph) *)
  Definition nodes_reachable_cold (v : node) : option (list node) :=
    if memN v V then Some (flat_map nodes_by_scc (descendants (c_map C v))) else None.
  Definition nodes_reaching_cold (v : node) : option (list node) :=
    if memN v V then Some (flat_map nodes_by_scc (ancestors (c_map C v))) else None.
  Definition is_scc_edge_model (u v : node) : option bool :=
    if memE (u, v) E then Some (c_map C u =? c_map C v)%N else None.

  (* compute_edge_max_reachable_value *)
  Variable W : list (edge * Z).      (* data.get(flow_attr, 0) for the edges that carry the attribute *)
  Definition wt (e : edge) : Z :=
    match find (fun p => eqe (fst p) e) W with Some p => snd p | None => 0%Z end.

  Definition local_out (c : N) : Z :=
    fold_left (fun acc e => if (c_map C (fst e) =? c)%N && (wt e >? acc)%Z then wt e else acc) E 0%Z.
  Definition local_in (c : N) : Z :=
    fold_left (fun acc e => if (c_map C (snd e) =? c)%N && (wt e >? acc)%Z then wt e else acc) E 0%Z.

  (* "if m[s] > m[c]: m[c] = m[s]"  *)
  Definition zjoin (a b : Z) : Z := if (b >? a)%Z then b else a.

  Definition max_desc : N -> Z := pull (succs_of (c_edges C)) (fun _ _ => zjoin) (rev (c_topo C)) local_out.
  Definition max_anc : N -> Z := push (succs_of (c_edges C)) zjoin (c_topo C) local_in.

  Definition edge_max_reachable (e : edge) : Z :=
    Z.max (Z.max (wt e) (max_desc (c_map C (snd e)))) (max_anc (c_map C (fst e))).
  Definition edge_max_reachable_all : list (edge * Z) := map (fun e => (e, edge_max_reachable e)) E.

  (* ---------------------------------------------------------------------------------------- *)
  (* the two per-node caches as a state machine *)
  Record cache := { k_from : list (node * list node); k_to : list (node * list node) }.
  Definition cache0 : cache := {| k_from := []; k_to := [] |}.

  Fixpoint lookup (v : node) (l : list (node * list node)) : option (list node) :=
    match l with [] => None | (k, s) :: r => if (k =? v)%N then Some s else lookup v r end.
  Fixpoint modify (v : node) (g : list node -> list node) (l : list (node * list node)) : list (node * list node) :=
    match l with [] => [] | (k, s) :: r => if (k =? v)%N then (k, g s) :: r else (k, s) :: modify v g r end.

  Inductive query :=
  | QReach (v : node) | QReaching (v : node) | QScc (u v : node)
  | QMut (fwd add : bool) (v x : node).   (* the CALLER adds/discards x in the set object it was handed for (fwd, v) *)
  Inductive answer := ANodes (l : list node) | ABool (b : bool) | AErr | AUnit.

  Definition ans (o : option (list node)) : answer := match o with Some l => ANodes l | None => AErr end.

  (* alias = true: the code as it is (the returned object IS the cache entry);
     alias = false: the query returns a fresh copy *)
  Definition qstep (alias : bool) (k : cache) (q : query) : cache * answer :=
    match q with
    | QReach v =>
        if memN v V then
          match lookup v (k_from k) with
          | Some s => (k, ANodes s)
          | None => match nodes_reachable_cold v with
                    | Some s => ({| k_from := (v, s) :: k_from k; k_to := k_to k |}, ANodes s)
                    | None => (k, AErr)
                    end
          end
        else (k, AErr)
    | QReaching v =>
        if memN v V then
          match lookup v (k_to k) with
          | Some s => (k, ANodes s)
          | None => match nodes_reaching_cold v with
                    | Some s => ({| k_from := k_from k; k_to := (v, s) :: k_to k |}, ANodes s)
                    | None => (k, AErr)
                    end
          end
        else (k, AErr)
    | QScc u v => (k, match is_scc_edge_model u v with Some b => ABool b | None => AErr end)
    | QMut fwd add v x =>
        if alias then
          let g := fun s => if add then x :: s else filter (fun y => negb (y =? x)%N) s in
          (if fwd then {| k_from := modify v g (k_from k); k_to := k_to k |}
           else {| k_from := k_from k; k_to := modify v g (k_to k) |}, AUnit)
        else (k, AUnit)
    end.

  Fixpoint qrun (alias : bool) (k : cache) (qs : list query) : list answer :=
    match qs with
    | [] => []
    | q :: r => let '(k', a) := qstep alias k q in a :: qrun alias k' r
    end.

  Definition cold_answer (q : query) : answer := snd (qstep false cache0 q).
  Definition is_mut (q : query) : bool := match q with QMut _ _ _ _ => true | _ => false end.
End StDiGraph.

(* ------------------------------------------------------------------------------------------ *)
(* stDAG.reachable_nodes_from / nodes_reaching (dict properties): pull DP with set union.
   topo = list(nx.topological_sort(G)) is an input (validated by [dag_topo_ok]). *)
Definition union (a b : list N) : list N := add_all N.eqb b a.
Definition eunion (a b : list edge) : list edge := add_all eqe b a.

Section StDAG.
  Variable V : list node.
  Variable E : list edge.
  Variable topo : list node.

  Definition dag_topo_ok : bool :=
    nodupb topo && forallb (fun v => memN v topo) V &&
    forallb (fun e => beforeb topo (fst e) (snd e)) E.

  (* for node in topological_order_rev: for v in successors(node): R[node] |= R[v] *)
  Definition dag_reachable_from : N -> list N := pull (succs_of E) (fun _ _ => union) (rev topo) (fun v => [v]).
  (* for node in topological_order: for v in predecessors(node): R[node] |= R[v] *)
  Definition dag_nodes_reaching : N -> list N := pull (preds_of E) (fun _ _ => union) topo (fun v => [v]).
  (* ... R[node] |= R[v]; R[node] |= {(node, v)}   resp.  {(v, node)} *)
  Definition dag_reachable_edges_from : N -> list edge :=
    pull (succs_of E) (fun c s acc ms => eunion (eunion acc ms) [(c, s)]) (rev topo) (fun _ => []).
  Definition dag_reachable_edges_rev_from : N -> list edge :=
    pull (preds_of E) (fun c s acc ms => eunion (eunion acc ms) [(s, c)]) topo (fun _ => []).
End StDAG.
