(* use_min_gen_set_lowerbound of MinFlowDecompCycles, end to end: the size MinGenSet reports (max_multiplicity = M) never
   exceeds the number of walks of any decomposition whose walks traverse no edge more than M times. *)
From Coq Require Import List NArith ZArith QArith Lqa Bool Arith Lia Permutation.
Import ListNotations.
From FP Require Import Lin Blocks BlocksProofs PathEnc PathEncProofs WalkEnc WalkEncRows WalkEncRowsProofs WalkEncComplete WalkEncIff
                       MiscEnc MiscEncProofs MgsComplete LowerBounds LowerBoundsMgs.
Set Default Timeout 60.
Local Close Scope Q_scope.

Theorem min_gen_set_option_is_sound_walks (J : kfdc_inst) (P : N -> list node) (wt : N -> Q)
    (I : mgs_inst) (status : nat -> mstatus) (lb n : nat) (extra : Z) (tried : list nat) (m : nat) :
  let G := c_graph J in let E := g_edges G in let s := g_src G in let t := g_snk G in
  walk_decomposition J P wt -> wf_graph G ->
  (forall u x, In (s, u) E -> In (x, u) E -> x = s) ->
  (forall e, In e E -> mem_edge e (kfdc_ignore J) = true -> fst e = s \/ snd e = t) ->
  (forall u, In (s, u) E -> mem_edge (s, u) (kfdc_ignore J) = true) ->
  (* the MinGenSet instance: flow values, source flow, max_multiplicity = mg_mult I bounding the traversals of the walks *)
  mg_parts I = None -> (1 <= mg_mult I)%nat -> mg_int I = c_int J ->
  (forall i e, In i (layers (c_k J)) -> In e (kept_edges J) -> (mult P i e <= Z.of_nat (mg_mult I))%Z) ->
  (forall a, In a (mg_numbers I) -> exists e, In e (kept_edges J) /\ (a == WalkEncRows.flow_of J e)%Q) ->
  (mg_total I == sumq (WalkEncRows.flow_of J) (src_cut G (kfdc_ignore J)))%Q ->
  (forall k, status k = MgOptimal -> exists a, sat a (encode_mgs I k)) ->
  (forall k, status k = MgInfeasible -> forall a, ~ sat a (encode_mgs I k)) ->
  mgsm_loop status lb n extra = (tried, Some m) ->
  (lb <= c_k J)%nat -> (1 <= c_k J)%nat ->
  (m <= c_k J)%nat.
Proof.
  intros G E s t D WF S1 S2 S3 Hparts Hmult Hint HM Hnum Htot Hopt Hinf Hloop Hlb Hk1.
  destruct (min_gen_set_bound_walks J P wt (mg_mult I) (kept_edges J) D WF S1 S2 S3 HM (fun e He => He))
    as (g & Hlen & (Hnn & Hsum & Hgen) & Hgint).
  set (k := c_k J) in *.
  set (g' := g ++ repeat 0%Q (k - length g)).
  assert (Hlen' : length g' = k) by (unfold g'; rewrite app_length, repeat_length; lia).
  assert (Hgs : genset_for I g').
  { unfold genset_for. split; [|split].
    - unfold g'. apply genset_pad. split; [exact Hnn|]. split; [rewrite Hsum, Htot; reflexivity|].
      intros a Ha. destruct (Hnum a Ha) as (e & He & Ea).
      apply (gen_by_Qeq (mg_mult I) g (WalkEncRows.flow_of J e) a); [symmetry; exact Ea|].
      apply Hgen. apply in_map. exact He.
    - rewrite Hint. intros Hi. unfold g'. apply Forall_app. split; [exact (Hgint Hi)|].
      apply Forall_forall. intros v Hv. apply repeat_spec in Hv. subst v. exists 0%Z. reflexivity.
    - unfold parts_of. rewrite Hparts. constructor. }
  destruct (mgs_returns_minimum I status Hparts Hmult Hopt Hinf lb n extra tried m Hloop) as (_ & _ & Hmin).
  destruct (le_lt_dec m k) as [Hle|Hgt]; [exact Hle|exfalso].
  exact (Hmin k g' (conj (Nat.max_lub _ _ _ Hk1 Hlb) Hgt) Hlen' Hgs).
Qed.
