(* C19 — input validation of the exported graph / model classes.

   [input] abstracts exactly what the validators of /repo/flowpaths look at.  For each class X
     in_domain_X : input -> bool      the class's DOCUMENTED domain (what property C19 lists)
     validate_X  : input -> outcome   transcription of the code path constructor + solve(), checks
                                      in the order in which the code performs them.
   Nothing is proved here (see ValidateProofs.v).  The validators are hand-written summaries of
   the Python code; what ties them to the code is the malformed-stream correspondence
   (harness/engines/c19.py).  The model follows /repo/flowpaths at 65c87ad (003f186 and the repairs listed in ValidateOld.v,
   which keeps the model of the code before them). *)
From Coq Require Import List Bool ZArith QArith Arith.
Import ListNotations.
Local Close Scope Q_scope.
Local Open Scope bool_scope.

(* ------------------------------------------------------------------ outcomes *)
Inductive exn := EOverflow | ESolverAPI.
(* EOverflow / ESolverAPI: int(-inf) resp. the generic
   Exception("Failed to add columns") when every weighted element is ignored (DESIGN #24) *)
Inductive outcome :=
| Accept                 (* no exception at construction or in solve(); solved-or-not is the solver's business *)
| RaiseValueError
| RaiseOther (e : exn)
| AcceptsButUnsolved.    (* no exception, and the code path guarantees is_solved() = False *)

Definition step := option outcome.          (* None = this check passes *)
Definition guard (c : bool) (o : outcome) : step := if c then Some o else None.
Definition andthen (s : step) (rest : outcome) : outcome := match s with Some o => o | None => rest end.
Definition seq (s t : step) : step := match s with Some o => Some o | None => t end.
Notation "s ;; r" := (andthen s r) (at level 61, right associativity).
Notation "s ;> t" := (seq s t) (at level 61, right associativity).
Definition VE := RaiseValueError.

(* ------------------------------------------------------------------ abstract input *)
Inductive wt := WPos | WZero | WNeg | WMissing.
Record elem := { e_w : wt; e_ign : bool }.            (* weighted element: edge (edge mode) / node (node mode);
                                                         e_ign = it is named by the caller's elements_to_ignore *)
Inductive ktag := KInt (z : Z) | KNonInt (q : Q) | KBool (b : bool) | KNone | KStr.    (* python int / float / bool / None / str *)
Inductive wtype_tag := TInt | TFloat | TOther.
Inductive origin_tag := OEdge | ONode | OOther.
Inductive item_kind := IStr | IPair | ITriple | IInt. (* str / 2-tuple / 3-tuple / non-iterable *)
Record item := { it_kind : item_kind; it_in_graph : bool }.
Record constr := { c_is_list : bool; c_items : list item }.
Inductive pct := PNone | PInRange | POutOfRange.      (* not passed / in [0,100] / outside *)
Record input := {
  nodes_str : list bool;          (* per node: isinstance(node, str) *)
  n_edges : nat;
  acyclic : bool;                  (* no cycle through two or more nodes *)
  has_selfloop : bool;             (* some edge (v, v) *)
  ign_pct : pct; trust_pct : pct;  (* elements_to_ignore_percentile (kMinPathErrorCycles) / trusted_edges_for_safety_percentile (both cyclic error models) *)
  has_source : bool; has_sink : bool;          (* base graph has a node of in-degree / out-degree 0 *)
  origin : origin_tag; wtype : wtype_tag;
  elems : list elem;
  conserving : bool;               (* graphutils.check_flow_conservation on the caller's graph *)
  k : ktag;
  has_superset : bool;             (* solution_weights_superset is given (kFlowDecomp, kLeastAbsErrors, kMinPathError) *)
  cons : list constr;
  cov : Q;
  cov_len : option Q;              (* subpath_constraints_coverage_length (DAG models only) *)
  has_len_attr : bool;             (* length_attr is not None *)
  starts : list bool; ends : list bool;        (* additional starts / ends: membership in the graph *)
  ign : list item;                              (* raw elements_to_ignore *)
  search_enters : bool;            (* Min* classes: lower bound < number_of_edges(), i.e. the k-loop body runs *)
}.

(* ------------------------------------------------------------------ atoms *)
(* what networkx.is_directed_acyclic_graph decides: a self-loop is a cycle *)
Definition dag (i : input) := acyclic i && negb (has_selfloop i).
Definition pct_bad (p : pct) := match p with POutOfRange => true | _ => false end.
Definition pct_set (p : pct) := match p with PNone => false | _ => true end.
Definition all_str (i : input) := forallb (fun b => b) (nodes_str i).
Definition n_nodes (i : input) := length (nodes_str i).
Definition all_in (l : list bool) := forallb (fun b => b) l.
Definition is_nil {A} (l : list A) := match l with [] => true | _ => false end.

Definition kind_eqb (a b : item_kind) : bool :=
  match a, b with IStr, IStr | IPair, IPair | ITriple, ITriple | IInt, IInt => true | _, _ => false end.
Definition ign_ok_edge (i : input) := forallb (fun it => kind_eqb (it_kind it) IPair) (ign i).
Definition ign_ok_node (i : input) := forallb (fun it => kind_eqb (it_kind it) IStr) (ign i).
Definition ign_present (i : input) := forallb it_in_graph (ign i).

(* NodeExpandedDiGraph puts the node-edge of a node without the attribute into edges_to_ignore *)
Definition ignored (o : origin_tag) (e : elem) : bool :=
  e_ign e || match o, e_w e with ONode, WMissing => true | _, _ => false end.
Definition bad_w (w : wt) : bool := match w with WNeg | WMissing => true | _ => false end.
Definition missing_w (w : wt) : bool := match w with WMissing => true | _ => false end.
Definition bad_live (i : input) := existsb (fun e => negb (ignored (origin i) e) && bad_w (e_w e)) (elems i).
Definition missing_live (i : input) := existsb (fun e => negb (ignored (origin i) e) && missing_w (e_w e)) (elems i).
Definition all_ignored (i : input) := forallb (ignored (origin i)) (elems i).
Definition has_live (i : input) := existsb (fun e => negb (ignored (origin i) e)) (elems i).
(* list handed to the k-model as edges_to_ignore_internal is empty? *)
Definition ign_internal_empty (i : input) : bool :=
  match origin i with
  | ONode => Nat.eqb (n_edges i) 0 && negb (existsb (ignored ONode) (elems i)) && is_nil (ign i)
  | _ => is_nil (ign i)
  end.

Definition k_pos_int (i : input) := match k i with KInt z => Z.ltb 0 z | _ => false end.
Definition k_is_true (i : input) := match k i with KBool true => true | _ => false end.
Definition k_is_int (i : input) := match k i with KInt _ => true | _ => false end.
Definition k_le0 (i : input) := match k i with KInt z => Z.leb z 0 | KNonInt q => Qle_bool q 0 | KBool b => negb b | _ => false end.
Definition k_is_none (i : input) := match k i with KNone => true | _ => false end.
Definition cov_ok (i : input) := negb (Qle_bool (cov i) 0) && Qle_bool (cov i) 1.
Definition has_covlen (i : input) := match cov_len i with Some _ => true | None => false end.
Definition covlen_ok (i : input) := match cov_len i with Some l => negb (Qle_bool l 0) && Qle_bool l 1 | None => true end.
Definition cov_lt1 (i : input) := negb (Qle_bool 1 (cov i)).
Definition wtype_ok (i : input) := match wtype i with TOther => false | _ => true end.
Definition origin_ok (i : input) := match origin i with OOther => false | _ => true end.

(* ------------------------------------------------------------------ constraints *)
Definition item_good (kd : item_kind) (it : item) := kind_eqb (it_kind it) kd && it_in_graph it.
(* documented shape: a list of non-empty lists of edges of the graph (edge mode); in node mode a list of
   non-empty lists of nodes, or of edges, of the graph (NodeExpandedDiGraph.get_expanded_subpath_constraints) *)
Definition cons_wf_kind (kd : item_kind) (cs : list constr) :=
  forallb (fun c => c_is_list c && negb (is_nil (c_items c)) && forallb (item_good kd) (c_items c)) cs.
Definition cons_wf (i : input) :=
  match origin i with
  | ONode => cons_wf_kind IStr (cons i) || cons_wf_kind IPair (cons i)
  | _ => cons_wf_kind IPair (cons i)
  end.

(* AbstractPathModelDAG._check_valid_subpath_constraints / AbstractWalkModelDiGraph._check_valid_subset_constraints
   (abstractpathmodeldag.py:617, abstractwalkmodeldigraph.py:563) on the internal (edge) constraints *)
Fixpoint check_each (cs : list constr) : step :=
  match cs with
  | [] => None
  | c :: r =>
    guard (is_nil (c_items c)) VE ;>
    guard (negb (forallb (fun it => kind_eqb (it_kind it) IPair) (c_items c))) VE ;>
    guard (negb (forallb it_in_graph (c_items c))) VE ;>
    check_each r
  end.
Definition check_cons (cs : list constr) : step :=
  guard (negb (forallb c_is_list cs)) VE ;> check_each cs.

(* NodeExpandedDiGraph.get_expanded_subpath_constraints (nodeexpandeddigraph.py:253) *)
Fixpoint first_bad_edge_item (l : list item) : step :=       (* _get_expanded_subpath_constraints_edges: `edge not in G.edges` *)
  match l with
  | [] => None
  | it :: r =>
    match it_kind it with
    | IPair => if it_in_graph it then first_bad_edge_item r else Some VE
    | ITriple => Some VE                       (* EdgeView.__contains__: `u, v = e` -> ValueError (too many values) *)
    | IStr => Some VE                          (* unpacks or not, either way "not in the original graph" / ValueError *)
    | IInt => Some VE                          (* 003f186: the shape of the item is tested before `edge not in G.edges` *)
    end
  end.
Definition all_items (cs : list constr) := flat_map c_items cs.
Definition expand_cons (cs : list constr) : step :=
  guard (negb (forallb c_is_list cs)) VE ;>
  guard (existsb (fun c => is_nil (c_items c)) cs) VE ;>              (* "Every subpath constraint must have at least one element" *)
  match cs with
  | [] => None
  | c0 :: _ =>
    match c_items c0 with
    | [] => None                                                       (* excluded by the guard above *)
    | it0 :: _ =>
      match it_kind it0 with
      | IStr => guard (negb (forallb (item_good IStr) (all_items cs))) VE     (* `node not in original_G.nodes` *)
      | IPair | ITriple => first_bad_edge_item (all_items cs)
      | IInt => Some VE
      end
    end
  end.
(* after a successful expansion every constraint is a list of present edges; only emptiness survives *)
Definition good_item := {| it_kind := IPair; it_in_graph := true |}.
Definition expanded (cs : list constr) : list constr :=
  map (fun c => {| c_is_list := true; c_items := map (fun _ => good_item) (c_items c) |}) cs.
Definition internal_cons (i : input) := match origin i with ONode => expanded (cons i) | _ => cons i end.

(* ------------------------------------------------------------------ graph classes *)
(* AbstractSourceSinkGraph.__init__ (abstractsourcesinkgraph.py:41-61) *)
Definition v_ssg_common (i : input) (sts ens : list bool) : step :=
  guard (negb (all_str i)) VE ;>
  guard (negb (all_in sts)) VE ;>
  guard (negb (all_in ens)) VE ;> None.
(* stDAG._pre_build_validate *)
Definition v_stdag (i : input) (sts ens : list bool) : step :=
  v_ssg_common i sts ens ;> guard (negb (dag i)) VE.
(* stDiGraph._post_build (stdigraph.py:54-59) *)
Definition no_src (i : input) (sts : list bool) := negb (has_source i) && is_nil sts.
Definition no_snk (i : input) (ens : list bool) := negb (has_sink i) && is_nil ens.
Definition v_stdigraph (i : input) (sts ens : list bool) : step :=
  v_ssg_common i sts ens ;>
  guard (no_src i sts) VE ;>
  guard (no_snk i ens) VE ;> None.

Definition validate_stDAG (i : input) : outcome := v_stdag i (starts i) (ends i) ;; Accept.
Definition validate_stDiGraph (i : input) : outcome := v_stdigraph i (starts i) (ends i) ;; Accept.

(* NodeExpandedDiGraph.__init__ (nodeexpandeddigraph.py:95-181) *)
Definition v_nodeexp (i : input) (sts ens : list bool) (try_fill : bool) : step :=
  guard (Nat.eqb (n_nodes i) 0) VE ;>
  guard (negb (all_str i)) VE ;>
  guard (negb (is_nil sts && is_nil ens) && negb try_fill) VE ;>
  guard (negb (all_in sts)) VE ;>
  guard (negb (all_in ens)) VE ;> None.
Definition validate_NodeExpandedDiGraph (i : input) : outcome :=
  v_nodeexp i (starts i) (ends i) (negb (is_nil (starts i) && is_nil (ends i))) ;; Accept.

(* ------------------------------------------------------------------ shared fronts of the model classes *)
(* the `if flow_attr_origin == "node": ... elif "edge": ... else: raise` block.  [cons_first]: the constraints
   are expanded before / after the ignore list is looked at; [with_starts]: get_expanded_additional_starts/ends *)
Definition front_node (i : input) (sts ens : list bool) (try_fill : bool) (with_starts : bool) : step :=
  v_nodeexp i sts ens try_fill ;>
  expand_cons (cons i) ;>
  (if with_starts then guard (negb (all_in (starts i))) VE ;> guard (negb (all_in (ends i))) VE ;> None else None) ;>
  guard (negb (ign_ok_node i)) VE ;>
  guard (negb (ign_present i)) VE ;> None.
Definition front_edge (i : input) : step :=
  guard (Nat.eqb (n_edges i) 0) VE ;>
  guard (negb (ign_ok_edge i)) VE ;> None.
(* k-models and MinErrorFlow: NodeExpandedDiGraph(G, attr) without starts *)
Definition front (i : input) (with_starts : bool) : step :=
  match origin i with
  | ONode => front_node i [] [] false with_starts
  | OEdge => front_edge i
  | OOther => Some VE
  end.

(* get_max_flow_value_and_check_non_negative_flow + weight_type(...) (abstractsourcesinkgraph.py:108) *)
Definition v_maxflow (i : input) : step :=
  guard (bad_live i) VE ;>
  guard (all_ignored i) (RaiseOther (match wtype i with TInt => EOverflow | _ => ESolverAPI end)) ;> None.
(* AbstractPathModelDAG.__init__ (abstractpathmodeldag.py:161-181): k, constraints, coverage *)
Definition v_pathmodel (i : input) (k_bad : bool) : step :=
  guard k_bad VE ;>
  check_cons (internal_cons i) ;>
  guard (negb (cov_ok i)) VE ;>
  guard (negb (covlen_ok i)) VE ;>                 (* the range of the length-based coverage, with or without constraints *)
  (* only with constraints: its length attribute, and "not both" (abstractpathmodeldag.py:184-195) *)
  guard (negb (is_nil (cons i)) && has_covlen i && negb (has_len_attr i)) VE ;>
  guard (negb (is_nil (cons i)) && has_covlen i && cov_lt1 i) VE ;> None.
(* OLD BEHAVIOUR (before the repair of the coverage_length range check): the range test sat under `if len(subpath_constraints) > 0` *)
Definition old_v_pathmodel (i : input) (k_bad : bool) : step :=
  guard k_bad VE ;>
  check_cons (internal_cons i) ;>
  guard (negb (cov_ok i)) VE ;>
  guard (negb (is_nil (cons i)) && has_covlen i && negb (covlen_ok i)) VE ;>
  guard (negb (is_nil (cons i)) && has_covlen i && negb (has_len_attr i)) VE ;>
  guard (negb (is_nil (cons i)) && has_covlen i && cov_lt1 i) VE ;> None.
(* AbstractWalkModelDiGraph.__init__ (abstractwalkmodeldigraph.py:108-139): k, constraints, coverage *)
Definition v_walkmodel_k (i : input) (k_bad : bool) : step :=
  guard k_bad VE ;>
  check_cons (internal_cons i) ;>
  guard (negb (cov_ok i)) VE ;> None.
Definition k_bad (i : input) := negb (k_pos_int i).
(* `isinstance(k, bool) or not isinstance(k, numbers.Integral) or k <= 0`, preceded by `k is not None and` in the classes that
   document k=None as "use the width" (kMinPathError, kLeastAbsErrorsCycles, kMinPathErrorCycles) *)
Definition k_bad_gen (none_ok : bool) (i : input) := negb (k_pos_int i) && negb (none_ok && k_is_none i).
Definition k_dom (none_ok : bool) (i : input) := k_pos_int i || (none_ok && k_is_none i).
Definition v_walkmodel (i : input) : step := v_walkmodel_k i (k_bad i).

(* the additional starts / ends handed to stDAG / stDiGraph: in node mode they were expanded (and thereby
   checked for membership) by get_expanded_additional_starts / _ends before *)
Definition st_of (i : input) := match origin i with ONode => map (fun _ => true) (starts i) | _ => starts i end.
Definition en_of (i : input) := match origin i with ONode => map (fun _ => true) (ends i) | _ => ends i end.

(* ------------------------------------------------------------------ DAG models *)
(* kFlowDecomp.__init__ (kflowdecomp.py:123-259); [kb] = k is not a positive python int (MinFlowDecomp passes one).
   The constraints are validated before the greedy shortcut, which therefore cannot raise any more. *)
Definition kfd_core (i : input) (ign_empty : bool) (kb_own kb_base : bool) : outcome :=
  v_stdag i [] [] ;;
  guard (negb (wtype_ok i)) VE ;;
  guard (ign_empty && negb (conserving i)) VE ;;
  v_maxflow i ;;
  guard kb_own VE ;;
  check_cons (internal_cons i) ;;
  v_pathmodel i kb_base ;;
  Accept.
(* k and the given weights (29f2322).  Every k-model validates the caller's k itself, before and independently of
   solution_weights_superset: kFlowDecomp after the weight checks, all other k-models as the very first statement.  Afterwards
   `self.k = len(solution_weights_superset)` (resp. the width for k=None) and the base class validates THAT number, which is fine.
   OLD BEHAVIOUR (before 29f2322): kFlowDecomp's own test `k <= 0 or not isinstance(k, int)` let a bool through ([k_own_bad]);
   kLeastAbsErrors / kMinPathError had no test of their own, so with given weights nobody looked at the caller's k. *)
Definition k_own_bad (i : input) := k_bad i && negb (k_is_true i).
Definition k_base_bad (i : input) := negb (has_superset i) && k_bad i.
Definition k_base_bad_gen (none_ok : bool) (i : input) := negb (has_superset i) && k_bad_gen none_ok i.
Definition validate_kFlowDecomp (i : input) : outcome :=
  match origin i with
  | ONode => v_nodeexp i [] [] false ;; expand_cons (cons i) ;;
             guard (negb (ign_ok_node i)) VE ;; guard (negb (ign_present i)) VE ;;
             kfd_core i (ign_internal_empty i) (k_bad i) (k_base_bad i)
  | OEdge => front_edge i ;; kfd_core i (ign_internal_empty i) (k_bad i) (k_base_bad i)
  | OOther => VE
  end.
Definition old_validate_kFlowDecomp (i : input) : outcome :=
  match origin i with
  | ONode => v_nodeexp i [] [] false ;; expand_cons (cons i) ;;
             guard (negb (ign_ok_node i)) VE ;; guard (negb (ign_present i)) VE ;;
             kfd_core i (ign_internal_empty i) (k_own_bad i) (k_base_bad i)
  | OEdge => front_edge i ;; kfd_core i (ign_internal_empty i) (k_own_bad i) (k_base_bad i)
  | OOther => VE
  end.

(* MinFlowDecomp: constructor (minflowdecomp.py:138-207) validates little; solve() -> get_lowerbound_k ->
   stDAG(G), width ; the k-loop `range(lb, |E|+1)` constructs kFlowDecomp on the internal graph in edge mode *)
Definition mfd_solve (i : input) : outcome :=
  v_stdag i [] [] ;;
  guard (negb (search_enters i)) AcceptsButUnsolved ;;
  kfd_core i (ign_internal_empty i) false false.
Definition validate_MinFlowDecomp (i : input) : outcome :=
  match origin i with
  | ONode =>
    let extra := negb (is_nil (starts i) && is_nil (ends i)) in
    v_nodeexp i (starts i) (ends i) extra ;; expand_cons (cons i) ;;
    guard (negb (ign_ok_node i)) VE ;; guard (negb (ign_present i)) VE ;; mfd_solve i
  | OEdge =>
    guard (Nat.eqb (n_edges i) 0) VE ;;
    guard (negb (is_nil (starts i) && is_nil (ends i))) VE ;;
    guard (negb (ign_ok_edge i)) VE ;; mfd_solve i
  | OOther => VE
  end.

(* kMinPathError / kLeastAbsErrors (kminpatherror.py:167-305, kleastabserrors.py:142-275): identical order of the
   checks we model; k is validated first ([none_ok]: kMinPathError accepts k=None as "the width") *)
Definition validate_kErrDAG (none_ok : bool) (i : input) : outcome :=
  guard (k_bad_gen none_ok i) VE ;;
  front i true ;;
  v_stdag i (st_of i) (en_of i) ;;
  guard (negb (wtype_ok i)) VE ;;
  v_maxflow i ;;
  v_pathmodel i (k_base_bad_gen none_ok i) ;;
  Accept.
Definition validate_kMinPathError := validate_kErrDAG true.
Definition validate_kLeastAbsErrors := validate_kErrDAG false.
(* OLD BEHAVIOUR (before 29f2322): no test of their own *)
Definition old_validate_kErrDAG (i : input) : outcome :=
  front i true ;;
  v_stdag i (st_of i) (en_of i) ;;
  guard (negb (wtype_ok i)) VE ;;
  v_maxflow i ;;
  v_pathmodel i (k_base_bad i) ;;
  Accept.

(* front of MinPathCover / MinPathCoverCycles: constraints, ignore list, then the additional starts/ends *)
Definition front_cover (i : input) : step :=
  match origin i with
  | ONode =>
    v_nodeexp i [] [] false ;> expand_cons (cons i) ;>
    guard (negb (ign_ok_node i)) VE ;> guard (negb (ign_present i)) VE ;>
    guard (negb (all_in (starts i))) VE ;> guard (negb (all_in (ends i))) VE
  | OEdge => front_edge i
  | OOther => Some VE
  end.

(* kPathCover (kpathcover.py:98-171); node mode: dummy node attribute, NodeExpandedDiGraph, constraints, ignore
   list, then the additional starts/ends — the same order as MinPathCover's constructor *)
Definition validate_kPathCover (i : input) : outcome :=
  guard (k_bad i) VE ;;
  front_cover i ;;
  v_stdag i (st_of i) (en_of i) ;;
  v_pathmodel i (k_bad i) ;;
  Accept.

Definition old_validate_kPathCover (i : input) : outcome :=
  front_cover i ;; v_stdag i (st_of i) (en_of i) ;; old_v_pathmodel i (k_bad i) ;; Accept.

(* MinPathCover (minpathcover.py:96-199): stDAG in the constructor; solve() builds kPathCover(G_input, cover_type, the
   caller's constraints / ignore list / starts / ends) for k = lower bound, ... |E| *)
Definition validate_MinPathCover (i : input) : outcome :=
  front_cover i ;;
  v_stdag i (st_of i) (en_of i) ;;
  guard (negb (search_enters i)) AcceptsButUnsolved ;;
  v_pathmodel i false ;;
  Accept.

(* MinErrorFlow (minerrorflow.py:94-198, _encode_flow:244-256) *)
Definition validate_MinErrorFlow (i : input) : outcome :=
  match origin i with
  | ONode =>
    v_nodeexp i [] [] false ;>
    guard (negb (all_in (starts i))) VE ;> guard (negb (all_in (ends i))) VE ;>
    guard (negb (ign_ok_node i)) VE ;> guard (negb (ign_present i)) VE
  | OEdge => front_edge i
  | OOther => Some VE
  end ;;
  (if dag i
   then v_stdag i (st_of i) (en_of i)
   else guard (negb (all_str i)) VE) ;;                        (* 10a634a: the cyclic branch tests the node names itself *)
  guard (negb (wtype_ok i)) VE ;;
  guard (missing_live i) VE ;;
  Accept.

(* ------------------------------------------------------------------ cyclic models *)
(* kFlowDecompCycles (kflowdecompcycles.py:101-199) *)
Definition kfdc_core (i : input) (sts ens : list bool) (ign_empty : bool) (kb : bool) : outcome :=
  v_stdigraph i sts ens ;;
  guard (negb (wtype_ok i)) VE ;;
  v_maxflow i ;;
  v_walkmodel_k i kb ;;
  guard (ign_empty && negb (conserving i)) AcceptsButUnsolved ;;     (* exact decomposition of a non-flow is infeasible (OPEN) *)
  Accept.
Definition validate_kFlowDecompCycles (i : input) : outcome :=
  guard (k_bad i) VE ;; front i true ;; kfdc_core i (st_of i) (en_of i) (ign_internal_empty i) (k_bad i).

(* kLeastAbsErrorsCycles (kleastabserrorscycles.py:127-250).  trusted_edges_for_safety_percentile is handed to numpy.percentile
   (ValueError outside [0,100]) when at least one edge carries the attribute.  The elements a percentile ignores / trusts are
   decided by the abstraction: [e_ign] already contains the percentile-ignored edges. *)
Definition some_weight (i : input) := existsb (fun e => negb (missing_w (e_w e))) (elems i).
Definition validate_kLeastAbsErrorsCycles (i : input) : outcome :=
  guard (k_bad_gen true i) VE ;;
  front i true ;;
  v_stdigraph i (st_of i) (en_of i) ;;
  guard (pct_bad (trust_pct i) && some_weight i) VE ;;
  guard (negb (wtype_ok i)) VE ;;
  v_maxflow i ;;
  v_walkmodel_k i (k_bad_gen true i) ;;
  Accept.
(* kMinPathErrorCycles (kminpatherrorcycles.py:131-277): elements_to_ignore_percentile is range-checked and excludes
   elements_to_ignore; trusted_edges_for_safety_percentile is range-checked after the weights *)
Definition validate_kMinPathErrorCycles (i : input) : outcome :=
  guard (k_bad_gen true i) VE ;;
  front i true ;;
  v_stdigraph i (st_of i) (en_of i) ;;
  guard (pct_bad (ign_pct i)) VE ;;
  guard (pct_set (ign_pct i) && negb (is_nil (ign i))) VE ;;
  guard (negb (wtype_ok i)) VE ;;
  v_maxflow i ;;
  guard (pct_bad (trust_pct i)) VE ;;
  v_walkmodel_k i (k_bad_gen true i) ;;
  Accept.

(* kPathCoverCycles (kpathcovercycles.py:83-155) *)
Definition validate_kPathCoverCycles (i : input) : outcome :=
  guard (k_bad i) VE ;;
  front i true ;;
  v_stdigraph i (st_of i) (en_of i) ;;
  v_walkmodel i ;;
  Accept.

(* MinPathCoverCycles (minpathcovercycles.py:80-190): nothing but the front in the constructor; solve() ->
   get_lowerbound_k -> stDiGraph(G, additional starts/ends) (65c87ad); then kPathCoverCycles(G_input, cover_type, k >= 1) *)
Definition validate_MinPathCoverCycles (i : input) : outcome :=
  front_cover i ;;
  v_stdigraph i (st_of i) (en_of i) ;;
  guard (negb (search_enters i)) AcceptsButUnsolved ;;
  v_walkmodel_k i false ;;
  Accept.

(* MinFlowDecompCycles (minflowdecompcycles.py:107-265) *)
Definition no_usable (i : input) := forallb (fun e => e_ign e || missing_w (e_w e)) (elems i).
Definition validate_MinFlowDecompCycles (i : input) : outcome :=
  match origin i with
  | ONode =>
    (* NodeExpandedDiGraph(G, attr, additional_starts=..., additional_ends=...) WITHOUT try_filling_in_missing_flow_attr (OPEN) *)
    v_nodeexp i (starts i) (ends i) false ;> expand_cons (cons i) ;>
    guard (negb (ign_ok_node i)) VE ;> guard (negb (ign_present i)) VE
  | OEdge =>
    guard (Nat.eqb (n_edges i) 0) VE ;>
    guard (negb (is_nil (starts i) && is_nil (ends i))) VE ;>
    guard (negb (ign_ok_edge i)) VE
  | OOther => Some VE
  end ;;
  guard (no_usable i) VE ;;                                (* max() of an empty sequence: a ValueError by accident *)
  v_stdigraph i (st_of i) (en_of i) ;;                     (* solve(): get_lowerbound_k: stDiGraph(self.G, starts, ends) *)
  guard (negb (search_enters i)) AcceptsButUnsolved ;;
  (* kFlowDecompCycles(G_internal, k = i >= 1, edge mode) *)
  guard (negb (wtype_ok i)) VE ;;
  v_maxflow i ;;
  v_walkmodel_k i false ;;
  guard (ign_internal_empty i && negb (conserving i)) AcceptsButUnsolved ;;
  Accept.

(* ------------------------------------------------------------------ documented domains *)
Definition dom_graph_dag (i : input) := all_str i && dag i.
Definition dom_graph_cyc (i : input) (sts ens : list bool) :=
  all_str i && (has_source i || negb (is_nil sts)) && (has_sink i || negb (is_nil ens)).
Definition dom_size (i : input) :=
  match origin i with ONode => negb (Nat.eqb (n_nodes i) 0) | _ => negb (Nat.eqb (n_edges i) 0) end.
Definition dom_ign (i : input) :=
  match origin i with ONode => ign_ok_node i && ign_present i | _ => ign_ok_edge i end.
Definition dom_starts (i : input) := all_in (starts i) && all_in (ends i).
Definition dom_weights (i : input) := wtype_ok i && negb (bad_live i).
Definition dom_cons (i : input) := cons_wf i && cov_ok i.
(* DAG models: subpath_constraints_coverage_length, if set, lies in (0,1]; with constraints it needs length_attr and excludes a
   coverage below 1 *)
Definition dom_covlen (i : input) :=
  covlen_ok i && (is_nil (cons i) || negb (has_covlen i) || (has_len_attr i && negb (cov_lt1 i))).
Definition dom_flow (i : input) := conserving i || negb (ign_internal_empty i).

Definition in_domain_stDAG (i : input) := dom_graph_dag i && dom_starts i.
Definition in_domain_stDiGraph (i : input) := dom_graph_cyc i (starts i) (ends i) && dom_starts i.
Definition in_domain_NodeExpandedDiGraph (i : input) :=
  negb (Nat.eqb (n_nodes i) 0) && all_str i && dom_starts i.

Definition in_domain_kFlowDecomp (i : input) :=
  origin_ok i && dom_size i && dom_graph_dag i && dom_ign i && dom_weights i && dom_flow i && k_pos_int i && dom_cons i && dom_covlen i.
Definition in_domain_MinFlowDecomp (i : input) :=
  origin_ok i && dom_size i && dom_graph_dag i && dom_ign i && dom_weights i && dom_flow i && dom_cons i && dom_covlen i && dom_starts i &&
  match origin i with ONode => true | _ => is_nil (starts i) && is_nil (ends i) end.   (* documented: node mode only *)
Definition in_domain_kErrDAG (none_ok : bool) (i : input) :=
  origin_ok i && dom_size i && dom_graph_dag i && dom_ign i && dom_weights i && k_dom none_ok i && dom_cons i && dom_covlen i && dom_starts i.
Definition in_domain_kMinPathError := in_domain_kErrDAG true.
Definition in_domain_kLeastAbsErrors := in_domain_kErrDAG false.
Definition in_domain_kPathCover (i : input) :=
  origin_ok i && dom_size i && dom_graph_dag i && dom_ign i && k_pos_int i && dom_cons i && dom_covlen i && dom_starts i.
Definition in_domain_MinPathCover (i : input) :=
  origin_ok i && dom_size i && dom_graph_dag i && dom_ign i && dom_cons i && dom_covlen i && dom_starts i.
(* MinErrorFlow: arbitrary (also negative) weights are corrected; additional starts/ends "apply only to acyclic graphs" *)
Definition in_domain_MinErrorFlow (i : input) :=
  origin_ok i && dom_size i && all_str i && dom_ign i && wtype_ok i && negb (missing_live i) &&
  (negb (dag i) || dom_starts i) && match origin i with ONode => dom_starts i | _ => true end.

Definition in_domain_kFlowDecompCycles (i : input) :=
  origin_ok i && dom_size i && dom_graph_cyc i (starts i) (ends i) && dom_ign i && dom_weights i && dom_flow i &&
  k_pos_int i && dom_cons i && dom_starts i.
Definition in_domain_MinFlowDecompCycles (i : input) :=
  origin_ok i && dom_size i && dom_graph_cyc i (starts i) (ends i) && dom_ign i && dom_weights i && dom_flow i &&
  dom_cons i && dom_starts i &&
  match origin i with ONode => true | _ => is_nil (starts i) && is_nil (ends i) end.
Definition in_domain_kErrCycles (i : input) :=
  origin_ok i && dom_size i && dom_graph_cyc i (starts i) (ends i) && dom_ign i && dom_weights i &&
  k_dom true i && dom_cons i && dom_starts i.
Definition in_domain_kLeastAbsErrorsCycles (i : input) := in_domain_kErrCycles i && negb (pct_bad (trust_pct i)).
Definition in_domain_kMinPathErrorCycles (i : input) :=
  in_domain_kErrCycles i && negb (pct_bad (trust_pct i)) && negb (pct_bad (ign_pct i)) &&
  (negb (pct_set (ign_pct i)) || is_nil (ign i)).
Definition in_domain_kPathCoverCycles (i : input) :=
  origin_ok i && dom_size i && dom_graph_cyc i (starts i) (ends i) && dom_ign i && k_pos_int i && dom_cons i && dom_starts i.
Definition in_domain_MinPathCoverCycles (i : input) :=
  origin_ok i && dom_size i && dom_graph_cyc i (starts i) (ends i) && dom_ign i && dom_cons i && dom_starts i.

(* ------------------------------------------------------------------ dispatcher used by the driver *)
Inductive cls := CstDAG | CstDiGraph | CNodeExpandedDiGraph | CkFlowDecomp | CMinFlowDecomp | CkMinPathError
  | CkLeastAbsErrors | CkPathCover | CMinPathCover | CkFlowDecompCycles | CMinFlowDecompCycles | CkMinPathErrorCycles
  | CkLeastAbsErrorsCycles | CkPathCoverCycles | CMinPathCoverCycles | CMinErrorFlow.
Definition validate (c : cls) : input -> outcome :=
  match c with
  | CstDAG => validate_stDAG | CstDiGraph => validate_stDiGraph | CNodeExpandedDiGraph => validate_NodeExpandedDiGraph
  | CkFlowDecomp => validate_kFlowDecomp | CMinFlowDecomp => validate_MinFlowDecomp
  | CkMinPathError => validate_kMinPathError | CkLeastAbsErrors => validate_kLeastAbsErrors
  | CkPathCover => validate_kPathCover | CMinPathCover => validate_MinPathCover
  | CkFlowDecompCycles => validate_kFlowDecompCycles | CMinFlowDecompCycles => validate_MinFlowDecompCycles
  | CkMinPathErrorCycles => validate_kMinPathErrorCycles | CkLeastAbsErrorsCycles => validate_kLeastAbsErrorsCycles
  | CkPathCoverCycles => validate_kPathCoverCycles | CMinPathCoverCycles => validate_MinPathCoverCycles
  | CMinErrorFlow => validate_MinErrorFlow
  end.
Definition in_domain (c : cls) : input -> bool :=
  match c with
  | CstDAG => in_domain_stDAG | CstDiGraph => in_domain_stDiGraph | CNodeExpandedDiGraph => in_domain_NodeExpandedDiGraph
  | CkFlowDecomp => in_domain_kFlowDecomp | CMinFlowDecomp => in_domain_MinFlowDecomp
  | CkMinPathError => in_domain_kMinPathError | CkLeastAbsErrors => in_domain_kLeastAbsErrors
  | CkPathCover => in_domain_kPathCover | CMinPathCover => in_domain_MinPathCover
  | CkFlowDecompCycles => in_domain_kFlowDecompCycles | CMinFlowDecompCycles => in_domain_MinFlowDecompCycles
  | CkMinPathErrorCycles => in_domain_kMinPathErrorCycles | CkLeastAbsErrorsCycles => in_domain_kLeastAbsErrorsCycles
  | CkPathCoverCycles => in_domain_kPathCoverCycles | CMinPathCoverCycles => in_domain_MinPathCoverCycles
  | CMinErrorFlow => in_domain_MinErrorFlow
  end.
