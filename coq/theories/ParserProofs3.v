(* C20 — one block: round trip of read_graph on every well-formed block description, the shape of the
   resulting graph, and the rejection theorems (bad / missing count, malformed edge line, non-numeric
   weight, constraint edge absent). *)
From Coq Require Import List NArith ZArith Bool Arith Lia.
Import ListNotations.
From FP Require Import Parser ParserProofs1 ParserProofs2.
Set Default Timeout 30.
Open Scope N_scope.

(* ================================================================ block descriptions *)
Record bdesc := {
  b_items : list hitem;          (* header text lines and '#S' lines, in any order *)
  b_blanks : list str;           (* white-space-only lines before the count line *)
  b_clead : str; b_ctok : str; b_ctrail : str;     (* the vertex-count line:  lead token trail *)
  b_n : Z;                       (* the value int() gives to the token *)
  b_body : list bitem }.         (* edge lines and skipped lines *)

Definition count_line (b : bdesc) : str := b_clead b ++ b_ctok b ++ b_ctrail b.
Definition render_block (b : bdesc) : list str :=
  map render_hitem (b_items b) ++ b_blanks b ++ count_line b :: map render_bitem (b_body b).

Definition graph_of (L : list wedge) : ginfo :=
  let g := add_all L ([], []) in
  {| gi_nodes := fst g; gi_edges := snd g; gi_n := length (fst g); gi_m := length (snd g); gi_w := width (fst g) (snd g) |}.

Definition has_src (L : list wedge) : Prop := exists x, endpoint x L /\ forall e, In e L -> snd (fst e) <> x.
Definition has_snk (L : list wedge) : Prop := exists x, endpoint x L /\ forall e, In e L -> fst (fst e) <> x.
Definition cons_in (cs : list (list (str * str))) (L : list wedge) : Prop :=
  forall c, In c cs -> forall p, In p c -> In p (map fst L).

(* text = non-empty, no white space at either end, not starting with '#' *)
Definition count_text (t : str) : Prop := t <> [] /\ trimmed t /\ nohash t.
Definition wf_head (b : bdesc) : Prop :=
  Forall wf_hitem (b_items b) /\ Forall all_ws (b_blanks b) /\ all_ws (b_clead b) /\ all_ws (b_ctrail b) /\ count_text (b_ctok b).
(* a line the edge loop (and the zero-vertex validation) passes over: blank, or - for read_graph on its own - a '#' line *)
Definition skipped (cm : bool) (l : str) : Prop := is_blank l = true \/ (cm = true /\ is_hdr l = true).
(* a zero-vertex block has no constraint and nothing but skipped lines after the count *)
Definition wf_block (cm : bool) (b : bdesc) : Prop :=
  wf_head b /\ parse_int (b_ctok b) = IOk (b_n b) /\
  ((b_n b = 0%Z /\ spec_cons (b_items b) = [] /\ Forall (skipped cm) (map render_bitem (b_body b))) \/
   (b_n b <> 0%Z /\ Forall (wf_bitem cm) (b_body b) /\ cons_in (spec_cons (b_items b)) (listed (b_body b)) /\
    has_src (listed (b_body b)) /\ has_snk (listed (b_body b)))).

Definition denote (b : bdesc) : graph :=
  {| gid := hd_error (hdr_texts (b_items b));
     gcons := spec_cons (b_items b);
     ginf := if (b_n b =? 0)%Z then None else Some (graph_of (listed (b_body b))) |}.

(* ================================================================ the part of read_graph after the count line *)
Definition finish (hdrs : list str) (cstr : list (list (str * str))) (body : list str) (n : Z) : res graph :=
  if (n =? 0)%Z then zero_block (hd_error hdrs) cstr body
  else match read_edges body ([], []) with
       | Error e => Error e
       | Unmodelled => Unmodelled
       | Ok (ns, es) =>
           if forallb (fun c => forallb (has_edge es) c) cstr then
             if has_source ns es then
               if has_sink ns es then
                 Ok {| gid := hd_error hdrs; gcons := cstr;
                       ginf := Some {| gi_nodes := ns; gi_edges := es; gi_n := length ns; gi_m := length es;
                                       gi_w := width ns es |} |}
               else Error ENoSink
             else Error ENoSource
           else Error EMissingConstraintEdge
       end.

Lemma count_text_first t : count_text t -> exists c r, t = c :: r /\ is_ws c = false /\ c <> c_hash.
Proof.
  intros (Hne & Ht & Hh). destruct t as [|c r]; [congruence|]. exists c, r. split; [reflexivity|]. split; [|exact Hh].
  destruct Ht as [E|[H _]]; [discriminate|exact H].
Qed.
Lemma count_line_not_hdr lead t trail : all_ws lead -> count_text t -> is_hdr (lead ++ t ++ trail) = false.
Proof.
  intros Hl Ht. destruct (count_text_first t Ht) as (c & r & -> & Hc & Hh). unfold is_hdr.
  rewrite lstrip_ws_app by assumption. cbn [app]. rewrite lstrip_nonws by assumption. cbn [starts_with].
  destruct (N.eqb_spec c_hash c); [congruence|reflexivity].
Qed.
Lemma count_line_not_blank lead t trail : all_ws lead -> count_text t -> is_blank (lead ++ t ++ trail) = false.
Proof.
  intros Hl Ht. destruct (count_text_first t Ht) as (c & r & -> & Hc & Hh). rewrite is_blank_lstrip.
  rewrite lstrip_ws_app by assumption. cbn [app]. rewrite lstrip_nonws by assumption. reflexivity.
Qed.

Lemma read_graph_head items blanks lead t trail body :
  Forall wf_hitem items -> Forall all_ws blanks -> all_ws lead -> all_ws trail -> count_text t ->
  read_graph (map render_hitem items ++ blanks ++ (lead ++ t ++ trail) :: body) =
  match parse_int t with
  | IBad => Error EBadCount
  | IUnm => Unmodelled
  | IOk n => finish (hdr_texts items) (spec_cons items) body n
  end.
Proof.
  intros Hi Hb Hl Ht Hc. unfold read_graph.
  rewrite scan_items; [|assumption|].
  2:{ destruct blanks as [|bl0 bls]; cbn [app stops].
      - apply count_line_not_hdr; assumption.
      - inversion Hb; subst. apply is_hdr_blank. apply is_blank_all_ws. assumption. }
  rewrite skip_blank_app by assumption. cbn [skip_blank]. rewrite count_line_not_blank by assumption.
  rewrite strip_pad by (try assumption; apply Hc). cbn [app]. reflexivity.
Qed.

(* ================================================================ round trip for one block *)
Lemma cons_in_forallb cs L : cons_in cs L ->
  forallb (fun c => forallb (has_edge (snd (add_all L (@nil str, @nil wedge)))) c) cs = true.
Proof.
  intros H. apply forallb_forall. intros c Hc. apply forallb_forall. intros [a b] Hp.
  apply has_edge_In. apply add_all_keys. right. exact (H c Hc (a, b) Hp).
Qed.

Lemma src_ok L : has_src L -> has_source (fst (add_all L ([], []))) (snd (add_all L ([], []))) = true.
Proof.
  intros (x & Hx & Hno). apply has_source_spec. exists x. split.
  - apply add_all_nodes. right. assumption.
  - intros t Ht E. assert (Hk : In (fst t) (map fst (snd (add_all L ([], []))))) by (apply in_map; assumption).
    apply add_all_keys in Hk. destruct Hk as [[]|Hk]. apply in_map_iff in Hk. destruct Hk as (e & Ee & He).
    apply (Hno e He). rewrite Ee. exact E.
Qed.
Lemma snk_ok L : has_snk L -> has_sink (fst (add_all L ([], []))) (snd (add_all L ([], []))) = true.
Proof.
  intros (x & Hx & Hno). apply has_sink_spec. exists x. split.
  - apply add_all_nodes. right. assumption.
  - intros t Ht E. assert (Hk : In (fst t) (map fst (snd (add_all L ([], []))))) by (apply in_map; assumption).
    apply add_all_keys in Hk. destruct Hk as [[]|Hk]. apply in_map_iff in Hk. destruct Hk as (e & Ee & He).
    apply (Hno e He). rewrite Ee. exact E.
Qed.

Lemma skipped_forallb cm body : Forall (skipped cm) body -> forallb skipped_line body = true.
Proof.
  intros H. apply forallb_forall. apply Forall_forall. eapply Forall_impl; [|exact H].
  intros l [Hl|[_ Hl]]; unfold skipped_line; rewrite Hl; [reflexivity|apply orb_true_r].
Qed.

Theorem read_render_block cm b : wf_block cm b -> read_graph (render_block b) = Ok (denote b).
Proof.
  intros ((Hi & Hb & Hl & Ht & Hc) & Hp & Hrest). unfold render_block, count_line.
  rewrite read_graph_head by assumption. rewrite Hp. unfold finish, denote.
  destruct Hrest as [(E & Hc0 & Hsk)|(Hnz & Hbody & Hcons & Hsrc & Hsnk)].
  { rewrite E. cbn [Z.eqb]. unfold zero_block. rewrite Hc0. rewrite (skipped_forallb cm) by assumption. reflexivity. }
  destruct (b_n b =? 0)%Z eqn:Z0; [apply Z.eqb_eq in Z0; contradiction|].
  rewrite <- (app_nil_r (map render_bitem (b_body b))). rewrite (read_edges_body cm) by assumption. cbn [read_edges].
  pose proof (cons_in_forallb _ _ Hcons) as F.
  pose proof (src_ok _ Hsrc) as S1. pose proof (snk_ok _ Hsnk) as S2.
  unfold graph_of. revert F S1 S2. destruct (add_all (listed (b_body b)) ([], [])) as [ns es]. cbn [fst snd].
  intros F S1 S2. rewrite F, S1, S2. reflexivity.
Qed.

(* ================================================================ what the result says about the listing *)
(* nodes: exactly the endpoints, no repetition; edges: one entry per listed pair, the last listing decides
   the weight; n and m are their numbers; without repeated pairs the edge list is the listing itself *)
Theorem graph_of_spec L :
  let G := graph_of L in
  NoDup (gi_nodes G) /\ (forall x, In x (gi_nodes G) <-> endpoint x L) /\
  NoDup (map fst (gi_edges G)) /\ (forall p, In p (map fst (gi_edges G)) <-> In p (map fst L)) /\
  (forall L1 u v w L2, L = L1 ++ (u, v, w) :: L2 -> ~ In (u, v) (map fst L2) -> In (u, v, w) (gi_edges G)) /\
  gi_n G = length (gi_nodes G) /\ gi_m G = length (gi_edges G) /\
  (NoDup (map fst L) -> gi_edges G = L).
Proof.
  unfold graph_of. cbn [gi_nodes gi_edges gi_n gi_m]. repeat split.
  - apply add_all_nodes_NoDup. constructor.
  - intros H. apply add_all_nodes in H. destruct H as [[]|H]. exact H.
  - intros H. apply add_all_nodes. right. exact H.
  - apply add_all_keys_NoDup. constructor.
  - intros H. apply add_all_keys in H. destruct H as [[]|H]. exact H.
  - intros H. apply add_all_keys. right. exact H.
  - intros L1 u v w L2 -> Hn. apply add_all_last; [assumption|constructor].
  - intros H. rewrite add_all_nodup_edges; [reflexivity|exact H].
Qed.

(* one constraint per distinct '#S' node sequence *)
Lemma dedup_acc_In seen l t : In t (dedup_acc seen l) <-> In t l /\ ~ In t seen.
Proof.
  revert seen. induction l as [|a l IH]; intros seen; cbn [dedup_acc In]; [tauto|].
  destruct (mem_toks a seen) eqn:M.
  - apply mem_toks_In in M. rewrite IH. split; [intros [H1 H2]; tauto|intros [[<-|H1] H2]; [contradiction|tauto]].
  - assert (Hn : ~ In a seen) by (intros Hi; apply mem_toks_In in Hi; congruence).
    cbn [In]. rewrite IH. cbn [In]. split.
    + intros [<-|[H1 H2]]; [tauto|]. split; [tauto|]. intros H3. apply H2. right. assumption.
    + intros [[<-|H1] H2]; [left; reflexivity|].
      destruct (list_eq_dec (list_eq_dec N.eq_dec) a t) as [E|E]; [left; assumption|right]. split; [assumption|].
      intros [H3|H3]; [contradiction|contradiction].
Qed.
Lemma dedup_acc_NoDup seen l : NoDup (dedup_acc seen l).
Proof.
  revert seen. induction l as [|a l IH]; intros seen; cbn [dedup_acc]; [constructor|].
  destruct (mem_toks a seen); [apply IH|]. constructor; [|apply IH].
  rewrite dedup_acc_In. intros [_ H]. apply H. left. reflexivity.
Qed.
Theorem spec_cons_spec items :
  exists seqs, spec_cons items = map pairs_of seqs /\ NoDup seqs /\
               forall t, In t seqs <-> In t (cons_toks items) /\ (2 <= length t)%nat.
Proof.
  exists (filter len2 (dedup_acc [] (cons_toks items))). split; [reflexivity|]. split.
  - apply NoDup_filter. apply dedup_acc_NoDup.
  - intros t. rewrite filter_In, dedup_acc_In. cbn [In].
    assert (L : len2 t = true <-> (2 <= length t)%nat).
    { destruct t as [|a [|b r]]; cbn [len2 length]; split; intros H; try discriminate; try lia; reflexivity. }
    rewrite L. tauto.
Qed.

(* ================================================================ rejection (one block) *)
Theorem bad_count_rejected items blanks lead t trail body :
  Forall wf_hitem items -> Forall all_ws blanks -> all_ws lead -> all_ws trail -> count_text t ->
  parse_int t = IBad ->
  read_graph (map render_hitem items ++ blanks ++ (lead ++ t ++ trail) :: body) = Error EBadCount.
Proof. intros Hi Hb Hl Ht Hc Hp. rewrite read_graph_head by assumption. rewrite Hp. reflexivity. Qed.

Theorem missing_count_rejected items blanks :
  Forall wf_hitem items -> Forall all_ws blanks ->
  read_graph (map render_hitem items ++ blanks) = Error EMissingCount.
Proof.
  intros Hi Hb. unfold read_graph. rewrite scan_items; [|assumption|].
  2:{ destruct blanks as [|bl0 bls]; cbn [stops]; [exact I|]. inversion Hb; subst. apply is_hdr_blank. apply is_blank_all_ws. assumption. }
  rewrite <- (app_nil_r blanks). rewrite skip_blank_app by assumption. reflexivity.
Qed.

Definition bad_edge_line (l : str) : Prop := is_blank l = false /\ is_hdr l = false /\ length (split_ws l []) <> 3%nat.
Definition bad_weight_line (l : str) : Prop :=
  exists lead u gu v gv w gw, l = lead ++ glue [(u, gu); (v, gv); (w, gw)] /\ all_ws lead /\
    wf_cells [(u, gu); (v, gv); (w, gw)] /\ nohash u /\ parse_float w = FBad.

Lemma read_edges_bad_edge l r g : bad_edge_line l -> read_edges (l :: r) g = Error EBadEdge.
Proof.
  intros (Hb & Hh & Hl). cbn [read_edges]. rewrite Hb, Hh. cbn [orb].
  destruct (split_ws l []) as [|a [|b [|c [|d q]]]]; try reflexivity. cbn [length] in Hl. congruence.
Qed.
Lemma read_edges_bad_weight l r g : bad_weight_line l -> read_edges (l :: r) g = Error EBadWeight.
Proof.
  intros (lead & u & gu & v & gv & w & gw & -> & Hl & Hc & Hn & Hp). cbn [read_edges].
  pose proof Hc as Hc'. cbn [wf_cells] in Hc'. destruct Hc' as (Hu & _).
  cbn [glue]. rewrite is_blank_lead_token, is_hdr_lead_token by assumption. cbn [orb].
  change (u ++ gu ++ v ++ gv ++ w ++ gw ++ []) with (glue [(u, gu); (v, gv); (w, gw)]).
  rewrite split_ws_lead by assumption. rewrite split_glue by assumption. cbn [map fst]. rewrite Hp. reflexivity.
Qed.

(* a non-zero count, well-formed lines before the damaged one, anything after it *)
Theorem bad_line_rejected cm b pre l post e :
  wf_head b -> parse_int (b_ctok b) = IOk (b_n b) -> b_n b <> 0%Z ->
  Forall (wf_bitem cm) pre ->
  (bad_edge_line l /\ e = EBadEdge) \/ (bad_weight_line l /\ e = EBadWeight) ->
  read_graph (map render_hitem (b_items b) ++ b_blanks b ++ count_line b :: (map render_bitem pre ++ l :: post)) = Error e.
Proof.
  intros (Hi & Hb & Hl & Ht & Hc) Hp Hz Hpre Hbad. unfold count_line.
  rewrite read_graph_head by assumption. rewrite Hp. unfold finish.
  destruct (b_n b =? 0)%Z eqn:Z0; [apply Z.eqb_eq in Z0; contradiction|].
  rewrite (read_edges_body cm) by assumption.
  destruct Hbad as [[H ->]|[H ->]]; [rewrite read_edges_bad_edge by assumption|rewrite read_edges_bad_weight by assumption]; reflexivity.
Qed.

Theorem missing_constraint_edge_rejected cm b :
  wf_head b -> parse_int (b_ctok b) = IOk (b_n b) -> b_n b <> 0%Z ->
  Forall (wf_bitem cm) (b_body b) ->
  (exists c p, In c (spec_cons (b_items b)) /\ In p c /\ ~ In p (map fst (listed (b_body b)))) ->
  read_graph (render_block b) = Error EMissingConstraintEdge.
Proof.
  intros (Hi & Hb & Hl & Ht & Hc) Hp Hz Hbody (c & p & Hc1 & Hc2 & Hc3). unfold render_block, count_line.
  rewrite read_graph_head by assumption. rewrite Hp. unfold finish.
  destruct (b_n b =? 0)%Z eqn:Z0; [apply Z.eqb_eq in Z0; contradiction|].
  rewrite <- (app_nil_r (map render_bitem (b_body b))). rewrite (read_edges_body cm) by assumption. cbn [read_edges].
  destruct (add_all (listed (b_body b)) ([], [])) as [ns es] eqn:G.
  destruct (forallb (fun c0 => forallb (has_edge es) c0) (spec_cons (b_items b))) eqn:F; [|reflexivity].
  exfalso. rewrite forallb_forall in F. specialize (F c Hc1). rewrite forallb_forall in F. specialize (F p Hc2).
  destruct p as [a0 b0]. apply has_edge_In in F.
  assert (F' : In (a0, b0) (map fst (snd (add_all (listed (b_body b)) (@nil str, @nil wedge))))) by (rewrite G; exact F).
  apply add_all_keys in F'. destruct F' as [[]|F']. contradiction.
Qed.

(* ================================================================ rejection in blocks that declare 0 vertices (fc0735f) *)
Definition unskipped (l : str) : Prop := is_blank l = false /\ is_hdr l = false.
Lemma bad_edge_unskipped l : bad_edge_line l -> unskipped l.
Proof. intros (H1 & H2 & _). split; assumption. Qed.
Lemma bad_weight_unskipped l : bad_weight_line l -> unskipped l.
Proof.
  intros (lead & u & gu & v & gv & w & gw & -> & Hl & Hc & Hn & _). cbn [wf_cells] in Hc. destruct Hc as (Hu & _). cbn [glue].
  split; [apply is_blank_lead_token|apply is_hdr_lead_token]; assumption.
Qed.

Lemma zero_block_error id cstr body :
  cstr <> [] \/ (exists l, In l body /\ unskipped l) -> exists e, zero_block id cstr body = Error e.
Proof.
  intros H. unfold zero_block. destruct cstr as [|c cs]; [|eexists; reflexivity].
  destruct H as [H|(l & Hin & Hb & Hh)]; [congruence|].
  destruct (forallb skipped_line body) eqn:F; [|eexists; reflexivity].
  exfalso. rewrite forallb_forall in F. specialize (F l Hin). unfold skipped_line in F. rewrite Hb, Hh in F. discriminate.
Qed.

(* a constraint, or any line after the count that is neither blank nor a '#' line (in particular a damaged edge line) *)
Theorem zero_block_rejected b body :
  wf_head b -> parse_int (b_ctok b) = IOk 0%Z ->
  spec_cons (b_items b) <> [] \/ (exists l, In l body /\ unskipped l) ->
  exists e, read_graph (map render_hitem (b_items b) ++ b_blanks b ++ count_line b :: body) = Error e /\
            (e = EZeroHasConstraints \/ e = EZeroHasEdges).
Proof.
  intros (Hi & Hb & Hl & Ht & Hc) Hp H. unfold count_line.
  rewrite read_graph_head by assumption. rewrite Hp. unfold finish. cbn [Z.eqb].
  unfold zero_block. destruct (spec_cons (b_items b)) as [|c cs] eqn:E.
  - destruct H as [H|(l & Hin & Hb' & Hh)]; [congruence|].
    destruct (forallb skipped_line body) eqn:F; [|eexists; split; [reflexivity|right; reflexivity]].
    exfalso. rewrite forallb_forall in F. specialize (F l Hin). unfold skipped_line in F. rewrite Hb', Hh in F. discriminate.
  - eexists. split; [reflexivity|left; reflexivity].
Qed.

(* whatever the count: a damaged edge line after well-formed lines is rejected *)
Theorem bad_line_rejected_any_count cm b pre l post :
  wf_head b -> parse_int (b_ctok b) = IOk (b_n b) ->
  Forall (wf_bitem cm) pre -> bad_edge_line l \/ bad_weight_line l ->
  exists e, read_graph (map render_hitem (b_items b) ++ b_blanks b ++ count_line b :: (map render_bitem pre ++ l :: post)) = Error e.
Proof.
  intros Hh Hp Hpre Hbad. destruct (Z.eq_dec (b_n b) 0) as [Z0|Z0].
  - rewrite Z0 in Hp. destruct (zero_block_rejected b (map render_bitem pre ++ l :: post) Hh Hp) as (e & He & _); [|exists e; exact He].
    right. exists l. split; [apply in_or_app; right; left; reflexivity|].
    destruct Hbad; [apply bad_edge_unskipped|apply bad_weight_unskipped]; assumption.
  - destruct Hbad as [H|H].
    + exists EBadEdge. apply (bad_line_rejected cm); try assumption. left. split; [assumption|reflexivity].
    + exists EBadWeight. apply (bad_line_rejected cm); try assumption. right. split; [assumption|reflexivity].
Qed.

(* whatever the count: a constraint edge that no edge line lists is rejected *)
Theorem missing_constraint_edge_rejected_any_count cm b :
  wf_head b -> parse_int (b_ctok b) = IOk (b_n b) ->
  (b_n b <> 0%Z -> Forall (wf_bitem cm) (b_body b)) ->
  (exists c p, In c (spec_cons (b_items b)) /\ In p c /\ ~ In p (map fst (listed (b_body b)))) ->
  exists e, read_graph (render_block b) = Error e.
Proof.
  intros Hh Hp Hbody Hmiss. destruct (Z.eq_dec (b_n b) 0) as [Z0|Z0].
  - rewrite Z0 in Hp. destruct (zero_block_rejected b (map render_bitem (b_body b)) Hh Hp) as (e & He & _); [|exists e; exact He].
    left. destruct Hmiss as (c & _ & Hc & _). intros E. rewrite E in Hc. destruct Hc.
  - exists EMissingConstraintEdge. apply (missing_constraint_edge_rejected cm); auto.
Qed.
