(* kLeastAbsErrors with solution_weights_superset (the given-weights LP of ErrEnc.encode_klae): the weight of
   layer i is the constant ws[i], a layer may be empty, at most k_orig layers are used.  Soundness (every
   layer is empty or one source-to-sink path, at most k_orig are used, Err dominates the absolute error),
   completeness (every such choice whose errors fit the Err bound is a satisfying assignment) and the optimality
   statement relative to the solver specification.  The path block is reused from PathEncGiven(Complete).v
   through a kFlowDecomp instance in which every edge is ignored. *)
From Coq Require Import List NArith ZArith QArith Qabs Qround Lqa Bool Arith Lia Permutation.
Import ListNotations.
From FP Require Import Lin Blocks BlocksProofs PathEnc Aug AugProofs Euler EulerProofs1 EulerProofs2 EulerProofs4 DagDecode
                       PathEncProofs PathEncComplete PathCoverComplete PathEncGiven PathEncGivenComplete
                       ErrEnc ErrEncProofs ErrEncProofs3 ErrEncComplete ErrEncOptimal ErrEncKlae.
Set Default Timeout 120.
Local Open Scope Q_scope.

Definition dummy_kfd (I : err_inst) : kfd_inst :=
  {| f_base := e_base I; f_flow := []; f_ignore := g_edges (eG I); f_wmax := 0; f_int := false |}.

Definition gerr (I : err_inst) (ws : list Q) (P : N -> list node) (e : PathEnc.edge) : Q :=
  Qabs (flow_of I e - sumq (fun iw => snd iw * onq P (fst iw) e) (zipn 0 ws)).
Definition gcost (I : err_inst) (ws : list Q) (P : N -> list node) : Q :=
  sumq (fun e => scale_of I e * gerr I ws P e) (basic_edges I).

Definition given_layers (G : stgraph) (k : nat) (P : N -> list node) : Prop :=
  forall i, In i (layers k) ->
    P i = [] \/ (hd_error (P i) = Some (g_src G) /\ last (P i) (g_src G) = g_snk G /\ NoDup (P i) /\ incl (pairs (P i)) (g_edges G)).

(* a choice the LP can represent: empty-or-path layers, at most k_orig used, errors within the Err bound *)
Definition klae_given_choice (I : err_inst) (ws : list Q) (P : N -> list node) : Prop :=
  given_layers (eG I) (eK I) P /\
  (sumz (used P) (layers (eK I)) <= Z.of_nat (e_korig I))%Z /\
  (forall e, In e (basic_edges I) -> gerr I ws P e <= w_max I /\ (e_int I = true -> is_int (gerr I ws P e))).

Definition gasg (I : err_inst) (ws : list Q) (P : N -> list node) (x : var) : Q :=
  match vidx x with
  | [u; v; i] => if (vfam x =? fEdge)%N then onq P i (u, v) else 0
  | [p; q] => if (vfam x =? fErr)%N then gerr I ws P (p, q) else if (vfam x =? fR)%N then indq (p =? 0)%N else 0
  | _ => 0
  end.

Lemma gasg_agrees I ws P v : vfam v = fEdge \/ vfam v = fR -> asg P (fun _ => 0) (fun _ => 0%N) v = gasg I ws P v.
Proof.
  intros H. unfold asg, gasg, onq, on. destruct v as [f idx]. cbn [vfam vidx] in *.
  destruct H as [-> | ->]; destruct idx as [|a [|b [|c [|d r]]]]; reflexivity.
Qed.

Lemma all_ignored I e : In e (g_edges (eG I)) -> mem_edge e (f_ignore (dummy_kfd I)) = false -> False.
Proof. intros He H. cbn [dummy_kfd f_ignore] in H. apply (proj2 (mem_edge_In e _)) in He. congruence. Qed.

Lemma src_terms_fam G k t : In t (src_out_terms G k) -> vfam (fst t) = fEdge.
Proof.
  unfold src_out_terms. intros H. apply in_flat_map in H. destruct H as (v & _ & H).
  apply in_map_iff in H. destruct H as (i & <- & _). reflexivity.
Qed.

Section GivenComplete.
  Variable I : err_inst.
  Variable ws : list Q.
  Variable P : N -> list node.
  Hypothesis Hg : e_given I = Some ws.
  Hypothesis WF : wf_graph (eG I).
  Hypothesis Hae : p_allow_empty (e_base I) = true.
  Hypothesis Hnc : p_cons (e_base I) = [].
  Hypothesis Hlen : length ws = eK I.
  Hypothesis Hch : klae_given_choice I ws P.

  Let a := gasg I ws P.
  Lemma ga_edge u v i : a (Edge u v i) = onq P i (u, v). Proof. reflexivity. Qed.
  Lemma ga_err e : a (Err (fst e) (snd e)) = gerr I ws P e.
  Proof. unfold a, gasg, Err. cbn [vidx vfam]. rewrite <- surjective_pairing. reflexivity. Qed.

  Theorem klae_given_complete : sat a (encode_klae I) /\ objective a (encode_klae I) == gcost I ws P.
  Proof.
    destruct Hch as (HL & Hcount & Herr).
    pose proof (kfdw_complete (dummy_kfd I) ws (e_korig I) P WF Hae Hnc Hlen HL
                  (fun e He Hig => False_ind _ (all_ignored I e He Hig)) Hcount) as [DC DR].
    unfold encode_kfd_given in DC, DR. cbn [cols rows] in DC, DR. rewrite Forall_app in DR. destruct DR as [DRb DRg].
    cbn [dummy_kfd f_base] in DC, DRb.
    destruct (base_transfer (e_base I) _ a (gasg_agrees I ws P) (conj DC DRb)) as [BC BR].
    split; [split|].
    - unfold encode_klae. cbn [cols]. unfold klae_cols. rewrite Hg. apply Forall_app. split; [exact BC|].
      unfold err_cols. apply Forall_forall. intros c Hc. apply in_map_iff in Hc. destruct Hc as (e & <- & He).
      unfold sat_col, wcol_. cbn [cvar clb cub cint]. rewrite ga_err. destruct (Herr e He) as [E1 E2].
      split; [apply Qabs_nonneg|split; [exact E1|exact E2]].
    - unfold encode_klae. cbn [rows]. unfold klae_rows. rewrite Hg. rewrite !Forall_app. split; [exact BR|]. split.
      + apply Forall_flat_map. intros e He.
        assert (HS : forall c, eval a (map (fun iw => (Edge (fst e) (snd e) (fst iw), c (snd iw))) (zipn 0 ws))
                     == sumq (fun iw => c (snd iw) * onq P (fst iw) e) (zipn 0 ws)).
        { intros c. rewrite (eval_map_coef a (fun iw => Edge (fst e) (snd e) (fst iw)) (fun iw => c (snd iw))).
          apply sumq_ext. intros iw _. rewrite ga_edge, <- surjective_pairing. reflexivity. }
        assert (HN : sumq (fun iw => - snd iw * onq P (fst iw) e) (zipn 0 ws) == - sumq (fun iw => snd iw * onq P (fst iw) e) (zipn 0 ws)).
        { generalize (zipn 0 ws). intros l. induction l as [|x l IH]; cbn [sumq]; [ring|]. rewrite IH. ring. }
        pose proof (Qle_Qabs (flow_of I e - sumq (fun iw => snd iw * onq P (fst iw) e) (zipn 0 ws))) as A1.
        pose proof (Qle_Qabs (- (flow_of I e - sumq (fun iw => snd iw * onq P (fst iw) e) (zipn 0 ws)))) as A2.
        rewrite Qabs_opp in A2. fold (gerr I ws P e) in A1, A2.
        constructor; [|constructor; [|constructor]]; unfold sat_row, row_9aa_given, row_9ab_given, mkrow; cbn [sns lhs rhs];
          rewrite eval_app.
        * rewrite (HS (fun q => - q)), HN. cbn [eval fst snd]. rewrite ga_err. lra.
        * rewrite (HS (fun q => q)). cbn [eval fst snd]. rewrite ga_err. lra.
      + constructor; [|constructor].
        assert (R : sat_row (asg P (fun _ => 0) (fun _ => 0%N)) (row_max_paths I)).
        { rewrite Forall_forall in DRg. apply DRg. unfold kfdw_rows. apply in_or_app. right. left. reflexivity. }
        apply (sat_row_ext _ a (row_max_paths I) (fun t (Ht : In t (src_out_terms (eG I) (eK I))) => gasg_agrees I ws P (fst t) (or_introl (src_terms_fam _ _ t Ht))) R).
    - rewrite (klae_objective_value I a). unfold gcost. apply sumq_ext. intros e _. rewrite ga_err. reflexivity.
  Qed.
End GivenComplete.

(* ------------------------------------------------------------------ soundness / decoding *)
Definition dec_given (G : stgraph) (a : var -> Q) (Rm : nat) (i : N) : list node :=
  if (sumx (xval a i) (outs (g_edges G) (g_src G)) =? 0)%Z then [] else dec_path G a Rm i.

Theorem klae_given_decodes (I : err_inst) (ws : list Q) (a : var -> Q) (rank : node -> nat) (Rm : nat) :
  e_given I = Some ws -> wf_graph (eG I) -> p_allow_empty (e_base I) = true -> length ws = eK I ->
  (forall u v, In (u, v) (g_edges (eG I)) -> (rank u < rank v)%nat) -> (forall v, (rank v <= Rm)%nat) ->
  sat a (encode_klae I) ->
  let P := dec_given (eG I) a Rm in
  given_layers (eG I) (eK I) P /\
  (sumz (used P) (layers (eK I)) <= Z.of_nat (e_korig I))%Z /\
  (forall e, In e (basic_edges I) -> gerr I ws P e <= a (Err (fst e) (snd e)) /\ a (Err (fst e) (snd e)) <= w_max I /\
                                    (e_int I = true -> is_int (a (Err (fst e) (snd e))))).
Proof.
  intros Hg WF Hae Hlen Hrank HR Hsat P.
  pose proof Hsat as [HC HRw]. unfold encode_klae in HC, HRw. cbn [cols rows] in HC, HRw. unfold klae_cols, klae_rows in HC, HRw.
  rewrite Hg in HC, HRw. rewrite Forall_app in HC. rewrite !Forall_app in HRw. destruct HC as [HCb HCe]. destruct HRw as (HRb & HRe & HRm).
  (* the same assignment satisfies the given-weights kFlowDecomp LP in which every edge is ignored *)
  assert (HD : sat a (encode_kfd_given (dummy_kfd I) ws (e_korig I))).
  { split; [exact HCb|]. unfold encode_kfd_given. cbn [rows]. apply Forall_app. split; [exact HRb|].
    unfold kfdw_rows. apply Forall_app. split; [|exact HRm].
    apply Forall_forall. intros r Hr. apply in_map_iff in Hr. destruct Hr as (e & _ & He). apply filter_In in He. destruct He as [He Hn].
    exfalso. apply negb_true_iff in Hn. exact (all_ignored I e He Hn). }
  pose proof (fun i Hi => given_layer_empty_or_path (dummy_kfd I) ws (e_korig I) a WF Hae Hlen HD rank Rm i Hrank HR Hi) as Hlay.
  cbn [dummy_kfd f_base] in Hlay.
  assert (Q : forall i e, In i (layers (eK I)) -> In e (g_edges (eG I)) -> onq P i e == a (Edge (fst e) (snd e) i)).
  { intros i e Hi He. pose proof (g_bin (dummy_kfd I) ws (e_korig I) a HD i e Hi He) as Hb. cbn [dummy_kfd f_base] in Hb.
    destruct (xval_bin a i e Hb) as [EQ _]. rewrite EQ. unfold onq, P, dec_given, dec_path.
    destruct (Hlay i Hi) as [(H0 & Hz & _)|(H1 & p & D & L & Pm)].
    - unfold eG in *. rewrite H0. cbn [Z.eqb]. rewrite (Hz e He). reflexivity.
    - unfold eG in *. rewrite H1. cbn [Z.eqb]. rewrite D. apply (indq_xval (g_edges (p_graph (e_base I)))); [exact Hb|exact Pm|exact He]. }
  split; [|split].
  - intros i Hi. unfold P, dec_given, dec_path. destruct (Hlay i Hi) as [(H0 & _ & _)|(H1 & p & D & L & Pm)].
    + unfold eG in *. rewrite H0. left. reflexivity.
    + unfold eG in *. rewrite H1. cbn [Z.eqb]. rewrite D. right.
      split; [reflexivity|]. split; [rewrite last_cons_default; exact L|].
      assert (HinG : incl (pairs (g_src (eG I) :: p)) (g_edges (eG I))).
      { intros e He. apply (Permutation_in _ (Permutation_sym Pm)) in He. apply Sup_In in He. tauto. }
      split; [|exact HinG]. destruct (AugProofs.rank_walk_nodup _ rank Hrank p _ HinG) as [ND _]. exact ND.
  - destruct (given_path_count (dummy_kfd I) ws (e_korig I) a WF HD) as [Hc _]. cbn [dummy_kfd f_base] in Hc.
    assert (Hext : forall l, incl l (layers (eK I)) ->
               sumz (used P) l = sumz (fun i => sumx (xval a i) (outs (g_edges (eG I)) (g_src (eG I)))) l).
    { induction l as [|i l IH]; intros Hl; [reflexivity|]. cbn [sumz]. rewrite IH by (intros x Hx; apply Hl; right; exact Hx).
      f_equal. unfold used, P, dec_given, dec_path. assert (Hi : In i (layers (eK I))) by (apply Hl; left; reflexivity).
      destruct (Hlay i Hi) as [(H0 & _ & _)|(H1 & _)].
      - unfold eG in *. rewrite H0. reflexivity.
      - unfold eG in *. rewrite H1. reflexivity. }
    rewrite (Hext _ (fun x Hx => Hx)). exact Hc.
  - intros e He. pose proof (basic_in I e He) as HeG.
    assert (C : sat_col a (wcol_ (Err (fst e) (snd e)) (w_max I) (e_int I))).
    { apply (sat_cols_in a _ _ HCe). unfold err_cols. apply (in_map (fun e => wcol_ (Err (fst e) (snd e)) (w_max I) (e_int I))) in He. exact He. }
    unfold sat_col, wcol_ in C. cbn [cvar clb cub cint] in C. split; [|tauto].
    rewrite Forall_flat_map in HRe. specialize (HRe e He).
    inversion HRe as [|? ? R1 HRe']; subst. inversion HRe' as [|? ? R2 _]; subst.
    unfold sat_row, row_9aa_given, row_9ab_given, mkrow in R1, R2. cbn [sns lhs rhs] in R1, R2. rewrite eval_app in R1, R2.
    assert (HS : forall c, eval a (map (fun iw => (Edge (fst e) (snd e) (fst iw), c (snd iw))) (zipn 0 ws))
                 == sumq (fun iw => c (snd iw) * onq P (fst iw) e) (zipn 0 ws)).
    { intros c. rewrite (eval_map_coef a (fun iw => Edge (fst e) (snd e) (fst iw)) (fun iw => c (snd iw))).
      apply sumq_ext. intros [i w] Hiw. cbn [fst snd].
      destruct (in_zipn _ _ _ _ Hiw) as (n & -> & _ & Hn). rewrite Nat.sub_0_r in Hn.
      assert (Hi : In (N.of_nat n) (layers (eK I))).
      { apply in_layers. exists n. split; [|reflexivity]. rewrite <- Hlen. apply nth_error_Some. rewrite Hn. discriminate. }
      rewrite (Q _ e Hi HeG). reflexivity. }
    assert (HN : sumq (fun iw => - snd iw * onq P (fst iw) e) (zipn 0 ws) == - sumq (fun iw => snd iw * onq P (fst iw) e) (zipn 0 ws)).
    { generalize (zipn 0 ws). intros l. induction l as [|x l IH]; cbn [sumq]; [ring|]. rewrite IH. ring. }
    rewrite (HS (fun q => - q)), HN in R1. rewrite (HS (fun q => q)) in R2. cbn [eval fst snd] in R1, R2.
    unfold gerr. apply Qabs_le_iff. split; lra.
Qed.

(* ------------------------------------------------------------------ optimality relative to the solver specification *)
Theorem klae_given_optimal (I : err_inst) (ws : list Q) (a : var -> Q) (rank : node -> nat) (Rm : nat) :
  e_given I = Some ws -> wf_graph (eG I) -> p_allow_empty (e_base I) = true -> p_cons (e_base I) = [] -> length ws = eK I ->
  (forall u v, In (u, v) (g_edges (eG I)) -> (rank u < rank v)%nat) -> (forall v, (rank v <= Rm)%nat) ->
  (forall e, In e (basic_edges I) -> 0 <= scale_of I e /\ (e_int I = true -> is_int (flow_of I e))) ->
  (e_int I = true -> forall q, In q ws -> is_int q) ->
  sat a (encode_klae I) -> (forall b, sat b (encode_klae I) -> objective a (encode_klae I) <= objective b (encode_klae I)) ->
  (exists P, klae_given_choice I ws P /\ gcost I ws P == objective a (encode_klae I)) /\
  (forall P, klae_given_choice I ws P -> objective a (encode_klae I) <= gcost I ws P).
Proof.
  intros Hg WF Hae Hnc Hlen Hrank HR Hdom Hwsint Hsat Hopt. split.
  - destruct (klae_given_decodes I ws a rank Rm Hg WF Hae Hlen Hrank HR Hsat) as (HL & Hcount & Hd).
    set (P := dec_given (eG I) a Rm) in *.
    assert (Hch : klae_given_choice I ws P).
    { split; [exact HL|]. split; [exact Hcount|]. intros e He. destruct (Hd e He) as (D1 & D2 & _). split; [lra|].
      intros Hint. unfold gerr. apply is_int_abs. apply is_int_plus; [apply (Hdom e He); exact Hint|].
      apply is_int_opp. apply sumq_is_int. intros [i q] Hiq. cbn [fst snd].
      apply is_int_mult; [|apply onq_int]. apply (Hwsint Hint).
      destruct (in_zipn _ _ _ _ Hiq) as (n & _ & _ & Hn). rewrite Nat.sub_0_r in Hn. apply (nth_error_In _ _ Hn). }
    exists P. split; [exact Hch|].
    destruct (klae_given_complete I ws P Hg WF Hae Hnc Hlen Hch) as [Sb Ob].
    apply Qle_antisym.
    + rewrite (klae_objective_value I a). unfold gcost. apply sumq_le_mono. intros e He.
      destruct (Hdom e He) as (S0 & _). destruct (Hd e He) as (D1 & _).
      assert (H2 : 0 <= scale_of I e * (a (Err (fst e) (snd e)) - gerr I ws P e)) by (apply Qmult_le_0_compat; lra). lra.
    + rewrite <- Ob. apply Hopt. exact Sb.
  - intros P Hch. destruct (klae_given_complete I ws P Hg WF Hae Hnc Hlen Hch) as [Sb Ob].
    rewrite <- Ob. apply Hopt. exact Sb.
Qed.
