(* Executable, verified check of the PREMISES of the DAG encoder theorems on a concrete instance: the s-t graph the
   implementation hands to the encoder is well formed (PathEncProofs.wf_graph) and acyclic (a topological order supplied
   by the harness is verified).  Extracted and run on every E1 instance, so that the instances on which model and code are
   compared are machine-checked to lie inside the domain the theorems quantify over. *)
From Coq Require Import List NArith ZArith QArith Bool Arith Lia Permutation.
Import ListNotations.
From FP Require Import Lin PathEnc PathEncProofs.
Set Default Timeout 60.
Local Close Scope Q_scope.

Definition eqb_list_n (l1 l2 : list node) : bool := if list_eq_dec N.eq_dec l1 l2 then true else false.
Lemma eqb_list_n_eq l1 l2 : eqb_list_n l1 l2 = true <-> l1 = l2.
Proof. unfold eqb_list_n. destruct (list_eq_dec N.eq_dec l1 l2); split; congruence. Qed.

Definition memnb (x : node) (l : list node) : bool := existsb (N.eqb x) l.
Lemma memnb_In x l : memnb x l = true <-> In x l.
Proof.
  unfold memnb. rewrite existsb_exists. split.
  - intros (y & Hy & E). apply N.eqb_eq in E. subst. exact Hy.
  - intros H. exists x. split; [exact H|apply N.eqb_refl].
Qed.

Fixpoint nodup_nb (l : list node) : bool := match l with [] => true | x :: r => negb (memnb x r) && nodup_nb r end.
Lemma nodup_nb_NoDup l : nodup_nb l = true -> NoDup l.
Proof.
  induction l as [|x r IH]; cbn [nodup_nb]; intros H; [constructor|]. apply andb_true_iff in H. destruct H as [H1 H2].
  constructor; [|apply IH; exact H2]. intros Hin. apply memnb_In in Hin. rewrite Hin in H1. discriminate.
Qed.

Fixpoint nodup_eb (l : list edge) : bool := match l with [] => true | x :: r => negb (mem_edge x r) && nodup_eb r end.
Lemma mem_edge_In' e l : mem_edge e l = true <-> In e l.
Proof.
  unfold mem_edge. rewrite existsb_exists. split.
  - intros (x & Hx & E). unfold edge_eqb in E. apply andb_true_iff in E. destruct E as [E1 E2].
    apply N.eqb_eq in E1, E2. destruct e, x. cbn in *. subst. exact Hx.
  - intros H. exists e. split; [exact H|]. unfold edge_eqb. rewrite !N.eqb_refl. reflexivity.
Qed.
Lemma nodup_eb_NoDup l : nodup_eb l = true -> NoDup l.
Proof.
  induction l as [|x r IH]; cbn [nodup_eb]; intros H; [constructor|]. apply andb_true_iff in H. destruct H as [H1 H2].
  constructor; [|apply IH; exact H2]. intros Hin. apply mem_edge_In' in Hin. rewrite Hin in H1. discriminate.
Qed.

Definition incl_nb (l1 l2 : list node) : bool := forallb (fun x => memnb x l2) l1.
Lemma incl_nb_incl l1 l2 : incl_nb l1 l2 = true -> incl l1 l2.
Proof. unfold incl_nb. rewrite forallb_forall. intros H x Hx. apply memnb_In. apply H. exact Hx. Qed.

Definition succ_of (E : list edge) (v : node) : list node := map snd (filter (fun e => (fst e =? v)%N) E).
Definition pred_of (E : list edge) (v : node) : list node := map fst (filter (fun e => (snd e =? v)%N) E).

(* every node that matters for the adjacency functions: the nodes, plus the endpoints of edges are required to be nodes *)
Definition wf_graph_b (G : stgraph) : bool :=
  let E := g_edges G in let V := g_nodes G in
  nodup_eb E &&
  forallb (fun e => memnb (fst e) V && memnb (snd e) V) E &&
  (* adjacency lists: for every node the stored successor list is the edge list restricted to the tail, in that order;
     the stored predecessor list is duplicate-free and has the same members as the edge list restricted to the head *)
  forallb (fun v => eqb_list_n (succs G v) (succ_of E v)) V &&
  forallb (fun v => nodup_nb (preds G v) && incl_nb (preds G v) (pred_of E v) && incl_nb (pred_of E v) (preds G v)) V &&
  (* keys of the adjacency tables are nodes (so that a non-node has empty adjacency) *)
  forallb (fun kv => memnb (fst kv) V) (g_succ G) && forallb (fun kv => memnb (fst kv) V) (g_pred G) &&
  forallb (fun e => negb (snd e =? g_src G)%N && negb (fst e =? g_snk G)%N) E &&
  negb (g_src G =? g_snk G)%N.

Lemma lookup_adj_not_key v l : (forall kv, In kv l -> fst kv <> v) -> lookup_adj v l = [].
Proof.
  induction l as [|[u ns] r IH]; intros H; [reflexivity|]. cbn [lookup_adj].
  destruct (N.eqb_spec u v) as [->|_]; [exfalso; apply (H (v, ns)); [left; reflexivity|reflexivity]|].
  apply IH. intros kv Hkv. apply H. right. exact Hkv.
Qed.

Lemma filter_nil_not_node {A} (f : A -> bool) (l : list A) : (forall x, In x l -> f x = false) -> filter f l = [].
Proof. induction l as [|x l IH]; intros H; [reflexivity|]. cbn [filter]. rewrite (H x (or_introl eq_refl)). apply IH. intros y Hy. apply H. right. exact Hy. Qed.

Lemma NoDup_map_fst_filter (E : list edge) v : NoDup E -> NoDup (map fst (filter (fun e => (snd e =? v)%N) E)).
Proof.
  induction E as [|e E IH]; intros ND; [constructor|]. inversion ND as [|? ? Hni ND']; subst. cbn [filter].
  destruct (N.eqb_spec (snd e) v) as [Hv|Hv]; [|apply IH; exact ND'].
  cbn [map]. constructor; [|apply IH; exact ND'].
  intros Hin. apply in_map_iff in Hin. destruct Hin as (e' & Hf & He'). apply filter_In in He'. destruct He' as [He' Hv'].
  apply N.eqb_eq in Hv'. apply Hni. destruct e, e'. cbn in *. subst. exact He'.
Qed.

Theorem wf_graph_b_sound (G : stgraph) : wf_graph_b G = true -> wf_graph G.
Proof.
  unfold wf_graph_b. intros H.
  repeat (apply andb_true_iff in H; destruct H as [H ?]).
  rename H into Hnd. 
  match goal with H : negb (g_src G =? g_snk G)%N = true |- _ => rename H into Hst end.
  match goal with H : forallb (fun e => negb (snd e =? g_src G)%N && negb (fst e =? g_snk G)%N) _ = true |- _ => rename H into Hss end.
  match goal with H : forallb (fun kv => memnb (fst kv) (g_nodes G)) (g_pred G) = true |- _ => rename H into Hkp end.
  match goal with H : forallb (fun kv => memnb (fst kv) (g_nodes G)) (g_succ G) = true |- _ => rename H into Hks end.
  match goal with H : forallb (fun v => nodup_nb _ && _ && _) _ = true |- _ => rename H into Hpr end.
  match goal with H : forallb (fun v => eqb_list_n _ _) _ = true |- _ => rename H into Hsu end.
  match goal with H : forallb (fun e => memnb (fst e) _ && memnb (snd e) _) _ = true |- _ => rename H into Hen end.
  rewrite forallb_forall in Hss, Hkp, Hks, Hpr, Hsu, Hen.
  assert (Hends : forall e, In e (g_edges G) -> In (fst e) (g_nodes G) /\ In (snd e) (g_nodes G)).
  { intros e He. specialize (Hen e He). apply andb_true_iff in Hen. destruct Hen as [A B]. split; apply memnb_In; assumption. }
  constructor.
  - apply nodup_eb_NoDup. exact Hnd.
  - exact Hends.
  - intros v. destruct (in_dec N.eq_dec v (g_nodes G)) as [Hv|Hv].
    + apply eqb_list_n_eq. apply Hsu. exact Hv.
    + unfold succs. rewrite lookup_adj_not_key.
      * rewrite filter_nil_not_node; [reflexivity|]. intros e He. apply N.eqb_neq. intros E. apply Hv. rewrite <- E. apply (Hends e He).
      * intros kv Hkv E. apply Hv. rewrite <- E. apply memnb_In. apply Hks. exact Hkv.
  - intros v. destruct (in_dec N.eq_dec v (g_nodes G)) as [Hv|Hv].
    + specialize (Hpr v Hv). apply andb_true_iff in Hpr. destruct Hpr as [Hpr I2]. apply andb_true_iff in Hpr. destruct Hpr as [ND I1].
      apply NoDup_Permutation.
      * apply nodup_nb_NoDup. exact ND.
      * apply NoDup_map_fst_filter. apply nodup_eb_NoDup. exact Hnd.
      * intros x. split; [apply (incl_nb_incl _ _ I1)|apply (incl_nb_incl _ _ I2)].
    + unfold preds. rewrite lookup_adj_not_key.
      * rewrite filter_nil_not_node; [constructor|]. intros e He. apply N.eqb_neq. intros E. apply Hv. rewrite <- E. apply (Hends e He).
      * intros kv Hkv E. apply Hv. rewrite <- E. apply memnb_In. apply Hkp. exact Hkv.
  - intros e He. specialize (Hss e He). apply andb_true_iff in Hss. destruct Hss as [A _]. apply negb_true_iff in A. apply N.eqb_neq. exact A.
  - intros e He. specialize (Hss e He). apply andb_true_iff in Hss. destruct Hss as [_ B]. apply negb_true_iff in B. apply N.eqb_neq. exact B.
  - apply negb_true_iff in Hst. apply N.eqb_neq. exact Hst.
Qed.

(* ---- acyclicity through a supplied topological order ---- *)
Fixpoint index_of (x : node) (l : list node) : nat :=
  match l with [] => 0 | y :: r => if (y =? x)%N then 0 else S (index_of x r) end.
Lemma index_of_le x l : (index_of x l <= length l)%nat.
Proof. induction l as [|y r IH]; cbn [index_of length]; [lia|]. destruct (y =? x)%N; lia. Qed.

Definition topo_ok_b (order : list node) (E : list edge) : bool :=
  forallb (fun e => memnb (fst e) order && memnb (snd e) order && (index_of (fst e) order <? index_of (snd e) order)%nat) E.

Theorem topo_ok_b_sound order E : topo_ok_b order E = true ->
  (forall u v, In (u, v) E -> (index_of u order < index_of v order)%nat) /\ (forall v, (index_of v order <= length order)%nat).
Proof.
  unfold topo_ok_b. rewrite forallb_forall. intros H. split.
  - intros u v He. specialize (H (u, v) He). cbn [fst snd] in H. apply andb_true_iff in H. destruct H as [_ H]. apply Nat.ltb_lt in H. exact H.
  - intros v. apply index_of_le.
Qed.

Definition premises_b (G : stgraph) (order : list node) : bool := wf_graph_b G && topo_ok_b order (g_edges G).

Theorem premises_b_sound G order : premises_b G order = true ->
  wf_graph G /\ exists (rank : node -> nat) (Rm : nat),
    (forall u v, In (u, v) (g_edges G) -> (rank u < rank v)%nat) /\ (forall v, (rank v <= Rm)%nat).
Proof.
  unfold premises_b. intros H. apply andb_true_iff in H. destruct H as [H1 H2]. split; [apply wf_graph_b_sound; exact H1|].
  exists (fun v => index_of v order), (length order). apply topo_ok_b_sound. exact H2.
Qed.
