(* C16: the side conditions of the full optimality theorem as ONE executable check (extracted and run on every instance) *)
From Coq Require Import List NArith ZArith QArith Lqa Bool Lia.
Import ListNotations.
From FP Require Import Lin Blocks BlocksProofs PathEnc PathEncProofs MiscEnc MiscEncProofs Reach ReachProofs1 MefBound.
Set Default Timeout 60.
Open Scope Q_scope.

Definition is_int_b (q : Q) : bool := (Zpos (Qden (Qred q)) =? 1)%Z.
Lemma is_int_b_sound q : is_int_b q = true -> is_int q.
Proof.
  unfold is_int_b. intros H. apply Z.eqb_eq in H. exists (Qnum (Qred q)). rewrite <- (Qred_correct q) at 1.
  destruct (Qred q) as [n d]. cbn [Qnum Qden] in *. injection H as ->. reflexivity.
Qed.

(* duplicate-free edge list; non-negative weights (integral for weight_type = int); non-negative scalings *)
Definition mef_domain_b (I : mef_inst) : bool :=
  nodupE (mef_edges I) &&
  forallb (fun e => Qle_bool 0 (fval I e)) (mef_edges I) &&
  (negb (mef_int I) || forallb (fun e => is_int_b (fval I e)) (mef_edges I)) &&
  forallb (fun e => Qle_bool 0 (scale_of I e)) (mef_edges I).

Theorem mef_domain_b_sound (I : mef_inst) : mef_domain_b I = true ->
  NoDup (mef_edges I) /\
  (forall e, In e (mef_edges I) -> 0 <= fval I e) /\
  (mef_int I = true -> forall e, In e (mef_edges I) -> is_int (fval I e)) /\
  (forall e, In e (mef_edges I) -> 0 <= scale_of I e).
Proof.
  unfold mef_domain_b. intros H. apply andb_true_iff in H. destruct H as [H H4]. apply andb_true_iff in H. destruct H as [H H3].
  apply andb_true_iff in H. destruct H as [H1 H2]. rewrite forallb_forall in H2, H4. split; [apply nodupE_NoDup; exact H1|]. split; [|split].
  - intros e He. apply Qle_bool_iff. apply H2. exact He.
  - intros Hi e He. rewrite Hi in H3. cbn [negb orb] in H3. rewrite forallb_forall in H3. apply is_int_b_sound. apply H3. exact He.
  - intros e He. apply Qle_bool_iff. apply H4. exact He.
Qed.

(* the full optimality statement with its side conditions decided by the executable check *)
Theorem mef_optimal_is_closest_checked (I : mef_inst) (a : var -> Q) : mef_domain_b I = true ->
  sat a (encode_mef I) -> (forall b, sat b (encode_mef I) -> obj_le (encode_mef I) a b) ->
  is_flow_ub I (xof a) /\ forall y, is_flow_nb I y -> flow_cost I (xof a) <= flow_cost I y.
Proof.
  intros Hd. destruct (mef_domain_b_sound I Hd) as (H1 & H2 & H3 & H4). apply mef_optimal_is_closest_full; assumption.
Qed.

Example mef_domain_b_ex : mef_domain_b ex_nb = true. Proof. vm_compute. reflexivity. Qed.
