(* A VERIFIED equivalence checker for MILPs in the representation of Lin.v: milp_equiv_b m1 m2 = true implies that m1 and m2
   have exactly the same satisfying assignments and the same objective function (and direction).  The correspondence engines
   send the LP read back from the solver to the extracted checker, which compares it with the model's LP: an E1 agreement is
   then a machine-checked statement about the two LPs, independent of the Python canonicalisation.
   Rows are compared semantically: terms in any order, a variable may occur several times (coefficients add up), zero
   coefficients are ignored, a row and its negation are the same row, rows without variables that hold trivially are ignored,
   every row of one side must have an equivalent row on the other side and vice versa (multiplicities are irrelevant). *)
From Coq Require Import List NArith ZArith QArith Lqa Bool Lia.
Import ListNotations.
From FP Require Import Lin Blocks.
Set Default Timeout 60.
Local Close Scope Q_scope.

(* coefficient of v in a linear expression *)
Fixpoint coef (l : lin) (v : var) : Q :=
  match l with [] => 0%Q | t :: r => ((if var_eqb (fst t) v then snd t else 0) + coef r v)%Q end.

Fixpoint remove_var (l : lin) (v : var) : lin :=
  match l with [] => [] | t :: r => if var_eqb (fst t) v then remove_var r v else t :: remove_var r v end.

Lemma var_eqb_refl v : var_eqb v v = true. Proof. apply var_eqb_spec. reflexivity. Qed.
Lemma var_eqb_false a b : a <> b -> var_eqb a b = false.
Proof. intros H. destruct (var_eqb a b) eqn:E; [apply var_eqb_spec in E; contradiction|reflexivity]. Qed.

Lemma eval_remove a l v : (eval a l == coef l v * a v + eval a (remove_var l v))%Q.
Proof.
  induction l as [|t r IH]; cbn [eval coef remove_var]; [ring|].
  destruct (var_eqb (fst t) v) eqn:E.
  - apply var_eqb_spec in E. rewrite IH, E. ring.
  - cbn [eval]. rewrite IH. ring.
Qed.

Lemma coef_remove_same l v : (coef (remove_var l v) v == 0)%Q.
Proof.
  induction l as [|t r IH]; cbn [remove_var coef]; [reflexivity|].
  destruct (var_eqb (fst t) v) eqn:E; [exact IH|]. cbn [coef]. rewrite E, IH. ring.
Qed.
Lemma coef_remove_other l v u : u <> v -> (coef (remove_var l v) u == coef l u)%Q.
Proof.
  intros H. induction l as [|t r IH]; cbn [remove_var coef]; [reflexivity|].
  destruct (var_eqb (fst t) v) eqn:E.
  - apply var_eqb_spec in E. rewrite IH. rewrite (var_eqb_false (fst t) u) by congruence. ring.
  - cbn [coef]. rewrite IH. reflexivity.
Qed.
Lemma remove_var_length l v : (length (remove_var l v) <= length l)%nat.
Proof. induction l as [|t r IH]; cbn [remove_var length]; [lia|]. destruct (var_eqb (fst t) v); cbn [length]; lia. Qed.

(* all coefficients zero => the expression is identically zero *)
Lemma eval_zero a : forall n l, (length l <= n)%nat -> (forall v, coef l v == 0)%Q -> (eval a l == 0)%Q.
Proof.
  induction n as [|n IH]; intros l Hn Hz.
  - destruct l; [reflexivity|cbn in Hn; lia].
  - destruct l as [|t r]; [reflexivity|]. rewrite (eval_remove a (t :: r) (fst t)), (Hz (fst t)).
    rewrite IH; [ring| |].
    + cbn [remove_var]. rewrite var_eqb_refl. pose proof (remove_var_length r (fst t)). cbn in Hn. lia.
    + intros u. destruct (var_eqb (fst t) u) eqn:E.
      * apply var_eqb_spec in E. subst u. apply coef_remove_same.
      * rewrite coef_remove_other; [apply Hz|]. intros ->. rewrite var_eqb_refl in E. discriminate.
Qed.

Definition neg_lin (l : lin) : lin := map (fun t => (fst t, (- snd t)%Q)) l.
Lemma eval_neg a l : (eval a (neg_lin l) == - eval a l)%Q.
Proof. induction l as [|t r IH]; cbn [neg_lin map eval fst snd]; [ring|]. fold (neg_lin r). rewrite IH. ring. Qed.
Lemma coef_neg l v : (coef (neg_lin l) v == - coef l v)%Q.
Proof. induction l as [|t r IH]; cbn [neg_lin map coef fst snd]; [ring|]. fold (neg_lin r). rewrite IH. destruct (var_eqb (fst t) v); ring. Qed.
Lemma coef_app l1 l2 v : (coef (l1 ++ l2) v == coef l1 v + coef l2 v)%Q.
Proof. induction l1 as [|t r IH]; cbn [app coef]; [ring|]. rewrite IH. ring. Qed.

(* same coefficients on every variable that occurs => same value *)
Definition vars_of (l : lin) : list var := map fst l.
Definition same_coefs_b (l1 l2 : lin) : bool :=
  forallb (fun v => Qeq_bool (coef l1 v) (coef l2 v)) (vars_of l1 ++ vars_of l2).

Lemma coef_not_in l v : ~ In v (vars_of l) -> (coef l v == 0)%Q.
Proof.
  induction l as [|t r IH]; intros H; cbn [coef]; [reflexivity|].
  rewrite (var_eqb_false (fst t) v) by (intros E; apply H; left; exact E).
  rewrite IH; [ring|]. intros Hin. apply H. right. exact Hin.
Qed.

Lemma same_coefs_eval a l1 l2 : same_coefs_b l1 l2 = true -> (eval a l1 == eval a l2)%Q.
Proof.
  intros H. unfold same_coefs_b in H. rewrite forallb_forall in H.
  assert (Hz : forall v, (coef (l1 ++ neg_lin l2) v == 0)%Q).
  { intros v. rewrite coef_app, coef_neg.
    destruct (in_dec (fun x y => match var_eqb x y as b return (var_eqb x y = b -> {x = y} + {x <> y}) with
                                  | true => fun E => left (proj1 (var_eqb_spec x y) E)
                                  | false => fun E => right (fun Heq => eq_ind (var_eqb x y) (fun b => b = false -> False)
                                                                 (fun E' => ltac:(rewrite (proj2 (var_eqb_spec x y) Heq) in E'; discriminate)) _ eq_refl E)
                                  end eq_refl) v (vars_of l1 ++ vars_of l2)) as [Hin|Hnin].
    - specialize (H v Hin). apply Qeq_bool_iff in H. rewrite H. ring.
    - rewrite (coef_not_in l1 v), (coef_not_in l2 v); [ring| |]; intros Hc; apply Hnin; apply in_or_app; [right|left]; exact Hc. }
  pose proof (eval_zero a (length (l1 ++ neg_lin l2)) (l1 ++ neg_lin l2) (le_n _) Hz) as E0.
  rewrite eval_app, eval_neg in E0. lra.
Qed.

(* ---- rows ---- *)
Definition all_zero_b (l : lin) : bool := forallb (fun v => Qeq_bool (coef l v) 0) (vars_of l).
Lemma all_zero_eval a l : all_zero_b l = true -> (eval a l == 0)%Q.
Proof.
  intros H. unfold all_zero_b in H. rewrite forallb_forall in H. apply (eval_zero a (length l) l (le_n _)).
  intros v. destruct (existsb (var_eqb v) (vars_of l)) eqn:Ex.
  - apply existsb_exists in Ex. destruct Ex as (u & Hu & E). apply var_eqb_spec in E. subst u. apply Qeq_bool_iff. apply H. exact Hu.
  - apply coef_not_in. intros Hin. assert (existsb (var_eqb v) (vars_of l) = true) by (apply existsb_exists; exists v; split; [exact Hin|apply var_eqb_refl]). congruence.
Qed.

Definition trivial_true_b (r : row) : bool :=
  all_zero_b (lhs r) && match sns r with SLe => Qle_bool 0 (rhs r) | SGe => Qle_bool (rhs r) 0 | SEq => Qeq_bool 0 (rhs r) end.
Lemma trivial_true_sat a r : trivial_true_b r = true -> sat_row a r.
Proof.
  unfold trivial_true_b, sat_row. intros H. apply andb_true_iff in H. destruct H as [Hz Hr].
  pose proof (all_zero_eval a _ Hz) as E0. destruct (sns r); [apply Qle_bool_iff in Hr|apply Qle_bool_iff in Hr|apply Qeq_bool_iff in Hr]; lra.
Qed.

Definition flip (s : sense) : sense := match s with SLe => SGe | SGe => SLe | SEq => SEq end.
Definition neg_row (r : row) : row := {| lhs := neg_lin (lhs r); sns := flip (sns r); rhs := (- rhs r)%Q |}.
Lemma neg_row_sat a r : sat_row a (neg_row r) <-> sat_row a r.
Proof. unfold sat_row, neg_row. cbn [lhs sns rhs]. pose proof (eval_neg a (lhs r)) as E. destruct (sns r); cbn [flip]; split; intros H; lra. Qed.

Definition sense_eqb (s1 s2 : sense) : bool :=
  match s1, s2 with SLe, SLe | SGe, SGe | SEq, SEq => true | _, _ => false end.
Definition row_same_b (r1 r2 : row) : bool :=
  sense_eqb (sns r1) (sns r2) && same_coefs_b (lhs r1) (lhs r2) && Qeq_bool (rhs r1) (rhs r2).
Lemma row_same_sat a r1 r2 : row_same_b r1 r2 = true -> (sat_row a r1 <-> sat_row a r2).
Proof.
  unfold row_same_b. intros H. apply andb_true_iff in H. destruct H as [H Hr]. apply andb_true_iff in H. destruct H as [Hs Hc].
  apply Qeq_bool_iff in Hr. pose proof (same_coefs_eval a _ _ Hc) as He. unfold sat_row.
  destruct (sns r1), (sns r2); try discriminate; split; intros Hx; lra.
Qed.
Definition row_equiv_b (r1 r2 : row) : bool := row_same_b r1 r2 || row_same_b r1 (neg_row r2).
Lemma row_equiv_sat a r1 r2 : row_equiv_b r1 r2 = true -> (sat_row a r1 <-> sat_row a r2).
Proof.
  unfold row_equiv_b. intros H. apply orb_true_iff in H. destruct H as [H|H].
  - exact (row_same_sat a _ _ H).
  - rewrite (row_same_sat a _ _ H). apply neg_row_sat.
Qed.

Definition rows_cover_b (rs1 rs2 : list row) : bool :=
  forallb (fun r => trivial_true_b r || existsb (row_equiv_b r) rs2) rs1.
Lemma rows_cover_sat a rs1 rs2 : rows_cover_b rs1 rs2 = true -> Forall (sat_row a) rs2 -> Forall (sat_row a) rs1.
Proof.
  unfold rows_cover_b. rewrite forallb_forall. intros H H2. apply Forall_forall. intros r Hr. specialize (H r Hr).
  apply orb_true_iff in H. destruct H as [H|H]; [exact (trivial_true_sat a r H)|].
  apply existsb_exists in H. destruct H as (r2 & Hr2 & E). apply (row_equiv_sat a r r2 E).
  rewrite Forall_forall in H2. exact (H2 r2 Hr2).
Qed.

(* ---- columns ---- *)
Definition col_same_b (c1 c2 : col) : bool :=
  var_eqb (cvar c1) (cvar c2) && Qeq_bool (clb c1) (clb c2) && Qeq_bool (cub c1) (cub c2) && Bool.eqb (cint c1) (cint c2).
Lemma col_same_sat a c1 c2 : col_same_b c1 c2 = true -> (sat_col a c1 <-> sat_col a c2).
Proof.
  unfold col_same_b. intros H. apply andb_true_iff in H. destruct H as [H H2]. apply andb_true_iff in H. destruct H as [H H1].
  apply andb_true_iff in H. destruct H as [H H0].
  apply var_eqb_spec in H. apply Qeq_bool_iff in H0, H1. apply Bool.eqb_prop in H2. unfold sat_col. rewrite H, H2.
  split; intros (A & B & C); (split; [lra|split; [lra|exact C]]).
Qed.
Definition cols_cover_b (cs1 cs2 : list col) : bool := forallb (fun c => existsb (col_same_b c) cs2) cs1.
Lemma cols_cover_sat a cs1 cs2 : cols_cover_b cs1 cs2 = true -> Forall (sat_col a) cs2 -> Forall (sat_col a) cs1.
Proof.
  unfold cols_cover_b. rewrite forallb_forall. intros H H2. apply Forall_forall. intros c Hc.
  specialize (H c Hc). apply existsb_exists in H. destruct H as (c2 & Hc2 & E). apply (col_same_sat a c c2 E).
  rewrite Forall_forall in H2. exact (H2 c2 Hc2).
Qed.

(* ---- whole models ---- *)
Definition milp_equiv_b (m1 m2 : milp) : bool :=
  cols_cover_b (cols m1) (cols m2) && cols_cover_b (cols m2) (cols m1) &&
  rows_cover_b (rows m1) (rows m2) && rows_cover_b (rows m2) (rows m1) &&
  same_coefs_b (obj m1) (obj m2) && Bool.eqb (maximize m1) (maximize m2).

Theorem milp_equiv_sound (m1 m2 : milp) : milp_equiv_b m1 m2 = true ->
  (forall a, sat a m1 <-> sat a m2) /\ (forall a, (objective a m1 == objective a m2)%Q) /\ maximize m1 = maximize m2.
Proof.
  unfold milp_equiv_b. intros H. apply andb_true_iff in H. destruct H as [H Mx]. apply andb_true_iff in H. destruct H as [H Ob].
  apply andb_true_iff in H. destruct H as [H R21]. apply andb_true_iff in H. destruct H as [H R12].
  apply andb_true_iff in H. destruct H as [C12 C21].
  split; [|split].
  - intros a. unfold sat. split; intros [Hc Hr]; split.
    + exact (cols_cover_sat a _ _ C21 Hc).
    + exact (rows_cover_sat a _ _ R21 Hr).
    + exact (cols_cover_sat a _ _ C12 Hc).
    + exact (rows_cover_sat a _ _ R12 Hr).
  - intros a. unfold objective. exact (same_coefs_eval a _ _ Ob).
  - apply Bool.eqb_prop. exact Mx.
Qed.

(* the two models have the same optimal solutions *)
Corollary milp_equiv_optimal (m1 m2 : milp) : milp_equiv_b m1 m2 = true ->
  forall a, (sat a m1 /\ forall b, sat b m1 -> obj_le m1 a b) <-> (sat a m2 /\ forall b, sat b m2 -> obj_le m2 a b).
Proof.
  intros H a. destruct (milp_equiv_sound m1 m2 H) as (Hs & Ho & Hm). unfold obj_le. rewrite <- Hm.
  split; intros [Ha Hb]; (split; [apply Hs; exact Ha|]); intros b Hb'.
  - specialize (Hb b (proj2 (Hs b) Hb')). destruct (maximize m1); rewrite <- !Ho; exact Hb.
  - specialize (Hb b (proj1 (Hs b) Hb')). destruct (maximize m1); rewrite !Ho; exact Hb.
Qed.

(* non-vacuity: reordered terms, a split coefficient, a negated row and a trivially true row *)
Example milp_equiv_example :
  milp_equiv_b
    {| cols := [{| cvar := V 0%N [1%N]; clb := 0%Q; cub := 1%Q; cint := true |}];
       rows := [mkrow [(V 0%N [1%N], 1%Q); (V 0%N [2%N], 2%Q)] SLe 3%Q; mkrow [] SGe 0%Q]; obj := [(V 0%N [1%N], 1%Q)]; maximize := false |}
    {| cols := [{| cvar := V 0%N [1%N]; clb := 0%Q; cub := (2 # 2)%Q; cint := true |}];
       rows := [mkrow [(V 0%N [2%N], (- (1))%Q); (V 0%N [1%N], (- (1))%Q); (V 0%N [2%N], (- (1))%Q)] SGe (- (3))%Q]; obj := [(V 0%N [1%N], (1 # 2)%Q); (V 0%N [1%N], (1 # 2)%Q)]; maximize := false |}
  = true.
Proof. vm_compute. reflexivity. Qed.
