(* Completeness of the kPathCover LP and the feasibility characterisation: the model for k is feasible  <=>  k simple
   source-to-sink paths exist that cover every non-ignored edge and realise every subpath constraint.  With the search
   theorem: MinPathCover returns the least such k (relative to the solver specification). *)
From Coq Require Import List NArith ZArith QArith Lqa Bool Arith Lia Permutation.
Import ListNotations.
From FP Require Import Lin Blocks BlocksProofs PathEnc Aug AugProofs Euler EulerProofs1 EulerProofs2 DagDecode PathEncProofs PathEncComplete.
From FP Require Import Search SearchProofs1 SearchProofs2.
Set Default Timeout 60.
Local Close Scope Q_scope.

Definition path_cover (B : path_inst) (ignore : list PathEnc.edge) (P : N -> list node) : Prop :=
  let G := p_graph B in
  (forall i, In i (layers (p_k B)) ->
     hd_error (P i) = Some (g_src G) /\ last (P i) (g_src G) = g_snk G /\ NoDup (P i) /\ incl (pairs (P i)) (g_edges G)) /\
  (forall e, In e (g_edges G) -> mem_edge e ignore = false ->
     exists i, In i (layers (p_k B)) /\ mem_edge e (pairs (P i)) = true).

Definition kfd_of (B : path_inst) : kfd_inst := {| f_base := B; f_flow := []; f_ignore := []; f_wmax := 0%Q; f_int := false |}.

Lemma sumq_ge_member {A} (g : A -> Q) (l : list A) (x : A) :
  (forall y, In y l -> (0 <= g y)%Q) -> In x l -> (g x <= sumq g l)%Q.
Proof.
  induction l as [|y l IH]; intros H Hx; [destruct Hx|]. cbn [sumq].
  assert (N0 : (0 <= sumq g l)%Q) by (apply sumq_nonneg; intros z Hz; apply H; right; exact Hz).
  destruct Hx as [->|Hx].
  - lra.
  - assert (g x <= sumq g l)%Q by (apply IH; [intros z Hz; apply H; right; exact Hz|exact Hx]).
    pose proof (H y (or_introl eq_refl)). lra.
Qed.

Theorem kpc_complete (B : path_inst) (ignore : list PathEnc.edge) (P : N -> list node) (ch : N -> N) :
  wf_graph (p_graph B) -> p_allow_empty B = false -> path_cover B ignore P ->
  (forall c e, In c (p_cons B) -> In e c -> (0 <= elen B e)%Q) ->
  (forall n c, nth_error (p_cons B) n = Some c ->
      In (ch (N.of_nat n)) (layers (p_k B)) /\
      (cons_length B c * p_cov B <= sumq (fun e => elen B e * indq (mem_edge e (pairs (P (ch (N.of_nat n)))))) c)%Q) ->
  sat (asg P (fun _ => 0%Q) ch) (encode_kpc B ignore).
Proof.
  intros WF Hae [HP Hcov] Hlen Hch. split.
  - unfold encode_kpc. cbn [cols]. unfold base_cols. rewrite Forall_app. split.
    + exact (sat_edge_cols (kfd_of B) P (fun _ => 0%Q) ch).
    + exact (sat_cons_cols (kfd_of B) P (fun _ => 0%Q) ch Hlen Hch).
  - unfold encode_kpc. cbn [rows]. unfold base_rows. rewrite !Forall_app. split; [split|].
    + exact (sat_path_rows (kfd_of B) P (fun _ => 0%Q) ch WF Hae HP).
    + exact (sat_cons_rows (kfd_of B) P (fun _ => 0%Q) ch Hlen Hch).
    + unfold kpc_rows. rewrite Forall_map. apply Forall_forall. intros e He. apply filter_In in He. destruct He as [He Hig].
      apply negb_true_iff in Hig. destruct (Hcov e He Hig) as (i0 & Hi0 & M).
      unfold sat_row, mkrow. cbn [sns lhs rhs].
      rewrite (eval_map_const (asg P (fun _ => 0%Q) ch) (fun i => Edge (fst e) (snd e) i) 1%Q), Qmult_1_l.
      assert (G1 : (asg P (fun _ => 0%Q) ch (Edge (fst e) (snd e) i0) == 1)%Q).
      { rewrite asg_edge. unfold on. destruct e as [u v]. cbn [fst snd]. rewrite M. reflexivity. }
      rewrite <- G1.
      apply (sumq_ge_member (fun i => asg P (fun _ => 0%Q) ch (Edge (fst e) (snd e) i)) (layers (p_k B)) i0); [|exact Hi0].
      intros i _. rewrite asg_edge. destruct (on P i (fst e) (snd e)); cbn [indq]; lra.
Qed.

Lemma indq_xval (E : list PathEnc.edge) (a : var -> Q) (i : N) (l : list node) (e : PathEnc.edge) :
  bin (a (Edge (fst e) (snd e) i)) -> Permutation (Sup E (xval a i)) (pairs l) -> In e E ->
  (indq (mem_edge e (pairs l)) == inject_Z (xval a i e))%Q.
Proof.
  intros Hb Pm He. destruct (xval_bin a i e Hb) as [_ [X|X]]; rewrite X.
  - destruct (mem_edge e (pairs l)) eqn:M; [|reflexivity]. exfalso.
    apply mem_edge_In in M. apply (Permutation_in _ (Permutation_sym Pm)) in M. apply Sup_In in M. destruct M as [_ M]. lia.
  - assert (M : mem_edge e (pairs l) = true).
    { apply mem_edge_In. apply (Permutation_in _ Pm). apply Sup_In. split; [exact He|exact X]. }
    rewrite M. reflexivity.
Qed.

Theorem kpc_feasible_iff (B : path_inst) (ignore : list PathEnc.edge) (rank : node -> nat) (Rm : nat) :
  wf_graph (p_graph B) -> p_allow_empty B = false ->
  (forall u v, In (u, v) (g_edges (p_graph B)) -> (rank u < rank v)%nat) -> (forall v, (rank v <= Rm)%nat) ->
  (forall c e, In c (p_cons B) -> In e c -> In e (g_edges (p_graph B)) /\ (0 <= elen B e)%Q) ->
  ((exists a, sat a (encode_kpc B ignore)) <-> (exists P, path_cover B ignore P /\ constraints_covered B P)).
Proof.
  intros WF Hae Hrank HR Hcons. split.
  - intros (a & Hsat). pose proof Hsat as Hsat'. destruct Hsat as [Hc Hr].
    unfold encode_kpc in Hc, Hr. cbn [cols rows] in Hc, Hr.
    rewrite Forall_app in Hr. destruct Hr as [Hbr _].
    pose proof Hc as Hbc. unfold base_cols in Hc. rewrite Forall_app in Hc. destruct Hc as [Hec _].
    pose proof Hbr as Hbr'. unfold base_rows in Hbr. rewrite Forall_app in Hbr. destruct Hbr as [Hpr _]. rewrite Hae in Hpr.
    pose proof (fun i Hi => layer_is_one_path (p_graph B) (p_k B) a WF Hec Hpr rank Rm i Hrank HR Hi) as Hpaths.
    set (P := fun i => g_src (p_graph B) ::
                match decode (g_edges (p_graph B)) (xval a i) (g_snk (p_graph B)) (Datatypes.S Rm) (g_src (p_graph B)) with
                | Some p => p | None => [] end).
    assert (Q : forall i e, In i (layers (p_k B)) -> In e (g_edges (p_graph B)) ->
                (indq (mem_edge e (pairs (P i))) == inject_Z (xval a i e))%Q).
    { intros i e Hi He. destruct (Hpaths i Hi) as (p & D & L & Pm). unfold P. rewrite D.
      apply (indq_xval (g_edges (p_graph B))); [|exact Pm|exact He].
      apply (edge_bin (p_graph B) (p_k B) a Hec i e Hi He). }
    exists P. split; [split|].
    + intros i Hi. destruct (Hpaths i Hi) as (p & D & L & Pm). unfold P. rewrite D.
      split; [reflexivity|]. split; [rewrite last_cons_default; exact L|].
      assert (HinG : incl (pairs (g_src (p_graph B) :: p)) (g_edges (p_graph B))).
      { intros e He. apply (Permutation_in _ (Permutation_sym Pm)) in He. apply Sup_In in He. tauto. }
      split; [|exact HinG].
      destruct (AugProofs.rank_walk_nodup _ rank Hrank p _ HinG) as [ND _]. exact ND.
    + intros e He Hig. destruct (kpc_covers B ignore a Hsat' e He Hig) as (i & Hi & X).
      exists i. split; [exact Hi|]. pose proof (Q i e Hi He) as Qe. rewrite X in Qe.
      destruct (mem_edge e (pairs (P i))); [reflexivity|]. cbn [indq] in Qe. exfalso.
      assert (H01 : (0 == 1)%Q) by exact Qe. discriminate H01.
    + intros n c Hn. destruct (cons_rows_sound B a Hbc Hbr' n c Hn) as (i & Hi & Hcov).
      exists i. split; [exact Hi|].
      assert (E1 : (sumq (fun e => elen B e * indq (mem_edge e (pairs (P i)))) c ==
                    sumq (fun e => elen B e * a (Edge (fst e) (snd e) i)) c)%Q).
      { apply sumq_ext. intros e He.
        assert (HeE : In e (g_edges (p_graph B))) by (apply (Hcons c e); [apply nth_error_In with n; exact Hn|exact He]).
        rewrite (Q i e Hi HeE).
        destruct (xval_bin a i e (edge_bin (p_graph B) (p_k B) a Hec i e Hi HeE)) as [X _]. rewrite X. reflexivity. }
      rewrite E1. exact Hcov.
  - intros (P & Hpc & Hcov).
    destruct (finite_choice (p_cons B)
                (fun n c i => In i (layers (p_k B)) /\
                   (cons_length B c * p_cov B <= sumq (fun e => elen B e * indq (mem_edge e (pairs (P i)))) c)%Q)
                Hcov) as (ch & Hch).
    exists (asg P (fun _ => 0%Q) ch). apply kpc_complete; try assumption.
    intros c e Hc He. apply (Hcons c e Hc He).
Qed.

(* MinPathCover: with a solver deciding each generated LP exactly, the search returns the least number of paths of any
   cover (that realises the constraints), provided that number lies in the searched range *)
Theorem mpc_returns_minimum (inst : nat -> path_inst) (ignore : list PathEnc.edge) (rank : node -> nat) (Rm : nat)
        (feasible : nat -> bool) (lb ub kopt : nat) (sts : list raw) :
  (forall k, p_k (inst k) = k /\ wf_graph (p_graph (inst k)) /\ p_allow_empty (inst k) = false /\
             (forall u v, In (u, v) (g_edges (p_graph (inst k))) -> (rank u < rank v)%nat) /\
             (forall c e, In c (p_cons (inst k)) -> In e c -> In e (g_edges (p_graph (inst k))) /\ (0 <= elen (inst k) e)%Q)) ->
  (forall v, (rank v <= Rm)%nat) ->
  (forall k, feasible k = true <-> exists a, sat a (encode_kpc (inst k) ignore)) ->
  (forall i, (i < ub - lb)%nat -> exists x, nth_error sts i = Some x /\
             status_of x = if feasible (lb + i)%nat then Optimal else Infeasible) ->
  (exists P, path_cover (inst kopt) ignore P /\ constraints_covered (inst kopt) P) ->
  (forall k, (k < kopt)%nat -> ~ exists P, path_cover (inst k) ignore P /\ constraints_covered (inst k) P) ->
  (lb <= kopt < ub)%nat ->
  so_res (mpc_solve true lb ub sts) = Solved kopt.
Proof.
  intros Hinst HR Hspec Hsts Hopt Hmin Hrange.
  apply (search_min feasible lb ub kopt sts Hsts).
  - apply Hspec. destruct (Hinst kopt) as (_ & WF & Hae & Hrk & Hc).
    apply (kpc_feasible_iff (inst kopt) ignore rank Rm WF Hae Hrk HR Hc). exact Hopt.
  - intros k Hk. destruct (feasible k) eqn:F; [exfalso|reflexivity].
    apply Hspec in F. destruct (Hinst k) as (_ & WF & Hae & Hrk & Hc).
    apply (kpc_feasible_iff (inst k) ignore rank Rm WF Hae Hrk HR Hc) in F. exact (Hmin k Hk F).
  - exact Hrange.
Qed.
