(* Dilworth's theorem for a decidable strict partial order on a finite duplicate-free list (Galvin's proof: remove a
   maximal element), and its instance for edges of a DAG ordered by reachability: the minimum number of source-to-sink
   paths covering a set X of edges equals the maximum size of a subset of X that no path of the graph passes twice. *)
From Coq Require Import List NArith Bool Arith Lia Permutation.
Import ListNotations.
Set Default Timeout 60.

Section Dilworth.
  Variable T : Type.
  Variable eqb : T -> T -> bool.
  Hypothesis eqb_spec : forall a b, eqb a b = true <-> a = b.
  Variable ltb : T -> T -> bool.
  Hypothesis lt_irrefl : forall a, ltb a a = false.
  Hypothesis lt_trans : forall a b c, ltb a b = true -> ltb b c = true -> ltb a c = true.

  Lemma eq_dec : forall a b : T, {a = b} + {a <> b}.
  Proof. intros a b. destruct (eqb a b) eqn:E; [left; apply eqb_spec; exact E|right; intros X; apply eqb_spec in X; congruence]. Qed.

  Definition mem (x : T) (l : list T) : bool := existsb (eqb x) l.
  Lemma mem_In x l : mem x l = true <-> In x l.
  Proof.
    unfold mem. rewrite existsb_exists. split.
    - intros (y & Hy & E). apply eqb_spec in E. subst. exact Hy.
    - intros H. exists x. split; [exact H|apply eqb_spec; reflexivity].
  Qed.

  Definition antichain (A : list T) : Prop := forall a b, In a A -> In b A -> ltb a b = false.
  Definition chain (c : list T) : Prop := forall a b, In a c -> In b c -> a = b \/ ltb a b = true \/ ltb b a = true.
  Definition antichainb (A : list T) : bool := forallb (fun a => forallb (fun b => negb (ltb a b)) A) A.
  Lemma antichainb_spec A : antichainb A = true <-> antichain A.
  Proof.
    unfold antichainb, antichain. rewrite forallb_forall. split.
    - intros H a b Ha Hb. specialize (H a Ha). rewrite forallb_forall in H. specialize (H b Hb). apply negb_true_iff in H. exact H.
    - intros H a Ha. apply forallb_forall. intros b Hb. apply negb_true_iff. apply H; assumption.
  Qed.

  (* ---- a maximal element of a non-empty list ---- *)
  Fixpoint maxel (d : T) (l : list T) : T :=
    match l with
    | [] => d
    | x :: r => match r with [] => x | _ => let m := maxel d r in if ltb m x then x else m end
    end.
  Lemma maxel_spec d l : l <> [] -> In (maxel d l) l /\ forall b, In b l -> ltb (maxel d l) b = false.
  Proof.
    induction l as [|x r IH]; [congruence|]. intros _. destruct r as [|y r'].
    - cbn. split; [left; reflexivity|]. intros b [<-|[]]. apply lt_irrefl.
    - destruct (IH ltac:(discriminate)) as [Hin Hmax]. set (m := maxel d (y :: r')) in *.
      change (maxel d (x :: y :: r')) with (if ltb m x then x else m).
      destruct (ltb m x) eqn:L.
      + split; [left; reflexivity|]. intros b [<-|Hb]; [apply lt_irrefl|].
        destruct (ltb x b) eqn:X; [|reflexivity]. pose proof (lt_trans m x b L X) as Y. rewrite (Hmax b Hb) in Y. discriminate.
      + split; [right; exact Hin|]. intros b [<-|Hb]; [exact L|apply Hmax; exact Hb].
  Qed.

  (* ---- sublists ---- *)
  Fixpoint subs (l : list T) : list (list T) :=
    match l with [] => [[]] | x :: r => map (cons x) (subs r) ++ subs r end.
  Lemma subs_incl l : forall S, In S (subs l) -> incl S l.
  Proof.
    induction l as [|x r IH]; intros S H.
    - destruct H as [<-|[]]. intros y [].
    - cbn [subs] in H. apply in_app_or in H. destruct H as [H|H].
      + apply in_map_iff in H. destruct H as (S' & <- & H). intros y [<-|Hy]; [left; reflexivity|right; apply (IH S' H); exact Hy].
      + intros y Hy. right. apply (IH S H). exact Hy.
  Qed.
  Lemma subs_nodup l : NoDup l -> forall S, In S (subs l) -> NoDup S.
  Proof.
    induction 1 as [|x r Hx ND IH]; intros S H.
    - destruct H as [<-|[]]. constructor.
    - cbn [subs] in H. apply in_app_or in H. destruct H as [H|H]; [|apply IH; exact H].
      apply in_map_iff in H. destruct H as (S' & <- & H). constructor; [|apply IH; exact H].
      intros X. apply Hx. apply (subs_incl r S' H). exact X.
  Qed.
  Lemma filter_in_subs (p : T -> bool) l : In (filter p l) (subs l).
  Proof.
    induction l as [|x r IH]; [left; reflexivity|]. cbn [filter subs]. apply in_or_app. destruct (p x).
    - left. apply in_map. exact IH.
    - right. exact IH.
  Qed.

  (* ---- covers by chains, index of the chain of an element ---- *)
  Definition covers (C : list (list T)) (X : list T) : Prop := forall x, In x X -> exists c, In c C /\ In x c.
  Fixpoint idx (C : list (list T)) (x : T) : nat :=
    match C with [] => 0 | c :: r => if mem x c then 0 else S (idx r x) end.
  Lemma idx_spec C x : (exists c, In c C /\ In x c) -> idx C x < length C /\ In x (nth (idx C x) C []).
  Proof.
    induction C as [|c r IH]; intros (c0 & Hc0 & Hx); [destruct Hc0|]. cbn [idx]. destruct (mem x c) eqn:M.
    - cbn [length nth]. split; [lia|apply mem_In; exact M].
    - destruct Hc0 as [-> | Hc0]; [apply mem_In in Hx; congruence|].
      destruct (IH (ex_intro _ c0 (conj Hc0 Hx))) as [A B]. cbn [length nth]. split; [lia|exact B].
  Qed.

  Lemma nth_chain C i : (forall c, In c C -> chain c) -> chain (nth i C []).
  Proof.
    intros H. destruct (nth_in_or_default i C []) as [Hin| ->]; [apply H; exact Hin|]. intros a b [].
  Qed.

  Lemma idx_inj C X B : (forall c, In c C -> chain c) -> covers C X -> incl B X -> antichain B ->
    forall a b, In a B -> In b B -> idx C a = idx C b -> a = b.
  Proof.
    intros Hch Hcov HB Hanti a b Ha Hb E.
    destruct (idx_spec C a (Hcov a (HB a Ha))) as [_ Ia]. destruct (idx_spec C b (Hcov b (HB b Hb))) as [_ Ib]. rewrite E in Ia.
    destruct (nth_chain C (idx C b) Hch a b Ia Ib) as [H|[H|H]]; [exact H| |].
    - rewrite (Hanti a b Ha Hb) in H. discriminate.
    - rewrite (Hanti b a Hb Ha) in H. discriminate.
  Qed.

  Lemma map_idx_nodup C X B : (forall c, In c C -> chain c) -> covers C X -> incl B X -> antichain B -> NoDup B -> NoDup (map (idx C) B).
  Proof.
    intros Hch Hcov HB Hanti ND. induction ND as [|x l Hx ND IH]; [constructor|]. cbn [map]. constructor.
    - intros Hin. apply in_map_iff in Hin. destruct Hin as (y & E & Hy). apply Hx.
      rewrite (idx_inj C X (x :: l) Hch Hcov HB Hanti x y (or_introl eq_refl) (or_intror Hy) (eq_sym E)). exact Hy.
    - apply IH; [intros y Hy; apply HB; right; exact Hy|intros a b Ha Hb; apply Hanti; right; assumption].
  Qed.

  (* weak duality: an antichain is at most as large as any chain cover *)
  Lemma weak_duality C X B : (forall c, In c C -> chain c) -> covers C X -> incl B X -> antichain B -> NoDup B -> length B <= length C.
  Proof.
    intros Hch Hcov HB Hanti ND. rewrite <- (map_length (idx C) B), <- (seq_length (length C) 0).
    apply NoDup_incl_length; [apply (map_idx_nodup C X B); assumption|].
    intros i Hi. apply in_map_iff in Hi. destruct Hi as (y & <- & Hy). apply in_seq.
    destruct (idx_spec C y (Hcov y (HB y Hy))) as [L _]. lia.
  Qed.

  (* an antichain as large as the cover meets every chain *)
  Lemma hits_every_chain C X B : (forall c, In c C -> chain c) -> covers C X -> incl B X -> antichain B -> NoDup B ->
    length B = length C -> forall i, i < length C -> exists y, In y B /\ idx C y = i /\ In y (nth i C []).
  Proof.
    intros Hch Hcov HB Hanti ND Hlen i Hi.
    assert (Hincl : incl (seq 0 (length C)) (map (idx C) B)).
    { apply NoDup_length_incl; [apply (map_idx_nodup C X B); assumption|rewrite map_length, seq_length; lia|].
      intros j Hj. apply in_map_iff in Hj. destruct Hj as (y & <- & Hy). apply in_seq.
      destruct (idx_spec C y (Hcov y (HB y Hy))) as [L _]. lia. }
    assert (Hin : In i (map (idx C) B)) by (apply Hincl; apply in_seq; lia).
    apply in_map_iff in Hin. destruct Hin as (y & E & Hy). exists y. split; [exact Hy|]. split; [exact E|].
    rewrite <- E. apply (idx_spec C y (Hcov y (HB y Hy))).
  Qed.

  Lemma filter_len_le (p : T -> bool) l : length (filter p l) <= length l.
  Proof. induction l as [|x r IH]; [apply le_n|]. cbn [filter]. destruct (p x); cbn [length]; lia. Qed.
  Lemma filter_length_lt (p : T -> bool) l a : In a l -> p a = false -> length (filter p l) < length l.
  Proof.
    induction l as [|x r IH]; [intros []|]. intros [->|H] Hp; cbn [filter length].
    - rewrite Hp. pose proof (filter_len_le p r). lia.
    - specialize (IH H Hp). destruct (p x); cbn [length]; lia.
  Qed.
  Lemma nodup_map_inj {U} (f : nat -> U) l : (forall i j, In i l -> In j l -> f i = f j -> i = j) -> NoDup l -> NoDup (map f l).
  Proof.
    intros Hinj ND. induction ND as [|x r Hx ND IH]; [constructor|]. cbn [map]. constructor.
    - intros H. apply in_map_iff in H. destruct H as (y & E & Hy). apply Hx.
      rewrite (Hinj x y (or_introl eq_refl) (or_intror Hy) (eq_sym E)). exact Hy.
    - apply IH. intros i j Hi Hj. apply Hinj; right; assumption.
  Qed.

  Definition dilworth_statement (X : list T) : Prop :=
    exists (C : list (list T)) (A : list T),
      (forall c, In c C -> chain c /\ incl c X /\ c <> []) /\ covers C X /\
      NoDup A /\ incl A X /\ antichain A /\ length A = length C.

  Section Step.
    Variable X' : list T.
    Variable C' : list (list T).
    Hypothesis HC' : forall c, In c C' -> chain c /\ incl c X' /\ c <> [].
    Hypothesis Hcov' : covers C' X'.
    Let k := length C'.
    Definition goodb (z : T) : bool :=
      existsb (fun S => antichainb S && (length S =? k) && mem z S) (subs X').
    Hypothesis NDX' : NoDup X'.

    Lemma good_intro B z : incl B X' -> NoDup B -> antichain B -> length B = k -> In z B -> goodb z = true.
    Proof.
      intros HB ND Hanti Hlen Hz. unfold goodb. apply existsb_exists.
      exists (filter (fun x => mem x B) X'). split; [apply filter_in_subs|].
      assert (H1 : incl (filter (fun x => mem x B) X') B).
      { intros y Hy. apply filter_In in Hy. apply mem_In. apply Hy. }
      assert (H2 : incl B (filter (fun x => mem x B) X')).
      { intros y Hy. apply filter_In. split; [apply HB; exact Hy|apply mem_In; exact Hy]. }
      assert (NDf : NoDup (filter (fun x => mem x B) X')) by (apply NoDup_filter; exact NDX').
      rewrite !andb_true_iff. repeat split.
      - apply antichainb_spec. intros a b Ha Hb. apply Hanti; apply H1; assumption.
      - apply Nat.eqb_eq. rewrite <- Hlen. apply Nat.le_antisymm; apply NoDup_incl_length; assumption.
      - apply mem_In. apply H2. exact Hz.
    Qed.
    Lemma good_elim z : goodb z = true -> exists B, incl B X' /\ NoDup B /\ antichain B /\ length B = k /\ In z B.
    Proof.
      unfold goodb. intros H. apply existsb_exists in H. destruct H as (S & HS & H).
      rewrite !andb_true_iff in H. destruct H as [[H1 H2] H3]. exists S.
      split; [apply subs_incl; exact HS|]. split; [apply (subs_nodup X' NDX'); exact HS|].
      split; [apply antichainb_spec; exact H1|]. split; [apply Nat.eqb_eq; exact H2|apply mem_In; exact H3].
    Qed.

    Let chains' : forall c, In c C' -> chain c := fun c H => proj1 (HC' c H).

    Lemma good_hits B i : incl B X' -> NoDup B -> antichain B -> length B = k -> i < k ->
      exists y, In y B /\ idx C' y = i /\ In y (nth i C' []) /\ goodb y = true.
    Proof.
      intros HB ND Hanti Hlen Hi.
      destruct (hits_every_chain C' X' B chains' Hcov' HB Hanti ND Hlen i Hi) as (y & Hy & E & Hin).
      exists y. repeat split; try assumption. apply (good_intro B); assumption.
    Qed.

    Variable d : T.
    Variable A0 : list T.
    Hypothesis HA0 : NoDup A0 /\ incl A0 X' /\ antichain A0 /\ length A0 = k.
    (* the topmost element of chain i that lies on some antichain of size k *)
    Definition top (i : nat) : T := maxel d (filter goodb (nth i C' [])).

    Lemma top_spec i : i < k ->
      In (top i) (nth i C' []) /\ goodb (top i) = true /\
      forall y, In y (nth i C' []) -> goodb y = true -> y = top i \/ ltb y (top i) = true.
    Proof.
      intros Hi. destruct HA0 as (ND0 & Hin0 & Hanti0 & Hlen0).
      assert (Hne : filter goodb (nth i C' []) <> []).
      { destruct (good_hits A0 i Hin0 ND0 Hanti0 Hlen0 Hi) as (y & _ & _ & Hy & Hg).
        intros E. assert (X : In y (filter goodb (nth i C' []))) by (apply filter_In; split; assumption).
        rewrite E in X. destruct X. }
      destruct (maxel_spec d _ Hne) as [Hin Hmax]. fold (top i) in Hin, Hmax.
      apply filter_In in Hin. destruct Hin as [Hin Hg]. split; [exact Hin|]. split; [exact Hg|].
      intros y Hy Hgy. specialize (Hmax y ltac:(apply filter_In; split; assumption)).
      destruct (nth_chain C' i chains' y (top i) Hy Hin) as [H|[H|H]]; [left; exact H|right; exact H|congruence].
    Qed.

    Lemma top_idx i : i < k -> idx C' (top i) = i.
    Proof.
      intros Hi. destruct (top_spec i Hi) as (Hin & Hg & _).
      destruct (good_elim _ Hg) as (B & HB & ND & Hanti & Hlen & Hz).
      destruct (good_hits B i HB ND Hanti Hlen Hi) as (y & Hy & E & Hyin & _).
      destruct (nth_chain C' i chains' y (top i) Hyin Hin) as [H|[H|H]].
      - rewrite <- H. exact E.
      - rewrite (Hanti y (top i) Hy Hz) in H. discriminate.
      - rewrite (Hanti (top i) y Hz Hy) in H. discriminate.
    Qed.

    Lemma top_antichain i j : i < k -> j < k -> ltb (top i) (top j) = false.
    Proof.
      intros Hi Hj. destruct (ltb (top i) (top j)) eqn:L; [exfalso|reflexivity].
      destruct (top_spec j Hj) as (_ & Hg & _).
      destruct (good_elim _ Hg) as (B & HB & ND & Hanti & Hlen & Hz).
      destruct (good_hits B i HB ND Hanti Hlen Hi) as (y & Hy & _ & Hyin & Hgy).
      destruct (top_spec i Hi) as (_ & _ & Hmax). destruct (Hmax y Hyin Hgy) as [E|Hlt].
      - subst y. rewrite (Hanti _ _ Hy Hz) in L. discriminate.
      - pose proof (lt_trans _ _ _ Hlt L) as Y. rewrite (Hanti _ _ Hy Hz) in Y. discriminate.
    Qed.

    Definition tops : list T := map top (seq 0 k).
    Lemma tops_spec : NoDup tops /\ incl tops X' /\ antichain tops /\ length tops = k.
    Proof.
      unfold tops. split; [|split; [|split]].
      - apply nodup_map_inj; [|apply seq_NoDup]. intros i j Hi Hj E. apply in_seq in Hi, Hj.
        rewrite <- (top_idx i), <- (top_idx j) by lia. rewrite E. reflexivity.
      - intros x Hx. apply in_map_iff in Hx. destruct Hx as (i & <- & Hi). apply in_seq in Hi.
        destruct (top_spec i ltac:(lia)) as (Hin & _).
        destruct (nth_in_or_default i C' []) as [Hc|Hc]; [|rewrite Hc in Hin; destruct Hin].
        apply (proj1 (proj2 (HC' _ Hc))). exact Hin.
      - intros x y Hx Hy. apply in_map_iff in Hx, Hy. destruct Hx as (i & <- & Hi). destruct Hy as (j & <- & Hj).
        apply in_seq in Hi, Hj. apply top_antichain; lia.
      - rewrite map_length, seq_length. reflexivity.
    Qed.
  End Step.

  Lemma nodup_app_l (l r : list T) : NoDup (l ++ r) -> NoDup l.
  Proof.
    induction l as [|x l IH]; [constructor|]. cbn. intros H. inversion H as [|? ? Hx ND]; subst. constructor; [|apply IH; exact ND].
    intros Y. apply Hx. apply in_or_app. left. exact Y.
  Qed.

  Lemma dilworth_nil : dilworth_statement [].
  Proof.
    exists [], []. split; [intros c []|]. split; [intros x []|]. split; [constructor|]. split; [intros x []|].
    split; [intros x y []|reflexivity].
  Qed.

  Theorem dilworth_n : forall n X, length X <= n -> NoDup X -> dilworth_statement X.
  Proof.
    induction n as [|n IH]; intros X Hlen NDX.
    { destruct X; [|cbn in Hlen; lia]. apply dilworth_nil. }
    destruct X as [|d X0] eqn:EX.
    { apply dilworth_nil. }
    rewrite <- EX in *. assert (Xne : X <> []) by (rewrite EX; discriminate).
    destruct (maxel_spec d X Xne) as [Hain Hamax]. set (a := maxel d X) in *.
    set (X' := filter (fun z => negb (eqb z a)) X).
    assert (HX'in : forall x, In x X' <-> In x X /\ x <> a).
    { intros x. unfold X'. rewrite filter_In, negb_true_iff. split; intros [H1 H2]; (split; [exact H1|]).
      - intros E. apply eqb_spec in E. congruence.
      - destruct (eqb x a) eqn:E; [apply eqb_spec in E; contradiction|reflexivity]. }
    assert (NDX' : NoDup X') by (apply NoDup_filter; exact NDX).
    assert (LX' : length X' < length X).
    { apply (filter_length_lt _ X a Hain). apply negb_false_iff. apply eqb_spec. reflexivity. }
    destruct (IH X' ltac:(lia) NDX') as (C' & A0 & HC' & Hcov' & ND0 & Hin0 & Hanti0 & Hlen0).
    set (k := length C') in *.
    pose proof (tops_spec X' C' HC' Hcov' NDX' d A0 (conj ND0 (conj Hin0 (conj Hanti0 Hlen0)))) as (NDt & Hint & Hantit & Hlent).
    pose proof (top_spec X' C' HC' Hcov' NDX' d A0 (conj ND0 (conj Hin0 (conj Hanti0 Hlen0)))) as Htop.
    set (tp := top X' C' d) in *. set (xs := tops X' C' d) in *.
    destruct (existsb (fun i => ltb (tp i) a) (seq 0 k)) eqn:EC.
    - (* some top lies below a: extend its chain by a and recurse on the rest *)
      apply existsb_exists in EC. destruct EC as (i & Hi & Hlt). apply in_seq in Hi. assert (Hik : i < k) by lia.
      destruct (Htop i Hik) as (Htin & Htg & Htmax).
      set (K := a :: filter (fun z => eqb z (tp i) || ltb z (tp i)) (nth i C' [])).
      assert (Hci : In (nth i C' []) C') by (apply nth_In; exact Hik).
      assert (HKin : forall z, In z K <-> z = a \/ (In z (nth i C' []) /\ (z = tp i \/ ltb z (tp i) = true))).
      { intros z. unfold K. cbn [In]. rewrite filter_In, orb_true_iff, eqb_spec. split; intros [H|H]; auto. }
      assert (HKbelow : forall z, In z K -> z = a \/ ltb z a = true).
      { intros z Hz. apply HKin in Hz. destruct Hz as [Hz|[_ [Hz|Hz]]]; [left; exact Hz|right; subst z; exact Hlt|].
        right. apply (lt_trans _ _ _ Hz Hlt). }
      set (X'' := filter (fun z => negb (mem z K)) X).
      assert (HX''in : forall x, In x X'' <-> In x X /\ ~ In x K).
      { intros x. unfold X''. rewrite filter_In, negb_true_iff. split; intros [H1 H2]; (split; [exact H1|]).
        - intros E. apply mem_In in E. congruence.
        - destruct (mem x K) eqn:E; [apply mem_In in E; contradiction|reflexivity]. }
      assert (NDX'' : NoDup X'') by (apply NoDup_filter; exact NDX).
      assert (LX'' : length X'' < length X).
      { apply (filter_length_lt _ X a Hain). apply negb_false_iff. apply mem_In. left. reflexivity. }
      assert (HX''X' : incl X'' X').
      { intros x Hx. apply HX''in in Hx. apply HX'in. split; [apply Hx|]. intros E. apply (proj2 Hx). apply HKin. left. exact E. }
      destruct (IH X'' ltac:(lia) NDX'') as (C'' & A'' & HC'' & Hcov'' & ND2 & Hin2 & Hanti2 & Hlen2).
      exists (K :: C''), A0.
      assert (HchK : chain K).
      { intros x y Hx Hy. apply HKin in Hx, Hy.
        assert (Hb : forall z, In z (nth i C' []) /\ (z = tp i \/ ltb z (tp i) = true) -> ltb z a = true).
        { intros z [_ [->|Hz]]; [exact Hlt|apply (lt_trans _ _ _ Hz Hlt)]. }
        destruct Hx as [->|Hx], Hy as [->|Hy].
        - left. reflexivity.
        - right. right. apply Hb. exact Hy.
        - right. left. apply Hb. exact Hx.
        - apply (proj1 (HC' _ Hci)); [apply Hx|apply Hy]. }
      assert (HK : forall c, In c (K :: C'') -> chain c /\ incl c X /\ c <> []).
      { intros c [<-|Hc].
        - split; [exact HchK|]. split; [|discriminate]. intros z Hz. apply HKin in Hz. destruct Hz as [->|[Hz _]]; [exact Hain|].
          apply HX'in. apply (proj1 (proj2 (HC' _ Hci))). exact Hz.
        - destruct (HC'' c Hc) as (H1 & H2 & H3). split; [exact H1|]. split; [|exact H3]. intros z Hz. apply (HX''in z). apply H2. exact Hz. }
      assert (HcovK : covers (K :: C'') X).
      { intros x Hx. destruct (mem x K) eqn:M.
        - exists K. split; [left; reflexivity|apply mem_In; exact M].
        - destruct (Hcov'' x) as (c & Hc & Hxc).
          + apply HX''in. split; [exact Hx|]. intros E. apply mem_In in E. congruence.
          + exists c. split; [right; exact Hc|exact Hxc]. }
      assert (HA0X : incl A0 X) by (intros z Hz; apply (HX'in z); apply Hin0; exact Hz).
      split; [exact HK|]. split; [exact HcovK|]. split; [exact ND0|]. split; [exact HA0X|]. split; [exact Hanti0|].
      cbn [length].
      pose proof (weak_duality (K :: C'') X A0 (fun c H => proj1 (HK c H)) HcovK HA0X Hanti0 ND0) as Hwd. cbn [length] in Hwd.
      assert (Hm : length C'' < k).
      { destruct (Nat.lt_ge_cases (length C'') k) as [H|H]; [exact H|exfalso].
        set (B := firstn k A'').
        assert (HBA : incl B A'') by (intros z Hz; rewrite <- (firstn_skipn k A''); apply in_or_app; left; exact Hz).
        assert (NDB : NoDup B).
        { unfold B. rewrite <- (firstn_skipn k A'') in ND2. apply nodup_app_l in ND2. exact ND2. }
        assert (HBX : incl B X') by (intros z Hz; apply HX''X'; apply Hin2; apply HBA; exact Hz).
        assert (HBanti : antichain B) by (intros x y Hx Hy; apply Hanti2; apply HBA; assumption).
        assert (HBlen : length B = k) by (unfold B; apply firstn_length_le; lia).
        destruct (good_hits X' C' HC' Hcov' NDX' B i HBX NDB HBanti HBlen Hik) as (y & Hy & _ & Hyin & Hyg).
        assert (HyK : In y K). { apply HKin. right. split; [exact Hyin|]. apply Htmax; assumption. }
        apply (proj2 (proj1 (HX''in y) (Hin2 y (HBA y Hy)))). exact HyK. }
      lia.
    - (* a is incomparable with every top: one more chain, one more antichain element *)
      assert (Hinc : forall i, i < k -> ltb (tp i) a = false).
      { intros i Hi. destruct (ltb (tp i) a) eqn:L; [|reflexivity].
        assert (Y : existsb (fun i => ltb (tp i) a) (seq 0 k) = true).
        { apply existsb_exists. exists i. split; [apply in_seq; lia|exact L]. }
        congruence. }
      exists (C' ++ [[a]]), (a :: xs).
      assert (Hxs : forall z, In z xs -> exists i, i < k /\ z = tp i).
      { intros z Hz. unfold xs, tops in Hz. apply in_map_iff in Hz. destruct Hz as (i & <- & Hi). apply in_seq in Hi.
        exists i. split; [lia|reflexivity]. }
      split; [|split; [|split; [|split; [|split]]]].
      + intros c Hc. apply in_app_or in Hc. destruct Hc as [Hc|[<-|[]]].
        * destruct (HC' c Hc) as (H1 & H2 & H3). split; [exact H1|]. split; [|exact H3]. intros z Hz. apply (HX'in z). apply H2. exact Hz.
        * split; [intros x y [<-|[]] [<-|[]]; left; reflexivity|]. split; [intros z [<-|[]]; exact Hain|discriminate].
      + intros x Hx. destruct (eq_dec x a) as [->|Hne].
        * exists [a]. split; [apply in_or_app; right; left; reflexivity|left; reflexivity].
        * destruct (Hcov' x) as (c & Hc & Hxc); [apply HX'in; split; assumption|].
          exists c. split; [apply in_or_app; left; exact Hc|exact Hxc].
      + constructor; [|exact NDt]. intros Hin. apply Hint in Hin. apply HX'in in Hin. apply (proj2 Hin). reflexivity.
      + intros z [<-|Hz]; [exact Hain|]. apply (HX'in z). apply Hint. exact Hz.
      + intros x y [<-|Hx] [<-|Hy].
        * apply lt_irrefl.
        * apply Hamax. apply (HX'in y). apply Hint. exact Hy.
        * destruct (Hxs x Hx) as (i & Hi & ->). apply Hinc. exact Hi.
        * apply Hantit; assumption.
      + cbn [length]. rewrite app_length. cbn [length]. fold k. lia.
  Qed.

  (* Dilworth's theorem: a finite strict partial order has a chain cover and an antichain of the same size *)
  Theorem dilworth X : NoDup X -> dilworth_statement X.
  Proof. intros ND. apply (dilworth_n (length X) X (le_n _) ND). Qed.

  (* ---- a chain can be listed in increasing order ---- *)
  Fixpoint minel (d : T) (l : list T) : T :=
    match l with
    | [] => d
    | x :: r => match r with [] => x | _ => let m := minel d r in if ltb x m then x else m end
    end.
  Lemma minel_spec d l : l <> [] -> In (minel d l) l /\ forall b, In b l -> ltb b (minel d l) = false.
  Proof.
    induction l as [|x r IH]; [congruence|]. intros _. destruct r as [|y r'].
    - cbn. split; [left; reflexivity|]. intros b [<-|[]]. apply lt_irrefl.
    - destruct (IH ltac:(discriminate)) as [Hin Hmin]. set (m := minel d (y :: r')) in *.
      change (minel d (x :: y :: r')) with (if ltb x m then x else m).
      destruct (ltb x m) eqn:L.
      + split; [left; reflexivity|]. intros b [<-|Hb]; [apply lt_irrefl|].
        destruct (ltb b x) eqn:X; [|reflexivity]. pose proof (lt_trans b x m X L) as Y. rewrite (Hmin b Hb) in Y. discriminate.
      + split; [right; exact Hin|]. intros b [<-|Hb]; [exact L|apply Hmin; exact Hb].
  Qed.

  Fixpoint linked (l : list T) : Prop :=
    match l with a :: ((b :: _) as r) => ltb a b = true /\ linked r | _ => True end.

  Lemma chain_linked : forall n c, length c <= n -> chain c ->
    exists s, (forall z, In z s <-> In z c) /\ linked s /\ (forall h b, hd_error s = Some h -> In b c -> ltb b h = false) /\ NoDup s.
  Proof.
    induction n as [|n IH]; intros c Hlen Hch.
    { destruct c; [|cbn in Hlen; lia]. exists []. split; [tauto|]. split; [exact I|]. split; [intros h b H; discriminate|constructor]. }
    destruct c as [|d c0] eqn:Ec.
    { exists []. split; [tauto|]. split; [exact I|]. split; [intros h b H; discriminate|constructor]. }
    rewrite <- Ec in *. assert (Hne : c <> []) by (rewrite Ec; discriminate).
    destruct (minel_spec d c Hne) as [Hein Hemin]. set (e := minel d c) in *.
    set (c' := filter (fun z => negb (eqb z e)) c).
    assert (Hc'in : forall x, In x c' <-> In x c /\ x <> e).
    { intros x. unfold c'. rewrite filter_In, negb_true_iff. split; intros [H1 H2]; (split; [exact H1|]).
      - intros E. apply eqb_spec in E. congruence.
      - destruct (eqb x e) eqn:E; [apply eqb_spec in E; contradiction|reflexivity]. }
    assert (Lc' : length c' < length c).
    { apply (filter_length_lt _ c e Hein). apply negb_false_iff. apply eqb_spec. reflexivity. }
    destruct (IH c' ltac:(lia)) as (s' & Hs'in & Hlk & Hhd & NDs').
    { intros x y Hx Hy. apply Hch; [apply (Hc'in x)|apply (Hc'in y)]; assumption. }
    exists (e :: s'). split; [|split; [|split]].
    - intros z. cbn [In]. rewrite Hs'in, Hc'in. split.
      + intros [<-|[H _]]; assumption.
      + intros H. destruct (eq_dec e z) as [E|E]; [left; exact E|right; split; [exact H|intros X; apply E; symmetry; exact X]].
    - destruct s' as [|h s'']; [exact I|]. split; [|exact Hlk].
      assert (Hh : In h c') by (apply Hs'in; left; reflexivity). apply Hc'in in Hh. destruct Hh as [Hh Hhe].
      destruct (Hch e h Hein Hh) as [E|[L|L]]; [congruence|exact L|]. rewrite (Hemin h Hh) in L. discriminate.
    - intros h b Hh Hb. cbn in Hh. injection Hh as <-. apply Hemin. exact Hb.
    - constructor; [|exact NDs']. intros Hin. apply Hs'in in Hin. apply Hc'in in Hin. apply (proj2 Hin). reflexivity.
  Qed.
End Dilworth.

(* ================================================================================================================= *)
(* The instance: edges of a DAG ordered by reachability *)
From Coq Require Import QArith.
From FP Require Import Lin PathEnc Euler EulerProofs1 PathEncProofs PathEncComplete PathCoverComplete AntichainBound.
From FP Require Reach ReachProofs1.
Local Close Scope Q_scope.
Local Open Scope nat_scope.

(* no path of the graph passes two different edges of A' (graph-relative form of AntichainBound.incompatible_edges,
   which asks the same of every duplicate-free node list, whether or not its steps are edges of the graph) *)
Definition incompatible_in (G A' : list PathEnc.edge) : Prop :=
  forall e1 e2 l, In e1 A' -> In e2 A' -> e1 <> e2 -> NoDup l -> incl (pairs l) G -> In e1 (pairs l) -> In e2 (pairs l) -> False.

Lemma incompatible_edges_in G A' : incompatible_edges A' -> incompatible_in G A'.
Proof. intros H e1 e2 l H1 H2 Hne ND _ I1 I2. exact (H e1 e2 l H1 H2 Hne ND I1 I2). Qed.

Lemma pairs_app_last (a b : list node) (d : node) : a <> [] -> pairs (a ++ b) = pairs a ++ pairs (last a d :: b).
Proof.
  induction a as [|x a IH]; intros Hne; [contradiction|]. destruct a as [|y a'].
  - reflexivity.
  - change (pairs ((x :: y :: a') ++ b)) with ((x, y) :: pairs ((y :: a') ++ b)). rewrite IH by discriminate.
    rewrite pairs_cons2. reflexivity.
Qed.
Lemma last_app_ne {A} (a b : list A) d : b <> [] -> last (a ++ b) d = last b d.
Proof.
  induction a as [|x a IH]; intros Hne; [reflexivity|]. cbn [app]. destruct (a ++ b) as [|y r] eqn:E.
  - destruct a; [cbn in E; contradiction|discriminate].
  - change (last (x :: y :: r) d) with (last (y :: r) d). apply IH. exact Hne.
Qed.
Lemma edge_eqb_eq (a b : PathEnc.edge) : edge_eqb a b = true <-> a = b.
Proof.
  unfold edge_eqb. rewrite andb_true_iff, !N.eqb_eq. destruct a, b. cbn. split; [intros [-> ->]; reflexivity|intros H; injection H; auto].
Qed.

Section DagOrder.
  Variable G : list PathEnc.edge.
  Variable rank : node -> nat.
  Variable Rm : nat.
  Hypothesis Hrank : forall u v, In (u, v) G -> rank u < rank v.
  Hypothesis HR : forall v, rank v <= Rm.

  Definition conn (u v : node) : Prop := exists m, incl (pairs (u :: m)) G /\ last (u :: m) u = v.

  Lemma conn_refl u : conn u u.
  Proof. exists []. split; [intros e []|reflexivity]. Qed.
  Lemma conn_trans u v w : conn u v -> conn v w -> conn u w.
  Proof.
    intros (m & Hm & Lm) (m' & Hm' & Lm'). exists (m ++ m'). split.
    - change (u :: m ++ m') with ((u :: m) ++ m'). rewrite (pairs_app_last (u :: m) m' u) by discriminate. rewrite Lm.
      intros e He. apply in_app_or in He. destruct He; auto.
    - destruct m' as [|y m'']; [rewrite app_nil_r; cbn in Lm'; congruence|].
      change (u :: m ++ y :: m'') with ((u :: m) ++ y :: m''). rewrite last_app_ne by discriminate.
      rewrite <- Lm'. rewrite !last_cons_default. reflexivity.
  Qed.
  Lemma conn_edge u v : In (u, v) G -> conn u v.
  Proof. intros H. exists [v]. split; [intros e [<-|[]]; exact H|reflexivity]. Qed.

  Lemma walk_rank : forall m x, incl (pairs (x :: m)) G -> NoDup (x :: m) /\ forall v, In v m -> rank x < rank v.
  Proof.
    induction m as [|y r IH]; intros x Hin.
    - split; [constructor; [intros []|constructor]|intros v []].
    - rewrite pairs_cons2 in Hin.
      assert (Hxy : rank x < rank y) by (apply Hrank, Hin; left; reflexivity).
      destruct (IH y (fun e He => Hin e (or_intror He))) as [ND Hlt].
      assert (Hall : forall v, In v (y :: r) -> rank x < rank v).
      { intros v [<-|Hv]; [exact Hxy|]. specialize (Hlt v Hv). lia. }
      split; [|exact Hall]. constructor; [|exact ND]. intros Hx. specialize (Hall x Hx). lia.
  Qed.
  Lemma conn_rank u v : conn u v -> rank u <= rank v.
  Proof.
    intros (m & Hm & Lm). destruct (walk_rank m u Hm) as [_ H]. destruct m as [|y r]; [cbn in Lm; subst; lia|].
    assert (In v (y :: r)). { rewrite <- Lm. rewrite last_cons_default. destruct (exists_last (l := y :: r) ltac:(discriminate)) as (l' & z & E).
      rewrite E. rewrite last_last. apply in_or_app. right. left. reflexivity. }
    specialize (H v H0). lia.
  Qed.

  (* reachability as computed by the verified closure *)
  Definition nodes_of : list node := nodup N.eq_dec (map fst G ++ map snd G).
  Lemma nodes_of_in e : In e G -> In (fst e) nodes_of /\ In (snd e) nodes_of.
  Proof.
    intros H. unfold nodes_of. rewrite !nodup_In. split; apply in_or_app; [left|right]; apply in_map; exact H.
  Qed.
  Lemma conn_reach u v : conn u v <-> Reach.greach G u v.
  Proof.
    unfold Reach.greach. split.
    - intros (m & Hm & Lm). revert u v Hm Lm. induction m as [|y r IH]; intros u v Hm Lm.
      + cbn in Lm. subst. constructor.
      + rewrite pairs_cons2 in Hm. rewrite last_cons_ne in Lm by discriminate.
        assert (R : Reach.reach (Reach.succs_of G) y v).
        { apply IH; [intros e He; apply Hm; right; exact He|]. rewrite <- Lm. rewrite !last_cons_default. reflexivity. }
        eapply ReachProofs1.reach_trans; [|exact R].
        eapply Reach.reach_step; [constructor|]. apply ReachProofs1.succs_of_In. apply Hm. left. reflexivity.
    - induction 1 as [|x y R IH Hy]; [apply conn_refl|].
      apply (conn_trans u x y IH). apply conn_edge. apply ReachProofs1.succs_of_In. exact Hy.
  Qed.

  Definition reachb (u v : node) : bool := Reach.memN v (Reach.closure nodes_of (Reach.succs_of G) u).
  Lemma reachb_spec u v : In u nodes_of -> (reachb u v = true <-> conn u v).
  Proof.
    intros Hu. unfold reachb. rewrite ReachProofs1.memN_In, conn_reach. apply ReachProofs1.closure_correct_N.
    - apply NoDup_nodup.
    - intros x z _ Hz. apply ReachProofs1.succs_of_In in Hz. exact (proj2 (nodes_of_in (x, z) Hz)).
    - exact Hu.
  Qed.

  (* e1 before e2: both are edges of G and the tail of e2 is reachable from the head of e1 *)
  Definition before (e1 e2 : PathEnc.edge) : bool := mem_edge e1 G && mem_edge e2 G && reachb (snd e1) (fst e2).
  Lemma before_spec e1 e2 : before e1 e2 = true <-> In e1 G /\ In e2 G /\ conn (snd e1) (fst e2).
  Proof.
    unfold before. rewrite !andb_true_iff, !mem_edge_In. split.
    - intros [[H1 H2] H3]. split; [exact H1|]. split; [exact H2|]. apply reachb_spec; [apply (nodes_of_in e1 H1)|exact H3].
    - intros (H1 & H2 & H3). split; [split; assumption|]. apply reachb_spec; [apply (nodes_of_in e1 H1)|exact H3].
  Qed.
  Lemma before_irrefl e : before e e = false.
  Proof.
    destruct (before e e) eqn:B; [|reflexivity]. apply before_spec in B. destruct B as (He & _ & Hc).
    apply conn_rank in Hc. destruct e as [u v]. specialize (Hrank u v He). cbn in Hc. lia.
  Qed.
  Lemma before_trans a b c : before a b = true -> before b c = true -> before a c = true.
  Proof.
    rewrite !before_spec. intros (Ha & Hb & H1) (_ & Hc & H2). split; [exact Ha|]. split; [exact Hc|].
    apply (conn_trans _ (fst b) _ H1). apply (conn_trans _ (snd b) _); [|exact H2]. apply conn_edge. destruct b; exact Hb.
  Qed.

  (* two edges on one path of G are ordered *)
  Lemma in_pairs_conn : forall l x e, incl (pairs (x :: l)) G -> In e (pairs (x :: l)) -> conn x (fst e).
  Proof.
    induction l as [|y r IH]; intros x e Hin He; [destruct He|]. rewrite pairs_cons2 in Hin, He. destruct He as [<-|He].
    - apply conn_refl.
    - apply (conn_trans x y); [apply conn_edge; apply Hin; left; reflexivity|]. apply IH; [intros z Hz; apply Hin; right; exact Hz|exact He].
  Qed.
  Lemma two_on_path : forall l e1 e2, incl (pairs l) G -> In e1 (pairs l) -> In e2 (pairs l) ->
    e1 = e2 \/ conn (snd e1) (fst e2) \/ conn (snd e2) (fst e1).
  Proof.
    induction l as [|x l IH]; intros e1 e2 Hin H1 H2; [destruct H1|]. destruct l as [|y r]; [destruct H1|].
    rewrite pairs_cons2 in Hin, H1, H2.
    assert (Hin' : incl (pairs (y :: r)) G) by (intros z Hz; apply Hin; right; exact Hz).
    destruct H1 as [<-|H1], H2 as [<-|H2].
    - left. reflexivity.
    - right. left. apply (in_pairs_conn r y e2 Hin' H2).
    - right. right. apply (in_pairs_conn r y e1 Hin' H1).
    - apply IH; assumption.
  Qed.

  Definition order_antichain (A' : list PathEnc.edge) : Prop := antichain PathEnc.edge before A'.

  Lemma antichain_incompatible A' : incl A' G -> order_antichain A' -> incompatible_in G A'.
  Proof.
    intros HA Hanti e1 e2 l H1 H2 Hne _ Hl I1 I2.
    destruct (two_on_path l e1 e2 Hl I1 I2) as [E|[C|C]]; [contradiction| |].
    - assert (B : before e1 e2 = true) by (apply before_spec; auto). rewrite (Hanti e1 e2 H1 H2) in B. discriminate.
    - assert (B : before e2 e1 = true) by (apply before_spec; auto). rewrite (Hanti e2 e1 H2 H1) in B. discriminate.
  Qed.

  (* a list of edges in increasing order lies on one walk of G that starts with its first edge *)
  Lemma linked_walk : forall s e, incl (e :: s) G -> linked PathEnc.edge before (e :: s) ->
    exists r, incl (pairs (fst e :: snd e :: r)) G /\ incl (e :: s) (pairs (fst e :: snd e :: r)).
  Proof.
    induction s as [|e2 s IH]; intros e Hin Hlk.
    - exists []. split; intros z [<-|[]]; [apply Hin; left; destruct e; reflexivity|left; destruct e; reflexivity].
    - destruct Hlk as [Hb Hlk]. destruct (IH e2 (fun z Hz => Hin z (or_intror Hz)) Hlk) as (r2 & Hr2 & Hc2).
      apply before_spec in Hb. destruct Hb as (He & He2 & (m & Hm & Lm)).
      exists (m ++ snd e2 :: r2).
      assert (Ep : pairs (fst e :: snd e :: m ++ snd e2 :: r2) =
                   (fst e, snd e) :: pairs (snd e :: m) ++ pairs (fst e2 :: snd e2 :: r2)).
      { rewrite pairs_cons2. f_equal. change (snd e :: m ++ snd e2 :: r2) with ((snd e :: m) ++ snd e2 :: r2).
        rewrite (pairs_app_last (snd e :: m) (snd e2 :: r2) (snd e)) by discriminate. rewrite Lm. reflexivity. }
      rewrite Ep. split.
      + intros z [<-|Hz]; [destruct e; exact He|]. apply in_app_or in Hz. destruct Hz; auto.
      + intros z [<-|Hz]; [left; destruct e; reflexivity|]. right. apply in_or_app. right. apply Hc2. exact Hz.
  Qed.
End DagOrder.

Lemma choice_list {A B} (R : A -> B -> Prop) (l : list A) : (forall x, In x l -> exists y, R x y) -> exists l', Forall2 R l l'.
Proof.
  induction l as [|a l IH]; intros H; [exists []; constructor|].
  destruct (H a (or_introl eq_refl)) as (b & Hb). destruct IH as (l' & Hl'); [intros x Hx; apply H; right; exact Hx|].
  exists (b :: l'). constructor; assumption.
Qed.
Lemma Forall2_in_l {A B} (R : A -> B -> Prop) l l' x : Forall2 R l l' -> In x l -> exists y, In y l' /\ R x y.
Proof.
  induction 1 as [|a b l l' Hab H IH]; intros Hx; [destruct Hx|]. destruct Hx as [<-|Hx].
  - exists b. split; [left; reflexivity|exact Hab].
  - destruct (IH Hx) as (y & Hy & Ry). exists y. split; [right; exact Hy|exact Ry].
Qed.
Lemma Forall2_in_r {A B} (R : A -> B -> Prop) l l' y : Forall2 R l l' -> In y l' -> exists x, In x l /\ R x y.
Proof.
  induction 1 as [|a b l l' Hab H IH]; intros Hy; [destruct Hy|]. destruct Hy as [<-|Hy].
  - exists a. split; [left; reflexivity|exact Hab].
  - destruct (IH Hy) as (x & Hx & Rx). exists x. split; [right; exact Hx|exact Rx].
Qed.
Lemma Forall2_len {A B} (R : A -> B -> Prop) l l' : Forall2 R l l' -> length l = length l'.
Proof. induction 1; cbn; congruence. Qed.

Section StPaths.
  Variable G : list PathEnc.edge.
  Variable rank : node -> nat.
  Variable Rm : nat.
  Variables src snk : node.
  Hypothesis Hrank : forall u v, In (u, v) G -> rank u < rank v.
  Hypothesis HR : forall v, rank v <= Rm.
  (* every edge lies between the source and the sink: a tail other than the source has an incoming edge,
     a head other than the sink has an outgoing edge *)
  Hypothesis Hsrc : forall u v, In (u, v) G -> u = src \/ exists w, In (w, u) G.
  Hypothesis Hsnk : forall u v, In (u, v) G -> v = snk \/ exists w, In (v, w) G.

  Definition st_path (p : list node) : Prop :=
    hd_error p = Some src /\ last p src = snk /\ NoDup p /\ incl (pairs p) G.

  Lemma back_walk : forall n u, rank u = n -> (exists v, In (u, v) G) ->
    exists q, q <> [] /\ last q u = u /\ incl (pairs q) G /\ hd_error q = Some src.
  Proof.
    induction n as [n IH] using lt_wf_ind. intros u Hn (v & Hv).
    destruct (Hsrc u v Hv) as [->|(w & Hw)].
    - exists [src]. split; [discriminate|]. split; [reflexivity|]. split; [intros e []|reflexivity].
    - destruct (IH (rank w) ltac:(specialize (Hrank w u Hw); lia) w eq_refl (ex_intro _ u Hw)) as (q & Hne & Hl & Hq & Hh).
      exists (q ++ [u]). split; [destruct q; discriminate|]. split; [apply last_last|]. split.
      + rewrite (pairs_app_last q [u] w Hne), Hl. intros e He. apply in_app_or in He. destruct He as [He|[<-|[]]]; [apply Hq; exact He|exact Hw].
      + destruct q; [contradiction|exact Hh].
  Qed.
  Lemma fwd_walk : forall n v, Rm - rank v = n -> (exists u, In (u, v) G) ->
    exists r, incl (pairs (v :: r)) G /\ last (v :: r) v = snk.
  Proof.
    induction n as [n IH] using lt_wf_ind. intros v Hn (u & Hu).
    destruct (Hsnk u v Hu) as [->|(w & Hw)].
    - exists []. split; [intros e []|reflexivity].
    - pose proof (Hrank v w Hw) as Hlt. pose proof (HR w) as Hle.
      destruct (IH (Rm - rank w) ltac:(lia) w eq_refl (ex_intro _ v Hw)) as (r & Hr & Hl).
      exists (w :: r). split.
      + rewrite pairs_cons2. intros e [<-|He]; [exact Hw|apply Hr; exact He].
      + rewrite !last_cons_default. rewrite last_cons_default in Hl. exact Hl.
  Qed.

  Lemma walk_last_edge : forall r u v, exists x, In (x, last (v :: r) u) (pairs (u :: v :: r)).
  Proof.
    induction r as [|y r IH]; intros u v.
    - exists u. left. reflexivity.
    - destruct (IH v y) as (x & Hx). exists x. rewrite pairs_cons2. right.
      rewrite !last_cons_default. rewrite last_cons_default in Hx. exact Hx.
  Qed.

  (* every walk of G with at least one edge is part of a source-to-sink path *)
  Lemma walk_on_st_path u v r : incl (pairs (u :: v :: r)) G ->
    exists p, st_path p /\ incl (pairs (u :: v :: r)) (pairs p).
  Proof.
    intros Hw.
    assert (Huv : In (u, v) G) by (apply Hw; left; reflexivity).
    destruct (back_walk (rank u) u eq_refl (ex_intro _ v Huv)) as (q & Hne & Hlq & Hq & Hh).
    set (w := last (v :: r) u).
    destruct (walk_last_edge r u v) as (x & Hx). fold w in Hx.
    destruct (fwd_walk (Rm - rank w) w eq_refl (ex_intro _ x (Hw _ Hx))) as (r' & Hr' & Hlr').
    exists (q ++ (v :: r) ++ r').
    assert (Elast : last (u :: v :: r) u = w) by (unfold w; rewrite (last_cons_default (v :: r) u u); rewrite last_cons_default; reflexivity).
    assert (Ep : pairs (q ++ (v :: r) ++ r') = pairs q ++ pairs (u :: v :: r) ++ pairs (w :: r')).
    { rewrite (pairs_app_last q ((v :: r) ++ r') u Hne), Hlq. f_equal.
      change (u :: (v :: r) ++ r') with ((u :: v :: r) ++ r').
      rewrite (pairs_app_last (u :: v :: r) r' u) by discriminate. rewrite Elast. reflexivity. }
    assert (Hin : incl (pairs (q ++ (v :: r) ++ r')) G).
    { rewrite Ep. intros e He. apply in_app_or in He. destruct He as [He|He]; [apply Hq; exact He|].
      apply in_app_or in He. destruct He; auto. }
    split; [split; [|split; [|split]]|].
    - destruct q; [contradiction|exact Hh].
    - rewrite last_app_ne by (destruct r'; discriminate).
      destruct r' as [|y r''].
      + rewrite app_nil_r. rewrite <- Hlr'. change (last [w] w) with w. unfold w. rewrite !last_cons_default. reflexivity.
      + rewrite last_app_ne by discriminate. rewrite <- Hlr'. rewrite !last_cons_default. reflexivity.
    - destruct q as [|a q']; [contradiction|]. cbn [app] in *.
      exact (proj1 (walk_rank G rank Hrank _ a Hin)).
    - exact Hin.
    - rewrite Ep. intros e He. apply in_or_app. right. apply in_or_app. left. exact He.
  Qed.

  (* Dilworth for the edges of a DAG: as many source-to-sink paths as the largest set of pairwise unordered edges cover X *)
  Theorem dag_dilworth (X : list PathEnc.edge) : NoDup X -> incl X G ->
    exists (paths : list (list node)) (A' : list PathEnc.edge),
      (forall p, In p paths -> st_path p) /\ (forall e, In e X -> exists p, In p paths /\ In e (pairs p)) /\
      NoDup A' /\ incl A' X /\ order_antichain G A' /\ length A' = length paths.
  Proof.
    intros ND HX.
    destruct (dilworth PathEnc.edge edge_eqb edge_eqb_eq (before G) (before_irrefl G rank Hrank) (before_trans G) X ND)
      as (C & A' & HC & Hcov & NDA & HA & Hanti & Hlen).
    destruct (choice_list (fun c p => st_path p /\ incl c (pairs p)) C) as (paths & HF).
    { intros c Hc. destruct (HC c Hc) as (Hch & Hinc & Hne).
      destruct (chain_linked PathEnc.edge edge_eqb edge_eqb_eq (before G) (before_irrefl G rank Hrank) (before_trans G)
                  (length c) c (le_n _) Hch) as (s & Hs & Hlk & _).
      destruct s as [|e s0].
      { destruct c as [|z c0]; [contradiction|]. exfalso. apply (proj2 (Hs z)). left. reflexivity. }
      assert (HsG : incl (e :: s0) G) by (intros z Hz; apply HX; apply Hinc; apply Hs; exact Hz).
      destruct (linked_walk G (s0) e HsG Hlk) as (r & Hr & Hcr).
      destruct (walk_on_st_path (fst e) (snd e) r Hr) as (p & Hp & Hpp).
      exists p. split; [exact Hp|]. intros z Hz. apply Hpp. apply Hcr. apply Hs. exact Hz. }
    exists paths, A'. split; [|split; [|split; [|split; [|split]]]]; try assumption.
    - intros p Hp. destruct (Forall2_in_r _ _ _ p HF Hp) as (c & _ & H & _). exact H.
    - intros e He. destruct (Hcov e He) as (c & Hc & Hec). destruct (Forall2_in_l _ _ _ c HF Hc) as (p & Hp & _ & Hcp).
      exists p. split; [exact Hp|apply Hcp; exact Hec].
    - rewrite Hlen. apply (Forall2_len _ _ _ HF).
  Qed.
End StPaths.

(* ================================================================================================================= *)
(* Path covers: weak duality for the graph-relative notion, and equality (min path cover = width) *)
From FP Require Import CoverOracle SafeFix.

Lemma incompatible_in_needs_layers (k : nat) (P : N -> list node) (G A' : list PathEnc.edge) :
  NoDup A' -> incompatible_in G A' ->
  (forall i, In i (layers k) -> NoDup (P i) /\ incl (pairs (P i)) G) ->
  (forall e, In e A' -> exists i, In i (layers k) /\ In e (pairs (P i))) ->
  length A' <= k.
Proof.
  intros ND Hinc HND Hcov.
  destruct (finite_choice A' (fun n e i => In i (layers k) /\ In e (pairs (P i)))) as (ch & Hch).
  { intros n e Hn. apply Hcov. apply nth_error_In with n. exact Hn. }
  set (ix := map (fun n => ch (N.of_nat n)) (seq 0 (length A'))).
  assert (Hincl : incl ix (layers k)).
  { intros i Hi. unfold ix in Hi. apply in_map_iff in Hi. destruct Hi as (n & <- & Hn). apply in_seq in Hn.
    destruct (nth_error A' n) as [e|] eqn:E; [|apply nth_error_None in E; lia]. exact (proj1 (Hch n e E)). }
  assert (Hnd : NoDup ix).
  { unfold ix. apply NoDup_map_inj_in; [|apply seq_NoDup].
    intros n n' Hn Hn' Heq. apply in_seq in Hn, Hn'.
    destruct (Nat.eq_dec n n') as [E|Hne]; [exact E|exfalso].
    destruct (nth_error A' n) as [e|] eqn:E1; [|apply nth_error_None in E1; lia].
    destruct (nth_error A' n') as [e'|] eqn:E2; [|apply nth_error_None in E2; lia].
    destruct (Hch n e E1) as [Hi1 H1]. destruct (Hch n' e' E2) as [Hi2 H2]. rewrite <- Heq in H2.
    assert (Hee : e <> e').
    { intros ->. apply Hne. apply (proj1 (NoDup_nth_error A') ND n n'); [apply nth_error_Some; rewrite E1; discriminate|].
      rewrite E1, E2. reflexivity. }
    destruct (HND _ Hi1) as [N1 N2].
    exact (Hinc e e' (P (ch (N.of_nat n))) (nth_error_In _ _ E1) (nth_error_In _ _ E2) Hee N1 N2 H1 H2). }
  pose proof (NoDup_incl_length Hnd Hincl) as Hle. unfold ix in Hle. rewrite map_length, seq_length, layers_length in Hle. exact Hle.
Qed.

(* weak duality: edges that no path of the graph passes together need one path each in every cover *)
Theorem cover_needs_width_many_paths (B : path_inst) (ignore A' : list PathEnc.edge) (P : N -> list node) :
  NoDup A' -> incompatible_in (g_edges (p_graph B)) A' ->
  (forall e, In e A' -> In e (g_edges (p_graph B)) /\ mem_edge e ignore = false) ->
  path_cover B ignore P -> length A' <= p_k B.
Proof.
  intros ND Hinc HA [HP Hcov]. apply (incompatible_in_needs_layers (p_k B) P (g_edges (p_graph B)) A' ND Hinc).
  - intros i Hi. destruct (HP i Hi) as (_ & _ & H1 & H2). split; assumption.
  - intros e He. destruct (HA e He) as [HeE Hig]. destruct (Hcov e HeE Hig) as (i & Hi & M). exists i. split; [exact Hi|].
    apply mem_edge_In. exact M.
Qed.

Section CoverWidth.
  Variable B : path_inst.
  Variable ignore : list PathEnc.edge.
  Variable rank : node -> nat.
  Variable Rm : nat.
  Let G := g_edges (p_graph B).
  Let src := g_src (p_graph B).
  Let snk := g_snk (p_graph B).
  Hypothesis NDG : NoDup G.
  Hypothesis Hrank : forall u v, In (u, v) G -> rank u < rank v.
  Hypothesis HR : forall v, rank v <= Rm.
  Hypothesis Hsrc : forall u v, In (u, v) G -> u = src \/ exists w, In (w, u) G.
  Hypothesis Hsnk : forall u v, In (u, v) G -> v = snk \/ exists w, In (v, w) G.

  (* in the reachability order, antichains are exactly the sets of edges no path passes together *)
  Lemma incompatible_antichain A' : incl A' G -> incompatible_in G A' -> order_antichain G A'.
  Proof.
    intros HA Hinc a b Ha Hb. destruct (before G a b) eqn:Bf; [exfalso|reflexivity].
    assert (Hne : a <> b) by (intros ->; rewrite (before_irrefl G rank Hrank) in Bf; discriminate).
    destruct (linked_walk G [b] a) as (r & Hr & Hc).
    - intros z [<-|[<-|[]]]; apply HA; assumption.
    - split; [exact Bf|exact I].
    - apply (Hinc a b (fst a :: snd a :: r) Ha Hb Hne).
      + exact (proj1 (walk_rank G rank Hrank _ _ Hr)).
      + exact Hr.
      + apply Hc. left. reflexivity.
      + apply Hc. right. left. reflexivity.
  Qed.
  Theorem antichain_iff_incompatible A' : incl A' G -> (order_antichain G A' <-> incompatible_in G A').
  Proof. intros HA. split; [apply antichain_incompatible; exact HA|apply incompatible_antichain; exact HA]. Qed.

  (* Dilworth for path covers: some number k is both the size of a path cover of the non-ignored edges and the size of a set of
     non-ignored edges that no path of the graph passes together *)
  Theorem min_path_cover_equals_width_st :
    exists (k : nat) (P : N -> list node) (A' : list PathEnc.edge),
      path_cover (set_k B k) ignore P /\
      NoDup A' /\ (forall e, In e A' -> In e G /\ mem_edge e ignore = false) /\ incompatible_in G A' /\ length A' = k.
  Proof.
    set (X := filter (fun e => negb (mem_edge e ignore)) G).
    assert (HXin : forall e, In e X <-> In e G /\ mem_edge e ignore = false).
    { intros e. unfold X. rewrite filter_In, negb_true_iff. tauto. }
    destruct (dag_dilworth G rank Rm src snk Hrank HR Hsrc Hsnk X (NoDup_filter _ NDG) (fun e He => proj1 (proj1 (HXin e) He)))
      as (paths & A' & Hp & Hcov & NDA & HA & Hanti & Hlen).
    exists (length paths), (fun i => nth (N.to_nat i) paths []), A'. split; [|split; [|split; [|split]]].
    - split.
      + intros i Hi. cbn [set_k p_k p_graph] in *. apply in_layers in Hi. destruct Hi as (n & Hn & ->). rewrite Nat2N.id.
        destruct (Hp (nth n paths []) (nth_In _ _ Hn)) as (H1 & H2 & H3 & H4). fold src snk. repeat split; assumption.
      + intros e He Hig. cbn [set_k p_k p_graph] in *. destruct (Hcov e (proj2 (HXin e) (conj He Hig))) as (p & Hpin & Hep).
        destruct (In_nth _ _ [] Hpin) as (n & Hn & En). exists (N.of_nat n). split; [apply in_layers; exists n; split; [exact Hn|reflexivity]|].
        rewrite Nat2N.id, En. apply mem_edge_In. exact Hep.
    - exact NDA.
    - intros e He. apply HXin. apply HA. exact He.
    - apply antichain_incompatible; [|exact Hanti]. intros e He. apply (HXin e). apply HA. exact He.
    - exact Hlen.
  Qed.

  (* hence the least number of paths of any cover is the largest size of such a set *)
  Theorem min_path_cover_is_width (kopt : nat) :
    (exists P, path_cover (set_k B kopt) ignore P) ->
    (forall k, k < kopt -> ~ exists P, path_cover (set_k B k) ignore P) ->
    (exists A', NoDup A' /\ (forall e, In e A' -> In e G /\ mem_edge e ignore = false) /\ incompatible_in G A' /\ length A' = kopt) /\
    (forall A', NoDup A' -> (forall e, In e A' -> In e G /\ mem_edge e ignore = false) -> incompatible_in G A' -> length A' <= kopt).
  Proof.
    intros (P0 & HP0) Hmin. split.
    - destruct min_path_cover_equals_width_st as (k & P & A' & HP & NDA & HA & Hinc & Hlen).
      exists A'. split; [exact NDA|]. split; [exact HA|]. split; [exact Hinc|].
      pose proof (cover_needs_width_many_paths (set_k B kopt) ignore A' P0 NDA Hinc HA HP0) as Hle. cbn [set_k p_k] in Hle.
      destruct (Nat.lt_ge_cases k kopt) as [Hlt|Hge]; [|lia]. exfalso. apply (Hmin k Hlt). exists P. exact HP.
    - intros A' NDA HA Hinc. exact (cover_needs_width_many_paths (set_k B kopt) ignore A' P0 NDA Hinc HA HP0).
  Qed.
End CoverWidth.

(* ================================================================================================================= *)
(* The caller's level: MinPathCover on a DAG (V, E) augmented with the source s and the sink t *)
From FP Require Import Aug AugProofs EndToEnd1 EndToEnd2 EndToEnd3 EndToEndCover Search.

Section CallerLevel.
  Variables (V : list node) (E : list PathEnc.edge) (s t : node).
  Variable topo : list node.
  Hypothesis Hs : ~ In s V.
  Hypothesis Ht : ~ In t V.
  Hypothesis Hst : s <> t.
  Hypothesis HE : forall e, In e E -> In (fst e) V /\ In (snd e) V.
  Hypothesis NDV : NoDup V.
  Hypothesis NDE : NoDup E.
  Hypothesis Htopo : forall u v, In (u, v) E -> posn topo u < posn topo v.

  Let A := aug_edges V E [] [] s t.

  Lemma st_tail_has_in u v : In (u, v) A -> u = s \/ exists w, In (w, u) A.
  Proof.
    intros H. destruct (N.eq_dec u s) as [->|Hne]; [left; reflexivity|right].
    pose proof (aug_tail_in_V V E [] [] s t HE u v H Hne) as HuV.
    destruct (is_start E [] u) eqn:X.
    - exists s. apply (aug_spec_source V E [] [] s t Hs Hst HE u). split; assumption.
    - unfold is_start, indeg0 in X. apply orb_false_iff in X. destruct X as [X _]. apply negb_false_iff in X.
      apply existsb_exists in X. destruct X as ([w u'] & Hw & Eq). apply N.eqb_eq in Eq. cbn in Eq. subst u'.
      exists w. apply (aug_in V E [] [] s t). left. exact Hw.
  Qed.
  Lemma st_head_has_out u v : In (u, v) A -> v = t \/ exists w, In (v, w) A.
  Proof.
    intros H. destruct (N.eq_dec v t) as [->|Hne]; [left; reflexivity|right].
    assert (HvV : In v V).
    { apply (aug_in V E [] [] s t) in H. destruct H as [H|[(u' & Hu & _ & Eq)|(u' & Hu & _ & Eq)]].
      - apply HE in H. apply H.
      - injection Eq as _ ->. exact Hu.
      - injection Eq as _ ->. contradiction. }
    destruct (is_end E [] v) eqn:X.
    - exists t. apply (aug_spec_sink V E [] [] s t Ht Hst HE v). split; assumption.
    - unfold is_end, outdeg0 in X. apply orb_false_iff in X. destruct X as [X _]. apply negb_false_iff in X.
      apply existsb_exists in X. destruct X as ([v' w] & Hw & Eq). apply N.eqb_eq in Eq. cbn in Eq. subst v'.
      exists w. apply (aug_in V E [] [] s t). left. exact Hw.
  Qed.

  Lemma nonignored_iff e : (In e A /\ mem_edge e (synth V E s t) = false) <-> In e E.
  Proof.
    split; [intros [H1 H2]; exact (nonignored_in_E V E s t e H1 H2)|]. intros He. split; [apply (aug_in V E [] [] s t); left; exact He|].
    destruct (mem_edge e (synth V E s t)) eqn:M; [exfalso|reflexivity]. apply mem_edge_In in M.
    destruct (HE e He) as [H1 H2]. unfold synth, aug_source_edges, aug_sink_edges in M. apply in_app_or in M.
    destruct M as [M|M]; apply in_map_iff in M; destruct M as (u & <- & _); cbn in *; contradiction.
  Qed.

  Let hyps_rank := st_rank_increasing V E s t Hs Ht Hst HE topo Htopo.
  Let hyps_le : forall v, st_rank s t topo v <= S (S (length topo)) := fun v => st_rank_le s t Hst topo v.

  (* MinPathCover = width: the least number of s-t paths covering every edge of the DAG equals the largest number of edges
     no two of which lie on a common path *)
  Theorem min_path_cover_equals_width :
    exists k,
      (exists P, path_cover (cover_inst V E s t k) (synth V E s t) P) /\
      (forall k', k' < k -> ~ exists P, path_cover (cover_inst V E s t k') (synth V E s t) P) /\
      (exists A', NoDup A' /\ incl A' E /\ incompatible_in A A' /\ length A' = k).
  Proof.
    destruct (min_path_cover_equals_width_st (cover_inst V E s t 0) (synth V E s t) (st_rank s t topo) (S (S (length topo))))
      as (k & P & A' & HP & NDA & HA & Hinc & Hlen).
    - exact (aug_nodup V E s t Hs Ht Hst HE NDV NDE).
    - exact hyps_rank.
    - exact hyps_le.
    - exact st_tail_has_in.
    - exact st_head_has_out.
    - exists k. split; [exists P; exact HP|]. split.
      + intros k' Hk' (P' & HP').
        pose proof (cover_needs_width_many_paths (cover_inst V E s t k') (synth V E s t) A' P' NDA Hinc HA HP') as Hle.
        cbn [cover_inst p_k] in Hle. lia.
      + exists A'. split; [exact NDA|]. split; [intros e He; apply nonignored_iff; apply HA; exact He|]. split; [exact Hinc|exact Hlen].
  Qed.

  Theorem least_cover_is_width (kopt : nat) :
    (exists P, path_cover (cover_inst V E s t kopt) (synth V E s t) P) ->
    (forall k, k < kopt -> ~ exists P, path_cover (cover_inst V E s t k) (synth V E s t) P) ->
    (exists A', NoDup A' /\ incl A' E /\ incompatible_in A A' /\ length A' = kopt) /\
    (forall A', NoDup A' -> incl A' E -> incompatible_in A A' -> length A' <= kopt).
  Proof.
    intros Hex Hmin.
    destruct (min_path_cover_is_width (cover_inst V E s t 0) (synth V E s t) (st_rank s t topo) (S (S (length topo)))
                (aug_nodup V E s t Hs Ht Hst HE NDV NDE) hyps_rank hyps_le st_tail_has_in st_head_has_out kopt Hex Hmin) as [(A' & NDA & HA & Hinc & Hlen) Hub].
    split.
    - exists A'. split; [exact NDA|]. split; [intros e He; apply nonignored_iff; apply HA; exact He|]. split; [exact Hinc|exact Hlen].
    - intros A2 NDA2 HA2 Hinc2. apply Hub; [exact NDA2| |exact Hinc2]. intros e He. apply nonignored_iff. apply HA2. exact He.
  Qed.
End CallerLevel.

(* end to end: what MinPathCover returns on a DAG (solver statuses exact) is the width of the edge set *)
Theorem minpathcover_returns_the_width
    (V : list node) (E : list PathEnc.edge) (s t : node) (Pa Sa : list (node * list node)) (topo : list node)
    (feasible : nat -> bool) (lb : nat) (sts : list raw) :
  NoDup V -> (forall e, In e E -> In (fst e) V /\ In (snd e) V) -> ~ In s V -> ~ In t V -> s <> t ->
  Peel.peel_inputs_ok E Pa Sa topo = true ->
  (forall k, feasible k = true <-> exists a, sat a (encode_kpc (cover_inst V E s t k) (synth V E s t))) ->
  (forall i, i < S (length E) - lb -> exists x, nth_error sts i = Some x /\
             status_of x = if feasible (lb + i) then Optimal else Infeasible) ->
  (forall k, k < lb -> feasible k = false) ->
  exists kopt,
    so_res (mpc_solve true lb (S (length E)) sts) = Solved kopt /\
    (exists A', NoDup A' /\ incl A' E /\ incompatible_in (aug_edges V E [] [] s t) A' /\ length A' = kopt) /\
    (forall A', NoDup A' -> incl A' E -> incompatible_in (aug_edges V E [] [] s t) A' -> length A' <= kopt).
Proof.
  intros NDV HE Hs Ht Hst Hok Hspec Hsts Hlb.
  destruct (minpathcover_end_to_end V E s t Pa Sa topo feasible lb sts NDV HE Hs Ht Hst Hok Hspec Hsts Hlb) as (kopt & Hres & _ & Hex & Hmin).
  pose proof Hok as Hok'. unfold Peel.peel_inputs_ok in Hok'.
  apply andb_true_iff in Hok'. destruct Hok' as [Hok' _]. apply andb_true_iff in Hok'. destruct Hok' as [Hok' _].
  apply andb_true_iff in Hok'. destruct Hok' as [Hok' _]. apply andb_true_iff in Hok'. destruct Hok' as [Hok' Hbefore].
  apply andb_true_iff in Hok'. destruct Hok' as [HndE Hndt].
  apply ReachProofs1.nodupE_NoDup in HndE. apply ReachProofs1.nodupb_NoDup in Hndt.
  assert (Htopo : forall u v, In (u, v) E -> posn topo u < posn topo v).
  { intros u v He. rewrite !EndToEnd3.posn_pos. apply PeelProofs3.beforeb_pos; [exact Hndt|].
    rewrite forallb_forall in Hbefore. exact (Hbefore (u, v) He). }
  exists kopt. split; [exact Hres|].
  exact (least_cover_is_width V E s t topo Hs Ht Hst HE NDV HndE Htopo kopt Hex Hmin).
Qed.

(* ---- the diamond 1 -> {2, 3} -> 4 with source 0 and sink 5: two paths cover it, and the two edges leaving 1 lie on no common path ---- *)
From FP Require Import EndToEndExample.

Example diamond_premises :
  ~ In 0%N xV /\ ~ In 5%N xV /\ 0%N <> 5%N /\ (forall e, In e xE -> In (fst e) xV /\ In (snd e) xV) /\ NoDup xV /\ NoDup xE /\
  (forall u v, In (u, v) xE -> posn [1; 2; 3; 4]%N u < posn [1; 2; 3; 4]%N v).
Proof.
  split; [intros H; cbn in H; intuition discriminate|]. split; [intros H; cbn in H; intuition discriminate|].
  split; [discriminate|]. split.
  { intros e He. cbn in He. destruct He as [<-|[<-|[<-|[<-|[]]]]]; cbn; intuition. }
  split; [repeat constructor; cbn; intuition discriminate|]. split; [repeat constructor; cbn; intuition discriminate|].
  intros u v H. cbn in H. destruct H as [H|[H|[H|[H|[]]]]]; injection H as <- <-; cbn; lia.
Qed.

Example diamond_width_two :
  (exists P, path_cover (cover_inst xV xE 0%N 5%N 2) (synth xV xE 0%N 5%N) P) /\
  (exists A', NoDup A' /\ incl A' xE /\ incompatible_in (aug_edges xV xE [] [] 0%N 5%N) A' /\ length A' = 2).
Proof.
  split.
  - exists (fun i => if (i =? 0)%N then [0; 1; 2; 4; 5]%N else [0; 1; 3; 4; 5]%N). split.
    + intros i Hi. cbn in Hi. destruct Hi as [<-|[<-|[]]]; cbn [N.eqb Pos.eqb];
        (split; [reflexivity|]; split; [reflexivity|]; split; [repeat constructor; cbn; intuition discriminate|]);
        intros e He; cbn in He; cbn; intuition.
    + intros e He _. cbn in He.
      destruct He as [<-|[<-|[<-|[<-|[<-|[<-|[]]]]]]];
        first [exists 0%N; split; [cbn; tauto|reflexivity] | exists 1%N; split; [cbn; tauto|reflexivity]].
  - exists [(1, 2); (1, 3)]%N. split; [repeat constructor; cbn; intuition discriminate|]. split; [intros e [<-|[<-|[]]]; cbn; tauto|].
    split; [|reflexivity]. apply antichain_incompatible.
    + intros e [<-|[<-|[]]]; cbn; tauto.
    + intros a b [<-|[<-|[]]] [<-|[<-|[]]]; vm_compute; reflexivity.
Qed.
