(* The lower bound MinPathCover / MinFlowDecomp start their search from is sound: if A' is a set of pairwise incompatible
   edges (no simple source-to-sink path of the s-t graph contains two of them) that must all be covered, every path cover --
   and every flow decomposition of a flow that is positive on them -- has at least |A'| paths.  So the k-model is infeasible
   for every k < |A'| (with the feasibility characterisations of PathCoverComplete / PathEncComplete). *)
From Coq Require Import List NArith ZArith QArith Lqa Bool Arith Lia Permutation.
Import ListNotations.
From FP Require Import Lin Blocks BlocksProofs PathEnc Euler EulerProofs1 EulerProofs2 DagDecode PathEncProofs PathEncComplete PathCoverComplete SafeFix.
Set Default Timeout 60.
Local Close Scope Q_scope.

Definition incompatible_edges (A' : list PathEnc.edge) : Prop :=
  forall e1 e2 l, In e1 A' -> In e2 A' -> e1 <> e2 -> NoDup l -> In e1 (pairs l) -> In e2 (pairs l) -> False.

Lemma layers_length k : length (layers k) = k.
Proof. unfold layers. rewrite map_length, seq_length. reflexivity. Qed.

(* pigeonhole: pairwise incompatible edges, each on some path of P, need that many layers *)
Lemma antichain_needs_layers (k : nat) (P : N -> list node) (A' : list PathEnc.edge) :
  NoDup A' -> incompatible_edges A' ->
  (forall i, In i (layers k) -> NoDup (P i)) ->
  (forall e, In e A' -> exists i, In i (layers k) /\ In e (pairs (P i))) ->
  (length A' <= k)%nat.
Proof.
  intros ND Hinc HND Hcov.
  destruct (finite_choice A' (fun n e i => In i (layers k) /\ In e (pairs (P i)))) as (ch & Hch).
  { intros n e Hn. apply Hcov. apply nth_error_In with n. exact Hn. }
  set (idx := map (fun n => ch (N.of_nat n)) (seq 0 (length A'))).
  assert (Hincl : incl idx (layers k)).
  { intros i Hi. unfold idx in Hi. apply in_map_iff in Hi. destruct Hi as (n & <- & Hn). apply in_seq in Hn.
    destruct (nth_error A' n) as [e|] eqn:E; [|apply nth_error_None in E; lia]. exact (proj1 (Hch n e E)). }
  assert (Hnd : NoDup idx).
  { unfold idx. apply NoDup_map_inj_in; [|apply seq_NoDup].
    intros n n' Hn Hn' Heq. apply in_seq in Hn, Hn'.
    destruct (Nat.eq_dec n n') as [E|Hne]; [exact E|exfalso].
    destruct (nth_error A' n) as [e|] eqn:E1; [|apply nth_error_None in E1; lia].
    destruct (nth_error A' n') as [e'|] eqn:E2; [|apply nth_error_None in E2; lia].
    destruct (Hch n e E1) as [Hi1 H1]. destruct (Hch n' e' E2) as [Hi2 H2]. rewrite <- Heq in H2.
    assert (Hee : e <> e').
    { intros ->. apply Hne. apply (proj1 (NoDup_nth_error A') ND n n'); [apply nth_error_Some; rewrite E1; discriminate|].
      rewrite E1, E2. reflexivity. }
    exact (Hinc e e' (P (ch (N.of_nat n))) (nth_error_In _ _ E1) (nth_error_In _ _ E2) Hee (HND _ Hi1) H1 H2). }
  pose proof (NoDup_incl_length Hnd Hincl) as Hle. unfold idx in Hle. rewrite map_length, seq_length, layers_length in Hle. exact Hle.
Qed.

Theorem cover_needs_antichain_many_paths (B : path_inst) (ignore A' : list PathEnc.edge) (P : N -> list node) :
  NoDup A' -> incompatible_edges A' ->
  (forall e, In e A' -> In e (g_edges (p_graph B)) /\ mem_edge e ignore = false) ->
  path_cover B ignore P -> (length A' <= p_k B)%nat.
Proof.
  intros ND Hinc HA [HP Hcov]. apply (antichain_needs_layers (p_k B) P A' ND Hinc).
  - intros i Hi. exact (proj1 (proj2 (proj2 (HP i Hi)))).
  - intros e He. destruct (HA e He) as [HeE Hig]. destruct (Hcov e HeE Hig) as (i & Hi & M). exists i. split; [exact Hi|].
    apply mem_edge_In. exact M.
Qed.

Theorem decomposition_needs_antichain_many_paths (I : kfd_inst) (A' : list PathEnc.edge) (P : N -> list node) (w : N -> Q) :
  NoDup A' -> incompatible_edges A' ->
  (forall e, In e A' -> In e (g_edges (p_graph (f_base I))) /\ mem_edge e (f_ignore I) = false /\ (0 < lookup_q e (f_flow I) 0)%Q) ->
  decomposition I P w -> (length A' <= p_k (f_base I))%nat.
Proof.
  intros ND Hinc HA (HP & Hw & Hf). apply (antichain_needs_layers (p_k (f_base I)) P A' ND Hinc).
  - intros i Hi. exact (proj1 (proj2 (proj2 (HP i Hi)))).
  - intros e He. destruct (HA e He) as (HeE & Hig & Hpos). pose proof (Hf e HeE Hig) as F.
    (* a positive sum of w_i * [e on path i] has a term with e on path i *)
    assert (Hex : exists i, In i (layers (p_k (f_base I))) /\ mem_edge e (pairs (P i)) = true).
    { destruct (existsb (fun i => mem_edge e (pairs (P i))) (layers (p_k (f_base I)))) eqn:Ex.
      - apply existsb_exists in Ex. exact Ex.
      - exfalso. assert (Z0 : (sumq (fun i => w i * indq (mem_edge e (pairs (P i)))) (layers (p_k (f_base I))) == 0)%Q).
        { assert (Hall : forall i, In i (layers (p_k (f_base I))) -> mem_edge e (pairs (P i)) = false).
          { intros i Hi. destruct (mem_edge e (pairs (P i))) eqn:M; [|reflexivity].
            assert (existsb (fun i => mem_edge e (pairs (P i))) (layers (p_k (f_base I))) = true) by (apply existsb_exists; exists i; auto). congruence. }
          clear - Hall. induction (layers (p_k (f_base I))) as [|i l IH]; [reflexivity|]. cbn [sumq].
          rewrite (Hall i (or_introl eq_refl)). cbn [indq]. rewrite IH by (intros j Hj; apply Hall; right; exact Hj). ring. }
        rewrite Z0 in F. rewrite <- F in Hpos. lra. }
    destruct Hex as (i & Hi & M). exists i. split; [exact Hi|apply mem_edge_In; exact M].
Qed.
