(* MILP representation shared by all constraint-generator models (E1): variables, linear rows,
   columns, satisfaction, and the canonical printable form used by the structural correspondence. *)
From Coq Require Import List NArith ZArith QArith Lqa Bool Lia.
Import ListNotations.
Local Close Scope Q_scope.

Notation node := N.

(* A variable = family tag + index tuple.  Families are listed below; the harness maps the
   (name_prefix, index) under which the implementation created a column to the same pair. *)
Record var := V { vfam : N; vidx : list N }.

Definition var_eqb (a b : var) : bool :=
  (vfam a =? vfam b)%N && (fix eql (l1 l2 : list N) : bool :=
     match l1, l2 with
     | [], [] => true
     | x :: r1, y :: r2 => (x =? y)%N && eql r1 r2
     | _, _ => false
     end) (vidx a) (vidx b).

Lemma var_eqb_spec a b : var_eqb a b = true <-> a = b.
Proof.
  destruct a as [fa ia], b as [fb ib]. unfold var_eqb. cbn [vfam vidx]. rewrite andb_true_iff, N.eqb_eq.
  split.
  - intros [-> H]. f_equal. revert ib H. induction ia as [|x r IH]; intros [|y r'] H; try discriminate; [reflexivity|].
    apply andb_true_iff in H. destruct H as [H1 H2]. apply N.eqb_eq in H1. subst. f_equal. apply IH. exact H2.
  - intros E. injection E as -> ->. split; [reflexivity|]. induction ib as [|x r IH]; [reflexivity|].
    rewrite N.eqb_refl. exact IH.
Qed.

(* variable families (tags are arbitrary but fixed; the Python side uses the same table) *)
Definition fEdge  : N := 0.   (* Edge u v i       edge (u,v) in layer i *)
Definition fPi    : N := 1.   (* Pi u v i         weight carried on (u,v) by layer i *)
Definition fW     : N := 2.   (* W i              weight of layer i *)
Definition fSlack : N := 3.   (* Slack i *)
Definition fGamma : N := 4.   (* Gamma u v i *)
Definition fErr   : N := 5.   (* Err u v *)
Definition fR     : N := 6.   (* R i j            constraint j realised in layer i *)
Definition fUsed  : N := 7.   (* Used u v i *)
Definition fSel   : N := 8.   (* Sel u v i        selected in-edge (walk models) *)
Definition fDist  : N := 9.   (* Dist v i *)
Definition fPos   : N := 10.  (* Pos u v i *)
Definition fLen   : N := 11.  (* Len i *)
Definition fBit   : N := 12.  (* Bit fam idx.. j  bit j of the integer factor of product (fam, idx) *)
Definition fComp  : N := 13.  (* Comp fam idx.. j *)
Definition fZ     : N := 14.  (* Z fam idx.. p    piece selector *)
Definition fGen   : N := 15.  (* Gen i *)
Definition fX     : N := 16.  (* X .. *)
Definition fGen2  : N := 17.
Definition fAux   : N := 18.
Definition fSub   : N := 19.  (* Subset i (MinSetCover) *)
Definition fFactor : N := 20.
Definition fSSlack : N := 21.

Definition Edge (u v : node) (i : N) : var := V fEdge [u; v; i].
Definition Pi (u v : node) (i : N) : var := V fPi [u; v; i].
Definition W (i : N) : var := V fW [i].
Definition Bit (p : var) (j : N) : var := V fBit (vfam p :: vidx p ++ [j]).
Definition Comp (p : var) (j : N) : var := V fComp (vfam p :: vidx p ++ [j]).
Definition Zsel (p : var) (j : N) : var := V fZ (vfam p :: vidx p ++ [j]).

Definition lin := list (var * Q).
Inductive sense := SLe | SGe | SEq.
Record row := { lhs : lin; sns : sense; rhs : Q }.
Record col := { cvar : var; clb : Q; cub : Q; cint : bool }.
Record milp := { cols : list col; rows : list row; obj : lin; maximize : bool }.

Fixpoint eval (a : var -> Q) (l : lin) : Q :=
  match l with [] => 0%Q | t :: r => (snd t * a (fst t) + eval a r)%Q end.

Definition sat_row (a : var -> Q) (r : row) : Prop :=
  match sns r with
  | SLe => (eval a (lhs r) <= rhs r)%Q
  | SGe => (rhs r <= eval a (lhs r))%Q
  | SEq => (eval a (lhs r) == rhs r)%Q
  end.

Definition is_int (q : Q) : Prop := exists z : Z, (q == inject_Z z)%Q.

Definition sat_col (a : var -> Q) (c : col) : Prop :=
  (clb c <= a (cvar c))%Q /\ (a (cvar c) <= cub c)%Q /\ (cint c = true -> is_int (a (cvar c))).

Definition sat (a : var -> Q) (m : milp) : Prop :=
  Forall (sat_col a) (cols m) /\ Forall (sat_row a) (rows m).

Definition objective (a : var -> Q) (m : milp) : Q := eval a (obj m).

(* a is at least as good as b for m *)
Definition obj_le (m : milp) (a b : var -> Q) : Prop :=
  if maximize m then (objective b m <= objective a m)%Q else (objective a m <= objective b m)%Q.

(* ---- generic facts used by the bridge lemmas ---- *)
Lemma eval_app a l1 l2 : (eval a (l1 ++ l2) == eval a l1 + eval a l2)%Q.
Proof. induction l1 as [|t l1 IH]; cbn [eval app]; [ring|]. rewrite IH. ring. Qed.

Fixpoint sumq {A} (g : A -> Q) (l : list A) : Q :=
  match l with [] => 0%Q | x :: r => (g x + sumq g r)%Q end.

Lemma eval_map_const {A} (a : var -> Q) (mk : A -> var) (c : Q) (l : list A) :
  (eval a (map (fun x => (mk x, c)) l) == c * sumq (fun x => a (mk x)) l)%Q.
Proof.
  induction l as [|x l IH]; cbn [map eval sumq fst snd]; [ring|]. rewrite IH. ring.
Qed.

Lemma eval_map_coef {A} (a : var -> Q) (mk : A -> var) (cf : A -> Q) (l : list A) :
  (eval a (map (fun x => (mk x, cf x)) l) == sumq (fun x => cf x * a (mk x)) l)%Q.
Proof.
  induction l as [|x l IH]; cbn [map eval sumq fst snd]; [ring|]. rewrite IH. ring.
Qed.

Lemma sumq_app {A} (g : A -> Q) l1 l2 : (sumq g (l1 ++ l2) == sumq g l1 + sumq g l2)%Q.
Proof. induction l1 as [|x l1 IH]; cbn [sumq app]; [ring|]. rewrite IH. ring. Qed.

Lemma sumq_ext {A} (g h : A -> Q) l : (forall x, In x l -> (g x == h x)%Q) -> (sumq g l == sumq h l)%Q.
Proof.
  induction l as [|x l IH]; intros H; cbn [sumq]; [reflexivity|].
  rewrite (H x (or_introl eq_refl)), IH; [reflexivity|]. intros y Hy. apply H. right. exact Hy.
Qed.

Lemma sat_rows_app a r1 r2 : Forall (sat_row a) (r1 ++ r2) <-> Forall (sat_row a) r1 /\ Forall (sat_row a) r2.
Proof. apply Forall_app. Qed.

Lemma Forall_flat_map {A B} (P : B -> Prop) (f : A -> list B) l :
  Forall P (flat_map f l) <-> forall x, In x l -> Forall P (f x).
Proof.
  induction l as [|x l IH]; cbn [flat_map].
  - split; [intros _ y []|constructor].
  - rewrite Forall_app, IH. split.
    + intros [H1 H2] y [<-|Hy]; [exact H1|apply H2; exact Hy].
    + intros H. split; [apply H; left; reflexivity|intros y Hy; apply H; right; exact Hy].
Qed.

(* ---- canonical printable form (executed after extraction) ---- *)
Definition canon_q (q : Q) : Z * positive := let r := Qred q in (Qnum r, Qden r).
Definition row_out := (list (var * (Z * positive)) * sense * (Z * positive))%type.
Definition canon_row (r : row) : row_out :=
  (map (fun t => (fst t, canon_q (snd t))) (lhs r), sns r, canon_q (rhs r)).
Definition col_out := (var * (Z * positive) * (Z * positive) * bool)%type.
Definition canon_col (c : col) : col_out := (cvar c, canon_q (clb c), canon_q (cub c), cint c).
Definition canon (m : milp) : list col_out * list row_out * list (var * (Z * positive)) * bool :=
  (map canon_col (cols m), map canon_row (rows m), map (fun t => (fst t, canon_q (snd t))) (obj m), maximize m).
