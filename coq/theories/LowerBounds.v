(* Soundness of the lower bounds MinFlowDecomp.get_lowerbound_k starts its search from (besides the width bound of
   AntichainBound.v), at the level of decompositions:
   (1) ceil(log2(#distinct flow values)): k paths give at most 2^k different subset sums, so a decomposition of a flow with
       n pairwise different values on non-ignored edges has 2^k >= n, i.e. k >= log2_up n;
   (2) the min-generating-set bound: the weights of the paths of ANY decomposition (those that cross the cut of edges leaving
       the graph's sources) form a generating multiset for (flow values, source flow) with multiplicity 1 and at most k
       elements -- so the size of a MINIMUM generating set is at most k;  (2') cut version behind the partition constraints:
       over any set of non-ignored edges that every path crosses at most once the weights split into the edges' flows;
   (3) subgraph scanning: restricting a decomposition to the edges incident to a window of a topological order gives a
       decomposition of the window subgraph with no more paths (in SubgraphBound.v).
   With kfd_feasible_iff (PathEncComplete.v) each bound b says: the k-model is infeasible for every k < b. *)
From Coq Require Import List NArith ZArith QArith Lqa Bool Arith Lia Permutation.
Import ListNotations.
From FP Require Import Lin Blocks BlocksProofs PathEnc Euler EulerProofs1 EulerProofs2 DagDecode PathEncProofs PathEncComplete
  PathEncGiven ErrEncProofs MiscEnc MiscEncProofs AntichainBound EulerProofs4 WalkTree WalkEnc WalkEncRows WalkEncRowsProofs WalkEncComplete WalkEncIff.
Set Default Timeout 60.
Local Close Scope Q_scope.

(* ------------------------------------------------------------------ (1) distinct values *)
Fixpoint all_bv (k : nat) : list (list bool) :=
  match k with O => [[]] | Datatypes.S k' => map (cons true) (all_bv k') ++ map (cons false) (all_bv k') end.

Lemma all_bv_length k : length (all_bv k) = (2 ^ k)%nat.
Proof. induction k as [|k IH]; [reflexivity|]. cbn [all_bv]. rewrite app_length, !map_length, IH. cbn [Nat.pow]. lia. Qed.

Lemma all_bv_complete (v : list bool) : In v (all_bv (length v)).
Proof.
  induction v as [|b v IH]; [left; reflexivity|]. cbn [length all_bv]. apply in_or_app.
  destruct b; [left|right]; apply in_map; exact IH.
Qed.

Definition bitvec (P : N -> list node) (l : list N) (e : PathEnc.edge) : list bool :=
  map (fun i => mem_edge e (pairs (P i))) l.

Lemma flow_by_bitvec (P : N -> list node) (w : N -> Q) (e e' : PathEnc.edge) (l : list N) :
  bitvec P l e = bitvec P l e' ->
  (sumq (fun i => w i * indq (mem_edge e (pairs (P i)))) l == sumq (fun i => w i * indq (mem_edge e' (pairs (P i)))) l)%Q.
Proof.
  induction l as [|i l IH]; intros H; [reflexivity|]. cbn [bitvec map] in H. injection H as H1 H2.
  cbn [sumq]. rewrite H1, (IH H2). reflexivity.
Qed.

Definition flow_of (I : kfd_inst) (e : PathEnc.edge) : Q := lookup_q e (f_flow I) 0%Q.

Theorem distinct_values_bound (I : kfd_inst) (P : N -> list node) (w : N -> Q) (L : list PathEnc.edge) :
  decomposition I P w ->
  (forall e, In e L -> In e (g_edges (p_graph (f_base I))) /\ mem_edge e (f_ignore I) = false) ->
  ForallOrdPairs (fun e e' => ~ (flow_of I e == flow_of I e')%Q) L ->
  (length L <= 2 ^ p_k (f_base I))%nat.
Proof.
  intros (_ & _ & Hf) HL Hd. set (k := p_k (f_base I)) in *.
  assert (Hnd : NoDup (map (bitvec P (layers k)) L)).
  { induction Hd as [|e L He Hd IH]; [constructor|]. cbn [map]. constructor.
    - intros Hin. apply in_map_iff in Hin. destruct Hin as (e' & Hbv & He').
      rewrite Forall_forall in He. apply (He e' He'). unfold flow_of.
      destruct (HL e (or_introl eq_refl)) as [E1 G1]. destruct (HL e' (or_intror He')) as [E2 G2].
      rewrite <- (Hf e E1 G1), <- (Hf e' E2 G2). apply flow_by_bitvec. symmetry. exact Hbv.
    - apply IH. intros x Hx. apply HL. right. exact Hx. }
  assert (Hincl : incl (map (bitvec P (layers k)) L) (all_bv k)).
  { intros v Hv. apply in_map_iff in Hv. destruct Hv as (e & <- & _).
    replace k with (length (bitvec P (layers k) e)) at 2 by (unfold bitvec; rewrite map_length; apply layers_length).
    apply all_bv_complete. }
  pose proof (NoDup_incl_length Hnd Hincl) as Hle. rewrite map_length, all_bv_length in Hle. exact Hle.
Qed.

(* the form the code uses: ceil(log2(n)) <= k *)
Corollary log2_bound (I : kfd_inst) (P : N -> list node) (w : N -> Q) (L : list PathEnc.edge) :
  decomposition I P w ->
  (forall e, In e L -> In e (g_edges (p_graph (f_base I))) /\ mem_edge e (f_ignore I) = false) ->
  ForallOrdPairs (fun e e' => ~ (flow_of I e == flow_of I e')%Q) L ->
  (Nat.log2_up (length L) <= p_k (f_base I))%nat.
Proof.
  intros D HL Hd. pose proof (distinct_values_bound I P w L D HL Hd) as H.
  destruct (Nat.eq_dec (length L) 0) as [E|NE]; [rewrite E; cbn; lia|].
  apply Nat.log2_up_le_pow2; [lia|exact H].
Qed.

(* ------------------------------------------------------------------ (2) generating multisets, abstractly *)
(* k weighted routes; route i uses edge e  m i e  times; the flow of every live edge is explained *)
Lemma sumq_filter_ind {A} (g : A -> Q) (c : A -> bool) (l : list A) :
  (sumq g (filter c l) == sumq (fun i => g i * indq (c i)) l)%Q.
Proof.
  induction l as [|x l IH]; [reflexivity|]. cbn [filter sumq]. destruct (c x); cbn [sumq indq]; rewrite IH; ring.
Qed.

Lemma dotz_map {A} (f : A -> Z) (g : A -> Q) (l : list A) :
  (dotz (map f l) (map g l) == sumq (fun i => inject_Z (f i) * g i) l)%Q.
Proof. induction l as [|x l IH]; [reflexivity|]. cbn [map dotz sumq]. rewrite IH. reflexivity. Qed.

Lemma filter_len_le {A} (c : A -> bool) (l : list A) : (length (filter c l) <= length l)%nat.
Proof. induction l as [|x l IH]; [apply le_n|]. cbn [filter]. destruct (c x); cbn [length]; lia. Qed.

Section AbsGen.
  Variables (k : nat) (w : N -> Q) (m : N -> PathEnc.edge -> Z) (flow : PathEnc.edge -> Q)
            (live : PathEnc.edge -> Prop) (C : list PathEnc.edge) (M : nat).
  Hypothesis Hw : forall i, In i (layers k) -> (0 <= w i)%Q.
  Hypothesis Hm : forall i e, In i (layers k) -> live e -> (0 <= m i e <= Z.of_nat M)%Z.
  Hypothesis Hf : forall e, live e -> (sumq (fun i => w i * inject_Z (m i e)) (layers k) == flow e)%Q.
  Hypothesis HC : forall e, In e C -> live e.

  (* number of traversals of cut edges by route i *)
  Definition cntz (i : N) : Z := sumz (m i) C.
  Definition crosses (i : N) : bool := (cntz i =? 1)%Z.

  (* every route crosses the cut exactly once, or not at all and then carries no live edge *)
  Hypothesis Hx : forall i, In i (layers k) -> cntz i = 1%Z \/ (cntz i = 0%Z /\ forall e, live e -> m i e = 0%Z).

  Definition sel : list N := filter crosses (layers k).
  Definition gw : list Q := map w sel.

  Lemma cut_sum : (sumq flow C == sumq (fun i => w i * inject_Z (cntz i)) (layers k))%Q.
  Proof.
    transitivity (sumq (fun e => sumq (fun i => (w i * inject_Z (m i e))%Q) (layers k)) C).
    - apply sumq_ext. intros e He. symmetry. exact (Hf e (HC e He)).
    - rewrite sumq_swap. apply sumq_ext. intros i _. unfold cntz.
      rewrite <- (sumq_sumz (fun e => inject_Z (m i e)) (m i) C) by (intros; reflexivity).
      rewrite <- ErrEncProofs.sumq_scale. reflexivity.
  Qed.

  Lemma gw_length : (length gw <= k)%nat.
  Proof.
    unfold gw, sel. rewrite map_length. pose proof (filter_len_le crosses (layers k)) as H.
    rewrite layers_length in H. exact H.
  Qed.

  Lemma gw_nonneg : Forall (fun v => (0 <= v)%Q) gw.
  Proof.
    apply Forall_forall. intros v Hv. unfold gw in Hv. apply in_map_iff in Hv. destruct Hv as (i & <- & Hi).
    unfold sel in Hi. apply filter_In in Hi. exact (Hw i (proj1 Hi)).
  Qed.

  Lemma gw_total : (sumql gw == sumq flow C)%Q.
  Proof.
    unfold gw. rewrite sumql_map. unfold sel. rewrite sumq_filter_ind, cut_sum.
    apply sumq_ext. intros i Hi. unfold crosses. destruct (Hx i Hi) as [Hc|[Hc _]]; rewrite Hc; cbn [Z.eqb Pos.eqb indq]; [|change (inject_Z 0) with 0%Q]; ring.
  Qed.

  Lemma gw_generates (e : PathEnc.edge) : live e -> gen_by M gw (flow e).
  Proof.
    intros He. exists (map (fun i => m i e) sel). split; [|split].
    - unfold gw. rewrite !map_length. reflexivity.
    - apply Forall_forall. intros x Hx'. apply in_map_iff in Hx'. destruct Hx' as (i & <- & Hi).
      unfold sel in Hi. apply filter_In in Hi. exact (Hm i e (proj1 Hi) He).
    - unfold gw. rewrite dotz_map. unfold sel. rewrite sumq_filter_ind, <- (Hf e He).
      apply sumq_ext. intros i Hi. unfold crosses. destruct (Hx i Hi) as [Hc|[Hc Hno]]; rewrite Hc; cbn [Z.eqb indq Pos.eqb].
      + ring.
      + rewrite (Hno e He). change (inject_Z 0) with 0%Q. ring.
  Qed.

  Lemma gw_int : (forall i, In i (layers k) -> is_int (w i)) -> Forall is_int gw.
  Proof.
    intros Hint. apply Forall_forall. intros v Hv. unfold gw in Hv. apply in_map_iff in Hv. destruct Hv as (i & <- & Hi).
    unfold sel in Hi. apply filter_In in Hi. exact (Hint i (proj1 Hi)).
  Qed.

  Theorem genset_from_routes (L : list PathEnc.edge) : (forall e, In e L -> live e) ->
    (length gw <= k)%nat /\ genset M (map flow L) (sumq flow C) gw.
  Proof.
    intros HL. split; [exact gw_length|]. split; [exact gw_nonneg|]. split; [exact gw_total|].
    intros a Ha. apply in_map_iff in Ha. destruct Ha as (e & <- & He). exact (gw_generates e (HL e He)).
  Qed.

  (* behind the partition constraints: over a cut that every route crosses at most once (and each crossing is a single
     traversal) the selected weights split into the flows of the cut's edges *)
  Theorem cut_partitions_weights (e : PathEnc.edge) : In e C ->
    (sumq (fun i => w i * inject_Z (m i e)) sel == flow e)%Q.
  Proof.
    intros He. unfold sel. rewrite sumq_filter_ind, <- (Hf e (HC e He)).
    apply sumq_ext. intros i Hi. unfold crosses. destruct (Hx i Hi) as [Hc|[Hc Hno]]; rewrite Hc; cbn [Z.eqb indq Pos.eqb].
    - ring.
    - rewrite (Hno e (HC e He)). change (inject_Z 0) with 0%Q. ring.
  Qed.
End AbsGen.

(* ------------------------------------------------------------------ the cut the code uses: edges leaving the graph's sources *)
Lemma sumz_single (C : list PathEnc.edge) (e0 : PathEnc.edge) : NoDup C ->
  sumz (fun e => if eqe e0 e then 1%Z else 0%Z) C = (if mem_edge e0 C then 1 else 0)%Z.
Proof.
  induction C as [|a C IH]; intros ND; [reflexivity|]. inversion ND as [|? ? Hna ND']; subst. cbn [sumz].
  rewrite (IH ND'). destruct (eqe e0 a) eqn:Q.
  - apply eqe_true in Q. subst a.
    assert (M0 : mem_edge e0 (e0 :: C) = true) by (apply mem_edge_In; left; reflexivity). rewrite M0.
    destruct (mem_edge e0 C) eqn:MC; [apply mem_edge_In in MC; contradiction|reflexivity].
  - destruct (mem_edge e0 C) eqn:MC.
    + assert (M1 : mem_edge e0 (a :: C) = true) by (apply mem_edge_In; right; apply mem_edge_In; exact MC). rewrite M1. reflexivity.
    + destruct (mem_edge e0 (a :: C)) eqn:M1; [|reflexivity]. apply mem_edge_In in M1. destruct M1 as [->|M1].
      * assert (eqe e0 e0 = true) by (apply eqe_true; reflexivity). congruence.
      * apply mem_edge_In in M1. congruence.
Qed.

Lemma in_pairs_pred (x y u : node) (r : list node) :
  In (x, y) (pairs (u :: r)) -> x = u \/ exists z, In (z, x) (pairs (u :: r)).
Proof.
  revert u. induction r as [|b r IH]; intros u H; [destruct H|].
  rewrite pairs_cons2 in H. destruct H as [H|H].
  - left. congruence.
  - destruct (IH b H) as [->|(z & Hz)].
    + right. exists u. rewrite pairs_cons2. left. reflexivity.
    + right. exists z. rewrite pairs_cons2. right. exact Hz.
Qed.

Lemma in_has_pred (l : list node) : forall (a x : node), In x l -> exists z, In (z, x) (pairs (a :: l)).
Proof.
  induction l as [|c l IH]; intros a x H; [destruct H|]. destruct H as [->|H].
  - exists a. rewrite pairs_cons2. left. reflexivity.
  - destruct (IH c x H) as (z & Hz). exists z. rewrite pairs_cons2. right. exact Hz.
Qed.

Lemma sumz_ext_in {A} (f g : A -> Z) (l : list A) : (forall x, In x l -> f x = g x) -> sumz f l = sumz g l.
Proof.
  induction l as [|x l IH]; intros H; [reflexivity|]. cbn [sumz]. rewrite (H x (or_introl eq_refl)), IH; [reflexivity|].
  intros y Hy. apply H. right. exact Hy.
Qed.

Section SourceCut.
  Variables (G : stgraph) (ignore : list PathEnc.edge).
  Let E := g_edges G.
  Let s := g_src G.
  Let t := g_snk G.
  Hypothesis WF : wf_graph G.
  (* the nodes attached to the synthetic source are the graph's sources: no other edge enters them (no additional starts) *)
  Hypothesis S1 : forall u x, In (s, u) E -> In (x, u) E -> x = s.
  (* exactly the synthetic edges are ignored (the guard `not ignores_weighted_edges` of get_lowerbound_k) *)
  Hypothesis S2 : forall e, In e E -> mem_edge e ignore = true -> fst e = s \/ snd e = t.
  Hypothesis S3 : forall u, In (s, u) E -> mem_edge (s, u) ignore = true.

  Definition src_cut : list PathEnc.edge := filter (fun e => mem_edge (s, fst e) E && negb (mem_edge e ignore)) E.

  Lemma src_cut_live e : In e src_cut -> In e E /\ mem_edge e ignore = false.
  Proof.
    unfold src_cut. intros H. apply filter_In in H. destruct H as [He Hb]. apply andb_true_iff in Hb.
    split; [exact He|]. apply negb_true_iff. exact (proj2 Hb).
  Qed.

  (* a source-to-sink WALK (nodes may repeat) traverses exactly one edge of the source cut, once -- or it is the walk
     s,u,t over synthetic edges only *)
  Lemma src_cut_crossing (p : list node) :
    hd_error p = Some s -> last p s = t -> incl (pairs p) E ->
    sumz (multz (pairs p)) src_cut = 1%Z \/
    (sumz (multz (pairs p)) src_cut = 0%Z /\ forall e, In e E -> mem_edge e ignore = false -> multz (pairs p) e = 0%Z).
  Proof.
    intros Hhd Hlast Hincl. destruct p as [|a p]; [discriminate Hhd|]. cbn [hd_error] in Hhd. injection Hhd as ->.
    destruct p as [|u r].
    { cbn [last] in Hlast. exfalso. exact (wf_st G WF Hlast). }
    assert (Hsu : In (s, u) E) by (apply Hincl; rewrite pairs_cons2; left; reflexivity).
    assert (Hs_notin : forall z, ~ In (z, s) (pairs (s :: u :: r))).
    { intros z Hz. apply (wf_src G WF (z, s) (Hincl _ Hz)). reflexivity. }
    set (e0 := (u, hd u r)).
    (* a cut edge is traversed only as the edge leaving u *)
    assert (Hone : forall e, In e src_cut -> multz (pairs (s :: u :: r)) e = if eqe e0 e then 1%Z else 0%Z).
    { intros [x y] He. unfold src_cut in He. apply filter_In in He. destruct He as [HeE Hb].
      apply andb_true_iff in Hb. destruct Hb as [Hsx Hig]. cbn [fst] in Hsx. apply mem_edge_In in Hsx. apply negb_true_iff in Hig.
      unfold multz. rewrite pairs_cons2. cbn [count_e].
      destruct (eqe (s, u) (x, y)) eqn:Q0.
      { apply eqe_true in Q0. injection Q0 as <- <-. rewrite (S3 u Hsu) in Hig. discriminate Hig. }
      destruct r as [|b r'].
      { cbn [pairs count_e hd]. unfold e0. cbn [hd]. destruct (eqe (u, u) (x, y)) eqn:Q1; [|reflexivity].
        apply eqe_true in Q1. injection Q1 as <- <-. exfalso.
        (* (u,u) would be an edge into a source other than from s *)
        assert (u = s) by (apply (S1 u u Hsu HeE)). subst u. apply (wf_src G WF (s, s) HeE). reflexivity. }
      rewrite pairs_cons2. cbn [count_e hd]. unfold e0. cbn [hd].
      assert (Ztail : count_e (x, y) (pairs (b :: r')) = 0%nat).
      { destruct (count_e (x, y) (pairs (b :: r'))) eqn:Cn; [reflexivity|exfalso].
        assert (Hin : In (x, y) (pairs (b :: r'))) by (apply count_pos_in; lia).
        assert (Hz : exists z, In (z, x) (pairs (u :: b :: r'))).
        { destruct (in_pairs_pred x y b r' Hin) as [->|(z & Hz)].
          - exists u. rewrite pairs_cons2. left. reflexivity.
          - exists z. rewrite pairs_cons2. right. exact Hz. }
        destruct Hz as (z & Hz).
        assert (z = s) by (apply (S1 x z Hsx); apply Hincl; rewrite pairs_cons2; right; exact Hz). subst z.
        (* s reappears inside the walk: some edge enters s *)
        apply in_pairs_r in Hz. destruct Hz as [Hs _].
        destruct (in_has_pred (u :: b :: r') s s Hs) as (z & Hz').
        exact (Hs_notin z Hz'). }
      rewrite Ztail. destruct (eqe (u, b) (x, y)); reflexivity. }
    assert (Hsum : sumz (multz (pairs (s :: u :: r))) src_cut = (if mem_edge e0 src_cut then 1 else 0)%Z).
    { rewrite <- (sumz_single src_cut e0) by (unfold src_cut; apply NoDup_filter; exact (wf_nodup_e G WF)).
      apply sumz_ext_in. exact Hone. }
    destruct (mem_edge e0 src_cut) eqn:B; [left; exact Hsum|right]. split; [exact Hsum|].
    intros e HeE Hig.
    assert (Hcount : forall l, (forall x, In x l -> mem_edge x ignore = true) -> count_e e l = 0%nat).
    { induction l as [|x l IH]; intros Hl; [reflexivity|]. cbn [count_e]. destruct (eqe x e) eqn:Q.
      - apply eqe_true in Q. subst x. rewrite (Hl e (or_introl eq_refl)) in Hig. discriminate Hig.
      - rewrite IH by (intros y Hy; apply Hl; right; exact Hy). reflexivity. }
    unfold multz. rewrite Hcount; [reflexivity|].
    destruct r as [|b r'].
    - intros x Hx. cbn in Hx. destruct Hx as [<-|[]]. exact (S3 u Hsu).
    - cbn [hd] in e0.
      assert (He0E : In e0 E) by (apply Hincl; rewrite !pairs_cons2; right; left; reflexivity).
      assert (Hig0 : mem_edge e0 ignore = true).
      { destruct (mem_edge e0 ignore) eqn:G0; [reflexivity|exfalso].
        assert (In e0 src_cut).
        { unfold src_cut. apply filter_In. split; [exact He0E|]. unfold e0 at 1. cbn [fst].
          apply andb_true_iff. split; [apply mem_edge_In; exact Hsu|]. rewrite G0. reflexivity. }
        apply mem_edge_In in H. rewrite H in B. discriminate B. }
      destruct (S2 e0 He0E Hig0) as [Hu|Hb]; cbn [fst snd e0] in *.
      + exfalso. subst u. apply (wf_src G WF (s, s) Hsu). reflexivity.
      + assert (r' = []).
        { destruct r' as [|c r'']; [reflexivity|exfalso].
          assert (In (b, c) E) by (apply Hincl; rewrite !pairs_cons2; right; right; left; reflexivity).
          apply (wf_snk G WF (b, c) H). exact Hb. }
        subst r'. intros x Hx. cbn in Hx. destruct Hx as [<-|[<-|[]]]; [exact (S3 u Hsu)|exact Hig0].
  Qed.
End SourceCut.

(* ------------------------------------------------------------------ the bound for MinFlowDecomp (DAG, paths) *)
Lemma count_nodup (e : PathEnc.edge) (l : list PathEnc.edge) : NoDup l -> count_e e l = if mem_edge e l then 1%nat else 0%nat.
Proof.
  induction l as [|x l IH]; intros ND; [reflexivity|]. inversion ND as [|? ? Hn ND']; subst. cbn [count_e]. rewrite (IH ND').
  destruct (eqe x e) eqn:Q.
  - apply eqe_true in Q. subst x. assert (M0 : mem_edge e (e :: l) = true) by (apply mem_edge_In; left; reflexivity). rewrite M0.
    destruct (mem_edge e l) eqn:Ml; [apply mem_edge_In in Ml; contradiction|reflexivity].
  - destruct (mem_edge e l) eqn:Ml.
    + assert (M1 : mem_edge e (x :: l) = true) by (apply mem_edge_In; right; apply mem_edge_In; exact Ml). rewrite M1. reflexivity.
    + destruct (mem_edge e (x :: l)) eqn:M1; [|reflexivity]. apply mem_edge_In in M1. destruct M1 as [->|M1].
      * assert (eqe e e = true) by (apply eqe_true; reflexivity). congruence.
      * apply mem_edge_In in M1. congruence.
Qed.

Theorem min_gen_set_bound (I : kfd_inst) (P : N -> list node) (w : N -> Q) (L : list PathEnc.edge) :
  let G := p_graph (f_base I) in let E := g_edges G in let s := g_src G in let t := g_snk G in
  decomposition I P w -> wf_graph G ->
  (forall u x, In (s, u) E -> In (x, u) E -> x = s) ->
  (forall e, In e E -> mem_edge e (f_ignore I) = true -> fst e = s \/ snd e = t) ->
  (forall u, In (s, u) E -> mem_edge (s, u) (f_ignore I) = true) ->
  (forall e, In e L -> In e E /\ mem_edge e (f_ignore I) = false) ->
  exists g : list Q, (length g <= p_k (f_base I))%nat /\
    genset 1 (map (flow_of I) L) (sumq (flow_of I) (src_cut G (f_ignore I))) g /\ (f_int I = true -> Forall is_int g).
Proof.
  intros G E s t D WF S1 S2 S3 HL. pose proof D as (HP & Hw & Hf).
  set (m := fun i e => multz (pairs (P i)) e).
  set (live := fun e => In e E /\ mem_edge e (f_ignore I) = false).
  assert (Hm01 : forall i e, In i (layers (p_k (f_base I))) -> m i e = if mem_edge e (pairs (P i)) then 1%Z else 0%Z).
  { intros i e Hi. unfold m, multz. rewrite count_nodup by (apply nodup_pairs; exact (proj1 (proj2 (proj2 (HP i Hi))))).
    destruct (mem_edge e (pairs (P i))); reflexivity. }
  assert (A1 : forall i, In i (layers (p_k (f_base I))) -> (0 <= w i)%Q) by (intros i Hi; exact (proj1 (proj1 (Hw i Hi)))).
  assert (A2 : forall i e, In i (layers (p_k (f_base I))) -> live e -> (0 <= m i e <= Z.of_nat 1)%Z).
  { intros i e Hi _. rewrite (Hm01 i e Hi). destruct (mem_edge e (pairs (P i))); cbn; lia. }
  assert (A3 : forall e, live e -> (sumq (fun i => w i * inject_Z (m i e)) (layers (p_k (f_base I))) == flow_of I e)%Q).
  { intros e [He Hig]. unfold flow_of. rewrite <- (Hf e He Hig). apply sumq_ext. intros i Hi. rewrite (Hm01 i e Hi).
    destruct (mem_edge e (pairs (P i))); reflexivity. }
  assert (A4 : forall e, In e (src_cut G (f_ignore I)) -> live e) by (intros e He; exact (src_cut_live G (f_ignore I) e He)).
  assert (A5 : forall i, In i (layers (p_k (f_base I))) -> cntz m (src_cut G (f_ignore I)) i = 1%Z \/
              (cntz m (src_cut G (f_ignore I)) i = 0%Z /\ forall e, live e -> m i e = 0%Z)).
  { intros i Hi. destruct (HP i Hi) as (Hhd & Hlast & _ & Hincl).
    destruct (src_cut_crossing G (f_ignore I) WF S1 S2 S3 (P i) Hhd Hlast Hincl) as [H1|[H0 Hno]]; [left; exact H1|right].
    split; [exact H0|]. intros e [He Hig]. exact (Hno e He Hig). }
  exists (gw (p_k (f_base I)) w m (src_cut G (f_ignore I))).
  destruct (genset_from_routes (p_k (f_base I)) w m (flow_of I) live (src_cut G (f_ignore I)) 1 A1 A2 A3 A4 A5 L HL) as [Hlen Hgen].
  split; [exact Hlen|]. split; [exact Hgen|]. intros Hint. apply gw_int. intros i Hi. exact (proj2 (Hw i Hi) Hint).
Qed.

(* ------------------------------------------------------------------ the bound for MinFlowDecompCycles (walks): the same with
   multiplicities up to M (MinGenSet's max_multiplicity) *)
Theorem min_gen_set_bound_walks (I : kfdc_inst) (P : N -> list node) (wt : N -> Q) (M : nat) (L : list PathEnc.edge) :
  let G := c_graph I in let E := g_edges G in let s := g_src G in let t := g_snk G in
  walk_decomposition I P wt -> wf_graph G ->
  (forall u x, In (s, u) E -> In (x, u) E -> x = s) ->
  (forall e, In e E -> mem_edge e (kfdc_ignore I) = true -> fst e = s \/ snd e = t) ->
  (forall u, In (s, u) E -> mem_edge (s, u) (kfdc_ignore I) = true) ->
  (forall i e, In i (layers (c_k I)) -> In e (kept_edges I) -> (mult P i e <= Z.of_nat M)%Z) ->
  (forall e, In e L -> In e (kept_edges I)) ->
  exists g : list Q, (length g <= c_k I)%nat /\
    genset M (map (WalkEncRows.flow_of I) L) (sumq (WalkEncRows.flow_of I) (src_cut G (kfdc_ignore I))) g /\
    (c_int I = true -> Forall is_int g).
Proof.
  intros G E s t (HP & Hw & Hf) WF S1 S2 S3 HM HL.
  set (m := fun i e => mult P i e).
  set (live := fun e => In e (kept_edges I)).
  assert (Hlive : forall e, live e <-> In e E /\ mem_edge e (kfdc_ignore I) = false).
  { intros e. unfold live, kept_edges. rewrite filter_In, negb_true_iff. reflexivity. }
  assert (A1 : forall i, In i (layers (c_k I)) -> (0 <= wt i)%Q) by (intros i Hi; exact (proj1 (Hw i Hi))).
  assert (A2 : forall i e, In i (layers (c_k I)) -> live e -> (0 <= m i e <= Z.of_nat M)%Z).
  { intros i e Hi He. split; [unfold m, mult, multz; lia|exact (HM i e Hi He)]. }
  assert (A3 : forall e, live e -> (sumq (fun i => wt i * inject_Z (m i e)) (layers (c_k I)) == WalkEncRows.flow_of I e)%Q)
    by (intros e He; exact (Hf e He)).
  assert (A4 : forall e, In e (src_cut G (kfdc_ignore I)) -> live e).
  { intros e He. apply Hlive. exact (src_cut_live G (kfdc_ignore I) e He). }
  assert (A5 : forall i, In i (layers (c_k I)) -> cntz m (src_cut G (kfdc_ignore I)) i = 1%Z \/
              (cntz m (src_cut G (kfdc_ignore I)) i = 0%Z /\ forall e, live e -> m i e = 0%Z)).
  { intros i Hi. destruct (HP i Hi) as (Hhd & Hlast & Hincl).
    destruct (src_cut_crossing G (kfdc_ignore I) WF S1 S2 S3 (P i) Hhd Hlast Hincl) as [H1|[H0 Hno]]; [left; exact H1|right].
    split; [exact H0|]. intros e He. apply Hlive in He. exact (Hno e (proj1 He) (proj2 He)). }
  exists (gw (c_k I) wt m (src_cut G (kfdc_ignore I))).
  destruct (genset_from_routes (c_k I) wt m (WalkEncRows.flow_of I) live (src_cut G (kfdc_ignore I)) M A1 A2 A3 A4 A5 L HL) as [Hlen Hgen].
  split; [exact Hlen|]. split; [exact Hgen|]. intros Hint. apply gw_int. intros i Hi. exact (proj2 (Hw i Hi) Hint).
Qed.

(* ------------------------------------------------------------------ the search may start at these bounds *)
(* for a family of instances that differ only in k: below each bound there is no decomposition *)
Theorem lower_bounds_cut_off_nothing (inst : nat -> kfd_inst) (L : list PathEnc.edge) (mgs : nat) :
  (forall k, p_k (f_base (inst k)) = k) ->
  (forall k e, In e L -> In e (g_edges (p_graph (f_base (inst k)))) /\ mem_edge e (f_ignore (inst k)) = false) ->
  (forall k, ForallOrdPairs (fun e e' => ~ (flow_of (inst k) e == flow_of (inst k) e')%Q) L) ->
  (* mgs = least size of a generating multiset for the flow values of L and the source flow, in every instance *)
  (forall k g, genset 1 (map (flow_of (inst k)) L)
                      (sumq (flow_of (inst k)) (src_cut (p_graph (f_base (inst k))) (f_ignore (inst k)))) g -> (mgs <= length g)%nat) ->
  (forall k, let G := p_graph (f_base (inst k)) in
     wf_graph G /\ (forall u x, In (g_src G, u) (g_edges G) -> In (x, u) (g_edges G) -> x = g_src G) /\
     (forall e, In e (g_edges G) -> mem_edge e (f_ignore (inst k)) = true -> fst e = g_src G \/ snd e = g_snk G) /\
     (forall u, In (g_src G, u) (g_edges G) -> mem_edge (g_src G, u) (f_ignore (inst k)) = true)) ->
  forall k, (k < Nat.max (Nat.log2_up (length L)) mgs)%nat -> ~ exists P w, decomposition (inst k) P w.
Proof.
  intros Hk HL Hd Hmgs Hst k Hlt (P & w & D).
  pose proof (log2_bound (inst k) P w L D (HL k) (Hd k)) as B1. rewrite Hk in B1.
  destruct (Hst k) as (WF & S1 & S2 & S3).
  destruct (min_gen_set_bound (inst k) P w L D WF S1 S2 S3 (HL k)) as (g & Hlen & Hgen & _). rewrite Hk in Hlen.
  pose proof (Hmgs k g Hgen) as B2. lia.
Qed.

(* ------------------------------------------------------------------ non-vacuity *)
Definition lbG : stgraph :=
  {| g_nodes := [0; 1; 2; 3; 4]%N; g_edges := [(0, 1); (1, 2); (1, 3); (2, 4); (3, 4)]%N; g_src := 0%N; g_snk := 4%N;
     g_succ := [(0, [1]); (1, [2; 3]); (2, [4]); (3, [4]); (4, [])]%N;
     g_pred := [(0, []); (1, [0]); (2, [1]); (3, [1]); (4, [2; 3])]%N |}.
Definition lbI (k : nat) : kfd_inst :=
  {| f_base := {| p_graph := lbG; p_k := k; p_allow_empty := false; p_cons := []; p_cov := 1%Q; p_len := None |};
     f_flow := [((1, 2), 2%Q); ((1, 3), 3%Q)]%N; f_ignore := [(0, 1); (2, 4); (3, 4)]%N; f_wmax := 3%Q; f_int := true |}.
Definition lbP (i : N) : list node := if (i =? 0)%N then [0; 1; 2; 4]%N else [0; 1; 3; 4]%N.
Definition lbW (i : N) : Q := if (i =? 0)%N then 2%Q else 3%Q.

Lemma lb_wf : wf_graph lbG.
Proof.
  constructor.
  - cbn. repeat constructor; cbn; intuition discriminate.
  - intros e He. cbn in He. cbn. intuition (subst; cbn; auto).
  - intros v. destruct v as [|[[p|p|]|[[p|p|]|[p|p|]|]|]]; reflexivity.
  - intros v. destruct v as [|[[p|p|]|[[p|p|]|[p|p|]|]|]]; cbn; apply Permutation_refl.
  - intros e He. cbn in He. intuition (subst; cbn; discriminate).
  - intros e He. cbn in He. intuition (subst; cbn; discriminate).
  - cbn. discriminate.
Qed.

Example lb_decomposition : decomposition (lbI 2) lbP lbW.
Proof.
  unfold decomposition; split; [|split].
  - intros i Hi. assert (i = 0%N \/ i = 1%N) as [-> | ->] by (cbn in Hi; intuition); cbn.
    + repeat split; try reflexivity.
      * repeat constructor; cbn; intuition discriminate.
      * intros e He. cbn in He. cbn. intuition.
    + repeat split; try reflexivity.
      * repeat constructor; cbn; intuition discriminate.
      * intros e He. cbn in He. cbn. intuition.
  - intros i Hi. assert (i = 0%N \/ i = 1%N) as [-> | ->] by (cbn in Hi; intuition); cbn; (split; [lra|intros _; eexists; reflexivity]).
  - intros e He Hig. cbn in He. intuition (subst; try discriminate Hig; vm_compute; reflexivity).
Qed.

Example lb_premises :
  (forall u x, In (0%N, u) (g_edges lbG) -> In (x, u) (g_edges lbG) -> x = 0%N) /\
  (forall e, In e (g_edges lbG) -> mem_edge e (f_ignore (lbI 2)) = true -> fst e = 0%N \/ snd e = 4%N) /\
  (forall u, In (0%N, u) (g_edges lbG) -> mem_edge (0%N, u) (f_ignore (lbI 2)) = true).
Proof.
  split; [|split].
  - intros u x H1 H2. cbn in H1, H2. intuition congruence.
  - intros e He Hig. cbn in He. intuition (subst; cbn; auto; discriminate Hig).
  - intros u H. cbn in H. intuition (try congruence). injection H0 as <-. reflexivity.
Qed.

(* the source cut is {(1,2),(1,3)}, the source flow 5, and the bound's generating multiset is {2,3} *)
Example lb_cut : src_cut lbG (f_ignore (lbI 2)) = [(1, 2); (1, 3)]%N. Proof. reflexivity. Qed.
Example lb_gen_set_bound : exists g : list Q, (length g <= 2)%nat /\ genset 1 [2%Q; 3%Q] (2 + (3 + 0))%Q g.
Proof.
  destruct lb_premises as (S1 & S2 & S3).
  destruct (min_gen_set_bound (lbI 2) lbP lbW [(1, 2); (1, 3)]%N lb_decomposition lb_wf S1 S2 S3) as (g & Hl & Hg & _).
  - intros e He. cbn in He. intuition (subst; cbn; auto).
  - exists g. split; [exact Hl|exact Hg].
Qed.
Example lb_log2 : (Nat.log2_up 2 <= 2)%nat.
Proof.
  apply (log2_bound (lbI 2) lbP lbW [(1, 2); (1, 3)]%N lb_decomposition).
  - intros e He. cbn in He. intuition (subst; cbn; auto).
  - repeat constructor. vm_compute. discriminate.
Qed.
