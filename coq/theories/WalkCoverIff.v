(* C09 on digraphs with cycles: feasibility of the walk-cover LP (WalkEncRows.encode_kpcc, kPathCoverCycles) characterised
   and composed with the k-search of MinPathCoverCycles.  The soundness half is proved for an arbitrary walk instance
   (Section WSound: any assignment satisfying the base block — walk rows, safety rows, subset-constraint rows — yields
   source-to-sink walks within the repetition caps that respect the fixing and realise the constraints). *)
From Coq Require Import List NArith ZArith QArith Qround Lqa Bool Arith Lia Permutation.
Import ListNotations.
From FP Require Import Lin Blocks BlocksProofs PathEnc PathEncProofs Euler EulerProofs1 EulerProofs4
                       WalkEnc WalkDecode WalkEncRows WalkEncRowsProofs WalkTree WalkEncComplete WalkEncIff WalkSearch.
Set Default Timeout 90.
Local Close Scope Q_scope.
Local Open Scope nat_scope.

(* ---- the walk-level clauses for an arbitrary walk instance ---- *)
Definition wwalks (WI : walk_inst) (P : N -> list node) : Prop :=
  forall i, In i (layers (w_k WI)) ->
    hd_error (P i) = Some (g_src (w_graph WI)) /\ last (P i) (g_src (w_graph WI)) = g_snk (w_graph WI) /\
    incl (pairs (P i)) (g_edges (w_graph WI)).
Definition wwithin_caps (WI : walk_inst) (P : N -> list node) : Prop :=
  forall i e, In i (layers (w_k WI)) -> In e (g_edges (w_graph WI)) -> (inject_Z (mult P i e) <= cap WI e)%Q.
Definition wrespects_fixing (WI : walk_inst) (P : N -> list node) : Prop :=
  (forall e i, In (e, i) (zero_set WI) -> mult P i e = 0%Z) /\
  (forall e i m, In (e, i, m) (fix_items WI) ->
     (is_scc_edge (w_graph WI) e = true -> o_geq (w_opts WI) = true -> (Z.of_nat m <= mult P i e)%Z) /\
     (is_scc_edge (w_graph WI) e = false -> mult P i e = 1%Z)).
Definition wrealises_constraints (WI : walk_inst) (P : N -> list node) : Prop :=
  forall j c, nth_error (all_cons WI) j = Some c ->
    exists i, In i (layers (w_k WI)) /\ (qnat (length (nodup_e c)) * w_cov WI <= sumq (usedq P i) (nodup_e c))%Q.
Definition winputs_ok (WI : walk_inst) : Prop :=
  (forall c e, In c (all_cons WI) -> In e c -> In e (g_edges (w_graph WI))) /\
  (forall w e, In w (w_fix WI) -> In e w -> In e (g_edges (w_graph WI))).

Section WSound.
  Variable WI : walk_inst.
  Variable a : var -> Q.
  Let G := w_graph WI.
  Let k := w_k WI.
  Let E := g_edges G.
  Let s := g_src G.
  Let t := g_snk G.
  Hypothesis WFS : wf_stg G.
  Hypothesis Hae : o_allow_empty (w_opts WI) = false.
  Hypothesis Hin : winputs_ok WI.
  Hypothesis Hc : Forall (sat_col a) (walk_cols WI).
  Hypothesis Hsc : Forall (sat_col a) (sub_cols WI).
  Hypothesis Hr : Forall (sat_row a) (walk_rows WI).
  Hypothesis Hzr : Forall (sat_row a) (zero_rows WI).
  Hypothesis Hfr : Forall (sat_row a) (fix_rows WI).
  Hypothesis Hsr : Forall (sat_row a) (sub_rows WI).

  Definition Pofw (i : N) : list node :=
    match reconstruct (resid E (xint a i)) s with Some (_, w) => w | None => [] end.

  Lemma Pofw_spec i : In i (layers k) ->
    hd_error (Pofw i) = Some s /\ last (Pofw i) s = t /\
    (forall e, In e E -> count_e e (pairs (Pofw i)) = Z.to_nat (xint a i e)) /\
    (forall e, ~ In e E -> count_e e (pairs (Pofw i)) = 0).
  Proof.
    intros Hi. destruct (walk_layer_is_one_walk WI a WFS Hc Hr i Hae Hi) as (w & R & Hh & Hl & _ & C1 & C0).
    unfold Pofw. fold G E s t in R |- *. rewrite R. repeat split; assumption.
  Qed.

  Lemma multw_xint i e : In i (layers k) -> In e E -> mult Pofw i e = xint a i e.
  Proof.
    intros Hi He. destruct (Pofw_spec i Hi) as (_ & _ & C1 & _). unfold mult, multz. rewrite (C1 e He).
    destruct (edge_val WI a Hc i e Hi He) as (_ & X0 & _). lia.
  Qed.

  Lemma edgew_q i e : In i (layers k) -> In e E -> (a (evar e i) == inject_Z (mult Pofw i e))%Q.
  Proof. intros Hi He. rewrite (multw_xint i e Hi He). apply (edge_val WI a Hc i e Hi He). Qed.

  Lemma wsound_walks : wwalks WI Pofw.
  Proof.
    intros i Hi. destruct (Pofw_spec i Hi) as (A & B & _ & C0). split; [exact A|]. split; [exact B|].
    intros e He. destruct (mem_edge e E) eqn:M; [apply WalkEncRowsProofs.mem_edge_In; exact M|exfalso].
    assert (Hn : ~ In e E) by (intros X; apply WalkEncRowsProofs.mem_edge_In in X; congruence).
    apply count_pos_in in He. rewrite (C0 e Hn) in He. lia.
  Qed.

  Lemma wsound_caps : wwithin_caps WI Pofw.
  Proof. intros i e Hi He. rewrite <- (edgew_q i e Hi He). apply (edge_val WI a Hc i e Hi He). Qed.

  Lemma wgeq_val e i m : In i (layers k) -> In e E -> In (e, i, m) (fix_items WI) ->
    is_scc_edge G e = true -> o_geq (w_opts WI) = true -> (qnat m <= a (evar e i))%Q.
  Proof.
    intros Hi He Hit Hscc Hg. destruct (o_bounds (w_opts WI)) eqn:B.
    - destruct (edge_val WI a Hc i e Hi He) as (_ & _ & L & _). unfold edge_lb in L. rewrite B in L.
      destruct (find (fun x => edge_eqb (fst (fst x)) e && (snd (fst x) =? i)%N) (fix_items WI)) as [[[e2 i2] m2]|] eqn:F.
      + apply find_some in F. destruct F as [Hin2 F]. cbn [fst snd] in F. apply andb_true_iff in F. destruct F as [F1 F2].
        apply edge_eqb_eq in F1. apply N.eqb_eq in F2. subst e2 i2. rewrite (fix_items_fun WI e i m m2 Hit Hin2).
        fold G in L. rewrite Hscc, Hg in L. exact L.
      + exfalso. pose proof (find_none _ _ F _ Hit) as Nn. cbn [fst snd] in Nn.
        rewrite (proj2 (edge_eqb_eq e e) eq_refl), N.eqb_refl in Nn. discriminate Nn.
    - assert (R : sat_row a (mkrow [(evar e i, 1%Q)] SGe (qnat m))).
      { apply (sat_rows_in a _ _ Hfr). unfold fix_rows. rewrite B. apply in_flat_map. exists (e, i, m). split; [exact Hit|].
        fold G. rewrite Hscc, Hg. left. reflexivity. }
      unfold sat_row, mkrow in R. cbn [sns lhs rhs eval fst snd] in R. lra.
  Qed.

  Lemma wsound_fixing : wrespects_fixing WI Pofw.
  Proof.
    split.
    - intros e i Hz. destruct (zero_set_in WI e i Hz) as [He Hi].
      pose proof (zero_val WI a Hzr e i Hz) as Z0. rewrite (edgew_q i e Hi He) in Z0. apply (inject_Z_inj_eq _ 0%Z). exact Z0.
    - intros e i m Hit. destruct (fix_items_in WI e i m Hit) as (w & Hl & Hew & _).
      destruct (fix_layers_in WI i w Hl) as (Hi & j & _ & Hj).
      assert (He : In e E) by (apply (proj2 Hin w e (nth_error_In _ _ Hj) Hew)).
      split.
      + intros Hscc Hg. pose proof (wgeq_val e i m Hi He Hit Hscc Hg) as L. rewrite (edgew_q i e Hi He) in L.
        unfold qnat in L. rewrite <- Zle_Qle in L. exact L.
      + intros Hscc. assert (O : In (e, i) (one_set WI)).
        { unfold one_set. apply in_map_iff. exists (e, i, m). split; [reflexivity|]. apply filter_In. split; [exact Hit|].
          cbn [fst]. apply negb_true_iff. exact Hscc. }
        pose proof (one_val WI a Hc Hfr e i Hi He O) as X1. rewrite (edgew_q i e Hi He) in X1. apply (inject_Z_inj_eq _ 1%Z). exact X1.
  Qed.

  Lemma wused_le i e : In i (layers k) -> In e E -> all_cons WI <> [] -> (a (uvar e i) <= usedq Pofw i e)%Q.
  Proof.
    intros Hi He Hne.
    assert (C : sat_col a (bincol (uvar e i))).
    { apply (sat_cols_in a _ _ Hsc). rewrite (sub_cols_ne WI Hne). apply in_or_app. right.
      apply in_flat_map. exists i. split; [exact Hi|]. apply (in_map (fun e => bincol (uvar e i))) in He. exact He. }
    apply bin_of_col in C.
    assert (R : sat_row a (row_min1a i e)).
    { apply (sat_rows_in a _ _ Hsr). rewrite (sub_rows_ne WI Hne). apply in_or_app. left.
      apply in_flat_map. exists i. split; [exact Hi|]. apply in_flat_map. exists e. split; [exact He|]. left. reflexivity. }
    unfold sat_row, row_min1a, mkrow in R. cbn [sns lhs rhs eval fst snd] in R. rewrite (edgew_q i e Hi He) in R.
    unfold usedq. destruct (Z.ltb_spec 0 (mult Pofw i e)) as [L|L]; cbn [WalkEncComplete.indq].
    - destruct C as [C|C]; rewrite C; lra.
    - assert (mult Pofw i e = 0%Z) by (unfold mult, multz in *; lia). rewrite H in R. change (inject_Z 0) with 0%Q in R. lra.
  Qed.

  Lemma wsound_constraints : wrealises_constraints WI Pofw.
  Proof.
    intros j c Hj. assert (Hne : all_cons WI <> []) by (intros X; rewrite X in Hj; destruct j; discriminate).
    assert (Hjl : j < length (all_cons WI)) by (apply nth_error_Some; congruence).
    assert (R7b : sat_row a (row_s7b k (N.of_nat j))).
    { apply (sat_rows_in a _ _ Hsr). rewrite (sub_rows_ne WI Hne).
      do 2 (apply in_or_app; right). apply (in_map (fun j => row_s7b (w_k WI) (N.of_nat j))). apply in_seq. lia. }
    unfold sat_row, row_s7b, mkrow in R7b. cbn [sns lhs rhs] in R7b. rewrite (eval_map_const a (fun i => R i (N.of_nat j)) 1%Q) in R7b.
    destruct (sum_bin_ge1 (fun i => a (R i (N.of_nat j))) (layers k)) as (i & Hi & Ri).
    { intros i Hi. apply bin_of_col. apply (sat_cols_in a _ _ Hsc). rewrite (sub_cols_ne WI Hne).
      apply in_or_app. left. apply in_flat_map. exists i. split; [exact Hi|].
      apply (in_map (fun j => bincol (R i (N.of_nat j)))). apply in_seq. lia. }
    { lra. }
    exists i. split; [exact Hi|].
    assert (R7a : sat_row a (row_s7a WI i (N.of_nat j, c))).
    { apply (sat_rows_in a _ _ Hsr). rewrite (sub_rows_ne WI Hne).
      apply in_or_app. right. apply in_or_app. left. apply in_flat_map. exists i. split; [exact Hi|].
      apply in_map. apply (nth_zipn_w (all_cons WI) 0 j c Hj). }
    unfold sat_row, row_s7a, mkrow in R7a. cbn [sns lhs rhs fst snd] in R7a. rewrite eval_app in R7a.
    rewrite (eval_map_const a (fun e => uvar e i) 1%Q) in R7a. cbn [eval fst snd] in R7a. rewrite Ri in R7a.
    assert (L : (sumq (fun e => a (uvar e i)) (nodup_e c) <= sumq (usedq Pofw i) (nodup_e c))%Q).
    { apply wsumq_le. intros e He. apply (proj1 (nodup_e_In e c)) in He. apply (wused_le i e Hi); [|exact Hne].
      apply (proj1 Hin c e (nth_error_In _ _ Hj) He). }
    lra.
  Qed.
End WSound.

(* ---------------------------------------------------------------------------------------------- *)
(* kPathCoverCycles                                                                               *)
Definition cover_admissible (I : kpcc_inst) (P : N -> list node) : Prop :=
  let WI := kpcc_walk I in
  wwalks WI P /\
  (* every non-ignored edge is traversed by some walk *)
  (forall e, In e (g_edges (pc_graph I)) -> mem_edge e (kpcc_ignore I) = false ->
             exists i, In i (layers (pc_k I)) /\ (1 <= mult P i e)%Z) /\
  (* within the repetition caps of the model (|E*| * |V*| inside SCCs, 1 outside) *)
  wwithin_caps WI P /\ wrespects_fixing WI P /\ wrealises_constraints WI P.

Section KpccComplete.
  Variable I : kpcc_inst.
  Let WI := kpcc_walk I.
  Variable P : N -> list node.
  Variable ch : N -> N.

  Definition asgc (x : var) : Q :=
    match vidx x with
    | [u; v; i] =>
        if (vfam x =? fEdge)%N then inject_Z (mult P i (u, v))
        else if (vfam x =? fSel)%N then WalkEncComplete.indq (selb (rev (P i)) (u, v))
        else if (vfam x =? fUsed)%N then usedq P i (u, v)
        else 0%Q
    | [v; i] => if (vfam x =? fDist)%N then inject_Z (Z.of_nat (rankf (rev (P i)) v))
                else if (vfam x =? fR)%N then WalkEncComplete.indq (v =? ch i)%N else 0%Q
    | _ => 0%Q
    end.

  Hypothesis WFS : wf_stg (pc_graph I).
  Hypothesis HP : wwalks WI P.
  Hypothesis Hcover : forall e, In e (g_edges (pc_graph I)) -> mem_edge e (kpcc_ignore I) = false ->
      exists i, In i (layers (pc_k I)) /\ (1 <= mult P i e)%Z.
  Hypothesis Hcap : wwithin_caps WI P.
  Hypothesis Hfix : wrespects_fixing WI P.
  Hypothesis Hcov : forall j c, nth_error (all_cons WI) j = Some c ->
      In (ch (N.of_nat j)) (layers (w_k WI)) /\
      (qnat (length (nodup_e c)) * w_cov WI <= sumq (usedq P (ch (N.of_nat j))) (nodup_e c))%Q.

  Theorem kpcc_complete : sat asgc (encode_kpcc I).
  Proof.
    destruct Hfix as [Hz Hf].
    destruct (base_sat WI P ch asgc WFS HP Hcap Hz Hf Hcov) as [Bc Br]; try reflexivity.
    unfold sat, encode_kpcc. cbn [cols rows]. fold WI. split; [exact Bc|]. rewrite Forall_app. split; [exact Br|].
    unfold kpcc_rows. apply Forall_forall. intros r Hr. apply in_map_iff in Hr. destruct Hr as (e & <- & He).
    apply filter_In in He. destruct He as [He Hig]. apply negb_true_iff in Hig.
    destruct (Hcover e He Hig) as (i & Hi & Hm).
    unfold sat_row, mkrow. cbn [sns lhs rhs]. rewrite (eval_map_const asgc (fun i => evar e i) 1%Q).
    assert (T : (asgc (evar e i) <= sumq (fun i => asgc (evar e i)) (layers (pc_k I)))%Q).
    { apply (wsumq_ge_term (fun i => asgc (evar e i)) (layers (pc_k I)) i); [|exact Hi].
      intros j _. destruct e. cbn. change 0%Q with (inject_Z 0). rewrite <- Zle_Qle. unfold mult, multz. lia. }
    assert (E1 : (1 <= asgc (evar e i))%Q).
    { destruct e. cbn. change 1%Q with (inject_Z 1). rewrite <- Zle_Qle. exact Hm. }
    lra.
  Qed.
End KpccComplete.

Theorem kpcc_complete_admissible (I : kpcc_inst) (P : N -> list node) :
  wf_stg (pc_graph I) -> cover_admissible I P -> exists a, sat a (encode_kpcc I).
Proof.
  intros WF (HP & Hcover & Hcap & Hfix & Hcons).
  destruct (finite_choice_w (all_cons (kpcc_walk I))
              (fun j c i => In i (layers (w_k (kpcc_walk I))) /\
                            (qnat (length (nodup_e c)) * w_cov (kpcc_walk I) <= sumq (usedq P i) (nodup_e c))%Q) Hcons) as (ch & Hch).
  exists (asgc P ch). apply kpcc_complete; assumption.
Qed.

(* C09 (cyclic): the k-cover LP is feasible exactly when k walks within the caps cover the non-ignored edges, respect the
   fixing and realise the constraints *)
Theorem kpcc_feasible_iff_within_caps (I : kpcc_inst) :
  wf_stg (pc_graph I) -> o_allow_empty (pc_opts I) = false -> winputs_ok (kpcc_walk I) ->
  ((exists a, sat a (encode_kpcc I)) <-> (exists P, cover_admissible I P)).
Proof.
  intros WF Hae Hin. split.
  - intros (a & Hsat). pose proof Hsat as [Hc Hr]. unfold encode_kpcc in Hc, Hr. cbn [cols rows] in Hc, Hr.
    unfold base_wcols in Hc. unfold base_wrows in Hr. rewrite !Forall_app in Hc. rewrite !Forall_app in Hr.
    destruct Hc as (Hwc & Hsc). destruct Hr as ((Hwr & Hzr & Hfr & Hsr) & _).
    exists (Pofw (kpcc_walk I) a). split; [apply (wsound_walks (kpcc_walk I) a WF Hae Hwc Hwr)|]. split; [|split; [|split]].
    + intros e He Hig. destruct (kpcc_covers I a e Hsat He Hig) as (i & Hi & Hx). exists i. split; [exact Hi|].
      rewrite (multw_xint (kpcc_walk I) a WF Hae Hwc Hwr i e Hi He). exact Hx.
    + apply (wsound_caps (kpcc_walk I) a WF Hae Hwc Hwr).
    + apply (wsound_fixing (kpcc_walk I) a WF Hae Hin Hwc Hwr Hzr Hfr).
    + apply (wsound_constraints (kpcc_walk I) a WF Hae Hin Hwc Hsc Hwr Hsr).
  - intros (P & H). apply (kpcc_complete_admissible I P WF H).
Qed.

(* C09 composed with the k-search of MinPathCoverCycles.solve (the loop of WalkSearch without time exit and without the
   given-weights shortcut) *)
Theorem mpcc_returns_minimum_within_caps (inst : nat -> kpcc_inst) (out : nat -> outcome) (lb nE kmin : nat) :
  (forall j, pc_k (inst j) = j /\ wf_stg (pc_graph (inst j)) /\ o_allow_empty (pc_opts (inst j)) = false /\ winputs_ok (kpcc_walk (inst j))) ->
  (forall j, out j = Optimal <-> exists a, sat a (encode_kpcc (inst j))) ->
  (forall j, out j = Infeasible <-> ~ exists a, sat a (encode_kpcc (inst j))) ->
  (exists P, cover_admissible (inst kmin) P) ->
  (forall j, j < kmin -> ~ exists P, cover_admissible (inst j) P) ->
  lb <= kmin <= nE ->
  mfdc_solve out (fun _ => false) None lb nE = Solved kmin.
Proof.
  intros Hinst Hopt Hinf Hmin Hless Hrange.
  assert (Iff : forall j, (exists a, sat a (encode_kpcc (inst j))) <-> (exists P, cover_admissible (inst j) P)).
  { intros j. destruct (Hinst j) as (_ & WF & Hae & Hin). apply kpcc_feasible_iff_within_caps; assumption. }
  apply (mfdc_search_min out (fun _ => false) None (fun j => exists P, cover_admissible (inst j) P) lb nE kmin); try assumption.
  - intros j. rewrite Hopt. apply Iff.
  - intros j. rewrite Hinf. rewrite (Iff j). tauto.
  - intros j. reflexivity.
  - intros g Hg. discriminate Hg.
Qed.
