(* The walks of the walk-width theorem can be chosen within the repetition caps of the cover model of kPathCoverCycles
   (|E| * |V| inside strongly connected components, 1 outside): a walk that has to pass a duplicate-free list L of edges can be
   put together from |L| + 1 simple connecting paths and the edges of L, so it passes no edge more than |L| + 2 times, and it
   passes an edge that is on no closed walk at most once.  Hence MinPathCoverCycles (no subset constraints, no safety lists)
   returns the walk width of the non-ignored edges, relative to the solver specification. *)
From Coq Require Import List NArith ZArith QArith Lqa Bool Arith Lia Permutation.
Import ListNotations.
From FP Require Import Lin PathEnc Euler EulerProofs1 EulerProofs4 PathEncProofs PathEncComplete Dilworth WalkWidth.
Set Default Timeout 60.
Local Close Scope Q_scope.
Local Open Scope nat_scope.

Lemma count_e_in e l : In e l -> 1 <= count_e e l.
Proof.
  induction l as [|x l IH]; intros H; [destruct H|]. cbn [count_e]. destruct H as [->|H].
  - rewrite (proj2 (eqe_true e e) eq_refl). lia.
  - specialize (IH H). lia.
Qed.
Lemma count_e_notin e l : ~ In e l -> count_e e l = 0.
Proof.
  induction l as [|x l IH]; intros H; [reflexivity|]. cbn [count_e]. destruct (eqe x e) eqn:Q.
  - apply eqe_true in Q. subst. exfalso. apply H. left. reflexivity.
  - rewrite IH; [reflexivity|]. intros X. apply H. right. exact X.
Qed.
Lemma count_e_pos e l : 1 <= count_e e l -> In e l.
Proof.
  intros H. destruct (in_dec edge_dec e l) as [Hin|Hn]; [exact Hin|]. rewrite (count_e_notin e l Hn) in H. lia.
Qed.
Lemma count_e_nodup e l : NoDup l -> count_e e l <= 1.
Proof.
  induction 1 as [|x l Hx ND IH]; [cbn; lia|]. cbn [count_e]. destruct (eqe x e) eqn:Q; [|lia].
  apply eqe_true in Q. subst. rewrite (count_e_notin e l Hx). lia.
Qed.
Lemma in_pairs_fst e : forall l, In e (pairs l) -> In (fst e) (removelast l).
Proof.
  induction l as [|x l IH]; intros H; [destruct H|]. destruct l as [|y r]; [destruct H|]. rewrite pairs_cons2 in H.
  change (removelast (x :: y :: r)) with (x :: removelast (y :: r)). destruct H as [<-|H]; [left; reflexivity|right; apply IH; exact H].
Qed.
Lemma in_removelast {A} (x : A) l : In x (removelast l) -> In x l.
Proof.
  induction l as [|y l IH]; intros H; [destruct H|]. destruct l as [|z r]; [destruct H|].
  change (removelast (y :: z :: r)) with (y :: removelast (z :: r)) in H. destruct H as [<-|H]; [left; reflexivity|right; apply IH; exact H].
Qed.
(* a simple path passes an edge at most once *)
Lemma count_pairs_nodup e : forall l, NoDup l -> count_e e (pairs l) <= 1.
Proof.
  induction l as [|x l IH]; intros ND; [cbn; lia|]. destruct l as [|y r]; [cbn; lia|]. rewrite pairs_cons2. cbn [count_e].
  inversion ND as [|? ? Hx ND']; subst. specialize (IH ND'). destruct (eqe (x, y) e) eqn:Q; [|lia].
  apply eqe_true in Q. subst e. rewrite count_e_notin; [lia|]. intros H. apply in_pairs_fst in H. apply in_removelast in H. exact (Hx H).
Qed.

Section Bounded.
  Variable G : list PathEnc.edge.

  (* shortening: a connection can be made along a simple path *)
  Lemma pairs_suffix (l1 : list node) u l2 : incl (pairs (l1 ++ u :: l2)) G -> incl (pairs (u :: l2)) G.
  Proof.
    intros H. destruct l1 as [|a l1]; [exact H|]. rewrite (pairs_app_last (a :: l1) (u :: l2) a) in H by discriminate.
    intros e He. apply H. apply in_or_app. right. destruct l2 as [|b r]; [destruct He|]. rewrite pairs_cons2 in He. rewrite !pairs_cons2.
    right. exact He.
  Qed.
  Lemma simple_conn : forall m u, incl (pairs (u :: m)) G ->
    exists m', NoDup (u :: m') /\ incl (pairs (u :: m')) G /\ last (u :: m') u = last (u :: m) u.
  Proof.
    induction m as [|y m IH]; intros u Hw.
    - exists []. split; [constructor; [intros []|constructor]|]. split; [intros e []|reflexivity].
    - rewrite pairs_cons2 in Hw. destruct (IH y (fun e He => Hw e (or_intror He))) as (m1 & ND & Hw1 & L1).
      assert (Elast : last (u :: y :: m) u = last (y :: m) y) by (rewrite !last_cons_default; reflexivity).
      destruct (in_dec N.eq_dec u (y :: m1)) as [Hin|Hn].
      + apply in_split in Hin. destruct Hin as (l1 & l2 & Eq). exists l2. rewrite Eq in ND, Hw1, L1. split; [|split].
        * clear - ND. induction l1 as [|a l1 IHl]; [exact ND|]. inversion ND; subst. apply IHl. assumption.
        * apply (pairs_suffix l1 u l2). exact Hw1.
        * rewrite Elast, <- L1. rewrite (last_app_ne l1 (u :: l2) y) by discriminate. rewrite !last_cons_default. reflexivity.
      + exists (y :: m1). split; [constructor; assumption|]. split.
        * rewrite pairs_cons2. intros e [<-|He]; [apply Hw; left; reflexivity|apply Hw1; exact He].
        * rewrite Elast, <- L1. rewrite !last_cons_default. reflexivity.
  Qed.

  (* walks from u to v that pass the edges of L and pass no edge more than n times beyond its occurrences in L *)
  Definition wkB (u v : node) (L : list PathEnc.edge) (n : nat) : Prop :=
    exists m, incl (pairs (u :: m)) G /\ last (u :: m) u = v /\ incl L (pairs (u :: m)) /\
              forall e, count_e e (pairs (u :: m)) <= n + count_e e L.
  Lemma wkB_refl u : wkB u u [] 0.
  Proof. exists []. split; [intros e []|]. split; [reflexivity|]. split; [intros e []|intros e; cbn; lia]. Qed.
  Lemma wkB_conn u v : conn G u v -> wkB u v [] 1.
  Proof.
    intros (m & Hm & Lm). destruct (simple_conn m u Hm) as (m' & ND & Hw & L'). exists m'. split; [exact Hw|]. split; [congruence|].
    split; [intros e []|]. intros e. pose proof (count_pairs_nodup e (u :: m') ND). cbn [count_e]. lia.
  Qed.
  Lemma wkB_edge u v : In (u, v) G -> wkB u v [(u, v)] 0.
  Proof.
    intros H. exists [v]. split; [intros e [<-|[]]; exact H|]. split; [reflexivity|]. split; [intros e [<-|[]]; left; reflexivity|].
    intros e. cbn. lia.
  Qed.
  Lemma wkB_app u v w L1 L2 n1 n2 : wkB u v L1 n1 -> wkB v w L2 n2 -> wkB u w (L1 ++ L2) (n1 + n2).
  Proof.
    intros (m & Hm & Lm & Sm & Cm) (m' & Hm' & Lm' & Sm' & Cm'). exists (m ++ m').
    assert (Ep : pairs (u :: m ++ m') = pairs (u :: m) ++ pairs (v :: m')).
    { change (u :: m ++ m') with ((u :: m) ++ m'). rewrite (pairs_app_last (u :: m) m' u) by discriminate. rewrite Lm. reflexivity. }
    rewrite Ep. split; [|split; [|split]].
    - intros e He. apply in_app_or in He. destruct He; auto.
    - destruct m' as [|y m'']; [rewrite app_nil_r; cbn in Lm'; congruence|].
      change (u :: m ++ y :: m'') with ((u :: m) ++ y :: m''). rewrite last_app_ne by discriminate.
      rewrite <- Lm'. rewrite !last_cons_default. reflexivity.
    - intros e He. apply in_or_app. apply in_app_or in He. destruct He; [left|right]; auto.
    - intros e. rewrite !count_e_app. specialize (Cm e). specialize (Cm' e). lia.
  Qed.
  Lemma wkB_is_conn u v L n : wkB u v L n -> conn G u v.
  Proof. intros (m & H1 & H2 & _). exists m. split; assumption. Qed.

  (* a walk that passes an edge twice closes a cycle through it *)
  Lemma twice_closes e : forall l, incl (pairs l) G -> 2 <= count_e e (pairs l) -> conn G (snd e) (fst e).
  Proof.
    induction l as [|x l IH]; intros Hw H; [cbn in H; lia|]. destruct l as [|y r]; [cbn in H; lia|].
    rewrite pairs_cons2 in Hw, H. cbn [count_e] in H. destruct (eqe (x, y) e) eqn:Q.
    - apply eqe_true in Q. subst e. cbn [fst snd]. assert (Hin : In (x, y) (pairs (y :: r))) by (apply count_e_pos; lia).
      exact (in_pairs_conn G r y (x, y) (fun z Hz => Hw z (or_intror Hz)) Hin).
    - apply IH; [intros z Hz; apply Hw; right; exact Hz|lia].
  Qed.

  Variables s t : node.
  Hypothesis Hst : forall u v, In (u, v) G -> conn G s u /\ conn G v t.
  Variable X : list PathEnc.edge.
  Hypothesis NDX : NoDup X.
  Hypothesis HX : incl X G.

  Definition others (e : PathEnc.edge) : list PathEnc.edge := filter (fun f => eqvb G e f && negb (edge_eqb f e)) X.
  Definition blk (e : PathEnc.edge) : list PathEnc.edge := e :: others e.

  Lemma eqvb_conn e f : In e G -> In f G -> eqvb G e f = true -> conn G (snd e) (fst f) /\ conn G (snd f) (fst e).
  Proof.
    intros He Hf Q. unfold eqvb in Q. apply andb_true_iff in Q. destruct Q as [Q1 Q2].
    split; [apply (reachb_conn G e _ He); exact Q1|apply (reachb_conn G f _ Hf); exact Q2].
  Qed.
  Lemma eqvb_trans a b x : In a G -> In b G -> In x G -> eqvb G a x = true -> eqvb G b x = true -> eqvb G a b = true.
  Proof.
    intros Ha Hb Hx Q1 Q2. destruct (eqvb_conn a x Ha Hx Q1) as [A1 A2]. destruct (eqvb_conn b x Hb Hx Q2) as [B1 B2].
    unfold eqvb. apply andb_true_iff. split.
    - apply (reachb_conn G a _ Ha). apply (conn_trans G _ (fst x) _ A1). apply (conn_trans G _ (snd x)); [apply conn_edge; destruct x; exact Hx|exact B2].
    - apply (reachb_conn G b _ Hb). apply (conn_trans G _ (fst x) _ B1). apply (conn_trans G _ (snd x)); [apply conn_edge; destruct x; exact Hx|exact A2].
  Qed.

  Lemma tourB e : In e G -> forall fs z0, conn G z0 (snd e) ->
    (forall f, In f fs -> In f G /\ conn G (snd e) (fst f) /\ conn G (snd f) (snd e)) ->
    exists z, wkB z0 z fs (length fs) /\ conn G z (snd e).
  Proof.
    intros He. induction fs as [|f fs IH]; intros z0 Hz H.
    - exists z0. split; [apply wkB_refl|exact Hz].
    - destruct (H f (or_introl eq_refl)) as (HfG & H1 & H2).
      destruct (IH (snd f) H2 (fun g Hg => H g (or_intror Hg))) as (z & Hw & Hzz). exists z. split; [|exact Hzz].
      change (f :: fs) with (([] ++ [f]) ++ fs). change (length (([] ++ [f]) ++ fs)) with ((1 + 0) + length fs).
      apply (wkB_app z0 (snd f)); [|exact Hw]. apply (wkB_app z0 (fst f)); [apply wkB_conn; exact (conn_trans G _ _ _ Hz H1)|].
      destruct f; apply wkB_edge; exact HfG.
  Qed.

  Lemma blk_walk e : In e G -> exists z n, wkB (fst e) z (blk e) n /\ n + 1 = length (blk e) /\ conn G z (snd e).
  Proof.
    intros He. destruct (tourB e He (others e) (snd e) (conn_refl G _)) as (z & Hw & Hz).
    { intros f Hf. apply filter_In in Hf. destruct Hf as [HfX Q]. apply andb_true_iff in Q. destruct Q as [Q _].
      pose proof (HX f HfX) as HfG. destruct (eqvb_conn e f He HfG Q) as [C1 C2]. split; [exact HfG|]. split; [exact C1|].
      apply (conn_trans G _ (fst e) _ C2). apply conn_edge. destruct e; exact He. }
    exists z, (length (others e)). split; [|split; [unfold blk; cbn [length]; lia|exact Hz]].
    unfold blk. change (e :: others e) with ([e] ++ others e). change (length (others e)) with (0 + length (others e)).
    apply (wkB_app _ (snd e)); [destruct e; apply wkB_edge; exact He|exact Hw].
  Qed.

  Lemma chain_walk : forall srt e, incl (e :: srt) G -> linked PathEnc.edge (wlt G) (e :: srt) ->
    exists z n, wkB (fst e) z (flat_map blk (e :: srt)) n /\ n + 1 = length (flat_map blk (e :: srt)) /\ conn G z t.
  Proof.
    induction srt as [|e2 srt IH]; intros e Hin Hlk.
    - assert (He : In e G) by (apply Hin; left; reflexivity). destruct (blk_walk e He) as (z & n & Hw & Hn & Hz).
      exists z, n. cbn [flat_map]. rewrite app_nil_r. split; [exact Hw|]. split; [exact Hn|].
      apply (conn_trans G _ _ _ Hz). destruct e as [a b]. exact (proj2 (Hst a b He)).
    - destruct Hlk as [Hb Hlk]. destruct (IH e2 (fun z Hz => Hin z (or_intror Hz)) Hlk) as (z & n2 & Hw2 & Hn2 & Hz2).
      apply wlt_spec in Hb. destruct Hb as (He & _ & Hc & _). destruct (blk_walk e He) as (z1 & n1 & Hw1 & Hn1 & Hz1).
      exists z, (n1 + (1 + n2)). split; [|split; [|exact Hz2]].
      + change (flat_map blk (e :: e2 :: srt)) with (blk e ++ ([] ++ flat_map blk (e2 :: srt))).
        apply (wkB_app _ z1); [exact Hw1|]. apply (wkB_app _ (fst e2)); [|exact Hw2].
        apply wkB_conn. exact (conn_trans G _ _ _ Hz1 Hc).
      + change (flat_map blk (e :: e2 :: srt)) with (blk e ++ flat_map blk (e2 :: srt)). rewrite app_length. lia.
  Qed.

  Lemma nodup_app_intro {A} (l1 l2 : list A) : NoDup l1 -> NoDup l2 -> (forall x, In x l1 -> ~ In x l2) -> NoDup (l1 ++ l2).
  Proof.
    induction l1 as [|x l1 IH]; intros N1 N2 Hd; [exact N2|]. inversion N1 as [|? ? Hx ND]; subst. cbn [app]. constructor.
    - intros H. apply in_app_or in H. destruct H as [H|H]; [exact (Hx H)|]. exact (Hd x (or_introl eq_refl) H).
    - apply IH; [exact ND|exact N2|]. intros y Hy. apply Hd. right. exact Hy.
  Qed.
  Lemma blk_nodup e : NoDup (blk e).
  Proof.
    unfold blk. constructor; [|apply NoDup_filter; exact NDX]. intros H. apply filter_In in H. destruct H as [_ Q].
    apply andb_true_iff in Q. destruct Q as [_ Q]. rewrite (proj2 (edge_eqb_eq e e) eq_refl) in Q. discriminate.
  Qed.
  Lemma blks_nodup : forall srt, NoDup srt -> incl srt (pick G X) -> NoDup (flat_map blk srt).
  Proof.
    induction 1 as [|e srt He ND IH]; intros Hin; [constructor|]. cbn [flat_map].
    apply nodup_app_intro; [apply blk_nodup|apply IH; intros z Hz; apply Hin; right; exact Hz|].
    intros x Hx Hx2. apply in_flat_map in Hx2. destruct Hx2 as (b & Hb & Hxb).
    assert (HeY : In e (pick G X)) by (apply Hin; left; reflexivity). assert (HbY : In b (pick G X)) by (apply Hin; right; exact Hb).
    assert (Hne : e <> b) by (intros ->; exact (He Hb)).
    assert (HeG : In e G) by (apply HX, (pick_incl G X), HeY). assert (HbG : In b G) by (apply HX, (pick_incl G X), HbY).
    destruct (pick_sep G X e b HeY HbY) as [E|Sep]; [contradiction|].
    assert (Hmem : forall a y, In y (blk a) -> y = a \/ (In y X /\ eqvb G a y = true)).
    { intros a y [<-|Hy]; [left; reflexivity|right]. apply filter_In in Hy. destruct Hy as [H1 Q]. apply andb_true_iff in Q. tauto. }
    destruct (Hmem e x Hx) as [E1|[HxX Q1]]; destruct (Hmem b x Hxb) as [E2|[HxX2 Q2]].
    + apply Hne. congruence.
    + subst x. rewrite eqvb_sym in Sep. congruence.
    + subst x. congruence.
    + pose proof (eqvb_trans e b x HeG HbG (HX x HxX) Q1 Q2). congruence.
  Qed.

  (* the walk-width theorem with bounded repetition: no walk of the cover passes an edge more than |X| + 2 times *)
  Theorem bounded_walk_cover :
    exists (W : list (list node)) (A' : list PathEnc.edge),
      (forall l, In l W -> st_walk G s t l) /\ (forall e, In e X -> exists l, In l W /\ In e (pairs l)) /\
      NoDup A' /\ incl A' X /\ walk_incompatible G A' /\ length A' = length W /\
      (forall l e, In l W -> count_e e (pairs l) <= length X + 2).
  Proof.
    set (Y := pick G X).
    destruct (dilworth PathEnc.edge edge_eqb edge_eqb_eq (wlt G) (wlt_irrefl G) (wlt_trans G) Y (pick_nodup G X NDX))
      as (C & A' & HC & Hcov & NDA & HA & Hanti & Hlen).
    assert (HYG : incl Y G) by (intros e He; apply HX; apply (pick_incl G X); exact He).
    destruct (choice_list (fun c l => st_walk G s t l /\ incl (flat_map blk c) (pairs l) /\
                                      forall e, count_e e (pairs l) <= length X + 2) C) as (W & HF).
    { intros c Hc. destruct (HC c Hc) as (Hch & Hinc & Hne).
      destruct (chain_linked PathEnc.edge edge_eqb edge_eqb_eq (wlt G) (wlt_irrefl G) (wlt_trans G) (length c) c (le_n _) Hch)
        as (srt & Hs & Hlk & _ & NDs).
      destruct srt as [|e srt0].
      { destruct c as [|z c0]; [contradiction|]. exfalso. apply (proj2 (Hs z)). left. reflexivity. }
      assert (HsY : incl (e :: srt0) Y) by (intros z Hz; apply Hinc; apply Hs; exact Hz).
      assert (HsG : incl (e :: srt0) G) by (intros z Hz; apply HYG, HsY, Hz).
      destruct (chain_walk srt0 e HsG Hlk) as (z & n & Hw & Hn & Hz).
      assert (HeG : In e G) by (apply HsG; left; reflexivity).
      set (L := flat_map blk (e :: srt0)) in *.
      assert (NDL : NoDup L) by (apply blks_nodup; assumption).
      assert (HLX : incl L X).
      { intros f Hf. apply in_flat_map in Hf. destruct Hf as (a & Ha & Hfa). destruct Hfa as [<-|Hfa].
        - apply (pick_incl G X). apply HsY. exact Ha.
        - apply filter_In in Hfa. apply Hfa. }
      pose proof (NoDup_incl_length NDL HLX) as HlenL.
      assert (Hfull : wkB s t L (1 + (n + 1))).
      { change L with ([] ++ L). apply (wkB_app _ (fst e)); [apply wkB_conn; destruct e as [a b]; exact (proj1 (Hst a b HeG))|].
        rewrite <- (app_nil_r L). apply (wkB_app _ z); [exact Hw|apply wkB_conn; exact Hz]. }
      destruct Hfull as (m & H1 & H2 & H3 & H4). exists (s :: m). split; [split; [reflexivity|split; [exact H2|exact H1]]|]. split.
      - intros f Hf. apply H3. apply in_flat_map in Hf. destruct Hf as (x & Hx & Hfx). apply in_flat_map. exists x. split; [apply Hs; exact Hx|exact Hfx].
      - intros f. specialize (H4 f). pose proof (count_e_nodup f L NDL). lia. }
    exists W, A'. split; [|split; [|split; [|split; [|split; [|split]]]]].
    - intros l Hl. destruct (Forall2_in_r _ _ _ l HF Hl) as (c & _ & H & _). exact H.
    - intros e He. destruct (pick_rep G X e He) as (e' & He' & Q). fold Y in He'.
      destruct (Hcov e' He') as (c & Hc & Hec). destruct (Forall2_in_l _ _ _ c HF Hc) as (l & Hl & _ & Hcl & _).
      exists l. split; [exact Hl|]. apply Hcl. apply in_flat_map. exists e'. split; [exact Hec|]. unfold blk.
      destruct Q as [->|Q]; [left; reflexivity|]. destruct (edge_eqb e e') eqn:Qe; [apply edge_eqb_eq in Qe; left; symmetry; exact Qe|].
      right. apply filter_In. split; [exact He|]. rewrite Q, Qe. reflexivity.
    - exact NDA.
    - intros e He. apply (pick_incl G X). apply HA. exact He.
    - intros e1 e2 l H1 H2 Hne Hl I1 I2.
      assert (G1 : In e1 G) by (apply HYG, HA, H1). assert (G2 : In e2 G) by (apply HYG, HA, H2).
      destruct (pick_sep G X e1 e2 (HA e1 H1) (HA e2 H2)) as [E|Sep]; [contradiction|].
      assert (Hone : forall a b, In a A' -> In b A' -> In a G -> In b G -> eqvb G a b = false -> conn G (snd a) (fst b) -> False).
      { intros a b Ha Hb Ga Gb Sp Hc. pose proof (Hanti a b Ha Hb) as L. unfold wlt in L.
        apply (reachb_conn G a _ Ga) in Hc. unfold eqvb in Sp. apply andb_false_iff in Sp. destruct Sp as [Sp|Sp]; [congruence|].
        rewrite (proj2 (mem_edge_In a G) Ga), (proj2 (mem_edge_In b G) Gb), Hc, Sp in L. discriminate. }
      destruct (two_on_path G l e1 e2 Hl I1 I2) as [E|[Hc|Hc]]; [contradiction| |].
      + exact (Hone e1 e2 H1 H2 G1 G2 Sep Hc).
      + rewrite eqvb_sym in Sep. exact (Hone e2 e1 H2 H1 G2 G1 Sep Hc).
    - rewrite Hlen. apply (Forall2_len _ _ _ HF).
    - intros l e Hl. destruct (Forall2_in_r _ _ _ l HF Hl) as (c & _ & _ & _ & H). apply H.
  Qed.
End Bounded.

(* ================================================================================================================= *)
(* the reachability closure of the model (WalkEncRows.closure with fuel |V|) finds every reachable node *)
From FP Require Import WalkEncRows WalkEncRowsProofs WalkTree WalkEncComplete WalkCoverIff WalkSearch.

Lemma add_nodes_in x : forall new l, In x (add_nodes new l) <-> In x new \/ In x l.
Proof.
  induction new as [|v r IH]; intros l; cbn [add_nodes]; [cbn [In]; tauto|]. destruct (mem_node v l) eqn:M.
  - rewrite IH. apply mem_node_In in M. split; [intros [H|H]; [left; right; exact H|right; exact H]|].
    intros [[<-|H]|H]; [right; exact M|left; exact H|right; exact H].
  - rewrite IH, in_app_iff. cbn [In]. tauto.
Qed.
Lemma closure_mono next x : forall f cur, In x cur -> In x (closure f next cur).
Proof. induction f as [|f IH]; intros cur H; [exact H|]. cbn [closure]. apply IH. apply add_nodes_in. right. exact H. Qed.
Lemma closure_reaches next : forall f m x cur, In x cur -> length m <= f ->
  (forall a b, In (a, b) (pairs (x :: m)) -> In b (next a)) -> In (last (x :: m) x) (closure f next cur).
Proof.
  induction f as [|f IH]; intros m x cur Hx Hlen Hstep.
  - destruct m; [exact Hx|cbn in Hlen; lia].
  - destruct m as [|y m]; [apply closure_mono; exact Hx|]. cbn [closure].
    assert (El : last (x :: y :: m) x = last (y :: m) y) by (rewrite !last_cons_default; reflexivity). rewrite El. apply IH.
    + apply add_nodes_in. left. apply in_flat_map. exists x. split; [exact Hx|]. apply Hstep. rewrite pairs_cons2. left. reflexivity.
    + cbn in Hlen. lia.
    + intros a b Hab. apply Hstep. rewrite pairs_cons2. right. exact Hab.
Qed.

Lemma succs_edge G a b : wf_graph G -> (In b (succs G a) <-> In (a, b) (g_edges G)).
Proof.
  intros WF. rewrite (wf_succ G WF a), in_map_iff. split.
  - intros ([x y] & <- & H). apply filter_In in H. destruct H as [H Q]. apply N.eqb_eq in Q. cbn in Q. subst. exact H.
  - intros H. exists (a, b). split; [reflexivity|apply filter_In; split; [exact H|apply N.eqb_refl]].
Qed.

Lemma walk_nodes_in G : wf_graph G -> forall m x, In x (g_nodes G) -> incl (pairs (x :: m)) (g_edges G) -> incl (x :: m) (g_nodes G).
Proof.
  intros WF. induction m as [|y m IH]; intros x Hx Hw; [intros z [<-|[]]; exact Hx|]. rewrite pairs_cons2 in Hw.
  intros z [<-|Hz]; [exact Hx|]. apply (IH y); [|intros e He; apply Hw; right; exact He|exact Hz].
  exact (proj2 (wf_ends G WF (x, y) (Hw _ (or_introl eq_refl)))).
Qed.

(* is_scc_edge of the model is complete: an edge on a closed walk is recognised *)
Lemma scc_edge_complete G e : wf_stg G -> In e (g_edges G) -> conn (g_edges G) (snd e) (fst e) -> is_scc_edge G e = true.
Proof.
  intros WFS He (m & Hm & Lm). pose proof (wfs_graph G WFS) as WF.
  destruct (simple_conn (g_edges G) m (snd e) Hm) as (m' & ND & Hw & L').
  assert (Hsn : In (snd e) (g_nodes G)) by apply (wf_ends G WF e He).
  pose proof (NoDup_incl_length ND (walk_nodes_in G WF m' (snd e) Hsn Hw)) as Hlen. cbn [length] in Hlen.
  unfold is_scc_edge, reach_fwd. apply mem_node_In. rewrite <- Lm, <- L'.
  apply closure_reaches; [left; reflexivity|lia|]. intros a b Hab. apply (succs_edge G a b WF). apply Hw. exact Hab.
Qed.

(* ================================================================================================================= *)
(* MinPathCoverCycles: an admissible cover (within the caps of the model) of the size of the walk width exists *)
Definition kset (I : kpcc_inst) (k : nat) : kpcc_inst :=
  {| pc_graph := pc_graph I; pc_k := k; pc_ignore := pc_ignore I; pc_cons := pc_cons I; pc_cov := pc_cov I; pc_opts := pc_opts I;
     pc_safe_lists := pc_safe_lists I; pc_fix := pc_fix I |}.

Lemma conn_first_edge G s u : conn G s u -> s = u \/ exists y, In (s, y) G.
Proof.
  intros (m & Hm & Lm). destruct m as [|y m]; [left; exact Lm|right]. exists y. apply Hm. rewrite pairs_cons2. left. reflexivity.
Qed.

Section CapsCover.
  Variable I : kpcc_inst.
  Let G := pc_graph I.
  Let E := g_edges G.
  Let s := g_src G.
  Let t := g_snk G.
  Hypothesis WFS : wf_stg G.
  (* every edge lies on a source-to-sink walk *)
  Hypothesis Hst : forall u v, In (u, v) E -> conn E s u /\ conn E v t.
  (* no subset constraints and no safety lists handed to the model *)
  Hypothesis Hcons : pc_cons I = [].
  Hypothesis Hsafe : pc_safe_lists I = [].
  Hypothesis Hfix : pc_fix I = [].

  Definition tocover : list PathEnc.edge := filter (fun e => negb (mem_edge e (kpcc_ignore I))) E.

  Lemma tocover_small : forall e, In e E -> length tocover + 2 <= length E * length (g_nodes G).
  Proof.
    intros e He. pose proof (wfs_graph G WFS) as WF.
    assert (HV : 2 <= length (g_nodes G)).
    { apply (NoDup_incl_length (l := [s; t])).
      - constructor; [intros [H|[]]; exact (wf_st G WF (eq_sym H))|constructor; [intros []|constructor]].
      - intros x [<-|[<-|[]]]; [apply (wfs_src_in G WFS)|apply (wfs_snk_in G WFS)]. }
    assert (Hex : exists e0, In e0 E /\ fst e0 = s).
    { destruct e as [u v]. destruct (conn_first_edge E s u (proj1 (Hst u v He))) as [<-|(y & Hy)]; [exists (s, v); auto|exists (s, y); auto]. }
    destruct Hex as (e0 & He0 & Hs0).
    assert (Hlt : length tocover < length E).
    { unfold tocover. apply (filter_length_lt PathEnc.edge _ E e0 He0). apply negb_false_iff. apply mem_edge_In.
      unfold kpcc_ignore. apply in_or_app. left. unfold st_edges. apply filter_In. split; [exact He0|].
      fold G. fold s. rewrite Hs0, N.eqb_refl. reflexivity. }
    nia.
  Qed.

  Theorem width_cover_is_admissible :
    exists (A' : list PathEnc.edge) (P : N -> list node),
      cover_admissible (kset I (length A')) P /\ NoDup A' /\ incl A' tocover /\ walk_incompatible E A'.
  Proof.
    pose proof (wfs_graph G WFS) as WF.
    assert (NDX : NoDup tocover) by (apply NoDup_filter; exact (wf_nodup_e G WF)).
    assert (HX : incl tocover E) by (intros e He; apply filter_In in He; apply He).
    destruct (bounded_walk_cover E s t Hst tocover NDX HX) as (W & A' & HW & Hcov & NDA & HA & Hinc & Hlen & Hbound).
    exists A', (fun i => nth (N.to_nat i) W []). split; [|split; [exact NDA|split; [exact HA|exact Hinc]]].
    assert (Hnth : forall i, In i (layers (length A')) -> In (nth (N.to_nat i) W []) W).
    { intros i Hi. apply in_layers in Hi. destruct Hi as (n & Hn & ->). rewrite Nat2N.id. apply nth_In. lia. }
    unfold cover_admissible. cbn zeta. split; [|split; [|split; [|split]]].
    - intros i Hi. cbn [kpcc_walk kset w_k w_graph pc_k pc_graph] in *. destruct (HW _ (Hnth i Hi)) as (H1 & H2 & H3).
      fold G. fold s. fold t. fold E. repeat split; assumption.
    - cbn [kset pc_graph pc_k]. intros e He Hig. fold G in He. fold E in He.
      assert (HeX : In e tocover).
      { apply filter_In. split; [exact He|]. apply negb_true_iff. exact Hig. }
      destruct (Hcov e HeX) as (l & Hl & Hel). destruct (In_nth _ _ [] Hl) as (n & Hn & En).
      exists (N.of_nat n). split; [apply in_layers; exists n; split; [lia|reflexivity]|].
      unfold mult, multz. rewrite Nat2N.id, En. pose proof (count_e_in e _ Hel). lia.
    - intros i e Hi He. cbn [kpcc_walk kset w_k w_graph pc_k pc_graph] in *. fold G in He. fold E in He.
      unfold cap. cbn [kpcc_walk kset w_graph w_rep w_rep_default pc_graph lookup_q]. fold G. fold E.
      pose proof (Hbound _ e (Hnth i Hi)) as Hb. unfold mult, multz. set (c := count_e e (pairs (nth (N.to_nat i) W []))) in *.
      destruct (is_scc_edge G e) eqn:Scc.
      + pose proof (tocover_small e He) as Hs. unfold qnat. rewrite <- inject_Z_mult, <- Nat2Z.inj_mul, <- Zle_Qle. apply Nat2Z.inj_le. lia.
      + change 1%Q with (inject_Z 1). rewrite <- Zle_Qle. change 1%Z with (Z.of_nat 1). apply Nat2Z.inj_le.
        destruct (Nat.le_gt_cases c 1) as [H|H]; [exact H|exfalso].
        destruct (HW _ (Hnth i Hi)) as (_ & _ & Hw).
        pose proof (twice_closes E e _ Hw H) as Hc. rewrite (scc_edge_complete G e WFS He Hc) in Scc. discriminate.
    - assert (FL : fix_layers (kpcc_walk (kset I (length A'))) = []).
      { unfold fix_layers. cbn [kpcc_walk kset w_opts w_k w_fix pc_fix pc_opts pc_k]. rewrite Hfix. cbn [zipn]. rewrite firstn_nil.
        destruct (o_safe_cons (pc_opts I)); reflexivity. }
      split.
      + intros e i Hin. unfold zero_set in Hin. rewrite FL in Hin. destruct (o_zero _); destruct Hin.
      + intros e i m Hin. unfold fix_items in Hin. rewrite FL in Hin. destruct (fixing_active _); destruct Hin.
    - intros j c Hj. unfold all_cons in Hj. cbn [kpcc_walk kset w_cons w_opts w_safe_lists w_fix pc_cons pc_opts pc_safe_lists pc_fix] in Hj.
      rewrite Hcons, Hsafe, Hfix in Hj. destruct (o_safe_cons (pc_opts I)), (o_anti_cons (pc_opts I)); destruct j; discriminate.
  Qed.

  (* and no admissible cover is smaller than a set of to-be-covered edges no two of which lie on a common walk *)
  Theorem admissible_cover_is_at_least_walk_width (k : nat) (P : N -> list node) (A' : list PathEnc.edge) :
    cover_admissible (kset I k) P -> NoDup A' -> incl A' tocover -> walk_incompatible E A' -> length A' <= k.
  Proof.
    intros (HP & Hcov & _) NDA HA Hinc. cbn [kpcc_walk kset w_k w_graph pc_k pc_graph] in *.
    assert (Hk : length (map P (layers k)) = k) by (unfold layers; rewrite !map_length, seq_length; reflexivity).
    rewrite <- Hk.
    apply (walk_cover_needs_width_many_walks E (map P (layers k)) A' NDA Hinc).
    - intros l Hl. apply in_map_iff in Hl. destruct Hl as (i & <- & Hi). exact (proj2 (proj2 (HP i Hi))).
    - intros e He. pose proof (HA e He) as HeX. apply filter_In in HeX. destruct HeX as [HeE Hig]. apply negb_true_iff in Hig.
      destruct (Hcov e HeE Hig) as (i & Hi & Hm). exists (P i). split; [apply in_map; exact Hi|].
      unfold mult, multz in Hm. apply count_e_pos. lia.
  Qed.
End CapsCover.

(* end to end (relative to the solver specification): MinPathCoverCycles without subset constraints and safety lists returns the walk
   width of the non-ignored edges -- the largest number of them no two of which lie on a common walk *)
Theorem mpcc_returns_the_walk_width (I : kpcc_inst) (out : nat -> outcome) (lb nE : nat) :
  wf_stg (pc_graph I) -> o_allow_empty (pc_opts I) = false ->
  (forall u v, In (u, v) (g_edges (pc_graph I)) ->
     conn (g_edges (pc_graph I)) (g_src (pc_graph I)) u /\ conn (g_edges (pc_graph I)) v (g_snk (pc_graph I))) ->
  pc_cons I = [] -> pc_safe_lists I = [] -> pc_fix I = [] ->
  (forall j, out j = Optimal <-> exists a, sat a (encode_kpcc (kset I j))) ->
  (forall j, out j = Infeasible <-> ~ exists a, sat a (encode_kpcc (kset I j))) ->
  exists (w : nat) (A' : list PathEnc.edge),
    NoDup A' /\ incl A' (tocover I) /\ walk_incompatible (g_edges (pc_graph I)) A' /\ length A' = w /\
    (forall A2, NoDup A2 -> incl A2 (tocover I) -> walk_incompatible (g_edges (pc_graph I)) A2 -> length A2 <= w) /\
    w <= length (g_edges (pc_graph I)) /\
    (lb <= w <= nE -> mfdc_solve out (fun _ => false) None lb nE = Solved w).
Proof.
  intros WFS Hae Hst Hcons Hsafe Hfix Hopt Hinf.
  destruct (width_cover_is_admissible I WFS Hst Hcons Hsafe Hfix) as (A' & P & Hadm & NDA & HA & Hinc).
  exists (length A'), A'. split; [exact NDA|]. split; [exact HA|]. split; [exact Hinc|]. split; [reflexivity|]. split; [|split].
  - intros A2 ND2 HA2 Hinc2. exact (admissible_cover_is_at_least_walk_width I (length A') P A2 Hadm ND2 HA2 Hinc2).
  - apply (NoDup_incl_length NDA). intros e He. apply HA in He. apply filter_In in He. apply He.
  - intros Hrange. apply (mpcc_returns_minimum_within_caps (kset I) out lb nE (length A')); try assumption.
    + intros j. split; [reflexivity|]. split; [exact WFS|]. split; [exact Hae|]. split.
      * intros c e Hc. unfold all_cons in Hc. cbn [kpcc_walk kset w_cons w_opts w_safe_lists w_fix pc_cons pc_opts pc_safe_lists pc_fix] in Hc.
        rewrite Hcons, Hsafe, Hfix in Hc. destruct (o_safe_cons (pc_opts I)), (o_anti_cons (pc_opts I)); destruct Hc.
      * intros w0 e Hw. cbn [kpcc_walk kset w_fix pc_fix] in Hw. rewrite Hfix in Hw. destruct Hw.
    + exists P. exact Hadm.
    + intros j Hj (P' & HP'). pose proof (admissible_cover_is_at_least_walk_width I j P' A' HP' NDA HA Hinc). lia.
Qed.

(* non-vacuity: the premises hold on the self-loop graph of WalkExamples (1 -> 0, 0 -> 0, 0 -> 2; source 1, sink 2) *)
From FP Require Import WalkExamples.
Example loop_width_premises :
  wf_stg (pc_graph loop_kpcc) /\ o_allow_empty (pc_opts loop_kpcc) = false /\
  (forall u v, In (u, v) (g_edges (pc_graph loop_kpcc)) ->
     conn (g_edges (pc_graph loop_kpcc)) (g_src (pc_graph loop_kpcc)) u /\ conn (g_edges (pc_graph loop_kpcc)) v (g_snk (pc_graph loop_kpcc))) /\
  pc_cons loop_kpcc = [] /\ pc_safe_lists loop_kpcc = [] /\ pc_fix loop_kpcc = [].
Proof.
  split; [exact loopG_wf|]. split; [reflexivity|]. split; [|repeat split].
  apply st_ok_spec. vm_compute. reflexivity.
Qed.
