(* C19 — proofs about Validate.v, part 3: MinFlowDecompCycles; the property at full strength per class *)
From Coq Require Import List Bool ZArith QArith Arith Lia.
Import ListNotations.
From FP Require Import Validate ValidateProofs ValidateProofs2.
Local Close Scope Q_scope.
Local Open Scope bool_scope.
Set Default Timeout 120.

Lemma all_ignored_no_usable i : all_ignored i = true -> no_usable i = true.
Proof.
  unfold no_usable, all_ignored. induction (elems i) as [|e l IH]; cbn; auto.
  intros A. apply andb_prop in A as [A1 A2]. rewrite (IH A2), andb_true_r.
  unfold ignored in A1. destruct (e_ign e); cbn in *; auto.
  destruct (origin i), (e_w e); cbn in *; try discriminate; auto.
Qed.
Lemma usable_not_all_ignored i : no_usable i = false -> all_ignored i = false.
Proof.
  intros U. destruct (all_ignored i) eqn:A; auto. rewrite (all_ignored_no_usable i A) in U. discriminate.
Qed.
Lemma live_usable i : has_live i = true -> bad_live i = false -> no_usable i = false.
Proof.
  intros L B. destruct (no_usable i) eqn:U; auto. rewrite (no_usable_live_bad i U L) in B. discriminate.
Qed.

Definition deviates_MinFlowDecompCycles (i : input) := negb (search_enters i) || dev_noncons i.
Definition no_extra (i : input) := is_nil (starts i) && is_nil (ends i).

(* OPEN: node mode + additional starts/ends is refused by the constructor, hence [no_extra] *)
Theorem validate_sound_MinFlowDecompCycles i :
  has_live i = true -> no_extra i = true ->
  validate_MinFlowDecompCycles i = RaiseValueError -> in_domain_MinFlowDecompCycles i = false.
Proof.
  intros L X H. unfold no_extra in *. destruct (in_domain_MinFlowDecompCycles i) eqn:D; [exfalso|reflexivity].
  apply andb_prop in X as [X1 X2].
  assert (B : bad_live i = false).
  { unfold_dom. destruct (origin i); bsimp; try discriminate; split_dom D; norm_hyps; assumption. }
  pose proof (live_usable i L B) as U. pose proof (usable_not_all_ignored i U) as A.
  sound_script i.
Qed.
Theorem validate_complete_MinFlowDecompCycles i :
  in_domain_MinFlowDecompCycles i = false -> deviates_MinFlowDecompCycles i = false ->
  validate_MinFlowDecompCycles i = RaiseValueError.
Proof.
  intros D V. unfold deviates_MinFlowDecompCycles in V. split_dev V. norm_hyps.
  destruct (no_usable i) eqn:U.
  - unfold dev_noncons in *; unfold_dom; unfold_all; destruct (origin i) eqn:O; bsimp; try reflexivity;
    (destruct (cons_wf i) eqn:W; [use_wf i | use_bad i]); rw_origin i O; prep_lists; rw_goal; bsimp; fing; crunch.
  - pose proof (usable_not_all_ignored i U) as A.
    destruct (starts i) as [|s0 sl] eqn:ST, (ends i) as [|e0 el] eqn:EN;
    unfold dev_noncons in *; unfold_dom; unfold_all; rewrite ?ST, ?EN in *; destruct (origin i) eqn:O; bsimp; try reflexivity;
    (destruct (cons_wf i) eqn:W; [use_wf i | use_bad i]); rw_origin i O; prep_lists; rw_goal; bsimp; fing; crunch.
Qed.
Theorem accepts_domain_MinFlowDecompCycles i :
  in_domain_MinFlowDecompCycles i = true -> has_live i = true -> search_enters i = true ->
  no_extra i = true -> validate_MinFlowDecompCycles i = Accept.
Proof.
  intros D L S X. unfold no_extra in *. apply andb_prop in X as [X1 X2].
  assert (B : bad_live i = false).
  { unfold_dom. destruct (origin i); bsimp; try discriminate; split_dom D; norm_hyps; assumption. }
  pose proof (live_usable i L B) as U. pose proof (usable_not_all_ignored i U) as A.
  accept_script i.
Qed.
(* OPEN: node mode + additional starts: NodeExpandedDiGraph is called without try_filling_in_missing_flow_attr and refuses *)
Theorem accepts_domain_MinFlowDecompCycles_refuted_node_mode_starts :
  exists i, in_domain_MinFlowDecompCycles i = true /\ has_live i = true /\ validate_MinFlowDecompCycles i = RaiseValueError.
Proof. exists (set_origin (set_starts ex_graph true [true]) ONode TFloat). vm_compute. auto. Qed.
Theorem validate_MinFlowDecompCycles_refuted_nonconserving :
  exists i, in_domain_MinFlowDecompCycles i = false /\ validate_MinFlowDecompCycles i = AcceptsButUnsolved.
Proof. exists (set_flags ex_graph false false true [true; true]). vm_compute. auto. Qed.

(* ================================================================== the property at full strength *)
Definition full_statement (c : cls) : Prop :=
  forall i, (in_domain c i = false -> validate c i = RaiseValueError) /\
            (in_domain c i = true -> has_live i = true -> validate c i = Accept).
(* the abstraction's own side condition: the k-loop of the Min* classes runs (it does whenever the caller does not pass a
   lower bound above |E|) *)
Definition regular (i : input) : bool := search_enters i.
Definition full_statement_regular (c : cls) : Prop :=
  forall i, regular i = true ->
            (in_domain c i = false -> validate c i = RaiseValueError) /\
            (in_domain c i = true -> has_live i = true -> validate c i = Accept).

Theorem full_stDAG : full_statement CstDAG.
Proof. intros i. split; [apply validate_complete_stDAG|intros D _; apply accepts_domain_stDAG; auto]. Qed.
Theorem full_stDiGraph : full_statement CstDiGraph.
Proof. intros i. split; [apply validate_complete_stDiGraph|intros D _; apply accepts_domain_stDiGraph; auto]. Qed.
Theorem full_NodeExpandedDiGraph : full_statement CNodeExpandedDiGraph.
Proof.
  intros i. split; [apply validate_complete_NodeExpandedDiGraph|intros D _; apply accepts_domain_NodeExpandedDiGraph; auto].
Qed.
Theorem full_MinErrorFlow : full_statement CMinErrorFlow.
Proof. intros i. split; [apply validate_complete_MinErrorFlow|intros D _; apply accepts_domain_MinErrorFlow; auto]. Qed.

Theorem full_kPathCover : full_statement CkPathCover.
Proof. intros i. split; [apply validate_complete_kPathCover|intros D _; apply accepts_domain_kPathCover; auto]. Qed.
Theorem full_kPathCoverCycles : full_statement CkPathCoverCycles.
Proof. intros i. split; [apply validate_complete_kPathCoverCycles|intros D _; apply accepts_domain_kPathCoverCycles; auto]. Qed.
Theorem full_regular_MinPathCover : full_statement_regular CMinPathCover.
Proof.
  intros i R. unfold regular in R. split; [intros D; apply validate_complete_MinPathCover; auto; unfold deviates_MinPathCover; rewrite R; reflexivity
                            |intros D _; apply accepts_domain_MinPathCover; auto].
Qed.
Theorem full_regular_MinPathCoverCycles : full_statement_regular CMinPathCoverCycles.
Proof.
  intros i R. unfold regular in R. split; [intros D; apply validate_complete_MinPathCoverCycles; auto; unfold deviates_MinPathCoverCycles; rewrite R; reflexivity
                            |intros D _; apply accepts_domain_MinPathCoverCycles; auto].
Qed.

(* what is left open refutes the full statement of the remaining classes:
   DESIGN #24 (all weighted elements ignored: OverflowError before k is looked at) for the weighted DAG / cyclic k-models and
   MinFlowDecomp, the non-conserving flow for the cyclic flow decompositions *)
Ltac refute_with w := let F := fresh in intros F; destruct (F w) as [F1 F2]; vm_compute in F1, F2;
  first [ specialize (F1 eq_refl); discriminate | specialize (F2 eq_refl eq_refl); discriminate ].
Definition w_all_ignored (base : input) := set_origin (set_cons (set_elems base [ign_elem] true) [] 0%Q) OEdge TInt.
Theorem full_statement_refuted c :
  In c [CkFlowDecomp; CMinFlowDecomp; CkMinPathError; CkLeastAbsErrors; CkFlowDecompCycles; CMinFlowDecompCycles;
        CkMinPathErrorCycles; CkLeastAbsErrorsCycles] -> ~ full_statement_regular c.
Proof.
  intros H. cbn in H. repeat (destruct H as [<-|H]); try contradiction.
  - intros F; destruct (F (w_all_ignored ex_dag) eq_refl) as [F1 _]; vm_compute in F1; specialize (F1 eq_refl); discriminate.
  - intros F; destruct (F (w_all_ignored ex_dag) eq_refl) as [F1 _]; vm_compute in F1; specialize (F1 eq_refl); discriminate.
  - intros F; destruct (F (w_all_ignored ex_dag) eq_refl) as [F1 _]; vm_compute in F1; specialize (F1 eq_refl); discriminate.
  - intros F; destruct (F (w_all_ignored ex_dag) eq_refl) as [F1 _]; vm_compute in F1; specialize (F1 eq_refl); discriminate.
  - intros F; destruct (F (set_flags ex_graph false false true [true; true]) eq_refl) as [F1 _]; vm_compute in F1; specialize (F1 eq_refl); discriminate.
  - intros F; destruct (F (set_flags ex_graph false false true [true; true]) eq_refl) as [F1 _]; vm_compute in F1; specialize (F1 eq_refl); discriminate.
  - intros F; destruct (F (w_all_ignored ex_graph) eq_refl) as [F1 _]; vm_compute in F1; specialize (F1 eq_refl); discriminate.
  - intros F; destruct (F (w_all_ignored ex_graph) eq_refl) as [F1 _]; vm_compute in F1; specialize (F1 eq_refl); discriminate.
Qed.
