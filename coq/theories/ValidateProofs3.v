(* C19 — proofs about Validate.v, part 3: the cyclic models *)
From Coq Require Import List Bool ZArith QArith Arith Lia.
Import ListNotations.
From FP Require Import Validate ValidateProofs ValidateProofs2.
Local Close Scope Q_scope.
Local Open Scope bool_scope.
Set Default Timeout 120.

Ltac unfold_all ::=
  unfold validate_stDAG, validate_stDiGraph, validate_NodeExpandedDiGraph, validate_kFlowDecomp, validate_MinFlowDecomp,
    validate_kMinPathError, validate_kLeastAbsErrors, validate_kErrDAG, validate_kPathCover, validate_MinPathCover,
    validate_MinErrorFlow, validate_kFlowDecompCycles, validate_kLeastAbsErrorsCycles, validate_kMinPathErrorCycles,
    validate_kErrCycles, validate_kPathCoverCycles, validate_MinPathCoverCycles, validate_MinFlowDecompCycles,
    mfd_solve, kfd_core, kfdc_core, front_cover, front, front_node, front_edge, v_stdag, v_stdigraph, v_ssg_common, v_nodeexp,
    v_maxflow, v_pathmodel, v_walkmodel, v_walkmodel_k, v_fooled, st_of, en_of, fooled, no_src, no_snk, VE in *.

Definition dev_fooled_st (i : input) := fooled i (st_of i) (en_of i).
Definition dev_noncons (i : input) := ign_internal_empty i && negb (conserving i).

(* ================================================================== kFlowDecompCycles *)
Definition deviates_kFlowDecompCycles (i : input) :=
  all_ignored i || dev_cov i || dev_expand i || dev_k_nonint i || dev_fooled_st i || dev_noncons i.
Theorem validate_sound_kFlowDecompCycles i :
  validate_kFlowDecompCycles i = RaiseValueError -> in_domain_kFlowDecompCycles i = false.
Proof.
  intros H. destruct (in_domain_kFlowDecompCycles i) eqn:D; [exfalso|reflexivity]. sound_script i.
Qed.

Lemma k_pos_split i : k_pos_int i = k_is_int i && negb (k_le0 i).
Proof.
  unfold k_pos_int, k_is_int, k_le0. destruct (k i); [|reflexivity]. cbn.
  destruct (Z.ltb_spec 0 z), (Z.leb_spec z 0); cbn; auto; lia.
Qed.

Ltac crunch :=
  norm_hyps;
  repeat (match goal with
          | H : ?e = _ |- _ =>
            lazymatch e with
            | _ && _ => dleaf e
            | _ || _ => dleaf e
            end
          end; bsimp; norm_hyps);
  try discriminate; try reflexivity; try solve [clash].
Ltac rw_origin i O :=
  repeat match goal with H : context [origin i] |- _ => tryif constr_eq H O then fail else rewrite O in H end.
Ltac complete_script_c i :=
  unfold dev_fooled_st, dev_noncons in *; unfold_dom; unfold_all; destruct (origin i) eqn:O; bsimp; try reflexivity;
  (destruct (cons_wf i) eqn:W; [use_wf i | use_bad i]);
  unfold_dev; unfold dev_fooled_st, dev_noncons, fooled, no_src, no_snk, st_of, en_of in *;
  rw_origin i O;
  prep_lists; rw_goal; bsimp; fing; crunch.

Theorem validate_complete_kFlowDecompCycles i :
  in_domain_kFlowDecompCycles i = false -> deviates_kFlowDecompCycles i = false ->
  validate_kFlowDecompCycles i = RaiseValueError.
Proof.
  intros D V. unfold deviates_kFlowDecompCycles in V. split_dev V. norm_hyps.
  unfold in_domain_kFlowDecompCycles in D. rewrite k_pos_split in D. complete_script_c i.
Qed.

Ltac accept_script_c i :=
  unfold dev_fooled_st, dev_noncons in *; unfold_dom; unfold_all; destruct (origin i) eqn:O; bsimp; try discriminate;
  match goal with D : _ = true |- _ => split_dom D end; use_size; norm_hyps; try use_wf i; try use_k i;
  unfold dev_fooled_st, dev_noncons, fooled, no_src, no_snk, st_of, en_of in *; rw_origin i O;
  prep_lists; rw_goal; bsimp; fing; crunch.

Theorem accepts_domain_kFlowDecompCycles i :
  in_domain_kFlowDecompCycles i = true -> has_live i = true -> validate_kFlowDecompCycles i = Accept.
Proof.
  intros D L. rewrite has_live_all_ignored in L. apply negb_true_iff in L. accept_script_c i.
Qed.
(* DESIGN #21: a non-conserving flow is not rejected, the model is infeasible (unsolved) *)
Theorem validate_kFlowDecompCycles_refuted_nonconserving :
  exists i, in_domain_kFlowDecompCycles i = false /\ validate_kFlowDecompCycles i = AcceptsButUnsolved.
Proof. exists (set_flags ex_graph false false true [true; true]). vm_compute. auto. Qed.
Theorem validate_kFlowDecompCycles_refuted_k_float :
  exists i, in_domain_kFlowDecompCycles i = false /\ validate_kFlowDecompCycles i = RaiseOther EType.
Proof. exists (set_k ex_graph (KNonInt (5#2))). vm_compute. auto. Qed.
(* DESIGN #20 *)
Theorem validate_kFlowDecompCycles_refuted_fooled :
  exists i, in_domain_kFlowDecompCycles i = false /\ validate_kFlowDecompCycles i = RaiseOther ECrash.
Proof. exists (with_nosource ex_graph true). vm_compute. auto. Qed.

(* ================================================================== kLeastAbsErrorsCycles / kMinPathErrorCycles *)
Definition deviates_kErrCycles (i : input) :=
  all_ignored i || dev_cov i || dev_expand i || dev_k_nonint i || dev_fooled_st i.
Theorem validate_sound_kErrCycles i : validate_kErrCycles i = RaiseValueError -> in_domain_kErrCycles i = false.
Proof.
  intros H. destruct (in_domain_kErrCycles i) eqn:D; [exfalso|reflexivity]. sound_script i.
Qed.
Theorem validate_complete_kErrCycles i :
  in_domain_kErrCycles i = false -> deviates_kErrCycles i = false -> validate_kErrCycles i = RaiseValueError.
Proof.
  intros D V. unfold deviates_kErrCycles in V. split_dev V. norm_hyps.
  unfold in_domain_kErrCycles in D. rewrite k_pos_split in D. complete_script_c i.
Qed.
Theorem accepts_domain_kErrCycles i :
  in_domain_kErrCycles i = true -> has_live i = true -> validate_kErrCycles i = Accept.
Proof.
  intros D L. rewrite has_live_all_ignored in L. apply negb_true_iff in L. accept_script_c i.
Qed.

(* ================================================================== kPathCoverCycles *)
Definition deviates_kPathCoverCycles (i : input) := dev_cov i || dev_expand i || dev_k_nonint i || dev_fooled_st i.
Theorem validate_sound_kPathCoverCycles i :
  validate_kPathCoverCycles i = RaiseValueError -> in_domain_kPathCoverCycles i = false.
Proof.
  intros H. destruct (in_domain_kPathCoverCycles i) eqn:D; [exfalso|reflexivity]. sound_script i.
Qed.
Theorem validate_complete_kPathCoverCycles i :
  in_domain_kPathCoverCycles i = false -> deviates_kPathCoverCycles i = false ->
  validate_kPathCoverCycles i = RaiseValueError.
Proof.
  intros D V. unfold deviates_kPathCoverCycles in V. split_dev V. norm_hyps.
  unfold in_domain_kPathCoverCycles in D. rewrite k_pos_split in D. complete_script_c i.
Qed.
Theorem accepts_domain_kPathCoverCycles i :
  in_domain_kPathCoverCycles i = true -> validate_kPathCoverCycles i = Accept.
Proof. intros D. accept_script_c i. Qed.
