(* use_min_gen_set_lowerbound, end to end: the size that MinGenSet REPORTS (MiscEnc.mgsm_loop over the rows of
   encode_mgs, solver specification) for the flow values and the source flow never exceeds the number of paths of any
   decomposition -- LowerBounds.min_gen_set_bound (the weights are a generating multiset) composed with the completeness
   of the MinGenSet rows and its minimality theorem (MgsComplete.mgs_returns_minimum). *)
From Coq Require Import List NArith ZArith QArith Lqa Bool Arith Lia Permutation.
Import ListNotations.
From FP Require Import Lin Blocks BlocksProofs PathEnc PathEncProofs PathEncComplete MiscEnc MiscEncProofs MgsComplete LowerBounds.
Set Default Timeout 60.
Local Close Scope Q_scope.

Lemma sumql_app (a b : list Q) : (sumql (a ++ b) == sumql a + sumql b)%Q.
Proof. induction a as [|x a IH]; cbn [app sumql]; [ring|rewrite IH; ring]. Qed.
Lemma sumql_zeros n : (sumql (repeat 0%Q n) == 0)%Q.
Proof. induction n as [|n IH]; cbn [repeat sumql]; [reflexivity|rewrite IH; ring]. Qed.
Lemma dotz_app (xs ys : list Z) (g h : list Q) : length xs = length g ->
  (dotz (xs ++ ys) (g ++ h) == dotz xs g + dotz ys h)%Q.
Proof.
  revert g. induction xs as [|x xs IH]; intros [|v g] H; try discriminate H; cbn [app dotz]; [ring|].
  rewrite IH by (cbn in H; lia). ring.
Qed.
Lemma dotz_zeros n : (dotz (repeat 0%Z n) (repeat 0%Q n) == 0)%Q.
Proof. induction n as [|n IH]; cbn [repeat dotz]; [reflexivity|rewrite IH; ring]. Qed.

(* padding a generating multiset with zeros keeps it generating *)
Lemma genset_pad (mult : nat) (numbers : list Q) (total : Q) (g : list Q) (n : nat) :
  genset mult numbers total g -> genset mult numbers total (g ++ repeat 0%Q n).
Proof.
  intros (Hnn & Hsum & Hgen). split; [|split].
  - apply Forall_app. split; [exact Hnn|]. apply Forall_forall. intros v Hv. apply repeat_spec in Hv. subst v. apply Qle_refl.
  - rewrite sumql_app, sumql_zeros, Hsum. ring.
  - intros a Ha. destruct (Hgen a Ha) as (xs & Hlen & Hrange & Hdot).
    exists (xs ++ repeat 0%Z n). split; [|split].
    + rewrite !app_length, !repeat_length, Hlen. reflexivity.
    + apply Forall_app. split; [exact Hrange|]. apply Forall_forall. intros x Hx. apply repeat_spec in Hx. subst x. lia.
    + rewrite dotz_app by exact Hlen. rewrite dotz_zeros, Hdot. ring.
Qed.

Lemma gen_by_Qeq (mult : nat) (g : list Q) (a b : Q) : (a == b)%Q -> gen_by mult g a -> gen_by mult g b.
Proof. intros E (xs & H1 & H2 & H3). exists xs. split; [exact H1|]. split; [exact H2|]. rewrite <- E. exact H3. Qed.

Theorem min_gen_set_option_is_sound (J : kfd_inst) (P : N -> list node) (w : N -> Q)
    (I : mgs_inst) (status : nat -> mstatus) (lb n : nat) (extra : Z) (tried : list nat) (m : nat) :
  let G := p_graph (f_base J) in let E := g_edges G in let s := g_src G in let t := g_snk G in
  (* any decomposition of the instance, in an s-t graph as MinFlowDecomp builds it when no weighted edge is ignored *)
  decomposition J P w -> wf_graph G ->
  (forall u x, In (s, u) E -> In (x, u) E -> x = s) ->
  (forall e, In e E -> mem_edge e (f_ignore J) = true -> fst e = s \/ snd e = t) ->
  (forall u, In (s, u) E -> mem_edge (s, u) (f_ignore J) = true) ->
  (* the MinGenSet instance the option builds: the flow values, the source flow, multiplicity 1, same weight type *)
  mg_parts I = None -> mg_mult I = 1%nat -> mg_int I = f_int J ->
  (forall a, In a (mg_numbers I) -> exists e, In e E /\ mem_edge e (f_ignore J) = false /\ (a == LowerBounds.flow_of J e)%Q) ->
  (mg_total I == sumq (LowerBounds.flow_of J) (src_cut G (f_ignore J)))%Q ->
  (* solver specification for the MinGenSet models, and its search returning size m from lower bound lb *)
  (forall k, status k = MgOptimal -> exists a, sat a (encode_mgs I k)) ->
  (forall k, status k = MgInfeasible -> forall a, ~ sat a (encode_mgs I k)) ->
  mgsm_loop status lb n extra = (tried, Some m) ->
  (lb <= p_k (f_base J))%nat -> (1 <= p_k (f_base J))%nat ->
  (m <= p_k (f_base J))%nat.
Proof.
  intros G E s t D WF S1 S2 S3 Hparts Hmult Hint Hnum Htot Hopt Hinf Hloop Hlb Hk1.
  set (L := filter (fun e => negb (mem_edge e (f_ignore J))) E).
  assert (HL : forall e, In e L -> In e E /\ mem_edge e (f_ignore J) = false).
  { intros e He. unfold L in He. apply filter_In in He. destruct He as [H1 H2]. split; [exact H1|]. apply negb_true_iff. exact H2. }
  destruct (min_gen_set_bound J P w L D WF S1 S2 S3 HL) as (g & Hlen & (Hnn & Hsum & Hgen) & Hgint).
  set (k := p_k (f_base J)) in *.
  set (g' := g ++ repeat 0%Q (k - length g)).
  assert (Hlen' : length g' = k) by (unfold g'; rewrite app_length, repeat_length; lia).
  assert (Hgs : genset_for I g').
  { unfold genset_for. split; [|split].
    - rewrite Hmult. unfold g'. apply genset_pad. split; [exact Hnn|]. split; [rewrite Hsum, Htot; reflexivity|].
      intros a Ha. destruct (Hnum a Ha) as (e & HeE & Hig & Ea).
      apply (gen_by_Qeq 1 g (LowerBounds.flow_of J e) a); [symmetry; exact Ea|].
      apply Hgen. apply in_map. unfold L. apply filter_In. split; [exact HeE|]. rewrite Hig. reflexivity.
    - rewrite Hint. intros Hi. unfold g'. apply Forall_app. split; [exact (Hgint Hi)|].
      apply Forall_forall. intros v Hv. apply repeat_spec in Hv. subst v. exists 0%Z. reflexivity.
    - unfold parts_of. rewrite Hparts. constructor. }
  destruct (mgs_returns_minimum I status Hparts ltac:(rewrite Hmult; lia) Hopt Hinf lb n extra tried m Hloop) as (_ & _ & Hmin).
  destruct (le_lt_dec m k) as [Hle|Hgt]; [exact Hle|exfalso].
  exact (Hmin k g' (conj (Nat.max_lub _ _ _ Hk1 Hlb) Hgt) Hlen' Hgs).
Qed.
