(* stDAG.compute_max_edge_antichain, the part after the (external) minimum flow: the residual search from the source
   (forward along an edge only if its flow exceeds its lower bound, backward along every edge) and the extraction of the antichain
   as the edges that leave the reached set.  For ANY feasible flow f (f >= w >= 0, conservation at inner nodes) from which the sink
   is not residual-reachable: no edge enters the reached set R, every edge leaving R carries exactly its lower bound, these edges
   are pairwise not on a common path, and their weights add up to the value of f.  Together with weak duality (every feasible flow
   is at least as large as the weight of every antichain: a cut argument on the ancestors of the antichain) the extracted set is a
   maximum weight antichain and f a minimum flow, so the assertion in the code cannot fire on an optimal flow. *)
From Coq Require Import List NArith ZArith QArith Lqa Bool Arith Lia.
Import ListNotations.
From FP Require Import Lin PathEnc Euler EulerProofs1 Reach ReachProofs1 MiscEnc MiscEncProofs MefBound Dilworth.
Set Default Timeout 60.
Local Open Scope Q_scope.

Lemma sumq_single (g : node -> Q) (s : node) : forall R, NoDup R -> In s R -> (forall v, In v R -> v <> s -> g v == 0) -> sumq g R == g s.
Proof.
  induction R as [|x R IH]; intros ND Hs Hz; [destruct Hs|]. inversion ND as [|? ? Hx ND']; subst. cbn [sumq]. destruct Hs as [->|Hs].
  - rewrite (sumq_zero g R); [ring|]. intros v Hv. apply Hz; [right; exact Hv|]. intros ->. exact (Hx Hv).
  - rewrite (IH ND' Hs (fun v Hv => Hz v (or_intror Hv))). rewrite (Hz x (or_introl eq_refl)); [ring|]. intros ->. exact (Hx Hs).
Qed.
Lemma sumq_incl_le {A} (dec : forall a b : A, {a = b} + {a <> b}) (g : A -> Q) : forall A' L, NoDup A' -> incl A' L ->
  (forall x, In x L -> 0 <= g x) -> sumq g A' <= sumq g L.
Proof.
  induction A' as [|a A' IH]; intros L ND Hin Hnn; [cbn [sumq]; apply sumq_nonneg; exact Hnn|].
  inversion ND as [|? ? Ha ND']; subst. destruct (in_split a L (Hin a (or_introl eq_refl))) as (l1 & l2 & ->).
  rewrite sumq_app. cbn [sumq]. assert (H : sumq g A' <= sumq g (l1 ++ l2)).
  { apply IH; [exact ND'| |intros x Hx; apply Hnn; apply in_app_or in Hx; apply in_or_app; destruct Hx; [left|right; right]; assumption].
    intros x Hx. pose proof (Hin x (or_intror Hx)) as H. apply in_app_or in H. apply in_or_app. destruct H as [H|[<-|H]]; [left; exact H|contradiction|right; exact H]. }
  rewrite sumq_app in H. lra.
Qed.

Section Cut.
  Variable E : list edge.
  Variables s t : node.
  Variable w f : edge -> Q.

  Definition infl (g : edge -> Q) (v : node) : Q := sumq g (filter (fun e => (snd e =? v)%N) E).
  Definition outfl (g : edge -> Q) (v : node) : Q := sumq g (filter (fun e => (fst e =? v)%N) E).
  Definition value (g : edge -> Q) : Q := outfl g s.
  Definition feasible (g : edge -> Q) : Prop :=
    (forall e, In e E -> w e <= g e) /\ (forall v, v <> s -> v <> t -> infl g v == outfl g v).
  (* the edges that leave R *)
  Definition cut (R : list node) : list edge := filter (fun e => memN (fst e) R && negb (memN (snd e) R)) E.
  Definition pred_closed (R : list node) : Prop := forall u v, In (u, v) E -> In v R -> In u R.

  Hypothesis Hsrc : forall e, In e E -> snd e <> s.       (* the source has no incoming edge *)
  Hypothesis Hw : forall e, In e E -> 0 <= w e.

  (* the value of a flow is what crosses any cut that is closed under predecessors *)
  Lemma cut_value (g : edge -> Q) (R : list node) :
    (forall v, v <> s -> v <> t -> infl g v == outfl g v) ->
    NoDup R -> pred_closed R -> In s R -> ~ In t R -> value g == sumq g (cut R).
  Proof.
    intros Hcons ND Hpc Hs Ht.
    assert (S1 : sumq (fun v => outfl g v - infl g v) R == outfl g s).
    { rewrite (sumq_single (fun v => outfl g v - infl g v) s R ND Hs).
      - unfold infl at 1. rewrite (sumq_zero g); [ring|]. intros e He. apply filter_In in He. destruct He as [He Q]. apply N.eqb_eq in Q.
        exfalso. exact (Hsrc e He Q).
      - intros v Hv Hvs. rewrite (Hcons v Hvs); [ring|]. intros ->. exact (Ht Hv). }
    rewrite sumq_sub in S1. unfold outfl at 1, infl at 1 in S1.
    rewrite (sumq_by_key g fst E R ND), (sumq_by_key g snd E R ND) in S1.
    rewrite (sumq_filter_split g (fun e => memN (snd e) R) (filter (fun e => memN (fst e) R) E)) in S1.
    rewrite !filter_filter in S1. cbv beta in S1.
    assert (E1 : filter (fun e : edge => memN (fst e) R && memN (snd e) R) E = filter (fun e : edge => memN (snd e) R) E).
    { apply filter_ext_in'. intros [u v] He. cbn [fst snd]. destruct (memN v R) eqn:Mv; [|apply andb_false_r].
      apply memN_In in Mv. rewrite (proj2 (memN_In u R) (Hpc u v He Mv)). reflexivity. }
    rewrite E1 in S1. change (filter (fun x : edge => memN (fst x) R && negb (memN (snd x) R)) E) with (cut R) in S1.
    unfold value. lra.
  Qed.

  (* ---- the reached set of the residual search and the edges leaving it ---- *)
  Variable R : list node.
  Hypothesis NDR : NoDup R.
  Hypothesis HsR : In s R.
  Hypothesis HtR : ~ In t R.                                 (* the sink is not residual-reachable: f cannot be lowered *)
  Hypothesis Hback : pred_closed R.                          (* backward along every edge *)
  Hypothesis Hfwd : forall u v, In (u, v) E -> In u R -> w (u, v) < f (u, v) -> In v R.   (* forward if the flow exceeds the bound *)
  Hypothesis Hf : feasible f.

  Lemma cut_saturated e : In e (cut R) -> f e == w e.
  Proof.
    intros He. apply filter_In in He. destruct He as [He Q]. apply andb_true_iff in Q. destruct Q as [Q1 Q2].
    apply memN_In in Q1. apply negb_true_iff in Q2. destruct e as [u v]. cbn [fst snd] in *.
    destruct (Qlt_le_dec (w (u, v)) (f (u, v))) as [Hlt|Hle].
    - exfalso. apply (proj1 (memN_false v R) Q2). exact (Hfwd u v He Q1 Hlt).
    - pose proof (proj1 Hf (u, v) He). lra.
  Qed.
  Lemma nothing_enters u v : In (u, v) E -> In v R -> In u R.
  Proof. apply Hback. Qed.

  (* R is closed under everything that reaches it *)
  Lemma conn_into_R u v : conn E u v -> In v R -> In u R.
  Proof.
    intros (m & Hm & Lm). revert u Hm Lm. induction m as [|y m IH]; intros u Hm Lm Hv; [cbn in Lm; subst; exact Hv|].
    rewrite pairs_cons2 in Hm. apply (Hback u y); [apply Hm; left; reflexivity|].
    apply IH; [intros e He; apply Hm; right; exact He| |exact Hv]. rewrite <- Lm. rewrite !last_cons_default. reflexivity.
  Qed.
  (* the edges leaving R are pairwise unordered: no walk leads from the head of one to the tail of another (or of itself) *)
  Theorem cut_is_antichain e1 e2 : In e1 (cut R) -> In e2 (cut R) -> ~ conn E (snd e1) (fst e2).
  Proof.
    intros H1 H2 Hc. apply filter_In in H1, H2. destruct H1 as [_ Q1], H2 as [_ Q2]. apply andb_true_iff in Q1, Q2.
    destruct Q1 as [_ Q1], Q2 as [Q2 _]. apply negb_true_iff in Q1. apply memN_In in Q2.
    apply (proj1 (memN_false _ _) Q1). exact (conn_into_R _ _ Hc Q2).
  Qed.
  (* their weights add up to the value of the flow *)
  Theorem cut_weight_is_value : value f == sumq w (cut R).
  Proof.
    rewrite (cut_value f R (proj2 Hf) NDR Hback HsR HtR). apply sumq_ext. intros e He. apply cut_saturated. exact He.
  Qed.
End Cut.

(* ================================================================================================================= *)
(* weak duality: every feasible flow is at least as large as the weight of every antichain *)
Lemma edge_eq_dec (a b : edge) : {a = b} + {a <> b}.
Proof. decide equality; apply N.eq_dec. Qed.

Section Duality.
  Variable E : list edge.
  Variables s t : node.
  Variable w : edge -> Q.
  Hypothesis Hsrc : forall e, In e E -> snd e <> s.
  Hypothesis Hsnk : forall e, In e E -> fst e <> t.          (* the sink has no outgoing edge *)
  Hypothesis Hreach : forall e, In e E -> conn E s (fst e).  (* every edge is reachable from the source *)
  Hypothesis Hw : forall e, In e E -> 0 <= w e.

  Definition antichain_of (A : list edge) : Prop :=
    NoDup A /\ incl A E /\ forall e1 e2, In e1 A -> In e2 A -> ~ conn E (snd e1) (fst e2).

  Definition anc (A : list edge) : list node := filter (fun v => existsb (fun e => reachb E v (fst e)) A) (nodes_of E).
  Lemma anc_in A v : In v (anc A) <-> In v (nodes_of E) /\ exists e, In e A /\ conn E v (fst e).
  Proof.
    unfold anc. rewrite filter_In, existsb_exists. split; intros [Hv (e & He & H)]; (split; [exact Hv|]); exists e; (split; [exact He|]);
      apply (reachb_spec E v (fst e) Hv); exact H.
  Qed.

  Theorem flow_at_least_antichain (f : edge -> Q) (A : list edge) :
    feasible E s t w f -> antichain_of A -> sumq w A <= value E s f.
  Proof.
    intros [Hge Hcons] (NDA & HA & Hanti).
    assert (Hfnn : forall e, In e E -> 0 <= f e) by (intros e He; specialize (Hge e He); specialize (Hw e He); lra).
    destruct A as [|e0 A0] eqn:EA.
    { cbn [sumq]. unfold value, outfl. apply sumq_nonneg. intros e He. apply filter_In in He. apply Hfnn. apply He. }
    rewrite <- EA in *. assert (He0 : In e0 A) by (rewrite EA; left; reflexivity).
    assert (HsN : In s (nodes_of E)).
    { destruct (Hreach e0 (HA e0 He0)) as (m & Hm & Lm). destruct m as [|y m].
      - cbn in Lm. rewrite Lm. apply (nodes_of_in E e0 (HA e0 He0)).
      - apply (nodes_of_in E (s, y)). apply Hm. rewrite pairs_cons2. left. reflexivity. }
    assert (Hcut : value E s f == sumq f (cut E (anc A))).
    { apply (cut_value E s t Hsrc f (anc A) Hcons).
      - apply NoDup_filter. apply NoDup_nodup.
      - intros u v Huv Hv. apply anc_in in Hv. destruct Hv as [_ (e & He & Hc)]. apply anc_in. split; [apply (nodes_of_in E (u, v) Huv)|].
        exists e. split; [exact He|]. apply (conn_trans E u v); [apply conn_edge; exact Huv|exact Hc].
      - apply anc_in. split; [exact HsN|]. exists e0. split; [exact He0|apply Hreach; apply HA; exact He0].
      - intros Ht. apply anc_in in Ht. destruct Ht as [_ (e & He & (m & Hm & Lm))]. destruct m as [|y m].
        + cbn in Lm. exact (Hsnk e (HA e He) (eq_sym Lm)).
        + apply (Hsnk (t, y)); [apply Hm; rewrite pairs_cons2; left; reflexivity|reflexivity]. }
    rewrite Hcut. apply (Qle_trans _ (sumq f A)).
    - apply sumq_le. intros e He. apply Hge. apply HA. exact He.
    - apply (sumq_incl_le edge_eq_dec f A (cut E (anc A)) NDA).
      + intros e He. apply filter_In. split; [apply HA; exact He|]. apply andb_true_iff. split.
        * apply memN_In. apply anc_in. split; [apply (nodes_of_in E e (HA e He))|]. exists e. split; [exact He|apply conn_refl].
        * apply negb_true_iff. apply memN_false. intros Hin. apply anc_in in Hin. destruct Hin as [_ (e2 & He2 & Hc)].
          exact (Hanti e e2 He He2 Hc).
      + intros e He. apply filter_In in He. apply Hfnn. apply He.
  Qed.

  (* the flow the residual search cannot lower is a minimum flow, and the edges leaving the reached set are a maximum weight antichain *)
  Theorem residual_cut_is_optimal (f : edge -> Q) (R : list node) :
    NoDup E -> feasible E s t w f -> NoDup R -> In s R -> ~ In t R -> pred_closed E R ->
    (forall u v, In (u, v) E -> In u R -> w (u, v) < f (u, v) -> In v R) ->
    antichain_of (cut E R) /\ value E s f == sumq w (cut E R) /\
    (forall f', feasible E s t w f' -> value E s f <= value E s f') /\
    (forall A, antichain_of A -> sumq w A <= sumq w (cut E R)).
  Proof.
    intros NDE Hf NDR HsR HtR Hback Hfwd.
    assert (HA : antichain_of (cut E R)).
    { split; [apply NoDup_filter; exact NDE|]. split; [intros e He; apply filter_In in He; apply He|].
      intros e1 e2 H1 H2. exact (cut_is_antichain E R Hback e1 e2 H1 H2). }
    pose proof (cut_weight_is_value E s t w f Hsrc R NDR HsR HtR Hback Hfwd Hf) as Hv.
    split; [exact HA|]. split; [exact Hv|]. split.
    - intros f' Hf'. rewrite Hv. apply flow_at_least_antichain; assumption.
    - intros A HAA. rewrite <- Hv. apply flow_at_least_antichain; assumption.
  Qed.

  (* the antichain the code returns keeps the edges of weight >= 1; with integer weights nothing is lost *)
  Lemma positive_part_same_weight (C : list edge) : (forall e, In e C -> w e == 0 \/ 1 <= w e) ->
    sumq w (filter (fun e => Qle_bool 1 (w e)) C) == sumq w C.
  Proof.
    induction C as [|e C IH]; intros H; [reflexivity|]. cbn [filter]. specialize (IH (fun x Hx => H x (or_intror Hx))).
    destruct (Qle_bool 1 (w e)) eqn:Q; cbn [sumq]; [rewrite IH; reflexivity|].
    destruct (H e (or_introl eq_refl)) as [Z|G]; [rewrite IH, Z; ring|]. apply Qle_bool_iff in G. congruence.
  Qed.
End Duality.

(* ================================================================================================================= *)
(* the residual search and the extraction as the code runs them (DFS_find_reachable_from_source / DFS_find_saturating), executable *)
Definition rstep (E : list edge) (w f : edge -> Q) (u : node) : list node :=
  map snd (filter (fun e => (fst e =? u)%N && Qlt_bool (w e) (f e)) E) ++ map fst (filter (fun e => (snd e =? u)%N) E).
Definition reached (V : list node) (E : list edge) (w f : edge -> Q) (s : node) : list node := closure V (rstep E w f) s.

Lemma reached_spec V E w f s : NoDup V -> (forall e, In e E -> In (fst e) V /\ In (snd e) V) -> In s V ->
  let R := reached V E w f s in
  NoDup R /\ In s R /\ pred_closed E R /\ (forall u v, In (u, v) E -> In u R -> w (u, v) < f (u, v) -> In v R).
Proof.
  intros NDV HE Hs R.
  assert (Hcl : forall x z, In x V -> In z (rstep E w f x) -> In z V).
  { intros x z _ Hz. unfold rstep in Hz. apply in_app_or in Hz. destruct Hz as [Hz|Hz]; apply in_map_iff in Hz;
      destruct Hz as (e & <- & He); apply filter_In in He; apply (HE e (proj1 He)). }
  assert (Hiff : forall y, In y R <-> reach (rstep E w f) s y) by (intros y; apply closure_correct_N; assumption).
  split; [apply closure_NoDup|]. split; [apply Hiff; constructor|]. split.
  - intros u v Huv Hv. apply Hiff. apply Hiff in Hv. eapply reach_step; [exact Hv|]. unfold rstep. apply in_or_app. right.
    apply in_map_iff. exists (u, v). split; [reflexivity|apply filter_In; split; [exact Huv|apply N.eqb_refl]].
  - intros u v Huv Hu Hlt. apply Hiff. apply Hiff in Hu. eapply reach_step; [exact Hu|]. unfold rstep. apply in_or_app. left.
    apply in_map_iff. exists (u, v). split; [reflexivity|]. apply filter_In. split; [exact Huv|]. cbn [fst]. rewrite N.eqb_refl.
    apply Qlt_bool_iff. exact Hlt.
Qed.

Definition qof (l : list (edge * Q)) (e : edge) : Q := lookup_q e l 0.
(* (reached set, returned antichain): the edges leaving the reached set whose weight is at least 1 *)
Definition mincut_model (V : list node) (E : list edge) (s : node) (wl fl : list (edge * Q)) : list node * list edge :=
  let R := reached V E (qof wl) (qof fl) s in (R, filter (fun e => Qle_bool 1 (qof wl e)) (cut E R)).

(* everything the theorem needs of an instance and of the flow the external solver returned, as one executable check *)
Definition mincut_premises (V : list node) (E : list edge) (s t : node) (wl fl : list (edge * Q)) : bool :=
  let w := qof wl in let f := qof fl in
  nodupb V && nodupE E && forallb (fun e => memN (fst e) V && memN (snd e) V) E && memN s V &&
  forallb (fun e => negb (snd e =? s)%N && negb (fst e =? t)%N) E &&
  existsb (fun e => (fst e =? s)%N) E && forallb (fun e => reachb E s (fst e)) E &&
  forallb (fun e => Qle_bool 0 (w e) && Qle_bool (w e) (f e) && (Qeq_bool (w e) 0 || Qle_bool 1 (w e))) E &&
  forallb (fun v => (v =? s)%N || (v =? t)%N || Qeq_bool (infl E f v) (outfl E f v)) V &&
  negb (memN t (reached V E w f s)).

Theorem mincut_checked V E s t wl fl : mincut_premises V E s t wl fl = true ->
  let w := qof wl in let f := qof fl in let A := snd (mincut_model V E s wl fl) in
  antichain_of E A /\ sumq w A == value E s f /\
  (forall f', feasible E s t w f' -> value E s f <= value E s f') /\
  (forall A2, antichain_of E A2 -> sumq w A2 <= sumq w A).
Proof.
  unfold mincut_premises. cbv zeta. rewrite !andb_true_iff.
  intros (((((((((H1 & H2) & H3) & H4) & H5) & H6) & H7) & H8) & H9) & H10).
  apply nodupb_NoDup in H1. apply nodupE_NoDup in H2. rewrite forallb_forall in H3, H5, H7, H8, H9. apply memN_In in H4.
  apply negb_true_iff in H10. apply memN_false in H10.
  set (w := qof wl) in *. set (f := qof fl) in *.
  assert (HE : forall e, In e E -> In (fst e) V /\ In (snd e) V).
  { intros e He. specialize (H3 e He). apply andb_true_iff in H3. rewrite !memN_In in H3. exact H3. }
  assert (Hsrc : forall e, In e E -> snd e <> s).
  { intros e He. specialize (H5 e He). apply andb_true_iff in H5. destruct H5 as [Q _]. apply negb_true_iff, N.eqb_neq in Q. exact Q. }
  assert (Hsnk : forall e, In e E -> fst e <> t).
  { intros e He. specialize (H5 e He). apply andb_true_iff in H5. destruct H5 as [_ Q]. apply negb_true_iff, N.eqb_neq in Q. exact Q. }
  assert (HsN : In s (nodes_of E)).
  { apply existsb_exists in H6. destruct H6 as (e & He & Q). apply N.eqb_eq in Q. rewrite <- Q. apply (nodes_of_in E e He). }
  assert (Hreach : forall e, In e E -> conn E s (fst e)) by (intros e He; apply (reachb_spec E s (fst e) HsN); apply H7; exact He).
  assert (Hw : forall e, In e E -> 0 <= w e).
  { intros e He. specialize (H8 e He). rewrite !andb_true_iff in H8. apply Qle_bool_iff. apply H8. }
  assert (Hint : forall e, In e E -> w e == 0 \/ 1 <= w e).
  { intros e He. specialize (H8 e He). rewrite !andb_true_iff, orb_true_iff in H8. destruct H8 as [_ [Q|Q]]; [left; apply Qeq_bool_iff; exact Q|right; apply Qle_bool_iff; exact Q]. }
  assert (Hf : feasible E s t w f).
  { split.
    - intros e He. specialize (H8 e He). rewrite !andb_true_iff in H8. apply Qle_bool_iff. apply H8.
    - intros v Hvs Hvt. destruct (in_dec N.eq_dec v V) as [Hv|Hv].
      + specialize (H9 v Hv). rewrite !orb_true_iff in H9. destruct H9 as [[Q|Q]|Q]; [apply N.eqb_eq in Q; contradiction|apply N.eqb_eq in Q; contradiction|].
        apply Qeq_bool_iff. exact Q.
      + unfold infl, outfl. rewrite !(sumq_zero f).
        * reflexivity.
        * intros e He. apply filter_In in He. destruct He as [He Q]. apply N.eqb_eq in Q. exfalso. apply Hv. rewrite <- Q. apply (HE e He).
        * intros e He. apply filter_In in He. destruct He as [He Q]. apply N.eqb_eq in Q. exfalso. apply Hv. rewrite <- Q. apply (HE e He). }
  destruct (reached_spec V E w f s H1 HE H4) as (NDR & HsR & Hback & Hfwd).
  destruct (residual_cut_is_optimal E s t w Hsrc Hsnk Hreach Hw f (reached V E w f s) H2 Hf NDR HsR H10 Hback Hfwd)
    as ((NDC & HCE & Hanti) & Hv & Hmin & Hmax).
  unfold mincut_model. cbn [snd]. fold w. fold f.
  set (C := cut E (reached V E w f s)) in *.
  assert (Hpos : sumq w (filter (fun e => Qle_bool 1 (w e)) C) == sumq w C).
  { apply positive_part_same_weight. intros e He. apply Hint. apply HCE. exact He. }
  split; [|split; [|split]].
  - split; [apply NoDup_filter; exact NDC|]. split; [intros e He; apply filter_In in He; apply HCE; apply He|].
    intros e1 e2 G1 G2. apply filter_In in G1, G2. apply Hanti; [apply G1|apply G2].
  - rewrite Hpos. symmetry. exact Hv.
  - exact Hmin.
  - intros A2 HA2. rewrite Hpos. apply Hmax. exact HA2.
Qed.

(* ---- non-vacuity: the diamond 1 -> {2,3} -> 4 with source edge 0 -> 1 and sink edge 4 -> 5, weight 1 on the four inner edges,
   0 on the source and sink edge, and the flow 2 through the source and sink edge, 1 on every inner edge ---- *)
Definition dmV : list node := [0; 1; 2; 3; 4; 5]%N.
Definition dmE : list edge := [(0, 1); (1, 2); (1, 3); (2, 4); (3, 4); (4, 5)]%N.
Definition dmW : list (edge * Q) := [((1, 2)%N, 1); ((1, 3)%N, 1); ((2, 4)%N, 1); ((3, 4)%N, 1)].
Definition dmF : list (edge * Q) := [((0, 1)%N, 2); ((1, 2)%N, 1); ((1, 3)%N, 1); ((2, 4)%N, 1); ((3, 4)%N, 1); ((4, 5)%N, 2)].
Example diamond_mincut_premises : mincut_premises dmV dmE 0%N 5%N dmW dmF = true.
Proof. vm_compute. reflexivity. Qed.
Example diamond_mincut : mincut_model dmV dmE 0%N dmW dmF = ([1; 0]%N, [(1, 2); (1, 3)]%N).
Proof. vm_compute. reflexivity. Qed.
