(* Non-vacuity of the cyclic optimality theorems (WalkErrOptimal.klaec_optimal / kmpec_optimal) on a concrete cyclic
   instance: a 2-cycle with a tail.  Caller's graph s -> a -> b -> t with the back edge b -> a, weights 1, 2, 1, 1
   (a->b carries 2), k = 1, integer weights.  The walk  s a b a b t  of weight 1 explains every weight exactly: it uses
   a->b twice, which the repetition cap (largest reachable weight = 2), the bit vector (2 bits for w_max = 2) and the
   product bound (1*2 <= w_max) allow.  ids: a = 0, b = 1, source = 2, sink = 3. *)
From Coq Require Import List NArith ZArith QArith Qabs Lqa Bool Lia Permutation.
Import ListNotations.
From FP Require Import Lin Blocks BlocksProofs PathEnc PathEncProofs SatCheck WalkEncRows WalkEncRowsProofs WalkTree WalkEncComplete
                       WalkCoverIff WalkChecked WalkExamples WalkErrEnc WalkErrEncProofs WalkErrComplete WalkErrOptimal.
Set Default Timeout 300.
Local Close Scope Q_scope.

Definition tailG : stgraph :=
  {| g_nodes := [0; 1; 2; 3]%N; g_edges := [(0, 1); (1, 0); (2, 0); (1, 3)]%N; g_src := 2%N; g_snk := 3%N;
     g_succ := [(0, [1]); (1, [0; 3]); (2, [0]); (3, [])]%N; g_pred := [(0, [1; 2]); (1, [0]); (2, []); (3, [1])]%N |}.

Definition tail_inst : werr_inst :=
  {| x_graph := tailG; x_k := 1; x_flow := [((0, 1)%N, 2%Q); ((1, 0)%N, 1%Q); ((2, 0)%N, 1%Q); ((1, 3)%N, 1%Q)];
     x_ignore := []; x_scale := []; x_int := true;
     x_cons := []; x_cov := 1%Q; x_opts := no_opts; x_safe_lists := []; x_fix := [] |}.

Definition tail_P (_ : N) : list node := [2; 0; 1; 0; 1; 3]%N.
Definition tail_w (_ : N) : Q := 1%Q.
Definition tail_zero (_ : N) : Q := 0%Q.

(* the assignments constructed by the completeness theorems *)
Definition tail_klae_asg : var -> Q := xasg tail_inst tail_P tail_w tail_zero (fun _ => 0%Q) (fun _ => 0%N).
Definition tail_kmpe_asg : var -> Q := xasg tail_inst tail_P tail_w tail_zero (fun _ => 0%Q) (fun _ => 0%N).

Lemma tail_basic : x_basic tail_inst = [(0, 1); (1, 0)]%N.
Proof. vm_compute. reflexivity. Qed.
Lemma tail_wmax : (x_wmax tail_inst == 2)%Q.
Proof. vm_compute. reflexivity. Qed.
Lemma tail_wf : wf_stg tailG.
Proof. apply wf_stg_b_sound. vm_compute. reflexivity. Qed.
Lemma tail_inputs : winputs_ok (werr_walk tail_inst).
Proof. apply winputs_ok_b_sound_w. vm_compute. reflexivity. Qed.
Lemma tail_domain : werr_domain tail_inst.
Proof.
  split; [exact tail_inputs|]. intros e He. rewrite tail_basic in He.
  destruct He as [<-|[<-|[]]]; (split; [vm_compute; discriminate|intros _]).
  - exists 2%Z. vm_compute. reflexivity.
  - exists 1%Z. vm_compute. reflexivity.
Qed.

Lemma tail_klae_sat : sat tail_klae_asg (encode_klae_cycles tail_inst).
Proof. apply sat_b_sound. vm_compute. reflexivity. Qed.
Lemma tail_kmpe_sat : sat tail_kmpe_asg (encode_kmpe_cycles tail_inst).
Proof. apply sat_b_sound. vm_compute. reflexivity. Qed.
Lemma tail_klae_obj : (objective tail_klae_asg (encode_klae_cycles tail_inst) == 0)%Q.
Proof. vm_compute. reflexivity. Qed.
Lemma tail_kmpe_obj : (objective tail_kmpe_asg (encode_kmpe_cycles tail_inst) == 0)%Q.
Proof. vm_compute. reflexivity. Qed.
(* the walk really uses the cycle edge a -> b twice *)
Lemma tail_mult : mult tail_P 0%N (0, 1)%N = 2%Z /\ mult tail_P 0%N (1, 0)%N = 1%Z.
Proof. split; vm_compute; reflexivity. Qed.

(* objectives are non-negative, so an assignment with objective 0 is optimal *)
Lemma klaec_objective_nonneg I b : (forall e, In e (x_basic I) -> (0 <= xscale I e)%Q) -> sat b (encode_klae_cycles I) ->
  (0 <= objective b (encode_klae_cycles I))%Q.
Proof.
  intros Hs Hsat. rewrite (klaec_objective I b). apply wsumq_nonneg. intros e He.
  destruct (klaec_cols_sat I b Hsat) as (_ & _ & _ & Hec & _).
  assert (C : sat_col b (wcol_ (errvar e) (x_wmax I) (x_int I))).
  { apply (sat_cols_in b _ _ Hec). unfold x_err_cols. apply (in_map (fun e => wcol_ (errvar e) (x_wmax I) (x_int I))) in He. exact He. }
  unfold sat_col, wcol_ in C. cbn [cvar clb cub] in C. apply Qmult_le_0_compat; [apply Hs; exact He|tauto].
Qed.
Lemma kmpec_objective_nonneg I b : sat b (encode_kmpe_cycles I) -> (0 <= objective b (encode_kmpe_cycles I))%Q.
Proof.
  intros Hsat. rewrite (kmpec_objective I b). apply wsumq_nonneg. intros i Hi. apply (kmpec_s_bounds I b Hsat i Hi).
Qed.

(* every premise of klaec_optimal / kmpec_optimal is satisfiable, and the optimum of the instance is 0, attained by a
   family within the caps *)
Example klaec_optimal_nonvacuous :
  wf_stg (x_graph tail_inst) /\ o_allow_empty (x_opts tail_inst) = false /\ werr_domain tail_inst /\
  sat tail_klae_asg (encode_klae_cycles tail_inst) /\
  (forall b, sat b (encode_klae_cycles tail_inst) -> (objective tail_klae_asg (encode_klae_cycles tail_inst) <= objective b (encode_klae_cycles tail_inst))%Q) /\
  (exists P wt, klaec_admissible tail_inst P wt /\ (klaec_cost tail_inst P wt == 0)%Q).
Proof.
  assert (Hopt : forall b, sat b (encode_klae_cycles tail_inst) -> (objective tail_klae_asg (encode_klae_cycles tail_inst) <= objective b (encode_klae_cycles tail_inst))%Q).
  { intros b Hb. rewrite tail_klae_obj. apply klaec_objective_nonneg; [|exact Hb]. intros e He. apply (proj2 tail_domain e He). }
  split; [exact tail_wf|]. split; [reflexivity|]. split; [exact tail_domain|]. split; [exact tail_klae_sat|]. split; [exact Hopt|].
  destruct (klaec_optimal tail_inst tail_klae_asg tail_wf eq_refl tail_domain tail_klae_sat Hopt) as [(P & wt & Hadm & Hc) _].
  exists P, wt. split; [exact Hadm|]. rewrite Hc. exact tail_klae_obj.
Qed.

Example kmpec_optimal_nonvacuous :
  wf_stg (x_graph tail_inst) /\ o_allow_empty (x_opts tail_inst) = false /\ winputs_ok (werr_walk tail_inst) /\
  sat tail_kmpe_asg (encode_kmpe_cycles tail_inst) /\
  (forall b, sat b (encode_kmpe_cycles tail_inst) -> (objective tail_kmpe_asg (encode_kmpe_cycles tail_inst) <= objective b (encode_kmpe_cycles tail_inst))%Q) /\
  (exists P wt sl, kmpec_admissible tail_inst P wt sl /\ (sumq sl (layers (x_k tail_inst)) == 0)%Q).
Proof.
  assert (Hopt : forall b, sat b (encode_kmpe_cycles tail_inst) -> (objective tail_kmpe_asg (encode_kmpe_cycles tail_inst) <= objective b (encode_kmpe_cycles tail_inst))%Q).
  { intros b Hb. rewrite tail_kmpe_obj. apply kmpec_objective_nonneg. exact Hb. }
  split; [exact tail_wf|]. split; [reflexivity|]. split; [exact tail_inputs|]. split; [exact tail_kmpe_sat|]. split; [exact Hopt|].
  destruct (kmpec_optimal tail_inst tail_kmpe_asg tail_wf eq_refl tail_inputs tail_kmpe_sat Hopt) as [(P & wt & sl & Hadm & Hc) _].
  exists P, wt, sl. split; [exact Hadm|]. rewrite Hc. exact tail_kmpe_obj.
Qed.
