(* Constraint generators of the DAG models (E1): AbstractPathModelDAG._encode_paths (10a, 10c,
   subpath constraints 7a/7b), kFlowDecomp._encode_flow_decomposition (+ given weights),
   kPathCover._encode_path_cover.  The s-t graph is given explicitly with the adjacency orders the
   implementation iterates in. *)
From Coq Require Import List NArith ZArith QArith Bool Lia.
Import ListNotations.
From FP Require Import Lin Blocks.
Local Close Scope Q_scope.

Definition edge := (node * node)%type.
Definition edge_eqb (e1 e2 : edge) : bool := (fst e1 =? fst e2)%N && (snd e1 =? snd e2)%N.
Definition mem_edge (e : edge) (l : list edge) : bool := existsb (edge_eqb e) l.

Fixpoint lookup_adj (v : node) (l : list (node * list node)) : list node :=
  match l with
  | [] => []
  | (u, ns) :: r => if (u =? v)%N then ns else lookup_adj v r
  end.

Fixpoint lookup_q (e : edge) (l : list (edge * Q)) (d : Q) : Q :=
  match l with
  | [] => d
  | (e', q) :: r => if edge_eqb e' e then q else lookup_q e r d
  end.

Record stgraph := {
  g_nodes : list node; g_edges : list edge; g_src : node; g_snk : node;
  g_succ : list (node * list node); g_pred : list (node * list node) }.

Definition succs (G : stgraph) (v : node) := lookup_adj v (g_succ G).
Definition preds (G : stgraph) (v : node) := lookup_adj v (g_pred G).
Definition inner (G : stgraph) : list node :=
  filter (fun v => negb (v =? g_src G)%N && negb (v =? g_snk G)%N) (g_nodes G).

Definition layers (k : nat) : list N := map N.of_nat (seq 0 k).

Record path_inst := {
  p_graph : stgraph;
  p_k : nat;
  p_allow_empty : bool;
  p_cons : list (list edge);           (* subpath constraints as the model object holds them *)
  p_cov : Q;                           (* coverage fraction in force *)
  p_len : option (list (edge * Q))     (* Some lengths: coverage by length (missing length = 1) *)
}.

(* ---- paths ---- *)
Definition bincol (v : var) : col := {| cvar := v; clb := 0; cub := 1; cint := true |}.

Definition edge_cols (G : stgraph) (k : nat) : list col :=
  flat_map (fun i => map (fun e => bincol (Edge (fst e) (snd e) i)) (g_edges G)) (layers k).

Definition row_10a (G : stgraph) (allow_empty : bool) (i : N) : row :=
  mkrow (map (fun v => (Edge (g_src G) v i, 1%Q)) (succs G (g_src G))) (if allow_empty then SLe else SEq) 1%Q.

Definition row_10c (G : stgraph) (i : N) (v : node) : row :=
  mkrow (map (fun u => (Edge u v i, 1%Q)) (preds G v) ++ map (fun w => (Edge v w i, (- (1))%Q)) (succs G v)) SEq 0%Q.

Definition path_rows (G : stgraph) (k : nat) (allow_empty : bool) : list row :=
  map (row_10a G allow_empty) (layers k) ++
  flat_map (fun i => map (row_10c G i) (inner G)) (layers k).

(* ---- subpath constraints ---- *)
Definition R (i j : N) : var := V fR [i; j].
Definition elen (I : path_inst) (e : edge) : Q :=
  match p_len I with None => 1%Q | Some l => lookup_q e l 1%Q end.
Definition cons_length (I : path_inst) (c : list edge) : Q := fold_right (fun e s => (elen I e + s)%Q) 0%Q c.

Definition cons_idx (I : path_inst) : list N := map N.of_nat (seq 0 (length (p_cons I))).
Fixpoint zipn {A} (i : nat) (l : list A) : list (N * A) :=
  match l with [] => [] | a :: r => (N.of_nat i, a) :: zipn (S i) r end.

Definition cons_cols (I : path_inst) : list col :=
  match p_cons I with
  | [] => []
  | _ => flat_map (fun i => map (fun j => bincol (R i j)) (cons_idx I)) (layers (p_k I))
  end.

Definition row_7a (I : path_inst) (i : N) (jc : N * list edge) : row :=
  mkrow (map (fun e => (Edge (fst e) (snd e) i, elen I e)) (snd jc) ++
         [(R i (fst jc), (- (cons_length I (snd jc) * p_cov I))%Q)]) SGe 0%Q.
Definition row_7b (I : path_inst) (j : N) : row :=
  mkrow (map (fun i => (R i j, 1%Q)) (layers (p_k I))) SGe 1%Q.

Definition cons_rows (I : path_inst) : list row :=
  match p_cons I with
  | [] => []
  | _ => flat_map (fun i => map (row_7a I i) (zipn 0 (p_cons I))) (layers (p_k I)) ++ map (row_7b I) (cons_idx I)
  end.

Definition base_cols (I : path_inst) : list col := edge_cols (p_graph I) (p_k I) ++ cons_cols I.
Definition base_rows (I : path_inst) : list row := path_rows (p_graph I) (p_k I) (p_allow_empty I) ++ cons_rows I.

(* ---- kFlowDecomp ---- *)
Record kfd_inst := {
  f_base : path_inst;
  f_flow : list (edge * Q);
  f_ignore : list edge;                (* edges_to_ignore incl. the source/sink edges *)
  f_wmax : Q;
  f_int : bool }.

Definition wcol_ (v : var) (ub : Q) (isint : bool) : col := {| cvar := v; clb := 0; cub := ub; cint := isint |}.

Definition kfd_cols (I : kfd_inst) : list col :=
  let G := p_graph (f_base I) in let k := p_k (f_base I) in
  flat_map (fun i => map (fun e => wcol_ (Pi (fst e) (snd e) i) (f_wmax I) (f_int I)) (g_edges G)) (layers k) ++
  map (fun i => wcol_ (W i) (f_wmax I) (f_int I)) (layers k).

Definition kfd_edge_rows (I : kfd_inst) (e : edge) : list row :=
  let k := p_k (f_base I) in
  flat_map (fun i => mcc_rows (Edge (fst e) (snd e) i) (W i) (Pi (fst e) (snd e) i) 0%Q (f_wmax I)) (layers k) ++
  [ mkrow (map (fun i => (Pi (fst e) (snd e) i, 1%Q)) (layers k)) SEq (lookup_q e (f_flow I) 0%Q) ].

Definition kfd_rows (I : kfd_inst) : list row :=
  flat_map (kfd_edge_rows I) (filter (fun e => negb (mem_edge e (f_ignore I))) (g_edges (p_graph (f_base I)))).

Definition encode_kfd (I : kfd_inst) : milp :=
  {| cols := base_cols (f_base I) ++ kfd_cols I; rows := base_rows (f_base I) ++ kfd_rows I; obj := []; maximize := false |}.

(* given weights: k = number of weights, empty paths allowed, at most k_orig paths, minimise their number *)
Definition src_out_terms (G : stgraph) (k : nat) : lin :=
  flat_map (fun v => map (fun i => (Edge (g_src G) v i, 1%Q)) (layers k)) (succs G (g_src G)).

Definition kfdw_rows (I : kfd_inst) (ws : list Q) (k_orig : nat) : list row :=
  let G := p_graph (f_base I) in let k := p_k (f_base I) in
  map (fun e => mkrow (map (fun iw => (Edge (fst e) (snd e) (fst iw), snd iw)) (zipn 0 ws)) SEq (lookup_q e (f_flow I) 0%Q))
      (filter (fun e => negb (mem_edge e (f_ignore I))) (g_edges G)) ++
  [ mkrow (src_out_terms G k) SLe (inject_Z (Z.of_nat k_orig)) ].

Definition encode_kfd_given (I : kfd_inst) (ws : list Q) (k_orig : nat) : milp :=
  {| cols := base_cols (f_base I); rows := base_rows (f_base I) ++ kfdw_rows I ws k_orig;
     obj := src_out_terms (p_graph (f_base I)) (p_k (f_base I)); maximize := false |}.

(* ---- kPathCover ---- *)
Definition kpc_rows (I : path_inst) (ignore : list edge) : list row :=
  map (fun e => mkrow (map (fun i => (Edge (fst e) (snd e) i, 1%Q)) (layers (p_k I))) SGe 1%Q)
      (filter (fun e => negb (mem_edge e ignore)) (g_edges (p_graph I))).

Definition encode_kpc (I : path_inst) (ignore : list edge) : milp :=
  {| cols := base_cols I; rows := base_rows I ++ kpc_rows I ignore; obj := []; maximize := false |}.

(* ---- get_solution_paths for one layer: follow the first successor (in adjacency order = order of
   the edge list restricted to the tail) whose value is 1; [] when no edge leaves the source;
   source and sink stripped.  None = the Python loop would not terminate within |V|+1 steps. *)
Definition x_one (x : edge -> Z) (e : edge) : bool := (x e =? 1)%Z.
Definition out_edges (E : list edge) (v : node) : list edge := filter (fun e => (fst e =? v)%N) E.
Fixpoint follow_ones (E : list edge) (x : edge -> Z) (t : node) (fuel : nat) (v : node) : option (list node) :=
  match fuel with
  | O => None
  | S f =>
      if (v =? t)%N then Some []
      else match find (x_one x) (out_edges E v) with
           | None => None
           | Some e => option_map (cons (snd e)) (follow_ones E x t f (snd e))
           end
  end.
Definition solution_path (E : list edge) (x : edge -> Z) (s t : node) (fuel : nat) : option (list node) :=
  match find (x_one x) (out_edges E s) with
  | None => Some []
  | Some _ => option_map (@removelast node) (follow_ones E x t fuel s)
  end.
