(* Combinatorics of one walk, for the completeness of the walk encoding: multiplicities of a walk against an edge
   list (sums over incident edges = degrees of the walk's edge multiset) and the first-visit spanning tree
   (rank = 1 + number of distinct nodes visited before the first visit; selected in-edge = the edge by which the walk
   first enters the node), which supplies the Sel / Dist witnesses of the connectivity rows 21, 22a, 22b, 18a, 19c.
   Walks are handled in REVERSED form (last node first) so that the definitions are structural. *)
From Coq Require Import List NArith ZArith Bool Arith Lia Permutation.
Import ListNotations.
From FP Require Import Euler EulerProofs1 EulerProofs4 WalkEnc.
Set Default Timeout 60.
Local Open Scope nat_scope.

Notation nin := (in_dec N.eq_dec).

(* ---- multiplicities and degrees ---- *)
Definition multz (g : graph) (e : edge) : Z := Z.of_nat (count_e e g).

Lemma sumf_add (f h : edge -> Z) l : WalkEnc.sumf (fun e => (f e + h e)%Z) l = (WalkEnc.sumf f l + WalkEnc.sumf h l)%Z.
Proof. induction l as [|e l IH]; cbn; [reflexivity|]. unfold WalkEnc.sumf in IH. cbn in IH. rewrite IH. lia. Qed.
Lemma sumf_ext (f h : edge -> Z) l : (forall e, In e l -> f e = h e) -> WalkEnc.sumf f l = WalkEnc.sumf h l.
Proof.
  induction l as [|e l IH]; intros H; cbn; [reflexivity|]. rewrite (H e (or_introl eq_refl)).
  unfold WalkEnc.sumf in IH. rewrite IH; [reflexivity|]. intros x Hx. apply H. right. exact Hx.
Qed.

Lemma sumf_zero (f : edge -> Z) l : (forall e, In e l -> f e = 0%Z) -> WalkEnc.sumf f l = 0%Z.
Proof.
  induction l as [|e l IH]; intros H; [reflexivity|]. change (WalkEnc.sumf f (e :: l)) with (f e + WalkEnc.sumf f l)%Z.
  rewrite (H e (or_introl eq_refl)), IH; [reflexivity|]. intros x Hx. apply H. right. exact Hx.
Qed.

(* the indicator of one element sums to 1 over a duplicate-free list containing it, to 0 otherwise *)

Lemma sumf_ind1 (a : edge) (l : list edge) : NoDup l ->
  WalkEnc.sumf (fun e => if eqe a e then 1%Z else 0%Z) l = (if existsb (eqe a) l then 1 else 0)%Z.
Proof.
  induction 1 as [|x l Hx ND IH]; cbn; [reflexivity|]. unfold WalkEnc.sumf in IH. rewrite IH.
  destruct (eqe a x) eqn:Q.
  - apply eqe_true in Q. subst x. cbn.
    destruct (existsb (eqe a) l) eqn:X; [|reflexivity]. exfalso. apply existsb_exists in X. destruct X as (y & Hy & Q).
    apply eqe_true in Q. subst y. contradiction.
  - cbn. destruct (existsb (eqe a) l); reflexivity.
Qed.

Lemma existsb_eqe_In a l : existsb (eqe a) l = true <-> In a l.
Proof.
  rewrite existsb_exists. split.
  - intros (y & Hy & Q). apply eqe_true in Q. subst. exact Hy.
  - intros H. exists a. split; [exact H|apply eqe_true; reflexivity].
Qed.

(* sum of the multiplicities over the edges of L that satisfy p = number of edges of g that satisfy p *)
Lemma sum_mult_filter (L g : list edge) (p : edge -> bool) : NoDup L -> incl g L ->
  WalkEnc.sumf (multz g) (filter p L) = Z.of_nat (length (filter p g)).
Proof.
  intros ND. induction g as [|a g IH]; intros Hin.
  - cbn [filter length]. apply sumf_zero. intros e _. reflexivity.
  - assert (Hin' : incl g L) by (intros x Hx; apply Hin; right; exact Hx).
    rewrite (sumf_ext _ (fun e => ((if eqe a e then 1 else 0) + multz g e)%Z)).
    + rewrite sumf_add, (IH Hin'), sumf_ind1 by (apply NoDup_filter; exact ND).
      cbn [filter]. destruct (p a) eqn:Pa.
      * assert (X : existsb (eqe a) (filter p L) = true).
        { apply existsb_eqe_In. apply filter_In. split; [apply Hin; left; reflexivity|exact Pa]. }
        rewrite X. cbn [length]. lia.
      * assert (X : existsb (eqe a) (filter p L) = false).
        { destruct (existsb (eqe a) (filter p L)) eqn:X; [|reflexivity]. apply existsb_eqe_In in X. apply filter_In in X. destruct X as [_ X]. congruence. }
        rewrite X. lia.
    + intros e _. unfold multz. cbn [count_e]. destruct (eqe a e); lia.
Qed.

Lemma in_pairs_nodes w u v : In (u, v) (pairs w) -> In u w /\ In v w.
Proof.
  induction w as [|a w IH]; cbn [pairs]; [intros []|]. destruct w as [|b w]; [intros []|].
  intros [H|H].
  - injection H as <- <-. split; [left; reflexivity|right; left; reflexivity].
  - destruct (IH H) as [A B]. split; right; assumption.
Qed.

Lemma count_pos_in e g : (1 <= count_e e g)%nat <-> In e g.
Proof.
  induction g as [|x g IH]; cbn [count_e]; [split; [lia|intros []]|].
  destruct (eqe x e) eqn:Q.
  - apply eqe_true in Q. subst. split; [intros _; left; reflexivity|lia].
  - split.
    + intros H. right. apply IH. lia.
    + intros [->|H]; [rewrite (proj2 (eqe_true e e) eq_refl) in Q; discriminate|]. apply IH in H. lia.
Qed.

(* degrees of a walk s ... t whose edges avoid entering s and leaving t *)
Section WalkDegrees.
  Variables (s t : node) (r : list node).          (* the walk is s :: r *)
  Hypothesis Hst : s <> t.
  Hypothesis Hlast : last r s = t.
  Hypothesis Hs_in : forall e, In e (pairs (s :: r)) -> snd e <> s.
  Hypothesis Ht_out : forall e, In e (pairs (s :: r)) -> fst e <> t.
  Let g := pairs (s :: r).

  Lemma ind_s_zero : ind g s = 0%nat.
  Proof.
    unfold ind. destruct (filter (fun e => (snd e =? s)%N) g) as [|e l] eqn:F; [reflexivity|exfalso].
    assert (He : In e (filter (fun e => (snd e =? s)%N) g)) by (rewrite F; left; reflexivity).
    apply filter_In in He. destruct He as [He Q]. apply N.eqb_eq in Q. exact (Hs_in e He Q).
  Qed.
  Lemma outd_t_zero : outd g t = 0%nat.
  Proof.
    unfold outd. destruct (filter (fun e => (fst e =? t)%N) g) as [|e l] eqn:F; [reflexivity|exfalso].
    assert (He : In e (filter (fun e => (fst e =? t)%N) g)) by (rewrite F; left; reflexivity).
    apply filter_In in He. destruct He as [He Q]. apply N.eqb_eq in Q. exact (Ht_out e He Q).
  Qed.
  Lemma outd_s_one : outd g s = 1%nat.
  Proof.
    pose proof (exc_pairs s r s) as X. fold g in X. rewrite Hlast, N.eqb_refl in X.
    destruct (N.eqb_spec s t) as [E|_]; [contradiction|]. unfold exc in X. rewrite ind_s_zero in X. cbn [ind1] in X. lia.
  Qed.
  Lemma balanced v : v <> s -> v <> t -> ind g v = outd g v.
  Proof.
    intros H1 H2. pose proof (exc_pairs s r v) as X. fold g in X. rewrite Hlast in X.
    destruct (N.eqb_spec v s) as [E|_]; [contradiction|]. destruct (N.eqb_spec v t) as [E|_]; [contradiction|].
    unfold exc in X. cbn [ind1] in X. lia.
  Qed.
End WalkDegrees.

(* ---- first-visit tree of a reversed walk ---- *)
Definition ndist (l : list node) : nat := length (nodup N.eq_dec l).

Fixpoint rankf (rw : list node) (x : node) : nat :=
  match rw with
  | [] => 0
  | v :: r => if nin x r then rankf r x else if (v =? x)%N then S (ndist r) else 0
  end.

Fixpoint selb (rw : list node) (e : edge) : bool :=
  match rw with
  | [] => false
  | v :: r => match r with
              | [] => false
              | u :: _ => if nin v r then selb r e else eqe e (u, v) || selb r e
              end
  end.

Lemma ndist_cons v r : ndist (v :: r) = if nin v r then ndist r else S (ndist r).
Proof. unfold ndist. cbn [nodup]. destruct (nin v r); reflexivity. Qed.
Lemma ndist_le_cons v r : ndist r <= ndist (v :: r).
Proof. rewrite ndist_cons. destruct (nin v r); lia. Qed.

Lemma ndist_bound (l V : list node) : NoDup V -> incl l V -> ndist l <= length V.
Proof.
  intros ND Hin. unfold ndist. apply NoDup_incl_length; [apply NoDup_nodup|].
  intros x Hx. apply Hin. apply (nodup_In N.eq_dec). exact Hx.
Qed.

Lemma rankf_le rw x : rankf rw x <= ndist rw.
Proof.
  induction rw as [|v r IH]; cbn [rankf]; [lia|]. destruct (nin x r) as [Hx|Hx].
  - pose proof (ndist_le_cons v r). lia.
  - destruct (N.eqb_spec v x) as [->|_]; [|lia]. rewrite ndist_cons. destruct (nin x r); [contradiction|lia].
Qed.

Lemma rankf_pos rw x : In x rw -> 1 <= rankf rw x.
Proof.
  induction rw as [|v r IH]; [intros []|]. intros Hin. cbn [rankf]. destruct (nin x r) as [Hx|Hx]; [apply IH; exact Hx|].
  destruct Hin as [->|Hin]; [|contradiction]. rewrite N.eqb_refl. lia.
Qed.

Lemma rankf_first rw s : last rw s = s -> rw <> [] -> rankf rw s = 1.
Proof.
  induction rw as [|v r IH]; [congruence|]. intros Hl _. cbn [rankf]. destruct r as [|u r'].
  - cbn in Hl. subst v. destruct (nin s []) as [[]|_]. rewrite N.eqb_refl. reflexivity.
  - assert (Hl' : last (u :: r') s = s) by exact Hl.
    destruct (nin s (u :: r')) as [_|Hn]; [apply IH; [exact Hl'|discriminate]|].
    exfalso. apply Hn. rewrite <- Hl' at 1. clear. revert u. induction r' as [|b r IH]; intros u; [left; reflexivity|].
    right. apply (IH b).
Qed.

Lemma pairs_rev_cons v u r : pairs (rev (v :: u :: r)) = pairs (rev (u :: r)) ++ [(u, v)].
Proof.
  cbn [rev]. rewrite <- app_assoc. cbn [app]. rewrite (pairs_app_mid (rev r) u [v]). reflexivity.
Qed.

Lemma selb_spec rw : forall u v, selb rw (u, v) = true ->
  In (u, v) (pairs (rev rw)) /\ In u rw /\ In v rw /\ rankf rw u < rankf rw v.
Proof.
  induction rw as [|v0 r IH]; intros u v H; [discriminate|]. cbn [selb] in H. destruct r as [|u0 r']; [discriminate|].
  assert (Inh : selb (u0 :: r') (u, v) = true -> In (u, v) (pairs (rev (v0 :: u0 :: r'))) /\ In u (v0 :: u0 :: r') /\ In v (v0 :: u0 :: r') /\
                 rankf (v0 :: u0 :: r') u < rankf (v0 :: u0 :: r') v).
  { intros Hs. destruct (IH u v Hs) as (A & B & C & D). split; [rewrite pairs_rev_cons; apply in_or_app; left; exact A|].
    split; [right; exact B|]. split; [right; exact C|]. cbn [rankf].
    destruct (nin u (u0 :: r')) as [_|X]; [|contradiction]. destruct (nin v (u0 :: r')) as [_|X]; [|contradiction]. exact D. }
  destruct (nin v0 (u0 :: r')) as [Hv0|Hv0]; [apply Inh; exact H|].
  apply orb_true_iff in H. destruct H as [H|H]; [|apply Inh; exact H].
  apply eqe_true in H. injection H as -> ->.
  split; [rewrite pairs_rev_cons; apply in_or_app; right; left; reflexivity|].
  split; [right; left; reflexivity|]. split; [left; reflexivity|].
  assert (Hu0 : In u0 (u0 :: r')) by (left; reflexivity).
  remember (u0 :: r') as r0 eqn:Er0. cbn [rankf]. destruct (nin u0 r0) as [_|X]; [|contradiction].
  destruct (nin v0 r0) as [X|_]; [contradiction|]. rewrite N.eqb_refl.
  pose proof (rankf_le r0 u0). lia.
Qed.

Lemma selb_unique rw : forall u1 u2 v, selb rw (u1, v) = true -> selb rw (u2, v) = true -> u1 = u2.
Proof.
  induction rw as [|v0 r IH]; intros u1 u2 v H1 H2; [discriminate|]. cbn [selb] in H1, H2. destruct r as [|u0 r']; [discriminate|].
  destruct (nin v0 (u0 :: r')) as [Hv0|Hv0]; [apply (IH u1 u2 v H1 H2)|].
  apply orb_true_iff in H1. apply orb_true_iff in H2.
  destruct H1 as [H1|H1], H2 as [H2|H2].
  - apply eqe_true in H1. apply eqe_true in H2. congruence.
  - apply eqe_true in H1. injection H1 as -> ->. destruct (selb_spec _ _ _ H2) as (_ & _ & C & _). contradiction.
  - apply eqe_true in H2. injection H2 as -> ->. destruct (selb_spec _ _ _ H1) as (_ & _ & C & _). contradiction.
  - apply (IH u1 u2 v H1 H2).
Qed.

Lemma selb_cons2 v0 u0 r' e :
  selb (v0 :: u0 :: r') e = if nin v0 (u0 :: r') then selb (u0 :: r') e else eqe e (u0, v0) || selb (u0 :: r') e.
Proof. reflexivity. Qed.

Lemma selb_exists rw s : forall v, In v rw -> last rw s = s -> v <> s -> exists u, selb rw (u, v) = true.
Proof.
  induction rw as [|v0 r IH]; intros v Hin Hl Hne; [destruct Hin|]. destruct r as [|u0 r'].
  - cbn in Hl. destruct Hin as [->|[]]. congruence.
  - assert (Hl' : last (u0 :: r') s = s) by exact Hl.
    assert (X : forall u, selb (v0 :: u0 :: r') (u, v) = if nin v0 (u0 :: r') then selb (u0 :: r') (u, v) else eqe (u, v) (u0, v0) || selb (u0 :: r') (u, v))
      by (intros u; apply selb_cons2).
    destruct (nin v0 (u0 :: r')) as [Hv0|Hv0].
    + destruct (IH v) as (u & Hu); [destruct Hin as [->|Hin]; assumption|exact Hl'|exact Hne|]. exists u. rewrite X. exact Hu.
    + destruct Hin as [->|Hin].
      * exists u0. rewrite X. rewrite (proj2 (eqe_true (u0, v) (u0, v)) eq_refl). reflexivity.
      * destruct (IH v Hin Hl' Hne) as (u & Hu). exists u. rewrite X, Hu. apply orb_true_r.
Qed.
