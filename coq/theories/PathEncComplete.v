(* Completeness of the kFlowDecomp LP: every decomposition into k weighted source-to-sink paths that
   explains the non-ignored flow IS a satisfying assignment of PathEnc.encode_kfd -- without subpath
   constraints (kfd_complete) and with them, when every constraint is covered to the required fraction by
   one of the paths (kfd_complete_cons).  Together with kfd_sound / cons_rows_sound: the LP for k is
   feasible  <=>  such a decomposition exists. *)
From Coq Require Import List NArith ZArith QArith Lqa Bool Arith Lia Permutation.
Import ListNotations.
From FP Require Import Lin Blocks BlocksProofs PathEnc Aug AugProofs Euler EulerProofs1 EulerProofs2 DagDecode PathEncProofs.
Set Default Timeout 60.
Local Close Scope Q_scope.

(* ---- counting indicator sums ---- *)
Definition indq (b : bool) : Q := if b then 1%Q else 0%Q.

Lemma mem_edge_In e l : mem_edge e l = true <-> In e l.
Proof.
  unfold mem_edge. rewrite existsb_exists. split.
  - intros (x & Hx & E). unfold edge_eqb in E. apply andb_true_iff in E. destruct E as [E1 E2].
    apply N.eqb_eq in E1, E2. destruct e, x. cbn in *. subst. exact Hx.
  - intros H. exists e. split; [exact H|]. unfold edge_eqb. rewrite !N.eqb_refl. reflexivity.
Qed.

Lemma nodup_pairs (w : list node) : NoDup w -> NoDup (pairs w).
Proof.
  induction w as [|a w IH]; intros ND; [constructor|]. destruct w as [|b r]; [constructor|].
  change (pairs (a :: b :: r)) with ((a, b) :: pairs (b :: r)). inversion ND as [|? ? Hni ND']; subst.
  constructor; [|apply IH; exact ND'].
  intros Hin. apply in_pairs_r in Hin. tauto.
Qed.

(* sum over a duplicate-free list L of the indicator of membership in S, S duplicate-free and inside L *)
Lemma sum_ind_subset (L S : list PathEnc.edge) : NoDup L -> NoDup S -> incl S L ->
  (sumq (fun e => indq (mem_edge e S)) L == inject_Z (Z.of_nat (length S)))%Q.
Proof.
  revert S. induction L as [|x L IH]; intros S NL NS Hin.
  - destruct S as [|y S]; [reflexivity|exfalso; apply (Hin y); left; reflexivity].
  - inversion NL as [|? ? Hx NL']; subst. cbn [sumq].
    destruct (mem_edge x S) eqn:M.
    + apply mem_edge_In in M. destruct (in_split _ _ M) as (S1 & S2 & ->).
      assert (NS' : NoDup (S1 ++ S2)) by (apply NoDup_remove_1 in NS; exact NS).
      assert (Hx' : ~ In x (S1 ++ S2)) by (apply NoDup_remove_2 in NS; exact NS).
      assert (Hin' : incl (S1 ++ S2) L).
      { intros e He. assert (He' : In e (S1 ++ x :: S2)) by (apply in_or_app; apply in_app_or in He; destruct He; [left|right; right]; assumption).
        destruct (Hin e He') as [<-|H]; [contradiction|exact H]. }
      assert (E : (sumq (fun e => indq (mem_edge e (S1 ++ x :: S2))) L == sumq (fun e => indq (mem_edge e (S1 ++ S2))) L)%Q).
      { apply sumq_ext. intros e He.
        assert (Q : mem_edge e (S1 ++ x :: S2) = mem_edge e (S1 ++ S2)).
        { apply eq_true_iff_eq. rewrite !mem_edge_In, !in_app_iff. cbn [In]. split; [intros [H|[->|H]]; [tauto|contradiction|tauto]|tauto]. }
        rewrite Q. reflexivity. }
      rewrite E, (IH (S1 ++ S2) NL' NS' Hin'). rewrite !app_length. cbn [length indq].
      replace (Z.of_nat (length S1 + Datatypes.S (length S2))) with (1 + Z.of_nat (length S1 + length S2))%Z by lia.
      rewrite inject_Z_plus. reflexivity.
    + assert (Hin' : incl S L).
      { intros e He. destruct (Hin e He) as [<-|H]; [|exact H]. apply mem_edge_In in He. congruence. }
      rewrite (IH S NL' NS Hin'). cbn [indq]. ring.
Qed.

Section Complete.
  Variable I : kfd_inst.
  Let B := f_base I.
  Let G := p_graph B.
  Let k := p_k B.
  Let E := g_edges G.
  Let s := g_src G.
  Let t := g_snk G.
  Variable P : N -> list node.          (* the full path of layer i: s :: inner nodes ++ [t] *)
  Variable w : N -> Q.                   (* its weight *)
  Variable ch : N -> N.                  (* the layer chosen to realise subpath constraint j *)
  Hypothesis WF : wf_graph G.
  Hypothesis Hae : p_allow_empty B = false.
  Hypothesis HP : forall i, In i (layers k) ->
      hd_error (P i) = Some s /\ last (P i) s = t /\ NoDup (P i) /\ incl (pairs (P i)) E.
  Hypothesis Hw : forall i, In i (layers k) -> (0 <= w i <= f_wmax I)%Q /\ (f_int I = true -> is_int (w i)).
  Hypothesis Hflow : forall e, In e E -> mem_edge e (f_ignore I) = false ->
      (sumq (fun i => w i * indq (mem_edge e (pairs (P i)))) (layers k) == lookup_q e (f_flow I) 0)%Q.

  Definition on (i : N) (u v : node) : bool := mem_edge (u, v) (pairs (P i)).

  Definition asg (x : var) : Q :=
    match vidx x with
    | [u; v; i] => if (vfam x =? fEdge)%N then indq (on i u v)
                   else if (vfam x =? fPi)%N then (w i * indq (on i u v))%Q else 0%Q
    | [i; j] => if (vfam x =? fR)%N then indq (i =? ch j)%N else 0%Q
    | [i] => if (vfam x =? fW)%N then w i else 0%Q
    | _ => 0%Q
    end.

  Lemma asg_edge u v i : asg (Edge u v i) = indq (on i u v). Proof. reflexivity. Qed.
  Lemma asg_pi u v i : asg (Pi u v i) = (w i * indq (on i u v))%Q. Proof. reflexivity. Qed.
  Lemma asg_w i : asg (W i) = w i. Proof. reflexivity. Qed.
  Lemma asg_r i j : asg (R i j) = indq (i =? ch j)%N. Proof. reflexivity. Qed.

  Lemma indq_bin b : bin (indq b). Proof. destruct b; [right|left]; reflexivity. Qed.
  Lemma indq_int b : is_int (indq b). Proof. destruct b; [exists 1%Z|exists 0%Z]; reflexivity. Qed.

  (* out- and in-degree of a node on the path, as indicator sums over the adjacency lists *)
  Lemma sum_succ i v : In i (layers k) ->
    (sumq (fun x => asg (Edge v x i)) (succs G v) == inject_Z (Z.of_nat (outd (pairs (P i)) v)))%Q.
  Proof.
    intros Hi. destruct (HP i Hi) as (_ & _ & ND & Hin).
    rewrite (wf_succ G WF), sumq_map.
    set (L := filter (fun e => (fst e =? v)%N) (g_edges G)).
    set (S := filter (fun e => (fst e =? v)%N) (pairs (P i))).
    assert (E1 : (sumq (fun e => asg (Edge v (snd e) i)) L == sumq (fun e => indq (mem_edge e S)) L)%Q).
    { apply sumq_ext. intros e He. unfold L in He. apply filter_In in He. destruct He as [HeE Hv]. apply N.eqb_eq in Hv.
      rewrite asg_edge. unfold on.
      assert (Q : mem_edge (v, snd e) (pairs (P i)) = mem_edge e S).
      { apply eq_true_iff_eq. rewrite !mem_edge_In. unfold S. rewrite filter_In. destruct e as [a b]. cbn in *. subst a.
        rewrite N.eqb_refl. tauto. }
      rewrite Q. reflexivity. }
    rewrite E1. unfold outd. fold S. apply sum_ind_subset.
    - unfold L. apply NoDup_filter. apply (wf_nodup_e G WF).
    - unfold S. apply NoDup_filter. apply nodup_pairs. exact ND.
    - intros e He. unfold S in He. apply filter_In in He. unfold L. apply filter_In. split; [apply Hin; tauto|tauto].
  Qed.

  Lemma sum_pred i v : In i (layers k) ->
    (sumq (fun x => asg (Edge x v i)) (preds G v) == inject_Z (Z.of_nat (ind (pairs (P i)) v)))%Q.
  Proof.
    intros Hi. destruct (HP i Hi) as (_ & _ & ND & Hin).
    rewrite (sumq_perm _ _ _ (wf_pred G WF v)), sumq_map.
    set (L := filter (fun e => (snd e =? v)%N) (g_edges G)).
    set (S := filter (fun e => (snd e =? v)%N) (pairs (P i))).
    assert (E1 : (sumq (fun e => asg (Edge (fst e) v i)) L == sumq (fun e => indq (mem_edge e S)) L)%Q).
    { apply sumq_ext. intros e He. unfold L in He. apply filter_In in He. destruct He as [HeE Hv]. apply N.eqb_eq in Hv.
      rewrite asg_edge. unfold on.
      assert (Q : mem_edge (fst e, v) (pairs (P i)) = mem_edge e S).
      { apply eq_true_iff_eq. rewrite !mem_edge_In. unfold S. rewrite filter_In. destruct e as [a b]. cbn in *. subst b.
        rewrite N.eqb_refl. tauto. }
      rewrite Q. reflexivity. }
    rewrite E1. unfold ind. fold S. apply sum_ind_subset.
    - unfold L. apply NoDup_filter. apply (wf_nodup_e G WF).
    - unfold S. apply NoDup_filter. apply nodup_pairs. exact ND.
    - intros e He. unfold S in He. apply filter_In in He. unfold L. apply filter_In. split; [apply Hin; tauto|tauto].
  Qed.

  Lemma path_shape i : In i (layers k) -> exists r, P i = s :: r /\ last r s = t.
  Proof.
    intros Hi. destruct (HP i Hi) as (Hh & Hl & _ & _). destruct (P i) as [|a r]; [discriminate|].
    cbn in Hh. injection Hh as ->. exists r. split; [reflexivity|]. rewrite <- Hl. symmetry. apply last_cons_default.
  Qed.

  Lemma exc_path i v : In i (layers k) ->
    exc (pairs (P i)) v = (ind1 (v =? s)%N - ind1 (v =? t)%N)%Z.
  Proof. intros Hi. destruct (path_shape i Hi) as (r & -> & Hl). rewrite exc_pairs, Hl. reflexivity. Qed.

  Lemma ind_src i : In i (layers k) -> ind (pairs (P i)) s = 0%nat.
  Proof.
    intros Hi. destruct (HP i Hi) as (_ & _ & _ & Hin). unfold ind.
    destruct (filter (fun e => (snd e =? s)%N) (pairs (P i))) as [|e l] eqn:F; [reflexivity|exfalso].
    assert (He : In e (filter (fun e => (snd e =? s)%N) (pairs (P i)))) by (rewrite F; left; reflexivity).
    apply filter_In in He. destruct He as [He Hs]. apply N.eqb_eq in Hs. exact (wf_src G WF e (Hin e He) Hs).
  Qed.

  Lemma sat_edge_cols : Forall (sat_col asg) (edge_cols G k).
  Proof.
    unfold edge_cols. apply Forall_flat_map. intros i Hi. rewrite Forall_map. apply Forall_forall. intros e He.
    apply col_of_bin. rewrite asg_edge. apply indq_bin.
  Qed.

  Lemma sat_kfd_cols : Forall (sat_col asg) (kfd_cols I).
  Proof.
    unfold kfd_cols. fold B G k. rewrite Forall_app. split.
    - apply Forall_flat_map. intros i Hi. rewrite Forall_map. apply Forall_forall. intros e He.
      unfold sat_col, wcol_. cbn [cvar clb cub cint]. rewrite asg_pi. destruct (Hw i Hi) as [[W0 W1] Wi].
      destruct (on i (fst e) (snd e)); cbn [indq]; repeat split; try lra.
      + intros Hint. destruct (Wi Hint) as (z & Hz). exists z. rewrite Hz. ring.
      + intros _. exists 0%Z. ring.
    - rewrite Forall_map. apply Forall_forall. intros i Hi.
      unfold sat_col, wcol_. cbn [cvar clb cub cint]. rewrite asg_w. destruct (Hw i Hi) as [[W0 W1] Wi]. repeat split; assumption.
  Qed.

  Lemma sat_path_rows : Forall (sat_row asg) (path_rows G k (p_allow_empty B)).
  Proof.
    unfold path_rows. rewrite Hae. rewrite Forall_app. split.
    - rewrite Forall_map. apply Forall_forall. intros i Hi.
      unfold sat_row, row_10a, mkrow. cbn [sns lhs rhs].
      rewrite (eval_map_const asg (fun v => Edge (g_src G) v i) 1%Q), Qmult_1_l. fold s.
      rewrite (sum_succ i s Hi).
      pose proof (exc_path i s Hi) as Ex. unfold exc in Ex. rewrite (ind_src i Hi) in Ex.
      rewrite N.eqb_refl in Ex. destruct (N.eqb_spec s t) as [Est|_]; [exfalso; exact (wf_st G WF Est)|].
      cbn [ind1] in Ex. assert (outd (pairs (P i)) s = 1%nat) by lia. rewrite H. reflexivity.
    - apply Forall_flat_map. intros i Hi. rewrite Forall_map. apply Forall_forall. intros v Hv.
      unfold inner in Hv. apply filter_In in Hv. destruct Hv as [_ Hv]. apply andb_true_iff in Hv. destruct Hv as [Hs Ht].
      apply negb_true_iff in Hs, Ht.
      unfold sat_row, row_10c, mkrow. cbn [sns lhs rhs].
      rewrite eval_app, (eval_map_const asg (fun u => Edge u v i) 1%Q), (eval_map_const asg (fun x => Edge v x i) (- (1))%Q).
      rewrite (sum_pred i v Hi), (sum_succ i v Hi).
      pose proof (exc_path i v Hi) as Ex. unfold exc, s, t in Ex. rewrite Hs, Ht in Ex. cbn [ind1] in Ex.
      assert (Hio : outd (pairs (P i)) v = ind (pairs (P i)) v) by lia. rewrite Hio. ring.
  Qed.

  Lemma sat_kfd_rows : Forall (sat_row asg) (kfd_rows I).
  Proof.
    unfold kfd_rows. apply Forall_flat_map. intros e He. apply filter_In in He. destruct He as [He Hig].
    apply negb_true_iff in Hig. unfold kfd_edge_rows. fold B G k. rewrite Forall_app. split.
    - apply Forall_flat_map. intros i Hi.
      apply (mcc_rows_exact asg _ _ _ 0%Q (f_wmax I)).
      + rewrite asg_edge. apply indq_bin.
      + rewrite asg_w. apply (Hw i Hi).
      + rewrite asg_pi, asg_edge, asg_w. ring.
    - constructor; [|constructor]. unfold sat_row, mkrow. cbn [sns lhs rhs].
      rewrite (eval_map_const asg (fun i => Pi (fst e) (snd e) i) 1%Q), Qmult_1_l.
      rewrite <- (Hflow e He Hig). apply sumq_ext. intros i Hi. rewrite asg_pi. unfold on. destruct e; reflexivity.
  Qed.

  Theorem kfd_complete : p_cons B = [] -> sat asg (encode_kfd I).
  Proof.
    intros Hnocons. split.
    - unfold encode_kfd. cbn [cols]. unfold base_cols, cons_cols. fold B. rewrite Hnocons, app_nil_r.
      rewrite Forall_app. split; [exact sat_edge_cols|exact sat_kfd_cols].
    - unfold encode_kfd. cbn [rows]. unfold base_rows, cons_rows. fold B. rewrite Hnocons, app_nil_r.
      rewrite Forall_app. split; [exact sat_path_rows|exact sat_kfd_rows].
  Qed.

  (* ---- with subpath constraints: constraint number n is realised by the path of layer ch n ---- *)
  Hypothesis Hlen : forall c e, In c (p_cons B) -> In e c -> (0 <= elen B e)%Q.
  Hypothesis Hch : forall n c, nth_error (p_cons B) n = Some c ->
      In (ch (N.of_nat n)) (layers k) /\
      (cons_length B c * p_cov B <= sumq (fun e => elen B e * indq (mem_edge e (pairs (P (ch (N.of_nat n)))))) c)%Q.

  Lemma sumq_nonneg {A} (g : A -> Q) l : (forall x, In x l -> (0 <= g x)%Q) -> (0 <= sumq g l)%Q.
  Proof.
    induction l as [|x l IH]; intros H; cbn [sumq]; [lra|].
    pose proof (H x (or_introl eq_refl)). assert (0 <= sumq g l)%Q by (apply IH; intros y Hy; apply H; right; exact Hy). lra.
  Qed.

  Lemma sum_ind_eq_ge1 (x : N) (L : list N) : In x L -> (1 <= sumq (fun i => indq (i =? x)%N) L)%Q.
  Proof.
    induction L as [|y L IH]; intros H; [destruct H|]. cbn [sumq].
    assert (N0 : (0 <= sumq (fun i => indq (i =? x)%N) L)%Q) by (apply sumq_nonneg; intros z _; destruct (z =? x)%N; cbn [indq]; lra).
    destruct H as [->|H].
    - rewrite N.eqb_refl. cbn [indq]. lra.
    - specialize (IH H). destruct (y =? x)%N; cbn [indq]; lra.
  Qed.

  Lemma sat_cons_cols : Forall (sat_col asg) (cons_cols B).
  Proof.
    unfold cons_cols. destruct (p_cons B); [constructor|].
    apply Forall_flat_map. intros i Hi. rewrite Forall_map. apply Forall_forall. intros j Hj.
    apply col_of_bin. rewrite asg_r. apply indq_bin.
  Qed.

  Lemma sat_cons_rows : Forall (sat_row asg) (cons_rows B).
  Proof.
    unfold cons_rows. destruct (p_cons B) as [|c0 cs] eqn:EC; [constructor|]. rewrite <- EC in *.
    rewrite Forall_app. split.
    - apply Forall_flat_map. intros i Hi. rewrite Forall_map. apply Forall_forall. intros [j c] Hjc.
      destruct (in_zipn _ _ _ _ Hjc) as (n & -> & _ & Hn). rewrite Nat.sub_0_r in Hn.
      unfold sat_row, row_7a, mkrow. cbn [sns lhs rhs fst snd].
      rewrite eval_app, eval_map_coef_edges. cbn [eval fst snd]. rewrite asg_r.
      destruct (Hch n c Hn) as [_ Hcov].
      assert (Hc : In c (p_cons B)) by (apply nth_error_In with n; exact Hn).
      destruct (N.eqb_spec i (ch (N.of_nat n))) as [->|_]; cbn [indq].
      + assert (E1 : (sumq (fun e => elen B e * asg (Edge (fst e) (snd e) (ch (N.of_nat n)))) c ==
                      sumq (fun e => elen B e * indq (mem_edge e (pairs (P (ch (N.of_nat n)))))) c)%Q).
        { apply sumq_ext. intros e He. rewrite asg_edge. unfold on. destruct e; reflexivity. }
        rewrite E1. lra.
      + assert (N0 : (0 <= sumq (fun e => elen B e * asg (Edge (fst e) (snd e) i)) c)%Q).
        { apply sumq_nonneg. intros e He. rewrite asg_edge. pose proof (Hlen c e Hc He).
          destruct (on i (fst e) (snd e)); cbn [indq]; lra. }
        lra.
    - rewrite Forall_map. apply Forall_forall. intros j Hj.
      unfold cons_idx in Hj. apply in_map_iff in Hj. destruct Hj as (n & <- & Hn). apply in_seq in Hn.
      destruct (nth_error (p_cons B) n) as [c|] eqn:Hnth; [|apply nth_error_None in Hnth; lia].
      destruct (Hch n c Hnth) as [Hin _].
      unfold sat_row, row_7b, mkrow. cbn [sns lhs rhs]. fold k.
      rewrite (eval_map_const asg (fun i => R i (N.of_nat n)) 1%Q), Qmult_1_l.
      assert (E1 : (sumq (fun i => asg (R i (N.of_nat n))) (layers k) == sumq (fun i => indq (i =? ch (N.of_nat n))%N) (layers k))%Q).
      { apply sumq_ext. intros i _. rewrite asg_r. reflexivity. }
      rewrite E1. apply sum_ind_eq_ge1. exact Hin.
  Qed.

  Theorem kfd_complete_cons : sat asg (encode_kfd I).
  Proof.
    split.
    - unfold encode_kfd. cbn [cols]. unfold base_cols. fold B G k.
      rewrite !Forall_app. split; [split; [exact sat_edge_cols|exact sat_cons_cols]|exact sat_kfd_cols].
    - unfold encode_kfd. cbn [rows]. unfold base_rows. fold B G k.
      rewrite !Forall_app. split; [split; [exact sat_path_rows|exact sat_cons_rows]|exact sat_kfd_rows].
  Qed.
End Complete.

(* ---- feasibility of the k-model  <=>  existence of a decomposition into k paths ---- *)
Definition decomposition (I : kfd_inst) (P : N -> list node) (w : N -> Q) : Prop :=
  let G := p_graph (f_base I) in let k := p_k (f_base I) in
  (forall i, In i (layers k) ->
     hd_error (P i) = Some (g_src G) /\ last (P i) (g_src G) = g_snk G /\ NoDup (P i) /\ incl (pairs (P i)) (g_edges G)) /\
  (forall i, In i (layers k) -> (0 <= w i <= f_wmax I)%Q /\ (f_int I = true -> is_int (w i))) /\
  (forall e, In e (g_edges G) -> mem_edge e (f_ignore I) = false ->
     (sumq (fun i => w i * indq (mem_edge e (pairs (P i)))) (layers k) == lookup_q e (f_flow I) 0)%Q).

Theorem kfd_feasible_iff (I : kfd_inst) (rank : node -> nat) (Rm : nat) :
  wf_graph (p_graph (f_base I)) -> p_cons (f_base I) = [] -> p_allow_empty (f_base I) = false ->
  (forall u v, In (u, v) (g_edges (p_graph (f_base I))) -> (rank u < rank v)%nat) -> (forall v, (rank v <= Rm)%nat) ->
  ((exists a, sat a (encode_kfd I)) <-> (exists P w, decomposition I P w)).
Proof.
  intros WF Hnc Hae Hrank HR. split.
  - intros (a & Hsat).
    destruct (kfd_sound I a rank Rm WF Hae Hrank HR Hsat) as (Hpaths & Hweights & Hflow).
    exists (fun i => g_src (p_graph (f_base I)) ::
                     match decode (g_edges (p_graph (f_base I))) (xval a i) (g_snk (p_graph (f_base I))) (Datatypes.S Rm)
                                  (g_src (p_graph (f_base I))) with Some p => p | None => [] end), (fun i => a (W i)).
    unfold decomposition. split; [|split].
    + intros i Hi. destruct (Hpaths i Hi) as (p & D & L & Pm & _).
      rewrite D. split; [reflexivity|]. split; [rewrite last_cons_default; exact L|].
      assert (HinG : incl (pairs (g_src (p_graph (f_base I)) :: p)) (g_edges (p_graph (f_base I)))).
      { intros e He. apply (Permutation_in _ (Permutation_sym Pm)) in He. apply Sup_In in He. tauto. }
      split; [|exact HinG].
      destruct (AugProofs.rank_walk_nodup _ rank Hrank p _ HinG) as [ND _]. exact ND.
    + exact Hweights.
    + intros e He Hig. rewrite <- (Hflow e He Hig). apply sumq_ext. intros i Hi.
      destruct (Hpaths i Hi) as (p & D & L & Pm & _). rewrite D.
      assert (Q : (indq (mem_edge e (pairs (g_src (p_graph (f_base I)) :: p))) == inject_Z (xval a i e))%Q).
      { destruct (xval_bin a i e (kfd_edge_bin I a Hsat i e Hi He)) as [_ [X|X]]; rewrite X.
        - destruct (mem_edge e (pairs (g_src (p_graph (f_base I)) :: p))) eqn:M; [|reflexivity]. exfalso.
          apply mem_edge_In in M. apply (Permutation_in _ (Permutation_sym Pm)) in M. apply Sup_In in M. destruct M as [_ M]. lia.
        - assert (M : mem_edge e (pairs (g_src (p_graph (f_base I)) :: p)) = true).
          { apply mem_edge_In. apply (Permutation_in _ Pm). apply Sup_In. split; [exact He|exact X]. }
          rewrite M. reflexivity. }
      rewrite Q. reflexivity.
  - intros (P & w & HP & Hw & Hf). exists (asg P w (fun _ => 0%N)). apply kfd_complete; assumption.
Qed.

(* ---- C03 composed: search + exact solver + feasibility characterisation ---- *)
From FP Require Import Search SearchProofs1 SearchProofs2.

Theorem mfd_returns_minimum (inst : nat -> kfd_inst) (rank : node -> nat) (Rm : nat)
        (feasible : nat -> bool) (lb ub kopt : nat) (sts : list raw) :
  (* the instances tried differ only in k, are well formed, acyclic, constraint-free, empty paths not allowed *)
  (forall k, p_k (f_base (inst k)) = k /\ wf_graph (p_graph (f_base (inst k))) /\ p_cons (f_base (inst k)) = [] /\
             p_allow_empty (f_base (inst k)) = false /\
             (forall u v, In (u, v) (g_edges (p_graph (f_base (inst k)))) -> (rank u < rank v)%nat)) ->
  (forall v, (rank v <= Rm)%nat) ->
  (* solver specification: the status of the run for k says whether the generated LP is satisfiable *)
  (forall k, feasible k = true <-> exists a, sat a (encode_kfd (inst k))) ->
  (forall i, (i < ub - lb)%nat -> exists x, nth_error sts i = Some x /\
             status_of x = if feasible (lb + i)%nat then Optimal else Infeasible) ->
  (* kopt is the least number of paths of any decomposition, and it lies in the searched range *)
  (exists P w, decomposition (inst kopt) P w) ->
  (forall k, (k < kopt)%nat -> ~ exists P w, decomposition (inst k) P w) ->
  (lb <= kopt < ub)%nat ->
  so_res (mpc_solve true lb ub sts) = Solved kopt.
Proof.
  intros Hinst HR Hspec Hsts Hopt Hmin Hrange.
  apply (search_min feasible lb ub kopt sts Hsts).
  - apply Hspec. destruct (Hinst kopt) as (_ & WF & Hnc & Hae & Hrk).
    apply (kfd_feasible_iff (inst kopt) rank Rm WF Hnc Hae Hrk HR). exact Hopt.
  - intros k Hk. destruct (feasible k) eqn:F; [exfalso|reflexivity].
    apply Hspec in F. destruct (Hinst k) as (_ & WF & Hnc & Hae & Hrk).
    apply (kfd_feasible_iff (inst k) rank Rm WF Hnc Hae Hrk HR) in F. exact (Hmin k Hk F).
  - exact Hrange.
Qed.

(* ---- the same with subpath constraints ---- *)
Definition constraints_covered (B : path_inst) (P : N -> list node) : Prop :=
  forall n c, nth_error (p_cons B) n = Some c ->
    exists i, In i (layers (p_k B)) /\
      (cons_length B c * p_cov B <= sumq (fun e => elen B e * indq (mem_edge e (pairs (P i)))) c)%Q.

Lemma finite_choice {A} (l : list A) : forall (Pr : nat -> A -> N -> Prop),
  (forall n c, nth_error l n = Some c -> exists i, Pr n c i) ->
  exists ch : N -> N, forall n c, nth_error l n = Some c -> Pr n c (ch (N.of_nat n)).
Proof.
  induction l as [|a r IH]; intros Pr H.
  - exists (fun _ => 0%N). intros n c Hn. destruct n; discriminate.
  - destruct (H 0%nat a eq_refl) as (i0 & H0).
    destruct (IH (fun n => Pr (Datatypes.S n))) as (ch' & Hch').
    { intros n c Hn. apply (H (Datatypes.S n) c Hn). }
    exists (fun j => if (j =? 0)%N then i0 else ch' (N.pred j)). intros n c Hn. destruct n as [|n].
    + cbn in Hn. injection Hn as <-. exact H0.
    + cbn [nth_error] in Hn. replace (N.of_nat (Datatypes.S n) =? 0)%N with false by (symmetry; apply N.eqb_neq; lia).
      replace (N.pred (N.of_nat (Datatypes.S n))) with (N.of_nat n) by lia. apply Hch'. exact Hn.
Qed.

Theorem kfd_feasible_iff_cons (I : kfd_inst) (rank : node -> nat) (Rm : nat) :
  wf_graph (p_graph (f_base I)) -> p_allow_empty (f_base I) = false ->
  (forall u v, In (u, v) (g_edges (p_graph (f_base I))) -> (rank u < rank v)%nat) -> (forall v, (rank v <= Rm)%nat) ->
  (* constraints name edges of the graph and lengths are non-negative (both enforced by the constructor) *)
  (forall c e, In c (p_cons (f_base I)) -> In e c -> In e (g_edges (p_graph (f_base I))) /\ (0 <= elen (f_base I) e)%Q) ->
  ((exists a, sat a (encode_kfd I)) <-> (exists P w, decomposition I P w /\ constraints_covered (f_base I) P)).
Proof.
  intros WF Hae Hrank HR Hcons. split.
  - intros (a & Hsat).
    destruct (kfd_sound I a rank Rm WF Hae Hrank HR Hsat) as (Hpaths & Hweights & Hflow).
    set (P := fun i => g_src (p_graph (f_base I)) ::
                     match decode (g_edges (p_graph (f_base I))) (xval a i) (g_snk (p_graph (f_base I))) (Datatypes.S Rm)
                                  (g_src (p_graph (f_base I))) with Some p => p | None => [] end).
    assert (Q : forall i e, In i (layers (p_k (f_base I))) -> In e (g_edges (p_graph (f_base I))) ->
                (indq (mem_edge e (pairs (P i))) == inject_Z (xval a i e))%Q).
    { intros i e Hi He. destruct (Hpaths i Hi) as (p & D & L & Pm & _). unfold P. rewrite D.
      destruct (xval_bin a i e (kfd_edge_bin I a Hsat i e Hi He)) as [_ [X|X]]; rewrite X.
      - destruct (mem_edge e (pairs (g_src (p_graph (f_base I)) :: p))) eqn:M; [|reflexivity]. exfalso.
        apply mem_edge_In in M. apply (Permutation_in _ (Permutation_sym Pm)) in M. apply Sup_In in M. destruct M as [_ M]. lia.
      - assert (M : mem_edge e (pairs (g_src (p_graph (f_base I)) :: p)) = true).
        { apply mem_edge_In. apply (Permutation_in _ Pm). apply Sup_In. split; [exact He|exact X]. }
        rewrite M. reflexivity. }
    exists P, (fun i => a (W i)). split; [unfold decomposition; split; [|split]|].
    + intros i Hi. destruct (Hpaths i Hi) as (p & D & L & Pm & _). unfold P.
      rewrite D. split; [reflexivity|]. split; [rewrite last_cons_default; exact L|].
      assert (HinG : incl (pairs (g_src (p_graph (f_base I)) :: p)) (g_edges (p_graph (f_base I)))).
      { intros e He. apply (Permutation_in _ (Permutation_sym Pm)) in He. apply Sup_In in He. tauto. }
      split; [|exact HinG].
      destruct (AugProofs.rank_walk_nodup _ rank Hrank p _ HinG) as [ND _]. exact ND.
    + exact Hweights.
    + intros e He Hig. rewrite <- (Hflow e He Hig). apply sumq_ext. intros i Hi. rewrite (Q i e Hi He). reflexivity.
    + intros n c Hn.
      pose proof Hsat as Hsat'. destruct Hsat as [Hc Hr]. unfold encode_kfd in Hc, Hr. cbn [cols rows] in Hc, Hr.
      rewrite Forall_app in Hc, Hr. destruct Hc as [Hc _]. destruct Hr as [Hr _].
      destruct (cons_rows_sound (f_base I) a Hc Hr n c Hn) as (i & Hi & Hcov).
      exists i. split; [exact Hi|].
      assert (E1 : (sumq (fun e => elen (f_base I) e * indq (mem_edge e (pairs (P i)))) c ==
                    sumq (fun e => elen (f_base I) e * a (Edge (fst e) (snd e) i)) c)%Q).
      { apply sumq_ext. intros e He.
        assert (HeE : In e (g_edges (p_graph (f_base I)))) by (apply (Hcons c e); [apply nth_error_In with n; exact Hn|exact He]).
        rewrite (Q i e Hi HeE).
        destruct (xval_bin a i e (kfd_edge_bin I a Hsat' i e Hi HeE)) as [X _]. rewrite X. reflexivity. }
      rewrite E1. exact Hcov.
  - intros (P & w & (HP & Hw & Hf) & Hcov).
    destruct (finite_choice (p_cons (f_base I))
                (fun n c i => In i (layers (p_k (f_base I))) /\
                   (cons_length (f_base I) c * p_cov (f_base I) <= sumq (fun e => elen (f_base I) e * indq (mem_edge e (pairs (P i)))) c)%Q)
                Hcov) as (ch & Hch).
    exists (asg P w ch). apply kfd_complete_cons; try assumption.
    intros c e Hc He. apply (Hcons c e Hc He).
Qed.

Theorem mfd_returns_minimum_cons (inst : nat -> kfd_inst) (rank : node -> nat) (Rm : nat)
        (feasible : nat -> bool) (lb ub kopt : nat) (sts : list raw) :
  (* the instances tried differ only in k, are well formed, acyclic, empty paths not allowed; subpath constraints name
     edges of the graph, lengths are non-negative *)
  (forall k, p_k (f_base (inst k)) = k /\ wf_graph (p_graph (f_base (inst k))) /\
             p_allow_empty (f_base (inst k)) = false /\
             (forall u v, In (u, v) (g_edges (p_graph (f_base (inst k)))) -> (rank u < rank v)%nat) /\
             (forall c e, In c (p_cons (f_base (inst k))) -> In e c ->
                          In e (g_edges (p_graph (f_base (inst k)))) /\ (0 <= elen (f_base (inst k)) e)%Q)) ->
  (forall v, (rank v <= Rm)%nat) ->
  (forall k, feasible k = true <-> exists a, sat a (encode_kfd (inst k))) ->
  (forall i, (i < ub - lb)%nat -> exists x, nth_error sts i = Some x /\
             status_of x = if feasible (lb + i)%nat then Optimal else Infeasible) ->
  (* kopt is the least number of paths of any decomposition that covers every constraint *)
  (exists P w, decomposition (inst kopt) P w /\ constraints_covered (f_base (inst kopt)) P) ->
  (forall k, (k < kopt)%nat -> ~ exists P w, decomposition (inst k) P w /\ constraints_covered (f_base (inst k)) P) ->
  (lb <= kopt < ub)%nat ->
  so_res (mpc_solve true lb ub sts) = Solved kopt.
Proof.
  intros Hinst HR Hspec Hsts Hopt Hmin Hrange.
  apply (search_min feasible lb ub kopt sts Hsts).
  - apply Hspec. destruct (Hinst kopt) as (_ & WF & Hae & Hrk & Hc).
    apply (kfd_feasible_iff_cons (inst kopt) rank Rm WF Hae Hrk HR Hc). exact Hopt.
  - intros k Hk. destruct (feasible k) eqn:F; [exfalso|reflexivity].
    apply Hspec in F. destruct (Hinst k) as (_ & WF & Hae & Hrk & Hc).
    apply (kfd_feasible_iff_cons (inst k) rank Rm WF Hae Hrk HR Hc) in F. exact (Hmin k Hk F).
  - exact Hrange.
Qed.
