(* C20 — string layer lemmas: lstrip / rstrip / strip / split_ws on laid-out lines. *)
From Coq Require Import List NArith ZArith Bool Arith Lia.
Import ListNotations.
From FP Require Import Parser.
Set Default Timeout 30.
Open Scope N_scope.

(* ---------------------------------------------------------------- vocabulary of the descriptions *)
Definition all_ws (s : str) : Prop := Forall (fun c => is_ws c = true) s.
Definition no_ws (s : str) : Prop := Forall (fun c => is_ws c = false) s.
Definition token (t : str) : Prop := t <> [] /\ no_ws t.                 (* a field of str.split() *)
Definition nohash (t : str) : Prop := match t with c :: _ => c <> c_hash | [] => True end.
(* no white space at either end (the text may contain white space inside) *)
Definition trimmed (s : str) : Prop := s = [] \/ (is_ws (hd 0 s) = false /\ is_ws (last s 0) = false).

(* t1 g1 t2 g2 ... tn gn : fields with the white space that follows each *)
Fixpoint glue (cells : list (str * str)) : str :=
  match cells with [] => [] | (t, g) :: r => t ++ g ++ glue r end.
Fixpoint wf_cells (cells : list (str * str)) : Prop :=
  match cells with
  | [] => True
  | (t, g) :: r => token t /\ all_ws g /\ (r <> [] -> g <> []) /\ wf_cells r
  end.

Lemma hash_not_ws : is_ws c_hash = false. Proof. reflexivity. Qed.

(* ---------------------------------------------------------------- str_eqb *)
Lemma str_eqb_refl a : str_eqb a a = true.
Proof. induction a as [|x a IH]; [reflexivity|]. cbn [str_eqb]. rewrite N.eqb_refl, IH. reflexivity. Qed.
Lemma str_eqb_eq a : forall b, str_eqb a b = true <-> a = b.
Proof.
  induction a as [|x a IH]; intros [|y b]; cbn [str_eqb]; split; intros H; try reflexivity; try discriminate.
  - apply andb_true_iff in H. destruct H as [H1 H2]. apply N.eqb_eq in H1. apply IH in H2. subst. reflexivity.
  - inversion H; subst. rewrite N.eqb_refl. apply IH. reflexivity.
Qed.
Lemma str_eqb_neq a b : str_eqb a b = false <-> a <> b.
Proof.
  split.
  - intros H E. subst. rewrite str_eqb_refl in H. discriminate.
  - intros H. destruct (str_eqb a b) eqn:E; [|reflexivity]. apply str_eqb_eq in E. contradiction.
Qed.
Lemma toks_eqb_eq a : forall b, toks_eqb a b = true <-> a = b.
Proof.
  induction a as [|x a IH]; intros [|y b]; cbn [toks_eqb]; split; intros H; try reflexivity; try discriminate.
  - apply andb_true_iff in H. destruct H as [H1 H2]. apply str_eqb_eq in H1. apply IH in H2. subst. reflexivity.
  - inversion H; subst. rewrite str_eqb_refl. apply IH. reflexivity.
Qed.
Lemma mem_toks_In t seen : mem_toks t seen = true <-> In t seen.
Proof.
  unfold mem_toks. rewrite existsb_exists. split.
  - intros (x & Hx & E). apply toks_eqb_eq in E. subst. assumption.
  - intros H. exists t. split; [assumption|]. apply toks_eqb_eq. reflexivity.
Qed.
Lemma mem_str_In x l : mem_str x l = true <-> In x l.
Proof.
  unfold mem_str. rewrite existsb_exists. split.
  - intros (y & Hy & E). apply str_eqb_eq in E. subst. assumption.
  - intros H. exists x. split; [assumption|]. apply str_eqb_refl.
Qed.

(* ---------------------------------------------------------------- lstrip *)
Lemma lstrip_ws_app p s : all_ws p -> lstrip (p ++ s) = lstrip s.
Proof. induction 1 as [|c p Hc _ IH]; [reflexivity|]. cbn [app lstrip]. rewrite Hc. exact IH. Qed.
Lemma lstrip_all_ws p : all_ws p -> lstrip p = [].
Proof. intros H. rewrite <- (app_nil_r p). rewrite lstrip_ws_app by assumption. reflexivity. Qed.
Lemma lstrip_nonws c r : is_ws c = false -> lstrip (c :: r) = c :: r.
Proof. intros H. cbn [lstrip]. rewrite H. reflexivity. Qed.
Lemma lstrip_nil_all_ws s : lstrip s = [] -> all_ws s.
Proof.
  induction s as [|c s IH]; intros H; [constructor|]. cbn [lstrip] in H.
  destruct (is_ws c) eqn:E; [|discriminate]. constructor; [assumption|apply IH; assumption].
Qed.

(* ---------------------------------------------------------------- rstrip *)
Lemma rstrip_all_ws s : all_ws s -> rstrip s = [].
Proof. induction 1 as [|c s Hc _ IH]; [reflexivity|]. cbn [rstrip]. rewrite IH, Hc. reflexivity. Qed.
Lemma rstrip_app_ws s t : all_ws t -> rstrip (s ++ t) = rstrip s.
Proof.
  intros Ht. induction s as [|c s IH]; [cbn [app]; rewrite rstrip_all_ws by assumption; reflexivity|].
  cbn [app rstrip]. rewrite IH. reflexivity.
Qed.
Lemma rstrip_snoc s c : is_ws c = false -> rstrip (s ++ [c]) = s ++ [c].
Proof.
  intros Hc. induction s as [|a s IH]; [cbn [app rstrip]; rewrite Hc; reflexivity|].
  cbn [app rstrip]. rewrite IH. destruct (s ++ [c]) eqn:E; [destruct s; discriminate|reflexivity].
Qed.
Lemma rstrip_nil_all_ws s : rstrip s = [] -> all_ws s.
Proof.
  induction s as [|c s IH]; intros H; [constructor|]. cbn [rstrip] in H.
  destruct (rstrip s) eqn:E; [|discriminate]. destruct (is_ws c) eqn:Ec; [|discriminate].
  constructor; [assumption|apply IH; reflexivity].
Qed.

Lemma last_snoc (s : str) c d : last (s ++ [c]) d = c.
Proof. apply last_last. Qed.

Lemma trimmed_rstrip s : trimmed s -> rstrip s = s.
Proof.
  intros [->|[_ Hl]]; [reflexivity|].
  destruct s as [|x0 s0]; [reflexivity|].
  destruct (exists_last (l := x0 :: s0)) as (s' & c & E); [discriminate|].
  rewrite E in *. rewrite last_snoc in Hl. apply rstrip_snoc. assumption.
Qed.
Lemma trimmed_lstrip s : trimmed s -> lstrip s = s.
Proof. intros [->|[Hh _]]; [reflexivity|]. destruct s as [|c r]; [reflexivity|]. apply lstrip_nonws. exact Hh. Qed.

Lemma strip_pad g text trail : all_ws g -> all_ws trail -> trimmed text -> strip (g ++ text ++ trail) = text.
Proof.
  intros Hg Ht Hx. unfold strip. rewrite lstrip_ws_app by assumption.
  destruct text as [|c r].
  - cbn [app]. rewrite lstrip_all_ws by assumption. reflexivity.
  - destruct Hx as [Hx|[Hh Hl]]; [discriminate|]. cbn [hd] in Hh.
    change ((c :: r) ++ trail) with (c :: (r ++ trail)). rewrite lstrip_nonws by assumption.
    change (c :: r ++ trail) with ((c :: r) ++ trail). rewrite rstrip_app_ws by assumption.
    apply trimmed_rstrip. right. split; assumption.
Qed.

Lemma no_ws_last (t : str) : no_ws t -> t <> [] -> is_ws (last t 0) = false.
Proof.
  intros H Hne. destruct (exists_last Hne) as (s & c & ->). rewrite last_snoc.
  unfold no_ws in H. rewrite Forall_app in H. destruct H as [_ H]. inversion H; assumption.
Qed.
Lemma token_trimmed t : token t -> trimmed t.
Proof.
  intros [Hne H]. right. split; [|apply no_ws_last; assumption].
  destruct t as [|c r]; [congruence|]. inversion H; assumption.
Qed.

Lemma strip_nil_iff s : strip s = [] <-> lstrip s = [].
Proof.
  unfold strip. split; intros H; [|rewrite H; reflexivity].
  destruct s as [|c r]; [reflexivity|].
  apply rstrip_nil_all_ws in H. destruct (lstrip (c :: r)) as [|d q] eqn:E; [reflexivity|].
  exfalso. inversion H as [|? ? Hd _]; subst.
  (* the first char of lstrip is never white space *)
  clear H. revert E. generalize (c :: r). intros s0. induction s0 as [|x s0 IH]; cbn [lstrip]; [discriminate|].
  destruct (is_ws x) eqn:Ex; [exact IH|]. intros E. inversion E; subst. congruence.
Qed.
Lemma is_blank_lstrip l : is_blank l = match lstrip l with [] => true | _ => false end.
Proof.
  unfold is_blank. destruct (strip l) eqn:E.
  - apply strip_nil_iff in E. rewrite E. reflexivity.
  - destruct (lstrip l) eqn:E2; [|reflexivity]. apply strip_nil_iff in E2. congruence.
Qed.
Lemma is_blank_all_ws l : is_blank l = true <-> all_ws l.
Proof.
  rewrite is_blank_lstrip. split.
  - destruct (lstrip l) eqn:E; [|discriminate]. intros _. apply lstrip_nil_all_ws. assumption.
  - intros H. rewrite lstrip_all_ws by assumption. reflexivity.
Qed.

(* ---------------------------------------------------------------- split_ws *)
Lemma split_ws_lead p s : all_ws p -> split_ws (p ++ s) [] = split_ws s [].
Proof. induction 1 as [|c p Hc _ IH]; [reflexivity|]. cbn [app split_ws]. rewrite Hc. exact IH. Qed.
Lemma split_token_acc t : no_ws t -> forall rest cur, split_ws (t ++ rest) cur = split_ws rest (rev t ++ cur).
Proof.
  induction 1 as [|c t Hc _ IH]; intros rest cur; [reflexivity|].
  cbn [app split_ws]. rewrite Hc. rewrite IH. cbn [rev]. rewrite <- app_assoc. reflexivity.
Qed.
Lemma split_token_ws t w rest : token t -> is_ws w = true ->
  split_ws (t ++ w :: rest) [] = t :: split_ws rest [].
Proof.
  intros [Hne Ht] Hw. rewrite (split_token_acc t Ht). rewrite app_nil_r. cbn [split_ws]. rewrite Hw.
  destruct (rev t) eqn:E.
  - apply (f_equal (@rev N)) in E. rewrite rev_involutive in E. cbn in E. congruence.
  - rewrite <- E, rev_involutive. reflexivity.
Qed.
Lemma split_token_end t : token t -> split_ws t [] = [t].
Proof.
  intros [Hne Ht]. rewrite <- (app_nil_r t) at 1. rewrite (split_token_acc t Ht). rewrite app_nil_r. cbn [split_ws].
  destruct (rev t) eqn:E.
  - apply (f_equal (@rev N)) in E. rewrite rev_involutive in E. cbn in E. congruence.
  - rewrite <- E, rev_involutive. reflexivity.
Qed.

Lemma split_glue cells : wf_cells cells -> split_ws (glue cells) [] = map fst cells.
Proof.
  induction cells as [|[t g] r IH]; intros H; [reflexivity|].
  cbn [wf_cells] in H. destruct H as (Ht & Hg & Hne & Hr). cbn [glue map fst].
  destruct g as [|w g'].
  - destruct r as [|x r']; [|exfalso; apply Hne; [discriminate|reflexivity]].
    cbn [glue app]. rewrite app_nil_r. apply split_token_end. assumption.
  - inversion Hg as [|? ? Hw Hg']; subst. cbn [app].
    rewrite (split_token_ws t w _ Ht Hw). rewrite split_ws_lead by assumption. rewrite IH by assumption. reflexivity.
Qed.

Lemma split_ws_lstrip s : split_ws (lstrip s) [] = split_ws s [].
Proof. induction s as [|c s IH]; [reflexivity|]. cbn [lstrip split_ws]. destruct (is_ws c) eqn:E; [exact IH|]. cbn [split_ws]. rewrite E. reflexivity. Qed.
Lemma split_ws_all_ws s : all_ws s -> split_ws s [] = [].
Proof. intros H. rewrite <- (app_nil_r s). rewrite split_ws_lead by assumption. reflexivity. Qed.
Lemma split_ws_rstrip s : forall cur, split_ws (rstrip s) cur = split_ws s cur.
Proof.
  induction s as [|c s IH]; intros cur; [reflexivity|]. cbn [rstrip].
  destruct (rstrip s) as [|d q] eqn:E.
  - assert (Hs : all_ws s) by (apply rstrip_nil_all_ws; assumption).
    destruct (is_ws c) eqn:Ec.
    + cbn [split_ws]. rewrite Ec. rewrite split_ws_all_ws by assumption. destruct cur; reflexivity.
    + cbn [split_ws]. rewrite Ec. rewrite <- IH. reflexivity.
  - cbn [split_ws]. destruct (is_ws c); [destruct cur|]; rewrite <- IH; reflexivity.
Qed.
Lemma split_ws_strip s : split_ws (strip s) [] = split_ws s [].
Proof. unfold strip. rewrite split_ws_rstrip. apply split_ws_lstrip. Qed.

(* ---------------------------------------------------------------- classification of laid-out lines *)
Lemma is_hdr_lead_hash lead rest : all_ws lead -> is_hdr (lead ++ c_hash :: rest) = true.
Proof. intros H. unfold is_hdr. rewrite lstrip_ws_app by assumption. rewrite lstrip_nonws by reflexivity. reflexivity. Qed.
Lemma lstrip_lead_hash lead rest : all_ws lead -> lstrip (lead ++ c_hash :: rest) = c_hash :: rest.
Proof. intros H. rewrite lstrip_ws_app by assumption. apply lstrip_nonws. reflexivity. Qed.

Lemma is_hdr_lead_token lead t rest : all_ws lead -> token t -> nohash t -> is_hdr (lead ++ t ++ rest) = false.
Proof.
  intros Hl [Hne Ht] Hh. unfold is_hdr. rewrite lstrip_ws_app by assumption.
  destruct t as [|c t']; [congruence|]. inversion Ht; subst. cbn [app]. rewrite lstrip_nonws by assumption.
  cbn [starts_with]. cbn [nohash] in Hh. destruct (N.eqb_spec c_hash c); [congruence|reflexivity].
Qed.
Lemma is_blank_lead_token lead t rest : all_ws lead -> token t -> is_blank (lead ++ t ++ rest) = false.
Proof.
  intros Hl [Hne Ht]. rewrite is_blank_lstrip. rewrite lstrip_ws_app by assumption.
  destruct t as [|c t']; [congruence|]. inversion Ht; subst. cbn [app]. rewrite lstrip_nonws by assumption. reflexivity.
Qed.
Lemma is_hdr_blank l : is_blank l = true -> is_hdr l = false.
Proof. rewrite is_blank_lstrip. unfold is_hdr. destruct (lstrip l); [reflexivity|discriminate]. Qed.
