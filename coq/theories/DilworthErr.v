(* Dilworth for MinPathCover composed with the kMinPathError end-to-end theorem. *)
From Coq Require Import List NArith ZArith QArith Bool Arith Lia.
Import ListNotations.
From FP Require Import Lin PathEnc PathEncComplete PathCoverComplete Aug EndToEnd1 EndToEnd2 EndToEnd3 EndToEndCover Search Dilworth.
Local Close Scope Q_scope.
Local Open Scope nat_scope.

(* composed with EndToEndErr: kMinPathError is feasible for every k from the width of the edge set on *)
From FP Require Import ErrEnc EndToEndErr.
Theorem kmpe_feasible_from_width
    (V : list node) (E : list PathEnc.edge) (s t : node) (Pa Sa : list (node * list node)) (topo : list node)
    (feasible : nat -> bool) (lb : nat) (sts : list raw)
    (f : PathEnc.edge -> Z) (ign : list PathEnc.edge) (scale : list (PathEnc.edge * Q)) :
  NoDup V -> (forall e, In e E -> In (fst e) V /\ In (snd e) V) -> ~ In s V -> ~ In t V -> s <> t ->
  Peel.peel_inputs_ok E Pa Sa topo = true ->
  (forall k, feasible k = true <-> exists a, sat a (encode_kpc (cover_inst V E s t k) (synth V E s t))) ->
  (forall i, i < S (length E) - lb -> exists x, nth_error sts i = Some x /\
             status_of x = if feasible (lb + i) then Optimal else Infeasible) ->
  (forall k, k < lb -> feasible k = false) ->
  (forall e, In e E -> (0 <= f e)%Z) -> (forall es, In es scale -> (0 <= snd es <= 1)%Q) ->
  (exists e, In e E /\ mem_edge e ign = false /\ mem_edge e (map fst (filter (fun es => Qeq_bool (snd es) 0) scale)) = false) ->
  exists w,
    (exists A', NoDup A' /\ incl A' E /\ incompatible_in (aug_edges V E [] [] s t) A' /\ length A' = w) /\
    (forall A', NoDup A' -> incl A' E -> incompatible_in (aug_edges V E [] [] s t) A' -> length A' <= w) /\
    forall k, w <= k -> exists a, sat a (encode_kmpe (e2e_kmpe_inst V E s t f ign scale [] 1%Q k)).
Proof.
  intros NDV HE Hs Ht Hst Hok Hspec Hsts Hlb Hnn Hsc Hsome.
  destruct (minpathcover_returns_the_width V E s t Pa Sa topo feasible lb sts NDV HE Hs Ht Hst Hok Hspec Hsts Hlb) as (w & Hres & Hw1 & Hw2).
  destruct (kmpe_feasible_from_minpathcover V E s t Pa Sa topo feasible lb sts f ign scale NDV HE Hs Ht Hst Hok Hspec Hsts Hlb Hnn Hsc Hsome)
    as (k2 & Hres2 & Hfe).
  rewrite Hres in Hres2. injection Hres2 as <-.
  exists w. split; [exact Hw1|]. split; [exact Hw2|exact Hfe].
Qed.
