(* FillSpec — declarative specification of NodeExpandedDiGraph._try_filling_in_missing_flow_values and a
   verified certificate checker for its result (C11).

   What the code does (nodeexpandeddigraph.py): on the expanded graph plus a super source S (edges S -> v.0 for
   every node v of in-degree 0 of the ORIGINAL graph) and a super sink T (v.1 -> T for out-degree 0) it asks
   networkx (via graphutils.min_cost_flow; external engine) for a flow with lower bound = capacity = the value
   on every edge that carries the attribute (the weighted node edges; a connecting edge only if the caller's
   edge carried a decoy value), bounds [0, inf) on every other edge, conserving at every node except S and T.
   If one exists, EVERY edge of the expanded graph without the attribute (unweighted node edges AND connecting
   edges AND the synthetic global source/sink edges, which can only carry 0) receives its flow value; if none
   exists (min_cost_flow returns None) nothing is filled.

   In the caller's terms (nodes interned as N, values in Q): a filling x : node -> Q with the connecting-edge
   flows y : edge -> Q as certificate is exactly a NODE FLOW (NodeMefE2E.node_flow_w: x, y >= 0, inflow = x v
   where v has in-edges, x v = outflow where it has out-edges) that agrees with the given values. *)
From Coq Require Import List NArith ZArith QArith Lqa Bool Arith Lia.
Import ListNotations.
From FP Require Import Lin PathEnc MiscEnc NodeMefE2E.
Set Default Timeout 60.
Local Open Scope Q_scope.

(* ------------------------------------------------------------------ specification *)
Definition fill_extends (V : list node) (given : node -> option Q) (x : node -> Q) : Prop :=
  forall v g, In v V -> given v = Some g -> x v == g.
(* x is an admissible result of the filling: a node flow of the caller's graph that keeps every given value *)
Definition fill_spec (V : list node) (E : list edge) (given : node -> option Q) (x : node -> Q) : Prop :=
  node_flow V E false x /\ fill_extends V given x.
(* the full contract of _try_filling_in_missing_flow_values: Some x = what it wrote, None = it filled nothing *)
Definition fill_contract (V : list node) (E : list edge) (given : node -> option Q) (res : option (node -> Q)) : Prop :=
  match res with
  | Some x => fill_spec V E given x
  | None => ~ exists x, fill_spec V E given x
  end.

(* ------------------------------------------------------------------ the checker (executable, extracted) *)
Fixpoint fs_lookup_n (v : node) (l : list (node * Q)) : option Q :=
  match l with [] => None | (u, q) :: r => if (u =? v)%N then Some q else fs_lookup_n v r end.
Definition fs_fun_n (l : list (node * Q)) (v : node) : Q := match fs_lookup_n v l with Some q => q | None => 0 end.
Definition fs_fun_e (l : list (edge * Q)) (e : edge) : Q := lookup_q e l 0.

Definition fill_node_ok_b (E : list edge) (given : node -> option Q) (x : node -> Q) (y : edge -> Q) (v : node) : bool :=
  Qle_bool 0 (x v)
  && (match given v with Some g => Qeq_bool (x v) g | None => true end)
  && (match mef_in_edges E v with [] => true | l => Qeq_bool (sumq y l) (x v) end)
  && (match out_edges E v with [] => true | l => Qeq_bool (x v) (sumq y l) end).

Definition fill_certificate_ok_fun_b (V : list node) (E : list edge) (given : node -> option Q) (x : node -> Q) (y : edge -> Q) : bool :=
  forallb (fun e => Qle_bool 0 (y e)) E && forallb (fill_node_ok_b E given x y) V.

(* wire-level version: association lists; a node missing from [filled] counts as 0 and is then rejected unless 0 fits *)
Definition fill_certificate_ok_b (V : list node) (E : list edge) (given filled : list (node * Q)) (y : list (edge * Q)) : bool :=
  forallb (fun v => match fs_lookup_n v filled with Some _ => true | None => false end) V
  && fill_certificate_ok_fun_b V E (fun v => fs_lookup_n v given) (fs_fun_n filled) (fs_fun_e y).

(* ------------------------------------------------------------------ soundness *)
Theorem fill_certificate_fun_sound V E given x y :
  fill_certificate_ok_fun_b V E given x y = true -> node_flow_w V E false x y /\ fill_extends V given x.
Proof.
  unfold fill_certificate_ok_fun_b. rewrite andb_true_iff, !forallb_forall. intros [Hy Hv].
  assert (Hn : forall v, In v V -> 0 <= x v /\ (forall g, given v = Some g -> x v == g) /\
                                  (mef_in_edges E v <> [] -> sumq y (mef_in_edges E v) == x v) /\
                                  (out_edges E v <> [] -> x v == sumq y (out_edges E v))).
  { intros v Hin. specialize (Hv v Hin). unfold fill_node_ok_b in Hv. rewrite !andb_true_iff in Hv.
    destruct Hv as [[[H1 H2] H3] H4]. apply Qle_bool_iff in H1. split; [exact H1|]. split; [|split].
    - intros g Hg. rewrite Hg in H2. now apply Qeq_bool_iff in H2.
    - intros Hne. destruct (mef_in_edges E v); [congruence|]. now apply Qeq_bool_iff in H3.
    - intros Hne. destruct (out_edges E v); [congruence|]. now apply Qeq_bool_iff in H4. }
  split.
  - split; [|split].
    + intros e He. split; [apply Qle_bool_iff; now apply Hy|discriminate].
    + intros v Hin. split; [apply (Hn v Hin)|discriminate].
    + intros v Hin. destruct (Hn v Hin) as (_ & _ & H3 & H4). split; assumption.
  - intros v g Hin Hg. destruct (Hn v Hin) as (_ & H2 & _). now apply H2.
Qed.

(* the checker accepts => the filled values are a node flow extending the given ones: exactly a graph on which the
   node-mode flow models are applicable *)
Theorem fill_certificate_sound V E given filled y :
  fill_certificate_ok_b V E given filled y = true ->
  fill_spec V E (fun v => fs_lookup_n v given) (fs_fun_n filled) /\
  (forall v, In v V -> exists q, fs_lookup_n v filled = Some q).
Proof.
  unfold fill_certificate_ok_b. rewrite andb_true_iff, forallb_forall. intros [Hall Hc].
  apply fill_certificate_fun_sound in Hc. destruct Hc as [Hw Hx]. split.
  - split; [exists (fs_fun_e y); exact Hw|exact Hx].
  - intros v Hin. specialize (Hall v Hin). destruct (fs_lookup_n v filled) as [q|]; [eauto|discriminate].
Qed.

(* the success half of the contract *)
Corollary fill_contract_success V E given filled y :
  fill_certificate_ok_b V E given filled y = true ->
  fill_contract V E (fun v => fs_lookup_n v given) (Some (fs_fun_n filled)).
Proof. intros H. exact (proj1 (fill_certificate_sound V E given filled y H)). Qed.

(* completeness of the checker w.r.t. the function-level statement (so a rejected certificate really is not one) *)
Theorem fill_certificate_fun_complete V E given x y :
  node_flow_w V E false x y -> fill_extends V given x -> fill_certificate_ok_fun_b V E given x y = true.
Proof.
  intros (Hy & Hx & Hc) He. unfold fill_certificate_ok_fun_b. rewrite andb_true_iff, !forallb_forall. split.
  - intros e Hin. apply Qle_bool_iff. apply (Hy e Hin).
  - intros v Hin. unfold fill_node_ok_b. rewrite !andb_true_iff. destruct (Hc v Hin) as [H3 H4]. repeat split.
    + apply Qle_bool_iff. apply (Hx v Hin).
    + destruct (given v) as [g|] eqn:Eg; [|reflexivity]. apply Qeq_bool_iff. now apply (He v g).
    + destruct (mef_in_edges E v) eqn:El; [reflexivity|]. apply Qeq_bool_iff. rewrite <- El in *. apply H3. rewrite El. discriminate.
    + destruct (out_edges E v) eqn:El; [reflexivity|]. apply Qeq_bool_iff. rewrite <- El in *. apply H4. rewrite El. discriminate.
Qed.

(* ------------------------------------------------------------------ a worked instance: chain a(5) -> b(?) -> c(5) *)
Definition fs_V : list node := [0; 1; 2]%N.
Definition fs_E : list edge := [(0, 1); (1, 2)]%N.
Definition fs_given : list (node * Q) := [(0%N, 5); (2%N, 5)].

Lemma fs_chain_accepts : fill_certificate_ok_b fs_V fs_E fs_given [(0%N, 5); (1%N, 5); (2%N, 5)] [((0, 1)%N, 5); ((1, 2)%N, 5)] = true.
Proof. vm_compute. reflexivity. Qed.
Lemma fs_chain_rejects_changed_value : fill_certificate_ok_b fs_V fs_E fs_given [(0%N, 5); (1%N, 6); (2%N, 5)] [((0, 1)%N, 5); ((1, 2)%N, 5)] = false.
Proof. vm_compute. reflexivity. Qed.
(* b can only be filled with 5 *)
Lemma fs_chain_unique x : fill_spec fs_V fs_E (fun v => fs_lookup_n v fs_given) x -> x 1%N == 5.
Proof.
  intros [[y (Hy & Hx & Hc)] He].
  assert (Ha : x 0%N == 5) by (apply (He 0%N 5); [cbn; auto|reflexivity]).
  destruct (Hc 0%N) as [_ H0]; [cbn; auto|]. destruct (Hc 1%N) as [H1 _]; [cbn; auto|].
  cbn in H0, H1. specialize (H0 ltac:(discriminate)). specialize (H1 ltac:(discriminate)). lra.
Qed.
(* a(5) -> b(?) -> c(3) cannot be filled: the failure half of the contract holds with res = None *)
Lemma fs_chain_infeasible : fill_contract fs_V fs_E (fun v => fs_lookup_n v [(0%N, 5); (2%N, 3)]) None.
Proof.
  intros [x [[y (Hy & Hx & Hc)] He]].
  assert (Ha : x 0%N == 5) by (apply (He 0%N 5); [cbn; auto|reflexivity]).
  assert (Hcc : x 2%N == 3) by (apply (He 2%N 3); [cbn; auto|reflexivity]).
  destruct (Hc 0%N) as [_ H0]; [cbn; auto|]. destruct (Hc 1%N) as [H1 H1']; [cbn; auto|]. destruct (Hc 2%N) as [H2 _]; [cbn; auto|].
  cbn in H0, H1, H1', H2. specialize (H0 ltac:(discriminate)). specialize (H1 ltac:(discriminate)).
  specialize (H1' ltac:(discriminate)). specialize (H2 ltac:(discriminate)). lra.
Qed.
