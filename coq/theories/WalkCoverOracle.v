(* A VERIFIED exhaustive oracle for minimum walk covers of small instances of the cyclic cover classes: the least number of source-to-sink
   walks, each passing every edge at most c times, that together pass every edge of X.  Reuses the exhaustive walk enumeration of
   WalkOracle.v (walks_from with the uniform capacity c).  With c >= |X| + 2 the bound loses nothing: by WalkWidthCaps.bounded_walk_cover
   a minimum cover exists in which no walk passes an edge more than |X| + 2 times, so the oracle returns the walk width. *)
From Coq Require Import List NArith ZArith Bool Arith Lia.
Import ListNotations.
From FP Require Import Lin PathEnc Euler EulerProofs1 EulerProofs4 PathEncComplete Dilworth WalkOracle.
From FP Require WalkWidth WalkWidthCaps.
Set Default Timeout 60.
Local Open Scope nat_scope.

Fixpoint first_true (P : nat -> bool) (n k : nat) : option nat :=
  match n with O => None | S n' => if P k then Some k else first_true P n' (S k) end.
Lemma first_true_spec P : forall n k, match first_true P n k with
  | Some j => k <= j < k + n /\ P j = true /\ forall i, k <= i < j -> P i = false
  | None => forall i, k <= i < k + n -> P i = false end.
Proof.
  induction n as [|n IH]; intros k; cbn [first_true]; [intros i Hi; lia|]. destruct (P k) eqn:Q.
  - split; [lia|]. split; [exact Q|intros i Hi; lia].
  - specialize (IH (S k)). destruct (first_true P n (S k)) as [j|].
    + destruct IH as (H1 & H2 & H3). split; [lia|]. split; [exact H2|]. intros i Hi. destruct (Nat.eq_dec i k) as [->|Hne]; [exact Q|apply H3; lia].
    + intros i Hi. destruct (Nat.eq_dec i k) as [->|Hne]; [exact Q|apply IH; lia].
Qed.


Lemma walks_from_caps E t : forall fuel cap v P, In P (walks_from E t cap fuel v) -> forall e, count_e e (pairs P) <= cap e.
Proof.
  induction fuel as [|n IH]; intros cap v P H e; [destruct H|]. cbn [walks_from] in H. apply in_app_or in H. destruct H as [H|H].
  - destruct (v =? t)%N; [|destruct H]. destruct H as [<-|[]]. cbn. lia.
  - apply in_flat_map in H. destruct H as (e0 & He0 & H). destruct ((fst e0 =? v)%N && (0 <? cap e0)) eqn:Q; [|destruct H].
    apply andb_true_iff in Q. destruct Q as [Q1 Q2]. apply N.eqb_eq in Q1. apply Nat.ltb_lt in Q2. apply in_map_iff in H. destruct H as (P' & <- & HP').
    pose proof (IH _ _ _ HP' e) as Hc. destruct (walks_from_sound E t n (dec cap e0) (snd e0) P' HP') as (Hh & _ & _).
    destruct P' as [|u m]; [discriminate|]. cbn in Hh. injection Hh as ->. rewrite pairs_cons2. cbn [count_e]. unfold dec in Hc.
    destruct e0 as [a b]. cbn [fst snd] in *. subst a. destruct (eqe (v, b) e) eqn:Q3.
    + apply eqe_true in Q3. subst e. rewrite (proj2 (edge_eqb_eq _ _) eq_refl) in Hc. lia.
    + destruct (edge_eqb e (v, b)) eqn:Q4; [apply edge_eqb_eq in Q4; subst e; rewrite (proj2 (eqe_true _ _) eq_refl) in Q3; discriminate|lia].
Qed.

Section CoverOracle.
  Variable E : list PathEnc.edge.
  Variables s t : node.
  Variable X : list PathEnc.edge.          (* the edges to be covered *)
  Variable c : nat.                        (* how often a walk may pass an edge *)

  Definition cwalks : list (list node) := walks_from E t (fun _ => c) (S (tot E (fun _ => c))) s.
  Definition uses (p : list node) (e : PathEnc.edge) : bool := mem_edge e (pairs p).
  Fixpoint csearch (k : nat) (need : list PathEnc.edge) : bool :=
    match k with
    | O => match need with [] => true | _ => false end
    | S k' => existsb (fun p => csearch k' (filter (fun e => negb (uses p e)) need)) cwalks
    end.
  Definition min_wcover (kmax : nat) : option nat := first_true (fun k => csearch k X) (S kmax) 0.

  Definition cwalk (p : list node) : Prop :=
    hd_error p = Some s /\ last p s = t /\ incl (pairs p) E /\ forall e, count_e e (pairs p) <= c.
  Definition ccover (l : list (list node)) : Prop :=
    (forall p, In p l -> cwalk p) /\ forall e, In e X -> exists p, In p l /\ In e (pairs p).

  Lemma cwalks_spec p : In p cwalks -> hd_error p = Some s /\ last p s = t /\ incl (pairs p) E.
  Proof. apply walks_from_sound. Qed.
  Lemma cwalk_in p : cwalk p -> In p cwalks.
  Proof.
    intros (Hh & Hl & Hi & Hc). destruct p as [|a m]; [discriminate|]. cbn in Hh. injection Hh as ->.
    unfold cwalks. apply walks_from_complete; try assumption. lia.
  Qed.

  Lemma csearch_spec : forall k need, csearch k need = true <->
    exists l, length l = k /\ incl l cwalks /\ forall e, In e need -> exists p, In p l /\ In e (pairs p).
  Proof.
    induction k as [|k IH]; intros need; cbn [csearch].
    - split.
      + destruct need; [|discriminate]. intros _. exists []. split; [reflexivity|]. split; [intros x []|intros e []].
      + intros (l & Hl & _ & H). destruct l; [|discriminate]. destruct need as [|e r]; [reflexivity|]. destruct (H e (or_introl eq_refl)) as (p & [] & _).
    - rewrite existsb_exists. split.
      + intros (p & Hp & Q). apply IH in Q. destruct Q as (l & Hl & Hin & H). exists (p :: l). split; [cbn; lia|].
        split; [intros x [<-|Hx]; [exact Hp|apply Hin; exact Hx]|]. intros e He. destruct (uses p e) eqn:U.
        * exists p. split; [left; reflexivity|apply mem_edge_In; exact U].
        * destruct (H e) as (q & Hq & Hqe); [apply filter_In; split; [exact He|rewrite U; reflexivity]|]. exists q. split; [right; exact Hq|exact Hqe].
      + intros (l & Hl & Hin & H). destruct l as [|p l]; [discriminate|]. exists p. split; [apply Hin; left; reflexivity|]. apply IH.
        exists l. split; [cbn in Hl; lia|]. split; [intros x Hx; apply Hin; right; exact Hx|].
        intros e He. apply filter_In in He. destruct He as [He U]. apply negb_true_iff in U. destruct (H e He) as (q & [<-|Hq] & Hqe).
        * exfalso. apply mem_edge_In in Hqe. unfold uses in U. congruence.
        * exists q. split; assumption.
  Qed.

  (* the least number of walks, each within the capacity c, that cover X *)
  Theorem min_wcover_correct kmax :
    match min_wcover kmax with
    | Some k => k <= kmax /\ (exists l, ccover l /\ length l = k) /\ (forall l, ccover l -> k <= length l)
    | None => forall l, ccover l -> kmax < length l
    end.
  Proof.
    assert (Hcap : forall p, In p cwalks -> forall e, count_e e (pairs p) <= c) by (intros p Hp e; exact (walks_from_caps E t _ _ s p Hp e)).
    unfold min_wcover. pose proof (first_true_spec (fun k => csearch k X) (S kmax) 0) as H.
    assert (Hup : forall l, ccover l -> csearch (length l) X = true).
    { intros l [Hw Hc]. apply csearch_spec. exists l. split; [reflexivity|]. split; [intros p Hp; apply cwalk_in; apply Hw; exact Hp|exact Hc]. }
    destruct (first_true _ (S kmax) 0) as [k|].
    - destruct H as (H1 & H2 & H3). split; [lia|]. split.
      + apply csearch_spec in H2. destruct H2 as (l & Hl & Hin & Hc). exists l. split; [|exact Hl]. split; [|exact Hc].
        intros p Hp. destruct (cwalks_spec p (Hin p Hp)) as (A & B & C). split; [exact A|]. split; [exact B|]. split; [exact C|exact (Hcap p (Hin p Hp))].
      + intros l Hl. pose proof (Hup l Hl) as S'. destruct (Nat.lt_ge_cases (length l) k) as [Hlt|Hge]; [rewrite (H3 (length l) ltac:(lia)) in S'; discriminate|lia].
    - intros l Hl. pose proof (Hup l Hl) as S'. destruct (Nat.lt_ge_cases kmax (length l)) as [Hlt|Hge]; [lia|]. rewrite (H (length l) ltac:(lia)) in S'. discriminate.
  Qed.
End CoverOracle.

(* with a capacity of at least |X| + 2 the oracle returns the walk width: the least number of s-t walks of ANY multiplicities covering X *)
Theorem min_wcover_is_walk_width (E : list PathEnc.edge) (s t : node) (X : list PathEnc.edge) (c kmax : nat) :
  (forall u v, In (u, v) E -> conn E s u /\ conn E v t) -> NoDup X -> incl X E -> length X + 2 <= c ->
  match min_wcover E s t X c kmax with
  | Some k => k <= kmax /\
              (exists A', NoDup A' /\ incl A' X /\ WalkWidth.walk_incompatible E A' /\ length A' = k) /\
              (exists W, length W = k /\ (forall l, In l W -> WalkWidth.st_walk E s t l) /\ (forall e, In e X -> exists l, In l W /\ In e (pairs l))) /\
              (forall W, (forall l, In l W -> WalkWidth.st_walk E s t l) -> (forall e, In e X -> exists l, In l W /\ In e (pairs l)) -> k <= length W)
  | None => forall W, (forall l, In l W -> WalkWidth.st_walk E s t l) -> (forall e, In e X -> exists l, In l W /\ In e (pairs l)) -> kmax < length W
  end.
Proof.
  intros Hst NDX HX Hc.
  destruct (WalkWidthCaps.bounded_walk_cover E s t Hst X NDX HX) as (W0 & A' & HW0 & Hcov0 & NDA & HA & Hinc & Hlen & Hb).
  assert (Hcc : ccover E s t X c W0).
  { split; [|exact Hcov0]. intros p Hp. destruct (HW0 p Hp) as (A & B & C). split; [exact A|]. split; [exact B|]. split; [exact C|].
    intros e. specialize (Hb p e Hp). lia. }
  assert (Hwd : forall W, (forall l, In l W -> WalkWidth.st_walk E s t l) -> (forall e, In e X -> exists l, In l W /\ In e (pairs l)) -> length A' <= length W).
  { intros W HW Hcov. apply (WalkWidth.walk_cover_needs_width_many_walks E W A' NDA Hinc).
    - intros l Hl. exact (proj2 (proj2 (HW l Hl))).
    - intros e He. apply Hcov. apply HA. exact He. }
  pose proof (min_wcover_correct E s t X c kmax) as H. destruct (min_wcover E s t X c kmax) as [k|].
  - destruct H as (H1 & (l & [Hlw Hlc] & Hll) & H3). split; [exact H1|].
    assert (HlW : forall p, In p l -> WalkWidth.st_walk E s t p) by (intros p Hp; destruct (Hlw p Hp) as (A & B & C & _); split; [exact A|split; assumption]).
    assert (Ek : length A' = k).
    { pose proof (H3 W0 Hcc). pose proof (Hwd l HlW Hlc). lia. }
    split; [exists A'; auto|]. split; [exists l; auto|]. intros W HW Hcov. rewrite <- Ek. exact (Hwd W HW Hcov).
  - intros W HW Hcov. pose proof (H W0 Hcc). pose proof (Hwd W HW Hcov). lia.
Qed.

(* executable form for the engine: capacity |X| + 2 *)
Definition min_wcover_model (E : list PathEnc.edge) (s t : node) (X : list PathEnc.edge) (kmax : nat) : option nat :=
  min_wcover E s t X (length X + 2) kmax.

(* non-vacuity: the 2-cycle with a tail 0 -> 1 <-> 2 -> 3 -> 4 (WalkWidth.cyE): one walk covers every edge *)
Example two_cycle_cover_oracle : min_wcover_model WalkWidth.cyE 0%N 4%N [(1, 2); (2, 1); (2, 3)]%N 3 = Some 1.
Proof. vm_compute. reflexivity. Qed.
