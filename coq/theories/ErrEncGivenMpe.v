(* kMinPathError with solution_weights_superset (given-weights variant of ErrEnc.encode_kmpe, no path-length
   factors, no subpath constraints): layer i carries the constant weight ws[i] and may be empty, at most k_orig
   layers are used.  Decoding, completeness and optimality relative to the solver specification. *)
From Coq Require Import List NArith ZArith QArith Qabs Qround Lqa Bool Arith Lia Permutation.
Import ListNotations.
From FP Require Import Lin Blocks BlocksProofs PathEnc Aug AugProofs Euler EulerProofs1 EulerProofs2 EulerProofs4 DagDecode
                       PathEncProofs PathEncComplete PathCoverComplete PathEncGiven PathEncGivenComplete
                       ErrEnc ErrEncProofs ErrEncProofs3 ErrEncComplete ErrEncOptimal ErrEncKlae ErrEncGiven.
Set Default Timeout 120.
Local Open Scope Q_scope.

Definition gexpl (ws : list Q) (P : N -> list node) (e : PathEnc.edge) : Q :=
  sumq (fun iw => snd iw * onq P (fst iw) e) (zipn 0 ws).

Definition kmpe_given_choice (M : kmpe_inst) (ws : list Q) (P : N -> list node) (sl : N -> Q) : Prop :=
  let I := m_err M in
  given_layers (eG I) (eK I) P /\
  (sumz (used P) (layers (eK I)) <= Z.of_nat (e_korig I))%Z /\
  (forall i, In i (layers (eK I)) -> 0 <= sl i <= w_max I /\ (e_int I = true -> is_int (sl i))) /\
  (forall e, In e (basic_edges I) ->
     Qabs (scale_of I e * (flow_of I e - gexpl ws P e)) <= sumq (fun i => sl i * onq P i e) (layers (eK I))).

Definition gmasg (M : kmpe_inst) (P : N -> list node) (sl : N -> Q) (x : var) : Q :=
  let G := eG (m_err M) in
  match vidx x with
  | [u; v; i] => if (vfam x =? fEdge)%N then onq P i (u, v)
                 else if (vfam x =? fGamma)%N then sl i * onq P i (u, v)
                 else if (vfam x =? fPos)%N then sumq (fun e' => plen M e' * onq P i e') (rev_edges G u)
                 else 0
  | [p; q] => if (vfam x =? fR)%N then indq (p =? 0)%N else 0
  | [i] => if (vfam x =? fSlack)%N then sl i
           else if (vfam x =? fLen)%N then sumq (fun e' => plen M e' * onq P i e') (g_edges G)
           else 0
  | _ => 0
  end.

Lemma gmasg_agrees M P sl v : vfam v = fEdge \/ vfam v = fR -> asg P (fun _ => 0) (fun _ => 0%N) v = gmasg M P sl v.
Proof.
  intros H. unfold asg, gmasg, onq, on. destruct v as [f idx]. cbn [vfam vidx] in *.
  destruct H as [-> | ->]; destruct idx as [|a [|b [|c [|d r]]]]; reflexivity.
Qed.

(* the encoded length of an empty or simple layer is within the bound of the Pos / Len columns *)
Lemma len_bound_layer (M : kmpe_inst) (P : N -> list node) i :
  wf_graph (eG (m_err M)) -> lengths_ok M ->
  (P i = [] \/ (hd_error (P i) = Some (g_src (eG (m_err M))) /\ last (P i) (g_src (eG (m_err M))) = g_snk (eG (m_err M)) /\
               NoDup (P i) /\ incl (pairs (P i)) (g_edges (eG (m_err M))))) ->
  sumq (fun e' => plen M e' * onq P i e') (g_edges (eG (m_err M))) <= max_length M.
Proof.
  intros WF Hpl HPi. set (G := eG (m_err M)) in *.
  unfold max_length. fold G. destruct (m_len M) eqn:EL.
  - assert (E : forall l0, (forall e, In e l0 -> In e (g_edges G)) ->
                sumq (fun e' => plen M e' * onq P i e') l0 <= fold_right (fun e s => plen M e + s) 0 l0).
    { induction l0 as [|e l0 IH]; intros Hsub; cbn [sumq fold_right]; [apply Qle_refl|].
      pose proof (Hpl e (Hsub e (or_introl eq_refl))) as [P0 _]. pose proof (onq01 P i e) as O.
      assert (IH' : sumq (fun e' => plen M e' * onq P i e') l0 <= fold_right (fun e s => plen M e + s) 0 l0)
        by (apply IH; intros e' He'; apply Hsub; right; exact He').
      assert (H2 : 0 <= plen M e * (1 - onq P i e)) by (apply Qmult_le_0_compat; lra). lra. }
    apply E. intros e He. exact He.
  - assert (E : sumq (fun e' => plen M e' * onq P i e') (g_edges G) == sumq (fun e' => onq P i e') (g_edges G)).
    { apply sumq_ext. intros e _. unfold plen. rewrite EL. ring. }
    rewrite E. destruct HPi as [E0|(Hh & Hl & ND & Hin)].
    + assert (Z0 : sumq (fun e' => onq P i e') (g_edges G) == 0).
      { unfold onq. rewrite E0. cbn [pairs]. generalize (g_edges G). intros l0. induction l0 as [|x l0 IH]; cbn [sumq]; [reflexivity|].
        rewrite IH. cbn. ring. }
      rewrite Z0. change 0 with (inject_Z 0). rewrite <- Zle_Qle. lia.
    + rewrite (sum_on_pairs G P i WF ND Hin).
      pose proof (path_edges_le_nodes G (P i) WF Hh Hl ND Hin) as L. rewrite <- Zle_Qle. lia.
Qed.

Section GivenMpeComplete.
  Variable M : kmpe_inst.
  Local Notation I := (m_err M).
  Variable ws : list Q.
  Variable P : N -> list node.
  Variable sl : N -> Q.
  Hypothesis Hg : e_given I = Some ws.
  Hypothesis Hpc : m_pieces M = [].
  Hypothesis WF : wf_graph (eG I).
  Hypothesis Hae : p_allow_empty (e_base I) = true.
  Hypothesis Hnc : p_cons (e_base I) = [].
  Hypothesis Hlen : length ws = eK I.
  Hypothesis Hpl : lengths_ok M.
  Hypothesis Hch : kmpe_given_choice M ws P sl.

  Let a := gmasg M P sl.
  Lemma gm_edge u v i : a (Edge u v i) = onq P i (u, v). Proof. reflexivity. Qed.
  Lemma gm_gamma u v i : a (Gamma u v i) = sl i * onq P i (u, v). Proof. reflexivity. Qed.
  Lemma gm_pos u v i : a (Pos u v i) = sumq (fun e' => plen M e' * onq P i e') (rev_edges (eG I) u). Proof. reflexivity. Qed.
  Lemma gm_slack i : a (Slack i) = sl i. Proof. reflexivity. Qed.
  Lemma gm_len i : a (Len i) = sumq (fun e' => plen M e' * onq P i e') (g_edges (eG I)). Proof. reflexivity. Qed.

  Lemma gm_no_factors : has_factors M = false. Proof. unfold has_factors. rewrite Hpc. reflexivity. Qed.
  Lemma gm_term_nonneg i e : In e (g_edges (eG I)) -> 0 <= plen M e * onq P i e.
  Proof. intros He. pose proof (Hpl e He) as [P0 _]. pose proof (onq01 P i e). apply Qmult_le_0_compat; lra. Qed.

  Theorem kmpe_given_complete : sat a (encode_kmpe M) /\ objective a (encode_kmpe M) == sumq sl (layers (eK I)).
  Proof.
    destruct Hch as (HL & Hcount & Hs & Herr).
    pose proof (kfdw_complete (dummy_kfd I) ws (e_korig I) P WF Hae Hnc Hlen HL
                  (fun e He Hig => False_ind _ (all_ignored I e He Hig)) Hcount) as [DC DR].
    unfold encode_kfd_given in DC, DR. cbn [cols rows] in DC, DR. rewrite Forall_app in DR. destruct DR as [DRb DRg].
    cbn [dummy_kfd f_base] in DC, DRb.
    destruct (base_transfer (e_base I) _ a (gmasg_agrees M P sl) (conj DC DRb)) as [BC BR].
    split; [split|].
    - unfold encode_kmpe. cbn [cols]. unfold kmpe_cols, factor_cols. rewrite Hg, gm_no_factors, app_nil_r.
      rewrite !Forall_app. split; [exact BC|]. split.
      + unfold pos_cols. apply Forall_app. split.
        * apply Forall_forall. intros c Hc. apply in_map_iff in Hc. destruct Hc as ([i e] & <- & Hie).
          unfold all_ik in Hie. apply in_flat_map in Hie. destruct Hie as (i' & Hi & Hie). apply in_map_iff in Hie.
          destruct Hie as (e' & E & He). injection E as <- <-. cbn [fst snd].
          unfold sat_col, icol. cbn [cvar clb cub cint]. rewrite gm_pos.
          pose proof (sumq_filter_le (fun e0 => plen M e0 * onq P i' e0) (fun e0 => mem_node (snd e0) (nodes_reaching (eG I) (fst e'))) (g_edges (eG I))
                        (fun e0 He0 => gm_term_nonneg i' e0 He0)) as FL.
          pose proof (len_bound_layer M P i' WF Hpl (HL i' Hi)) as LB. unfold rev_edges.
          split; [exact (proj1 FL)|split; [eapply Qle_trans; [exact (proj2 FL)|exact LB]|]].
          intros _. apply sumq_is_int. intros e0 He0. apply filter_In in He0. destruct He0 as [He0 _].
          apply is_int_mult; [apply (Hpl e0 He0)|apply onq_int].
        * apply Forall_forall. intros c Hc. apply in_map_iff in Hc. destruct Hc as (i & <- & Hi).
          unfold sat_col, icol. cbn [cvar clb cub cint]. rewrite gm_len.
          split; [apply ErrEncProofs3.sumq_nonneg; intros e He; apply (gm_term_nonneg i e He)|split; [apply (len_bound_layer M P i WF Hpl (HL i Hi))|]].
          intros _. apply sumq_is_int. intros e0 He0. apply is_int_mult; [apply (Hpl e0 He0)|apply onq_int].
      + unfold slack_cols. apply Forall_app. split.
        * apply Forall_forall. intros c Hc. apply in_map_iff in Hc. destruct Hc as (i & <- & Hi).
          unfold sat_col, wcol_. cbn [cvar clb cub cint]. rewrite gm_slack. destruct (Hs i Hi) as (S1 & S2). tauto.
        * apply Forall_forall. intros c Hc. apply in_map_iff in Hc. destruct Hc as ([i e] & <- & Hie).
          unfold all_ik in Hie. apply in_flat_map in Hie. destruct Hie as (i' & Hi & Hie). apply in_map_iff in Hie.
          destruct Hie as (e' & E & He). injection E as <- <-. cbn [fst snd].
          unfold sat_col, ccol. cbn [cvar clb cub cint]. rewrite gm_gamma, <- surjective_pairing.
          destruct (Hs i' Hi) as ([S1 S2] & _). pose proof (onq01 P i' e') as O.
          assert (H2 : 0 <= sl i' * onq P i' e') by (apply Qmult_le_0_compat; lra).
          assert (H3 : 0 <= sl i' * (1 - onq P i' e')) by (apply Qmult_le_0_compat; lra).
          split; [exact H2|split; [lra|intros D; discriminate D]].
    - unfold encode_kmpe. cbn [rows]. unfold kmpe_rows, factor_rows. rewrite Hg, gm_no_factors. cbn [app].
      rewrite !Forall_app. split; [exact BR|]. split; [|split].
      + unfold pos_rows. apply Forall_app. split.
        * apply Forall_flat_map. intros i Hi. apply Forall_forall. intros r Hr. apply in_map_iff in Hr. destruct Hr as (e & <- & He).
          unfold sat_row, row_pos, mkrow. cbn [sns lhs rhs eval fst snd].
          rewrite (eval_map_coef a (fun e' => Edge (fst e') (snd e') i) (fun e' => - plen M e')), gm_pos.
          assert (E : sumq (fun e' => - plen M e' * a (Edge (fst e') (snd e') i)) (rev_edges (eG I) (fst e))
                      == - sumq (fun e' => plen M e' * onq P i e') (rev_edges (eG I) (fst e))).
          { generalize (rev_edges (eG I) (fst e)). intros l. induction l as [|e' l IH]; cbn [sumq]; [ring|].
            rewrite IH, gm_edge, <- surjective_pairing. ring. }
          rewrite E. ring.
        * apply Forall_forall. intros r Hr. apply in_map_iff in Hr. destruct Hr as (i & <- & Hi).
          unfold sat_row, row_len, mkrow. cbn [sns lhs rhs eval fst snd].
          rewrite (eval_map_coef a (fun e' => Edge (fst e') (snd e') i) (fun e' => - plen M e')), gm_len.
          assert (E : sumq (fun e' => - plen M e' * a (Edge (fst e') (snd e') i)) (g_edges (eG I))
                      == - sumq (fun e' => plen M e' * onq P i e') (g_edges (eG I))).
          { generalize (g_edges (eG I)). intros l. induction l as [|e' l IH]; cbn [sumq]; [ring|].
            rewrite IH, gm_edge, <- surjective_pairing. ring. }
          rewrite E. ring.
      + apply Forall_flat_map. intros e He. unfold kmpe_edge_rows. rewrite Hg. rewrite Forall_app. split.
        * unfold gamma_prod_rows. apply Forall_flat_map. intros i Hi.
          assert (SV : slack_var M i = Slack i) by (unfold slack_var; rewrite gm_no_factors; reflexivity). rewrite SV.
          apply (mcc_rows_exact a _ _ _ 0 (w_max I)).
          -- rewrite gm_edge, <- surjective_pairing. unfold onq. destruct (mem_edge e (pairs (P i))); [right|left]; reflexivity.
          -- rewrite gm_slack. apply (Hs i Hi).
          -- rewrite gm_gamma, gm_edge, gm_slack. ring.
        * assert (HS : eval a (map (fun iw => (Edge (fst e) (snd e) (fst iw), - (scale_of I e * snd iw))) (zipn 0 ws))
                       == - (scale_of I e * gexpl ws P e)).
          { rewrite (eval_map_coef a (fun iw => Edge (fst e) (snd e) (fst iw)) (fun iw => - (scale_of I e * snd iw))).
            unfold gexpl. generalize (zipn 0 ws). intros l. induction l as [|x l IH]; cbn [sumq]; [ring|].
            rewrite IH, gm_edge, <- surjective_pairing. ring. }
          assert (HGa : sumq (fun i => a (Gamma (fst e) (snd e) i)) (layers (eK I)) == sumq (fun i => sl i * onq P i e) (layers (eK I))).
          { apply sumq_ext. intros i _. rewrite gm_gamma, <- surjective_pairing. reflexivity. }
          pose proof (Herr e He) as HE. apply Qabs_le_iff in HE.
          constructor; [|constructor; [|constructor]]; unfold sat_row, mrow_9aa_given, mrow_9ab_given, mkrow, gamma_terms; cbn [sns lhs rhs];
            rewrite eval_app, HS.
          -- rewrite (eval_map_const a (fun i => Gamma (fst e) (snd e) i) (- (1))), HGa. lra.
          -- rewrite (eval_map_const a (fun i => Gamma (fst e) (snd e) i) 1), HGa. lra.
      + constructor; [|constructor].
        assert (R : sat_row (asg P (fun _ => 0) (fun _ => 0%N)) (row_max_paths I)).
        { rewrite Forall_forall in DRg. apply DRg. unfold kfdw_rows. apply in_or_app. right. left. reflexivity. }
        apply (sat_row_ext _ a (row_max_paths I) (fun t (Ht : In t (src_out_terms (eG I) (eK I))) => gmasg_agrees M P sl (fst t) (or_introl (src_terms_fam _ _ t Ht))) R).
    - unfold objective, encode_kmpe. cbn [obj]. unfold kmpe_obj. rewrite (eval_map_const a Slack 1).
      assert (E : sumq (fun i => a (Slack i)) (layers (eK I)) == sumq sl (layers (eK I))) by (apply sumq_ext; intros i _; rewrite gm_slack; reflexivity).
      rewrite E. ring.
  Qed.
End GivenMpeComplete.

(* ------------------------------------------------------------------ decoding *)
Theorem kmpe_given_decodes (M : kmpe_inst) (ws : list Q) (a : var -> Q) (rank : node -> nat) (Rm : nat) :
  e_given (m_err M) = Some ws -> m_pieces M = [] -> wf_graph (eG (m_err M)) -> p_allow_empty (e_base (m_err M)) = true ->
  length ws = eK (m_err M) ->
  (forall u v, In (u, v) (g_edges (eG (m_err M))) -> (rank u < rank v)%nat) -> (forall v, (rank v <= Rm)%nat) ->
  sat a (encode_kmpe M) ->
  kmpe_given_choice M ws (dec_given (eG (m_err M)) a Rm) (fun i => a (Slack i)) /\
  sumq (fun i => a (Slack i)) (layers (eK (m_err M))) == objective a (encode_kmpe M).
Proof.
  intros Hg Hpc WF Hae Hlen Hrank HR Hsat. set (I := m_err M) in *. set (P := dec_given (eG I) a Rm).
  assert (HF : has_factors M = false) by (unfold has_factors; rewrite Hpc; reflexivity).
  pose proof Hsat as [HC HRw]. unfold encode_kmpe in HC, HRw. cbn [cols rows] in HC, HRw. unfold kmpe_cols, kmpe_rows, factor_cols, factor_rows in HC, HRw.
  fold I in HC, HRw. rewrite Hg, HF in HC, HRw. cbn [app] in HRw. rewrite app_nil_r in HC.
  rewrite !Forall_app in HC. rewrite !Forall_app in HRw. destruct HC as (HCb & HCp & HCs). destruct HRw as (HRb & HRp & HRe & HRm).
  assert (HD : sat a (encode_kfd_given (dummy_kfd I) ws (e_korig I))).
  { split; [exact HCb|]. unfold encode_kfd_given. cbn [rows]. apply Forall_app. split; [exact HRb|].
    unfold kfdw_rows. apply Forall_app. split; [|exact HRm].
    apply Forall_forall. intros r Hr. apply in_map_iff in Hr. destruct Hr as (e & _ & He). apply filter_In in He. destruct He as [He Hn].
    exfalso. apply negb_true_iff in Hn. exact (all_ignored I e He Hn). }
  pose proof (fun i Hi => given_layer_empty_or_path (dummy_kfd I) ws (e_korig I) a WF Hae Hlen HD rank Rm i Hrank HR Hi) as Hlay.
  cbn [dummy_kfd f_base] in Hlay.
  assert (Hbin : forall i e, In i (layers (eK I)) -> In e (g_edges (eG I)) -> bin (a (Edge (fst e) (snd e) i))).
  { intros i e Hi He. exact (g_bin (dummy_kfd I) ws (e_korig I) a HD i e Hi He). }
  assert (Q : forall i e, In i (layers (eK I)) -> In e (g_edges (eG I)) -> onq P i e == a (Edge (fst e) (snd e) i)).
  { intros i e Hi He. pose proof (Hbin i e Hi He) as Hb.
    destruct (xval_bin a i e Hb) as [EQ _]. rewrite EQ. unfold onq, P, dec_given, dec_path.
    destruct (Hlay i Hi) as [(H0 & Hz & _)|(H1 & p & D & L & Pm)].
    - unfold eG in *. rewrite H0. cbn [Z.eqb]. rewrite (Hz e He). reflexivity.
    - unfold eG in *. rewrite H1. cbn [Z.eqb]. rewrite D. apply (indq_xval (g_edges (p_graph (e_base I)))); [exact Hb|exact Pm|exact He]. }
  assert (Hslack : forall i, In i (layers (eK I)) -> sat_col a (wcol_ (Slack i) (w_max I) (e_int I))).
  { intros i Hi. unfold slack_cols in HCs. fold I in HCs. rewrite Forall_app in HCs. destruct HCs as [HCs _].
    apply (sat_cols_in a _ _ HCs). apply (in_map (fun i => wcol_ (Slack i) (w_max I) (e_int I))) in Hi. exact Hi. }
  split.
  - split; [|split; [|split]]; fold I.
    + intros i Hi. unfold P, dec_given, dec_path. destruct (Hlay i Hi) as [(H0 & _ & _)|(H1 & p & D & L & Pm)].
      * unfold eG in *. rewrite H0. left. reflexivity.
      * unfold eG in *. rewrite H1. cbn [Z.eqb]. rewrite D. right.
        split; [reflexivity|]. split; [rewrite last_cons_default; exact L|].
        assert (HinG : incl (pairs (g_src (p_graph (e_base I)) :: p)) (g_edges (p_graph (e_base I)))).
        { intros e He. apply (Permutation_in _ (Permutation_sym Pm)) in He. apply Sup_In in He. tauto. }
        split; [|exact HinG]. destruct (AugProofs.rank_walk_nodup _ rank Hrank p _ HinG) as [ND _]. exact ND.
    + destruct (given_path_count (dummy_kfd I) ws (e_korig I) a WF HD) as [Hc _]. cbn [dummy_kfd f_base] in Hc.
      assert (Hext : forall l, incl l (layers (eK I)) ->
                 sumz (used P) l = sumz (fun i => sumx (xval a i) (outs (g_edges (eG I)) (g_src (eG I)))) l).
      { induction l as [|i l IH]; intros Hl; [reflexivity|]. cbn [sumz]. rewrite IH by (intros x Hx; apply Hl; right; exact Hx).
        f_equal. unfold used, P, dec_given, dec_path. assert (Hi : In i (layers (eK I))) by (apply Hl; left; reflexivity).
        destruct (Hlay i Hi) as [(H0 & _ & _)|(H1 & _)].
        - unfold eG in *. rewrite H0. reflexivity.
        - unfold eG in *. rewrite H1. reflexivity. }
      rewrite (Hext _ (fun x Hx => Hx)). exact Hc.
    + intros i Hi. pose proof (Hslack i Hi) as C. unfold sat_col, wcol_ in C. cbn [cvar clb cub cint] in C. tauto.
    + intros e He. pose proof (basic_in I e He) as HeG.
      rewrite Forall_flat_map in HRe. specialize (HRe e He). unfold kmpe_edge_rows in HRe. fold I in HRe. rewrite Hg in HRe.
      rewrite Forall_app in HRe. destruct HRe as [HGm HE].
      assert (HGF : forall i, In i (layers (eK I)) -> a (Gamma (fst e) (snd e) i) == a (Slack i) * onq P i e).
      { intros i Hi. unfold gamma_prod_rows in HGm. fold I in HGm. rewrite Forall_flat_map in HGm. specialize (HGm i Hi).
        assert (SV : slack_var M i = Slack i) by (unfold slack_var; rewrite HF; reflexivity). rewrite SV in HGm.
        pose proof (Hslack i Hi) as C. unfold sat_col, wcol_ in C. cbn [cvar clb cub] in C.
        destruct (mcc_rows_force a _ _ _ (w_max I) (Hbin i e Hi HeG) (proj1 C) HGm) as [G1 _].
        rewrite G1, (Q i e Hi HeG). ring. }
      inversion HE as [|? ? R1 HE']; subst. inversion HE' as [|? ? R2 _]; subst.
      unfold sat_row, mrow_9aa_given, mrow_9ab_given, mkrow, gamma_terms in R1, R2. cbn [sns lhs rhs] in R1, R2. fold I in R1, R2.
      rewrite eval_app in R1, R2.
      assert (HS : eval a (map (fun iw => (Edge (fst e) (snd e) (fst iw), - (scale_of I e * snd iw))) (zipn 0 ws))
                   == - (scale_of I e * gexpl ws P e)).
      { rewrite (eval_map_coef a (fun iw => Edge (fst e) (snd e) (fst iw)) (fun iw => - (scale_of I e * snd iw))).
        unfold gexpl.
        assert (E1 : sumq (fun iw => - (scale_of I e * snd iw) * a (Edge (fst e) (snd e) (fst iw))) (zipn 0 ws)
                     == sumq (fun iw => - (scale_of I e * snd iw) * onq P (fst iw) e) (zipn 0 ws)).
        { apply sumq_ext. intros [i w] Hiw. cbn [fst snd].
          destruct (in_zipn _ _ _ _ Hiw) as (n & -> & _ & Hn). rewrite Nat.sub_0_r in Hn.
          assert (Hi : In (N.of_nat n) (layers (eK I))).
          { apply in_layers. exists n. split; [|reflexivity]. rewrite <- Hlen. apply nth_error_Some. rewrite Hn. discriminate. }
          rewrite (Q _ e Hi HeG). reflexivity. }
        rewrite E1. generalize (zipn 0 ws). intros l. induction l as [|x l IH]; cbn [sumq]; [ring|]. rewrite IH. ring. }
      assert (HGa : sumq (fun i => a (Gamma (fst e) (snd e) i)) (layers (eK I)) == sumq (fun i => a (Slack i) * onq P i e) (layers (eK I))).
      { apply sumq_ext. intros i Hi. apply (HGF i Hi). }
      rewrite HS in R1, R2.
      rewrite (eval_map_const a (fun i => Gamma (fst e) (snd e) i) (- (1))) in R1.
      rewrite (eval_map_const a (fun i => Gamma (fst e) (snd e) i) 1) in R2. rewrite HGa in R1, R2.
      cbv beta. apply Qabs_le_iff. split; lra.
  - unfold objective, encode_kmpe. cbn [obj]. unfold kmpe_obj. fold I. rewrite (eval_map_const a Slack 1). ring.
Qed.

Theorem kmpe_given_optimal (M : kmpe_inst) (ws : list Q) (a : var -> Q) (rank : node -> nat) (Rm : nat) :
  e_given (m_err M) = Some ws -> m_pieces M = [] -> wf_graph (eG (m_err M)) -> p_allow_empty (e_base (m_err M)) = true ->
  p_cons (e_base (m_err M)) = [] -> length ws = eK (m_err M) -> lengths_ok M ->
  (forall u v, In (u, v) (g_edges (eG (m_err M))) -> (rank u < rank v)%nat) -> (forall v, (rank v <= Rm)%nat) ->
  sat a (encode_kmpe M) -> (forall b, sat b (encode_kmpe M) -> objective a (encode_kmpe M) <= objective b (encode_kmpe M)) ->
  (exists P sl, kmpe_given_choice M ws P sl /\ sumq sl (layers (eK (m_err M))) == objective a (encode_kmpe M)) /\
  (forall P sl, kmpe_given_choice M ws P sl -> objective a (encode_kmpe M) <= sumq sl (layers (eK (m_err M)))).
Proof.
  intros Hg Hpc WF Hae Hnc Hlen Hpl Hrank HR Hsat Hopt. split.
  - destruct (kmpe_given_decodes M ws a rank Rm Hg Hpc WF Hae Hlen Hrank HR Hsat) as [C O]. eexists _, _. split; [exact C|exact O].
  - intros P sl Hch. destruct (kmpe_given_complete M ws P sl Hg Hpc WF Hae Hnc Hlen Hpl Hch) as [Sb Ob].
    apply (Qle_trans _ (objective (gmasg M P sl) (encode_kmpe M))); [apply Hopt; exact Sb|]. apply Qle_lteq. right. exact Ob.
Qed.

(* ------------------------------------------------------------------ non-vacuity of the given-weights theorems *)
From FP Require Import ErrEncProofs2.
Definition wit_base_g : path_inst :=
  {| p_graph := wit_graph; p_k := 1; p_allow_empty := true; p_cons := []; p_cov := 1%Q; p_len := None |}.
Definition wit_given : err_inst :=
  {| e_base := wit_base_g; e_flow := [((1, 2)%N, 2); ((2, 3)%N, 0)]; e_user_ignore := []; e_scale := [];
     e_int := true; e_given := Some [2]; e_korig := 1 |}.
Definition wit_given_P (i : N) : list node := [0; 1; 2; 3; 4]%N.
Definition wit_given_M : kmpe_inst := {| m_err := wit_given; m_len := None; m_pieces := [] |}.

Example klae_given_example : sat (gasg wit_given [2] wit_given_P) (encode_klae wit_given) /\
                             objective (gasg wit_given [2] wit_given_P) (encode_klae wit_given) == 2.
Proof. split; [apply sat_b_sound; vm_compute; reflexivity|vm_compute; reflexivity]. Qed.
Example kmpe_given_example : sat (gmasg wit_given_M wit_given_P (fun _ => 2)) (encode_kmpe wit_given_M) /\
                             objective (gmasg wit_given_M wit_given_P (fun _ => 2)) (encode_kmpe wit_given_M) == 2.
Proof. split; [apply sat_b_sound; vm_compute; reflexivity|vm_compute; reflexivity]. Qed.
