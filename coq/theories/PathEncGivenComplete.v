(* Completeness of the given-weights LP (solution_weights_superset): a choice of at most k_orig non-empty simple
   source-to-sink paths, path i carrying the i-th GIVEN weight, that explains every non-ignored edge is a satisfying
   assignment of PathEnc.encode_kfd_given (empty layers = layers whose weight is not used).  With PathEncGiven.v: the LP is
   feasible iff such a choice exists, and its objective is the number of weights used. *)
From Coq Require Import List NArith ZArith QArith Lqa Bool Arith Lia Permutation.
Import ListNotations.
From FP Require Import Lin Blocks BlocksProofs PathEnc Aug AugProofs Euler EulerProofs1 EulerProofs2 DagDecode PathEncProofs PathEncComplete PathEncGiven.
Set Default Timeout 60.
Local Close Scope Q_scope.

Section GivenComplete.
  Variable I : kfd_inst.
  Variable ws : list Q.
  Variable k_orig : nat.
  Let B := f_base I.
  Let G := p_graph B.
  Let k := p_k B.
  Let E := g_edges G.
  Let s := g_src G.
  Let t := g_snk G.
  Variable P : N -> list node.          (* [] for an unused weight, else the full path s :: ... ++ [t] *)
  Hypothesis WF : wf_graph G.
  Hypothesis Hae : p_allow_empty B = true.
  Hypothesis Hnocons : p_cons B = [].
  Hypothesis Hlen : length ws = k.
  Hypothesis HP : forall i, In i (layers k) ->
      P i = [] \/ (hd_error (P i) = Some s /\ last (P i) s = t /\ NoDup (P i) /\ incl (pairs (P i)) E).
  Hypothesis Hflow : forall e, In e E -> mem_edge e (f_ignore I) = false ->
      (sumq (fun iw => snd iw * indq (mem_edge e (pairs (P (fst iw))))) (zipn 0 ws) == lookup_q e (f_flow I) 0)%Q.
  (* number of used weights *)
  Definition used (i : N) : Z := match P i with [] => 0%Z | _ => 1%Z end.
  Hypothesis Hcount : (sumz used (layers k) <= Z.of_nat k_orig)%Z.

  Let a := asg P (fun _ => 0%Q) (fun _ => 0%N).

  Lemma a_edge u v i : a (Edge u v i) = indq (mem_edge (u, v) (pairs (P i))). Proof. reflexivity. Qed.

  Lemma nodup_incl i : In i (layers k) -> NoDup (P i) /\ incl (pairs (P i)) E.
  Proof.
    intros Hi. destruct (HP i Hi) as [->|(_ & _ & ND & Hin)]; [|tauto].
    split; [constructor|intros e []].
  Qed.

  (* out- and in-degree as indicator sums (same computation as in PathEncComplete, under the weaker per-layer facts) *)
  Lemma g_sum_succ i v : In i (layers k) ->
    (sumq (fun x => a (Edge v x i)) (succs G v) == inject_Z (Z.of_nat (outd (pairs (P i)) v)))%Q.
  Proof.
    intros Hi. destruct (nodup_incl i Hi) as [ND Hin].
    rewrite (wf_succ G WF), sumq_map.
    set (L := filter (fun e => (fst e =? v)%N) (g_edges G)).
    set (S := filter (fun e => (fst e =? v)%N) (pairs (P i))).
    assert (E1 : (sumq (fun e => a (Edge v (snd e) i)) L == sumq (fun e => indq (mem_edge e S)) L)%Q).
    { apply sumq_ext. intros e He. unfold L in He. apply filter_In in He. destruct He as [HeE Hv]. apply N.eqb_eq in Hv.
      rewrite a_edge.
      assert (Q : mem_edge (v, snd e) (pairs (P i)) = mem_edge e S).
      { apply eq_true_iff_eq. rewrite !mem_edge_In. unfold S. rewrite filter_In. destruct e as [x y]. cbn in *. subst x.
        rewrite N.eqb_refl. tauto. }
      rewrite Q. reflexivity. }
    rewrite E1. unfold outd. fold S. apply sum_ind_subset.
    - unfold L. apply NoDup_filter. apply (wf_nodup_e G WF).
    - unfold S. apply NoDup_filter. apply nodup_pairs. exact ND.
    - intros e He. unfold S in He. apply filter_In in He. unfold L. apply filter_In. split; [apply Hin; tauto|tauto].
  Qed.

  Lemma g_sum_pred i v : In i (layers k) ->
    (sumq (fun x => a (Edge x v i)) (preds G v) == inject_Z (Z.of_nat (ind (pairs (P i)) v)))%Q.
  Proof.
    intros Hi. destruct (nodup_incl i Hi) as [ND Hin].
    rewrite (sumq_perm _ _ _ (wf_pred G WF v)), sumq_map.
    set (L := filter (fun e => (snd e =? v)%N) (g_edges G)).
    set (S := filter (fun e => (snd e =? v)%N) (pairs (P i))).
    assert (E1 : (sumq (fun e => a (Edge (fst e) v i)) L == sumq (fun e => indq (mem_edge e S)) L)%Q).
    { apply sumq_ext. intros e He. unfold L in He. apply filter_In in He. destruct He as [HeE Hv]. apply N.eqb_eq in Hv.
      rewrite a_edge.
      assert (Q : mem_edge (fst e, v) (pairs (P i)) = mem_edge e S).
      { apply eq_true_iff_eq. rewrite !mem_edge_In. unfold S. rewrite filter_In. destruct e as [x y]. cbn in *. subst y.
        rewrite N.eqb_refl. tauto. }
      rewrite Q. reflexivity. }
    rewrite E1. unfold ind. fold S. apply sum_ind_subset.
    - unfold L. apply NoDup_filter. apply (wf_nodup_e G WF).
    - unfold S. apply NoDup_filter. apply nodup_pairs. exact ND.
    - intros e He. unfold S in He. apply filter_In in He. unfold L. apply filter_In. split; [apply Hin; tauto|tauto].
  Qed.

  Lemma exc_layer i v : In i (layers k) ->
    exc (pairs (P i)) v = (if used i =? 1 then ind1 (v =? s)%N - ind1 (v =? t)%N else 0)%Z.
  Proof.
    intros Hi. unfold used. destruct (HP i Hi) as [->|(Hh & Hl & _ & _)]; [reflexivity|].
    destruct (P i) as [|x r] eqn:EP; [discriminate|]. cbn in Hh. injection Hh as ->.
    cbn [Z.eqb Pos.eqb]. rewrite exc_pairs. rewrite last_cons_default in Hl. rewrite Hl. reflexivity.
  Qed.

  Lemma ind_src_layer i : In i (layers k) -> ind (pairs (P i)) s = 0%nat.
  Proof.
    intros Hi. destruct (nodup_incl i Hi) as [_ Hin]. unfold ind.
    destruct (filter (fun e => (snd e =? s)%N) (pairs (P i))) as [|e l] eqn:F; [reflexivity|exfalso].
    assert (He : In e (filter (fun e => (snd e =? s)%N) (pairs (P i)))) by (rewrite F; left; reflexivity).
    apply filter_In in He. destruct He as [He Hs]. apply N.eqb_eq in Hs. exact (wf_src G WF e (Hin e He) Hs).
  Qed.

  Lemma out_src_layer i : In i (layers k) -> Z.of_nat (outd (pairs (P i)) s) = used i.
  Proof.
    intros Hi. pose proof (exc_layer i s Hi) as Ex. unfold exc in Ex. rewrite (ind_src_layer i Hi) in Ex.
    rewrite N.eqb_refl in Ex. destruct (N.eqb_spec s t) as [Est|_]; [exfalso; exact (wf_st G WF Est)|].
    cbn [ind1] in Ex. unfold used in *. destruct (P i); cbn [Z.eqb Pos.eqb] in Ex; lia.
  Qed.

  Theorem kfdw_complete : sat a (encode_kfd_given I ws k_orig).
  Proof.
    split.
    - unfold encode_kfd_given. cbn [cols]. unfold base_cols, cons_cols. fold B. rewrite Hnocons, app_nil_r.
      exact (sat_edge_cols I P (fun _ => 0%Q) (fun _ => 0%N)).
    - unfold encode_kfd_given. cbn [rows]. unfold base_rows, cons_rows. fold B. rewrite Hnocons, app_nil_r.
      unfold kfdw_rows. fold B G k. rewrite !Forall_app. split; [|split].
      + unfold path_rows. fold G k. rewrite Hae. rewrite Forall_app. split.
        * rewrite Forall_map. apply Forall_forall. intros i Hi.
          unfold sat_row, row_10a, mkrow. cbn [sns lhs rhs].
          rewrite (eval_map_const a (fun v => Edge (g_src G) v i) 1%Q), Qmult_1_l. fold s.
          rewrite (g_sum_succ i s Hi), (out_src_layer i Hi).
          unfold used. destruct (P i); unfold inject_Z; lra.
        * apply Forall_flat_map. intros i Hi. rewrite Forall_map. apply Forall_forall. intros v Hv.
          unfold inner in Hv. apply filter_In in Hv. destruct Hv as [_ Hv]. apply andb_true_iff in Hv. destruct Hv as [Hs Ht].
          apply negb_true_iff in Hs, Ht.
          unfold sat_row, row_10c, mkrow. cbn [sns lhs rhs].
          rewrite eval_app, (eval_map_const a (fun u => Edge u v i) 1%Q), (eval_map_const a (fun x => Edge v x i) (- (1))%Q).
          rewrite (g_sum_pred i v Hi), (g_sum_succ i v Hi).
          pose proof (exc_layer i v Hi) as Ex. unfold exc, s, t in Ex. rewrite Hs, Ht in Ex. cbn [ind1] in Ex.
          assert (Hio : outd (pairs (P i)) v = ind (pairs (P i)) v) by (destruct (used i =? 1)%Z; lia). rewrite Hio. ring.
      + (* flow rows *)
        rewrite Forall_map. apply Forall_forall. intros e He. apply filter_In in He. destruct He as [He Hig].
        apply negb_true_iff in Hig. unfold sat_row, mkrow. cbn [sns lhs rhs].
        rewrite (eval_map_coef a (fun iw => Edge (fst e) (snd e) (fst iw)) (fun iw => snd iw) (zipn 0 ws)).
        rewrite <- (Hflow e He Hig). apply sumq_ext. intros iw _. rewrite a_edge. destruct e; reflexivity.
      + (* at most k_orig paths *)
        constructor; [|constructor]. unfold sat_row, mkrow. cbn [sns lhs rhs].
        unfold src_out_terms. rewrite eval_flat_map.
        assert (E1 : (sumq (fun v => eval a (map (fun i => (Edge (g_src G) v i, 1%Q)) (layers k))) (succs G (g_src G)) ==
                      sumq (fun v => sumq (fun i => a (Edge (g_src G) v i)) (layers k)) (succs G (g_src G)))%Q).
        { apply sumq_ext. intros v _. rewrite (eval_map_const a (fun i => Edge (g_src G) v i) 1%Q). ring. }
        rewrite E1, sumq_swap.
        rewrite (sumq_sumz (fun i => sumq (fun v => a (Edge (g_src G) v i)) (succs G (g_src G))) used (layers k)).
        * rewrite <- Zle_Qle. exact Hcount.
        * intros i Hi. fold s. rewrite (g_sum_succ i s Hi), (out_src_layer i Hi). reflexivity.
  Qed.
End GivenComplete.

From FP Require Import PathCoverComplete.

Definition given_choice (I : kfd_inst) (ws : list Q) (k_orig : nat) (P : N -> list node) : Prop :=
  let G := p_graph (f_base I) in let k := p_k (f_base I) in
  (forall i, In i (layers k) ->
      P i = [] \/ (hd_error (P i) = Some (g_src G) /\ last (P i) (g_src G) = g_snk G /\ NoDup (P i) /\ incl (pairs (P i)) (g_edges G))) /\
  (forall e, In e (g_edges G) -> mem_edge e (f_ignore I) = false ->
      (sumq (fun iw => snd iw * indq (mem_edge e (pairs (P (fst iw))))) (zipn 0 ws) == lookup_q e (f_flow I) 0)%Q) /\
  (sumz (used P) (layers k) <= Z.of_nat k_orig)%Z.

Theorem kfdw_feasible_iff (I : kfd_inst) (ws : list Q) (k_orig : nat) (rank : node -> nat) (Rm : nat) :
  wf_graph (p_graph (f_base I)) -> p_allow_empty (f_base I) = true -> p_cons (f_base I) = [] ->
  length ws = p_k (f_base I) ->
  (forall u v, In (u, v) (g_edges (p_graph (f_base I))) -> (rank u < rank v)%nat) -> (forall v, (rank v <= Rm)%nat) ->
  ((exists a, sat a (encode_kfd_given I ws k_orig)) <-> (exists P, given_choice I ws k_orig P)).
Proof.
  intros WF Hae Hnc Hlen Hrank HR. split.
  - intros (a & Hsat).
    set (P := fun i => if (sumx (xval a i) (outs (g_edges (p_graph (f_base I))) (g_src (p_graph (f_base I)))) =? 0)%Z then []
                       else (g_src (p_graph (f_base I))) :: match decode (g_edges (p_graph (f_base I))) (xval a i) (g_snk (p_graph (f_base I))) (Datatypes.S Rm) (g_src (p_graph (f_base I))) with Some p => p | None => [] end).
    pose proof (fun i Hi => given_layer_empty_or_path I ws k_orig a WF Hae Hlen Hsat rank Rm i Hrank HR Hi) as Hlay.
    assert (Q : forall i e, In i (layers (p_k (f_base I))) -> In e (g_edges (p_graph (f_base I))) -> (indq (mem_edge e (pairs (P i))) == inject_Z (xval a i e))%Q).
    { intros i e Hi He. unfold P. destruct (Hlay i Hi) as [(H0 & Hz & _)|(H1 & p & D & L & Pm)].
      -  rewrite H0. cbn [Z.eqb]. rewrite (Hz e He). reflexivity.
      -  rewrite H1. cbn [Z.eqb].  rewrite D.
        apply (indq_xval (g_edges (p_graph (f_base I)))); [|exact Pm|exact He]. exact (g_bin I ws k_orig a Hsat i e Hi He). }
    exists P. unfold given_choice. split; [|split].
    + intros i Hi. unfold P. destruct (Hlay i Hi) as [(H0 & _ & _)|(H1 & p & D & L & Pm)].
      *  rewrite H0. left. reflexivity.
      *  rewrite H1. cbn [Z.eqb].  rewrite D. right.
        split; [reflexivity|]. split; [rewrite last_cons_default; exact L|].
        assert (HinG : incl (pairs ((g_src (p_graph (f_base I))) :: p)) (g_edges (p_graph (f_base I)))).
        { intros e He. apply (Permutation_in _ (Permutation_sym Pm)) in He. apply Sup_In in He. tauto. }
        split; [|exact HinG].
        destruct (AugProofs.rank_walk_nodup _ rank Hrank p _ HinG) as [ND _]. exact ND.
    + intros e He Hig. rewrite <- (given_flow_explained I ws k_orig a Hlen Hsat e He Hig).
      apply sumq_ext. intros [i w] Hiw. cbn [fst snd].
      destruct (in_zipn _ _ _ _ Hiw) as (n & -> & _ & Hn). rewrite Nat.sub_0_r in Hn.
      assert (Hi : In (N.of_nat n) (layers (p_k (f_base I)))).
      { apply in_layers. exists n. split; [|reflexivity]. rewrite <- Hlen. apply nth_error_Some. intros En.
        pose proof (eq_trans (eq_sym En) Hn) as Ebad. discriminate Ebad. }
      rewrite (Q _ e Hi He). reflexivity.
    + destruct (given_path_count I ws k_orig a WF Hsat) as [Hc _].
      assert (Eq : sumz (used P) (layers (p_k (f_base I))) = sumz (fun i => sumx (xval a i) (outs (g_edges (p_graph (f_base I))) (g_src (p_graph (f_base I))))) (layers (p_k (f_base I)))).
      { assert (Hext : forall l, incl l (layers (p_k (f_base I))) -> sumz (used P) l = sumz (fun i => sumx (xval a i) (outs (g_edges (p_graph (f_base I))) (g_src (p_graph (f_base I))))) l).
        { induction l as [|i l IH]; intros Hl; [reflexivity|]. cbn [sumz]. rewrite IH by (intros x Hx; apply Hl; right; exact Hx).
          f_equal. unfold used, P. assert (Hi : In i (layers (p_k (f_base I)))) by (apply Hl; left; reflexivity).
          destruct (Hlay i Hi) as [(H0 & _ & _)|(H1 & _)].
          - rewrite H0. reflexivity.
          - rewrite H1. reflexivity. }
        apply Hext. intros x Hx. exact Hx. }
      rewrite Eq. exact Hc.
  - intros (P & HP & Hf & Hc). exists (asg P (fun _ => 0%Q) (fun _ => 0%N)).
    apply (kfdw_complete I ws k_orig P WF Hae Hnc Hlen HP Hf Hc).
Qed.
