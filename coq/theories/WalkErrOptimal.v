(* Optimality of the cyclic error models relative to the solver specification, WITHIN THE CAPS OF THE ENCODERS:
   the objective of an optimal satisfying assignment of WalkErrEnc.encode_klae_cycles (encode_kmpe_cycles) equals
   the least total scaled absolute error (the least total slack) over all families of k source-to-sink walks that
   respect the repetition caps, safety fixing and subset constraints of the encoder, with weights (and slacks) in
   [0, w_max] of the requested type, multiplicities representable in the product helper's bit vector, products
   within w_max, and deviations within the bound of the error column.  Decoding direction: WalkCoverIff.WSound. *)
From Coq Require Import List NArith ZArith QArith Qabs Qround Lqa Bool Arith Lia Permutation.
Import ListNotations.
From FP Require Import Lin Blocks BlocksProofs PathEnc PathEncProofs Euler EulerProofs1 EulerProofs4
                       WalkEnc WalkDecode WalkEncRows WalkEncRowsProofs WalkTree WalkEncComplete WalkCoverIff WalkEncIff
                       WalkErrEnc WalkErrEncProofs WalkErrComplete.
Set Default Timeout 120.
Local Close Scope Q_scope.

(* ------------------------------------------------------------------ small arithmetic *)
Lemma xint_opp q : is_int q -> is_int (- q)%Q.
Proof. intros [z Hz]. exists (- z)%Z. rewrite Hz, inject_Z_opp. reflexivity. Qed.
Lemma xint_plus p q : is_int p -> is_int q -> is_int (p + q)%Q.
Proof. intros [x Hx] [y Hy]. exists (x + y)%Z. rewrite Hx, Hy, inject_Z_plus. reflexivity. Qed.
Lemma xint_abs q : is_int q -> is_int (Qabs q).
Proof. intros [z Hz]. exists (Z.abs z). rewrite Hz. unfold Qabs, inject_Z. reflexivity. Qed.
Lemma xint_sum {A} (g : A -> Q) l : (forall x, In x l -> is_int (g x)) -> is_int (sumq g l).
Proof.
  induction l as [|x l IH]; intros H; cbn [sumq]; [exists 0%Z; reflexivity|].
  apply xint_plus; [apply H; left; reflexivity|apply IH; intros y Hy; apply H; right; exact Hy].
Qed.
Lemma xsum_le {A} (g h : A -> Q) l : (forall x, In x l -> (g x <= h x)%Q) -> (sumq g l <= sumq h l)%Q.
Proof.
  induction l as [|x l IH]; intros H; cbn [sumq]; [lra|].
  pose proof (H x (or_introl eq_refl)). assert (sumq g l <= sumq h l)%Q by (apply IH; intros y Hy; apply H; right; exact Hy). lra.
Qed.
Lemma inj_eq_Zq x y : (inject_Z x == inject_Z y)%Q -> x = y.
Proof. unfold Qeq, inject_Z. cbn [Qnum Qden]. lia. Qed.

(* documented domain of the inputs: the sequences handed over consist of edges, scalings are non-negative, the integer
   weight type comes with integer weights *)
Definition werr_domain (I : werr_inst) : Prop :=
  winputs_ok (werr_walk I) /\
  (forall e, In e (x_basic I) -> (0 <= xscale I e)%Q /\ (x_int I = true -> is_int (xflow I e))).

(* ------------------------------------------------------------------ kLeastAbsErrorsCycles *)
Definition klaec_dev (I : werr_inst) (P : N -> list node) (wt : N -> Q) (e : PathEnc.edge) : Q :=
  Qabs (xflow I e - xexpl I P wt e).
Definition klaec_cost (I : werr_inst) (P : N -> list node) (wt : N -> Q) : Q :=
  sumq (fun e => (xscale I e * klaec_dev I P wt e)%Q) (x_basic I).

(* k walks within the caps of the encoder, weights in [0, w_max] of the requested type, deviations within the bound of
   the error columns *)
Definition klaec_admissible (I : werr_inst) (P : N -> list node) (wt : N -> Q) : Prop :=
  werr_family I P /\ werr_typed I wt /\ werr_bits_cap I P /\ werr_prod_cap I P wt /\
  (forall e, In e (x_basic I) -> (klaec_dev I P wt e <= x_wmax I)%Q).

Lemma xexpl_int I P c e : x_int I = true -> werr_typed I c -> is_int (xexpl I P c e).
Proof.
  intros Hi Hc. unfold xexpl. apply xint_sum. intros i Hin. apply is_int_mult; [apply (Hc i Hin); exact Hi|apply is_int_inject].
Qed.

Theorem klaec_complete (I : werr_inst) (P : N -> list node) (wt : N -> Q) :
  wf_stg (x_graph I) -> werr_domain I -> klaec_admissible I P wt ->
  exists a, sat a (encode_klae_cycles I) /\ (objective a (encode_klae_cycles I) == klaec_cost I P wt)%Q /\
            (forall i, a (W i) = wt i) /\ (forall e i, a (evar e i) = inject_Z (mult P i e)).
Proof.
  intros WF [_ Hdom] ((HP & Hcap & Hfix & Hcons) & Hw & Hbits & Hpw & Hdev).
  destruct (finite_choice_w (all_cons (werr_walk I))
              (fun j c i => In i (layers (x_k I)) /\ (qnat (length (nodup_e c)) * w_cov (werr_walk I) <= sumq (usedq P i) (nodup_e c))%Q) Hcons) as (ch & Hch).
  exists (xasg I P wt (fun _ => 0%Q) (klaec_dev I P wt) ch).
  destruct (klaec_complete_sat I P wt (fun _ => 0%Q) (klaec_dev I P wt) ch WF HP Hcap Hfix Hch Hw Hbits Hpw) as [S O].
  - intros e He. split; [split; [apply Qle_refl|apply (Hdev e He)]|].
    intros Hi. unfold klaec_dev. apply xint_abs. apply xint_plus; [apply (Hdom e He); exact Hi|].
    apply xint_opp. apply (xexpl_int I P wt e Hi Hw).
  - split; [exact S|]. split; [exact O|]. split; [reflexivity|]. intros e i. apply xa_edge.
Qed.

Section KlaeCDecode.
  Variable I : werr_inst.
  Variable a : var -> Q.
  Let WI := werr_walk I.
  Hypothesis WF : wf_stg (x_graph I).
  Hypothesis Hae : o_allow_empty (x_opts I) = false.
  Hypothesis Hin : winputs_ok WI.
  Hypothesis Hsat : sat a (encode_klae_cycles I).

  Let P := Pofw WI a.
  Let wt := fun i => a (W i).

  Lemma klaec_parts : Forall (sat_col a) (walk_cols WI) /\ Forall (sat_col a) (sub_cols WI) /\
    Forall (sat_row a) (walk_rows WI) /\ Forall (sat_row a) (zero_rows WI) /\ Forall (sat_row a) (fix_rows WI) /\ Forall (sat_row a) (sub_rows WI).
  Proof.
    destruct Hsat as [Hc Hr]. unfold encode_klae_cycles in Hc, Hr. cbn [cols rows] in Hc, Hr. unfold base_wcols, base_wrows in Hc, Hr.
    rewrite !Forall_app in Hc. rewrite !Forall_app in Hr. fold WI in Hc, Hr. tauto.
  Qed.

  Lemma klaec_mult i e : In i (layers (x_k I)) -> In e (g_edges (x_graph I)) -> mult P i e = xint a i e.
  Proof. destruct klaec_parts as (Hc & _ & Hr & _). intros Hi He. apply (multw_xint WI a WF Hae Hc Hr i e Hi He). Qed.

  Lemma klaec_expl e : In e (x_basic I) ->
    (xexpl I P wt e == sumq (fun i => (a (W i) * inject_Z (xint a i e))%Q) (layers (x_k I)))%Q.
  Proof.
    intros He. unfold xexpl, wt. apply sumq_ext. intros i Hi. rewrite (klaec_mult i e Hi (x_basic_in_E I e He)). reflexivity.
  Qed.

  Theorem klaec_decodes : klaec_admissible I P wt /\
    (forall e, In e (x_basic I) -> (klaec_dev I P wt e <= a (errvar e))%Q).
  Proof.
    destruct klaec_parts as (Hc & Hsc & Hr & Hzr & Hfr & Hsr).
    assert (Hdom : forall e, In e (x_basic I) -> (klaec_dev I P wt e <= a (errvar e))%Q /\ (a (errvar e) <= x_wmax I)%Q).
    { intros e He. split.
      - unfold klaec_dev. rewrite (klaec_expl e He). apply Qabs_Qle_condition.
        destruct (klaec_err_dominates I a Hsat e He) as [D1 D2]. cbn zeta in D1, D2. split; lra.
      - destruct (klaec_cols_sat I a Hsat) as (_ & _ & _ & Hec & _).
        assert (C : sat_col a (wcol_ (errvar e) (x_wmax I) (x_int I))).
        { apply (sat_cols_in a _ _ Hec). unfold x_err_cols. apply (in_map (fun e => wcol_ (errvar e) (x_wmax I) (x_int I))) in He. exact He. }
        unfold sat_col, wcol_ in C. cbn [cvar clb cub] in C. tauto. }
    split; [|intros e He; apply (Hdom e He)].
    split; [|split; [|split; [|split]]].
    - split; [apply (wsound_walks WI a WF Hae Hc Hr)|]. split; [apply (wsound_caps WI a WF Hae Hc Hr)|].
      split; [apply (wsound_fixing WI a WF Hae Hin Hc Hr Hzr Hfr)|apply (wsound_constraints WI a WF Hae Hin Hc Hsc Hr Hsr)].
    - intros i Hi. split; [apply (klaec_w_bounds I a Hsat i Hi)|apply (klaec_w_int I a Hsat i Hi)].
    - (* the multiplicity of a bit-expanded product is the value of its bit vector *)
      intros i e Hi He K2. pose proof (x_basic_in_E I e He) as HeE.
      destruct (klaec_cols_sat I a Hsat) as (_ & _ & _ & _ & Hpc).
      assert (HC : Forall (sat_col a) (wprod_cols WI (x_wmax I) e i (pvar e i))).
      { apply Forall_forall. intros c Hc0. apply (sat_cols_in a _ _ Hpc). unfold x_piprod_cols.
        apply in_flat_map. exists e. split; [exact He|]. apply in_flat_map. exists i. split; [exact Hi|exact Hc0]. }
      pose proof (klaec_edge_rows_sat I a Hsat e He) as HR. unfold klaec_edge_rows in HR. rewrite Forall_app in HR. destruct HR as [HPr _].
      unfold x_piprod_rows in HPr. rewrite Forall_flat_map in HPr. specialize (HPr i Hi). fold WI in HPr.
      unfold wprod_cols in HC. unfold wprod_rows in HPr. fold WI in K2. rewrite K2 in HC, HPr. cbn in HC, HPr.
      pose proof (proj1 (intprod_rows_sem (evar e i) (W i) (pvar e i) 0%Q (x_wmax I) (num_bits (x_wmax I))
                    ltac:(split; discriminate) ltac:(split; discriminate) ltac:(split; discriminate) a) (conj HC HPr)) as S.
      cbn zeta in S. destruct S as (HB & _ & HX & _).
      destruct (bits_range _ HB) as (z & Hz & Rz). rewrite map_length, seq_length in Rz.
      rewrite Hz, (edgew_q WI a WF Hae Hc Hr i e Hi HeE) in HX. apply inj_eq_Zq in HX. fold P in HX. subst z. lia.
    - intros i e Hi He. pose proof (x_basic_in_E I e He) as HeE. unfold wt.
      rewrite (klaec_mult i e Hi HeE), <- (klaec_product I a Hsat e i He Hi).
      destruct (klaec_cols_sat I a Hsat) as (_ & Hpi & _).
      assert (C : sat_col a (wcol_ (pvar e i) (x_wmax I) (x_int I))).
      { apply (sat_cols_in a _ _ Hpi). unfold x_pi_cols. apply in_flat_map. exists i. split; [exact Hi|].
        apply (in_map (fun e => wcol_ (pvar e i) (x_wmax I) (x_int I))) in HeE. exact HeE. }
      unfold sat_col, wcol_ in C. cbn [cvar clb cub] in C. tauto.
    - intros e He. destruct (Hdom e He) as [D1 D2]. lra.
  Qed.
End KlaeCDecode.

(* C07 (cyclic), relative to the solver specification and WITHIN THE CAPS of the encoder *)
Theorem klaec_optimal (I : werr_inst) (a : var -> Q) :
  wf_stg (x_graph I) -> o_allow_empty (x_opts I) = false -> werr_domain I ->
  sat a (encode_klae_cycles I) ->
  (forall b, sat b (encode_klae_cycles I) -> (objective a (encode_klae_cycles I) <= objective b (encode_klae_cycles I))%Q) ->
  (exists P wt, klaec_admissible I P wt /\ (klaec_cost I P wt == objective a (encode_klae_cycles I))%Q) /\
  (forall P wt, klaec_admissible I P wt -> (objective a (encode_klae_cycles I) <= klaec_cost I P wt)%Q).
Proof.
  intros WF Hae Hdom Hsat Hopt. pose proof Hdom as [Hin Hsc]. split.
  - destruct (klaec_decodes I a WF Hae Hin Hsat) as [Hadm Hd].
    exists (Pofw (werr_walk I) a), (fun i => a (W i)). split; [exact Hadm|].
    destruct (klaec_complete I _ _ WF Hdom Hadm) as (b & Sb & Ob & _).
    apply Qle_antisym.
    + rewrite (klaec_objective I a). unfold klaec_cost. apply xsum_le. intros e He.
      destruct (Hsc e He) as [S0 _]. pose proof (Hd e He) as D.
      assert (H2 : (0 <= xscale I e * (a (errvar e) - klaec_dev I (Pofw (werr_walk I) a) (fun i => a (W i)) e))%Q) by (apply Qmult_le_0_compat; lra). lra.
    + rewrite <- Ob. apply Hopt. exact Sb.
  - intros P wt Hadm. destruct (klaec_complete I P wt WF Hdom Hadm) as (b & Sb & Ob & _).
    rewrite <- Ob. apply Hopt. exact Sb.
Qed.

(* ------------------------------------------------------------------ kMinPathErrorCycles *)
Definition kmpec_admissible (I : werr_inst) (P : N -> list node) (wt sl : N -> Q) : Prop :=
  werr_family I P /\ werr_typed I wt /\ werr_typed I sl /\ werr_bits_cap I P /\ werr_prod_cap I P wt /\ werr_prod_cap I P sl /\
  (forall e, In e (x_basic I) -> (Qabs (xscale I e * (xflow I e - xexpl I P wt e)) <= xexpl I P sl e)%Q).

Theorem kmpec_complete (I : werr_inst) (P : N -> list node) (wt sl : N -> Q) :
  wf_stg (x_graph I) -> kmpec_admissible I P wt sl ->
  exists a, sat a (encode_kmpe_cycles I) /\ (objective a (encode_kmpe_cycles I) == sumq sl (layers (x_k I)))%Q /\
            (forall i, a (W i) = wt i /\ a (Slack i) = sl i) /\ (forall e i, a (evar e i) = inject_Z (mult P i e)).
Proof.
  intros WF ((HP & Hcap & Hfix & Hcons) & Hw & Hs & Hbits & Hpw & Hps & Hdev).
  destruct (finite_choice_w (all_cons (werr_walk I))
              (fun j c i => In i (layers (x_k I)) /\ (qnat (length (nodup_e c)) * w_cov (werr_walk I) <= sumq (usedq P i) (nodup_e c))%Q) Hcons) as (ch & Hch).
  exists (xasg I P wt sl (fun _ => 0%Q) ch).
  destruct (kmpec_complete_sat I P wt sl ch WF HP Hcap Hfix Hch Hw Hs Hbits Hpw Hps Hdev) as [S O].
  split; [exact S|]. split; [exact O|]. split; [intros i; split; reflexivity|]. intros e i. apply xa_edge.
Qed.

Section KmpeCDecode.
  Variable I : werr_inst.
  Variable a : var -> Q.
  Let WI := werr_walk I.
  Hypothesis WF : wf_stg (x_graph I).
  Hypothesis Hae : o_allow_empty (x_opts I) = false.
  Hypothesis Hin : winputs_ok WI.
  Hypothesis Hsat : sat a (encode_kmpe_cycles I).

  Let P := Pofw WI a.
  Let wt := fun i => a (W i).
  Let sl := fun i => a (Slack i).

  Lemma kmpec_parts : Forall (sat_col a) (walk_cols WI) /\ Forall (sat_col a) (sub_cols WI) /\
    Forall (sat_row a) (walk_rows WI) /\ Forall (sat_row a) (zero_rows WI) /\ Forall (sat_row a) (fix_rows WI) /\ Forall (sat_row a) (sub_rows WI) /\
    Forall (sat_col a) (x_pi_cols I) /\ Forall (sat_col a) (x_gamma_cols I).
  Proof.
    destruct Hsat as [Hc Hr]. unfold encode_kmpe_cycles in Hc, Hr. cbn [cols rows] in Hc, Hr. unfold base_wcols, base_wrows, kmpec_cols in Hc, Hr.
    rewrite !Forall_app in Hc. rewrite !Forall_app in Hr. fold WI in Hc, Hr. tauto.
  Qed.

  Lemma kmpec_mult i e : In i (layers (x_k I)) -> In e (g_edges (x_graph I)) -> mult P i e = xint a i e.
  Proof. destruct kmpec_parts as (Hc & _ & Hr & _). intros Hi He. apply (multw_xint WI a WF Hae Hc Hr i e Hi He). Qed.

  Theorem kmpec_decodes : kmpec_admissible I P wt sl /\ (sumq sl (layers (x_k I)) == objective a (encode_kmpe_cycles I))%Q.
  Proof.
    destruct kmpec_parts as (Hc & Hsc & Hr & Hzr & Hfr & Hsr & Hpi & Hga).
    split; [|symmetry; apply (kmpec_objective I a)].
    split; [|split; [|split; [|split; [|split; [|split]]]]].
    - split; [apply (wsound_walks WI a WF Hae Hc Hr)|]. split; [apply (wsound_caps WI a WF Hae Hc Hr)|].
      split; [apply (wsound_fixing WI a WF Hae Hin Hc Hr Hzr Hfr)|apply (wsound_constraints WI a WF Hae Hin Hc Hsc Hr Hsr)].
    - intros i Hi. split; [apply (kmpec_w_bounds I a Hsat i Hi)|intros Hint; apply (kmpec_w_int I a Hsat i Hi Hint)].
    - intros i Hi. split; [apply (kmpec_s_bounds I a Hsat i Hi)|intros Hint; apply (kmpec_w_int I a Hsat i Hi Hint)].
    - intros i e Hi He K2. pose proof (x_basic_in_E I e He) as HeE.
      destruct (kmpec_cols_sat I a Hsat) as (_ & _ & _ & Hpc & _).
      assert (HC : Forall (sat_col a) (wprod_cols WI (x_wmax I) e i (pvar e i))).
      { apply Forall_forall. intros c Hc0. apply (sat_cols_in a _ _ Hpc). unfold x_piprod_cols.
        apply in_flat_map. exists e. split; [exact He|]. apply in_flat_map. exists i. split; [exact Hi|exact Hc0]. }
      pose proof (kmpec_edge_rows_sat I a Hsat e He) as HR. unfold kmpec_edge_rows in HR. rewrite !Forall_app in HR. destruct HR as (HPr & _ & _).
      unfold x_piprod_rows in HPr. rewrite Forall_flat_map in HPr. specialize (HPr i Hi). fold WI in HPr.
      unfold wprod_cols in HC. unfold wprod_rows in HPr. fold WI in K2. rewrite K2 in HC, HPr. cbn in HC, HPr.
      pose proof (proj1 (intprod_rows_sem (evar e i) (W i) (pvar e i) 0%Q (x_wmax I) (num_bits (x_wmax I))
                    ltac:(split; discriminate) ltac:(split; discriminate) ltac:(split; discriminate) a) (conj HC HPr)) as S.
      cbn zeta in S. destruct S as (HB & _ & HX & _).
      destruct (bits_range _ HB) as (z & Hz & Rz). rewrite map_length, seq_length in Rz.
      rewrite Hz, (edgew_q WI a WF Hae Hc Hr i e Hi HeE) in HX. apply inj_eq_Zq in HX. fold P in HX. subst z. lia.
    - intros i e Hi He. pose proof (x_basic_in_E I e He) as HeE. unfold wt.
      rewrite (kmpec_mult i e Hi HeE), <- (kmpec_pi_product I a Hsat e i He Hi).
      assert (C : sat_col a (wcol_ (pvar e i) (x_wmax I) (x_int I))).
      { apply (sat_cols_in a _ _ Hpi). unfold x_pi_cols. apply in_flat_map. exists i. split; [exact Hi|].
        apply (in_map (fun e => wcol_ (pvar e i) (x_wmax I) (x_int I))) in HeE. exact HeE. }
      unfold sat_col, wcol_ in C. cbn [cvar clb cub] in C. tauto.
    - intros i e Hi He. pose proof (x_basic_in_E I e He) as HeE. unfold sl.
      rewrite (kmpec_mult i e Hi HeE), <- (kmpec_gamma_product I a Hsat e i He Hi).
      assert (C : sat_col a (wcol_ (gvar e i) (x_wmax I) false)).
      { apply (sat_cols_in a _ _ Hga). unfold x_gamma_cols. apply in_flat_map. exists i. split; [exact Hi|].
        apply (in_map (fun e => wcol_ (gvar e i) (x_wmax I) false)) in HeE. exact HeE. }
      unfold sat_col, wcol_ in C. cbn [cvar clb cub] in C. tauto.
    - intros e He. pose proof (x_basic_in_E I e He) as HeE.
      destruct (kmpec_slack_covers I a Hsat e He) as [D1 D2]. cbn zeta in D1, D2.
      assert (E1 : (xexpl I P wt e == sumq (fun i => (a (W i) * inject_Z (xint a i e))%Q) (layers (x_k I)))%Q).
      { unfold xexpl, wt. apply sumq_ext. intros i Hi. rewrite (kmpec_mult i e Hi HeE). reflexivity. }
      assert (E2 : (xexpl I P sl e == sumq (fun i => (a (Slack i) * inject_Z (xint a i e))%Q) (layers (x_k I)))%Q).
      { unfold xexpl, sl. apply sumq_ext. intros i Hi. rewrite (kmpec_mult i e Hi HeE). reflexivity. }
      rewrite E1, E2. apply Qabs_Qle_condition. split; lra.
  Qed.
End KmpeCDecode.

(* C08 (cyclic), relative to the solver specification and WITHIN THE CAPS of the encoder *)
Theorem kmpec_optimal (I : werr_inst) (a : var -> Q) :
  wf_stg (x_graph I) -> o_allow_empty (x_opts I) = false -> winputs_ok (werr_walk I) ->
  sat a (encode_kmpe_cycles I) ->
  (forall b, sat b (encode_kmpe_cycles I) -> (objective a (encode_kmpe_cycles I) <= objective b (encode_kmpe_cycles I))%Q) ->
  (exists P wt sl, kmpec_admissible I P wt sl /\ (sumq sl (layers (x_k I)) == objective a (encode_kmpe_cycles I))%Q) /\
  (forall P wt sl, kmpec_admissible I P wt sl -> (objective a (encode_kmpe_cycles I) <= sumq sl (layers (x_k I)))%Q).
Proof.
  intros WF Hae Hin Hsat Hopt. split.
  - destruct (kmpec_decodes I a WF Hae Hin Hsat) as [Hadm O]. eexists _, _, _. split; [exact Hadm|exact O].
  - intros P wt sl Hadm. destruct (kmpec_complete I P wt sl WF Hadm) as (b & Sb & Ob & _).
    rewrite <- Ob. apply Hopt. exact Sb.
Qed.

(* feasibility characterisation within the caps *)
Theorem kmpec_feasible_iff_within_caps (I : werr_inst) :
  wf_stg (x_graph I) -> o_allow_empty (x_opts I) = false -> winputs_ok (werr_walk I) ->
  ((exists a, sat a (encode_kmpe_cycles I)) <-> (exists P wt sl, kmpec_admissible I P wt sl)).
Proof.
  intros WF Hae Hin. split.
  - intros (a & Hsat). eexists _, _, _. apply (proj1 (kmpec_decodes I a WF Hae Hin Hsat)).
  - intros (P & wt & sl & Hadm). destruct (kmpec_complete I P wt sl WF Hadm) as (a & S & _). exists a. exact S.
Qed.
