(* C05 (c): the "fix via bounds" variants are sat-equivalent to the row variants. *)
From Coq Require Import List NArith ZArith QArith Lqa Bool Lia.
Import ListNotations.
From FP Require Import Lin Blocks.
Set Default Timeout 60.
Local Open Scope Q_scope.

Definition with_bounds (c : col) (lb ub : Q) : col := {| cvar := cvar c; clb := lb; cub := ub; cint := cint c |}.

Lemma row_single a v s r : sat_row a (mkrow [(v, 1)] s r) <->
  match s with SLe => a v <= r | SGe => r <= a v | SEq => a v == r end.
Proof. unfold sat_row, mkrow. cbn [sns lhs rhs eval fst snd]. destruct s; split; intros H; lra. Qed.

(* queue_set_var_lower_bound(x, m)  ==  add_constraint(x >= m)   (when m does not lower the bound) *)
Theorem raise_lb_eq_row a c m : clb c <= m ->
  (sat_col a (with_bounds c m (cub c)) <-> sat_col a c /\ sat_row a (mkrow [(cvar c, 1)] SGe m)).
Proof.
  intros Hm. rewrite row_single. unfold sat_col, with_bounds. cbn [cvar clb cub cint]. split.
  - intros (H1 & H2 & H3). repeat split; try assumption; lra.
  - intros ((H1 & H2 & H3) & H4). repeat split; assumption.
Qed.

(* queue_fix_variable(x, v)  ==  add_constraint(x == v)   (when v is within the bounds) *)
Theorem fix_eq_row a c v : clb c <= v <= cub c ->
  (sat_col a (with_bounds c v v) <-> sat_col a c /\ sat_row a (mkrow [(cvar c, 1)] SEq v)).
Proof.
  intros Hv. rewrite row_single. unfold sat_col, with_bounds. cbn [cvar clb cub cint]. split.
  - intros (H1 & H2 & H3). repeat split; try assumption; lra.
  - intros ((H1 & H2 & H3) & H4). repeat split; try assumption; lra.
Qed.

(* at the level of whole models: replacing one column's bounds vs adding the row *)
Theorem milp_raise_lb_eq_row a l1 c l2 rs ob mx m : clb c <= m ->
  (sat a {| cols := l1 ++ with_bounds c m (cub c) :: l2; rows := rs; obj := ob; maximize := mx |} <->
   sat a {| cols := l1 ++ c :: l2; rows := mkrow [(cvar c, 1)] SGe m :: rs; obj := ob; maximize := mx |}).
Proof.
  intros Hm. unfold sat. cbn [cols rows]. rewrite !Forall_app, !Forall_cons_iff, (raise_lb_eq_row a c m Hm). tauto.
Qed.

Theorem milp_fix_eq_row a l1 c l2 rs ob mx v : clb c <= v <= cub c ->
  (sat a {| cols := l1 ++ with_bounds c v v :: l2; rows := rs; obj := ob; maximize := mx |} <->
   sat a {| cols := l1 ++ c :: l2; rows := mkrow [(cvar c, 1)] SEq v :: rs; obj := ob; maximize := mx |}).
Proof.
  intros Hv. unfold sat. cbn [cols rows]. rewrite !Forall_app, !Forall_cons_iff, (fix_eq_row a c v Hv). tauto.
Qed.

(* the objective is untouched by either variant *)
Lemma objective_same a cs1 cs2 rs1 rs2 ob mx :
  objective a {| cols := cs1; rows := rs1; obj := ob; maximize := mx |} =
  objective a {| cols := cs2; rows := rs2; obj := ob; maximize := mx |}.
Proof. reflexivity. Qed.
