(* C17 — proofs, part 2: what the verified checker [cond_ok] establishes about networkx' condensation;
   reachability in the condensation = reachability in the graph; the query models equal the
   declarative reachability sets; is_scc_edge. *)
From Coq Require Import List NArith ZArith Bool Arith Lia.
Import ListNotations.
From FP Require Import Reach ReachProofs1.
Set Default Timeout 30.

Record cond_spec (V : list node) (E : list edge) (C : cond) : Prop := {
  cs_nodupV : NoDup V;
  cs_edgesV : forall u v, In (u, v) E -> In u V /\ In v V;
  cs_scc : forall u v, In u V -> In v V -> (c_map C u = c_map C v <-> greach E u v /\ greach E v u);
  cs_edge_fwd : forall u v, In (u, v) E -> c_map C u <> c_map C v -> In (c_map C u, c_map C v) (c_edges C);
  cs_edge_bwd : forall a b, In (a, b) (c_edges C) -> a <> b /\ exists u v, In (u, v) E /\ c_map C u = a /\ c_map C v = b;
  cs_topo_nodup : NoDup (c_topo C);
  cs_topo_all : forall v, In v V -> In (c_map C v) (c_topo C);
  cs_topo_before : forall a b, In (a, b) (c_edges C) -> beforeb (c_topo C) a b = true }.

Lemma closure_V V E u y : NoDup V -> (forall a b, In (a, b) E -> In a V /\ In b V) -> In u V ->
  (In y (closure V (succs_of E) u) <-> greach E u y).
Proof.
  intros ND HE Hu. apply closure_correct_N; try assumption.
  intros x z _ Hz. apply succs_of_In in Hz. apply HE in Hz. tauto.
Qed.

Theorem cond_ok_spec V E C : cond_ok V E C = true -> cond_spec V E C.
Proof.
  unfold cond_ok. rewrite !andb_true_iff. intros (((((((H1 & H2) & H3) & H4) & H5) & H6) & H7) & H8).
  apply nodupb_NoDup in H1. apply nodupb_NoDup in H6.
  rewrite forallb_forall in H2, H3, H4, H5, H7, H8.
  assert (HE : forall a b, In (a, b) E -> In a V /\ In b V).
  { intros a b Hab. specialize (H2 _ Hab). cbn in H2. apply andb_true_iff in H2. rewrite !memN_In in H2. exact H2. }
  constructor; try assumption.
  - intros u v Hu Hv. specialize (H3 u Hu). rewrite forallb_forall in H3. specialize (H3 v Hv).
    apply eqb_prop in H3. unfold mutual in H3.
    split.
    + intros Eq. apply N.eqb_eq in Eq. rewrite Eq in H3. symmetry in H3. apply andb_true_iff in H3.
      rewrite !memN_In in H3. rewrite !closure_V in H3 by assumption. exact H3.
    + intros [R1 R2]. apply N.eqb_eq. rewrite H3. apply andb_true_iff. rewrite !memN_In.
      rewrite !closure_V by assumption. tauto.
  - intros u v Huv Hne. specialize (H4 _ Huv). cbn [fst snd] in H4. apply orb_true_iff in H4.
    destruct H4 as [H4|H4]; [apply N.eqb_eq in H4; contradiction|apply memE_In; exact H4].
  - intros a b Hab. specialize (H5 _ Hab). apply andb_true_iff in H5. destruct H5 as [H5 H5'].
    cbn [fst snd] in H5'. apply negb_true_iff, N.eqb_neq in H5'. split; [assumption|].
    apply existsb_exists in H5. destruct H5 as ([u v] & Huv & He). cbn [fst snd] in He.
    destruct (eqe_spec (c_map C u, c_map C v) (a, b)) as [Eq|]; [|discriminate].
    inversion Eq. exists u, v. tauto.
  - intros v Hv. apply memN_In. apply H7, Hv.
  - intros a b Hab. apply (H8 _ Hab).
Qed.

Section Bridge.
  Variable V : list node.
  Variable E : list edge.
  Variable C : cond.
  Hypothesis CS : cond_spec V E C.

  Notation cmap := (c_map C).
  Definition creach : N -> N -> Prop := reach (succs_of (c_edges C)).

  Lemma greach_V u x : greach E u x -> u = x \/ (In u V /\ In x V).
  Proof.
    induction 1 as [|a b R IH Hb]; [left; reflexivity|right].
    apply succs_of_In in Hb. destruct (cs_edgesV _ _ _ CS _ _ Hb) as [Ha Hb'].
    destruct IH as [->|[Hu _]]; tauto.
  Qed.

  Lemma creach_greach u c : In u V -> creach (cmap u) c -> forall x, In x V -> cmap x = c -> greach E u x.
  Proof.
    intros Hu R. induction R as [|a b R IH Hb]; intros x Hx Hc.
    - apply (cs_scc _ _ _ CS u x Hu Hx). symmetry. exact Hc.
    - apply succs_of_In in Hb. destruct (cs_edge_bwd _ _ _ CS _ _ Hb) as (_ & y & z & Hyz & Hy & Hz).
      destruct (cs_edgesV _ _ _ CS _ _ Hyz) as [HyV HzV].
      specialize (IH y HyV Hy).
      assert (R2 : greach E y z) by (apply reach_one, succs_of_In; assumption).
      assert (R3 : greach E z x) by (apply (cs_scc _ _ _ CS z x HzV Hx); congruence).
      unfold greach in *. eapply reach_trans; [eapply reach_trans|]; eassumption.
  Qed.

  Lemma greach_creach u x : greach E u x -> creach (cmap u) (cmap x).
  Proof.
    induction 1 as [|a b R IH Hb]; [constructor|].
    apply succs_of_In in Hb. destruct (N.eq_dec (cmap a) (cmap b)) as [Eq|Hne].
    - rewrite <- Eq. exact IH.
    - econstructor 2; [exact IH|]. apply succs_of_In. apply (cs_edge_fwd _ _ _ CS); assumption.
  Qed.

  Lemma cedges_topo a b : In (a, b) (c_edges C) -> In a (c_topo C) /\ In b (c_topo C).
  Proof.
    intros H. destruct (cs_edge_bwd _ _ _ CS _ _ H) as (_ & u & v & Huv & <- & <-).
    destruct (cs_edgesV _ _ _ CS _ _ Huv). split; apply (cs_topo_all _ _ _ CS); assumption.
  Qed.

  Lemma descendants_iff v d : In v V -> (In d (descendants C (cmap v)) <-> creach (cmap v) d).
  Proof.
    intros Hv. unfold descendants. apply closure_correct_N.
    - apply (cs_topo_nodup _ _ _ CS).
    - intros x z _ Hz. apply succs_of_In in Hz. apply cedges_topo in Hz. tauto.
    - apply (cs_topo_all _ _ _ CS), Hv.
  Qed.

  Lemma ancestors_iff v d : In v V -> (In d (ancestors C (cmap v)) <-> creach d (cmap v)).
  Proof.
    intros Hv. unfold ancestors. rewrite closure_correct_N.
    - apply (greach_rev_iff (c_edges C)).
    - apply (cs_topo_nodup _ _ _ CS).
    - intros x z _ Hz. apply preds_of_In in Hz. apply cedges_topo in Hz. tauto.
    - apply (cs_topo_all _ _ _ CS), Hv.
  Qed.

  Lemma in_by_scc x c : In x (nodes_by_scc V C c) <-> In x V /\ cmap x = c.
  Proof. unfold nodes_by_scc. rewrite filter_In, N.eqb_eq. tauto. Qed.

  Theorem nodes_reachable_sets v :
    (In v V -> exists l, nodes_reachable_cold V C v = Some l /\ forall x, In x l <-> greach E v x) /\
    (~ In v V -> nodes_reachable_cold V C v = None).
  Proof.
    unfold nodes_reachable_cold. split; intros Hv.
    - assert (M : memN v V = true) by (apply memN_In; assumption). rewrite M.
      eexists. split; [reflexivity|]. intros x. rewrite in_flat_map. split.
      + intros (c & Hc & Hx). apply in_by_scc in Hx. destruct Hx as [HxV Hxc].
        apply descendants_iff in Hc; [|assumption]. eapply creach_greach; eassumption.
      + intros R. exists (cmap x). split.
        * apply descendants_iff; [assumption|]. apply greach_creach, R.
        * apply in_by_scc. split; [|reflexivity]. destruct (greach_V _ _ R) as [<-|[_ H]]; assumption.
    - apply memN_false in Hv. rewrite Hv. reflexivity.
  Qed.

  Theorem nodes_reaching_sets v :
    (In v V -> exists l, nodes_reaching_cold V C v = Some l /\ forall x, In x l <-> greach E x v) /\
    (~ In v V -> nodes_reaching_cold V C v = None).
  Proof.
    unfold nodes_reaching_cold. split; intros Hv.
    - assert (M : memN v V = true) by (apply memN_In; assumption). rewrite M.
      eexists. split; [reflexivity|]. intros x. rewrite in_flat_map. split.
      + intros (c & Hc & Hx). apply in_by_scc in Hx. destruct Hx as [HxV Hxc].
        apply ancestors_iff in Hc; [|assumption]. subst c. eapply creach_greach; try eassumption. reflexivity.
      + intros R. exists (cmap x). split.
        * apply ancestors_iff; [assumption|]. apply greach_creach, R.
        * apply in_by_scc. split; [|reflexivity]. destruct (greach_V _ _ R) as [->|[H _]]; assumption.
    - apply memN_false in Hv. rewrite Hv. reflexivity.
  Qed.

  (* an edge (u,v) lies inside an SCC iff its head reaches its tail *)
  Theorem is_scc_edge_sets u v :
    (In (u, v) E -> exists b, is_scc_edge_model E C u v = Some b /\ (b = true <-> greach E v u)) /\
    (~ In (u, v) E -> is_scc_edge_model E C u v = None).
  Proof.
    unfold is_scc_edge_model. split; intros H.
    - assert (M : memE (u, v) E = true) by (apply memE_In; assumption). rewrite M.
      eexists. split; [reflexivity|]. rewrite N.eqb_eq.
      destruct (cs_edgesV _ _ _ CS _ _ H) as [Hu Hv]. rewrite (cs_scc _ _ _ CS u v Hu Hv).
      split; [tauto|]. intros R. split; [|assumption]. apply reach_one, succs_of_In, H.
    - apply memE_false in H. rewrite H. reflexivity.
  Qed.
End Bridge.
