(* C16: the upper bound ub = w_max * |E| on the variables of MinErrorFlow's model loses no optimum (mef_bound_no_loss).
   Generic part: a non-negative circulation (balanced at every node of an edge list with arbitrary end-point maps)
   in which some edge carries more than the sum F of the levels [lowb] can be lowered along a simple cycle of edges
   that lie above their level, without lowering any edge below its level.  Iterating gives a circulation below F. *)
From Coq Require Import List NArith ZArith QArith Lqa Bool Lia Permutation.
Import ListNotations.
From FP Require Import Lin Blocks BlocksProofs PathEnc PathEncProofs MiscEnc MiscEncProofs Reach ReachProofs1.
Set Default Timeout 60.
Open Scope Q_scope.

(* ---------------------------------------------------------------- sums over filtered lists *)
Lemma sumq_filter_split {A} (g : A -> Q) (p : A -> bool) l :
  sumq g l == sumq g (filter p l) + sumq g (filter (fun x => negb (p x)) l).
Proof. induction l as [|x l IH]; cbn [sumq filter]; [ring|]. destruct (p x); cbn [negb sumq]; rewrite IH; ring. Qed.

Lemma sumq_filter_le {A} (g : A -> Q) (p : A -> bool) l : (forall x, In x l -> 0 <= g x) -> sumq g (filter p l) <= sumq g l.
Proof.
  intros H. rewrite (sumq_filter_split g p l). assert (0 <= sumq g (filter (fun x => negb (p x)) l)).
  { apply sumq_nonneg. intros x Hx. apply filter_In in Hx. apply H. tauto. } lra.
Qed.

Lemma sumq_ge_member {A} (g : A -> Q) l x : (forall z, In z l -> 0 <= g z) -> In x l -> g x <= sumq g l.
Proof.
  induction l as [|z l IH]; intros H Hx; [destruct Hx|]. cbn [sumq].
  assert (0 <= g z) by (apply H; left; reflexivity).
  assert (0 <= sumq g l) by (apply sumq_nonneg; intros w Hw; apply H; right; exact Hw).
  destruct Hx as [->|Hx]; [lra|]. assert (g x <= sumq g l) by (apply IH; [intros w Hw; apply H; right; exact Hw|exact Hx]). lra.
Qed.

Lemma filter_filter {A} (p q : A -> bool) l : filter p (filter q l) = filter (fun x => q x && p x) l.
Proof. induction l as [|x l IH]; cbn [filter]; [reflexivity|]. destruct (q x); cbn [filter andb]; [destruct (p x)|]; rewrite IH; reflexivity. Qed.

Lemma filter_ext_in' {A} (p q : A -> bool) l : (forall x, In x l -> p x = q x) -> filter p l = filter q l.
Proof. induction l as [|x l IH]; intros H; cbn [filter]; [reflexivity|]. rewrite (H x (or_introl eq_refl)), IH; [reflexivity|]. intros z Hz. apply H. right. exact Hz. Qed.

(* sum over the nodes of a duplicate-free list T of the per-node sums = sum over the edges whose key lies in T *)
Lemma sumq_by_key (g : edge -> Q) (key : edge -> node) (E : list edge) : forall T, NoDup T ->
  sumq (fun x => sumq g (filter (fun e => (key e =? x)%N) E)) T == sumq g (filter (fun e => memN (key e) T) E).
Proof.
  induction T as [|x T IH]; intros ND; cbn [sumq].
  - rewrite (filter_ext_in' _ (fun _ => false)) by reflexivity. induction E; cbn; [reflexivity|assumption].
  - inversion ND as [|? ? Hx ND']; subst. rewrite (IH ND').
    rewrite (sumq_filter_split g (fun e => (key e =? x)%N) (filter (fun e => memN (key e) (x :: T)) E)).
    rewrite !filter_filter.
    assert (E1 : filter (fun e => memN (key e) (x :: T) && (key e =? x)%N) E = filter (fun e => (key e =? x)%N) E).
    { apply filter_ext_in'. intros e _. unfold memN. cbn [existsb]. destruct (key e =? x)%N eqn:Ek; cbn [orb andb]; [reflexivity|].
      try rewrite andb_false_r. reflexivity. }
    assert (E2 : filter (fun e => memN (key e) (x :: T) && negb (key e =? x)%N) E = filter (fun e => memN (key e) T) E).
    { apply filter_ext_in'. intros e _. unfold memN. cbn [existsb]. destruct (key e =? x)%N eqn:Ek; cbn [orb andb negb].
      - apply N.eqb_eq in Ek. subst x. try rewrite andb_false_r. symmetry. apply not_true_is_false. intros C. apply Hx. apply memN_In. exact C.
      - try rewrite andb_true_r. reflexivity. }
    rewrite E1, E2. reflexivity.
Qed.

Lemma sumq_sub {A} (g h : A -> Q) l : sumq (fun x => g x - h x) l == sumq g l - sumq h l.
Proof. induction l as [|x l IH]; cbn [sumq]; [ring|]. rewrite IH. ring. Qed.

Lemma sumq_zero {A} (g : A -> Q) l : (forall x, In x l -> g x == 0) -> sumq g l == 0.
Proof. induction l as [|x l IH]; intros H; cbn [sumq]; [reflexivity|]. rewrite (H x (or_introl eq_refl)), IH; [ring|]. intros z Hz. apply H. right. exact Hz. Qed.

Definition ind (b : bool) : Q := if b then 1 else 0.

Lemma NoDup_suffix {A} (l1 l2 : list A) : NoDup (l1 ++ l2) -> NoDup l2.
Proof. induction l1 as [|x l1 IH]; cbn [app]; intros H; [exact H|]. inversion H; subst. apply IH. assumption. Qed.

(* ---------------------------------------------------------------- circulations over an edge list with end-point maps *)
Section Circ.
  Variables (src dst : edge -> node) (E : list edge).
  Hypothesis ND : NoDup E.
  Variable lowb : edge -> Q.
  Hypothesis lowb_nn : forall e, In e E -> 0 <= lowb e.

  Definition infl (y : edge -> Q) (x : node) : Q := sumq y (filter (fun e => (dst e =? x)%N) E).
  Definition outfl (y : edge -> Q) (x : node) : Q := sumq y (filter (fun e => (src e =? x)%N) E).
  Definition exc (y : edge -> Q) (x : node) : Q := infl y x - outfl y x.
  Definition balanced (y : edge -> Q) : Prop := forall x, exc y x == 0.
  Definition above (y : edge -> Q) (e : edge) : bool := Qlt_bool (lowb e) (y e).
  Definition Fsum : Q := sumq lowb E.

  Definition updq (y : edge -> Q) (e : edge) (c : Q) : edge -> Q := fun e' => if eqe e' e then c else y e'.

  Lemma eqe_true e e' : eqe e e' = true <-> e = e'.
  Proof. destruct (eqe_spec e e'); split; congruence. Qed.

  Lemma sumq_updq y e c : forall l, NoDup l -> sumq (updq y e c) l == sumq y l + (if memE e l then c - y e else 0).
  Proof.
    induction l as [|z l IH]; intros Hn; [cbn; ring|]. inversion Hn as [|? ? Hz Hn']; subst.
    change (memE e (z :: l)) with (eqe e z || memE e l). cbn [sumq]. rewrite (IH Hn'). unfold updq at 1. destruct (eqe z e) eqn:Ez.
    - apply eqe_true in Ez. subst z. assert (H : eqe e e = true) by (apply eqe_true; reflexivity). rewrite H. cbn [orb].
      assert (H2 : memE e l = false) by (apply not_true_is_false; intros C; apply Hz; apply memE_In; exact C). rewrite H2. ring.
    - assert (Ee : eqe e z = false). { apply not_true_is_false. intros C. apply eqe_true in C. subst z. assert (eqe e e = true) by (apply eqe_true; reflexivity). congruence. }
      rewrite Ee. cbn [orb]. ring.
  Qed.

  Lemma memE_filter e (p : edge -> bool) l : memE e (filter p l) = memE e l && p e.
  Proof.
    destruct (memE e (filter p l)) eqn:H1.
    - apply memE_In in H1. apply filter_In in H1. destruct H1 as [H1 H2]. apply memE_In in H1. rewrite H1, H2. reflexivity.
    - symmetry. apply not_true_is_false. intros C. apply andb_true_iff in C. destruct C as [C1 C2]. apply memE_In in C1.
      assert (In e (filter p l)) by (apply filter_In; split; assumption). apply memE_In in H. congruence.
  Qed.

  Lemma exc_updq y e c x : In e E -> exc (updq y e c) x == exc y x + (c - y e) * (ind (dst e =? x)%N - ind (src e =? x)%N).
  Proof.
    intros He. unfold exc, infl, outfl. rewrite !sumq_updq by (apply NoDup_filter; exact ND). rewrite !memE_filter.
    assert (HeE : memE e E = true) by (apply memE_In; exact He). rewrite HeE. cbn [andb]. unfold ind.
    destruct (dst e =? x)%N, (src e =? x)%N; ring.
  Qed.

  (* chains of edges of E *)
  Fixpoint chain (a : node) (P : list edge) (b : node) : Prop :=
    match P with [] => a = b | e :: P' => In e E /\ src e = a /\ chain (dst e) P' b end.

  Lemma chain_app : forall P a b Q c, chain a P b -> chain b Q c -> chain a (P ++ Q) c.
  Proof. induction P as [|e P IH]; intros a b Q c H1 H2; cbn [chain app] in *; [subst; exact H2|]. destruct H1 as (H & H' & H''). repeat split; try assumption. eapply IH; eassumption. Qed.

  Lemma chain_suffix : forall Q1 a e Q2 b, chain a (Q1 ++ e :: Q2) b -> chain (dst e) Q2 b.
  Proof. induction Q1 as [|z Q1 IH]; intros a e Q2 b H; cbn [chain app] in H; [tauto|]. destruct H as (_ & _ & H). eapply IH. exact H. Qed.

  Lemma chain_in : forall P a b, chain a P b -> forall e, In e P -> In e E.
  Proof. induction P as [|z P IH]; intros a b H e He; [destruct He|]. cbn [chain] in H. destruct H as (Hz & _ & H). destruct He as [<-|He]; [exact Hz|eapply IH; eassumption]. Qed.

  (* loop erasure: a chain contains a chain with pairwise different visited nodes *)
  Lemma chain_simple : forall P a b, chain a P b -> exists P', chain a P' b /\ NoDup (a :: map dst P') /\ incl P' P.
  Proof.
    induction P as [|e P IH]; intros a b H.
    - exists []. cbn. repeat split; [exact H|repeat constructor; intros []|intros x []].
    - cbn [chain] in H. destruct H as (He & Hs & H). destruct (IH _ _ H) as (P1 & Hc & Hn & Hi).
      destruct (in_dec N.eq_dec a (dst e :: map dst P1)) as [Hin|Hout].
      + destruct Hin as [Ha|Hin].
        * exists P1. rewrite <- Ha. split; [exact Hc|]. split; [exact Hn|]. intros x Hx. right. apply Hi. exact Hx.
        * apply in_map_iff in Hin. destruct Hin as (e' & He' & Hin'). apply in_split in Hin'. destruct Hin' as (Q1 & Q2 & ->).
          exists Q2. split; [rewrite <- He'; eapply chain_suffix; exact Hc|]. split.
          -- rewrite map_app in Hn. cbn [map] in Hn. rewrite He' in Hn.
             apply (NoDup_suffix (dst e :: map dst Q1) (a :: map dst Q2)). exact Hn.
          -- intros x Hx. right. apply Hi. apply in_or_app. right. right. exact Hx.
      + exists (e :: P1). cbn [chain map]. split; [repeat split; assumption|]. split; [constructor; assumption|].
        intros x [<-|Hx]; [left; reflexivity|right; apply Hi; exact Hx].
  Qed.

  (* lowering every edge of a list by delta *)
  Fixpoint reduce (delta : Q) (P : list edge) (y : edge -> Q) : edge -> Q :=
    match P with [] => y | e :: P' => let y' := reduce delta P' y in updq y' e (y' e - delta) end.

  Lemma reduce_out delta : forall P y e, ~ In e P -> reduce delta P y e = y e.
  Proof.
    induction P as [|z P IH]; intros y e H; cbn [reduce]; [reflexivity|]. unfold updq.
    destruct (eqe e z) eqn:Ez; [apply eqe_true in Ez; subst; exfalso; apply H; left; reflexivity|]. apply IH. intros C. apply H. right. exact C.
  Qed.

  Lemma reduce_in delta : forall P y e, NoDup P -> In e P -> reduce delta P y e = y e - delta.
  Proof.
    induction P as [|z P IH]; intros y e Hn H; [destruct H|]. inversion Hn as [|? ? Hz Hn']; subst. cbn [reduce]. unfold updq.
    destruct (eqe e z) eqn:Ez.
    - apply eqe_true in Ez. subst z. rewrite (reduce_out delta P y e Hz). reflexivity.
    - destruct H as [->|H]; [assert (eqe e e = true) by (apply eqe_true; reflexivity); congruence|]. apply IH; assumption.
  Qed.

  Lemma exc_reduce delta y x : forall P a b, chain a P b ->
    exc (reduce delta P y) x == exc y x - delta * (ind (b =? x)%N - ind (a =? x)%N).
  Proof.
    induction P as [|e P IH]; intros a b H; cbn [chain reduce] in *.
    - subst. ring.
    - destruct H as (He & Hs & H). rewrite (exc_updq _ e _ x He), (IH _ _ H). subst a. ring.
  Qed.

  (* ---- one lowering step ---- *)
  Fixpoint argmin (sl : edge -> Q) (e : edge) (P : list edge) : edge :=
    match P with [] => e | z :: P' => let m := argmin sl z P' in if Qle_bool (sl e) (sl m) then e else m end.
  Lemma argmin_spec sl : forall P e, In (argmin sl e P) (e :: P) /\ forall z, In z (e :: P) -> sl (argmin sl e P) <= sl z.
  Proof.
    induction P as [|w P IH]; intros e; cbn [argmin].
    - split; [left; reflexivity|]. intros z [<-|[]]. lra.
    - destruct (IH w) as [Hin Hle]. destruct (Qle_bool (sl e) (sl (argmin sl w P))) eqn:Eq.
      + apply Qle_bool_iff in Eq. split; [left; reflexivity|]. intros z [<-|Hz]; [lra|]. specialize (Hle z Hz). lra.
      + assert (sl (argmin sl w P) < sl e). { apply Qnot_le_lt. intros C. apply Qle_bool_iff in C. congruence. }
        split; [right; exact Hin|]. intros z [<-|Hz]; [lra|]. apply Hle. exact Hz.
  Qed.

  Lemma filter_length_lt {A} (p q : A -> bool) (l : list A) (x : A) :
    (forall z, In z l -> p z = true -> q z = true) -> In x l -> q x = true -> p x = false ->
    (length (filter p l) < length (filter q l))%nat.
  Proof.
    induction l as [|z l IH]; intros Himp Hx Hq Hp; [destruct Hx|].
    assert (Hle : forall l', (forall z, In z l' -> p z = true -> q z = true) -> (length (filter p l') <= length (filter q l'))%nat).
    { induction l' as [|w l' IHl]; intros H; cbn [filter]; [lia|]. destruct (p w) eqn:Ep.
      - rewrite (H w (or_introl eq_refl) Ep). cbn [length]. specialize (IHl (fun z Hz => H z (or_intror Hz))). lia.
      - specialize (IHl (fun z Hz => H z (or_intror Hz))). destruct (q w); cbn [length]; lia. }
    cbn [filter]. destruct Hx as [->|Hx].
    - rewrite Hp, Hq. cbn [length]. specialize (Hle l (fun z Hz => Himp z (or_intror Hz))). lia.
    - specialize (IH (fun z Hz => Himp z (or_intror Hz)) Hx Hq Hp). destruct (p z) eqn:Ep.
      + rewrite (Himp z (or_introl eq_refl) Ep). cbn [length]. lia.
      + destruct (q z); cbn [length]; lia.
  Qed.

  Definition cnt (y : edge -> Q) : nat := length (filter (above y) E).
  (* y1 is obtained from y by lowering some edges, none below its level *)
  Definition lowered (y1 y : edge -> Q) : Prop := forall e, In e E -> y1 e == y e \/ (lowb e <= y1 e /\ y1 e <= y e).

  Section Step.
    Variable y : edge -> Q.
    Hypothesis ypos : forall e, In e E -> 0 <= y e.
    Hypothesis bal : balanced y.
    Variable e0 : edge.
    Hypothesis He0 : In e0 E.
    Hypothesis Hbig : Fsum < y e0.

    Definition Unodes : list node := nodup N.eq_dec (map src E ++ map dst E).
    Definition stepf (x : node) : list node := map dst (filter (fun e => above y e && (src e =? x)%N) E).
    Definition Tset : list node := closure Unodes stepf (dst e0).

    Lemma T_spec z : In z Tset <-> reach stepf (dst e0) z.
    Proof.
      unfold Tset. apply closure_correct_N.
      - apply NoDup_nodup.
      - intros x w _ Hw. unfold stepf in Hw. apply in_map_iff in Hw. destruct Hw as (e & <- & He). apply filter_In in He.
        apply nodup_In. apply in_or_app. right. apply in_map. tauto.
      - apply nodup_In. apply in_or_app. right. apply in_map. exact He0.
    Qed.

    Lemma T_closed e : In e E -> above y e = true -> In (src e) Tset -> In (dst e) Tset.
    Proof.
      intros He Ha Hs. apply T_spec. apply T_spec in Hs. eapply reach_step; [exact Hs|].
      unfold stepf. apply in_map. apply filter_In. split; [exact He|]. rewrite Ha, N.eqb_refl. reflexivity.
    Qed.

    Lemma reach_chain z : reach stepf (dst e0) z -> exists P, chain (dst e0) P z /\ forall e, In e P -> above y e = true.
    Proof.
      induction 1 as [|x w _ (P & Hc & Ha) Hw].
      - exists []. split; [reflexivity|intros e []].
      - unfold stepf in Hw. apply in_map_iff in Hw. destruct Hw as (e & <- & He). apply filter_In in He. destruct He as [He Hp].
        apply andb_true_iff in Hp. destruct Hp as [Hab Hsrc]. apply N.eqb_eq in Hsrc.
        exists (P ++ [e]). split.
        + eapply chain_app; [exact Hc|]. cbn [chain]. repeat split; assumption.
        + intros z Hz. apply in_app_or in Hz. destruct Hz as [Hz|[<-|[]]]; [apply Ha; exact Hz|exact Hab].
    Qed.

    Lemma above_le e : In e E -> above y e = false -> y e <= lowb e.
    Proof. intros _ H. unfold above in H. destruct (Qlt_le_dec (lowb e) (y e)) as [C|C]; [apply Qlt_bool_iff in C; congruence|exact C]. Qed.

    (* the cut argument: the tail of e0 is reachable from its head along edges above their level *)
    Lemma tail_reachable : In (src e0) Tset.
    Proof.
      destruct (memN (src e0) Tset) eqn:Hm; [apply memN_In; exact Hm|]. exfalso.
      assert (HT : NoDup Tset) by apply closure_NoDup.
      assert (Hsum : sumq y (filter (fun e => memN (dst e) Tset) E) == sumq y (filter (fun e => memN (src e) Tset) E)).
      { rewrite <- (sumq_by_key y dst E Tset HT), <- (sumq_by_key y src E Tset HT).
        assert (Z : sumq (fun x => exc y x) Tset == 0) by (apply sumq_zero; intros x _; apply bal).
        unfold exc in Z. rewrite sumq_sub in Z. unfold infl, outfl in Z. lra. }
      rewrite (sumq_filter_split y (fun e => memN (src e) Tset) (filter (fun e => memN (dst e) Tset) E)) in Hsum.
      rewrite (sumq_filter_split y (fun e => memN (dst e) Tset) (filter (fun e => memN (src e) Tset) E)) in Hsum.
      rewrite !filter_filter in Hsum.
      assert (Eb : filter (fun e => memN (dst e) Tset && memN (src e) Tset) E = filter (fun e => memN (src e) Tset && memN (dst e) Tset) E)
        by (apply filter_ext_in'; intros e _; apply andb_comm).
      rewrite Eb in Hsum.
      set (ent := filter (fun e => memN (dst e) Tset && negb (memN (src e) Tset)) E) in *.
      set (lea := filter (fun e => memN (src e) Tset && negb (memN (dst e) Tset)) E) in *.
      assert (Hent : y e0 <= sumq y ent).
      { apply sumq_ge_member.
        - intros z Hz. apply filter_In in Hz. apply ypos. tauto.
        - apply filter_In. split; [exact He0|]. rewrite Hm. cbn [negb]. rewrite andb_true_r. apply memN_In. apply T_spec. apply reach_refl. }
      assert (Hlea : sumq y lea <= Fsum).
      { apply (Qle_trans _ (sumq lowb lea)).
        - apply sumq_le. intros e He. apply filter_In in He. destruct He as [He Hp]. apply andb_true_iff in Hp. destruct Hp as [H1 H2].
          apply above_le; [exact He|]. apply not_true_is_false. intros Ha. apply negb_true_iff in H2.
          assert (In (dst e) Tset) by (apply T_closed; [exact He|exact Ha|apply memN_In; exact H1]). apply memN_In in H. congruence.
        - apply sumq_filter_le. exact lowb_nn. }
      lra.
    Qed.

    Lemma above_e0 : above y e0 = true.
    Proof. unfold above. apply Qlt_bool_iff. pose proof (sumq_ge_member lowb E e0 lowb_nn He0). unfold Fsum in Hbig. lra. Qed.

    Lemma cycle_exists : exists P, In e0 P /\ NoDup P /\ (forall e, In e P -> In e E /\ above y e = true) /\ chain (src e0) P (src e0).
    Proof.
      pose proof tail_reachable as Ht. apply T_spec in Ht. destruct (reach_chain _ Ht) as (P0 & Hc0 & Ha0).
      destruct (chain_simple _ _ _ Hc0) as (P1 & Hc & Hn & Hi).
      exists (e0 :: P1). split; [left; reflexivity|]. split; [|split].
      - apply (NoDup_map_inv dst). exact Hn.
      - intros e [<-|He]; [split; [exact He0|exact above_e0]|]. split; [eapply chain_in; eassumption|apply Ha0; apply Hi; exact He].
      - cbn [chain]. repeat split; [exact He0|exact Hc].
    Qed.

    Theorem lower_step : exists y1, balanced y1 /\ lowered y1 y /\ (cnt y1 < cnt y)%nat /\
      ((forall e, In e E -> is_int (y e)) -> (forall e, In e E -> is_int (lowb e)) -> forall e, In e E -> is_int (y1 e)).
    Proof.
      destruct cycle_exists as (P & Hin0 & Hnd & HP & Hch).
      set (sl := fun e => y e - lowb e).
      destruct P as [|p0 P']; [destruct Hin0|].
      destruct (argmin_spec sl P' p0) as [Hmin_in Hmin_le]. set (em := argmin sl p0 P') in *. set (delta := sl em).
      assert (Hdpos : 0 < delta).
      { unfold delta, sl. destruct (HP em Hmin_in) as [_ Ha]. unfold above in Ha. apply Qlt_bool_iff in Ha. lra. }
      exists (reduce delta (p0 :: P') y). split; [|split; [|split]].
      - intros x. rewrite (exc_reduce delta y x _ _ _ Hch), (bal x). ring.
      - intros e He. destruct (in_dec (fun a b => match eqe_spec a b with ReflectT _ H => left H | ReflectF _ H => right H end) e (p0 :: P')) as [Hi|Ho].
        + right. rewrite (reduce_in delta _ y e Hnd Hi). specialize (Hmin_le e Hi). unfold delta, sl in *. split; lra.
        + left. rewrite (reduce_out delta _ y e Ho). reflexivity.
      - unfold cnt. apply (filter_length_lt _ _ E em).
        + intros z Hz Ha. unfold above in *. apply Qlt_bool_iff in Ha. apply Qlt_bool_iff.
          destruct (in_dec (fun a b => match eqe_spec a b with ReflectT _ H => left H | ReflectF _ H => right H end) z (p0 :: P')) as [Hi|Ho].
          * rewrite (reduce_in delta _ y z Hnd Hi) in Ha. lra.
          * rewrite (reduce_out delta _ y z Ho) in Ha. exact Ha.
        + apply (HP em Hmin_in).
        + apply (HP em Hmin_in).
        + unfold above. rewrite (reduce_in delta _ y em Hnd Hmin_in). apply not_true_is_false. intros C. apply Qlt_bool_iff in C.
          unfold delta, sl in C. lra.
      - intros Hy Hl e He. assert (Hd : is_int delta) by (apply is_int_sub; [apply Hy|apply Hl]; apply (HP em Hmin_in)).
        destruct (in_dec (fun a b => match eqe_spec a b with ReflectT _ H => left H | ReflectF _ H => right H end) e (p0 :: P')) as [Hi|Ho].
        + rewrite (reduce_in delta _ y e Hnd Hi). apply is_int_sub; [apply Hy; exact He|exact Hd].
        + rewrite (reduce_out delta _ y e Ho). apply Hy. exact He.
    Qed.
  End Step.

  Lemma lowered_refl y : lowered y y.
  Proof. intros e _. left. reflexivity. Qed.
  Lemma lowered_trans y2 y1 y : lowered y2 y1 -> lowered y1 y -> lowered y2 y.
  Proof.
    intros H2 H1 e He. destruct (H2 e He) as [A|[A1 A2]], (H1 e He) as [B|[B1 B2]].
    - left. rewrite A. exact B.
    - right. rewrite A. split; assumption.
    - right. rewrite <- B. split; assumption.
    - right. split; [exact A1|lra].
  Qed.
  Lemma lowered_nonneg y1 y : (forall e, In e E -> 0 <= y e) -> lowered y1 y -> forall e, In e E -> 0 <= y1 e.
  Proof. intros Hy H e He. destruct (H e He) as [A|[A _]]; [rewrite A; apply Hy; exact He|pose proof (lowb_nn e He); lra]. Qed.

  (* iterating the step: every non-negative circulation can be lowered to one that stays below Fsum on every edge *)
  Theorem lower_all : forall n y, (cnt y <= n)%nat -> (forall e, In e E -> 0 <= y e) -> balanced y ->
    exists y', balanced y' /\ lowered y' y /\ (forall e, In e E -> y' e <= Fsum) /\
      ((forall e, In e E -> is_int (y e)) -> (forall e, In e E -> is_int (lowb e)) -> forall e, In e E -> is_int (y' e)).
  Proof.
    induction n as [|n IH]; intros y Hc Hy Hb.
    - (* no edge above its level: every edge is at most its level, hence at most Fsum *)
      exists y. split; [exact Hb|]. split; [apply lowered_refl|]. split; [|intros H _; exact H].
      intros e He. assert (Ha : above y e = false).
      { destruct (above y e) eqn:Ha; [|reflexivity]. exfalso. unfold cnt in Hc.
        assert (In e (filter (above y) E)) by (apply filter_In; split; assumption). destruct (filter (above y) E); [destruct H|cbn in Hc; lia]. }
      pose proof (above_le y e He Ha). pose proof (sumq_ge_member lowb E e lowb_nn He). unfold Fsum. lra.
    - destruct (existsb (fun e => Qlt_bool Fsum (y e)) E) eqn:Ex.
      + apply existsb_exists in Ex. destruct Ex as (e0 & He0 & Hbig). apply Qlt_bool_iff in Hbig.
        destruct (lower_step y Hy Hb e0 He0 Hbig) as (y1 & Hb1 & Hl1 & Hc1 & Hi1).
        destruct (IH y1 ltac:(lia) (lowered_nonneg y1 y Hy Hl1) Hb1) as (y' & Hb' & Hl' & Hle & Hi').
        exists y'. split; [exact Hb'|]. split; [eapply lowered_trans; eassumption|]. split; [exact Hle|].
        intros H1 H2. apply Hi'; [apply Hi1; assumption|exact H2].
      + exists y. split; [exact Hb|]. split; [apply lowered_refl|]. split; [|intros H _; exact H].
        intros e He. destruct (Qlt_le_dec Fsum (y e)) as [C|C]; [|exact C]. exfalso.
        assert (existsb (fun e => Qlt_bool Fsum (y e)) E = true) by (apply existsb_exists; exists e; split; [exact He|apply Qlt_bool_iff; exact C]). congruence.
  Qed.
End Circ.

(* ---------------------------------------------------------------- MinErrorFlow: the bound loses no optimum *)
Lemma sumq_const {A} (c : Q) (l : list A) : sumq (fun _ => c) l == c * inject_Z (Z.of_nat (length l)).
Proof.
  induction l as [|x l IH]; cbn [sumq length]; [ring|]. rewrite IH, Nat2Z.inj_succ. unfold Z.succ. rewrite inject_Z_plus. ring.
Qed.

Lemma qcancel (T A1 B1 A2 B2 : Q) : T == A1 + B1 -> T == A2 + B2 -> A1 == A2 -> B1 - B2 == 0.
Proof. intros. lra. Qed.

Section MefNoLoss.
  Variable I : mef_inst.
  Let E := mef_edges I.
  Hypothesis ND : NoDup E.
  Hypothesis f_nn : forall e, In e E -> 0 <= fval I e.
  Hypothesis f_int : mef_int I = true -> forall e, In e E -> is_int (fval I e).
  Hypothesis scale_nn : forall e, In e E -> 0 <= scale_of I e.

  (* a non-negative flow with conservation where the model requires it -- NO upper bound *)
  Definition is_flow_nb (y : edge -> Q) : Prop :=
    (forall e, In e E -> 0 <= y e /\ (mef_int I = true -> is_int (y e))) /\
    (forall v, In v (mef_nodes I) -> conserved I v = true -> sumq y (mef_in_edges E v) == sumq y (out_edges E v)).

  Definition Cs (v : node) : bool := memN v (mef_nodes I) && conserved I v.
  Definition pi (v : node) : node := if Cs v then (2 * v + 1)%N else 0%N.
  Definition psrc (e : edge) : node := pi (fst e).
  Definition pdst (e : edge) : node := pi (snd e).
  Definition lowb (e : edge) : Q := if ignored I e then 0 else fval I e.

  Lemma lowb_nn e : In e E -> 0 <= lowb e.
  Proof. intros He. unfold lowb. destruct (ignored I e); [lra|apply f_nn; exact He]. Qed.

  Lemma pi_zero w : (pi w =? 0)%N = negb (Cs w).
  Proof. unfold pi. destruct (Cs w); cbn [negb]; [apply N.eqb_neq; lia|reflexivity]. Qed.

  Lemma pi_odd w v : Cs v = true -> (pi w =? 2 * v + 1)%N = (w =? v)%N.
  Proof.
    intros Hv. unfold pi. destruct (Cs w) eqn:Hw.
    - destruct (N.eqb_spec w v) as [->|Hne]; [apply N.eqb_refl|]. apply N.eqb_neq. lia.
    - destruct (N.eqb_spec w v) as [->|Hne]; [congruence|]. apply N.eqb_neq. lia.
  Qed.

  Lemma pi_other w x : x <> 0%N -> ~ (Cs (N.div2 x) = true /\ x = (2 * N.div2 x + 1)%N) -> (pi w =? x)%N = false.
  Proof.
    intros H0 Hn. apply N.eqb_neq. intros Hp. unfold pi in Hp. destruct (Cs w) eqn:Hw; [|congruence].
    apply Hn. assert (N.div2 x = w). { subst x. rewrite N.div2_succ_double || (change (2 * w + 1)%N with (N.succ_double w) || idtac). destruct w; reflexivity. }
    subst w. split; [exact Hw|]. rewrite Hp. reflexivity.
  Qed.

  (* conservation at the conserved nodes = balance at every node after contracting all other nodes into node 0 *)
  Lemma conserved_sum_eq y : (forall v, In v (mef_nodes I) -> conserved I v = true -> sumq y (mef_in_edges E v) == sumq y (out_edges E v)) ->
    sumq y (filter (fun e => Cs (snd e)) E) == sumq y (filter (fun e => Cs (fst e)) E).
  Proof.
    intros Hc. set (T := filter Cs (nodup N.eq_dec (mef_nodes I))).
    assert (HT : NoDup T) by (apply NoDup_filter; apply NoDup_nodup).
    assert (Hm : forall v, memN v T = Cs v).
    { intros v. destruct (Cs v) eqn:Hv.
      - apply memN_In. apply filter_In. split; [|exact Hv]. apply nodup_In. unfold Cs in Hv. apply andb_true_iff in Hv. apply memN_In. tauto.
      - apply not_true_is_false. intros C. apply memN_In in C. apply filter_In in C. destruct C as [_ C]. congruence. }
    rewrite (filter_ext_in' (fun e => Cs (snd e)) (fun e => memN (snd e) T)) by (intros e _; symmetry; apply Hm).
    rewrite (filter_ext_in' (fun e => Cs (fst e)) (fun e => memN (fst e) T)) by (intros e _; symmetry; apply Hm).
    rewrite <- (sumq_by_key y snd E T HT), <- (sumq_by_key y fst E T HT). apply sumq_ext. intros v Hv.
    apply filter_In in Hv. destruct Hv as [_ Hv]. unfold Cs in Hv. apply andb_true_iff in Hv. destruct Hv as [H1 H2]. apply memN_In in H1.
    apply (Hc v H1 H2).
  Qed.

  Lemma infl_odd y v : Cs v = true -> infl pdst E y (2 * v + 1)%N = sumq y (mef_in_edges E v).
  Proof. intros H. unfold infl, mef_in_edges, pdst. f_equal. apply filter_ext_in'. intros e _. apply pi_odd. exact H. Qed.
  Lemma outfl_odd y v : Cs v = true -> outfl psrc E y (2 * v + 1)%N = sumq y (out_edges E v).
  Proof. intros H. unfold outfl, out_edges, psrc. f_equal. apply filter_ext_in'. intros e _. apply pi_odd. exact H. Qed.
  Lemma infl_zero y : infl pdst E y 0%N = sumq y (filter (fun e => negb (Cs (snd e))) E).
  Proof. unfold infl, pdst. f_equal. apply filter_ext_in'. intros e _. apply pi_zero. Qed.
  Lemma outfl_zero y : outfl psrc E y 0%N = sumq y (filter (fun e => negb (Cs (fst e))) E).
  Proof. unfold outfl, psrc. f_equal. apply filter_ext_in'. intros e _. apply pi_zero. Qed.
  Lemma filter_false {A} (l : list A) : filter (fun _ => false) l = [].
  Proof. induction l; cbn; assumption || reflexivity. Qed.
  Lemma infl_other y x : x <> 0%N -> ~ (Cs (N.div2 x) = true /\ x = (2 * N.div2 x + 1)%N) -> infl pdst E y x = 0.
  Proof. intros H0 Hn. unfold infl, pdst. rewrite (filter_ext_in' _ (fun _ => false)) by (intros e _; apply pi_other; assumption). rewrite filter_false. reflexivity. Qed.
  Lemma outfl_other y x : x <> 0%N -> ~ (Cs (N.div2 x) = true /\ x = (2 * N.div2 x + 1)%N) -> outfl psrc E y x = 0.
  Proof. intros H0 Hn. unfold outfl, psrc. rewrite (filter_ext_in' _ (fun _ => false)) by (intros e _; apply pi_other; assumption). rewrite filter_false. reflexivity. Qed.

  Lemma balanced_iff y :
    balanced psrc pdst E y <->
    (forall v, In v (mef_nodes I) -> conserved I v = true -> sumq y (mef_in_edges E v) == sumq y (out_edges E v)).
  Proof.
    split.
    - intros Hb v Hv Hc. assert (HCs : Cs v = true) by (unfold Cs; apply andb_true_iff; split; [apply memN_In; exact Hv|exact Hc]).
      specialize (Hb (2 * v + 1)%N). unfold exc in Hb. rewrite (infl_odd y v HCs), (outfl_odd y v HCs) in Hb. lra.
    - intros Hc x. unfold exc. destruct (N.eq_dec x 0) as [->|H0].
      + rewrite infl_zero, outfl_zero.
        pose proof (sumq_filter_split y (fun e => Cs (snd e)) E) as S1. pose proof (sumq_filter_split y (fun e => Cs (fst e)) E) as S2.
        pose proof (conserved_sum_eq y Hc).
        exact (qcancel _ _ _ _ _ S1 S2 H).
      + destruct (Cs (N.div2 x)) eqn:HC; [destruct (N.eq_dec x (2 * N.div2 x + 1)) as [Hx|Hx]|].
        * rewrite Hx, (infl_odd y _ HC), (outfl_odd y _ HC).
          unfold Cs in HC. apply andb_true_iff in HC. destruct HC as [H1 H2]. apply memN_In in H1. specialize (Hc _ H1 H2). lra.
        * rewrite infl_other, outfl_other by (try exact H0; tauto). lra.
        * rewrite infl_other, outfl_other by (try exact H0; intros [C _]; congruence). lra.
  Qed.

  Lemma wmax_ge e : In e E -> fval I e <= mef_wmax I.
  Proof.
    intros He. unfold mef_wmax. fold E. assert (Hin : In (fval I e) (map (fval I) E)) by (apply in_map; exact He).
    destruct (map (fval I) E) as [|x r]; [destruct Hin|]. destruct (list_max_ge r x) as [H1 H2]. destruct Hin as [<-|Hin]; [exact H1|apply H2; exact Hin].
  Qed.

  Lemma Fsum_le_ub : Fsum E lowb <= mef_ub I.
  Proof.
    unfold Fsum, mef_ub. fold E. rewrite <- (sumq_const (mef_wmax I) E). apply sumq_le. intros e He. unfold lowb.
    pose proof (wmax_ge e He). pose proof (f_nn e He). destruct (ignored I e); lra.
  Qed.

  Lemma cost_lowered y' y : lowered E lowb y' y -> flow_cost I y' <= flow_cost I y.
  Proof.
    intros Hl. unfold flow_cost.
    assert (H1 : sumq (fun e => scale_of I e * absd (fval I e) (y' e)) (charged I) <= sumq (fun e => scale_of I e * absd (fval I e) (y e)) (charged I)).
    { apply sumq_le. intros e He. destruct (charged_in I e He) as [HeE Hig]. fold E in HeE. pose proof (scale_nn e HeE) as Hs.
      assert (absd (fval I e) (y' e) <= absd (fval I e) (y e)).
      { destruct (absd_spec (fval I e) (y e)) as (A1 & A2 & _). apply absd_least.
        - destruct (Hl e HeE) as [Q|[Q1 Q2]]; [rewrite Q; exact A1|]. unfold lowb in Q1. rewrite Hig in Q1. lra.
        - destruct (Hl e HeE) as [Q|[Q1 Q2]]; [rewrite Q; exact A2|]. lra. }
      nra. }
    assert (H2 : mef_lambda I * sumq y' (src_out I) <= mef_lambda I * sumq y (src_out I)).
    { unfold src_out. destruct (Qlt_bool 0 (mef_lambda I)) eqn:L; [|cbn [sumq]; lra]. apply Qlt_bool_iff in L.
      assert (forall l, incl l E -> sumq y' l <= sumq y l).
      { intros l Hi. apply sumq_le. intros e He. destruct (Hl e (Hi e He)) as [Q|[_ Q]]; [rewrite Q|]; lra. }
      destruct (mef_src I) as [s|]; [|cbn [sumq]; lra].
      assert (sumq y' (out_edges (mef_edges I) s) <= sumq y (out_edges (mef_edges I) s)).
      { apply H. intros e He. unfold out_edges in He. apply filter_In in He. tauto. } nra. }
    apply Qplus_le_compat; [exact H1|exact H2].
  Qed.

  (* the variable bound of the model loses nothing: every flow is matched or beaten by a flow within the bounds *)
  Theorem mef_bound_no_loss y : is_flow_nb y -> exists y', is_flow_ub I y' /\ flow_cost I y' <= flow_cost I y.
  Proof.
    intros [Hy Hc].
    destruct (lower_all psrc pdst E ND lowb lowb_nn (cnt E lowb y) y (le_n _) (fun e He => proj1 (Hy e He)) (proj2 (balanced_iff y) Hc))
      as (y' & Hb & Hl & Hle & Hi).
    exists y'. split; [|apply cost_lowered; exact Hl]. split.
    - intros e He. fold E in He. split; [split|].
      + apply (lowered_nonneg E lowb lowb_nn y' y (fun e He => proj1 (Hy e He)) Hl e He).
      + pose proof (Hle e He). pose proof Fsum_le_ub. lra.
      + intros Hint. apply Hi; [intros z Hz; apply (Hy z Hz); exact Hint| |exact He].
        intros z Hz. unfold lowb. destruct (ignored I z); [exists 0%Z; reflexivity|apply f_int; assumption].
    - apply (proj1 (balanced_iff y')). exact Hb.
  Qed.
End MefNoLoss.

(* ---------------------------------------------------------------- the full optimality statement of C16 *)
Lemma f_range_of (I : mef_inst) : (forall e, In e (mef_edges I) -> 0 <= fval I e) ->
  forall e, In e (mef_edges I) -> 0 <= fval I e <= mef_ub I.
Proof.
  intros Hnn e He. split; [apply Hnn; exact He|]. pose proof (wmax_ge I e He) as Hw. pose proof (Hnn e He) as H0.
  unfold mef_ub. destruct (mef_edges I) as [|z l]; [destruct He|]. cbn [length]. rewrite Nat2Z.inj_succ. unfold Z.succ. rewrite inject_Z_plus.
  assert (0 <= inject_Z (Z.of_nat (length l))) by (change 0 with (inject_Z 0); rewrite <- Zle_Qle; lia).
  change (inject_Z 1) with 1. assert (0 <= mef_wmax I) by lra. nra.
Qed.

(* relative to the solver specification: an optimal solution of the rows of MinErrorFlow is a closest flow among ALL
   non-negative flows with conservation where required (no bound on the values; integral flows for weight_type = int) *)
Theorem mef_optimal_is_closest_full (I : mef_inst) (a : var -> Q) :
  NoDup (mef_edges I) ->
  (forall e, In e (mef_edges I) -> 0 <= fval I e) ->
  (mef_int I = true -> forall e, In e (mef_edges I) -> is_int (fval I e)) ->
  (forall e, In e (mef_edges I) -> 0 <= scale_of I e) ->
  sat a (encode_mef I) -> (forall b, sat b (encode_mef I) -> obj_le (encode_mef I) a b) ->
  is_flow_ub I (xof a) /\ forall y, is_flow_nb I y -> flow_cost I (xof a) <= flow_cost I y.
Proof.
  intros ND Hnn Hint Hs Hsat Hopt.
  destruct (mef_optimal_is_closest I (f_range_of I Hnn) Hint a Hs Hsat Hopt) as (Hflow & Hbest & _).
  split; [exact Hflow|]. intros y Hy. destruct (mef_bound_no_loss I ND Hnn Hint Hs y Hy) as (y' & Hy' & Hc).
  specialize (Hbest y' Hy'). lra.
Qed.

(* non-vacuity: a flow above the bound exists and is beaten by one within it (chain a -> b -> c, weights 1, 1: ub = 2) *)
Definition ex_nb : mef_inst :=
  {| mef_nodes := [0; 1; 2]%N; mef_edges := [(0, 1); (1, 2)]%N; mef_flow := [((0, 1)%N, 1); ((1, 2)%N, 1)];
     mef_ignore := []; mef_scale := []; mef_lambda := 0; mef_src := None; mef_int := true |}.
Lemma ex_nb_flow : is_flow_nb ex_nb (fun _ => 7) /\ mef_ub ex_nb == 2.
Proof.
  split; [split|vm_compute; reflexivity].
  - intros e _. split; [lra|intros _; exists 7%Z; reflexivity].
  - intros v [<-|[<-|[<-|[]]]] H; try discriminate H. vm_compute. reflexivity.
Qed.
