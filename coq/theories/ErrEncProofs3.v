(* Completeness side of the error models: adequacy of the bound w_max (clipping weights at max f never
   increases an error, and makes every error fit the Err bound), every choice of k unit s-t flows and
   admissible weights extends to a satisfying assignment of encode_klae with Err = the absolute
   errors, and the feasibility witness of encode_kmpe for k >= width (zero weights, slack max f). *)
From Coq Require Import List NArith ZArith QArith Qabs Qround Lqa Bool Arith Lia Permutation.
Import ListNotations.
From FP Require Import Lin Blocks BlocksProofs PathEnc PathEncProofs ErrEnc ErrEncProofs.
Set Default Timeout 120.
Local Open Scope Q_scope.

(* ------------------------------------------------------------------ arithmetic of clipping *)
Lemma qmin_cases a b : (qmin a b == a /\ a <= b)%Q \/ (qmin a b == b /\ b <= a)%Q.
Proof.
  unfold qmin. destruct (Qle_bool a b) eqn:E.
  - left. apply Qle_bool_iff in E. split; [reflexivity|exact E].
  - right. split; [reflexivity|]. destruct (Qlt_le_dec b a) as [H|H]; [apply Qlt_le_weak; exact H|].
    apply Qle_bool_iff in H. congruence.
Qed.

Lemma clip_sum (F : Q) (w : N -> Q) (x : N -> Z) (l : list N) :
  (0 <= F)%Q -> (forall i, In i l -> (0 <= w i)%Q) -> (forall i, In i l -> x i = 0%Z \/ x i = 1%Z) ->
  let S := sumq (fun i => w i * inject_Z (x i)) l in
  let S' := sumq (fun i => qmin (w i) F * inject_Z (x i)) l in
  (0 <= S' <= S)%Q /\ ((S' == S)%Q \/ (F <= S')%Q).
Proof.
  intros HF. induction l as [|i l IH]; intros Hw Hx; cbn [sumq].
  - split; [lra|left; reflexivity].
  - destruct IH as [[I1 I2] I3]; [intros j Hj; apply Hw; right; exact Hj|intros j Hj; apply Hx; right; exact Hj|].
    pose proof (Hw i (or_introl eq_refl)) as Hwi.
    destruct (Hx i (or_introl eq_refl)) as [X|X]; rewrite X.
    + change (inject_Z 0) with 0%Q. split; [lra|]. destruct I3 as [I3|I3]; [left; lra|right; lra].
    + change (inject_Z 1) with 1%Q.
      destruct (qmin_cases (w i) F) as [[Q1 Q2]|[Q1 Q2]]; rewrite Q1.
      * split; [lra|]. destruct I3 as [I3|I3]; [left; lra|right; lra].
      * split; [lra|]. right. lra.
Qed.

(* lowering every weight above F >= f to F never increases |f - sum| *)
Lemma clip_no_worse (F f : Q) (w : N -> Q) (x : N -> Z) (l : list N) :
  (0 <= f <= F)%Q -> (forall i, In i l -> (0 <= w i)%Q) -> (forall i, In i l -> x i = 0%Z \/ x i = 1%Z) ->
  (Qabs (f - sumq (fun i => qmin (w i) F * inject_Z (x i)) l) <= Qabs (f - sumq (fun i => w i * inject_Z (x i)) l))%Q.
Proof.
  intros Hf Hw Hx. assert (HF : (0 <= F)%Q) by lra.
  destruct (clip_sum F w x l HF Hw Hx) as [[C1 C2] C3]. cbn zeta in *.
  set (S := sumq (fun i => w i * inject_Z (x i)) l) in *.
  set (S' := sumq (fun i => qmin (w i) F * inject_Z (x i)) l) in *.
  destruct C3 as [C3|C3].
  - rewrite C3. apply Qle_refl.
  - apply Qabs_le_iff. pose proof (Qle_Qabs (- (f - S))) as A. rewrite Qabs_opp in A. split; lra.
Qed.

Lemma sumq_le_len {A} (g : A -> Q) (F : Q) l : (forall i, In i l -> (0 <= g i <= F)%Q) ->
  (0 <= sumq g l <= inject_Z (Z.of_nat (length l)) * F)%Q.
Proof.
  induction l as [|i l IH]; intros H; cbn [sumq length].
  - change (inject_Z (Z.of_nat 0)) with 0%Q. lra.
  - destruct IH as [I1 I2]; [intros j Hj; apply H; right; exact Hj|].
    pose proof (H i (or_introl eq_refl)) as Hi.
    rewrite Nat2Z.inj_succ, <- Z.add_1_r, inject_Z_plus. change (inject_Z 1) with 1%Q. lra.
Qed.

Lemma layers_length k : length (layers k) = k.
Proof. unfold layers. rewrite map_length, seq_length. reflexivity. Qed.

Lemma list_max_in_ge l : forall d q, In q (d :: l) -> (q <= list_max d l)%Q.
Proof. intros d q [<-|H]; [apply (proj1 (list_max_ge l d))|apply (proj2 (list_max_ge l d)); exact H]. Qed.

Lemma flow_le_max I e : In e (basic_edges I) -> (flow_of I e <= max_flow I)%Q.
Proof.
  intros He. unfold max_flow, max_of.
  apply (in_map (flow_of I)) in He. destruct (map (flow_of I) (basic_edges I)) as [|d l]; [destruct He|].
  apply list_max_in_ge. exact He.
Qed.

Lemma w_max_ge I : (inject_Z (Z.of_nat (eK I)) * cast (e_int I) (max_flow I) <= w_max I)%Q.
Proof. unfold w_max. apply qmax_ge_l. Qed.

(* weights within [0, max f]: every absolute error fits the bound of the Err column *)
Theorem err_fits_bound I (w : N -> Q) (x : N -> PathEnc.edge -> Z) e :
  (1 <= eK I)%nat -> (cast (e_int I) (max_flow I) == max_flow I)%Q ->
  In e (basic_edges I) -> (0 <= flow_of I e)%Q ->
  (forall i, In i (layers (eK I)) -> (0 <= w i <= max_flow I)%Q) ->
  (forall i, In i (layers (eK I)) -> x i e = 0%Z \/ x i e = 1%Z) ->
  (Qabs (flow_of I e - sumq (fun i => w i * inject_Z (x i e)) (layers (eK I))) <= w_max I)%Q.
Proof.
  intros Hk Hcast He Hf Hw Hx.
  pose proof (flow_le_max I e He) as Hfm.
  assert (HS : (0 <= sumq (fun i => w i * inject_Z (x i e)) (layers (eK I)) <= inject_Z (Z.of_nat (eK I)) * max_flow I)%Q).
  { pose proof (sumq_le_len (fun i => w i * inject_Z (x i e)) (max_flow I) (layers (eK I))) as SL.
    rewrite layers_length in SL. apply SL. intros i Hi. pose proof (Hw i Hi) as W.
    destruct (Hx i Hi) as [X|X]; rewrite X; [change (inject_Z 0) with 0%Q|change (inject_Z 1) with 1%Q]; lra. }
  pose proof (w_max_ge I) as HW. rewrite Hcast in HW.
  assert (H1 : (1 <= inject_Z (Z.of_nat (eK I)))%Q).
  { change 1%Q with (inject_Z 1). rewrite <- Zle_Qle. lia. }
  assert (Hm : (0 <= max_flow I)%Q) by lra.
  assert (Hkm : (max_flow I <= inject_Z (Z.of_nat (eK I)) * max_flow I)%Q) by nra.
  apply Qabs_le_iff. split; lra.
Qed.

(* the bound k * max f loses nothing: clipping at max f keeps the paths, keeps the weights admissible
   and does not increase the error of any non-ignored edge *)
Theorem wmax_no_loss I (w : N -> Q) (x : N -> PathEnc.edge -> Z) :
  (forall e, In e (basic_edges I) -> (0 <= flow_of I e)%Q) ->
  (forall i, In i (layers (eK I)) -> (0 <= w i)%Q) ->
  (forall i e, In i (layers (eK I)) -> In e (basic_edges I) -> x i e = 0%Z \/ x i e = 1%Z) ->
  basic_edges I <> [] ->
  let w' := fun i => qmin (w i) (max_flow I) in
  (forall i, In i (layers (eK I)) -> (0 <= w' i <= max_flow I)%Q) /\
  (forall e, In e (basic_edges I) ->
     (Qabs (flow_of I e - sumq (fun i => w' i * inject_Z (x i e)) (layers (eK I)))
      <= Qabs (flow_of I e - sumq (fun i => w i * inject_Z (x i e)) (layers (eK I))))%Q).
Proof.
  intros Hf Hw Hx Hne w'.
  assert (Hm : (0 <= max_flow I)%Q).
  { destruct (basic_edges I) as [|e0 r] eqn:B; [congruence|].
    assert (H0 : In e0 (basic_edges I)) by (rewrite B; left; reflexivity).
    pose proof (flow_le_max I e0 H0) as A1. pose proof (Hf e0 (or_introl eq_refl)) as A2. lra. }
  split.
  - intros i Hi. unfold w'. specialize (Hw i Hi). destruct (qmin_cases (w i) (max_flow I)) as [[Q1 Q2]|[Q1 Q2]]; rewrite Q1; lra.
  - intros e He. unfold w'.
    apply (clip_no_worse (max_flow I) (flow_of I e) w (fun i => x i e) (layers (eK I))).
    + split; [apply Hf; exact He|apply flow_le_max; exact He].
    + exact Hw.
    + intros i Hi. apply Hx; assumption.
Qed.

(* ------------------------------------------------------------------ kLeastAbsErrors: completeness *)
Definition abs_err (I : err_inst) (x : N -> PathEnc.edge -> Z) (w : N -> Q) (e : PathEnc.edge) : Q :=
  Qabs (flow_of I e - sumq (fun i => w i * inject_Z (x i e)) (layers (eK I))).

(* the assignment that extends paths x and weights w *)
Definition klae_assign (I : err_inst) (x : N -> PathEnc.edge -> Z) (w : N -> Q) (v : var) : Q :=
  match vidx v with
  | [u; u'; i] => if (vfam v =? fEdge)%N then inject_Z (x i (u, u'))
                  else if (vfam v =? fPi)%N then inject_Z (x i (u, u')) * w i else 0
  | [u; u'] => if (vfam v =? fErr)%N then abs_err I x w (u, u') else 0
  | [i] => if (vfam v =? fW)%N then w i else 0
  | _ => 0
  end.

(* k unit s-t flows in the adjacency form of the rows 10a / 10c (by C01's decode theorem these are
   exactly k source-to-sink paths on a DAG) *)
Definition unit_flows (G : stgraph) (k : nat) (x : N -> PathEnc.edge -> Z) : Prop :=
  (forall i e, In i (layers k) -> In e (g_edges G) -> x i e = 0%Z \/ x i e = 1%Z) /\
  (forall i, In i (layers k) -> sumq (fun v => inject_Z (x i (g_src G, v))) (succs G (g_src G)) == 1) /\
  (forall i v, In i (layers k) -> In v (inner G) ->
     sumq (fun u => inject_Z (x i (u, v))) (preds G v) == sumq (fun u => inject_Z (x i (v, u))) (succs G v)).

Lemma is_int_bin_mult z q : (z = 0%Z \/ z = 1%Z) -> is_int q -> is_int (inject_Z z * q).
Proof.
  intros [->| ->] [n Hn].
  - exists 0%Z. change (inject_Z 0) with 0. ring.
  - exists n. change (inject_Z 1) with 1. rewrite Hn. ring.
Qed.

Lemma bin_inject z : (z = 0%Z \/ z = 1%Z) -> bin (inject_Z z).
Proof. intros [->| ->]; [left|right]; reflexivity. Qed.

Lemma path_rows_of_unit_flows (G : stgraph) k x (a : var -> Q) :
  unit_flows G k x -> (forall u v i, a (Edge u v i) == inject_Z (x i (u, v))) ->
  Forall (sat_row a) (path_rows G k false).
Proof.
  intros (HB & HA & HC) Ha. unfold path_rows. apply Forall_app. split.
  - apply Forall_forall. intros r Hr. apply in_map_iff in Hr. destruct Hr as (i & <- & Hi).
    unfold sat_row, row_10a, mkrow. cbn [sns lhs rhs].
    rewrite (eval_map_const a (fun v => Edge (g_src G) v i) 1).
    assert (E0 : sumq (fun v => a (Edge (g_src G) v i)) (succs G (g_src G)) == sumq (fun v => inject_Z (x i (g_src G, v))) (succs G (g_src G)))
      by (apply sumq_ext; intros v _; apply Ha).
    rewrite E0, (HA i Hi). ring.
  - apply Forall_flat_map. intros i Hi. apply Forall_forall. intros r Hr. apply in_map_iff in Hr. destruct Hr as (v & <- & Hv).
    unfold sat_row, row_10c, mkrow. cbn [sns lhs rhs]. rewrite eval_app.
    rewrite (eval_map_const a (fun u => Edge u v i) 1), (eval_map_const a (fun w => Edge v w i) (- (1))).
    assert (E1 : sumq (fun u => a (Edge u v i)) (preds G v) == sumq (fun u => inject_Z (x i (u, v))) (preds G v))
      by (apply sumq_ext; intros u _; apply Ha).
    assert (E2 : sumq (fun u => a (Edge v u i)) (succs G v) == sumq (fun u => inject_Z (x i (v, u))) (succs G v))
      by (apply sumq_ext; intros u _; apply Ha).
    rewrite E1, E2, (HC i v Hi Hv). ring.
Qed.

Lemma edge_cols_of_unit_flows (G : stgraph) k x (a : var -> Q) :
  unit_flows G k x -> (forall u v i, a (Edge u v i) == inject_Z (x i (u, v))) ->
  Forall (sat_col a) (edge_cols G k).
Proof.
  intros (HB & _) Ha. unfold edge_cols. apply Forall_flat_map. intros i Hi. apply Forall_forall. intros c Hc.
  apply in_map_iff in Hc. destruct Hc as (e & <- & He). apply col_of_bin.
  destruct (HB i e Hi He) as [X|X]; [left|right]; rewrite Ha, <- surjective_pairing, X; reflexivity.
Qed.

Theorem klae_enc_complete I (x : N -> PathEnc.edge -> Z) (w : N -> Q) :
  e_given I = None -> p_cons (e_base I) = [] -> p_allow_empty (e_base I) = false ->
  unit_flows (eG I) (eK I) x ->
  (forall i, In i (layers (eK I)) -> 0 <= w i <= w_max I /\ (e_int I = true -> is_int (w i))) ->
  (forall e, In e (basic_edges I) -> abs_err I x w e <= w_max I /\ (e_int I = true -> is_int (abs_err I x w e))) ->
  let a := klae_assign I x w in
  sat a (encode_klae I) /\
  (forall u v i, a (Edge u v i) = inject_Z (x i (u, v))) /\ (forall i, a (W i) = w i) /\
  (forall e, In e (basic_edges I) -> a (Err (fst e) (snd e)) = abs_err I x w e) /\
  objective a (encode_klae I) == sumq (fun e => scale_of I e * abs_err I x w e) (basic_edges I).
Proof.
  intros Hg Hcons Hae HU Hw Herr a.
  assert (AE : forall u v i, a (Edge u v i) = inject_Z (x i (u, v))) by reflexivity.
  assert (AP : forall u v i, a (Pi u v i) = inject_Z (x i (u, v)) * w i) by reflexivity.
  assert (AW : forall i, a (W i) = w i) by reflexivity.
  assert (AR : forall e, a (Err (fst e) (snd e)) = abs_err I x w e).
  { intros e. unfold a, klae_assign, Err. cbn [vidx vfam]. rewrite <- surjective_pairing. reflexivity. }
  assert (AEq : forall u v i, a (Edge u v i) == inject_Z (x i (u, v))) by (intros; rewrite AE; reflexivity).
  pose proof HU as (HB & _).
  split; [|split; [exact AE|split; [exact AW|split; [intros e _; apply AR|]]]].
  - split.
    + (* columns *)
      unfold encode_klae. cbn [cols]. unfold base_cols, cons_cols, klae_cols. rewrite Hg, Hcons, app_nil_r.
      rewrite !Forall_app. repeat split.
      * apply (edge_cols_of_unit_flows (eG I) (eK I) x a HU AEq).
      * unfold pi_cols. apply Forall_forall. intros c Hc. apply in_map_iff in Hc. destruct Hc as ([i e] & <- & Hie).
        unfold all_ik in Hie. apply in_flat_map in Hie. destruct Hie as (i' & Hi & Hie). apply in_map_iff in Hie.
        destruct Hie as (e' & E & He). injection E as <- <-. cbn [fst snd].
        unfold sat_col, wcol_. cbn [cvar clb cub cint]. rewrite AP, <- surjective_pairing.
        destruct (Hw i' Hi) as [[W1 W2] W3].
        destruct (HB i' e' Hi He) as [X|X]; rewrite X.
        -- change (inject_Z 0) with 0. repeat split; try lra. intros _. exists 0%Z. change (inject_Z 0) with 0. ring.
        -- change (inject_Z 1) with 1. repeat split; try lra. intros Hi'. destruct (W3 Hi') as [n Hn]. exists n. rewrite Hn. ring.
      * unfold w_cols. apply Forall_forall. intros c Hc. apply in_map_iff in Hc. destruct Hc as (i & <- & Hi).
        unfold sat_col, wcol_. cbn [cvar clb cub cint]. rewrite AW. destruct (Hw i Hi) as [[W1 W2] W3]. repeat split; assumption.
      * unfold err_cols. apply Forall_forall. intros c Hc. apply in_map_iff in Hc. destruct Hc as (e & <- & He).
        unfold sat_col, wcol_. cbn [cvar clb cub cint]. rewrite AR. destruct (Herr e He) as [E1 E2].
        repeat split; [apply Qabs_nonneg|exact E1|exact E2].
    + (* rows *)
      unfold encode_klae. cbn [rows]. unfold base_rows, cons_rows, klae_rows. rewrite Hg, Hcons, app_nil_r, Hae.
      apply Forall_app. split; [apply (path_rows_of_unit_flows (eG I) (eK I) x a HU AEq)|].
      apply Forall_flat_map. intros e He. pose proof (basic_in I e He) as HeG.
      unfold klae_edge_rows. apply Forall_app. split.
      * unfold pi_prod_rows. apply Forall_flat_map. intros i Hi.
        apply (mcc_rows_exact a _ _ _ 0 (w_max I)).
        -- rewrite AE, <- surjective_pairing. apply bin_inject. apply HB; assumption.
        -- rewrite AW. apply (Hw i Hi).
        -- rewrite AP, AE, AW. reflexivity.
      * assert (HS : sumq (fun i => a (Pi (fst e) (snd e) i)) (layers (eK I))
                     == sumq (fun i => w i * inject_Z (x i e)) (layers (eK I))).
        { apply sumq_ext. intros i _. rewrite AP, <- surjective_pairing. ring. }
        pose proof (Qle_Qabs (flow_of I e - sumq (fun i => w i * inject_Z (x i e)) (layers (eK I)))) as A1.
        pose proof (Qle_Qabs (- (flow_of I e - sumq (fun i => w i * inject_Z (x i e)) (layers (eK I))))) as A2.
        rewrite Qabs_opp in A2. fold (abs_err I x w e) in A1, A2.
        constructor; [|constructor; [|constructor]]; unfold sat_row, row_9aa, row_9ab, mkrow; cbn [sns lhs rhs];
          rewrite eval_app.
        -- rewrite (eval_map_const a (fun i => Pi (fst e) (snd e) i) (- (1))). cbn [eval fst snd]. rewrite HS, AR. lra.
        -- rewrite (eval_map_const a (fun i => Pi (fst e) (snd e) i) 1). cbn [eval fst snd]. rewrite HS, AR. lra.
  - rewrite (klae_objective_value I a). apply sumq_ext. intros e _. rewrite AR. reflexivity.
Qed.

(* ------------------------------------------------------------------ kMinPathError: feasibility for k >= width *)
Definition kmpe_assign (M : kmpe_inst) (x : N -> PathEnc.edge -> Z) (sl : Q) (v : var) : Q :=
  let G := eG (m_err M) in
  match vidx v with
  | [u; u'; i] => if (vfam v =? fEdge)%N then inject_Z (x i (u, u'))
                  else if (vfam v =? fGamma)%N then inject_Z (x i (u, u')) * sl
                  else if (vfam v =? fPos)%N then sumq (fun e' => inject_Z (x i e')) (rev_edges G u)
                  else 0
  | [i] => if (vfam v =? fSlack)%N then sl
           else if (vfam v =? fLen)%N then sumq (fun e' => inject_Z (x i e')) (g_edges G) else 0
  | _ => 0
  end.

Lemma sumq_inject_Z {A} (f : A -> Z) l : exists z, sumq (fun e => inject_Z (f e)) l == inject_Z z.
Proof.
  induction l as [|e l [z Hz]]; cbn [sumq]; [exists 0%Z; reflexivity|].
  exists (f e + z)%Z. rewrite Hz, inject_Z_plus. reflexivity.
Qed.

Lemma sumq_nonneg {A} (g : A -> Q) l : (forall e, In e l -> 0 <= g e) -> 0 <= sumq g l.
Proof.
  induction l as [|e l IH]; intros H; cbn [sumq]; [lra|].
  pose proof (H e (or_introl eq_refl)). assert (0 <= sumq g l) by (apply IH; intros e' He'; apply H; right; exact He'). lra.
Qed.

Lemma sumq_filter_le {A} (g : A -> Q) (p : A -> bool) l : (forall e, In e l -> 0 <= g e) ->
  0 <= sumq g (filter p l) <= sumq g l.
Proof.
  induction l as [|e l IH]; intros H; cbn [filter sumq]; [lra|].
  pose proof (H e (or_introl eq_refl)) as He.
  destruct IH as [I1 I2]; [intros e' He'; apply H; right; exact He'|].
  destruct (p e); cbn [sumq]; lra.
Qed.

Lemma sumq_ge_term {A} (g : A -> Q) l i : (forall e, In e l -> 0 <= g e) -> In i l -> g i <= sumq g l.
Proof.
  induction l as [|e l IH]; intros H Hi; [destruct Hi|]. cbn [sumq].
  pose proof (H e (or_introl eq_refl)) as He.
  assert (Hl : 0 <= sumq g l) by (apply sumq_nonneg; intros e' He'; apply H; right; exact He').
  destruct Hi as [<-|Hi]; [lra|]. specialize (IH (fun e' He' => H e' (or_intror He')) Hi). lra.
Qed.

Lemma bin01 z : (z = 0%Z \/ z = 1%Z) -> 0 <= inject_Z z <= 1.
Proof. intros [->| ->]; [change (inject_Z 0) with 0|change (inject_Z 1) with 1]; lra. Qed.

Theorem kmpe_feasible_ge_width M (x : N -> PathEnc.edge -> Z) :
  let I := m_err M in
  e_given I = None -> p_cons (e_base I) = [] -> p_allow_empty (e_base I) = false ->
  m_pieces M = [] -> m_len M = None ->
  unit_flows (eG I) (eK I) x ->
  (* the k paths cover every non-ignored edge *)
  (forall e, In e (basic_edges I) -> exists i, In i (layers (eK I)) /\ x i e = 1%Z) ->
  (* a path has at most |V| edges (true of every path; premise of this version) *)
  (forall i, In i (layers (eK I)) -> sumq (fun e => inject_Z (x i e)) (g_edges (eG I)) <= inject_Z (Z.of_nat (length (g_nodes (eG I))))) ->
  (forall e, In e (basic_edges I) -> 0 <= flow_of I e /\ 0 <= scale_of I e <= 1) ->
  0 <= max_flow I <= w_max I -> (e_int I = true -> is_int (max_flow I)) ->
  let a := kmpe_assign M x (max_flow I) in
  sat a (encode_kmpe M) /\ (forall i, a (W i) = 0) /\ (forall i, a (Slack i) = max_flow I) /\
  objective a (encode_kmpe M) == inject_Z (Z.of_nat (eK I)) * max_flow I.
Proof.
  intros I Hg Hcons Hae Hpc Hln HU Hcov Hlen Hfs Hmf Hmi a.
  set (G := eG I). set (k := eK I). set (sl := max_flow I).
  assert (AE : forall u v i, a (Edge u v i) = inject_Z (x i (u, v))) by reflexivity.
  assert (AP : forall u v i, a (Pi u v i) = 0) by reflexivity.
  assert (AG : forall u v i, a (Gamma u v i) = inject_Z (x i (u, v)) * sl) by reflexivity.
  assert (APos : forall u v i, a (Pos u v i) = sumq (fun e' => inject_Z (x i e')) (rev_edges G u)) by reflexivity.
  assert (AW : forall i, a (W i) = 0) by reflexivity.
  assert (AS : forall i, a (Slack i) = sl) by reflexivity.
  assert (AL : forall i, a (Len i) = sumq (fun e' => inject_Z (x i e')) (g_edges G)) by reflexivity.
  assert (AEq : forall u v i, a (Edge u v i) == inject_Z (x i (u, v))) by (intros; rewrite AE; reflexivity).
  assert (HF : has_factors M = false) by (unfold has_factors; rewrite Hpc; reflexivity).
  assert (SV : forall i, slack_var M i = Slack i) by (intros i; unfold slack_var; rewrite HF; reflexivity).
  assert (PL : forall e, plen M e = 1) by (intros e; unfold plen; rewrite Hln; reflexivity).
  assert (ML : max_length M = inject_Z (Z.of_nat (length (g_nodes G)))) by (unfold max_length; rewrite Hln; reflexivity).
  pose proof HU as (HB & _).
  assert (X01 : forall i e, In i (layers k) -> In e (g_edges G) -> 0 <= inject_Z (x i e) <= 1)
    by (intros i e Hi He; apply bin01; apply HB; assumption).
  assert (OBJ : objective a (encode_kmpe M) == inject_Z (Z.of_nat k) * sl).
  { unfold objective, encode_kmpe. cbn [obj]. unfold kmpe_obj. fold I. fold k.
    rewrite (eval_map_const a Slack 1).
    pose proof (sumq_le_len (fun i => a (Slack i)) sl (layers k)) as SL. rewrite layers_length in SL.
    assert (E : sumq (fun i => a (Slack i)) (layers k) == inject_Z (Z.of_nat k) * sl).
    { clear SL. rewrite <- (layers_length k) at 2. generalize (layers k). intros l. induction l as [|i l IH]; cbn [sumq length].
      - change (inject_Z (Z.of_nat 0)) with 0. ring.
      - rewrite IH, AS, Nat2Z.inj_succ, <- Z.add_1_r, inject_Z_plus. change (inject_Z 1) with 1. ring. }
    rewrite E. ring. }
  split; [|split; [exact AW|split; [exact AS|exact OBJ]]].
  split.
  - (* columns *)
    unfold encode_kmpe. cbn [cols]. fold I. unfold base_cols, cons_cols, kmpe_cols, factor_cols. fold I.
    rewrite Hg, Hcons, HF, !app_nil_r. rewrite !Forall_app. repeat split.
    + apply (edge_cols_of_unit_flows G k x a HU AEq).
    + (* positions *)
      unfold pos_cols. fold I. apply Forall_app. split.
      * apply Forall_forall. intros c Hc. apply in_map_iff in Hc. destruct Hc as ([i e] & <- & Hie).
        unfold all_ik in Hie. apply in_flat_map in Hie. destruct Hie as (i' & Hi & Hie). apply in_map_iff in Hie.
        destruct Hie as (e' & E & He). injection E as <- <-. cbn [fst snd].
        unfold sat_col, icol. cbn [cvar clb cub cint]. rewrite APos, ML.
        pose proof (sumq_filter_le (fun e0 => inject_Z (x i' e0)) (fun e0 => mem_node (snd e0) (nodes_reaching G (fst e'))) (g_edges G)
                      (fun e0 He0 => proj1 (X01 i' e0 Hi He0))) as FL.
        specialize (Hlen i' Hi). fold G in Hlen. unfold rev_edges.
        split; [exact (proj1 FL)|split; [eapply Qle_trans; [exact (proj2 FL)|exact Hlen]|intros _; apply sumq_inject_Z]].
      * apply Forall_forall. intros c Hc. apply in_map_iff in Hc. destruct Hc as (i & <- & Hi).
        unfold sat_col, icol. cbn [cvar clb cub cint]. rewrite AL, ML. specialize (Hlen i Hi). fold G in Hlen.
        repeat split; [apply sumq_nonneg; intros e He; apply (X01 i e Hi He)|exact Hlen|intros _; apply sumq_inject_Z].
    + unfold w_cols. apply Forall_forall. intros c Hc. apply in_map_iff in Hc. destruct Hc as (i & <- & Hi).
      unfold sat_col, wcol_. cbn [cvar clb cub cint]. rewrite AW. repeat split; try lra. intros _. exists 0%Z. reflexivity.
    + unfold pi_cols. apply Forall_forall. intros c Hc. apply in_map_iff in Hc. destruct Hc as ([i e] & <- & Hie).
      unfold sat_col, wcol_. cbn [cvar clb cub cint fst snd]. rewrite AP. repeat split; try lra. intros _. exists 0%Z. reflexivity.
    + unfold slack_cols. fold I. apply Forall_app. split.
      * apply Forall_forall. intros c Hc. apply in_map_iff in Hc. destruct Hc as (i & <- & Hi).
        unfold sat_col, wcol_. cbn [cvar clb cub cint]. rewrite AS. unfold sl. repeat split; try lra. exact Hmi.
      * apply Forall_forall. intros c Hc. apply in_map_iff in Hc. destruct Hc as ([i e] & <- & Hie).
        unfold all_ik in Hie. apply in_flat_map in Hie. destruct Hie as (i' & Hi & Hie). apply in_map_iff in Hie.
        destruct Hie as (e' & E & He). injection E as <- <-. cbn [fst snd].
        unfold sat_col, ccol. cbn [cvar clb cub cint]. rewrite AG, <- surjective_pairing.
        pose proof (X01 i' e' Hi He) as X. unfold sl. repeat split; try nra; try (intros D; discriminate D).
  - (* rows *)
    unfold encode_kmpe. cbn [rows]. fold I. unfold base_rows, cons_rows, kmpe_rows, factor_rows. fold I.
    rewrite Hg, Hcons, HF, Hae, !app_nil_r. cbn [app]. rewrite !Forall_app. repeat split.
    + apply (path_rows_of_unit_flows G k x a HU AEq).
    + unfold pos_rows. fold I. apply Forall_app. split.
      * apply Forall_flat_map. intros i Hi. apply Forall_forall. intros r Hr. apply in_map_iff in Hr. destruct Hr as (e & <- & He).
        unfold sat_row, row_pos, mkrow. cbn [sns lhs rhs eval fst snd]. fold I. fold G.
        rewrite (eval_map_coef a (fun e' => Edge (fst e') (snd e') i) (fun e' => - plen M e')), APos.
        assert (E : sumq (fun e' => - plen M e' * a (Edge (fst e') (snd e') i)) (rev_edges G (fst e))
                    == - sumq (fun e' => inject_Z (x i e')) (rev_edges G (fst e))).
        { generalize (rev_edges G (fst e)). intros l. induction l as [|e' l IH]; cbn [sumq]; [ring|].
          rewrite IH, PL, AE, <- surjective_pairing. ring. }
        rewrite E. ring.
      * apply Forall_forall. intros r Hr. apply in_map_iff in Hr. destruct Hr as (i & <- & Hi).
        unfold sat_row, row_len, mkrow. cbn [sns lhs rhs eval fst snd]. fold I. fold G.
        rewrite (eval_map_coef a (fun e' => Edge (fst e') (snd e') i) (fun e' => - plen M e')), AL.
        assert (E : sumq (fun e' => - plen M e' * a (Edge (fst e') (snd e') i)) (g_edges G)
                    == - sumq (fun e' => inject_Z (x i e')) (g_edges G)).
        { generalize (g_edges G). intros l. induction l as [|e' l IH]; cbn [sumq]; [ring|].
          rewrite IH, PL, AE, <- surjective_pairing. ring. }
        rewrite E. ring.
    + apply Forall_flat_map. intros e He. pose proof (basic_in I e He) as HeG. fold G in HeG.
      unfold kmpe_edge_rows. fold I. rewrite Hg. rewrite !Forall_app. repeat split.
      * unfold pi_prod_rows. fold k. apply Forall_flat_map. intros i Hi.
        apply (mcc_rows_exact a _ _ _ 0 (w_max I)).
        -- rewrite AE, <- surjective_pairing. apply bin_inject. apply HB; assumption.
        -- rewrite AW. lra.
        -- rewrite AP, AW. ring.
      * unfold gamma_prod_rows. fold I. fold k. apply Forall_flat_map. intros i Hi. rewrite SV.
        apply (mcc_rows_exact a _ _ _ 0 (w_max I)).
        -- rewrite AE, <- surjective_pairing. apply bin_inject. apply HB; assumption.
        -- rewrite AS. unfold sl. lra.
        -- rewrite AG, AE, AS. reflexivity.
      * assert (HP : sumq (fun i => a (Pi (fst e) (snd e) i)) (layers k) == 0).
        { generalize (layers k). intros l. induction l as [|i l IH]; cbn [sumq]; [reflexivity|]. rewrite IH, AP. ring. }
        assert (HGs : sumq (fun i => a (Gamma (fst e) (snd e) i)) (layers k) == sl * sumq (fun i => inject_Z (x i e)) (layers k)).
        { rewrite <- sumq_scale. apply sumq_ext. intros i _. rewrite AG, <- surjective_pairing. ring. }
        destruct (Hcov e He) as (i0 & Hi0 & X1). fold k in Hi0.
        assert (HC : 1 <= sumq (fun i => inject_Z (x i e)) (layers k)).
        { pose proof (sumq_ge_term (fun i => inject_Z (x i e)) (layers k) i0 (fun i Hi => proj1 (X01 i e Hi HeG)) Hi0) as T.
          cbn beta in T. rewrite X1 in T. exact T. }
        destruct (Hfs e He) as [F0 [S0 S1]]. pose proof (flow_le_max I e He) as FM. fold sl in FM.
        assert (Hsl : 0 <= sl) by (unfold sl; lra).
        constructor; [|constructor; [|constructor]]; unfold sat_row, mrow_9aa, mrow_9ab, mkrow, gamma_terms; cbn [sns lhs rhs];
          fold I; fold k; rewrite eval_app.
        -- rewrite (eval_map_const a (fun i => Pi (fst e) (snd e) i) (- scale_of I e)),
                   (eval_map_const a (fun i => Gamma (fst e) (snd e) i) (- (1))), HP, HGs. nra.
        -- rewrite (eval_map_const a (fun i => Pi (fst e) (snd e) i) (- scale_of I e)),
                   (eval_map_const a (fun i => Gamma (fst e) (snd e) i) 1), HP, HGs. nra.
Qed.

(* ------------------------------------------------------------------ kMinPathError: the length factors *)
Theorem kmpe_factor_sound (M : kmpe_inst) (a : var -> Q) (i : N) :
  sat a (encode_kmpe M) -> e_given (m_err M) = None -> has_factors M = true ->
  0 <= min_factor M -> max_factor M <= sslack_ub M ->
  In i (layers (eK (m_err M))) ->
  (exists p, In p (m_pieces M) /\ pL p <= a (Len i) <= pU p /\ a (Factor i) == pC p) /\
  a (SSlack i) == a (Slack i) * a (Factor i) /\
  a (Len i) == sumq (fun e => plen M e * a (Edge (fst e) (snd e) i)) (g_edges (eG (m_err M))).
Proof.
  intros Hsat Hg HF Hmin Hmax Hi.
  pose proof (kmpe_cols_sat M a Hsat Hg) as (_ & _ & _ & _ & _ & HFC).
  pose proof (kmpe_rows_sat M a Hsat Hg) as (_ & HPR & HFR & _).
  unfold factor_cols in HFC. unfold factor_rows in HFR. rewrite HF in HFC, HFR. cbv zeta in HFC, HFR.
  rewrite !Forall_app in HFC. rewrite Forall_app in HFR. destruct HFC as (HC1 & HC2 & HC3 & HC4). destruct HFR as (HR1 & HR2).
  apply Forall_flat_map with (x := i) in HC2; [|exact Hi]. apply Forall_flat_map with (x := i) in HC4; [|exact Hi].
  apply Forall_flat_map with (x := i) in HR1; [|exact Hi]. apply Forall_flat_map with (x := i) in HR2; [|exact Hi].
  assert (FB : min_factor M <= a (Factor i) <= max_factor M).
  { assert (C : sat_col a (ccol (Factor i) (min_factor M) (max_factor M))).
    { apply (sat_cols_in a _ _ HC1). apply (in_map (fun i => ccol (Factor i) (min_factor M) (max_factor M))) in Hi. exact Hi. }
    unfold sat_col, ccol in C. cbn [cvar clb cub] in C. tauto. }
  split; [|split].
  - apply (pwc_sound (pwc_M (m_pieces M)) (a (Len i)) (a (Factor i)) (m_pieces M)).
    pose proof (proj1 (pwc_rows_sem (Len i) (Factor i) (pwc_M (m_pieces M)) (m_pieces M) a) (conj HC2 HR1)) as S.
    cbv zeta in S. destruct S as (B & S1 & F2). eexists. repeat split; eassumption.
  - pose proof (proj1 (intprod_rows_sem (Slack i) (Factor i) (SSlack i) 0 (sslack_ub M) (num_bits (sslack_ub M)) ltac:(split; intro H; vm_compute in H; discriminate H) ltac:(split; intro H; vm_compute in H; discriminate H) ltac:(split; intro H; vm_compute in H; discriminate H) a) (conj HC4 HR2)) as S.
    cbv zeta in S. destruct S as (B & F2 & V1 & V2).
    assert (FC : 0 <= a (Factor i) <= sslack_ub M) by lra.
    pose proof (comps_value (a (Factor i)) 0 (sslack_ub M) FC _ _ B F2) as CV.
    rewrite <- V2, CV, V1. ring.
  - unfold pos_rows in HPR. cbv zeta in HPR. rewrite Forall_app in HPR. destruct HPR as [_ HL].
    assert (R : sat_row a (row_len M i)).
    { apply (sat_rows_in a _ _ HL). apply (in_map (row_len M)) in Hi. exact Hi. }
    unfold sat_row, row_len, mkrow in R. cbn [sns lhs rhs eval fst snd] in R.
    rewrite (eval_map_coef a (fun e' => Edge (fst e') (snd e') i) (fun e' => - plen M e')) in R.
    assert (E : sumq (fun e' => - plen M e' * a (Edge (fst e') (snd e') i)) (g_edges (eG (m_err M)))
                == - sumq (fun e => plen M e * a (Edge (fst e) (snd e) i)) (g_edges (eG (m_err M)))).
    { generalize (g_edges (eG (m_err M))). intros l. induction l as [|e' l IH]; cbn [sumq]; [ring|]. rewrite IH. ring. }
    rewrite E in R. lra.
Qed.
