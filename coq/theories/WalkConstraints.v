(* C10 for the cyclic classes, read off the characterisation of the walk LPs (WalkEncIff.v, WalkCoverIff.v): every subset
   constraint of a solved model is realised, to the requested fraction of its distinct edges, inside ONE decoded walk, and the
   constraint rows cut off no decomposition / cover that realises the constraints (within the caps of the model). *)
From Coq Require Import List NArith ZArith QArith Bool Arith Lia.
Import ListNotations.
From FP Require Import Lin Blocks BlocksProofs PathEnc PathEncProofs WalkEnc WalkEncRows WalkEncRowsProofs WalkEncComplete WalkEncIff WalkCoverIff.
Local Close Scope Q_scope.

Lemma subset_constraints_realised_fd (I : kfdc_inst) (a : var -> Q) :
  wf_stg (c_graph I) -> o_allow_empty (c_opts I) = false -> inputs_ok I -> sat a (encode_kfdc I) ->
  forall j c, nth_error (all_cons (kfdc_walk I)) j = Some c ->
    exists i, In i (layers (c_k I)) /\
      (qnat (length (nodup_e c)) * c_cov I <= sumq (usedq (Pof I a) i) (nodup_e c))%Q.
Proof.
  intros WF Hae Hin Hs. destruct (kfdc_sound_admissible I a WF Hae Hin Hs) as (_ & _ & _ & Hc & _). exact Hc.
Qed.

(* a walk that uses an edge at all uses it: usedq is the 0/1 indicator of a positive multiplicity *)
Lemma usedq_is_indicator (P : N -> list node) (i : N) (e : PathEnc.edge) :
  (usedq P i e == 1)%Q /\ (0 < mult P i e)%Z \/ (usedq P i e == 0)%Q /\ (mult P i e <= 0)%Z.
Proof. unfold usedq. destruct (0 <? mult P i e)%Z eqn:E; [left|right]; (split; [reflexivity|lia]). Qed.

Lemma subset_constraints_realised_cover (I : kpcc_inst) (a : var -> Q) :
  wf_stg (pc_graph I) -> o_allow_empty (pc_opts I) = false -> winputs_ok (kpcc_walk I) -> sat a (encode_kpcc I) ->
  wrealises_constraints (kpcc_walk I) (Pofw (kpcc_walk I) a).
Proof.
  intros WF Hae Hin Hsat. pose proof Hsat as [Hc Hr]. unfold encode_kpcc in Hc, Hr. cbn [cols rows] in Hc, Hr.
  unfold base_wcols in Hc. unfold base_wrows in Hr. rewrite !Forall_app in Hc. rewrite !Forall_app in Hr.
  destruct Hc as (Hwc & Hsc). destruct Hr as ((Hwr & Hzr & Hfr & Hsr) & _).
  apply (wsound_constraints (kpcc_walk I) a WF Hae Hin Hwc Hsc Hwr Hsr).
Qed.
