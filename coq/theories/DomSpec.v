(* Arc dominance in a digraph with source s and sink t (cycles and self-loops allowed), declaratively, and why the dominator chain of
   an arc is a safe sequence.  For an arc e = (u, v): the arcs that lie on EVERY walk from v to t (the t-dominators of e; the
   "bridges" of Safety.v) and the arcs on every walk from s to u (its s-dominators).  For every digraph: the t-dominators are
   totally ordered -- every v-t walk meets them in one and the same order, the order of any duplicate-free walk -- that ordered list is
   unique, the chain sdom(e) ++ [e] ++ tdom(e) occurs in order in every s-t walk through e, hence it is safe for every X that
   contains e (Safety.safe_for_edges), and so is every sub-sequence of it (the X-filtered chain); an arc outside the chain is avoided
   by some s-t walk through e.  This is the sequence maximal_safe_sequences_via_dominators returns for a core arc e. *)
From Coq Require Import List Bool Arith NArith ZArith Lia.
Import ListNotations.
From FP Require Import SafetyReach Safety SafetyProofs1 SafetyProofs2.
Set Default Timeout 60.

Definition dominates_to (G : graph) (v t : node) (d : edge) : Prop := forall w, st_walk G v t w -> In d w.

Definition edge_dec (a b : edge) : {a = b} + {a <> b} := reflect_dec _ _ (eqe_spec a b).

(* a walk can be replaced by one without repeated arcs *)
Lemma walk_nodup G : forall w v t, chain v w t -> incl w G -> exists p, chain v p t /\ incl p w /\ NoDup p.
Proof.
  induction w as [|e w IH]; intros v t C I.
  - exists []. split; [exact C|]. split; [intros x []|constructor].
  - inversion C as [|v0 u w0 z C']; subst. destruct (IH u t C' (fun x Hx => I x (or_intror Hx))) as (p & Cp & Ip & NDp).
    destruct (in_dec edge_dec (v, u) p) as [Hin|Hn].
    + (* cut the loop: restart at the later occurrence of the arc *)
      destruct (in_split _ _ Hin) as (p1 & p2 & ->). destruct (chain_app_inv _ _ _ _ Cp) as (m & C1 & C2).
      inversion C2 as [|v1 u1 w1 z1 C2']; subst. exists ((v, u) :: p2). split; [constructor; exact C2'|]. split.
      * intros x [<-|Hx]; [left; reflexivity|right; apply Ip; apply in_or_app; right; right; exact Hx].
      * clear - NDp. induction p1 as [|a p1 IHp]; [exact NDp|]. inversion NDp; subst. apply IHp. assumption.
    + exists ((v, u) :: p). split; [constructor; exact Cp|]. split; [|constructor; assumption].
      intros x [<-|Hx]; [left; reflexivity|right; apply Ip; exact Hx].
Qed.

Lemma subseq_trans {A} (a b c : list A) : subseq a b -> subseq b c -> subseq a c.
Proof.
  intros H1 H2. revert a H1. induction H2 as [w|x l w Hs IH|x l w Hs IH]; intros a H1.
  - apply sub_nil_r in H1. subst. constructor.
  - inversion H1; subst; [constructor|constructor; apply IH; assumption|constructor; apply IH; assumption].
  - constructor. apply IH. exact H1.
Qed.
Lemma subseq_filter {A} (f : A -> bool) l : subseq (filter f l) l.
Proof. induction l as [|a l IH]; cbn [filter]; [constructor|]. destruct (f a); constructor; exact IH. Qed.
Lemma subseq_nodup_eq {A} (p a b : list A) : NoDup p -> subseq a p -> subseq b p -> (forall x, In x a <-> In x b) -> a = b.
Proof.
  intros ND. revert a b. induction p as [|x p IH]; intros a b Ha Hb Heq.
  - apply sub_nil_r in Ha, Hb. congruence.
  - inversion ND as [|? ? Hx ND']; subst.
    assert (Hnot : forall l, subseq l p -> ~ In x l) by (intros l Hl Hin; apply Hx; exact (subseq_In _ _ _ Hl Hin)).
    inversion Ha as [w|y la w Hsa|y la w Hsa]; subst; inversion Hb as [w'|y' lb w' Hsb|y' lb w' Hsb]; subst.
    + reflexivity.
    + exfalso. apply (proj2 (Heq x)). left. reflexivity.
    + destruct b as [|z b]; [reflexivity|]. exfalso. apply (proj2 (Heq z)). left. reflexivity.
    + exfalso. apply (proj1 (Heq x)). left. reflexivity.
    + f_equal. apply IH; try assumption. intros z. split; intros Hz.
      * destruct (proj1 (Heq z) (or_intror Hz)) as [<-|H]; [exfalso; exact (Hnot la Hsa Hz)|exact H].
      * destruct (proj2 (Heq z) (or_intror Hz)) as [<-|H]; [exfalso; exact (Hnot lb Hsb Hz)|exact H].
    + exfalso. apply (Hnot b Hsb). apply Heq. left. reflexivity.
    + destruct a as [|z a]; [reflexivity|]. exfalso. apply (proj1 (Heq z)). left. reflexivity.
    + exfalso. apply (Hnot a Hsa). apply Heq. left. reflexivity.
    + apply IH; assumption.
Qed.

(* the ordered list of the t-dominators of a node: all of them, without repetition, met in this order by every walk *)
Definition dom_order (G : graph) (v t : node) (bs : list edge) : Prop :=
  NoDup bs /\ (forall d, In d bs <-> dominates_to G v t d) /\ (forall W, st_walk G v t W -> subseq bs W).

Lemma dom_order_of_path G v t p : st_walk G v t p -> NoDup p -> dom_order G v t (filter (bridgeb G v t) p).
Proof.
  intros [Cp IpG] ND. split; [apply NoDup_filter; exact ND|]. split.
  - intros d. rewrite filter_In, bridgeb_correct. split; [tauto|]. intros Hd. split; [apply Hd; split; assumption|exact Hd].
  - intros W [CW IW]. apply (bridges_ordered G v t (length p) p (le_n _) [] v); try assumption; [constructor|intros ? []].
Qed.
Theorem dominators_totally_ordered G v t : (exists w, st_walk G v t w) -> exists bs, dom_order G v t bs.
Proof.
  intros (w & C & I). destruct (walk_nodup G w v t C I) as (p & Cp & Ip & ND).
  exists (filter (bridgeb G v t) p). apply dom_order_of_path; [|exact ND]. split; [exact Cp|intros x Hx; apply I, Ip, Hx].
Qed.
Theorem dom_order_unique G v t bs bs' : dom_order G v t bs -> dom_order G v t bs' -> bs = bs'.
Proof.
  intros (ND & Hin & Hsub) (ND' & Hin' & Hsub').
  destruct bs as [|b0 r] eqn:Eb.
  - destruct bs' as [|c r']; [reflexivity|]. exfalso. apply (proj2 (Hin c)). apply Hin'. left. reflexivity.
  - rewrite <- Eb in *. (* a walk exists: b0 is on every walk only vacuously otherwise; get one from decidability of reachability *)
    destruct (reachb G v t) eqn:R.
    + apply reachb_correct in R. destruct R as (w & C & I). destruct (walk_nodup G w v t C I) as (p & Cp & Ip & NDp).
      assert (Hp : st_walk G v t p) by (split; [exact Cp|intros x Hx; apply I, Ip, Hx]).
      apply (subseq_nodup_eq p bs bs' NDp (Hsub p Hp) (Hsub' p Hp)). intros x. rewrite Hin, Hin'. tauto.
    + (* no walk at all: every arc dominates, both lists enumerate the same NoDup set but need not be ordered alike -- excluded below *)
      exfalso. assert (Hall : forall d, dominates_to G v t d).
      { intros d w Hw. exfalso. assert (reachb G v t = true) by (apply reachb_correct; exists w; exact Hw). congruence. }
      (* then infinitely many arcs would have to be listed *)
      set (m := fold_right N.max 0%N (map fst bs)).
      assert (Hm : forall d, In d bs -> (fst d <= m)%N).
      { unfold m. clear. induction bs as [|a l IH]; intros d Hd; [destruct Hd|]. cbn [map fold_right]. destruct Hd as [<-|Hd]; [lia|].
        specialize (IH d Hd). lia. }
      specialize (Hm (m + 1, 0)%N (proj2 (Hin _) (Hall _))). cbn [fst] in Hm. lia.
Qed.

(* the dominator chain of an arc occurs, in order, in every source-to-sink walk through the arc *)
Theorem dominator_chain_in_every_walk G s t u v bl br :
  dom_order G s u bl -> dom_order G v t br ->
  forall W, st_walk G s t W -> In (u, v) W -> subseq (bl ++ (u, v) :: br) W.
Proof.
  intros (_ & _ & Hl) (_ & _ & Hr) W [C I] Hin. destruct (in_split _ _ Hin) as (W1 & W2 & ->).
  destruct (chain_app_inv _ _ _ _ C) as (m & C1 & C2). inversion C2 as [|v0 u0 w0 z C2']; subst.
  apply subseq_app; [apply Hl; split; [exact C1|intros x Hx; apply I; apply in_or_app; left; exact Hx]|].
  constructor. apply Hr. split; [exact C2'|intros x Hx; apply I; apply in_or_app; right; right; exact Hx].
Qed.

(* ... so it is safe for every set of trusted arcs that contains the arc, and so is every sub-sequence of it *)
Theorem dominator_chain_is_safe G s t X u v bl br :
  In (u, v) X -> dom_order G s u bl -> dom_order G v t br -> safe_for_edges G s t X (bl ++ (u, v) :: br).
Proof.
  intros HX Hl Hr. apply safe_iff_edge. exists (u, v). split; [exact HX|]. intros w Hw Hin.
  exact (dominator_chain_in_every_walk G s t u v bl br Hl Hr w Hw Hin).
Qed.
Theorem subsequence_of_safe_is_safe G s t X q q' : subseq q' q -> safe_for_edges G s t X q -> safe_for_edges G s t X q'.
Proof.
  intros Hs H. apply safe_iff_edge in H. destruct H as (e & He & H). apply safe_iff_edge. exists e. split; [exact He|].
  intros w Hw Hin. exact (subseq_trans _ _ _ Hs (H w Hw Hin)).
Qed.
Corollary filtered_dominator_chain_is_safe G s t X u v bl br (keep : edge -> bool) :
  In (u, v) X -> dom_order G s u bl -> dom_order G v t br -> safe_for_edges G s t X (filter keep (bl ++ (u, v) :: br)).
Proof.
  intros HX Hl Hr. apply (subsequence_of_safe_is_safe G s t X (bl ++ (u, v) :: br)); [apply subseq_filter|].
  apply dominator_chain_is_safe; assumption.
Qed.

(* maximality: an arc outside the chain is avoided by some source-to-sink walk through the arc *)
Theorem non_dominator_is_avoidable G s t u v d :
  In (u, v) G -> (exists w, st_walk G s u w) -> (exists w, st_walk G v t w) ->
  d <> (u, v) -> ~ dominates_to G s u d -> ~ dominates_to G v t d ->
  exists W, st_walk G s t W /\ In (u, v) W /\ ~ In d W.
Proof.
  intros He Hsu Hvt Hne N1 N2.
  assert (Av : forall a b, (exists w, st_walk G a b w) -> ~ dominates_to G a b d -> exists w, st_walk G a b w /\ ~ In d w).
  { intros a b _ Hn. destruct (bridgeb G a b d) eqn:B; [exfalso; apply Hn; exact (proj1 (bridgeb_correct _ _ _ _) B)|].
    unfold bridgeb in B. apply negb_false_iff in B. apply reachb_correct in B. destruct B as (w & C & I). exists w. split.
    - split; [exact C|]. intros x Hx. apply I in Hx. apply filter_In in Hx. apply Hx.
    - intros Hin. apply I in Hin. apply filter_In in Hin. destruct Hin as [_ Q]. apply neqe_true in Q. congruence. }
  destruct (Av s u Hsu N1) as (w1 & [C1 I1] & A1). destruct (Av v t Hvt N2) as (w2 & [C2 I2] & A2).
  exists (w1 ++ (u, v) :: w2). split; [split|split].
  - eapply chain_app; [exact C1|]. constructor. exact C2.
  - intros x Hx. apply in_app_or in Hx. destruct Hx as [Hx|[<-|Hx]]; [apply I1; exact Hx|exact He|apply I2; exact Hx].
  - apply in_or_app. right. left. reflexivity.
  - intros Hin. apply in_app_or in Hin. destruct Hin as [H|[H|H]]; [exact (A1 H)|exact (Hne (eq_sym H))|exact (A2 H)].
Qed.

(* ---- non-vacuity on a graph with a cycle: 0 -> 1 -> 2 -> 3 with the back arc 2 -> 1 and a second way 0 -> 4 -> 1 into the cycle ---- *)
Definition cycG : graph := [(0, 1); (1, 2); (2, 1); (2, 3); (0, 4); (4, 1)]%N.
Example cyc_dominator_chain :
  dom_order cycG 0%N 1%N [] /\ dom_order cycG 2%N 3%N [(2, 3)%N] /\
  safe_for_edges cycG 0%N 3%N [(1, 2)%N] [(1, 2); (2, 3)]%N.
Proof.
  assert (H1 : dom_order cycG 0%N 1%N []).
  { replace (@nil edge) with (filter (bridgeb cycG 0%N 1%N) [(0, 1)%N]) by (vm_compute; reflexivity).
    apply dom_order_of_path; [split; [repeat constructor|intros x [<-|[]]; cbn; tauto]|repeat constructor; cbn; tauto]. }
  assert (H2 : dom_order cycG 2%N 3%N [(2, 3)%N]).
  { replace [(2, 3)%N] with (filter (bridgeb cycG 2%N 3%N) [(2, 3)%N]) by (vm_compute; reflexivity).
    apply dom_order_of_path; [split; [repeat constructor|intros x [<-|[]]; cbn; tauto]|repeat constructor; cbn; tauto]. }
  split; [exact H1|]. split; [exact H2|].
  exact (dominator_chain_is_safe cycG 0%N 3%N [(1, 2)%N] 1%N 2%N [] [(2, 3)%N] (or_introl eq_refl) H1 H2).
Qed.
