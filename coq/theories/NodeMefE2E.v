(* C16 in NODE mode (flow_attr_origin = 'node'), stated in the caller's terms.  The caller's digraph (V, E) - acyclic or not - carries
   rational node weights fq and a per-node error scaling sc; nodes in [ign] (explicitly ignored, attribute-less) and nodes of
   scaling 0 are not charged.  A NODE FLOW is an assignment x : node -> Q>=0 for which some edge assignment y : E -> Q>=0 makes the
   inflow of every node that has in-edges equal to x v and the outflow of every node that has out-edges equal to x v (integral
   values for weight_type = int).  Node mode solves the edge model of the node expansion (DilworthNode.expE: v becomes the edge
   v.0 -> v.1 = 2v -> 2v+1 carrying the weight and scaling of v, every edge u -> v the connecting edge u.1 -> v.0; connecting edges and
   the uncharged nodes' edges are in edges_to_ignore, so the y above is free).  This file works on the expansion itself (the form
   the model takes for graphs with cycles: no global source / sink, sparsity_lambda = 0); for acyclic input the implementation
   additionally adds a source and a sink whose edges are ignored, which does not change the set of node flows (not proved here).
   Key lemma: conserving flows of the expansion <-> (node flow, witness y).  Theorem: an optimal solution of the expanded instance's
   rows, read back on the node edges, is a node flow minimising the sum over the charged nodes of sc v * |fq v - x v| over ALL node
   flows (MefBound.mef_optimal_is_closest_full transferred). *)
From Coq Require Import List NArith ZArith QArith Lqa Bool Arith Lia.
Import ListNotations.
From FP Require Import Lin Blocks BlocksProofs PathEnc PathEncComplete MiscEnc MiscEncProofs MefBound Aug DilworthNode NodeFlowE2E NodeErrE2E.
Set Default Timeout 60.
Local Open Scope Q_scope.

Definition conn (e : PathEnc.edge) : PathEnc.edge := (x1 (fst e), x0 (snd e)).

(* ---------------------------------------------------------------------------------------------- the caller's notions *)
Definition node_flow_w (V : list node) (E : list PathEnc.edge) (isint : bool) (x : node -> Q) (y : PathEnc.edge -> Q) : Prop :=
  (forall e, In e E -> 0 <= y e /\ (isint = true -> is_int (y e))) /\
  (forall v, In v V -> 0 <= x v /\ (isint = true -> is_int (x v))) /\
  (forall v, In v V -> (mef_in_edges E v <> [] -> sumq y (mef_in_edges E v) == x v) /\
                       (out_edges E v <> [] -> x v == sumq y (out_edges E v))).
Definition node_flow (V : list node) (E : list PathEnc.edge) (isint : bool) (x : node -> Q) : Prop := exists y, node_flow_w V E isint x y.
(* the distance that MinErrorFlow minimises, on nodes *)
Definition node_flow_cost (V : list node) (fq sc : node -> Q) (ign : list node) (x : node -> Q) : Q :=
  sumq (fun v => sc v * absd (fq v) (x v)) (nodes_basic V ign sc).

(* the instance node mode hands to the edge model *)
Definition node_mef_inst (V : list node) (E : list PathEnc.edge) (fq sc : node -> Q) (ign : list node) (isint : bool) : mef_inst :=
  {| mef_nodes := expV V; mef_edges := expE V E;
     mef_flow := map (fun v => (nedge v, fq v)) (nodes_basic V ign sc);
     mef_ignore := map conn E ++ map nedge (filter (fun v => negb (ngood ign sc v)) V);
     mef_scale := map (fun v => (nedge v, sc v)) V;
     mef_lambda := 0; mef_src := None; mef_int := isint |}.

(* ---------------------------------------------------------------------------------------------- helpers *)
Lemma lookup_map_cases (h : node -> Q) l e d : lookup_q e (map (fun v => (nedge v, h v)) l) d = d \/ exists v, In v l /\ e = nedge v /\ lookup_q e (map (fun v => (nedge v, h v)) l) d = h v.
Proof.
  induction l as [|u l IH]; [left; reflexivity|]. cbn [map lookup_q]. destruct (edge_eqb (nedge u) e) eqn:X.
  - right. exists u. split; [left; reflexivity|]. split; [|reflexivity]. unfold edge_eqb in X. apply andb_true_iff in X. destruct X as [X1 X2].
    apply N.eqb_eq in X1, X2. destruct e. cbn in *. subst. reflexivity.
  - destruct IH as [IH|(v & Hv & Ee & IH)]; [left; exact IH|right; exists v; split; [right; exact Hv|split; assumption]].
Qed.

Lemma x0_x1' u v : x1 u <> x0 v.
Proof. intros H. exact (x0_x1 v u (eq_sym H)). Qed.

Lemma filter_eq_single (l : list node) v : NoDup l -> In v l -> filter (fun u => (u =? v)%N) l = [v].
Proof.
  induction 1 as [|a l Ha ND IH]; intros Hv; [destruct Hv|]. cbn [filter]. destruct (N.eqb_spec a v) as [->|Hne].
  - f_equal. apply filter_all_false. intros u Hu. apply N.eqb_neq. intros ->. contradiction.
  - destruct Hv as [Hv|Hv]; [contradiction|]. exact (IH Hv).
Qed.

Section Lists.
  Variables (V : list node) (E : list PathEnc.edge).
  Hypothesis NDV : NoDup V.

  Lemma in_x0 v : mef_in_edges (expE V E) (x0 v) = map conn (mef_in_edges E v).
  Proof.
    unfold mef_in_edges, expE. rewrite filter_app, !filter_map_comm.
    rewrite (filter_all_false (fun x => (snd (nedge x) =? x0 v)%N) V); [cbn [map app]|].
    - f_equal. apply filter_ext. intros e. cbn [snd]. destruct (N.eqb_spec (snd e) v) as [->|Hne]; [apply N.eqb_refl|].
      apply N.eqb_neq. intros H. apply x0_inj in H. contradiction.
    - intros u _. cbn [nedge snd]. apply N.eqb_neq. apply x0_x1'.
  Qed.
  Lemma out_x1 v : out_edges (expE V E) (x1 v) = map conn (out_edges E v).
  Proof.
    unfold out_edges, expE. rewrite filter_app, !filter_map_comm.
    rewrite (filter_all_false (fun x => (fst (nedge x) =? x1 v)%N) V); [cbn [map app]|].
    - f_equal. apply filter_ext. intros e. cbn [fst]. destruct (N.eqb_spec (fst e) v) as [->|Hne]; [apply N.eqb_refl|].
      apply N.eqb_neq. intros H. apply x1_inj in H. contradiction.
    - intros u _. cbn [nedge fst]. apply N.eqb_neq. apply x0_x1.
  Qed.
  Lemma out_x0 v : In v V -> out_edges (expE V E) (x0 v) = [nedge v].
  Proof.
    intros Hv. unfold out_edges, expE. rewrite filter_app, !filter_map_comm.
    rewrite (filter_all_false (fun x => (fst (x1 (fst x), x0 (snd x)) =? x0 v)%N) E); [rewrite app_nil_r|].
    - rewrite (filter_ext (fun x => (fst (nedge x) =? x0 v)%N) (fun u => (u =? v)%N)); [rewrite (filter_eq_single V v NDV Hv); reflexivity|].
      intros u. cbn [nedge fst]. destruct (N.eqb_spec u v) as [->|Hne]; [apply N.eqb_refl|]. apply N.eqb_neq. intros H. apply x0_inj in H. contradiction.
    - intros e _. cbn [fst]. apply N.eqb_neq. apply x0_x1'.
  Qed.
  Lemma in_x1 v : In v V -> mef_in_edges (expE V E) (x1 v) = [nedge v].
  Proof.
    intros Hv. unfold mef_in_edges, expE. rewrite filter_app, !filter_map_comm.
    rewrite (filter_all_false (fun x => (snd (x1 (fst x), x0 (snd x)) =? x1 v)%N) E); [rewrite app_nil_r|].
    - rewrite (filter_ext (fun x => (snd (nedge x) =? x1 v)%N) (fun u => (u =? v)%N)); [rewrite (filter_eq_single V v NDV Hv); reflexivity|].
      intros u. cbn [nedge snd]. destruct (N.eqb_spec u v) as [->|Hne]; [apply N.eqb_refl|]. apply N.eqb_neq. intros H. apply x1_inj in H. contradiction.
    - intros e _. cbn [snd]. apply N.eqb_neq. apply x0_x1.
  Qed.
End Lists.

Section NodeMef.
  Variables (V : list node) (E : list PathEnc.edge).
  Variables fq sc : node -> Q.
  Variable ign : list node.
  Variable isint : bool.
  Hypothesis NDV : NoDup V.
  Hypothesis NDE : NoDup E.
  Hypothesis HE : forall e, In e E -> In (fst e) V /\ In (snd e) V.

  Let I := node_mef_inst V E fq sc ign isint.

  (* ---- reading an expansion flow on nodes / building one from a node flow *)
  Definition xn (z : PathEnc.edge -> Q) (v : node) : Q := z (nedge v).
  Definition yn (z : PathEnc.edge -> Q) (e : PathEnc.edge) : Q := z (conn e).
  Definition zof (x : node -> Q) (y : PathEnc.edge -> Q) (e : PathEnc.edge) : Q :=
    if N.even (fst e) then x (N.div2 (fst e)) else y (N.div2 (fst e), N.div2 (snd e)).

  Lemma even_x0 v : N.even (x0 v) = true.
  Proof. unfold x0. rewrite N.even_mul. reflexivity. Qed.
  Lemma even_x1 v : N.even (x1 v) = false.
  Proof. unfold x1. rewrite N.add_comm, N.even_add_mul_2. reflexivity. Qed.
  Lemma div2_x0 v : N.div2 (x0 v) = v.
  Proof. unfold x0. apply N.div2_double. Qed.
  Lemma div2_x1 v : N.div2 (x1 v) = v.
  Proof. unfold x1. rewrite <- N.succ_double_spec. apply N.div2_succ_double. Qed.
  Lemma zof_nedge x y v : zof x y (nedge v) = x v.
  Proof. unfold zof, nedge. cbn [fst]. rewrite even_x0, div2_x0. reflexivity. Qed.
  Lemma zof_conn x y e : zof x y (conn e) = y e.
  Proof. unfold zof, conn. cbn [fst snd]. rewrite even_x1, div2_x1, div2_x0. destruct e; reflexivity. Qed.

  Lemma sumq_conn z l : sumq z (map conn l) = sumq (yn z) l.
  Proof. rewrite PathEncProofs.sumq_map. reflexivity. Qed.

  Lemma conserved_x0 v : In v V -> conserved I (x0 v) = true <-> mef_in_edges E v <> [].
  Proof.
    intros Hv. unfold conserved. cbn [I node_mef_inst mef_edges]. rewrite (in_x0 V E v), (out_x0 V E NDV v Hv).
    destruct (mef_in_edges E v); cbn [map]; split; intros H; try discriminate; try reflexivity. contradiction.
  Qed.
  Lemma conserved_x1 v : In v V -> conserved I (x1 v) = true <-> out_edges E v <> [].
  Proof.
    intros Hv. unfold conserved. cbn [I node_mef_inst mef_edges]. rewrite (in_x1 V E NDV v Hv), (out_x1 V E v).
    destruct (out_edges E v); cbn [map]; split; intros H; try discriminate; try reflexivity. contradiction.
  Qed.

  (* the key lemma, both directions *)
  Theorem expansion_flow_is_node_flow z : is_flow_nb I z -> node_flow_w V E isint (xn z) (yn z).
  Proof.
    intros [Hz Hc]. cbn [I node_mef_inst mef_edges mef_nodes mef_int] in Hz, Hc. split; [|split].
    - intros e He. apply (Hz (conn e)). apply expE_in. right. exists (fst e), (snd e). destruct e. auto.
    - intros v Hv. apply (Hz (nedge v)). apply expE_in. left. exists v. auto.
    - intros v Hv. split; intros Hne.
      + assert (Hin : In (x0 v) (expV V)) by (apply expV_in; exists v; auto).
        specialize (Hc (x0 v) Hin (proj2 (conserved_x0 v Hv) Hne)).
        rewrite (in_x0 V E v), (out_x0 V E NDV v Hv), sumq_conn in Hc. cbn [sumq] in Hc. unfold xn. rewrite Hc. ring.
      + assert (Hin : In (x1 v) (expV V)) by (apply expV_in; exists v; auto).
        specialize (Hc (x1 v) Hin (proj2 (conserved_x1 v Hv) Hne)).
        rewrite (in_x1 V E NDV v Hv), (out_x1 V E v), sumq_conn in Hc. cbn [sumq] in Hc. unfold xn. rewrite <- Hc. ring.
  Qed.

  Theorem node_flow_is_expansion_flow x y : node_flow_w V E isint x y -> is_flow_nb I (zof x y).
  Proof.
    intros (Hy & Hx & Hc). split.
    - intros e He. cbn [I node_mef_inst mef_edges mef_int] in *. destruct e as [a b]. apply expE_in in He.
      destruct He as [(v & Hv & -> & ->)|(u & v & Huv & -> & ->)].
      + change (x0 v, x1 v) with (nedge v). rewrite zof_nedge. exact (Hx v Hv).
      + change (x1 u, x0 v) with (conn (u, v)). rewrite zof_conn. exact (Hy _ Huv).
    - intros a Ha Hcons. cbn [I node_mef_inst mef_nodes mef_edges] in Ha |- *. apply expV_in in Ha. destruct Ha as (v & Hv & [-> | ->]).
      + apply (conserved_x0 v Hv) in Hcons. rewrite (in_x0 V E v), (out_x0 V E NDV v Hv), sumq_conn. cbn [sumq]. rewrite zof_nedge.
        rewrite <- (proj1 (Hc v Hv) Hcons). rewrite Qplus_0_r. apply sumq_ext. intros e _. unfold yn. rewrite zof_conn. reflexivity.
      + apply (conserved_x1 v Hv) in Hcons. rewrite (in_x1 V E NDV v Hv), (out_x1 V E v), sumq_conn. cbn [sumq]. rewrite zof_nedge.
        rewrite (proj2 (Hc v Hv) Hcons). rewrite Qplus_0_r. apply sumq_ext. intros e _. unfold yn. rewrite zof_conn. reflexivity.
  Qed.

  (* ---- the charged edges are the node edges of the charged nodes, and the costs agree *)
  Lemma nedge_ignored v : In v V -> ignored I (nedge v) = negb (ngood ign sc v).
  Proof.
    intros Hv. unfold ignored. cbn [I node_mef_inst mef_ignore]. rewrite ErrEncIgnore.mem_edge_app.
    assert (M1 : mem_edge (nedge v) (map conn E) = false).
    { destruct (mem_edge (nedge v) (map conn E)) eqn:M; [exfalso|reflexivity]. apply mem_edge_In in M. apply in_map_iff in M.
      destruct M as (e & Eq & _). injection Eq as Eq _. exact (x0_x1 _ _ (eq_sym Eq)). }
    rewrite M1. cbn [orb]. apply eq_true_iff_eq. rewrite mem_edge_In, in_map_iff. split.
    - intros (u & Eq & Hu). injection Eq as Eq _. apply x0_inj in Eq. subst u. apply filter_In in Hu. tauto.
    - intros H. exists v. split; [reflexivity|]. apply filter_In. auto.
  Qed.

  Theorem charged_nedges : charged I = map nedge (nodes_basic V ign sc).
  Proof.
    unfold charged. cbn [I node_mef_inst mef_edges]. fold (node_mef_inst V E fq sc ign isint). fold I. unfold expE. rewrite filter_app, filter_map_comm.
    rewrite (filter_all_false _ (map (fun e : node * node => (x1 (fst e), x0 (snd e))) E)).
    - rewrite app_nil_r. unfold nodes_basic. f_equal. apply filter_ext_in. intros v Hv. rewrite (nedge_ignored v Hv). apply negb_involutive.
    - intros e He. apply negb_false_iff. unfold ignored. cbn [I node_mef_inst mef_ignore]. rewrite ErrEncIgnore.mem_edge_app. apply orb_true_iff. left.
      apply mem_edge_In. exact He.
  Qed.

  Lemma fval_nedge v : In v (nodes_basic V ign sc) -> fval I (nedge v) = fq v.
  Proof. intros Hv. unfold fval. cbn [I node_mef_inst mef_flow]. apply lookup_nedge_q. exact Hv. Qed.
  Lemma scale_nedge v : In v V -> MiscEnc.scale_of I (nedge v) = sc v.
  Proof. intros Hv. unfold MiscEnc.scale_of. cbn [I node_mef_inst mef_scale]. apply lookup_nedge_q. exact Hv. Qed.

  Theorem flow_cost_agree z : flow_cost I z == node_flow_cost V fq sc ign (xn z).
  Proof.
    unfold flow_cost, node_flow_cost. rewrite charged_nedges, PathEncProofs.sumq_map.
    assert (S0 : src_out I = []) by reflexivity. rewrite S0. cbn [sumq]. cbn [I node_mef_inst mef_lambda].
    assert (X : forall q, q + 0 * 0 == q) by (intros; ring). rewrite X. apply sumq_ext. intros v Hv.
    rewrite (fval_nedge v Hv), (scale_nedge v (nodes_basic_in V sc ign v Hv)). reflexivity.
  Qed.

  (* the documented domain in the caller's terms *)
  Definition node_mef_domain : Prop :=
    (forall v, In v (nodes_basic V ign sc) -> 0 <= fq v /\ (isint = true -> is_int (fq v))) /\ (forall v, In v V -> 0 <= sc v).

  Lemma domain_I : node_mef_domain ->
    (forall e, In e (mef_edges I) -> 0 <= fval I e) /\ (mef_int I = true -> forall e, In e (mef_edges I) -> is_int (fval I e)) /\
    (forall e, In e (mef_edges I) -> 0 <= MiscEnc.scale_of I e).
  Proof.
    intros [Hf Hs]. split; [|split].
    - intros e _. unfold fval. cbn [I node_mef_inst mef_flow].
      destruct (lookup_map_cases fq (nodes_basic V ign sc) e 0) as [-> |(v & Hv & _ & ->)]; [lra|apply (Hf v Hv)].
    - intros Hi e _. unfold fval. cbn [I node_mef_inst mef_flow mef_int] in *.
      destruct (lookup_map_cases fq (nodes_basic V ign sc) e 0) as [-> |(v & Hv & _ & ->)]; [exists 0%Z; reflexivity|apply (Hf v Hv); exact Hi].
    - intros e _. unfold MiscEnc.scale_of. cbn [I node_mef_inst mef_scale].
      destruct (lookup_map_cases sc V e 1) as [-> |(v & Hv & _ & ->)]; [lra|apply (Hs v Hv)].
  Qed.

  (* C16 in node mode: an optimal solution of the expanded instance's rows, read back on the node edges, is a node flow that is
     closest to the node weights among ALL node flows *)
  Theorem node_mef_optimal_is_closest_node_flow (a : var -> Q) : node_mef_domain ->
    sat a (encode_mef I) -> (forall b, sat b (encode_mef I) -> obj_le (encode_mef I) a b) ->
    let x := fun v => xof a (nedge v) in
    node_flow V E isint x /\
    (forall x', node_flow V E isint x' -> node_flow_cost V fq sc ign x <= node_flow_cost V fq sc ign x').
  Proof.
    intros Hdom Hsat Hopt x. destruct (domain_I Hdom) as (D1 & D2 & D3).
    destruct (mef_optimal_is_closest_full I a (expE_nodup V E NDV NDE) D1 D2 D3 Hsat Hopt) as [[Hub Hcons] Hbest].
    assert (Hnb : is_flow_nb I (xof a)).
    { split; [|exact Hcons]. intros e He. destruct (Hub e He) as [[H0 _] Hi]. split; assumption. }
    split.
    - exists (yn (xof a)). exact (expansion_flow_is_node_flow (xof a) Hnb).
    - intros x' (y' & Hw). pose proof (Hbest (zof x' y') (node_flow_is_expansion_flow x' y' Hw)) as Hle.
      rewrite !flow_cost_agree in Hle.
      assert (E1 : node_flow_cost V fq sc ign (xn (zof x' y')) == node_flow_cost V fq sc ign x').
      { unfold node_flow_cost. apply sumq_ext. intros v _. unfold xn. rewrite zof_nedge. reflexivity. }
      rewrite E1 in Hle. exact Hle.
  Qed.

  (* every solution of the rows reads back as a node flow whose distance is at most the objective *)
  Theorem node_mef_solution_is_node_flow (a : var -> Q) : node_mef_domain -> sat a (encode_mef I) ->
    node_flow V E isint (fun v => xof a (nedge v)) /\ node_flow_cost V fq sc ign (fun v => xof a (nedge v)) <= objective a (encode_mef I).
  Proof.
    intros Hdom Hsat. destruct (domain_I Hdom) as (_ & _ & D3).
    pose proof (mef_objective_lower_bound I a D3 Hsat) as Hlb. rewrite flow_cost_agree in Hlb.
    pose proof (proj1 (mef_enc_exact I a) Hsat) as (Hb & Hc & _).
    assert (Hnb : is_flow_nb I (xof a)).
    { split; [|exact Hc]. intros e He. destruct (Hb e He) as ([H0 _] & _ & Hi). split; [exact H0|]. intros Hint. apply (Hi Hint). }
    split; [exists (yn (xof a)); exact (expansion_flow_is_node_flow (xof a) Hnb)|exact Hlb].
  Qed.

  (* the few-flow-values second phase: any solution of the second model reads back as a node flow within the budget (1+eps)*opt *)
  Theorem node_mef_few_values_within_budget (subset : list PathEnc.edge) (eps opt : Q) (nvals : nat) (a : var -> Q) : node_mef_domain ->
    sat a (encode_mef2 I subset eps opt nvals) ->
    node_flow V E isint (fun v => xof a (nedge v)) /\ node_flow_cost V fq sc ign (fun v => xof a (nedge v)) <= (1 + eps) * opt.
  Proof.
    intros Hdom Hsat. destruct (mef2_within_budget I subset eps opt nvals a Hsat) as [H1 H2].
    destruct (node_mef_solution_is_node_flow a Hdom H1) as [F C]. split; [exact F|]. lra.
  Qed.
End NodeMef.

(* ================================================================================================================= *)
(* non-vacuity: the chain 1 -> 2 -> 3 with node weights 10, 4, 10 (scaling 1, nothing ignored): every node flow is constant along the
   chain, so its distance to the weights is |10-m| + |4-m| + |10-m| >= 6, attained by the constant 10 only: the closest node flow
   raises node 2 by 6 *)
Definition mxV : list node := [1; 2; 3]%N.
Definition mxE : list PathEnc.edge := [(1, 2); (2, 3)]%N.
Definition mxfq (v : node) : Q := if (v =? 2)%N then 4 else 10.
Definition mxsc (v : node) : Q := 1.

Lemma mx_flow_const x : node_flow mxV mxE false x -> x 1%N == x 2%N /\ x 2%N == x 3%N.
Proof.
  intros (y & _ & _ & Hc).
  destruct (Hc 1%N ltac:(cbn; tauto)) as [_ O1]. destruct (Hc 2%N ltac:(cbn; tauto)) as [I2 O2]. destruct (Hc 3%N ltac:(cbn; tauto)) as [I3 _].
  cbn in O1, I2, O2, I3. specialize (O1 ltac:(discriminate)). specialize (I2 ltac:(discriminate)).
  specialize (O2 ltac:(discriminate)). specialize (I3 ltac:(discriminate)). split; lra.
Qed.

Lemma mx_cost x : node_flow_cost mxV mxfq mxsc [] x == absd 10 (x 1%N) + absd 4 (x 2%N) + absd 10 (x 3%N).
Proof.
  assert (NB : nodes_basic mxV [] mxsc = [1; 2; 3]%N) by reflexivity.
  unfold node_flow_cost. rewrite NB. cbn [sumq mxfq mxsc N.eqb Pos.eqb]. unfold mxsc. ring.
Qed.

Lemma mx_premises :
  NoDup mxV /\ NoDup mxE /\ (forall e, In e mxE -> In (fst e) mxV /\ In (snd e) mxV) /\
  node_mef_domain mxV mxfq mxsc [] false /\
  node_flow mxV mxE false (fun _ => 10) /\ node_flow_cost mxV mxfq mxsc [] (fun _ => 10) == 6 /\
  (forall x, node_flow mxV mxE false x -> 6 <= node_flow_cost mxV mxfq mxsc [] x) /\
  (forall x, node_flow mxV mxE false x -> node_flow_cost mxV mxfq mxsc [] x == 6 -> x 1%N == 10 /\ x 2%N == 10 /\ x 3%N == 10).
Proof.
  split; [repeat constructor; cbn; intuition discriminate|].
  split; [repeat constructor; cbn; intuition discriminate|].
  split; [intros e He; cbn in He; destruct He as [<-|[<-|[]]]; cbn; tauto|].
  split; [split; [intros v Hv; cbn in Hv; destruct Hv as [<-|[<-|[<-|[]]]]; cbn; (split; [lra|discriminate])|intros v _; unfold mxsc; lra]|].
  split.
  - exists (fun _ => 10). split; [intros e _; split; [lra|discriminate]|]. split; [intros v _; split; [lra|discriminate]|].
    intros v Hv. cbn in Hv. destruct Hv as [<-|[<-|[<-|[]]]]; cbn; split; intros H; try (exfalso; apply H; reflexivity); ring.
  - split; [rewrite mx_cost; reflexivity|]. split.
    + intros x Hx. rewrite mx_cost. destruct (mx_flow_const x Hx) as [E1 E2].
      destruct (absd_spec 10 (x 1%N)) as (A1 & A2 & _). destruct (absd_spec 4 (x 2%N)) as (B1 & B2 & _). destruct (absd_spec 10 (x 3%N)) as (C1 & C2 & _). lra.
    + intros x Hx Hc. rewrite mx_cost in Hc. destruct (mx_flow_const x Hx) as [E1 E2].
      destruct (absd_spec 10 (x 1%N)) as (A1 & A2 & _). destruct (absd_spec 4 (x 2%N)) as (B1 & B2 & _). destruct (absd_spec 10 (x 3%N)) as (C1 & C2 & _).
      repeat split; lra.
Qed.
