(* C09 (cyclic) in NODE mode, composed end to end with the LP and its repetition caps, in the caller's terms.  For the caller's
   digraph (V, E) - cycles and self-loops allowed - with cover_type = 'node', ignored nodes ign and additional starts / ends S, T:
   MinPathCoverCycles solves the k-cover models of the node expansion (DilworthNode.expE; connecting edges and ignored nodes' edges in
   elements_to_ignore).  WalkWidthCaps shows that the caps of the cover model (|E*| * |V*| inside SCCs, 1 outside) always admit a
   minimum cover of bounded repetition, so no side condition on the caps is needed.  Here: the search returns w, there are w walks of
   the GRAPH (DilworthNode.nwalk) covering every non-ignored node, no family of graph walks covering them is smaller, and there are w
   non-ignored nodes no two of which lie on a common walk of the graph (the node walk width). *)
From Coq Require Import List NArith ZArith QArith Lqa Bool Arith Lia Permutation.
Import ListNotations.
From FP Require Import Lin Blocks BlocksProofs PathEnc PathEncProofs PathEncComplete Euler EulerProofs1 EulerProofs4 Aug AugProofs
                       EndToEnd1 EndToEnd2 ErrEncIgnore Dilworth DilworthNode NodeFlowE2E NodeFlowST NodeWalkE2E.
From FP Require Import WalkEnc WalkDecode WalkEncRows WalkEncRowsProofs WalkTree WalkEncComplete WalkEncIff WalkCoverIff WalkSearch
                       WalkWidth WalkWidthCaps WalkExamples.
From FP Require NodeErrE2E SafeFix.
Set Default Timeout 90.
Local Close Scope Q_scope.

Definition node_kpcc_inst (V : list node) (E : list PathEnc.edge) (S T : list node) (s t : node) (ign : list node) (k : nat) : kpcc_inst :=
  {| pc_graph := st_ofST (expV V) (expE V E) (map x0 S) (map x1 T) s t; pc_k := k; pc_ignore := node_ignore E ign;
     pc_cons := []; pc_cov := 1%Q; pc_opts := no_opts; pc_safe_lists := []; pc_fix := [] |}.

Theorem node_minpathcovercycles_returns_the_node_walk_width
    (V : list node) (E : list PathEnc.edge) (S T : list node) (s t : node) (ign : list node) (out : nat -> outcome) (lb nE : nat) :
  ~ In s (expV V) -> ~ In t (expV V) -> s <> t -> (forall e, In e E -> In (fst e) V /\ In (snd e) V) -> NoDup V -> NoDup E ->
  let A' := aug_edges (expV V) (expE V E) (map x0 S) (map x1 T) s t in
  (* every edge of the expanded s-t graph lies on a source-to-sink walk (decidable: WalkWidth.st_ok) *)
  (forall u v, In (u, v) A' -> conn A' s u /\ conn A' v t) ->
  (* solver specification for the k-cover models of the expanded instance *)
  (forall j, out j = Optimal <-> exists a, sat a (encode_kpcc (node_kpcc_inst V E S T s t ign j))) ->
  (forall j, out j = Infeasible <-> ~ exists a, sat a (encode_kpcc (node_kpcc_inst V E S T s t ign j))) ->
  exists (w : nat) (W : list (list node)) (A : list node),
    length W = w /\ (forall p, In p W -> nwalk V E S T p) /\ (forall v, In v V -> ~ In v ign -> exists p, In p W /\ In v p) /\
    (forall W2, (forall p, In p W2 -> nwalk V E S T p) -> (forall v, In v V -> ~ In v ign -> exists p, In p W2 /\ In v p) -> (w <= length W2)%nat) /\
    length A = w /\ NoDup A /\ (forall v, In v A -> In v V /\ ~ In v ign) /\ node_incompatible V E A /\
    ((lb <= w <= nE)%nat -> mfdc_solve out (fun _ => false) None lb nE = Solved w).
Proof.
  intros Hs Ht Hst HE NDV NDE A' Hconn Hopt Hinf.
  set (I := node_kpcc_inst V E S T s t ign 0).
  assert (WFS : wf_stg (pc_graph I)) by (exact (wf_I V E S T s t V (fun _ => 0%Q) ign false Hs Ht Hst HE NDV NDE 0)).
  assert (Htc : tocover I = map nedge (ncount V ign)).
  { exact (kept_nedges V E S T s t V (fun _ => 0%Q) ign false Hs Ht 0). }
  destruct (width_cover_is_admissible I WFS Hconn eq_refl eq_refl eq_refl) as (Ae & P & Hadm & NDA & HA & Hinc).
  set (w := length Ae) in *.
  assert (HAn : forall e, In e Ae -> exists v, In v V /\ ~ In v ign /\ e = nedge v).
  { intros e He. apply HA in He. rewrite Htc in He. apply in_map_iff in He. destruct He as (v & <- & Hv).
    destruct (ncount_in V ign v Hv) as [H1 H2]. exists v. auto. }
  (* the admissible cover, contracted to walks of the graph *)
  pose proof Hadm as (HP & Hcover & _).
  assert (HP' : forall i, In i (layers w) -> hd_error (P i) = Some s /\ last (P i) s = t /\ incl (pairs (P i)) A') by exact HP.
  destruct (walks_contract V E S T s t Hs Ht Hst HE w P HP') as [HPn Heq].
  set (Pn := NodeErrE2E.conP P) in *.
  exists w, (map Pn (layers w)), (map (fun e : PathEnc.edge => N.div2 (fst e)) Ae).
  assert (Hnd : forall v, N.div2 (fst (nedge v)) = v) by (intros v; unfold nedge, x0; cbn [fst]; destruct v; reflexivity).
  split; [unfold layers; rewrite !map_length, seq_length; reflexivity|].
  split; [intros p Hp; apply in_map_iff in Hp; destruct Hp as (i & <- & Hi); exact (HPn i Hi)|].
  split.
  { intros v Hv Hni.
    assert (HeE : In (nedge v) (g_edges (pc_graph (kset I w)))).
    { apply (aug_in (expV V) (expE V E) (map x0 S) (map x1 T) s t). left. apply expE_in. left. exists v. auto. }
    assert (Hig : mem_edge (nedge v) (kpcc_ignore (kset I w)) = false).
    { assert (Hin : In (nedge v) (tocover I)) by (rewrite Htc; apply in_map; unfold ncount; apply filter_In; split; [exact Hv|];
        apply negb_true_iff; apply not_true_iff_false; intros X; apply memn_In in X; contradiction).
      apply filter_In in Hin. destruct Hin as [_ Hn]. apply negb_true_iff in Hn. exact Hn. }
    destruct (Hcover (nedge v) HeE Hig) as (i & Hi & Hm). exists (Pn i). split; [apply in_map; exact Hi|].
    destruct (HPn i Hi) as (Hne & _). unfold mult in Hm. rewrite (Heq i Hi) in Hm. unfold NodeErrE2E.expP in Hm. fold Pn in Hm.
    rewrite (mult_nedge s t v (Pn i) Hne) in Hm. unfold visits in Hm.
    apply (count_occ_In N.eq_dec). lia. }
  split.
  { intros W2 HW2 Hcov2. unfold w.
    rewrite <- (map_length (fun p => s :: expand p ++ [t]) W2).
    apply (walk_cover_needs_width_many_walks A' (map (fun p => s :: expand p ++ [t]) W2) Ae NDA Hinc).
    - intros l Hl. apply in_map_iff in Hl. destruct Hl as (p & <- & Hp). exact (nwalk_in_aug V E S T s t Hs Ht Hst HE p (HW2 p Hp)).
    - intros e He. destruct (HAn e He) as (v & Hv & Hni & ->). destruct (Hcov2 v Hv Hni) as (p & Hp & Hvp).
      exists (s :: expand p ++ [t]). split; [apply (in_map (fun p => s :: expand p ++ [t])); exact Hp|].
      destruct (HW2 p Hp) as (Hne & _). apply count_e_pos.
      pose proof (mult_nedge s t v p Hne) as Hm. unfold multz, visits in Hm. apply Nat2Z.inj in Hm. rewrite Hm.
      apply (count_occ_In N.eq_dec) in Hvp. lia. }
  split; [rewrite map_length; reflexivity|].
  split.
  { apply SafeFix.NoDup_map_inj_in; [|exact NDA]. intros e1 e2 H1 H2 Eq.
    destruct (HAn e1 H1) as (v1 & _ & _ & ->). destruct (HAn e2 H2) as (v2 & _ & _ & ->). rewrite !Hnd in Eq. congruence. }
  split; [intros v Hv; apply in_map_iff in Hv; destruct Hv as (e & <- & He); destruct (HAn e He) as (v & Hv & Hni & ->); rewrite Hnd; auto|].
  split.
  { intros u v l Hu Hv Hne HlV Hl Iu Iv. apply in_map_iff in Hu, Hv. destruct Hu as (e1 & <- & He1). destruct Hv as (e2 & <- & He2).
    destruct (HAn e1 He1) as (v1 & _ & _ & ->). destruct (HAn e2 He2) as (v2 & _ & _ & ->). rewrite !Hnd in *.
    apply (Hinc (nedge v1) (nedge v2) (expand l) He1 He2).
    + intros Eq. injection Eq as Eq _. apply x0_inj in Eq. contradiction.
    + intros e He. apply (aug_in (expV V) (expE V E) (map x0 S) (map x1 T) s t). left. apply (expand_walk V E l HlV Hl). exact He.
    + apply nedge_in_expand. exact Iu.
    + apply nedge_in_expand. exact Iv. }
  intros Hrange.
  apply (mpcc_returns_minimum_within_caps (kset I) out lb nE w); try assumption.
  - intros j. split; [reflexivity|]. split; [exact WFS|]. split; [reflexivity|]. split.
    + intros c e Hc. cbn in Hc. destruct Hc.
    + intros w0 e Hw. cbn in Hw. destruct Hw.
  - exists P. exact Hadm.
  - intros j Hj (P' & HP2). pose proof (admissible_cover_is_at_least_walk_width I j P' Ae HP2 NDA HA Hinc). lia.
Qed.

(* non-vacuity: 1 -> 2 -> {3, 4} with a self-loop at 2 (a cycle; two sinks, so the node walk width is at least 2): every premise about the
   caller's input holds, the reachability premise by the executable check WalkWidth.st_ok on the expanded s-t graph *)
Definition cxV : list node := [1; 2; 3; 4]%N.
Definition cxE : list PathEnc.edge := [(1, 2); (2, 2); (2, 3); (2, 4)]%N.
Lemma cx_premises :
  ~ In 100%N (expV cxV) /\ ~ In 101%N (expV cxV) /\ 100%N <> 101%N /\ (forall e, In e cxE -> In (fst e) cxV /\ In (snd e) cxV) /\ NoDup cxV /\ NoDup cxE /\
  (let A' := aug_edges (expV cxV) (expE cxV cxE) (map x0 []) (map x1 []) 100%N 101%N in
   forall u v, In (u, v) A' -> conn A' 100%N u /\ conn A' v 101%N) /\
  nwalk cxV cxE [] [] [1; 2; 2; 3]%N /\ nwalk cxV cxE [] [] [1; 2; 4]%N.
Proof.
  split; [cbn; intuition discriminate|]. split; [cbn; intuition discriminate|]. split; [discriminate|].
  split; [intros e He; cbn in He; destruct He as [<-|[<-|[<-|[<-|[]]]]]; cbn; tauto|].
  split; [repeat constructor; cbn; intuition discriminate|]. split; [repeat constructor; cbn; intuition discriminate|].
  split; [cbv zeta; apply st_ok_spec; vm_compute; reflexivity|].
  split; unfold nwalk; (split; [discriminate|]); (split; [intros x Hx; cbn in Hx |- *; tauto|]); (split; [intros e He; cbn in He |- *; tauto|]); split; reflexivity.
Qed.
