(* Non-vacuity of the checked C07 / C08 theorems: concrete instances on the path s -> a -> b -> c -> t pass the
   executable premises, have a satisfying assignment, and an OPTIMAL one (so every hypothesis of
   klae_optimal_checked / kmpe_optimal_checked is satisfiable), and the optimum values are the expected ones. *)
From Coq Require Import List NArith ZArith QArith Qabs Qround Lqa Bool Arith Lia Permutation.
Import ListNotations.
From FP Require Import Lin Blocks BlocksProofs PathEnc PathEncProofs PathEncComplete WfCheck CheckedInstances
                       ErrEnc ErrEncProofs ErrEncProofs2 ErrEncProofs3 ErrEncComplete ErrEncOptimal ErrEncKlae ErrEncOptimal2 ErrEncChecked.
Set Default Timeout 120.
Local Close Scope Q_scope.

Definition wit_order : list node := [0; 1; 2; 3; 4]%N.

(* C07: f = (2, 0), scaling 1/2 on (b,c), k = 1, integer weights: optimum 1 *)
Example klae_checked_nonvacuous :
  klae_premises_b wit12 wit_order = true /\ e_given wit12 = None /\ p_allow_empty (e_base wit12) = false /\
  sat wit12_a (encode_klae wit12) /\
  (forall b, sat b (encode_klae wit12) -> (objective wit12_a (encode_klae wit12) <= objective b (encode_klae wit12))%Q) /\
  (objective wit12_a (encode_klae wit12) == 1)%Q.
Proof.
  split; [vm_compute; reflexivity|]. split; [reflexivity|]. split; [reflexivity|].
  destruct klae_objective_old_refuted as (I & a & _). clear I a.
  split; [apply sat_b_sound; vm_compute; reflexivity|]. split; [|vm_compute; reflexivity].
  intros b [Hc Hr].
  assert (EA : (objective wit12_a (encode_klae wit12) == 1)%Q) by (vm_compute; reflexivity).
  rewrite EA. unfold objective.
  remember (obj (encode_klae wit12)) as ob eqn:EO. vm_compute in EO. subst ob.
  remember (rows (encode_klae wit12)) as rs eqn:ER. vm_compute in ER. subst rs.
  remember (cols (encode_klae wit12)) as cs eqn:EC. vm_compute in EC. subst cs.
  split_forall Hr. split_forall Hc.
  unfold sat_row in *. unfold sat_col in *. cbn [sns lhs rhs eval fst snd cvar clb cub cint] in *.
  lra.
Qed.

(* C08: the same weights with continuous weight type: |2 - w| <= sigma and w/2 <= sigma, optimum 2/3 at w = 4/3 *)
Definition wit12f : err_inst :=
  {| e_base := wit_base; e_flow := [((1, 2), 2%Q); ((2, 3), 0%Q)]%N; e_user_ignore := [];
     e_scale := [((2, 3)%N, (1 # 2)%Q)]; e_int := false; e_given := None; e_korig := 1 |}.
Definition wit_kmpe_f : kmpe_inst := {| m_err := wit12f; m_len := None; m_pieces := [] |}.
Definition wit_kmpe_f_a : var -> Q := wit_kmpe_a (4 # 3)%Q (2 # 3)%Q 4%Q [].

Example kmpe_checked_nonvacuous :
  kmpe_premises_b wit_kmpe_f wit_order = true /\ e_given (m_err wit_kmpe_f) = None /\ m_pieces wit_kmpe_f = [] /\
  p_allow_empty (e_base (m_err wit_kmpe_f)) = false /\
  sat wit_kmpe_f_a (encode_kmpe wit_kmpe_f) /\
  (forall b, sat b (encode_kmpe wit_kmpe_f) -> (objective wit_kmpe_f_a (encode_kmpe wit_kmpe_f) <= objective b (encode_kmpe wit_kmpe_f))%Q) /\
  (objective wit_kmpe_f_a (encode_kmpe wit_kmpe_f) == 2 # 3)%Q.
Proof.
  split; [vm_compute; reflexivity|]. split; [reflexivity|]. split; [reflexivity|]. split; [reflexivity|].
  split; [apply sat_b_sound; vm_compute; reflexivity|]. split; [|vm_compute; reflexivity].
  intros b [Hc Hr].
  assert (EA : (objective wit_kmpe_f_a (encode_kmpe wit_kmpe_f) == 2 # 3)%Q) by (vm_compute; reflexivity).
  rewrite EA. unfold objective.
  remember (obj (encode_kmpe wit_kmpe_f)) as ob eqn:EO. vm_compute in EO. subst ob.
  remember (rows (encode_kmpe wit_kmpe_f)) as rs eqn:ER. vm_compute in ER. subst rs.
  remember (cols (encode_kmpe wit_kmpe_f)) as cs eqn:EC. vm_compute in EC. subst cs.
  split_forall Hr. split_forall Hc.
  unfold sat_row in *. unfold sat_col in *. cbn [sns lhs rhs eval fst snd cvar clb cub cint] in *.
  lra.
Qed.

(* the decoded optimum of the C08 example is a choice in the sense of kmpe_choice (instance of kmpe_enc_sound_checked) *)
Example kmpe_example_choice :
  kmpe_choice wit_kmpe_f (dec_path (eG (m_err wit_kmpe_f)) wit_kmpe_f_a (length wit_order))
              (fun i => wit_kmpe_f_a (W i)) (fun i => wit_kmpe_f_a (Slack i)).
Proof.
  destruct kmpe_checked_nonvacuous as (Hp & Hg & Hpc & Hae & Hsat & _).
  exact (proj1 (kmpe_enc_sound_checked wit_kmpe_f wit_kmpe_f_a wit_order Hp Hg Hpc Hae Hsat)).
Qed.
