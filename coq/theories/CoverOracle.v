(* A VERIFIED exhaustive oracle for path covers of small DAG instances: enumerate every source-to-sink path of the s-t graph,
   then every set of at most k of them; decide whether one covers all non-ignored edges and realises every subpath constraint.
   cover_exists_b B ignore k = true  <->  a path cover in the sense of PathCoverComplete.path_cover (+ constraints_covered)
   with k paths exists.  Extracted and used by the C09/C10 engines instead of the Python search. *)
From Coq Require Import List NArith ZArith QArith Lqa Bool Arith Lia Permutation.
Import ListNotations.
From FP Require Import Lin Blocks BlocksProofs PathEnc Aug AugProofs Euler EulerProofs1 EulerProofs2 DagDecode PathEncProofs PathEncComplete PathCoverComplete.
Set Default Timeout 60.
Local Close Scope Q_scope.

(* ---- all paths from v to t (t has no out-edges in an s-t graph) ---- *)
Fixpoint paths_from (E : list edge) (t : node) (fuel : nat) (v : node) : list (list node) :=
  match fuel with
  | O => []
  | S f => if (v =? t)%N then [[v]]
           else flat_map (fun e => map (cons v) (paths_from E t f (snd e))) (out_edges E v)
  end.

Lemma paths_from_sound E t fuel : forall v p, In p (paths_from E t fuel v) ->
  hd_error p = Some v /\ last p v = t /\ incl (pairs p) E.
Proof.
  induction fuel as [|f IH]; intros v p Hp; [destruct Hp|]. cbn [paths_from] in Hp.
  destruct (N.eqb_spec v t) as [->|Hvt].
  - destruct Hp as [<-|[]]. repeat split. intros e [].
  - apply in_flat_map in Hp. destruct Hp as (e & He & Hp). apply in_map_iff in Hp. destruct Hp as (q & <- & Hq).
    unfold out_edges in He. apply filter_In in He. destruct He as [HeE Hfst]. apply N.eqb_eq in Hfst.
    destruct (IH _ _ Hq) as (Hh & Hl & Hi). split; [reflexivity|].
    destruct q as [|x q']; [discriminate|]. cbn in Hh. injection Hh as ->.
    split.
    + change (last (v :: snd e :: q') v) with (last (snd e :: q') v). rewrite (last_cons_default q' v (snd e)).
      rewrite last_cons_default in Hl. exact Hl.
    + change (pairs (v :: snd e :: q')) with ((v, snd e) :: pairs (snd e :: q')). intros y [<-|Hy]; [|apply Hi; exact Hy].
      destruct e as [a b]. cbn in *. subst a. exact HeE.
Qed.

Lemma paths_from_complete E t : (forall e, In e E -> fst e <> t) ->
  forall p fuel v, hd_error p = Some v -> last p v = t -> incl (pairs p) E -> (length p <= fuel)%nat ->
  In p (paths_from E t fuel v).
Proof.
  intros Hnot. induction p as [|a p IH]; intros fuel v Hh Hl Hi Hlen; [discriminate|].
  cbn in Hh. injection Hh as ->. destruct fuel as [|f]; [cbn in Hlen; lia|]. cbn [paths_from].
  destruct p as [|b r].
  - cbn in Hl. subst v. rewrite N.eqb_refl. left. reflexivity.
  - assert (Hab : In (v, b) E) by (apply Hi; change (pairs (v :: b :: r)) with ((v, b) :: pairs (b :: r)); left; reflexivity).
    destruct (N.eqb_spec v t) as [->|Hvt]; [exfalso; exact (Hnot _ Hab eq_refl)|].
    apply in_flat_map. exists (v, b). split; [unfold out_edges; apply filter_In; split; [exact Hab|apply N.eqb_refl]|].
    apply in_map. cbn [snd]. apply IH.
    + reflexivity.
    + change (last (v :: b :: r) v) with (last (b :: r) v) in Hl. rewrite last_cons_default in Hl. rewrite last_cons_default. exact Hl.
    + intros e He. apply Hi. change (pairs (v :: b :: r)) with ((v, b) :: pairs (b :: r)). right. exact He.
    + cbn in Hlen. cbn. lia.
Qed.

(* ---- sublists with at most k elements ---- *)
Fixpoint sublists_upto {A} (k : nat) (l : list A) : list (list A) :=
  match l with
  | [] => [[]]
  | x :: r => sublists_upto k r ++ match k with O => [] | S k' => map (cons x) (sublists_upto k' r) end
  end.

Lemma sublists_incl {A} (l : list A) : forall k sub, In sub (sublists_upto k l) -> incl sub l /\ (length sub <= k)%nat.
Proof.
  induction l as [|x r IH]; intros k sub H.
  - destruct H as [<-|[]]. split; [intros y []|cbn; lia].
  - cbn [sublists_upto] in H. apply in_app_or in H. destruct H as [H|H].
    + destruct (IH k sub H) as [I L]. split; [intros y Hy; right; apply I; exact Hy|exact L].
    + destruct k as [|k']; [destruct H|]. apply in_map_iff in H. destruct H as (s' & <- & Hs').
      destruct (IH k' s' Hs') as [I L]. split; [intros y [<-|Hy]; [left; reflexivity|right; apply I; exact Hy]|cbn; lia].
Qed.

(* every duplicate-free set of at most k members of l has an enumerated sublist with exactly its members *)
Lemma sublists_complete {A} (dec : forall x y : A, {x = y} + {x <> y}) (l : list A) :
  forall k (S : list A), NoDup S -> incl S l -> (length S <= k)%nat ->
  exists sub, In sub (sublists_upto k l) /\ (forall x, In x sub <-> In x S).
Proof.
  induction l as [|x r IH]; intros k S ND HS Hlen.
  - exists []. split; [left; reflexivity|]. intros y. split; [intros []|intros Hy; destruct (HS y Hy)].
  - destruct (in_dec dec x S) as [HxS|HxS].
    + destruct (in_split _ _ HxS) as (S1 & S2 & ->).
      assert (ND' : NoDup (S1 ++ S2)) by (apply NoDup_remove_1 in ND; exact ND).
      assert (Hx' : ~ In x (S1 ++ S2)) by (apply NoDup_remove_2 in ND; exact ND).
      destruct k as [|k']; [rewrite app_length in Hlen; cbn in Hlen; lia|].
      (* members of S other than x may still occur in r (x itself may be repeated in r, harmless) *)
      destruct (IH k' (S1 ++ S2) ND') as (sub & Hsub & Hmem).
      * intros y Hy. assert (Hy' : In y (S1 ++ x :: S2)) by (apply in_or_app; apply in_app_or in Hy; destruct Hy; [left|right; right]; assumption).
        destruct (HS y Hy') as [<-|H]; [contradiction|exact H].
      * rewrite app_length in *. cbn in Hlen. lia.
      * exists (x :: sub). split.
        -- cbn [sublists_upto]. apply in_or_app. right. apply in_map. exact Hsub.
        -- intros y. cbn [In]. rewrite Hmem, !in_app_iff. cbn [In]. tauto.
    + destruct (IH k S ND) as (sub & Hsub & Hmem).
      * intros y Hy. destruct (HS y Hy) as [<-|H]; [contradiction|exact H].
      * exact Hlen.
      * exists sub. split; [cbn [sublists_upto]; apply in_or_app; left; exact Hsub|exact Hmem].
Qed.

(* ---- the oracle ---- *)
Definition all_paths (G : stgraph) : list (list node) :=
  paths_from (g_edges G) (g_snk G) (S (length (g_nodes G))) (g_src G).

Definition path_realises (B : path_inst) (c : list edge) (p : list node) : bool :=
  Qle_bool (cons_length B c * p_cov B)%Q (sumq (fun e => (elen B e * indq (mem_edge e (pairs p)))%Q) c).
Definition covers_sub (need : list edge) (sub : list (list node)) : bool :=
  forallb (fun e => existsb (fun p => mem_edge e (pairs p)) sub) need.
Definition cons_sub (B : path_inst) (sub : list (list node)) : bool :=
  forallb (fun c => existsb (path_realises B c) sub) (p_cons B).
Definition need_edges (B : path_inst) (ignore : list edge) : list edge :=
  filter (fun e => negb (mem_edge e ignore)) (g_edges (p_graph B)).

Definition cover_exists_b (B : path_inst) (ignore : list edge) (k : nat) : bool :=
  let ps := all_paths (p_graph B) in
  match ps with
  | [] => false
  | _ => existsb (fun sub => covers_sub (need_edges B ignore) sub && cons_sub B sub) (sublists_upto k ps)
  end.

(* least k in 1..kmax with a cover, None if there is none *)
Fixpoint first_cover (B : path_inst) (ignore : list edge) (k : nat) (todo : nat) : option nat :=
  match todo with
  | O => None
  | S n => if cover_exists_b B ignore k then Some k else first_cover B ignore (S k) n
  end.
Definition min_cover (B : path_inst) (ignore : list edge) (kmax : nat) : option nat := first_cover B ignore 1 kmax.

Lemma list_eq_dec_node : forall x y : list node, {x = y} + {x <> y}.
Proof. apply list_eq_dec. apply N.eq_dec. Qed.

Lemma in_pairs_member' (l : list node) (x : node) : In x l -> (2 <= length l)%nat ->
  exists e, In e (pairs l) /\ (fst e = x \/ snd e = x).
Proof.
  intros Hx Hlen. induction l as [|a l IH]; [destruct Hx|]. destruct l as [|b r]; [cbn in Hlen; lia|].
  rewrite pairs_cons2. destruct Hx as [->|Hx].
  - exists (x, b). split; [left; reflexivity|left; reflexivity].
  - destruct r as [|c r'].
    + destruct Hx as [->|[]]. exists (a, x). split; [left; reflexivity|right; reflexivity].
    + destruct IH as (e & He & Hor); [exact Hx|cbn; lia|]. exists e. split; [right; exact He|exact Hor].
Qed.

Section Oracle.
  Variable B : path_inst.
  Variable ignore : list edge.
  Let G := p_graph B.
  Let k := p_k B.
  Variable rank : node -> nat.
  Hypothesis WF : wf_graph G.
  Hypothesis Hrank : forall u v, In (u, v) (g_edges G) -> (rank u < rank v)%nat.
  Hypothesis Hk : (1 <= k)%nat.

  Lemma path_in_all (p : list node) :
    hd_error p = Some (g_src G) -> last p (g_src G) = g_snk G -> NoDup p -> incl (pairs p) (g_edges G) -> In p (all_paths G).
  Proof.
    intros Hh Hl ND Hi. unfold all_paths. apply paths_from_complete; try assumption.
    - intros e He. exact (wf_snk G WF e He).
    - (* a duplicate-free path over the nodes of the graph *)
      assert (Hlen2 : (2 <= length p)%nat).
      { destruct p as [|a [|b r]]; [discriminate| |cbn; lia]. cbn in Hh, Hl. injection Hh as ->. exfalso. exact (wf_st G WF Hl). }
      assert (Hinc : incl p (g_nodes G)).
      { intros x Hx. destruct (in_pairs_member' p x Hx Hlen2) as (e & He & [<-|<-]); apply (wf_ends G WF e (Hi e He)). }
      pose proof (NoDup_incl_length ND Hinc). lia.
  Qed.

  Lemma all_paths_sound p : In p (all_paths G) ->
    hd_error p = Some (g_src G) /\ last p (g_src G) = g_snk G /\ NoDup p /\ incl (pairs p) (g_edges G).
  Proof.
    intros Hp. destruct (paths_from_sound _ _ _ _ _ Hp) as (Hh & Hl & Hi). repeat split; try assumption.
    destruct p as [|a r]; [discriminate|]. destruct (rank_walk_nodup (g_edges G) rank Hrank r a Hi) as [ND _]. exact ND.
  Qed.

  Theorem cover_exists_b_correct :
    cover_exists_b B ignore k = true <-> exists P, path_cover B ignore P /\ constraints_covered B P.
  Proof.
    unfold cover_exists_b. fold G. split.
    - destruct (all_paths G) as [|p0 ps0] eqn:EP; [discriminate|]. intros Hex. apply existsb_exists in Hex.
      destruct Hex as (sub & Hsub & Hok). apply andb_true_iff in Hok. destruct Hok as [Hcov Hcons].
      destruct (sublists_incl _ _ _ Hsub) as [Hincl Hlen]. rewrite <- EP in Hincl.
      set (lst := match sub with [] => [p0] | _ => sub end).
      assert (Hlst_in : incl lst (all_paths G)).
      { unfold lst. destruct sub; [intros x [<-|[]]; rewrite EP; left; reflexivity|exact Hincl]. }
      assert (Hlst_len : (1 <= length lst <= k)%nat).
      { unfold lst. destruct sub; cbn in *; lia. }
      assert (Hsub_lst : incl sub lst) by (unfold lst; destruct sub; [intros x []|intros x Hx; exact Hx]).
      set (P := fun i : N => nth (N.to_nat i) lst p0).
      assert (HPin : forall i, In i (layers k) -> In (P i) (all_paths G) \/ P i = p0).
      { intros i _. unfold P. destruct (Nat.lt_ge_cases (N.to_nat i) (length lst)) as [Hlt|Hge].
        - left. apply Hlst_in. apply nth_In. exact Hlt.
        - right. apply nth_overflow. exact Hge. }
      assert (Hp0 : In p0 (all_paths G)) by (rewrite EP; left; reflexivity).
      assert (Hidx : forall p, In p sub -> exists i, In i (layers k) /\ P i = p).
      { intros p Hp. apply Hsub_lst in Hp. destruct (In_nth lst p p0 Hp) as (n & Hn & En).
        exists (N.of_nat n). split; [apply in_layers; exists n; split; [lia|reflexivity]|]. unfold P. rewrite Nat2N.id. exact En. }
      exists P. split; [split|].
      + intros i Hi. apply all_paths_sound. destruct (HPin i Hi) as [H|E]; [exact H|rewrite E; exact Hp0].
      + intros e He Hig. unfold covers_sub in Hcov. rewrite forallb_forall in Hcov.
        assert (Hne : In e (need_edges B ignore)) by (unfold need_edges; apply filter_In; split; [exact He|rewrite Hig; reflexivity]).
        specialize (Hcov e Hne). apply existsb_exists in Hcov. destruct Hcov as (p & Hp & M).
        destruct (Hidx p Hp) as (i & Hi & <-). exists i. split; assumption.
      + intros n c Hn. unfold cons_sub in Hcons. rewrite forallb_forall in Hcons.
        specialize (Hcons c (nth_error_In _ _ Hn)). apply existsb_exists in Hcons. destruct Hcons as (p & Hp & R).
        destruct (Hidx p Hp) as (i & Hi & <-). exists i. split; [exact Hi|]. unfold path_realises in R. apply Qle_bool_iff in R. exact R.
    - intros (P & [HP Hcov] & Hcc).
      assert (H0 : In 0%N (layers k)) by (apply in_layers; exists 0%nat; split; [lia|reflexivity]).
      assert (Hall : forall i, In i (layers k) -> In (P i) (all_paths G)).
      { intros i Hi. destruct (HP i Hi) as (Hh & Hl & ND & Hin). apply path_in_all; assumption. }
      destruct (all_paths G) as [|p0 ps0] eqn:EP; [destruct (Hall 0%N H0)|]. rewrite <- EP in *.
      set (S := nodup list_eq_dec_node (map P (layers k))).
      destruct (sublists_complete list_eq_dec_node (all_paths G) k S) as (sub & Hsub & Hmem).
      + apply NoDup_nodup.
      + intros p Hp. unfold S in Hp. apply nodup_In in Hp. apply in_map_iff in Hp. destruct Hp as (i & <- & Hi). exact (Hall i Hi).
      + unfold S.
        assert (Hle : (length (nodup list_eq_dec_node (map P (layers k))) <= length (map P (layers k)))%nat).
        { apply NoDup_incl_length; [apply NoDup_nodup|]. intros p Hp. apply nodup_In in Hp. exact Hp. }
        rewrite map_length in Hle. unfold layers in Hle. rewrite map_length, seq_length in Hle. exact Hle.
      + assert (HinS : forall i, In i (layers k) -> In (P i) sub).
        { intros i Hi. apply Hmem. unfold S. apply nodup_In. apply in_map. exact Hi. }
        apply existsb_exists. exists sub. split; [exact Hsub|]. apply andb_true_iff. split.
        * unfold covers_sub. apply forallb_forall. intros e He. unfold need_edges in He. apply filter_In in He.
          destruct He as [HeE Hig]. apply negb_true_iff in Hig. destruct (Hcov e HeE Hig) as (i & Hi & M).
          apply existsb_exists. exists (P i). split; [exact (HinS i Hi)|exact M].
        * unfold cons_sub. apply forallb_forall. intros c Hc. destruct (In_nth_error _ _ Hc) as (n & Hn).
          destruct (Hcc n c Hn) as (i & Hi & R). apply existsb_exists. exists (P i). split; [exact (HinS i Hi)|].
          unfold path_realises. apply Qle_bool_iff. exact R.
  Qed.
End Oracle.

Definition set_k (B : path_inst) (k : nat) : path_inst :=
  {| p_graph := p_graph B; p_k := k; p_allow_empty := p_allow_empty B; p_cons := p_cons B; p_cov := p_cov B; p_len := p_len B |}.

Lemma cover_exists_b_set_k B ignore k j : cover_exists_b (set_k B j) ignore k = cover_exists_b B ignore k.
Proof. reflexivity. Qed.

Lemma first_cover_spec B ignore : forall n k0,
  match first_cover B ignore k0 n with
  | Some k => (k0 <= k < k0 + n)%nat /\ cover_exists_b B ignore k = true /\ forall j, (k0 <= j < k)%nat -> cover_exists_b B ignore j = false
  | None => forall j, (k0 <= j < k0 + n)%nat -> cover_exists_b B ignore j = false
  end.
Proof.
  induction n as [|n IH]; intros k0; cbn [first_cover]; [intros j Hj; lia|].
  destruct (cover_exists_b B ignore k0) eqn:C.
  - split; [lia|]. split; [exact C|]. intros j Hj. lia.
  - specialize (IH (S k0)). destruct (first_cover B ignore (S k0) n) as [k|].
    + destruct IH as (Hr & Hc & Hm). split; [lia|]. split; [exact Hc|]. intros j Hj.
      destruct (Nat.eq_dec j k0) as [->|Hne]; [exact C|apply Hm; lia].
    + intros j Hj. destruct (Nat.eq_dec j k0) as [->|Hne]; [exact C|apply IH; lia].
Qed.

(* the verified oracle: min_cover returns the least number of paths of any cover realising the constraints *)
Theorem min_cover_correct (B : path_inst) (ignore : list edge) (rank : node -> nat) (kmax : nat) :
  wf_graph (p_graph B) -> (forall u v, In (u, v) (g_edges (p_graph B)) -> (rank u < rank v)%nat) ->
  match min_cover B ignore kmax with
  | Some k => (1 <= k <= kmax)%nat /\
              (exists P, path_cover (set_k B k) ignore P /\ constraints_covered (set_k B k) P) /\
              (forall j, (1 <= j < k)%nat -> ~ exists P, path_cover (set_k B j) ignore P /\ constraints_covered (set_k B j) P)
  | None => forall j, (1 <= j <= kmax)%nat -> ~ exists P, path_cover (set_k B j) ignore P /\ constraints_covered (set_k B j) P
  end.
Proof.
  intros WF Hrank. unfold min_cover. pose proof (first_cover_spec B ignore kmax 1) as H.
  assert (Hiff : forall j, (1 <= j)%nat -> (cover_exists_b B ignore j = true <->
                   exists P, path_cover (set_k B j) ignore P /\ constraints_covered (set_k B j) P)).
  { intros j Hj. rewrite <- (cover_exists_b_set_k B ignore j j).
    exact (cover_exists_b_correct (set_k B j) ignore rank WF Hrank Hj). }
  destruct (first_cover B ignore 1 kmax) as [k|].
  - destruct H as (Hr & Hc & Hm). split; [lia|]. split; [apply Hiff; [lia|exact Hc]|].
    intros j Hj Hex. apply Hiff in Hex; [|lia]. rewrite (Hm j ltac:(lia)) in Hex. discriminate.
  - intros j Hj Hex. apply Hiff in Hex; [|lia]. rewrite (H j ltac:(lia)) in Hex. discriminate.
Qed.

(* non-vacuity: the diamond of PathEncExample.v needs two paths *)
From FP Require Import PathEncExample.
Example min_cover_example : min_cover (exB 0) [] 4 = Some 2%nat.
Proof. vm_compute. reflexivity. Qed.
