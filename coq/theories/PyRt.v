(* PyRt.v — hand-written runtime for the models that harness/translate.py GENERATES from the Python
   source on every run (Gen_<name>.v, compiled outside coq/theories).  It fixes the typed embedding
   (nodes = N, edges = N*N, numbers = Z / Q / Q extended by -inf, an edge's data dict restricted to the
   flow attribute = option Q, dict = association list, set = list used for membership only, graph =
   the iteration orders the harness passes) and the control combinators the translator emits:
   a statement is a function  state -> control * state  with control Normal | Continue | Return v | Raise e.
   Everything here is TRUSTED in the sense that it defines what the generated text means; the lemmas are
   proved (no axioms). *)
From Coq Require Import List NArith ZArith QArith Qabs Bool Lia Lqa.
Import ListNotations.

Notation node := N.
Notation edge := (N * N)%type.

(* ------------------------------------------------------------------------- control *)
(* BreakSignal and OutOfFuel are not Python exceptions: `break` is modelled as a signal caught by the innermost loop
   (py_loop_b / py_while), OutOfFuel says that a `while` did not finish within the fuel the caller of the model gave *)
Inductive exn := ValueError | KeyError | TypeError | RuntimeError | IndexError | PyException | BreakSignal | OutOfFuel | UnboundLocalError | ZeroDivisionError.
Inductive ctl (R : Type) := CNormal | CContinue | CReturn (r : R) | CRaise (e : exn).
Arguments CNormal {R}. Arguments CContinue {R}. Arguments CReturn {R} r. Arguments CRaise {R} e.
(* what a call yields: a value, an exception, or falling off the end (Python: None) *)
Inductive result (R : Type) := Ret (r : R) | Exc (e : exn) | RetNone.
Arguments Ret {R} r. Arguments Exc {R} e. Arguments RetNone {R}.

Definition stmt (S R : Type) := S -> ctl R * S.

Section Stmt.
Context {S R : Type}.
Definition py_skip : stmt S R := fun s => (CNormal, s).
Definition py_assign (f : S -> S) : stmt S R := fun s => (CNormal, f s).
Definition py_seq (a b : stmt S R) : stmt S R :=
  fun s => match a s with (CNormal, s') => b s' | r => r end.
Definition py_if (c : S -> bool) (a b : stmt S R) : stmt S R := fun s => if c s then a s else b s.
Definition py_continue : stmt S R := fun s => (CContinue, s).
Definition py_return (f : S -> R) : stmt S R := fun s => (CReturn (f s), s).
Definition py_raise (e : exn) : stmt S R := fun s => (CRaise e, s).
(* a partial operation of the statement (d[k] with k missing, `x in None`): checked before the statement runs *)
Definition py_guard (g : S -> bool) (e : exn) (a : stmt S R) : stmt S R :=
  fun s => if g s then (CRaise e, s) else a s.
(* `for x in l: body` — l is evaluated once; `continue` ends the current iteration only *)
Fixpoint py_loop {A} (body : A -> stmt S R) (l : list A) (s : S) : ctl R * S :=
  match l with
  | [] => (CNormal, s)
  | x :: l' => match body x s with
               | (CNormal, s') | (CContinue, s') => py_loop body l' s'
               | r => r
               end
  end.
Definition py_for {A} (it : S -> list A) (body : A -> stmt S R) : stmt S R :=
  fun s => py_loop body (it s) s.
(* a `for` whose body contains `break` *)
Fixpoint py_loop_b {A} (body : A -> stmt S R) (l : list A) (s : S) : ctl R * S :=
  match l with
  | [] => (CNormal, s)
  | x :: l' => match body x s with
               | (CNormal, s') | (CContinue, s') => py_loop_b body l' s'
               | (CRaise BreakSignal, s') => (CNormal, s')
               | r => r
               end
  end.
Definition py_for_b {A} (it : S -> list A) (body : A -> stmt S R) : stmt S R :=
  fun s => py_loop_b body (it s) s.
(* `while c: body` with at most `fuel` evaluations of c *)
Fixpoint py_while (fuel : nat) (c : S -> bool) (body : stmt S R) (s : S) : ctl R * S :=
  match fuel with
  | O => (CRaise OutOfFuel, s)
  | Datatypes.S f =>
      if c s then
        match body s with
        | (CNormal, s') | (CContinue, s') => py_while f c body s'
        | (CRaise BreakSignal, s') => (CNormal, s')
        | r => r
        end
      else (CNormal, s)
  end.
(* the expanded body of a method call `self.m(...)`: a `return` inside it ends the callee, the caller goes on *)
Definition py_catch_return {S R : Type} (b : stmt S R) : stmt S R :=
  fun s => match b s with (CReturn _, s') => (CNormal, s') | r => r end.

Definition py_outcome (c : ctl R) : result R :=
  match c with CNormal | CContinue => RetNone | CReturn r => Ret r | CRaise e => Exc e end.
Definition py_run (b : stmt S R) (s : S) : result R :=
  match fst (b s) with CNormal | CContinue => RetNone | CReturn r => Ret r | CRaise e => Exc e end.

Lemma py_loop_app : forall A (body : A -> stmt S R) l1 l2 s,
  py_loop body (l1 ++ l2) s =
  match py_loop body l1 s with (CNormal, s') => py_loop body l2 s' | r => r end.
Proof.
  induction l1 as [|x l1 IH]; intros; cbn [py_loop app]; [reflexivity|].
  destruct (body x s) as [[| |r|e] s']; auto.
Qed.

Lemma py_loop_not_continue : forall A (body : A -> stmt S R) l s s', py_loop body l s <> (CContinue, s').
Proof.
  induction l as [|x l IH]; intros s s'; cbn [py_loop]; [discriminate|].
  destruct (body x s) as [[| |r|e] s1]; try apply IH; discriminate.
Qed.

(* invariant rule: Inv is indexed by the prefix already processed; Post receives an abrupt exit *)
Lemma py_loop_inv : forall A (body : A -> stmt S R) (Inv : list A -> S -> Prop) (Post : ctl R -> S -> Prop) l s,
  Inv [] s ->
  (forall done x rest s1, l = done ++ x :: rest -> Inv done s1 ->
     match body x s1 with
     | (CNormal, s2) | (CContinue, s2) => Inv (done ++ [x]) s2
     | (c, s2) => Post c s2
     end) ->
  match py_loop body l s with (CNormal, s') => Inv l s' | (c, s') => Post c s' end.
Proof.
  intros A body Inv Post l s H0 Hstep.
  assert (G : forall rest done s1, l = done ++ rest -> Inv done s1 ->
            match py_loop body rest s1 with (CNormal, s') => Inv l s' | (c, s') => Post c s' end).
  { induction rest as [|x rest IH]; intros done s1 El Hi; cbn [py_loop].
    - rewrite app_nil_r in El; subst; exact Hi.
    - pose proof (Hstep done x rest s1 El Hi) as Hs.
      destruct (body x s1) as [[| |r|e] s2]; auto;
        apply (IH (done ++ [x])); auto; rewrite <- app_assoc; exact El. }
  apply (G l [] s); auto.
Qed.
End Stmt.

(* ------------------------------------------------------------------------- numbers *)
Definition Qltb (a b : Q) : bool := negb (Qle_bool b a).
Definition Qmax_py (a b : Q) : Q := if Qltb a b then b else a.      (* Python max(a, b): b only if b > a *)
Definition Qmin_py (a b : Q) : Q := if Qltb b a then b else a.
Definition Zmax_py (a b : Z) : Z := if Z.ltb a b then b else a.
Definition Zmin_py (a b : Z) : Z := if Z.ltb b a then b else a.

Lemma Qltb_lt : forall a b, Qltb a b = true <-> a < b.
Proof.
  intros; unfold Qltb; rewrite negb_true_iff; split; intro H.
  - apply Qnot_le_lt; intro L; apply Qle_bool_iff in L; congruence.
  - destruct (Qle_bool b a) eqn:E; auto. apply Qle_bool_iff in E. exfalso; apply (Qlt_not_le _ _ H E).
Qed.
Lemma Qltb_ge : forall a b, Qltb a b = false <-> b <= a.
Proof.
  intros; unfold Qltb; rewrite negb_false_iff; apply Qle_bool_iff.
Qed.

(* float("-inf") and what grows out of it *)
Inductive xq := NegInf | Fin (q : Q).
Definition xq_ltb (a b : xq) : bool :=
  match a, b with
  | NegInf, NegInf => false | NegInf, Fin _ => true | Fin _, NegInf => false
  | Fin x, Fin y => Qltb x y
  end.
Definition xq_leb (a b : xq) : bool := negb (xq_ltb b a).
Definition xq_eqb (a b : xq) : bool :=
  match a, b with NegInf, NegInf => true | Fin x, Fin y => Qeq_bool x y | _, _ => false end.
Definition xq_max (a b : xq) : xq := if xq_ltb a b then b else a.
Definition xq_min (a b : xq) : xq := if xq_ltb b a then b else a.
Definition xq_le (a b : xq) : Prop :=
  match a, b with NegInf, _ => True | Fin _, NegInf => False | Fin x, Fin y => x <= y end.
Definition xq_eq (a b : xq) : Prop :=
  match a, b with NegInf, NegInf => True | Fin x, Fin y => x == y | _, _ => False end.

Fixpoint sumQ (l : list Q) : Q := match l with [] => 0 | x :: l' => x + sumQ l' end.

(* ------------------------------------------------------------------------- containers *)
Definition py_pair_eqb {A B} (ea : A -> A -> bool) (eb : B -> B -> bool) (p q : A * B) : bool :=
  ea (fst p) (fst q) && eb (snd p) (snd q).
Definition edge_eqb : edge -> edge -> bool := py_pair_eqb N.eqb N.eqb.
Lemma edge_eqb_eq : forall e f, edge_eqb e f = true <-> e = f.
Proof.
  intros [a b] [c d]; unfold edge_eqb, py_pair_eqb; cbn [fst snd].
  rewrite andb_true_iff, !N.eqb_eq; split; [intros [-> ->]; reflexivity | intro H; inversion H; auto].
Qed.

Definition py_mem {A} (eqb : A -> A -> bool) (x : A) (l : list A) : bool := existsb (eqb x) l.
Lemma py_mem_In : forall A (eqb : A -> A -> bool), (forall a b, eqb a b = true <-> a = b) ->
  forall x l, py_mem eqb x l = true <-> In x l.
Proof.
  intros A eqb H x l; unfold py_mem; rewrite existsb_exists; split.
  - intros [y [Hy E]]; apply H in E; subst; exact Hy.
  - intro Hi; exists x; split; [exact Hi | apply H; reflexivity].
Qed.
Lemma py_mem_edge_In : forall (e : edge) l, py_mem edge_eqb e l = true <-> In e l.
Proof. apply py_mem_In, edge_eqb_eq. Qed.
Lemma py_mem_node_In : forall (v : node) l, py_mem N.eqb v l = true <-> In v l.
Proof. apply py_mem_In, N.eqb_eq. Qed.

(* dict = association list in the order the harness passes (keys distinct); first hit wins *)
Fixpoint py_dict_find {K V} (eqb : K -> K -> bool) (d : list (K * V)) (k : K) : option V :=
  match d with [] => None | (k', v) :: d' => if eqb k k' then Some v else py_dict_find eqb d' k end.
Definition py_dict_get {K V} (eqb : K -> K -> bool) (d : list (K * V)) (k : K) (dflt : V) : V :=
  match py_dict_find eqb d k with Some v => v | None => dflt end.
Definition py_dict_mem {K V} (eqb : K -> K -> bool) (d : list (K * V)) (k : K) : bool :=
  match py_dict_find eqb d k with Some _ => true | None => false end.

Definition py_is_none {A} (o : option A) : bool := match o with None => true | Some _ => false end.
Definition py_is_some {A} (o : option A) : bool := match o with None => false | Some _ => true end.
Definition py_opt_get {A} (d : A) (o : option A) : A := match o with Some x => x | None => d end.

(* range(n), l[i] for an index known to be in range, and the comprehension
   [(p[i], p[i+1]) for i in range(len(p) - 1)]  written exactly that way *)
Definition py_range (n : Z) : list Z := map Z.of_nat (seq 0 (Z.to_nat n)).
Definition py_len {A} (l : list A) : Z := Z.of_nat (length l).
Definition py_index {A} (d : A) (l : list A) (i : Z) : A := nth (Z.to_nat i) l d.
Definition py_consecutive_pairs {A} (d : A) (p : list A) : list (A * A) :=
  map (fun i => (py_index d p i, py_index d p (i + 1)%Z)) (py_range (py_len p - 1)%Z).

(* the structural reading of that comprehension *)
Fixpoint pairs {A} (p : list A) : list (A * A) :=
  match p with
  | a :: (b :: _) as t => (a, b) :: pairs t
  | _ => []
  end.

Lemma py_range_indices_valid : forall A (p : list A) i,
  In i (py_range (py_len p - 1)%Z) -> (0 <= i /\ i + 1 < py_len p)%Z.
Proof.
  intros A p i; unfold py_range, py_len; rewrite in_map_iff; intros [k [<- Hk]].
  apply in_seq in Hk; lia.
Qed.

Lemma map_seq_shift_pairs : forall A (d : A) (a : A) (t : list A) n,
  map (fun i : nat => (nth (S i) (a :: t) d, nth (S (S i)) (a :: t) d)) (seq 0 n)
  = map (fun i : nat => (nth i t d, nth (S i) t d)) (seq 0 n).
Proof. intros; apply map_ext; intros; reflexivity. Qed.

Lemma py_consecutive_pairs_nat : forall A (d : A) (p : list A),
  py_consecutive_pairs d p = map (fun i : nat => (nth i p d, nth (S i) p d)) (seq 0 (length p - 1)).
Proof.
  intros; unfold py_consecutive_pairs, py_range, py_len, py_index; rewrite map_map.
  replace (Z.to_nat (Z.of_nat (length p) - 1)) with (length p - 1)%nat by lia.
  apply map_ext; intro i. rewrite Nat2Z.id.
  replace (Z.to_nat (Z.of_nat i + 1)) with (S i) by lia. reflexivity.
Qed.

Lemma py_consecutive_pairs_pairs : forall A (d : A) (p : list A), py_consecutive_pairs d p = pairs p.
Proof.
  intros A d p; rewrite py_consecutive_pairs_nat.
  induction p as [|a t IH]; [reflexivity|].
  destruct t as [|b t']; [reflexivity|].
  change (pairs (a :: b :: t')) with ((a, b) :: pairs (b :: t')). rewrite <- IH.
  replace (length (a :: b :: t') - 1)%nat with (S (length (b :: t') - 1)) by (cbn [length]; lia).
  rewrite <- cons_seq, <- seq_shift. cbn [map]. rewrite map_map.
  f_equal.
Qed.

Lemma in_pairs_iff : forall A (u v : A) p, In (u, v) (pairs p) <-> exists l1 l2, p = l1 ++ u :: v :: l2.
Proof.
  intros A u v p; induction p as [|a t IH].
  - split; [intros [] | intros [l1 [l2 E]]; destruct l1; discriminate].
  - destruct t as [|b t'].
    + split; [intros [] | intros [l1 [l2 E]]; destruct l1 as [|x [|y l1]]; discriminate].
    + cbn [pairs In]. rewrite IH. split.
      * intros [E | [l1 [l2 E]]].
        -- inversion E; subst. exists [], t'. reflexivity.
        -- exists (a :: l1), l2. rewrite E. reflexivity.
      * intros [l1 [l2 E]]. destruct l1 as [|x l1].
        -- left. cbn [app] in E. injection E as -> -> _. reflexivity.
        -- right. cbn [app] in E. injection E as _ E'. exists l1, l2. exact E'.
Qed.

(* ------------------------------------------------------------------------- graphs *)
(* an edge's attribute dict restricted to the one attribute the function reads: None = the key is absent *)
Notation edata := (option Q).
Notation dedge := (N * N * option Q)%type.
(* a networkx DiGraph as the functions see it: the harness passes list(G.nodes()), list(G.edges(data=True)) and,
   per node, list(G.out_edges(v, data=True)) / list(G.in_edges(v, data=True)) in Python's iteration order *)
Record pygraph := mk_pygraph {
  g_nodes : list node;
  g_edges : list dedge;
  g_out : list (node * list dedge);
  g_in : list (node * list dedge) }.
Definition py_empty_graph := mk_pygraph [] [] [] [].
Definition py_out_edges (G : pygraph) (v : node) : list dedge := py_dict_get N.eqb (g_out G) v [].
Definition py_in_edges (G : pygraph) (v : node) : list dedge := py_dict_get N.eqb (g_in G) v [].
Definition py_out_degree (G : pygraph) (v : node) : Z := py_len (py_out_edges G v).
Definition py_in_degree (G : pygraph) (v : node) : Z := py_len (py_in_edges G v).

(* ------------------------------------------------------------------------- result printing (correspondence runs) *)
Definition exn_code (e : exn) : Z :=
  match e with ValueError => 0 | KeyError => 1 | TypeError => 2 | RuntimeError => 3 | IndexError => 4 | PyException => 5 | BreakSignal => 6 | OutOfFuel => 7 | UnboundLocalError => 8 | ZeroDivisionError => 9 end%Z.
Definition enc_Q (q : Q) : list Z := let r := Qred q in [Qnum r; Zpos (Qden r)].
Definition enc_result {R} (enc : R -> list Z) (r : result R) : list Z :=
  match r with Ret v => 0%Z :: enc v | Exc e => [1%Z; exn_code e] | RetNone => [2%Z] end.
Definition enc_xq (x : xq) : list Z := match x with NegInf => [1%Z] | Fin q => 0%Z :: enc_Q q end.
Definition enc_bool (b : bool) : list Z := [if b then 1%Z else 0%Z].
Definition enc_Z (z : Z) : list Z := [z].

(* ------------------------------------------------------------------------- a caller's graph, and a graph being built *)
(* the caller's nx.DiGraph as list(G.nodes()) and list(G.edges()); degrees are counted on the edge list
   (a self-loop counts once as in-edge and once as out-edge, as networkx does) *)
Record bgraph := mk_bgraph { b_nodes : list node; b_edges : list edge }.
Definition py_b_in_degree (G : bgraph) (u : node) : Z := py_len (filter (fun e => N.eqb (snd e) u) (b_edges G)).
Definition py_b_out_degree (G : bgraph) (u : node) : Z := py_len (filter (fun e => N.eqb (fst e) u) (b_edges G)).

(* a fresh nx.DiGraph that the function fills: nodes and edges in insertion order, each kept once
   (adding an existing node / edge changes nothing; add_edge adds its endpoints first) *)
Record mgraph := mk_mgraph { m_nodes : list node; m_edges : list edge }.
Definition py_m_empty : mgraph := mk_mgraph [] [].
Definition py_m_add_node (g : mgraph) (u : node) : mgraph :=
  if py_mem N.eqb u (m_nodes g) then g else mk_mgraph (m_nodes g ++ [u]) (m_edges g).
Definition py_m_add_edge (g : mgraph) (u v : node) : mgraph :=
  let g' := py_m_add_node (py_m_add_node g u) v in
  if py_mem edge_eqb (u, v) (m_edges g') then g' else mk_mgraph (m_nodes g') (m_edges g' ++ [(u, v)]).
Definition py_m_add_nodes_from (g : mgraph) (l : list node) : mgraph := fold_left py_m_add_node l g.
Definition py_m_add_edges_from (g : mgraph) (l : list edge) : mgraph := fold_left (fun g e => py_m_add_edge g (fst e) (snd e)) l g.
Definition py_m_has_node (g : mgraph) (u : node) : bool := py_mem N.eqb u (m_nodes g).
(* G.out_edges(n) / G.in_edges(n): adjacency of n in insertion order *)
Definition py_m_out_edges (g : mgraph) (u : node) : list edge := filter (fun e => N.eqb (fst e) u) (m_edges g).
Definition py_m_in_edges (g : mgraph) (u : node) : list edge := filter (fun e => N.eqb (snd e) u) (m_edges g).

Lemma py_m_add_node_edges : forall g u, m_edges (py_m_add_node g u) = m_edges g.
Proof. intros g u; unfold py_m_add_node; destruct (py_mem N.eqb u (m_nodes g)); reflexivity. Qed.
Lemma py_m_add_node_nodes_incl : forall g u x, In x (m_nodes g) -> In x (m_nodes (py_m_add_node g u)).
Proof. intros g u x H; unfold py_m_add_node; destruct (py_mem N.eqb u (m_nodes g)); [exact H | cbn [m_nodes]; apply in_or_app; left; exact H]. Qed.
Lemma py_m_add_node_has : forall g u, In u (m_nodes (py_m_add_node g u)).
Proof.
  intros g u; unfold py_m_add_node; destruct (py_mem N.eqb u (m_nodes g)) eqn:E;
    [apply py_mem_node_In; exact E | cbn [m_nodes]; apply in_or_app; right; left; reflexivity].
Qed.
(* adding an edge that is not there appends it; the endpoints become nodes *)
Lemma py_m_add_edge_fresh : forall g u v, ~ In (u, v) (m_edges g) -> m_edges (py_m_add_edge g u v) = m_edges g ++ [(u, v)].
Proof.
  intros g u v H; unfold py_m_add_edge; cbv zeta. rewrite !py_m_add_node_edges.
  destruct (py_mem edge_eqb (u, v) (m_edges g)) eqn:E; [apply py_mem_edge_In in E; contradiction | cbn [m_edges]; rewrite ?py_m_add_node_edges; reflexivity].
Qed.
Lemma py_m_add_edge_nodes : forall g u v, In u (m_nodes (py_m_add_edge g u v)) /\ In v (m_nodes (py_m_add_edge g u v)) /\
  forall x, In x (m_nodes g) -> In x (m_nodes (py_m_add_edge g u v)).
Proof.
  intros g u v; unfold py_m_add_edge; cbv zeta.
  assert (A : In u (m_nodes (py_m_add_node (py_m_add_node g u) v))) by (apply py_m_add_node_nodes_incl, py_m_add_node_has).
  assert (B : In v (m_nodes (py_m_add_node (py_m_add_node g u) v))) by apply py_m_add_node_has.
  assert (C : forall x, In x (m_nodes g) -> In x (m_nodes (py_m_add_node (py_m_add_node g u) v))) by (intros x Hx; apply py_m_add_node_nodes_incl, py_m_add_node_nodes_incl, Hx).
  destruct (py_mem edge_eqb (u, v) (m_edges (py_m_add_node (py_m_add_node g u) v))); cbn [m_nodes]; auto.
Qed.
Lemma py_m_add_edges_from_fresh : forall l g, NoDup (m_edges g ++ l) -> m_edges (py_m_add_edges_from g l) = m_edges g ++ l.
Proof.
  induction l as [|[u v] l IH]; intros g H; cbn [py_m_add_edges_from fold_left fst snd]; [rewrite app_nil_r; reflexivity|].
  fold (py_m_add_edges_from (py_m_add_edge g u v) l).
  assert (Hf : ~ In (u, v) (m_edges g)).
  { intro Hi. apply NoDup_remove_2 in H. apply H. apply in_or_app; left; exact Hi. }
  rewrite IH; rewrite (py_m_add_edge_fresh g u v Hf); rewrite <- app_assoc; [reflexivity | exact H].
Qed.
Lemma py_m_add_edges_from_nodes : forall l g x, In x (m_nodes g) -> In x (m_nodes (py_m_add_edges_from g l)).
Proof.
  induction l as [|[u v] l IH]; intros g x H; cbn [py_m_add_edges_from fold_left fst snd]; [exact H|].
  apply IH. apply (proj2 (proj2 (py_m_add_edge_nodes g u v))), H.
Qed.
Lemma py_m_add_nodes_from_edges : forall l g, m_edges (py_m_add_nodes_from g l) = m_edges g.
Proof.
  induction l as [|u l IH]; intros g; cbn [py_m_add_nodes_from fold_left]; [reflexivity|].
  fold (py_m_add_nodes_from (py_m_add_node g u) l). rewrite IH. apply py_m_add_node_edges.
Qed.

Definition enc_nodes (l : list node) : list Z := map Z.of_N l.
Definition enc_edges (l : list edge) : list Z := flat_map (fun e => [Z.of_N (fst e); Z.of_N (snd e)]) l.

(* ------------------------------------------------------------------------- an s-t graph object as a decoder sees it *)
(* G.source, G.sink and, per node, list(G.successors(v)) in networkx' adjacency order *)
Record sgraph := mk_sgraph { sg_source : node; sg_sink : node; sg_succ : list (node * list node) }.
Definition py_successors (G : sgraph) (v : node) : list node := py_dict_get N.eqb (sg_succ G) v [].

Definition py_is_empty {A} (l : list A) : bool := match l with [] => true | _ => false end.
(* l[lo:hi] with Python's treatment of negative and out-of-range bounds (None = omitted) *)
Definition py_slice_bound (n : Z) (b : option Z) (dflt : Z) : Z :=
  match b with
  | None => dflt
  | Some i => let j := if (i <? 0)%Z then (i + n)%Z else i in Z.max 0 (Z.min n j)
  end.
Definition py_slice {A} (l : list A) (lo hi : option Z) : list A :=
  let n := Z.of_nat (length l) in
  let a := py_slice_bound n lo 0%Z in let b := py_slice_bound n hi n in
  firstn (Z.to_nat (b - a)) (skipn (Z.to_nat a) l).
(* ------------------------------------------------------------------------- mutable containers (dict of lists, stacks) *)
(* d[k] = v: the entry keeps its place if the key exists, otherwise it is appended (insertion order) *)
Fixpoint py_dict_set {K V} (eqb : K -> K -> bool) (d : list (K * V)) (k : K) (v : V) : list (K * V) :=
  match d with
  | [] => [(k, v)]
  | (k', v') :: d' => if eqb k k' then (k', v) :: d' else (k', v') :: py_dict_set eqb d' k v
  end.
Definition py_dict_values {K V} (d : list (K * V)) : list V := map snd d.
(* l.pop(): the last element / what remains *)
Definition py_pop_value {A} (d : A) (l : list A) : A := last l d.
Definition py_pop_rest {A} (l : list A) : list A := removelast l.
(* l.index(x): position of the first occurrence (ValueError guarded by membership) *)
Fixpoint py_index_of {A} (eqb : A -> A -> bool) (x : A) (l : list A) : Z :=
  match l with [] => 0%Z | y :: r => if eqb x y then 0%Z else (1 + py_index_of eqb x r)%Z end.
(* l[i:i] = c *)
Definition py_insert_at {A} (l : list A) (i : Z) (c : list A) : list A := py_slice l None (Some i) ++ c ++ py_slice l (Some i) None.
Fixpoint py_list_eqb {A} (eqb : A -> A -> bool) (l1 l2 : list A) : bool :=
  match l1, l2 with
  | [], [] => true
  | x :: r1, y :: r2 => eqb x y && py_list_eqb eqb r1 r2
  | _, _ => false
  end.
(* abs(x) of a number *)
Definition py_abs (q : Q) : Q := Qabs q.
(* round(x) for a float x: to the nearest integer, ties to the even one *)
Definition py_round (q : Q) : Z :=
  let n := Qnum q in let d := Zpos (Qden q) in
  let fl := (n / d)%Z in
  let r2 := (2 * (n - fl * d))%Z in
  if (r2 <? d)%Z then fl
  else if (d <? r2)%Z then (fl + 1)%Z
  else if Z.even fl then fl else (fl + 1)%Z.
Definition enc_walks (o : result (list (list node))) : list (list Z) :=
  match o with Ret ps => [1%Z] :: map enc_nodes ps | Exc e => [[0%Z; exn_code e]] | RetNone => [[2%Z]] end.

Definition enc_paths (o : option (list (list node))) : list (list Z) :=
  match o with None => [[0%Z]] | Some ps => [1%Z] :: map enc_nodes ps end.
