(* the oracle against the declarative notion of the cyclic class: WalkEncIff.walk_decomposition of an integer instance without ignore list *)
From Coq Require Import List NArith ZArith QArith Qround Lqa Bool Arith Lia.
Import ListNotations.
From FP Require Import Lin Blocks BlocksProofs PathEnc Euler EulerProofs1 EulerProofs4 PathEncProofs PathEncComplete WalkEncRows WalkEncRowsProofs ErrEncIgnore
                       WalkTree WalkEncComplete WalkEncIff WalkOracle.
Set Default Timeout 60.
Local Close Scope Q_scope.
Local Open Scope nat_scope.

Definition qn (n : nat) : Q := inject_Z (Z.of_nat n).

Section Bridge.
  Variable I : kfdc_inst.
  Variable f : PathEnc.edge -> nat.
  Let G := c_graph I.
  Let E := g_edges G.
  Let s := g_src G.
  Let t := g_snk G.
  Hypothesis Hint : c_int I = true.
  Hypothesis Hflow : forall e, In e (kept_edges I) -> (flow_of I e == qn (f e))%Q.

  Lemma total_as_sum (P : N -> list node) (wt : N -> Q) (z : N -> nat) e : forall L,
    (forall i, In i L -> (wt i == qn (z i))%Q) ->
    (qn (total (map (fun i => (P i, z i)) L) e) == sumq (fun i => wt i * inject_Z (mult P i e)) L)%Q.
  Proof.
    induction L as [|i L IH]; intros H; [reflexivity|]. cbn [map total sumq]. unfold contrib. cbn [fst snd].
    rewrite <- (IH (fun j Hj => H j (or_intror Hj))). rewrite (H i (or_introl eq_refl)). unfold qn, mult, multz.
    rewrite Nat2Z.inj_add, Nat2Z.inj_mul, inject_Z_plus, inject_Z_mult. reflexivity.
  Qed.
  Lemma total_filter_pos e : forall l, total (filter (fun c : list node * nat => 0 <? snd c) l) e = total l e.
  Proof.
    induction l as [|c l IH]; [reflexivity|]. cbn [filter]. destruct (0 <? snd c) eqn:Q; cbn [total]; rewrite IH; [reflexivity|].
    apply Nat.ltb_ge in Q. unfold contrib. assert (snd c = 0) by lia. rewrite H. lia.
  Qed.

  (* a decomposition into k walks gives an integer walk decomposition with at most k walks of positive weight *)
  Theorem decomposition_gives_iwd (P : N -> list node) (wt : N -> Q) : walk_decomposition I P wt ->
    exists l, iwd0 E s t (kept_edges I) f l /\ length l <= c_k I.
  Proof.
    intros (HP & Hw & Hf). set (z := fun i => Z.to_nat (Qfloor (wt i))). set (L := layers (c_k I)).
    assert (Hz : forall i, In i L -> (wt i == qn (z i))%Q).
    { intros i Hi. destruct (Hw i Hi) as [H0 H1]. destruct (H1 Hint) as [zz Hzz].
      assert (Ef : Qfloor (wt i) = zz) by (rewrite (Qfloor_comp _ _ Hzz); apply Qfloor_Z).
      assert (Hq0 : (inject_Z 0 <= inject_Z zz)%Q) by (change (inject_Z 0) with 0%Q; lra).
      assert (Hz0 : (0 <= zz)%Z) by (rewrite Zle_Qle; exact Hq0).
      unfold qn, z. rewrite Ef, Z2Nat.id by exact Hz0. exact Hzz. }
    exists (filter (fun c : list node * nat => 0 <? snd c) (map (fun i => (P i, z i)) L)). split; [split|].
    - intros c Hc. apply filter_In in Hc. destruct Hc as [Hc Q]. apply Nat.ltb_lt in Q. apply in_map_iff in Hc. destruct Hc as (i & <- & Hi).
      cbn [fst snd] in *. split; [exact (HP i Hi)|lia].
    - intros e He. rewrite total_filter_pos. apply Nat2Z.inj. apply inject_Z_inj_eq. change (qn (total (map (fun i => (P i, z i)) L) e) == qn (f e))%Q.
      rewrite (total_as_sum P wt z e L Hz). unfold L. exact (Qeq_trans _ _ _ (Hf e He) (Hflow e He)).
    - apply (Nat.le_trans _ (length (map (fun i => (P i, z i)) L))).
      + generalize (map (fun i => (P i, z i)) L). clear. induction l as [|x l IH]; cbn [filter length]; [lia|]. destruct (0 <? snd x); cbn [length]; lia.
      + rewrite map_length. unfold L, layers. rewrite map_length, seq_length. lia.
  Qed.

  (* and an integer walk decomposition with k walks is a decomposition of the instance with c_k = k *)
  Theorem iwd_gives_decomposition (l : list (list node * nat)) : iwd0 E s t (kept_edges I) f l -> c_k I = length l ->
    exists P wt, walk_decomposition I P wt.
  Proof.
    intros [Hw Hf] Hk. set (P := fun i : N => fst (nth (N.to_nat i) l ([], 0))). set (z := fun i : N => snd (nth (N.to_nat i) l ([], 0))).
    exists P, (fun i => qn (z i)). split; [|split].
    - intros i Hi. apply in_layers in Hi. destruct Hi as (n & Hn & ->). unfold P. rewrite Nat2N.id. apply Hw. apply nth_In. lia.
    - intros i _. split; [unfold qn; change 0%Q with (inject_Z 0); rewrite <- Zle_Qle; lia|]. intros _. exists (Z.of_nat (z i)). reflexivity.
    - intros e He. rewrite <- (total_as_sum P (fun i => qn (z i)) z e (layers (c_k I)) (fun i _ => Qeq_refl _)).
      rewrite (Hflow e He). rewrite <- (Hf e He). unfold qn. apply (f_equal (fun x => inject_Z (Z.of_nat x))) || idtac.
      assert (El : map (fun i => (P i, z i)) (layers (c_k I)) = l).
      { unfold layers. rewrite map_map, Hk. clear. unfold P, z. 
        assert (G : forall (d : list node * nat) st, map (fun x => (fst (nth (N.to_nat (N.of_nat x)) l d), snd (nth (N.to_nat (N.of_nat x)) l d))) (seq st 0) = []) by reflexivity.
        clear G. induction l as [|c r IH] using rev_ind; [reflexivity|].
        rewrite app_length. cbn [length]. rewrite Nat.add_1_r, seq_S, map_app. cbn [map]. rewrite Nat2N.id, app_nth2, Nat.sub_diag by lia. cbn [nth].
        rewrite <- surjective_pairing. f_equal. rewrite <- IH at 2. apply map_ext_in. intros n Hn. apply in_seq in Hn. rewrite !Nat2N.id.
        rewrite app_nth1 by lia. reflexivity. }
      rewrite El. reflexivity.
  Qed.
  Theorem iwd_gives_decomposition_walks (l : list (list node * nat)) : iwd0 E s t (kept_edges I) f l -> c_k I = length l ->
    exists P wt, walk_decomposition I P wt /\ forall i, In i (layers (c_k I)) -> exists c, In c l /\ P i = fst c.
  Proof.
    intros [Hw Hf] Hk. set (P := fun i : N => fst (nth (N.to_nat i) l ([], 0))). set (z := fun i : N => snd (nth (N.to_nat i) l ([], 0))).
    exists P, (fun i => qn (z i)). split; [split; [|split]|].
    - intros i Hi. apply in_layers in Hi. destruct Hi as (n & Hn & ->). unfold P. rewrite Nat2N.id. apply Hw. apply nth_In. lia.
    - intros i _. split; [unfold qn; change 0%Q with (inject_Z 0); rewrite <- Zle_Qle; lia|]. intros _. exists (Z.of_nat (z i)). reflexivity.
    - intros e He. rewrite <- (total_as_sum P (fun i => qn (z i)) z e (layers (c_k I)) (fun i _ => Qeq_refl _)).
      rewrite (Hflow e He). rewrite <- (Hf e He). unfold qn. apply (f_equal (fun x => inject_Z (Z.of_nat x))) || idtac.
      assert (El : map (fun i => (P i, z i)) (layers (c_k I)) = l).
      { unfold layers. rewrite map_map, Hk. clear. unfold P, z.
        induction l as [|c r IH] using rev_ind; [reflexivity|].
        rewrite app_length. cbn [length]. rewrite Nat.add_1_r, seq_S, map_app. cbn [map]. rewrite Nat2N.id, app_nth2, Nat.sub_diag by lia. cbn [nth].
        rewrite <- surjective_pairing. f_equal. rewrite <- IH at 2. apply map_ext_in. intros n Hn. apply in_seq in Hn. rewrite !Nat2N.id.
        rewrite app_nth1 by lia. reflexivity. }
      rewrite El. reflexivity.
    - intros i Hi. apply in_layers in Hi. destruct Hi as (n & Hn & ->). exists (nth n l ([], 0)). split; [apply nth_In; lia|]. unfold P. rewrite Nat2N.id. reflexivity.
  Qed.
End Bridge.

Definition kfdc_with_k (I : kfdc_inst) (k : nat) : kfdc_inst :=
  {| c_graph := c_graph I; c_k := k; c_flow := c_flow I; c_ignore := c_ignore I; c_int := c_int I; c_cons := c_cons I; c_cov := c_cov I;
     c_opts := c_opts I; c_safe_lists := c_safe_lists I; c_fix := c_fix I; c_given := c_given I; c_scale_free := c_scale_free I |}.

Lemma kept_edges_no_ignore I : c_ignore I = [] ->
  kept_edges I = kept_of (g_edges (c_graph I)) (g_src (c_graph I)) (g_snk (c_graph I)).
Proof.
  intros Hi. unfold kept_edges, kept_of, kfdc_ignore, is_st. rewrite Hi, app_nil_r. apply filter_ext_in. intros e He. f_equal.
  unfold st_edges. destruct ((fst e =? g_src (c_graph I))%N || (snd e =? g_snk (c_graph I))%N) eqn:Q.
  - apply mem_edge_In. apply filter_In. split; [exact He|exact Q].
  - destruct (mem_edge e (filter (fun e0 => (fst e0 =? g_src (c_graph I))%N || (snd e0 =? g_snk (c_graph I))%N) (g_edges (c_graph I)))) eqn:M; [|reflexivity].
    apply mem_edge_In in M. apply filter_In in M. destruct M as [_ M]. congruence.
Qed.

(* the oracle decides the least number of walks of an integer decomposition of the instance (integer weights, no ignore list,
   natural-number flow): the declarative minimum of MinFlowDecompCycles *)
Theorem oracle_decides_minimum (I : kfdc_inst) (fl : list (PathEnc.edge * nat)) (kmax : nat) :
  c_int I = true -> c_ignore I = [] ->
  (forall e, In e (kept_edges I) -> (flow_of I e == qn (fnat fl e))%Q) ->
  wfd_premises (g_edges (c_graph I)) (g_src (c_graph I)) (g_snk (c_graph I)) = true ->
  match min_wfd_model (g_edges (c_graph I)) (g_src (c_graph I)) (g_snk (c_graph I)) fl kmax with
  | Some k => k <= kmax /\ (exists P wt, walk_decomposition (kfdc_with_k I k) P wt) /\
              (forall j P wt, walk_decomposition (kfdc_with_k I j) P wt -> k <= j)
  | None => forall j P wt, walk_decomposition (kfdc_with_k I j) P wt -> kmax < j
  end.
Proof.
  intros Hint Hign Hflow Hprem.
  pose proof (min_wfd_model_correct (g_edges (c_graph I)) (g_src (c_graph I)) (g_snk (c_graph I)) fl kmax Hprem) as H. cbv zeta in H.
  rewrite <- (kept_edges_no_ignore I Hign) in H.
  assert (Hfwd : forall j P wt, walk_decomposition (kfdc_with_k I j) P wt ->
            exists l, iwd0 (g_edges (c_graph I)) (g_src (c_graph I)) (g_snk (c_graph I)) (kept_edges I) (fnat fl) l /\ length l <= j).
  { intros j P wt HD. exact (decomposition_gives_iwd (kfdc_with_k I j) (fnat fl) Hint Hflow P wt HD). }
  destruct (min_wfd_model _ _ _ fl kmax) as [k|].
  - destruct H as (H1 & (l & Hl & Hlen) & H3). split; [exact H1|]. split.
    + apply (iwd_gives_decomposition (kfdc_with_k I k) (fnat fl) Hflow l Hl). cbn [kfdc_with_k c_k]. symmetry. exact Hlen.
    + intros j P wt HD. destruct (Hfwd j P wt HD) as (l' & Hl' & Hlen'). specialize (H3 l' Hl'). lia.
  - intros j P wt HD. destruct (Hfwd j P wt HD) as (l' & Hl' & Hlen'). specialize (H l' Hl'). lia.
Qed.

(* ================================================================================================================= *)
(* with a user ignore list: decompositions whose walks pass every edge that is not kept at most capn(e) times *)
Definition ign_within_caps (I : kfdc_inst) (capn : PathEnc.edge -> nat) (P : N -> list node) : Prop :=
  forall i e, In i (layers (c_k I)) -> In e (g_edges (c_graph I)) -> ~ In e (kept_edges I) -> count_e e (pairs (P i)) <= capn e.

Section BridgeIgn.
  Variable I : kfdc_inst.
  Variable f : PathEnc.edge -> nat.
  Variable capn : PathEnc.edge -> nat.
  Let G := c_graph I.
  Let E := g_edges G.
  Let s := g_src G.
  Let t := g_snk G.
  Hypothesis Hint : c_int I = true.
  Hypothesis Hflow : forall e, In e (kept_edges I) -> (flow_of I e == qn (f e))%Q.

  Theorem decomposition_gives_iwd_caps (P : N -> list node) (wt : N -> Q) : walk_decomposition I P wt -> ign_within_caps I capn P ->
    exists l, iwd E s t (kept_edges I) f capn l /\ length l <= c_k I.
  Proof.
    intros (HP & Hw & Hf) Hcap. set (z := fun i => Z.to_nat (Qfloor (wt i))). set (L := layers (c_k I)).
    assert (Hz : forall i, In i L -> (wt i == qn (z i))%Q).
    { intros i Hi. destruct (Hw i Hi) as [H0 H1]. destruct (H1 Hint) as [zz Hzz].
      assert (Ef : Qfloor (wt i) = zz) by (rewrite (Qfloor_comp _ _ Hzz); apply Qfloor_Z).
      assert (Hq0 : (inject_Z 0 <= inject_Z zz)%Q) by (change (inject_Z 0) with 0%Q; lra).
      assert (Hz0 : (0 <= zz)%Z) by (rewrite Zle_Qle; exact Hq0).
      unfold qn, z. rewrite Ef, Z2Nat.id by exact Hz0. exact Hzz. }
    exists (filter (fun c : list node * nat => 0 <? snd c) (map (fun i => (P i, z i)) L)). split; [split|].
    - intros c Hc. apply filter_In in Hc. destruct Hc as [Hc Q]. apply Nat.ltb_lt in Q. apply in_map_iff in Hc. destruct Hc as (i & <- & Hi).
      cbn [fst snd] in *. split; [exact (HP i Hi)|]. split; [lia|]. intros e He Hn. exact (Hcap i e Hi He Hn).
    - intros e He. rewrite (total_filter_pos I). apply Nat2Z.inj. apply inject_Z_inj_eq. change (qn (total (map (fun i => (P i, z i)) L) e) == qn (f e))%Q.
      rewrite (total_as_sum P wt z e L Hz). unfold L. exact (Qeq_trans _ _ _ (Hf e He) (Hflow e He)).
    - apply (Nat.le_trans _ (length (map (fun i => (P i, z i)) L))).
      + generalize (map (fun i => (P i, z i)) L). clear. induction l as [|x l IH]; cbn [filter length]; [lia|]. destruct (0 <? snd x); cbn [length]; lia.
      + rewrite map_length. unfold L, layers. rewrite map_length, seq_length. lia.
  Qed.

  Theorem iwd_gives_decomposition_caps (l : list (list node * nat)) : iwd E s t (kept_edges I) f capn l -> c_k I = length l ->
    exists P wt, walk_decomposition I P wt /\ ign_within_caps I capn P.
  Proof.
    intros [Hw Hf] Hk.
    assert (H0 : iwd0 E s t (kept_edges I) f l) by (split; [intros c Hc; destruct (Hw c Hc) as (A & B & _); auto|exact Hf]).
    destruct (iwd_gives_decomposition_walks I f Hflow l H0 Hk) as (P & wt & HD & HPl).
    exists P, wt. split; [exact HD|]. intros i e Hi He Hn. destruct (HPl i Hi) as (c & Hc & ->). exact (proj2 (proj2 (Hw c Hc)) e He Hn).
  Qed.
End BridgeIgn.

Lemma kept_edges_ign I : kept_edges I = kept_ign (g_edges (c_graph I)) (g_src (c_graph I)) (g_snk (c_graph I)) (c_ignore I).
Proof.
  unfold kept_edges, kept_ign, kfdc_ignore, is_st. apply filter_ext_in. intros e He. rewrite ErrEncIgnore.mem_edge_app, negb_orb. f_equal. f_equal.
  unfold st_edges. destruct ((fst e =? g_src (c_graph I))%N || (snd e =? g_snk (c_graph I))%N) eqn:Q.
  - apply mem_edge_In. apply filter_In. split; [exact He|exact Q].
  - destruct (mem_edge e (filter (fun e0 => (fst e0 =? g_src (c_graph I))%N || (snd e0 =? g_snk (c_graph I))%N) (g_edges (c_graph I)))) eqn:M; [|reflexivity].
    apply mem_edge_In in M. apply filter_In in M. destruct M as [_ M]. congruence.
Qed.

(* the oracle with an ignore list decides the least number of walks of a decomposition of the instance whose walks pass every ignored edge
   at most as often as the capacity list allows and every source/sink edge at most once *)
Theorem oracle_with_ignore_list_decides_minimum (I : kfdc_inst) (capl fl : list (PathEnc.edge * nat)) (kmax : nat) :
  c_int I = true ->
  (forall e, In e (kept_edges I) -> (flow_of I e == qn (fnat fl e))%Q) ->
  let capn := capn_ign (g_src (c_graph I)) (g_snk (c_graph I)) capl in
  match min_wfd_model_ign (g_edges (c_graph I)) (g_src (c_graph I)) (g_snk (c_graph I)) (c_ignore I) capl fl kmax with
  | Some k => k <= kmax /\ (exists P wt, walk_decomposition (kfdc_with_k I k) P wt /\ ign_within_caps (kfdc_with_k I k) capn P) /\
              (forall j P wt, walk_decomposition (kfdc_with_k I j) P wt -> ign_within_caps (kfdc_with_k I j) capn P -> k <= j)
  | None => forall j P wt, walk_decomposition (kfdc_with_k I j) P wt -> ign_within_caps (kfdc_with_k I j) capn P -> kmax < j
  end.
Proof.
  intros Hint Hflow capn.
  pose proof (min_wfd_model_ign_correct (g_edges (c_graph I)) (g_src (c_graph I)) (g_snk (c_graph I)) (c_ignore I) capl fl kmax) as H. cbv zeta in H.
  rewrite <- (kept_edges_ign I) in H. fold capn in H.
  assert (Hfwd : forall j P wt, walk_decomposition (kfdc_with_k I j) P wt -> ign_within_caps (kfdc_with_k I j) capn P ->
            exists l, iwd (g_edges (c_graph I)) (g_src (c_graph I)) (g_snk (c_graph I)) (kept_edges I) (fnat fl) capn l /\ length l <= j).
  { intros j P wt HD HC. exact (decomposition_gives_iwd_caps (kfdc_with_k I j) (fnat fl) capn Hint Hflow P wt HD HC). }
  destruct (min_wfd_model_ign _ _ _ (c_ignore I) capl fl kmax) as [k|].
  - destruct H as (H1 & (l & Hl & Hlen) & H3). split; [exact H1|]. split.
    + apply (iwd_gives_decomposition_caps (kfdc_with_k I k) (fnat fl) capn Hflow l Hl). cbn [kfdc_with_k c_k]. symmetry. exact Hlen.
    + intros j P wt HD HC. destruct (Hfwd j P wt HD HC) as (l' & Hl' & Hlen'). specialize (H3 l' Hl'). lia.
  - intros j P wt HD HC. destruct (Hfwd j P wt HD HC) as (l' & Hl' & Hlen'). specialize (H l' Hl'). lia.
Qed.
