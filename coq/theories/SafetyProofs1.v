(* C06 proofs, part 1: the product automaton is exact; safe_dec / incompat_dec / forbid_dec decide the
   declarative notions for every graph (cycles, self-loops included); cover-level safety <-> item-level safety. *)
From Coq Require Import List Bool Arith NArith Lia FinFun.
Import ListNotations.
From FP Require Import SafetyReach Safety.
Set Default Timeout 30.

Lemma pseqb_spec x y : reflect (x = y) (pseqb x y).
Proof.
  destruct x as [[v i] j], y as [[v' i'] j']. unfold pseqb.
  destruct (N.eqb_spec v v'), (Nat.eqb_spec i i'), (Nat.eqb_spec j j'); simpl; constructor; congruence.
Qed.

Section Product.
  Variable G : graph.
  Variables a b : list edge.
  Variable s : node.

  Lemma preach_walk z i j :
    reach pstate (pstep G a b) (s, 0, 0) (z, i, j) <->
    exists w, chain s w z /\ incl w G /\ run a 0 w = i /\ run b 0 w = j.
  Proof.
    split.
    - remember (s, 0, 0) as st0. remember (z, i, j) as st1. intros R. revert z i j Heqst1.
      induction R as [|[[v' i'] j'] y R IH Hy]; intros z i j E.
      + subst. inversion E; subst. exists []. repeat split; [constructor|intros ? []].
      + destruct (IH _ _ _ eq_refl) as (w & C & I & Ra & Rb). subst y.
        cbn [pstep] in Hy. apply in_map_iff in Hy. destruct Hy as ([p q] & Hy & Hf).
        apply filter_In in Hf. destruct Hf as [Hin Hv]. cbn [fst] in Hv. apply N.eqb_eq in Hv. subst p.
        cbn [snd] in Hy. inversion Hy; subst. exists (w ++ [(v', z)]). repeat split.
        * apply chain_snoc. assumption.
        * intros e He. apply in_app_or in He. destruct He as [He|[<-|[]]]; [apply I|]; assumption.
        * unfold run. rewrite fold_left_app. reflexivity.
        * unfold run. rewrite fold_left_app. reflexivity.
    - intros (w & C & I & Ra & Rb). revert z i j C I Ra Rb.
      induction w as [|e w IH] using rev_ind; intros z i j C I Ra Rb.
      + inversion C; subst. cbn. constructor.
      + apply chain_snoc_inv in C. destruct C as [C Hz]. destruct e as [p q]. cbn [fst snd] in *. subst q.
        unfold run in Ra, Rb. rewrite fold_left_app in Ra, Rb. cbn [fold_left] in Ra, Rb.
        apply (reach_step _ _ _ (p, fold_left (adv a) w 0, fold_left (adv b) w 0)).
        * apply (IH p _ _ C); [intros e He; apply I, in_or_app; left; assumption|reflexivity|reflexivity].
        * cbn [pstep]. apply in_map_iff. exists (p, z). split.
          -- cbn [snd]. subst. reflexivity.
          -- apply filter_In. split; [apply I, in_or_app; right; left; reflexivity|apply N.eqb_refl].
  Qed.

  Lemma gnodes_In v : In v (gnodes G s) <-> v = s \/ In v (map fst G) \/ In v (map snd G).
  Proof. unfold gnodes. rewrite nodup_In. cbn [In]. rewrite in_app_iff. intuition. Qed.

  Lemma puniverse_In v i j : In (v, i, j) (puniverse G a b s) <-> In v (gnodes G s) /\ i <= length a /\ j <= length b.
  Proof.
    unfold puniverse. rewrite in_flat_map. split.
    - intros (v' & Hv & H). apply in_flat_map in H. destruct H as (i' & Hi & H).
      apply in_map_iff in H. destruct H as (j' & E & Hj). inversion E; subst.
      apply in_seq in Hi, Hj. repeat split; [assumption|lia|lia].
    - intros (Hv & Hi & Hj). exists v. split; [assumption|]. apply in_flat_map. exists i. split; [apply in_seq; lia|].
      apply in_map_iff. exists j. split; [reflexivity|apply in_seq; lia].
  Qed.

  Lemma puniverse_NoDup : NoDup (puniverse G a b s).
  Proof.
    unfold puniverse. apply NoDup_flat_map.
    - apply NoDup_nodup.
    - intros v _. apply NoDup_flat_map.
      + apply seq_NoDup.
      + intros i _. apply FinFun.Injective_map_NoDup; [|apply seq_NoDup].
        intros x y E. inversion E. reflexivity.
      + intros i i' z _ _ Hne H H'. apply in_map_iff in H, H'.
        destruct H as (j & <- & _), H' as (j' & E & _). inversion E. congruence.
    - intros v v' z _ _ Hne H H'. apply in_flat_map in H, H'.
      destruct H as (i & _ & H), H' as (i' & _ & H'). apply in_map_iff in H, H'.
      destruct H as (j & <- & _), H' as (j' & E & _). inversion E. congruence.
  Qed.

  Lemma pstep_in_U x y : In x (puniverse G a b s) -> In y (pstep G a b x) -> In y (puniverse G a b s).
  Proof.
    destruct x as [[v i] j], y as [[v' i'] j']. rewrite !puniverse_In. intros (Hv & Hi & Hj) Hy.
    cbn [pstep] in Hy. apply in_map_iff in Hy. destruct Hy as (e & He & Hf). apply filter_In in Hf. destruct Hf as [Hin _].
    inversion He; subst. repeat split.
    - apply gnodes_In. right. right. apply in_map. assumption.
    - apply adv_le. assumption.
    - apply adv_le. assumption.
  Qed.

  Lemma preach_set_correct z i j :
    In (z, i, j) (preach_set G a b s) <->
    exists w, chain s w z /\ incl w G /\ run a 0 w = i /\ run b 0 w = j.
  Proof.
    rewrite <- preach_walk. unfold preach_set.
    apply (clos_correct pstate pseqb pseqb_spec (pstep G a b) (puniverse G a b s) pstep_in_U _ _ puniverse_NoDup).
    apply puniverse_In. repeat split; [apply gnodes_In; left; reflexivity|lia|lia].
  Qed.

  Theorem sink_pairs_correct t i j :
    In (i, j) (sink_pairs G a b s t) <->
    exists w, st_walk G s t w /\ run a 0 w = i /\ run b 0 w = j.
  Proof.
    unfold sink_pairs, st_walk. rewrite in_map_iff. split.
    - intros ([[z i'] j'] & E & H). cbn [fst snd] in E. inversion E; subst.
      apply filter_In in H. destruct H as [H Hz]. cbn [fst] in Hz. apply N.eqb_eq in Hz. subst z.
      apply preach_set_correct in H. destruct H as (w & C & I & Ra & Rb). exists w. tauto.
    - intros (w & [C I] & Ra & Rb). exists (t, i, j). split; [reflexivity|].
      apply filter_In. split; [|cbn [fst]; apply N.eqb_refl].
      apply preach_set_correct. exists w. tauto.
  Qed.
End Product.

(* ------------------------------------------------------------------ the deciders *)
Lemma run_full_iff sq w : run sq 0 w = length sq <-> subseq sq w.
Proof. symmetry. apply greedy0. Qed.
Lemma run_not_full sq w : ~ subseq sq w <-> run sq 0 w < length sq.
Proof.
  pose proof (run_le sq w 0 ltac:(lia)) as L. rewrite <- run_full_iff. lia.
Qed.

Theorem implies_dec_correct G s t c sq :
  implies_dec G s t c sq = true <-> (forall w, st_walk G s t w -> subseq c w -> subseq sq w).
Proof.
  unfold implies_dec. rewrite forallb_forall. split.
  - intros H w Hw Hc.
    specialize (H (run sq 0 w, run c 0 w)). cbn [fst snd] in H.
    assert (Hin : In (run sq 0 w, run c 0 w) (sink_pairs G sq c s t)).
    { apply sink_pairs_correct. exists w. tauto. }
    specialize (H Hin). apply negb_true_iff, andb_false_iff in H.
    apply run_full_iff in Hc. destruct H as [H|H].
    + apply Nat.eqb_neq in H. congruence.
    + apply Nat.ltb_ge in H. pose proof (run_le sq w 0 ltac:(lia)). apply run_full_iff. lia.
  - intros H [i j] Hin. cbn [fst snd]. apply sink_pairs_correct in Hin. destruct Hin as (w & Hw & Ra & Rb).
    apply negb_true_iff, andb_false_iff.
    destruct (Nat.eqb_spec j (length c)) as [E|E]; [right|left; reflexivity].
    apply Nat.ltb_ge.
    assert (Hc : subseq c w) by (apply run_full_iff; congruence).
    specialize (H w Hw Hc). apply run_full_iff in H. lia.
Qed.

Lemma implies_dec_false G s t c sq :
  implies_dec G s t c sq = false -> exists w, st_walk G s t w /\ subseq c w /\ ~ subseq sq w.
Proof.
  unfold implies_dec. intros H. apply forallb_false_ex in H. destruct H as ([i j] & Hin & Hf).
  cbn [fst snd] in Hf. apply negb_false_iff, andb_true_iff in Hf. destruct Hf as [Hj Hi].
  apply Nat.eqb_eq in Hj. apply Nat.ltb_lt in Hi.
  apply sink_pairs_correct in Hin. destruct Hin as (w & Hw & Ra & Rb).
  exists w. split; [assumption|]. split.
  - apply run_full_iff. congruence.
  - apply run_not_full. lia.
Qed.

(* cover-level safety <-> item-level safety: a cover avoiding sq is assembled from one avoiding walk per item *)
Theorem safe_iff_item G s t X sq : safe G s t X sq <-> item_safe G s t X sq.
Proof.
  split.
  - intros Hs.
    assert (Hcases : item_safe G s t X sq \/ exists C, walk_cover G s t X C /\ forall w, In w C -> ~ subseq sq w).
    { clear Hs. induction X as [|c X IH].
      - right. exists []. split; [split; [intros ? []|intros ? []]|intros ? []].
      - destruct IH as [(c' & Hc' & Hg)|(C & [Ca Cc] & Cb)].
        + left. exists c'. split; [right; assumption|assumption].
        + destruct (implies_dec G s t c sq) eqn:D.
          * left. exists c. split; [left; reflexivity|]. apply implies_dec_correct. assumption.
          * apply implies_dec_false in D. destruct D as (w & Hw & Hc & Hn).
            right. exists (w :: C). split; [split|].
            -- intros w' [<-|H]; [assumption|apply Ca; assumption].
            -- intros c' [<-|H]; [exists w; split; [left; reflexivity|assumption]|].
               destruct (Cc c' H) as (w' & H1 & H2). exists w'. split; [right; assumption|assumption].
            -- intros w' [<-|H]; [assumption|apply Cb; assumption]. }
    destruct Hcases as [H|(C & HC & Hb)]; [assumption|].
    destruct (Hs C HC) as (w & Hw & Hh). exfalso. eapply Hb; eassumption.
  - intros (c & Hc & Hg) C [Ca Cc]. destruct (Cc c Hc) as (w & Hw & Ho). exists w. split; [assumption|].
    apply Hg; [apply Ca; assumption|assumption].
Qed.

Theorem safe_dec_item G s t X sq : safe_dec G s t X sq = true <-> item_safe G s t X sq.
Proof.
  unfold safe_dec, item_safe. rewrite existsb_exists. split.
  - intros (c & Hc & H). exists c. split; [assumption|]. apply implies_dec_correct. assumption.
  - intros (c & Hc & H). exists c. split; [assumption|]. apply implies_dec_correct. assumption.
Qed.

Theorem safe_dec_correct G s t X sq : safe_dec G s t X sq = true <-> safe G s t X sq.
Proof. rewrite safe_dec_item. symmetry. apply safe_iff_item. Qed.

(* trusted *edges*: the statement of the property *)
Lemma edge_cover_items G s t X C : edge_cover G s t X C <-> walk_cover G s t (items_of_edges X) C.
Proof.
  unfold edge_cover, walk_cover, items_of_edges. split; intros [Ha Hb]; (split; [assumption|]).
  - intros c Hc. apply in_map_iff in Hc. destruct Hc as (e & <- & He).
    destruct (Hb e He) as (w & Hw & Hi). exists w. split; [assumption|apply subseq_single; assumption].
  - intros e He. destruct (Hb [e]) as (w & Hw & Hi); [apply in_map_iff; exists e; tauto|].
    exists w. split; [assumption|apply subseq_single; assumption].
Qed.

Theorem safe_for_edges_iff G s t X sq : safe_for_edges G s t X sq <-> safe G s t (items_of_edges X) sq.
Proof.
  unfold safe_for_edges, safe. split; intros H C HC; apply H; apply edge_cover_items; assumption.
Qed.

Theorem safe_iff_edge G s t (X : list edge) sq :
  safe_for_edges G s t X sq <->
  exists e, In e X /\ forall w, st_walk G s t w -> In e w -> subseq sq w.
Proof.
  rewrite safe_for_edges_iff, safe_iff_item. unfold item_safe, items_of_edges. split.
  - intros (c & Hc & H). apply in_map_iff in Hc. destruct Hc as (e & <- & He). exists e. split; [assumption|].
    intros w Hw Hi. apply H; [assumption|apply subseq_single; assumption].
  - intros (e & He & H). exists [e]. split; [apply in_map_iff; exists e; tauto|].
    intros w Hw Hi. apply H; [assumption|apply subseq_single; assumption].
Qed.

Theorem safe_dec_edges_correct G s t (X : list edge) sq :
  safe_dec G s t (items_of_edges X) sq = true <-> safe_for_edges G s t X sq.
Proof. rewrite safe_dec_correct. symmetry. apply safe_for_edges_iff. Qed.

Theorem incompat_dec_correct G s t a b : incompat_dec G s t a b = true <-> incompatible G s t a b.
Proof.
  unfold incompat_dec, incompatible. rewrite forallb_forall. split.
  - intros H w Hw Ha Hb. apply run_full_iff in Ha, Hb.
    specialize (H (run a 0 w, run b 0 w)). cbn [fst snd] in H.
    assert (Hin : In (run a 0 w, run b 0 w) (sink_pairs G a b s t)) by (apply sink_pairs_correct; exists w; tauto).
    specialize (H Hin). rewrite Ha, Hb, !Nat.eqb_refl in H. discriminate.
  - intros H [i j] Hin. cbn [fst snd]. apply sink_pairs_correct in Hin. destruct Hin as (w & Hw & Ra & Rb).
    apply negb_true_iff, andb_false_iff.
    destruct (Nat.eqb_spec i (length a)) as [Ei|Ei]; [|left; reflexivity].
    destruct (Nat.eqb_spec j (length b)) as [Ej|Ej]; [|right; reflexivity].
    exfalso. apply (H w Hw); apply run_full_iff; congruence.
Qed.

Theorem forbid_dec_correct G s t sq e : forbid_dec G s t sq e = true <-> forbidden G s t sq e.
Proof.
  unfold forbid_dec, forbidden. rewrite incompat_dec_correct. unfold incompatible. split.
  - intros H w Hw Hs Hi. apply (H w Hw Hs). apply subseq_single. assumption.
  - intros H w Hw Hs Hi. apply (H w Hw Hs). apply subseq_single. assumption.
Qed.

Theorem pairwise_incompat_dec_correct G s t ss :
  pairwise_incompat_dec G s t ss = true <->
  ForallOrdPairs (incompatible G s t) ss.
Proof.
  induction ss as [|a r IH]; cbn [pairwise_incompat_dec].
  - split; [constructor|reflexivity].
  - rewrite andb_true_iff, forallb_forall, IH. split.
    + intros [H1 H2]. constructor; [|assumption]. apply Forall_forall. intros b Hb. apply incompat_dec_correct, H1, Hb.
    + intros H. inversion H as [|? ? Hf Ho]; subst. split; [|assumption].
      intros b Hb. apply incompat_dec_correct. rewrite Forall_forall in Hf. apply Hf, Hb.
Qed.
