(* Completeness of the cyclic ERROR encodings (WalkErrEnc.v) within the caps of the model, reusing the generic walk part
   WalkEncComplete.base_sat: k source-to-sink walks with weights (and slacks) of the requested type, error values that
   dominate the deviations (resp. slacks that cover the scaled deviations), multiplicities / weights / products within
   the caps the class uses (repetition caps = compute_edge_max_reachable_value inside SCCs and 1 outside, w_max, bit
   width), the safety fixing respected and the subset constraints realised, extend to a satisfying assignment of
   encode_klae_cycles / encode_kmpe_cycles.  Together with WalkErrEncProofs (soundness) and the generic
   WalkCoverIff.WSound this gives the characterisations klaec_feasible_iff_within_caps / kmpec_feasible_iff_within_caps. *)
From Coq Require Import List NArith ZArith QArith Qround Lqa Bool Arith Lia Permutation.
Import ListNotations.
From FP Require Import Lin Blocks BlocksProofs PathEnc PathEncProofs Euler EulerProofs1 EulerProofs4
                       WalkEnc WalkDecode WalkEncRows WalkEncRowsProofs WalkTree WalkEncComplete WalkEncIff WalkCoverIff
                       WalkErrEnc WalkErrEncProofs.
Set Default Timeout 90.
Local Close Scope Q_scope.
Local Open Scope nat_scope.

Lemma comps_forall2 (c ub : Q) (bs : list Q) : Forall bin bs -> (0 <= c <= ub)%Q ->
  Forall2 (fun b m => (0 <= m <= ub)%Q /\ mcc b c m 0%Q ub) bs (map (fun b => (b * c)%Q) bs).
Proof.
  intros HB Hc. induction HB as [|b bs Hb _ IH]; cbn [map]; [constructor|]. constructor; [|exact IH]. split.
  - destruct Hb as [Hb|Hb]; rewrite Hb; split; lra.
  - apply (mcc_exact b c (b * c)%Q 0%Q ub Hb); [split; lra|reflexivity].
Qed.

(* one bit-expansion block satisfied by the binary expansion of the integer factor *)
Lemma intprod_block_sat (a : var -> Q) (x c p : var) (ub : Q) (z : Z) :
  (vfam x <> fBit /\ vfam x <> fComp) -> (vfam c <> fBit /\ vfam c <> fComp) -> (vfam p <> fBit /\ vfam p <> fComp) ->
  let n := num_bits ub in
  (0 <= z < 2 ^ Z.of_nat n)%Z -> (0 <= a c <= ub)%Q ->
  (a x == inject_Z z)%Q -> (a p == a c * inject_Z z)%Q ->
  (forall j, a (Bit p (N.of_nat j)) = nth j (bits n z) 0%Q) ->
  (forall j, a (Comp p (N.of_nat j)) = (nth j (bits n z) 0 * a c)%Q) ->
  Forall (sat_col a) (intprod_cols p 0%Q ub n) /\ Forall (sat_row a) (intprod_rows x c p 0%Q ub n).
Proof.
  intros Fx Fc Fp n Hz Hc Hx Hp Hbit Hcomp.
  apply (intprod_rows_sem x c p 0%Q ub n Fx Fc Fp a). cbn zeta.
  destruct (bits_spec n z Hz) as (BL & BB & BV).
  assert (Ebs : map (fun j => a (Bit p (N.of_nat j))) (seq 0 n) = bits n z).
  { rewrite <- BL at 1. apply map_seq_nth. intros j _. cbn [plus]. apply Hbit. }
  assert (Ems : map (fun j => a (Comp p (N.of_nat j))) (seq 0 n) = map (fun b => (b * a c)%Q) (bits n z)).
  { rewrite <- Ebs. rewrite map_map. apply map_ext. intros j. rewrite Hcomp, Hbit. reflexivity. }
  rewrite Ebs, Ems.
  pose proof (comps_forall2 (a c) ub (bits n z) BB Hc) as HF.
  split; [exact BB|]. split; [exact HF|]. split.
  - rewrite BV, Hx. reflexivity.
  - pose proof (comps_value (a c) 0%Q ub Hc _ _ BB HF) as V. rewrite V, BV, Hp. reflexivity.
Qed.

Section ErrComplete.
  Variable I : werr_inst.
  Let WI := werr_walk I.
  Let G := x_graph I.
  Let k := x_k I.
  Let E := g_edges G.
  Let wm := x_wmax I.
  Let nb := num_bits wm.
  Variable P : N -> list node.
  Variable wt : N -> Q.                       (* weights *)
  Variable sl : N -> Q.                       (* slacks (kMinPathErrorCycles) *)
  Variable err : PathEnc.edge -> Q.           (* error values (kLeastAbsErrorsCycles) *)
  Variable ch : N -> N.

  Notation mult := (mult P).
  Definition basicb (e : PathEnc.edge) : bool := mem_edge e (x_basic I).
  Definition bitsx (i : N) (e : PathEnc.edge) : list Q := bits nb (mult i e).

  Definition asgx (x : var) : Q :=
    match vidx x with
    | [u; v; i] =>
        if (vfam x =? fEdge)%N then inject_Z (mult i (u, v))
        else if (vfam x =? fSel)%N then WalkEncComplete.indq (selb (rev (P i)) (u, v))
        else if (vfam x =? fUsed)%N then usedq P i (u, v)
        else if (vfam x =? fPi)%N then (if basicb (u, v) then wt i * inject_Z (mult i (u, v)) else 0)%Q
        else if (vfam x =? fGamma)%N then (if basicb (u, v) then sl i * inject_Z (mult i (u, v)) else 0)%Q
        else 0%Q
    | [v; i] => if (vfam x =? fDist)%N then inject_Z (Z.of_nat (rankf (rev (P i)) v))
                else if (vfam x =? fR)%N then WalkEncComplete.indq (v =? ch i)%N
                else if (vfam x =? fErr)%N then err (v, i) else 0%Q
    | [i] => if (vfam x =? fW)%N then wt i else if (vfam x =? fSlack)%N then sl i else 0%Q
    | [f; u; v; i; j] =>
        if ((vfam x =? fBit)%N && ((f =? fPi)%N || (f =? fGamma)%N))%bool then nth (N.to_nat j) (bitsx i (u, v)) 0%Q
        else if ((vfam x =? fComp)%N && (f =? fPi)%N)%bool then (nth (N.to_nat j) (bitsx i (u, v)) 0 * wt i)%Q
        else if ((vfam x =? fComp)%N && (f =? fGamma)%N)%bool then (nth (N.to_nat j) (bitsx i (u, v)) 0 * sl i)%Q
        else 0%Q
    | _ => 0%Q
    end.

  Lemma ax_edge e i : asgx (evar e i) = inject_Z (mult i e). Proof. destruct e; reflexivity. Qed.
  Lemma ax_w i : asgx (W i) = wt i. Proof. reflexivity. Qed.
  Lemma ax_s i : asgx (Slack i) = sl i. Proof. reflexivity. Qed.
  Lemma ax_err e : asgx (errvar e) = err e. Proof. destruct e; reflexivity. Qed.
  Lemma ax_pi e i : asgx (pvar e i) = (if basicb e then wt i * inject_Z (mult i e) else 0)%Q. Proof. destruct e; reflexivity. Qed.
  Lemma ax_g e i : asgx (gvar e i) = (if basicb e then sl i * inject_Z (mult i e) else 0)%Q. Proof. destruct e; reflexivity. Qed.
  Lemma ax_bit_pi e i j : asgx (Bit (pvar e i) (N.of_nat j)) = nth j (bitsx i e) 0%Q.
  Proof. destruct e. unfold asgx, Bit, pvar, Pi. cbn [vidx vfam app]. cbn. rewrite Nat2N.id. reflexivity. Qed.
  Lemma ax_comp_pi e i j : asgx (Comp (pvar e i) (N.of_nat j)) = (nth j (bitsx i e) 0 * wt i)%Q.
  Proof. destruct e. unfold asgx, Comp, pvar, Pi. cbn [vidx vfam app]. cbn. rewrite Nat2N.id. reflexivity. Qed.
  Lemma ax_bit_g e i j : asgx (Bit (gvar e i) (N.of_nat j)) = nth j (bitsx i e) 0%Q.
  Proof. destruct e. unfold asgx, Bit, gvar, Gamma. cbn [vidx vfam app]. cbn. rewrite Nat2N.id. reflexivity. Qed.
  Lemma ax_comp_g e i j : asgx (Comp (gvar e i) (N.of_nat j)) = (nth j (bitsx i e) 0 * sl i)%Q.
  Proof. destruct e. unfold asgx, Comp, gvar, Gamma. cbn [vidx vfam app]. cbn. rewrite Nat2N.id. reflexivity. Qed.

  Hypothesis WFS : wf_stg G.
  Hypothesis HP : wwalks WI P.
  Hypothesis Hw : forall i, In i (layers k) -> (0 <= wt i <= wm)%Q /\ (x_int I = true -> is_int (wt i)).
  (* the caps of the model *)
  Hypothesis Hcap : wwithin_caps WI P.
  Hypothesis Hbits : forall i e, In i (layers k) -> In e (x_basic I) -> wprod_kind WI e i = 2%N -> (mult i e < 2 ^ Z.of_nat nb)%Z.
  Hypothesis Hprod : forall i e, In i (layers k) -> In e (x_basic I) -> (wt i * inject_Z (mult i e) <= wm)%Q.
  Hypothesis Hfix : wrespects_fixing WI P.
  Hypothesis Hcov : forall j c, nth_error (all_cons WI) j = Some c ->
      In (ch (N.of_nat j)) (layers (w_k WI)) /\
      (qnat (length (nodup_e c)) * w_cov WI <= sumq (usedq P (ch (N.of_nat j))) (nodup_e c))%Q.

  Lemma x_base_sat : Forall (sat_col asgx) (base_wcols WI) /\ Forall (sat_row asgx) (base_wrows WI).
  Proof. destruct Hfix as [Hz Hf]. apply (base_sat WI P ch asgx WFS HP Hcap Hz Hf Hcov); reflexivity. Qed.

  Lemma xmult_nonneg i e : (0 <= inject_Z (mult i e))%Q.
  Proof. change 0%Q with (inject_Z 0). rewrite <- Zle_Qle. unfold WalkEncComplete.mult, multz. lia. Qed.
  Lemma basicb_true e : In e (x_basic I) -> basicb e = true.
  Proof. intros H. unfold basicb. apply WalkEncRowsProofs.mem_edge_In. exact H. Qed.
  Lemma xwm_nonneg i : In i (layers k) -> (0 <= wm)%Q.
  Proof. intros Hi. destruct (Hw i Hi) as [[A B] _]. lra. Qed.

  Lemma xone_mult e i : In (e, i) (one_set WI) -> mult i e = 1%Z.
  Proof.
    unfold one_set. intros H. apply in_map_iff in H. destruct H as ([[e' i'] m] & Eq & H). cbn [fst] in Eq. injection Eq as -> ->.
    apply filter_In in H. destruct H as [Hin S]. cbn [fst] in S. apply negb_true_iff in S.
    apply (proj2 (proj2 Hfix e i m Hin)). exact S.
  Qed.

  (* the Pi product of one (edge, layer) pair in whichever of its three encodings *)
  Lemma pi_prod_sat i e : In i (layers k) -> In e (x_basic I) ->
    Forall (sat_col asgx) (wprod_cols WI wm e i (pvar e i)) /\ Forall (sat_row asgx) (wprod_rows WI wm e i (W i) (pvar e i)).
  Proof.
    intros Hi He. unfold wprod_cols, wprod_rows, wprod_kind.
    destruct (mem_ei e i (zero_set WI)) eqn:Z0.
    - cbn. split; [constructor|]. constructor; [|constructor]. unfold sat_row, mkrow. cbn [sns lhs rhs eval fst snd].
      apply mem_ei_In in Z0. rewrite ax_pi, (basicb_true e He), (proj1 Hfix e i Z0). change (inject_Z 0) with 0%Q. lra.
    - destruct (mem_ei e i (one_set WI)) eqn:O1.
      + cbn. split; [constructor|]. constructor; [|constructor]. unfold sat_row, mkrow. cbn [sns lhs rhs eval fst snd].
        apply mem_ei_In in O1. rewrite ax_pi, ax_w, (basicb_true e He), (xone_mult e i O1). change (inject_Z 1) with 1%Q. lra.
      + cbn. destruct (Hw i Hi) as [Wb _].
        apply (intprod_block_sat asgx (evar e i) (W i) (pvar e i) wm (mult i e)); try (split; discriminate).
        * split; [unfold WalkEncComplete.mult, multz; lia|]. apply (Hbits i e Hi He). unfold wprod_kind. rewrite Z0, O1. reflexivity.
        * rewrite ax_w. exact Wb.
        * rewrite ax_edge. reflexivity.
        * rewrite ax_pi, ax_w, (basicb_true e He). reflexivity.
        * intros j. apply ax_bit_pi.
        * intros j. rewrite ax_comp_pi, ax_w. reflexivity.
  Qed.

  Lemma x_pi_cols_sat : Forall (sat_col asgx) (x_pi_cols I).
  Proof.
    unfold x_pi_cols. apply Forall_flat_map. intros i Hi. apply Forall_forall. intros c Hc. apply in_map_iff in Hc. destruct Hc as (e & <- & _).
    unfold sat_col, wcol_. cbn [cvar clb cub cint]. rewrite ax_pi. destruct (Hw i Hi) as [[W0 W1] Wi]. pose proof (xmult_nonneg i e) as M0.
    destruct (basicb e) eqn:K.
    - apply WalkEncRowsProofs.mem_edge_In in K. split; [nra|]. split; [apply (Hprod i e Hi K)|].
      intros Hint. apply is_int_mult; [apply Wi; exact Hint|apply is_int_inject].
    - split; [lra|]. split; [apply (xwm_nonneg i Hi)|]. intros _. exists 0%Z. reflexivity.
  Qed.
  Lemma x_w_cols_sat : Forall (sat_col asgx) (x_w_cols I).
  Proof.
    unfold x_w_cols. apply Forall_forall. intros c Hc. apply in_map_iff in Hc. destruct Hc as (i & <- & Hi).
    unfold sat_col, wcol_. cbn [cvar clb cub cint]. rewrite ax_w. destruct (Hw i Hi) as [[A B] C]. repeat split; assumption.
  Qed.
  Lemma x_piprod_cols_sat : Forall (sat_col asgx) (x_piprod_cols I).
  Proof. unfold x_piprod_cols. apply Forall_flat_map. intros e He. apply Forall_flat_map. intros i Hi. apply (pi_prod_sat i e Hi He). Qed.
  Lemma x_piprod_rows_sat e : In e (x_basic I) -> Forall (sat_row asgx) (x_piprod_rows I e).
  Proof. intros He. unfold x_piprod_rows. apply Forall_flat_map. intros i Hi. apply (pi_prod_sat i e Hi He). Qed.

  Definition expl (e : PathEnc.edge) : Q := sumq (fun i => (wt i * inject_Z (mult i e))%Q) (layers k).
  Lemma pi_sum e : In e (x_basic I) -> (sumq (fun i => asgx (pvar e i)) (layers k) == expl e)%Q.
  Proof. intros He. apply sumq_ext. intros i _. rewrite ax_pi, (basicb_true e He). reflexivity. Qed.

  (* ---- kLeastAbsErrorsCycles ---- *)
  Section Klae.
    Hypothesis Herr : forall e, In e (x_basic I) ->
        (0 <= err e <= wm)%Q /\ (x_int I = true -> is_int (err e)) /\ (xflow I e - expl e <= err e)%Q /\ (expl e - xflow I e <= err e)%Q.

    Theorem klaec_complete : sat asgx (encode_klae_cycles I).
    Proof.
      destruct x_base_sat as [Bc Br]. unfold sat, encode_klae_cycles. cbn [cols rows]. fold WI. split.
      - rewrite Forall_app. split; [exact Bc|]. unfold klaec_cols. repeat rewrite Forall_app.
        repeat split; [apply x_pi_cols_sat|apply x_w_cols_sat| |apply x_piprod_cols_sat].
        unfold x_err_cols. apply Forall_forall. intros c Hc. apply in_map_iff in Hc. destruct Hc as (e & <- & He).
        unfold sat_col, wcol_. cbn [cvar clb cub cint]. rewrite ax_err. destruct (Herr e He) as ([A B] & C & _). repeat split; assumption.
      - rewrite Forall_app. split; [exact Br|]. unfold klaec_rows. apply Forall_flat_map. intros e He.
        unfold klaec_edge_rows. rewrite Forall_app. split; [apply (x_piprod_rows_sat e He)|].
        destruct (Herr e He) as (_ & _ & E1 & E2).
        constructor; [|constructor; [|constructor]]; unfold sat_row, xrow_9aa, xrow_9ab, mkrow; cbn [sns lhs rhs]; rewrite eval_app.
        + rewrite (eval_map_const asgx (fun i => pvar e i) (- (1))%Q). cbn [eval fst snd]. fold k. rewrite (pi_sum e He), ax_err. lra.
        + rewrite (eval_map_const asgx (fun i => pvar e i) 1%Q). cbn [eval fst snd]. fold k. rewrite (pi_sum e He), ax_err. lra.
    Qed.
  End Klae.

  (* ---- kMinPathErrorCycles ---- *)
  Section Kmpe.
    Hypothesis Hs : forall i, In i (layers k) -> (0 <= sl i <= wm)%Q /\ (x_int I = true -> is_int (sl i)).
    Hypothesis Hsprod : forall i e, In i (layers k) -> In e (x_basic I) -> (sl i * inject_Z (mult i e) <= wm)%Q.
    Definition slk (e : PathEnc.edge) : Q := sumq (fun i => (sl i * inject_Z (mult i e))%Q) (layers k).
    Hypothesis Hslack : forall e, In e (x_basic I) ->
        ((xflow I e - expl e) * xscale I e <= slk e)%Q /\ (- slk e <= (xflow I e - expl e) * xscale I e)%Q.

    Lemma g_prod_sat i e : In i (layers k) -> In e (x_basic I) ->
      Forall (sat_col asgx) (wprod_cols WI wm e i (gvar e i)) /\ Forall (sat_row asgx) (wprod_rows WI wm e i (Slack i) (gvar e i)).
    Proof.
      intros Hi He. unfold wprod_cols, wprod_rows, wprod_kind.
      destruct (mem_ei e i (zero_set WI)) eqn:Z0.
      - cbn. split; [constructor|]. constructor; [|constructor]. unfold sat_row, mkrow. cbn [sns lhs rhs eval fst snd].
        apply mem_ei_In in Z0. rewrite ax_g, (basicb_true e He), (proj1 Hfix e i Z0). change (inject_Z 0) with 0%Q. lra.
      - destruct (mem_ei e i (one_set WI)) eqn:O1.
        + cbn. split; [constructor|]. constructor; [|constructor]. unfold sat_row, mkrow. cbn [sns lhs rhs eval fst snd].
          apply mem_ei_In in O1. rewrite ax_g, ax_s, (basicb_true e He), (xone_mult e i O1). change (inject_Z 1) with 1%Q. lra.
        + cbn. destruct (Hs i Hi) as [Sb _].
          apply (intprod_block_sat asgx (evar e i) (Slack i) (gvar e i) wm (mult i e)); try (split; discriminate).
          * split; [unfold WalkEncComplete.mult, multz; lia|]. apply (Hbits i e Hi He). unfold wprod_kind. rewrite Z0, O1. reflexivity.
          * rewrite ax_s. exact Sb.
          * rewrite ax_edge. reflexivity.
          * rewrite ax_g, ax_s, (basicb_true e He). reflexivity.
          * intros j. apply ax_bit_g.
          * intros j. rewrite ax_comp_g, ax_s. reflexivity.
    Qed.

    Lemma g_sum e : In e (x_basic I) -> (sumq (fun i => asgx (gvar e i)) (layers k) == slk e)%Q.
    Proof. intros He. apply sumq_ext. intros i _. rewrite ax_g, (basicb_true e He). reflexivity. Qed.

    Theorem kmpec_complete : sat asgx (encode_kmpe_cycles I).
    Proof.
      destruct x_base_sat as [Bc Br]. unfold sat, encode_kmpe_cycles. cbn [cols rows]. fold WI. split.
      - rewrite Forall_app. split; [exact Bc|]. unfold kmpec_cols. repeat rewrite Forall_app.
        repeat split; [apply x_w_cols_sat|apply x_pi_cols_sat| | |apply x_piprod_cols_sat|].
        + unfold x_slack_cols. apply Forall_forall. intros c Hc. apply in_map_iff in Hc. destruct Hc as (i & <- & Hi).
          unfold sat_col, wcol_. cbn [cvar clb cub cint]. rewrite ax_s. destruct (Hs i Hi) as [[A B] C]. repeat split; assumption.
        + unfold x_gamma_cols. apply Forall_flat_map. intros i Hi. apply Forall_forall. intros c Hc. apply in_map_iff in Hc. destruct Hc as (e & <- & _).
          unfold sat_col, wcol_. cbn [cvar clb cub cint]. rewrite ax_g. destruct (Hs i Hi) as [[S0 S1] _]. pose proof (xmult_nonneg i e) as M0.
          destruct (basicb e) eqn:K.
          * apply WalkEncRowsProofs.mem_edge_In in K. split; [nra|]. split; [apply (Hsprod i e Hi K)|discriminate].
          * split; [lra|]. split; [apply (xwm_nonneg i Hi)|discriminate].
        + unfold x_gprod_cols. apply Forall_flat_map. intros e He. apply Forall_flat_map. intros i Hi. apply (g_prod_sat i e Hi He).
      - rewrite Forall_app. split; [exact Br|]. unfold kmpec_rows. apply Forall_flat_map. intros e He.
        unfold kmpec_edge_rows. repeat rewrite Forall_app. split; [apply (x_piprod_rows_sat e He)|]. split.
        + unfold x_gprod_rows. apply Forall_flat_map. intros i Hi. apply (g_prod_sat i e Hi He).
        + destruct (Hslack e He) as [E1 E2].
          constructor; [|constructor; [|constructor]]; unfold sat_row, mrow_9aa, mrow_9ab, mkrow; cbn [sns lhs rhs]; rewrite eval_app;
            rewrite (eval_map_const asgx (fun i => pvar e i) (- xscale I e)%Q).
          * rewrite (eval_map_const asgx (fun i => gvar e i) (- (1))%Q). fold k. rewrite (pi_sum e He), (g_sum e He). lra.
          * rewrite (eval_map_const asgx (fun i => gvar e i) 1%Q). fold k. rewrite (pi_sum e He), (g_sum e He). lra.
    Qed.
  End Kmpe.
End ErrComplete.
