(* Model of MinFlowDecompCycles.solve() (the k-search of the cyclic minimum flow decomposition) as a
   function of the per-k solver outcomes:
       for i in range(lowerbound, number_of_edges + 1):
           fd_model = given-weights model if it is solved with exactly i walks, else kFlowDecompCycles(k = i) solved
           if elapsed > time_limit: return False
           if fd_model.is_solved(): return True            (solution = fd_model's, i walks)
           elif status == infeasible: continue
           else: return False
       return False
   (the same loop is used by MinPathCoverCycles without the given-weights shortcut). *)
From Coq Require Import List Arith Bool Lia.
Import ListNotations.
Set Default Timeout 60.

Inductive outcome := Optimal | Infeasible | Other.     (* Other = time limit, interrupted, unknown, ... *)
Inductive result := Solved (k : nat) | Unsolved.

Definition is_opt (o : outcome) : bool := match o with Optimal => true | _ => false end.
Definition is_inf (o : outcome) : bool := match o with Infeasible => true | _ => false end.

Section Search.
  Variable out : nat -> outcome.       (* status of kFlowDecompCycles(k) *)
  Variable tout : nat -> bool.         (* elapsed time exceeded the limit after the run for k *)
  Variable given : option nat.         (* Some g: the given-weights model is solved and has g non-empty walks *)

  Definition uses_given (i : nat) : bool := match given with Some g => g =? i | None => false end.

  Fixpoint search (fuel i : nat) : result :=
    match fuel with
    | O => Unsolved
    | S f =>
        if tout i then Unsolved
        else if uses_given i || is_opt (out i) then Solved i
        else if is_inf (out i) then search f (S i)
        else Unsolved
    end.

  (* range(lb, nE + 1) *)
  Definition mfdc_solve (lb nE : nat) : result := search (nE + 1 - lb) lb.
  (* the loop as it was before the fix "include k = number of edges": range(lb, nE) *)
  Definition mfdc_solve_old (lb nE : nat) : result := search (nE - lb) lb.

  Lemma search_sound fuel : forall i k, search fuel i = Solved k ->
    i <= k < i + fuel /\ tout k = false /\ (uses_given k = true \/ out k = Optimal) /\
    forall j, i <= j < k -> out j = Infeasible /\ tout j = false /\ uses_given j = false.
  Proof.
    induction fuel as [|f IH]; intros i k H; cbn [search] in H; [discriminate|].
    destruct (tout i) eqn:T; [discriminate|].
    destruct (uses_given i || is_opt (out i)) eqn:S1.
    - injection H as <-. split; [lia|]. split; [exact T|]. split.
      + apply orb_true_iff in S1. destruct S1 as [S1|S1]; [left; exact S1|right]. destruct (out i); try discriminate; reflexivity.
      + intros j Hj. lia.
    - destruct (is_inf (out i)) eqn:S2; [|discriminate].
      destruct (IH (S i) k H) as (R & Tk & O & Hj). split; [lia|]. split; [exact Tk|]. split; [exact O|].
      intros j Hjk. destruct (Nat.eq_dec j i) as [->|Hne].
      + apply orb_false_iff in S1. destruct S1 as [S1 _]. split; [|split; assumption]. destruct (out i); try discriminate; reflexivity.
      + apply Hj. lia.
  Qed.

  (* any answer is backed by an optimal run (or the given-weights solution) for that k, and every smaller
     k in the range was proved infeasible by the solver *)
  Theorem mfdc_search_sound lb nE k : mfdc_solve lb nE = Solved k ->
    lb <= k <= nE /\ tout k = false /\ (uses_given k = true \/ out k = Optimal) /\
    forall j, lb <= j < k -> out j = Infeasible.
  Proof.
    intros H. destruct (search_sound _ _ _ H) as (R & T & O & Hj). split; [lia|]. split; [exact T|]. split; [exact O|].
    intros j Hjk. apply Hj. exact Hjk.
  Qed.

  (* an inconclusive status (or the time exit) at the first k that is not proved infeasible ends the search
     without an answer *)
  Theorem mfdc_search_inconclusive lb nE k : lb <= k <= nE ->
    (forall j, lb <= j < k -> out j = Infeasible /\ tout j = false /\ uses_given j = false) ->
    (tout k = true \/ (out k = Other /\ uses_given k = false)) ->
    mfdc_solve lb nE = Unsolved.
  Proof.
    unfold mfdc_solve. intros R Hj Hk.
    assert (G : forall fuel i, i <= k < i + fuel ->
              (forall j, i <= j < k -> out j = Infeasible /\ tout j = false /\ uses_given j = false) -> search fuel i = Unsolved).
    { induction fuel as [|f IH]; intros i Hr Hji; [lia|]. cbn [search].
      destruct (Nat.eq_dec i k) as [->|Hne].
      - destruct Hk as [->|[Ho Hu]]; [reflexivity|]. destruct (tout k); [reflexivity|]. rewrite Hu, Ho. reflexivity.
      - destruct (Hji i ltac:(lia)) as (Ho & Ht & Hu). rewrite Ht, Hu, Ho. cbn. apply IH; [lia|]. intros j Hjr. apply Hji. lia. }
    apply G; [lia|exact Hj].
  Qed.

  (* with an exact solver, no time exit, a valid lower bound and an upper end that is reached, the search
     returns the least feasible k *)
  Theorem mfdc_search_min (feasible : nat -> Prop) lb nE kmin :
    (forall j, out j = Optimal <-> feasible j) -> (forall j, out j = Infeasible <-> ~ feasible j) ->
    (forall j, tout j = false) -> (forall g, given = Some g -> feasible g) ->
    feasible kmin -> (forall j, j < kmin -> ~ feasible j) -> lb <= kmin <= nE ->
    mfdc_solve lb nE = Solved kmin.
  Proof.
    intros Hopt Hinf Ht Hg Hf Hmin R. unfold mfdc_solve.
    assert (G : forall fuel i, i <= kmin < i + fuel -> search fuel i = Solved kmin).
    { induction fuel as [|f IH]; intros i Hr; [lia|]. cbn [search]. rewrite Ht.
      destruct (Nat.eq_dec i kmin) as [->|Hne].
      - rewrite (proj2 (Hopt kmin) Hf). cbn. rewrite orb_true_r. reflexivity.
      - assert (Hn : ~ feasible i) by (apply Hmin; lia).
        assert (U : uses_given i = false).
        { unfold uses_given. destruct given as [g|] eqn:Eg; [|reflexivity]. destruct (Nat.eqb_spec g i) as [->|]; [|reflexivity].
          exfalso. apply Hn. apply Hg. reflexivity. }
        rewrite U, (proj2 (Hinf i) Hn). cbn. apply IH. lia. }
    apply G. lia.
  Qed.
End Search.

(* the exclusive upper end of the loop before the fix missed k = number of edges (single edge: the
   only candidate k = 1 was never tried) *)
Theorem mfdc_upper_exclusive_refuted : exists out lb nE,
  lb <= nE /\ out nE = Optimal /\ mfdc_solve_old out (fun _ => false) None lb nE = Unsolved /\
  mfdc_solve out (fun _ => false) None lb nE = Solved nE.
Proof. exists (fun _ => Optimal), 1, 1. repeat split; try lia. Qed.
