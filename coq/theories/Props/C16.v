(* C16 — MinErrorFlow returns a closest non-negative flow on the same graph.
   Only property theorems (closed by [exact]), their assumptions, non-vacuity examples.
   Model: MiscEnc.v (encode_mef, encode_mef2, corrected_graph); the instance is the graph the model object
   works on (the s-t augmented graph for DAGs, where additional starts/ends have become source/sink edges;
   the node-expanded graph for node weights).  Optimality is relative to the solver specification
   (premises of C16_optimal_solution_is_closest_flow). *)
From Coq Require Import List NArith ZArith QArith Bool Arith Lia.
Import ListNotations.
From FP Require Import Lin Blocks BlocksProofs PathEnc MiscEnc MiscEncProofs MefBound MefChecked MefIntegral.
Local Open Scope Q_scope.

(* rows + columns <=> 0 <= x, err <= ub (integral for int weights); conservation at every node with in- and
   out-edges; err = 0 on ignored edges; f - x <= err and x - f <= err on the others *)
Theorem C16_rows_exact : forall (I : mef_inst) (a : var -> Q), sat a (encode_mef I) <-> mef_sem I a.
Proof. exact mef_enc_exact. Qed.
Print Assumptions C16_rows_exact.

(* the objective: scaled error variables of the charged edges + lambda * flow out of the source *)
Theorem C16_objective : forall (I : mef_inst) (a : var -> Q),
  objective a (encode_mef I) ==
  sumq (fun e => scale_of I e * errof a e) (charged I) + mef_lambda I * sumq (xof a) (src_out I).
Proof. exact mef_objective_sem. Qed.
Print Assumptions C16_objective.

(* every solution pays at least the scaled L1 distance (+ sparsity term) of its flow ... *)
Theorem C16_objective_lower_bound : forall (I : mef_inst) (a : var -> Q),
  (forall e, In e (mef_edges I) -> 0 <= scale_of I e) -> sat a (encode_mef I) ->
  flow_cost I (xof a) <= objective a (encode_mef I).
Proof. exact mef_objective_lower_bound. Qed.
Print Assumptions C16_objective_lower_bound.

(* ... and every flow within the bounds is carried by a solution that pays exactly that *)
Theorem C16_every_flow_is_a_solution : forall (I : mef_inst),
  (forall e, In e (mef_edges I) -> 0 <= fval I e <= mef_ub I) ->
  (mef_int I = true -> forall e, In e (mef_edges I) -> is_int (fval I e)) ->
  forall x, is_flow_ub I x ->
  sat (assign_of I x) (encode_mef I) /\ objective (assign_of I x) (encode_mef I) == flow_cost I x.
Proof. exact mef_tight_assignment. Qed.
Print Assumptions C16_every_flow_is_a_solution.

(* relative to the bound ub = w_max * |E| of the variables: an optimal solution of the rows is a non-negative flow with
   conservation where required whose cost is no larger than that of any other such flow WITHIN THE BOUNDS, and the reported
   objective equals the recomputed cost *)
Theorem C16_optimal_solution_is_closest_flow_within_bounds : forall (I : mef_inst),
  (forall e, In e (mef_edges I) -> 0 <= fval I e <= mef_ub I) ->
  (mef_int I = true -> forall e, In e (mef_edges I) -> is_int (fval I e)) ->
  forall a : var -> Q,
  (forall e, In e (mef_edges I) -> 0 <= scale_of I e) ->
  sat a (encode_mef I) -> (forall b, sat b (encode_mef I) -> obj_le (encode_mef I) a b) ->
  is_flow_ub I (xof a) /\
  (forall y, is_flow_ub I y -> flow_cost I (xof a) <= flow_cost I y) /\
  (0 < mef_lambda I \/ mef_lambda I == 0 -> (forall e, In e (mef_edges I) -> 0 < scale_of I e \/ ignored I e = true) ->
   objective a (encode_mef I) == flow_cost I (xof a)).
Proof. exact mef_optimal_is_closest. Qed.
Print Assumptions C16_optimal_solution_is_closest_flow_within_bounds.

(* THE BOUND LOSES NO OPTIMUM (mef_bound_no_loss): every non-negative flow with conservation where required -- whatever its
   values -- is matched or beaten by a flow within the variable bounds.  (Proof: contract the nodes without conservation into
   one node, so the flow is a circulation; an edge above the sum F of the charged weights lies on a simple cycle of edges that
   are above their weight (cut argument); lowering the cycle by its least slack keeps conservation, lowers no edge below its
   weight, and strictly shrinks the set of edges above their weight; iterate.  F <= w_max * |E|.) *)
Theorem C16_bound_loses_no_optimum : forall (I : mef_inst),
  NoDup (mef_edges I) ->
  (forall e, In e (mef_edges I) -> 0 <= fval I e) ->
  (mef_int I = true -> forall e, In e (mef_edges I) -> is_int (fval I e)) ->
  (forall e, In e (mef_edges I) -> 0 <= scale_of I e) ->
  forall y, is_flow_nb I y -> exists y', is_flow_ub I y' /\ flow_cost I y' <= flow_cost I y.
Proof. exact mef_bound_no_loss. Qed.
Print Assumptions C16_bound_loses_no_optimum.

(* FULL STATEMENT (relative to the solver specification): an optimal solution of the rows is a closest flow among ALL
   non-negative flows with conservation where required (integral flows when weight_type = int).  Side conditions: the edge
   list has no duplicates (networkx DiGraph), weights non-negative (integral for int), scalings non-negative. *)
Definition C16_full_statement : Prop := forall (I : mef_inst) (a : var -> Q),
  NoDup (mef_edges I) ->
  (forall e, In e (mef_edges I) -> 0 <= fval I e) ->
  (mef_int I = true -> forall e, In e (mef_edges I) -> is_int (fval I e)) ->
  (forall e, In e (mef_edges I) -> 0 <= scale_of I e) ->
  sat a (encode_mef I) -> (forall b, sat b (encode_mef I) -> obj_le (encode_mef I) a b) ->
  is_flow_ub I (xof a) /\ forall y, is_flow_nb I y -> flow_cost I (xof a) <= flow_cost I y.
Theorem C16_optimal_solution_is_closest_flow : C16_full_statement.
Proof. exact mef_optimal_is_closest_full. Qed.
Print Assumptions C16_optimal_solution_is_closest_flow.

(* THE INTEGRAL OPTIMUM IS THE REAL OPTIMUM.  On integral weights every non-negative conserving RATIONAL flow is matched or beaten
   by an INTEGRAL one (any scalings, any lambda): while some edge is non-integral, the non-integral edges contain an undirected
   cycle after contracting the nodes without conservation (cut argument); pushing +-eps around it keeps conservation and
   non-negativity, the cost is affine between consecutive integers on every edge (weights integral), so one direction does not
   increase it; push until an edge becomes integral; the number of non-integral edges drops. *)
Theorem C16_integral_flow_no_worse : forall (I : mef_inst), NoDup (mef_edges I) ->
  (forall e, In e (mef_edges I) -> is_int (fval I e)) ->
  forall y, is_flow_real I y ->
  exists y', is_flow_real I y' /\ (forall e, In e (mef_edges I) -> is_int (y' e)) /\ flow_cost I y' <= flow_cost I y.
Proof. exact mef_integral_no_worse. Qed.
Print Assumptions C16_integral_flow_no_worse.

(* hence weight_type = int loses nothing against float on integral data: an optimal solution of the rows of the INTEGER model
   (solver specification; side conditions = the executable check) is a closest flow among ALL rational flows *)
Theorem C16_integral_optimum_is_real_optimum : forall (I : mef_inst) (a : var -> Q),
  mef_int I = true -> mef_domain_b I = true ->
  sat a (encode_mef I) -> (forall b, sat b (encode_mef I) -> obj_le (encode_mef I) a b) ->
  forall y, is_flow_real I y -> flow_cost I (xof a) <= flow_cost I y.
Proof. exact mef_integral_optimum_is_real_optimum. Qed.
Print Assumptions C16_integral_optimum_is_real_optimum.

(* the key step on its own: one push around a cycle of non-integral edges (generic end-point maps, generic edge-wise affine cost) *)
Theorem C16_fractional_cycle_push_does_not_increase_cost : forall (src dst : PathEnc.edge -> node) (E : list PathEnc.edge), NoDup E ->
  forall (c : PathEnc.edge -> Q -> Q) (slope : PathEnc.edge -> Z -> Q),
  (forall e v w, v == w -> c e v == c e w) ->
  (forall e z v, In e E -> inject_Z z <= v <= inject_Z z + 1 -> c e v == c e (inject_Z z) + slope e z * (v - inject_Z z)) ->
  forall (y : PathEnc.edge -> Q) (C : list (PathEnc.edge * bool)) (a : node),
  (forall e, In e E -> 0 <= y e) -> balanced src dst E y -> ochain src dst E a C a -> NoDup (map fst C) -> C <> [] ->
  (forall p, In p C -> In (fst p) E /\ frac y (fst p) = true) ->
  exists y1, balanced src dst E y1 /\ (forall e, In e E -> 0 <= y1 e) /\ costq E c y1 <= costq E c y /\
             (length (filter (frac y1) E) < length (filter (frac y) E))%nat.
Proof. exact push_step. Qed.
Print Assumptions C16_fractional_cycle_push_does_not_increase_cost.

(* CHECKED form: the side conditions are one executable boolean (extracted; run on every instance by the engine) *)
Theorem C16_optimal_solution_is_closest_flow_checked : forall (I : mef_inst) (a : var -> Q), mef_domain_b I = true ->
  sat a (encode_mef I) -> (forall b, sat b (encode_mef I) -> obj_le (encode_mef I) a b) ->
  is_flow_ub I (xof a) /\ forall y, is_flow_nb I y -> flow_cost I (xof a) <= flow_cost I y.
Proof. exact mef_optimal_is_closest_checked. Qed.
Print Assumptions C16_optimal_solution_is_closest_flow_checked.
Theorem C16_domain_check_sound : forall I : mef_inst, mef_domain_b I = true ->
  NoDup (mef_edges I) /\ (forall e, In e (mef_edges I) -> 0 <= fval I e) /\
  (mef_int I = true -> forall e, In e (mef_edges I) -> is_int (fval I e)) /\
  (forall e, In e (mef_edges I) -> 0 <= scale_of I e).
Proof. exact mef_domain_b_sound. Qed.
Print Assumptions C16_domain_check_sound.

(* the corrected graph has the node list and the edge list it was built from; an edge carries a value iff it had one *)
Theorem C16_same_graph : forall (I : mef_inst) (nodes : list node) (edges : list edge) (x : edge -> Q),
  fst (corrected_graph I nodes edges x) = nodes /\ map fst (snd (corrected_graph I nodes edges x)) = edges /\
  (forall e, In e edges -> In (e, if has_flow I e then Some (corrected_value I x e) else None) (snd (corrected_graph I nodes edges x))).
Proof. exact mef_same_graph. Qed.
Print Assumptions C16_same_graph.

(* few-values model: any solution is a solution of the first model within (1+eps) * opt *)
Theorem C16_few_values_within_budget : forall (I : mef_inst) (subset : list edge) (eps opt : Q) (nvals : nat) (a : var -> Q),
  sat a (encode_mef2 I subset eps opt nvals) ->
  sat a (encode_mef I) /\ objective a (encode_mef I) <= (1 + eps) * opt.
Proof. exact mef2_within_budget. Qed.
Print Assumptions C16_few_values_within_budget.

(* the E1 comparison itself is verified: when the extracted checker accepts, the LP read back from the solver and the model's LP
   have the same satisfying assignments, the same objective function and direction -- hence the same optimal solutions.  Every
   theorem above about `sat a (encode_mef I / encode_mef2)` therefore holds for the LP the implementation built on that instance. *)
From FP Require Import LinEquiv.
Theorem C16_lp_comparison_is_verified : forall (m1 m2 : milp), milp_equiv_b m1 m2 = true ->
  (forall a, sat a m1 <-> sat a m2) /\ (forall a, (objective a m1 == objective a m2)%Q) /\ maximize m1 = maximize m2.
Proof. exact milp_equiv_sound. Qed.
Print Assumptions C16_lp_comparison_is_verified.

Theorem C16_equivalent_lps_have_the_same_optima : forall (m1 m2 : milp), milp_equiv_b m1 m2 = true ->
  forall a, (sat a m1 /\ forall b, sat b m1 -> obj_le m1 a b) <-> (sat a m2 /\ forall b, sat b m2 -> obj_le m2 a b).
Proof. exact milp_equiv_optimal. Qed.
Print Assumptions C16_equivalent_lps_have_the_same_optima.

(* ---- non-vacuity of the integrality theorem: the optimum set of this instance contains the fractional flow 1/2 and the integral flow 0 *)
Example C16_nonvacuous_fractional_optimum : mef_domain_b ex_frac = true /\ is_flow_real ex_frac (fun _ => 1 # 2) /\ is_flow_real ex_frac (fun _ => 0) /\
  ~ is_int (1 # 2) /\ flow_cost ex_frac (fun _ => 1 # 2) == 2 /\ flow_cost ex_frac (fun _ => 0) == 2.
Proof. exact ex_frac_flows. Qed.

(* ---- non-vacuity of the no-loss theorem: a flow far above the bound (7 on both edges, ub = 2) is a flow in its sense *)
Example C16_nonvacuous_unbounded_flow : is_flow_nb ex_nb (fun _ => 7) /\ mef_ub ex_nb == 2.
Proof. exact ex_nb_flow. Qed.

(* ---- non-vacuity: a -> b (3), b -> c (5): the flow 3,3 (err 0,2) satisfies the model; b is conserved *)
Definition ex_mef : mef_inst :=
  {| mef_nodes := [0; 1; 2]%N; mef_edges := [(0, 1); (1, 2)]%N; mef_flow := [((0, 1)%N, 3); ((1, 2)%N, 5)];
     mef_ignore := []; mef_scale := []; mef_lambda := 0; mef_src := None; mef_int := true |}.
Example C16_nonvacuous : sat (assign_of ex_mef (fun _ => 3)) (encode_mef ex_mef) /\
  objective (assign_of ex_mef (fun _ => 3)) (encode_mef ex_mef) == 2 /\ conserved ex_mef 1%N = true /\ mef_ub ex_mef == 10.
Proof.
  split; [split|split; [|split]].
  - apply Forall_dec_cols. vm_compute. reflexivity.
  - apply Forall_dec_rows. vm_compute. reflexivity.
  - vm_compute. reflexivity.
  - reflexivity.
  - vm_compute. reflexivity.
Qed.

(* ---- audit: the SOLVER hypotheses of C16_optimal_solution_is_closest_flow(_checked) / C16_integral_optimum_is_real_optimum: a
   satisfying assignment that is optimal among all satisfying assignments, on a -> b (3), b -> c (5), integer type, domain check true *)
From FP Require Import AuditExamples17.
Example C16_solver_hypotheses_satisfiable :
  mef_domain_b amef = true /\ mef_int amef = true /\
  sat amef_a (encode_mef amef) /\ (forall b, sat b (encode_mef amef) -> obj_le (encode_mef amef) amef_a b) /\
  objective amef_a (encode_mef amef) == 2 /\ xof amef_a (0, 1)%N == 3 /\ xof amef_a (1, 2)%N == 3.
Proof. exact amef_solver_hypotheses. Qed.
Print Assumptions C16_solver_hypotheses_satisfiable.
