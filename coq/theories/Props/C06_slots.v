(* C06, second and third sentence: sequences fixed into different solution slots occur together in no source-to-sink path/walk, and an
   arc forbidden for a slot lies on no source-to-sink walk that contains the slot's sequence.  Only property theorems (closed by [exact]),
   their assumptions and non-vacuity examples.  Walks are lists of arcs as in Props/C06.v ([Safety.incompatible], [Safety.forbidden]). *)
From Coq Require Import List NArith ZArith Bool Arith Lia.
Import ListNotations.
From FP Require Import PathEnc SafetyReach Dilworth WalkEncRows WalkEncRowsProofs SlotSafety.
From FP Require Safety MinFlowCut Reach.

(* A (DAG classes: get_longest_incompatible_sequences through compute_max_edge_antichain).  An arc antichain: no source-to-sink walk
   contains two different of its arcs.  Sequences that contain different arcs of an arc antichain are pairwise incompatible. *)
Theorem C06_sequences_of_an_antichain_are_pairwise_incompatible :
  forall (G : SafetyReach.graph) (s t : node) (A : list edge) (e1 e2 : edge) (q1 q2 : list edge),
  arc_antichain G s t A -> In e1 A -> In e2 A -> e1 <> e2 -> In e1 q1 -> In e2 q2 -> Safety.incompatible G s t q1 q2.
Proof. exact sequences_of_an_antichain_are_pairwise_incompatible. Qed.
Print Assumptions C06_sequences_of_an_antichain_are_pairwise_incompatible.

(* arcs that are pairwise unordered by reachability -- what C17_residual_cut_is_a_maximum_antichain proves of the extracted set -- are one *)
Theorem C06_unordered_arcs_are_an_arc_antichain : forall (G : SafetyReach.graph) (s t : node) (A : list edge),
  (forall e1 e2, In e1 A -> In e2 A -> ~ conn G (snd e1) (fst e2)) -> arc_antichain G s t A.
Proof. exact unordered_is_arc_antichain. Qed.
Print Assumptions C06_unordered_arcs_are_an_arc_antichain.

(* composed: on an instance that passes the extracted premise check of MinFlowCut, sequences through different arcs of the set
   compute_max_edge_antichain returns are incompatible *)
Theorem C06_sequences_of_the_extracted_antichain_are_incompatible :
  forall (V : list node) (E : list edge) (s t : node) (wl fl : list (edge * QArith_base.Q)) (e1 e2 : edge) (q1 q2 : list edge),
  MinFlowCut.mincut_premises V E s t wl fl = true ->
  let A := snd (MinFlowCut.mincut_model V E s wl fl) in
  In e1 A -> In e2 A -> e1 <> e2 -> In e1 q1 -> In e2 q2 -> Safety.incompatible E s t q1 q2.
Proof. exact extracted_antichain_gives_incompatible_sequences. Qed.
Print Assumptions C06_sequences_of_the_extracted_antichain_are_incompatible.

(* B (cyclic classes: the antichain of the expanded condensation).  Arcs over different members of an antichain of the expanded
   condensation, or different arcs between the same two components, lie on no common walk; sequences containing them are incompatible *)
Theorem C06_arcs_over_a_condensation_antichain_share_no_walk :
  forall (E : list PathEnc.edge) (s t : node) (cm : node -> N) (cn : list N) (cE : list (N * N)),
  (forall u v, In u (nodes_of E) -> In v (nodes_of E) -> (cm u = cm v <-> conn E u v /\ conn E v u)) ->
  (forall u v, In (u, v) E -> cm u <> cm v -> In (cm u, cm v) cE) ->
  (forall e, In e E -> In (cm (fst e)) cn /\ In (cm (snd e)) cn) ->
  forall (B : list PathEnc.edge) (e1 e2 : edge) (w : list edge),
  condensation_antichain E cm cn cE B -> In e1 E -> In e2 E -> In (hmap E cm e1) B -> In (hmap E cm e2) B ->
  (hmap E cm e1 <> hmap E cm e2 \/ (e1 <> e2 /\ hmap E cm e1 = hmap E cm e2 /\ cm (fst e1) <> cm (snd e1))) ->
  Safety.st_walk E s t w -> In e1 w -> In e2 w -> False.
Proof. exact arcs_over_a_condensation_antichain_share_no_walk. Qed.
Print Assumptions C06_arcs_over_a_condensation_antichain_share_no_walk.

Theorem C06_sequences_over_a_condensation_antichain_are_incompatible :
  forall (V : list node) (E : list PathEnc.edge) (C : Reach.cond) (s t : node) (B : list PathEnc.edge) (e1 e2 : edge) (q1 q2 : list edge),
  Reach.cond_ok V E C = true ->
  let cm := Reach.c_map C in
  condensation_antichain E cm (Reach.c_topo C) (Reach.c_edges C) B -> In e1 E -> In e2 E -> In (hmap E cm e1) B -> In (hmap E cm e2) B ->
  (hmap E cm e1 <> hmap E cm e2 \/ (e1 <> e2 /\ hmap E cm e1 = hmap E cm e2 /\ cm (fst e1) <> cm (snd e1))) ->
  In e1 q1 -> In e2 q2 -> Safety.incompatible E s t q1 q2.
Proof. exact sequences_over_a_condensation_antichain_are_incompatible_checked. Qed.
Print Assumptions C06_sequences_over_a_condensation_antichain_are_incompatible.

(* why at most one selected sequence passes a given arc when the multiplicity of its condensation arc lets several through: an arc that has a
   parallel arc between the same two components lies on EVERY walk of no pair (v, t) with a walk at all -- it dominates nothing -- so it
   occurs in no dominator chain but its own (C06_dominator_sequence_is_the_dominator_chain); with multiplicity 1 the code keeps one sequence *)
From FP Require DomSpec.
Theorem C06_an_arc_with_a_parallel_arc_dominates_nothing :
  forall (E : list PathEnc.edge) (cm : node -> N),
  (forall u v, In u (nodes_of E) -> In v (nodes_of E) -> (cm u = cm v <-> conn E u v /\ conn E v u)) ->
  forall (e e' : edge) (v t : node),
  In e E -> In e' E -> e <> e' -> cm (fst e) = cm (fst e') -> cm (snd e) = cm (snd e') -> cm (fst e) <> cm (snd e) ->
  (exists w, Safety.st_walk E v t w) -> ~ DomSpec.dominates_to E v t e.
Proof. exact parallel_arc_dominates_nothing. Qed.
Print Assumptions C06_an_arc_with_a_parallel_arc_dominates_nothing.

(* C (zero fixing).  The rule of _apply_safety_optimizations_fix_zero_edges as the code states it (WalkEncRows.zero_edges: an arc (u,v)
   is forbidden for the slot of the sequence W unless it is in W, or u is reachable from the last node of W, or v reaches the first
   node of W, or for two consecutive arcs of W u is reachable from the head of the first and v reaches the tail of the second):
   a forbidden arc lies on no walk of the graph that contains W in order *)
Theorem C06_forbidden_edges_are_unreachable_around_the_sequence :
  forall (G : stgraph) (sq : list edge) (e : edge) (x y : node) (W : list edge),
  wf_stg G -> incl sq (g_edges G) -> In e (zero_edges G sq) ->
  SafetyReach.chain x W y -> incl W (g_edges G) -> subseq sq W -> ~ In e W.
Proof. exact zero_edges_are_forbidden. Qed.
Print Assumptions C06_forbidden_edges_are_unreachable_around_the_sequence.

Theorem C06_zero_fixed_edges_are_forbidden : forall (G : stgraph) (s t : node) (sq : list edge) (e : edge),
  wf_stg G -> incl sq (g_edges G) -> In e (zero_edges G sq) -> Safety.forbidden (g_edges G) s t sq e.
Proof. exact zero_edges_forbidden_in_the_sense_of_Safety. Qed.
Print Assumptions C06_zero_fixed_edges_are_forbidden.

(* non-vacuity, one per part *)
Example C06_slots_nonvacuous_dag : Safety.incompatible MinFlowCut.dmE 0%N 5%N [(0, 1); (1, 2); (2, 4)]%N [(1, 3); (3, 4)]%N.
Proof. exact slots_dag. Qed.
Print Assumptions C06_slots_nonvacuous_dag.

Example C06_slots_nonvacuous_cyclic : Safety.incompatible slE 0%N 4%N [(0, 1); (1, 3)]%N [(2, 3); (3, 4)]%N.
Proof. exact slots_cyclic. Qed.
Print Assumptions C06_slots_nonvacuous_cyclic.

Example C06_zero_fixing_nonvacuous :
  wf_stg zfG /\ zero_edges zfG [(1, 2)%N] = [(1, 3); (3, 4)]%N /\ Safety.forbidden (g_edges zfG) 0%N 5%N [(1, 2)%N] (1, 3)%N.
Proof. exact zero_fixing_on_the_diamond. Qed.
Print Assumptions C06_zero_fixing_nonvacuous.

(* ---- the code's SELECTION of the slot sequences (SlotSelect.v: stDiGraph.get_longest_incompatible_sequences).  Every safe sequence is
   attached to the arcs of the expanded condensation its arcs lie over; per member: sorted by length (stable, longest first), truncated to
   the number of arcs between the two components -- to ONE for the arc of a component; the sequences of the members of the antichain the
   maximum-weight-antichain oracle returns are output in order (None = the code raises on a repeated sequence).  For the dominator
   sequences of pairwise different core arcs and an oracle answer that is an antichain of the expanded condensation, any two sequences
   at different positions of the output are incompatible: sentence 2 of C06 for the code's selection.  Tied by E3_slot_selection (order
   included), which also checks per instance that the oracle's answer passes MinFlowCut's premise check. *)
From FP Require Import SlotSelect.
From FP Require DomAlg WalkWidth.
Theorem C06_selected_sequences_are_pairwise_incompatible :
  forall (E : list PathEnc.edge) (s t : node) (cm : node -> N) (cn : list N) (cE : list (N * N)) (seqs : list (list PathEnc.edge)),
  (forall u v, In u (nodes_of E) -> In v (nodes_of E) -> (cm u = cm v <-> conn E u v /\ conn E v u)) ->
  (forall u v, In (u, v) E -> cm u <> cm v -> In (cm u, cm v) cE) ->
  (forall e, In e E -> In (cm (fst e)) cn /\ In (cm (snd e)) cn) ->
  NoDup E ->
  forall cores : list PathEnc.edge, seqs = map (DomAlg.dom_sequence E s t) cores -> NoDup cores -> incl cores E ->
  (forall e, In e E -> (exists w, Safety.st_walk E s (fst e) w) /\ (exists w, Safety.st_walk E (snd e) t w)) ->
  forall B : list PathEnc.edge, condensation_antichain E cm cn cE B ->
  forall out, select E cm seqs B = Some out ->
  forall p q, (p < length out)%nat -> (q < length out)%nat -> p <> q -> Safety.incompatible E s t (nth p out []) (nth q out []).
Proof. exact selected_sequences_pairwise_incompatible. Qed.
Print Assumptions C06_selected_sequences_are_pairwise_incompatible.

(* with the oracle's answer taken from a minimum flow that passes the extracted premise check of MinFlowCut on the s-t wrapper of the
   expanded condensation *)
Theorem C06_selected_sequences_are_pairwise_incompatible_checked :
  forall (E : list PathEnc.edge) (s t : node) (cm : node -> N) (cn : list N) (cE : list (N * N)) (cores : list PathEnc.edge)
         (VH : list node) (EH : list PathEnc.edge) (sH tH : node) (wl fl : list (PathEnc.edge * QArith_base.Q)) out,
  (forall u v, In u (nodes_of E) -> In v (nodes_of E) -> (cm u = cm v <-> conn E u v /\ conn E v u)) ->
  (forall u v, In (u, v) E -> cm u <> cm v -> In (cm u, cm v) cE) ->
  (forall e, In e E -> In (cm (fst e)) cn /\ In (cm (snd e)) cn) ->
  NoDup E -> NoDup cores -> incl cores E ->
  (forall e, In e E -> (exists w, Safety.st_walk E s (fst e) w) /\ (exists w, Safety.st_walk E (snd e) t w)) ->
  incl (WalkWidth.hedges E cm cn cE) EH -> MinFlowCut.mincut_premises VH EH sH tH wl fl = true ->
  select E cm (map (DomAlg.dom_sequence E s t) cores) (snd (MinFlowCut.mincut_model VH EH sH wl fl)) = Some out ->
  forall p q, (p < length out)%nat -> (q < length out)%nat -> p <> q -> Safety.incompatible E s t (nth p out []) (nth q out []).
Proof. exact selected_sequences_pairwise_incompatible_checked. Qed.
Print Assumptions C06_selected_sequences_are_pairwise_incompatible_checked.

(* every selected sequence is one of the dominator sequences, hence safe *)
Theorem C06_selected_sequences_are_safe :
  forall (E : list PathEnc.edge) (s t : node) (cm : node -> N) (seqs : list (list PathEnc.edge)) (cores : list PathEnc.edge),
  seqs = map (DomAlg.dom_sequence E s t) cores -> incl cores E ->
  (forall e, In e E -> (exists w, Safety.st_walk E s (fst e) w) /\ (exists w, Safety.st_walk E (snd e) t w)) ->
  forall (B X : list PathEnc.edge) out, select E cm seqs B = Some out -> incl cores X ->
  forall q, In q out -> q <> [] -> Safety.safe_for_edges E s t X q.
Proof. exact selected_sequences_are_safe. Qed.
Print Assumptions C06_selected_sequences_are_safe.

(* non-vacuity: the truncation (the arc (0,1) of the diamond is the only arc between its components and lies on both dominator sequences:
   over its member ONE sequence is kept) and the parallel pair (the arcs (1,3) and (2,3) leave the 2-cycle towards 3 over one member of
   multiplicity 2: both sequences are kept, longest first) *)
Example C06_selection_truncates_to_the_multiplicity :
  let sq := map (DomAlg.dom_sequence MinFlowCut.dmE 0%N 5%N) [(1, 2); (1, 3)]%N in
  select_model MinFlowCut.dmE idmap6 sq [WalkWidth.hmap MinFlowCut.dmE (Reach.map_of idmap6 0%N) (0, 1)%N] = Some [nth 0 sq []] /\
  select_model MinFlowCut.dmE idmap6 sq [WalkWidth.hmap MinFlowCut.dmE (Reach.map_of idmap6 0%N) (1, 2)%N;
                                         WalkWidth.hmap MinFlowCut.dmE (Reach.map_of idmap6 0%N) (1, 3)%N] = Some sq.
Proof. exact select_truncates. Qed.
Print Assumptions C06_selection_truncates_to_the_multiplicity.

Example C06_selection_keeps_parallel_arcs :
  let sq := map (DomAlg.dom_sequence slE 0%N 4%N) [(1, 3); (2, 3)]%N in
  select_model slE [(0, 0); (1, 1); (2, 1); (3, 2); (4, 3)]%N sq [WalkWidth.hmap slE (Reach.c_map slC) (1, 3)%N] =
  Some [[(0, 1); (1, 2); (2, 3); (3, 4)]; [(0, 1); (1, 3); (3, 4)]]%N.
Proof. exact select_keeps_parallel_arcs. Qed.
Print Assumptions C06_selection_keeps_parallel_arcs.

(* ---- audit (second half): ALL hypotheses of C06_selected_sequences_are_pairwise_incompatible hold together on a graph WITH a cycle
   (slE: 0 -> 1 <-> 2, both 1 and 2 -> 3 -> 4), derived from the verified condensation checker, and the selection there has two
   members (the parallel arcs (1,3), (2,3) over one condensation arc of multiplicity 2), so the conclusion is about a real pair ---- *)
From FP Require ReachProofs2 SafetyProofs1 SafetyProofs2.
Example C06_selection_hypotheses_hold_on_the_cycle_graph :
  let cm := Reach.c_map slC in let cn := Reach.c_topo slC in let cE := Reach.c_edges slC in
  let cores := [(1, 3); (2, 3)]%N in let seqs := map (DomAlg.dom_sequence slE 0%N 4%N) cores in
  let B := [WalkWidth.hmap slE cm (1, 3)%N] in
  (forall u v, In u (nodes_of slE) -> In v (nodes_of slE) -> (cm u = cm v <-> conn slE u v /\ conn slE v u)) /\
  (forall u v, In (u, v) slE -> cm u <> cm v -> In (cm u, cm v) cE) /\
  (forall e, In e slE -> In (cm (fst e)) cn /\ In (cm (snd e)) cn) /\
  NoDup slE /\ NoDup cores /\ incl cores slE /\
  (forall e, In e slE -> (exists w, Safety.st_walk slE 0%N (fst e) w) /\ (exists w, Safety.st_walk slE (snd e) 4%N w)) /\
  condensation_antichain slE cm cn cE B /\
  select slE cm seqs B = Some [[(0, 1); (1, 2); (2, 3); (3, 4)]; [(0, 1); (1, 3); (3, 4)]]%N /\
  Safety.incompatible slE 0%N 4%N [(0, 1); (1, 2); (2, 3); (3, 4)]%N [(0, 1); (1, 3); (3, 4)]%N.
Proof.
  intros cm cn cE cores seqs B.
  assert (Hok : Reach.cond_ok slV slE slC = true) by (vm_compute; reflexivity).
  pose proof (ReachProofs2.cond_ok_spec slV slE slC Hok) as S.
  assert (HV : forall e, In e slE -> In (fst e) slV /\ In (snd e) slV) by (intros [u v] He; exact (ReachProofs2.cs_edgesV slV slE slC S u v He)).
  assert (HN : forall u, In u (nodes_of slE) -> In u slV).
  { intros u Hu. unfold nodes_of in Hu. rewrite nodup_In in Hu. apply in_app_or in Hu.
    destruct Hu as [Hu|Hu]; apply in_map_iff in Hu; destruct Hu as (e & <- & He); apply (HV e He). }
  assert (H1 : forall u v, In u (nodes_of slE) -> In v (nodes_of slE) -> (cm u = cm v <-> conn slE u v /\ conn slE v u)).
  { intros u v Hu Hv. unfold cm. rewrite (ReachProofs2.cs_scc slV slE slC S u v (HN u Hu) (HN v Hv)). rewrite <- !conn_reach. tauto. }
  assert (H2 : forall u v, In (u, v) slE -> cm u <> cm v -> In (cm u, cm v) cE) by (intros u v He Hne; exact (ReachProofs2.cs_edge_fwd slV slE slC S u v He Hne)).
  assert (H3 : forall e, In e slE -> In (cm (fst e)) cn /\ In (cm (snd e)) cn).
  { intros e He. destruct (HV e He) as [Ha Hb]. split; apply (ReachProofs2.cs_topo_all slV slE slC S); assumption. }
  assert (H4 : NoDup slE) by (apply ReachProofs1.nodupE_NoDup; vm_compute; reflexivity).
  assert (H5 : NoDup cores) by (repeat constructor; cbn; intuition discriminate).
  assert (H6 : incl cores slE) by (intros e [<-|[<-|[]]]; cbn; tauto).
  assert (H7 : forall e, In e slE -> (exists w, Safety.st_walk slE 0%N (fst e) w) /\ (exists w, Safety.st_walk slE (snd e) 4%N w)).
  { intros e He. cbn in He. repeat (destruct He as [<-|He]; [split; apply SafetyProofs2.reachb_correct; vm_compute; reflexivity|]). destruct He. }
  assert (H8 : condensation_antichain slE cm cn cE B) by (intros b1 b2 p [<-|[]] [<-|[]] Hne; contradiction).
  assert (H9 : select slE cm seqs B = Some [[(0, 1); (1, 2); (2, 3); (3, 4)]; [(0, 1); (1, 3); (3, 4)]]%N) by (vm_compute; reflexivity).
  repeat (split; [assumption|]).
  exact (C06_selected_sequences_are_pairwise_incompatible slE 0%N 4%N cm cn cE seqs H1 H2 H3 H4 cores eq_refl H5 H6 H7 B H8 _ H9 0%nat 1%nat
           ltac:(cbn; lia) ltac:(cbn; lia) ltac:(discriminate)).
Qed.
Print Assumptions C06_selection_hypotheses_hold_on_the_cycle_graph.

(* ---- audit (second half): part B with TWO different members of an antichain of the expanded condensation, on a graph with a cycle:
   0 -> 1 <-> 2, 1 -> 3 -> 5 and the by-pass 0 -> 4 -> 5.  The members over (1,3) and over (0,4) are unordered in the expanded
   condensation (decided with the verified closure), so sequences through them are incompatible. ---- *)
Example C06_two_members_of_a_condensation_antichain_on_a_cycle_graph :
  let cm := Reach.c_map brC in
  let B := [WalkWidth.hmap brE cm (1, 3)%N; WalkWidth.hmap brE cm (0, 4)%N] in
  Reach.cond_ok brV brE brC = true /\ WalkWidth.hmap brE cm (1, 3)%N <> WalkWidth.hmap brE cm (0, 4)%N /\
  condensation_antichain brE cm (Reach.c_topo brC) (Reach.c_edges brC) B /\
  Safety.incompatible brE 0%N 5%N [(0, 1); (1, 3)]%N [(0, 4); (4, 5)]%N.
Proof.
  intros cm B.
  assert (Hok : Reach.cond_ok brV brE brC = true) by (vm_compute; reflexivity).
  assert (Hne : WalkWidth.hmap brE cm (1, 3)%N <> WalkWidth.hmap brE cm (0, 4)%N) by (vm_compute; discriminate).
  assert (HB : condensation_antichain brE cm (Reach.c_topo brC) (Reach.c_edges brC) B).
  { apply (SlotSelect.unordered_in_wrapper_is_condensation_antichain brE cm (Reach.c_topo brC) (Reach.c_edges brC)
             (WalkWidth.hedges brE cm (Reach.c_topo brC) (Reach.c_edges brC))); [intros x Hx; exact Hx|].
    intros b1 b2 [<-|[<-|[]]] [<-|[<-|[]]]; apply SlotSelect.not_conn_by_closure; vm_compute; tauto. }
  split; [exact Hok|]. split; [exact Hne|]. split; [exact HB|].
  apply (C06_sequences_over_a_condensation_antichain_are_incompatible brV brE brC 0%N 5%N B (1, 3)%N (0, 4)%N _ _ Hok HB).
  - cbn; tauto.
  - cbn; tauto.
  - left. reflexivity.
  - right. left. reflexivity.
  - left. exact Hne.
  - right. left. reflexivity.
  - left. reflexivity.
Qed.
Print Assumptions C06_two_members_of_a_condensation_antichain_on_a_cycle_graph.
