(* C10 (cyclic classes) — subset constraints behave as documented.
   Only property theorems (closed by [exact]) and their assumptions.  Models: WalkEncRows.v (encode_kfdc), WalkEnc.v
   (encode_kpcc); characterisations: WalkEncIff.v, WalkCoverIff.v; WalkConstraints.v. *)
From Coq Require Import List NArith ZArith QArith Bool Arith Lia.
Import ListNotations.
From FP Require Import Lin Blocks BlocksProofs PathEnc PathEncProofs WalkEnc WalkEncRows WalkEncRowsProofs WalkEncComplete WalkEncIff WalkCoverIff
                       WalkConstraints.
Local Close Scope Q_scope.

(* in EVERY satisfying assignment of kFlowDecompCycles' LP each subset constraint (the caller's and the appended safe
   sequences) has at least length*coverage of its distinct edges used by ONE decoded walk *)
Theorem C10_subset_constraint_realised_in_one_walk : forall (I : kfdc_inst) (a : var -> Q),
  wf_stg (c_graph I) -> o_allow_empty (c_opts I) = false -> inputs_ok I -> sat a (encode_kfdc I) ->
  forall j c, nth_error (all_cons (kfdc_walk I)) j = Some c ->
    exists i, In i (layers (c_k I)) /\
      (qnat (length (nodup_e c)) * c_cov I <= sumq (usedq (Pof I a) i) (nodup_e c))%Q.
Proof. exact subset_constraints_realised_fd. Qed.
Print Assumptions C10_subset_constraint_realised_in_one_walk.

Theorem C10_subset_constraint_realised_in_one_cover_walk : forall (I : kpcc_inst) (a : var -> Q),
  wf_stg (pc_graph I) -> o_allow_empty (pc_opts I) = false -> winputs_ok (kpcc_walk I) -> sat a (encode_kpcc I) ->
  wrealises_constraints (kpcc_walk I) (Pofw (kpcc_walk I) a).
Proof. exact subset_constraints_realised_cover. Qed.
Print Assumptions C10_subset_constraint_realised_in_one_cover_walk.

(* ... and the rows cut off nothing else: the LP is feasible exactly when an admissible family (explaining the flow /
   covering the edges within the caps of the model, respecting the fixing) that realises the constraints exists, so the
   optimum is the optimum over exactly the constraint-satisfying solutions *)
Theorem C10_subset_constraint_rows_cut_off_nothing : forall (I : kfdc_inst),
  wf_stg (c_graph I) -> o_allow_empty (c_opts I) = false -> inputs_ok I ->
  ((exists a, sat a (encode_kfdc I)) <-> (exists P wt, admissible I P wt)).
Proof. exact kfdc_feasible_iff_within_caps. Qed.
Print Assumptions C10_subset_constraint_rows_cut_off_nothing.

Theorem C10_subset_constraint_rows_cut_off_no_cover : forall (I : kpcc_inst),
  wf_stg (pc_graph I) -> o_allow_empty (pc_opts I) = false -> winputs_ok (kpcc_walk I) ->
  ((exists a, sat a (encode_kpcc I)) <-> (exists P, cover_admissible I P)).
Proof. exact kpcc_feasible_iff_within_caps. Qed.
Print Assumptions C10_subset_constraint_rows_cut_off_no_cover.

(* the indicator the constraint rows count: an edge counts once however often the walk traverses it *)
Theorem C10_used_indicator : forall (P : N -> list node) (i : N) (e : PathEnc.edge),
  (usedq P i e == 1)%Q /\ (0 < mult P i e)%Z \/ (usedq P i e == 0)%Q /\ (mult P i e <= 0)%Z.
Proof. exact usedq_is_indicator. Qed.
Print Assumptions C10_used_indicator.

(* ---- audit: the file had no instance.  ALL hypotheses of C10_subset_constraint_realised_in_one_walk hold together on a digraph with a
   cycle and a NON-EMPTY list of subset constraints (self-loop graph, constraint {x -> x}, k = 1; the satisfying assignment is checked by
   the verified LP checker), the conclusion is about that constraint, and the feasibility characterisation applies to the instance ---- *)
From FP Require Import WalkExamples AuditExamples20.
Example C10_walk_all_premises_hold :
  wf_stg (c_graph loop_cons_inst) /\ o_allow_empty (c_opts loop_cons_inst) = false /\ inputs_ok loop_cons_inst /\
  sat loop_cons_sol (encode_kfdc loop_cons_inst) /\ nth_error (all_cons (kfdc_walk loop_cons_inst)) 0 = Some [(0, 0)%N] /\
  (exists i, In i (layers (c_k loop_cons_inst)) /\
     (qnat (length (nodup_e [(0, 0)%N])) * c_cov loop_cons_inst <= sumq (usedq (Pof loop_cons_inst loop_cons_sol) i) (nodup_e [(0, 0)%N]))%Q) /\
  (exists P wt, admissible loop_cons_inst P wt).
Proof.
  assert (Hn : nth_error (all_cons (kfdc_walk loop_cons_inst)) 0 = Some [(0, 0)%N]) by (vm_compute; reflexivity).
  split; [exact loopG_wf|]. split; [reflexivity|]. split; [exact loop_cons_inputs_ok|]. split; [exact loop_cons_feasible|]. split; [exact Hn|]. split.
  - exact (C10_subset_constraint_realised_in_one_walk loop_cons_inst loop_cons_sol loopG_wf eq_refl loop_cons_inputs_ok loop_cons_feasible 0%nat _ Hn).
  - apply (C10_subset_constraint_rows_cut_off_nothing loop_cons_inst loopG_wf eq_refl loop_cons_inputs_ok). exists loop_cons_sol. exact loop_cons_feasible.
Qed.
Print Assumptions C10_walk_all_premises_hold.
(* degenerate: without constraints the statement says nothing (no j with nth_error ... = Some c): the instance loop_inst has none *)
Example C10_walk_no_constraints_is_the_empty_statement : all_cons (kfdc_walk (loop_inst 1)) = [].
Proof. vm_compute. reflexivity. Qed.
Print Assumptions C10_walk_no_constraints_is_the_empty_statement.
(* the same for the cover model: all hypotheses of C10_subset_constraint_realised_in_one_cover_walk / ..._cut_off_no_cover with a
   non-empty constraint list on the graph with the cycle *)
Example C10_walk_cover_all_premises_hold :
  wf_stg (pc_graph loop_cons_kpcc) /\ o_allow_empty (pc_opts loop_cons_kpcc) = false /\ winputs_ok (kpcc_walk loop_cons_kpcc) /\
  sat loop_cons_sol (encode_kpcc loop_cons_kpcc) /\ all_cons (kpcc_walk loop_cons_kpcc) = [[(0, 0)%N]] /\
  wrealises_constraints (kpcc_walk loop_cons_kpcc) (Pofw (kpcc_walk loop_cons_kpcc) loop_cons_sol) /\
  (exists P, cover_admissible loop_cons_kpcc P).
Proof.
  split; [exact loopG_wf|]. split; [reflexivity|]. split; [exact loop_cons_kpcc_inputs_ok|]. split; [exact loop_cons_kpcc_feasible|].
  split; [vm_compute; reflexivity|]. split.
  - exact (C10_subset_constraint_realised_in_one_cover_walk loop_cons_kpcc loop_cons_sol loopG_wf eq_refl loop_cons_kpcc_inputs_ok loop_cons_kpcc_feasible).
  - apply (C10_subset_constraint_rows_cut_off_no_cover loop_cons_kpcc loopG_wf eq_refl loop_cons_kpcc_inputs_ok). exists loop_cons_sol. exact loop_cons_kpcc_feasible.
Qed.
Print Assumptions C10_walk_cover_all_premises_hold.
