(* C07 — kLeastAbsErrors for NODE-weighted input, in the caller's terms (NodeErrE2E.v).  Only Theorem / exact / Print Assumptions and
   a non-vacuity Example.  Caller's notions: node_paths V E k Pn (Pn 0 .. Pn (k-1) are source-to-sink paths of the caller's DAG,
   DilworthNode.nroute), node_adm isint k w (non-negative weights of the requested type), nodes_basic V ign sc (the counting nodes:
   not in ign = explicitly ignored / attribute-less, error scaling not 0), node_klae_cost = sum over the counting nodes of
   sc v * | fq v - sum of the weights of the paths through v |.  node_err_inst is the instance node mode hands to the edge model:
   the node expansion (v.0 = 2v, v.1 = 2v+1, tied to NodeExpandedDiGraph by C11 / DilworthNode.expE_is_xrel), node weight and scaling
   on the node edge, connecting edges and ignored nodes' edges in elements_to_ignore. *)
From Coq Require Import List NArith ZArith QArith Bool Arith Lia.
Import ListNotations.
From FP Require Import Lin PathEnc EndToEnd1 ErrEnc ErrEncKlae DilworthNode NodeErrE2E.

(* the non-ignored edges of the expanded instance are exactly the node edges of the counting nodes *)
Theorem C07_node_basic_edges : forall (V : list node) (E : list PathEnc.edge) (s t : node) (fq sc : node -> Q) (ign : list node) (isint : bool) (k : nat),
  ~ In s (expV V) -> ~ In t (expV V) ->
  basic_edges (node_err_inst V E s t fq sc ign isint k) = map nedge (nodes_basic V ign sc).
Proof. exact basic_nedges. Qed.
Print Assumptions C07_node_basic_edges.

(* the error terms agree node-for-edge under the tuple correspondence Pn |-> s :: expand (Pn i) ++ [t] *)
Theorem C07_node_costs_agree : forall (V : list node) (E : list PathEnc.edge) (s t : node) (fq sc : node -> Q) (ign : list node) (isint : bool) (k : nat),
  ~ In s (expV V) -> ~ In t (expV V) ->
  forall Pn w, node_paths V E k Pn ->
  (klae_cost (node_err_inst V E s t fq sc ign isint k) (expP s t Pn) w == node_klae_cost V fq sc ign k Pn w)%Q.
Proof. exact klae_cost_agree. Qed.
Print Assumptions C07_node_costs_agree.

(* the objective of an optimal satisfying assignment of the expanded instance's model = the minimum over all k paths of the
   CALLER's graph and admissible weights of the node cost *)
Theorem C07_node_klae_optimal : forall (V : list node) (E : list PathEnc.edge) (s t : node) (topo : list node) (fq sc : node -> Q)
    (ign : list node) (isint : bool) (k : nat),
  ~ In s (expV V) -> ~ In t (expV V) -> s <> t -> (forall e, In e E -> In (fst e) V /\ In (snd e) V) -> NoDup V -> NoDup E ->
  (forall u v, In (u, v) E -> (posn topo u < posn topo v)%nat) -> incl V topo ->
  forall a : var -> Q, node_domain V fq sc ign isint k ->
  let I := node_err_inst V E s t fq sc ign isint k in
  sat a (encode_klae I) -> (forall b, sat b (encode_klae I) -> (objective a (encode_klae I) <= objective b (encode_klae I))%Q) ->
  (exists Pn w, node_paths V E k Pn /\ node_adm isint k w /\ (node_klae_cost V fq sc ign k Pn w == objective a (encode_klae I))%Q) /\
  (forall Pn w, node_paths V E k Pn -> node_adm isint k w -> (objective a (encode_klae I) <= node_klae_cost V fq sc ign k Pn w)%Q).
Proof. exact node_klae_optimal. Qed.
Print Assumptions C07_node_klae_optimal.

(* the model is satisfiable whenever the caller's graph has k source-to-sink paths *)
Theorem C07_node_klae_satisfiable : forall (V : list node) (E : list PathEnc.edge) (s t : node) (topo : list node) (fq sc : node -> Q)
    (ign : list node) (isint : bool) (k : nat),
  ~ In s (expV V) -> ~ In t (expV V) -> s <> t -> (forall e, In e E -> In (fst e) V /\ In (snd e) V) -> NoDup V -> NoDup E ->
  (forall u v, In (u, v) E -> (posn topo u < posn topo v)%nat) -> incl V topo ->
  forall Pn, node_domain V fq sc ign isint k -> node_paths V E k Pn ->
  exists b, sat b (encode_klae (node_err_inst V E s t fq sc ign isint k)).
Proof. exact node_klae_satisfiable. Qed.
Print Assumptions C07_node_klae_satisfiable.

(* non-vacuity: the path 1 -> 2 with node weights 3, 5 and scaling 1, k = 1 meets every premise about the caller's input; the
   minimum on the right-hand side is 2 (attained by weight 4), not 0 *)
Example C07_node_premises_satisfiable :
  NoDup exV /\ NoDup exE /\ (forall e, In e exE -> In (fst e) exV /\ In (snd e) exV) /\
  (forall u v, In (u, v) exE -> (posn exV u < posn exV v)%nat) /\ incl exV exV /\
  ~ In 100%N (expV exV) /\ ~ In 101%N (expV exV) /\ 100%N <> 101%N /\
  node_domain exV exfq exsc [] false 1 /\ node_paths exV exE 1 exPn /\
  (node_klae_cost exV exfq exsc [] 1 exPn (fun _ => 4) == 2)%Q /\
  (forall Pn w, node_paths exV exE 1 Pn -> (2 <= node_klae_cost exV exfq exsc [] 1 Pn w)%Q).
Proof. exact ex_c07_premises. Qed.
Print Assumptions C07_node_premises_satisfiable.

(* ---------------------------------------------------------------------------------------------------------------------------------- *)
(* WITH additional_starts / additional_ends (NodeErrST.v): node paths may start at a node of S and end at a node of T
   (node_pathsST = DilworthNode.nwalk per index); node_err_instST attaches the global source to v.0 for v in S and v.1 to the global sink
   for v in T.  The cost notion is unchanged.  S = T = [] gives back the statements above (C07_node_paths_without_starts_ends). *)
From FP Require Import NodeFlowST NodeErrST.

Theorem C07_node_klae_optimal_with_starts_ends : forall (V : list node) (E : list PathEnc.edge) (S T : list node) (s t : node) (topo : list node)
    (fq sc : node -> Q) (ign : list node) (isint : bool) (k : nat),
  ~ In s (expV V) -> ~ In t (expV V) -> s <> t -> (forall e, In e E -> In (fst e) V /\ In (snd e) V) -> NoDup V -> NoDup E ->
  (forall u v, In (u, v) E -> (posn topo u < posn topo v)%nat) -> incl V topo ->
  forall a : var -> Q, node_domain V fq sc ign isint k ->
  let I := node_err_instST V E S T s t fq sc ign isint k in
  sat a (encode_klae I) -> (forall b, sat b (encode_klae I) -> (objective a (encode_klae I) <= objective b (encode_klae I))%Q) ->
  (exists Pn w, node_pathsST V E S T k Pn /\ node_adm isint k w /\ (node_klae_cost V fq sc ign k Pn w == objective a (encode_klae I))%Q) /\
  (forall Pn w, node_pathsST V E S T k Pn -> node_adm isint k w -> (objective a (encode_klae I) <= node_klae_cost V fq sc ign k Pn w)%Q).
Proof. exact node_klae_optimalST. Qed.
Print Assumptions C07_node_klae_optimal_with_starts_ends.

Theorem C07_node_paths_without_starts_ends : forall V E k Pn, node_pathsST V E [] [] k Pn <-> node_paths V E k Pn.
Proof. exact node_paths_nil_iff. Qed.
Print Assumptions C07_node_paths_without_starts_ends.

(* non-vacuity: path 1 -> 2 with node weights 3, 5, k = 2: without additional starts every choice costs >= 2; with node 2 as additional
   start the paths 1-2 (weight 3) and 2 (weight 2) have cost 0 *)
Example C07_node_additional_start_lowers_the_optimum :
  node_domain exV exfq exsc [] false 2 /\
  (forall Pn w, node_pathsST exV exE [] [] 2 Pn -> (2 <= node_klae_cost exV exfq exsc [] 2 Pn w)%Q) /\
  node_pathsST exV exE [2%N] [] 2 exPn2 /\ node_adm false 2 exw2 /\ (node_klae_cost exV exfq exsc [] 2 exPn2 exw2 == 0)%Q.
Proof. exact ex_c07_st. Qed.
Print Assumptions C07_node_additional_start_lowers_the_optimum.

(* ---- audit additions (agent-c19): instances of the hypotheses the Example above does not reach ---- *)
From Coq Require Import Lqa.
From FP Require ErrEncProofs ErrEncProofs2 ErrEncComplete ErrEncOptimal.

(* (a) the SOLVER hypotheses of C07_node_klae_optimal -- `sat a` and optimality of a -- hold for an explicit assignment on the chain
   1 -> 2 (weights 3, 5; k = 1): the assignment of the completeness proof for the path 100,2,3,4,5,101 of the expansion with weight 4;
   its objective is 2.  Optimality: a satisfying assignment decodes to a path whose errors its error variables dominate
   (klae_decodes), the path contracts to one of the caller's graph, and every such choice costs >= 2 (Example above). *)
Definition C07_node_wit_a : var -> Q :=
  klae_asg (node_err_inst exV exE 100 101 exfq exsc [] false 1) (expP 100 101 exPn) (fun _ => 4%Q) (fun _ => 0%N).

Example C07_node_solver_hypotheses_satisfiable :
  let I := node_err_inst exV exE 100 101 exfq exsc [] false 1 in
  sat C07_node_wit_a (encode_klae I) /\ (objective C07_node_wit_a (encode_klae I) == 2)%Q /\
  (forall b, sat b (encode_klae I) -> (objective C07_node_wit_a (encode_klae I) <= objective b (encode_klae I))%Q).
Proof.
  cbn zeta. set (I := node_err_inst exV exE 100 101 exfq exsc [] false 1).
  destruct C07_node_premises_satisfiable as (NDV & NDE & HE & Htopo & Hincl & Hs & Ht & Hst & Hdom & _ & _ & Hmin).
  assert (E2 : (objective C07_node_wit_a (encode_klae I) == 2)%Q) by (vm_compute; reflexivity).
  split; [apply ErrEncProofs2.sat_b_sound; vm_compute; reflexivity|]. split; [exact E2|].
  intros b Hb. rewrite E2.
  pose proof (wf_I exV exE 100 101 exfq exsc [] false 1 Hs Ht Hst HE NDV NDE) as WF.
  pose proof (klae_side_I exV exE 100 101 exfq exsc [] false 1 Hs Ht Hdom) as (Hcons & Hfs & _ & _).
  destruct (klae_decodes I b (st_rank 100 101 (exp_topo exV)) (S (S (length (exp_topo exV)))) eq_refl WF eq_refl
              (st_rank_increasing (expV exV) (expE exV exE) 100 101 Hs Ht Hst (expE_ends exV exE HE) (exp_topo exV)
                 (exp_topo_increasing exV exE exV Hincl Htopo))
              (fun v => st_rank_le 100 101 Hst (exp_topo exV) v)
              (fun c e (Hc : In c (p_cons (e_base I))) => match Hc with end) Hb) as (HP & _ & Hd & _).
  set (P := ErrEncOptimal.dec_path (eG I) b (S (S (length (exp_topo exV))))) in *. set (w := fun i => b (W i)) in *.
  destruct (st_paths_contract exV exE 100 101 exfq exsc [] false 1 Hs Ht Hst HE P HP) as [HPn Heq].
  apply (Qle_trans _ (klae_cost I P w)).
  - pose proof (klae_cost_ext exV exE 100 101 exfq exsc [] false 1 P (expP 100 101 (conP P)) w Heq) as X.
    pose proof (klae_cost_agree exV exE 100 101 exfq exsc [] false 1 Hs Ht (conP P) w HPn) as Y.
    pose proof (Hmin (conP P) w HPn) as Z. fold I in X, Y. lra.
  - rewrite (ErrEncProofs.klae_objective_value I b). unfold klae_cost. apply ErrEncComplete.sumq_le_mono. intros e He.
    fold I in Hfs. destruct (Hfs e He) as (_ & S0 & _). destruct (Hd e He) as [D1 _].
    assert (H2 : (0 <= scale_of I e * (b (Err (fst e) (snd e)) - klae_err I P w e))%Q) by (apply Qmult_le_0_compat; lra). lra.
Qed.
Print Assumptions C07_node_solver_hypotheses_satisfiable.

(* (b) the caller-input premises with an IGNORED node, a node with error scaling 0, weight_type = int and k = 2: chain 1 -> 2 -> 3,
   every node weight 3, node 2 ignored, node 3 with scaling 0 -- node 1 is the only counting node; both paths are 1,2,3; the weights
   3 and 0 explain node 1 exactly (cost 0); by C07_node_klae_satisfiable the model of the expanded instance is satisfiable *)
Definition C07_node_V3 : list node := [1; 2; 3]%N.
Definition C07_node_E3 : list PathEnc.edge := [(1, 2); (2, 3)]%N.
Definition C07_node_sc0 (v : node) : Q := if (v =? 3)%N then 0%Q else 1%Q.
Example C07_node_premises_satisfiable_with_ignored_and_unscaled_nodes :
  nodes_basic C07_node_V3 [2%N] C07_node_sc0 = [1%N] /\
  node_domain C07_node_V3 (fun _ => 3%Q) C07_node_sc0 [2%N] true 2 /\
  node_paths C07_node_V3 C07_node_E3 2 (fun _ => [1; 2; 3]%N) /\
  node_adm true 2 (fun i => if (i =? 0)%N then 3%Q else 0%Q) /\
  (node_klae_cost C07_node_V3 (fun _ => 3%Q) C07_node_sc0 [2%N] 2 (fun _ => [1; 2; 3]%N) (fun i => if (i =? 0)%N then 3%Q else 0%Q) == 0)%Q /\
  (exists b, sat b (encode_klae (node_err_inst C07_node_V3 C07_node_E3 100 101 (fun _ => 3%Q) C07_node_sc0 [2%N] true 2))).
Proof.
  assert (HD : node_domain C07_node_V3 (fun _ => 3%Q) C07_node_sc0 [2%N] true 2).
  { split; [|split; [discriminate|lia]]. intros v Hv. cbn in Hv. destruct Hv as [<-|[]]. cbn.
    split; [discriminate|]. split; [discriminate|]. intros _. exists 3%Z. reflexivity. }
  assert (HP : node_paths C07_node_V3 C07_node_E3 2 (fun _ => [1; 2; 3]%N)).
  { intros i _. split; [discriminate|]. split; [intros x Hx; exact Hx|]. split; [intros e He; exact He|].
    split; intros u Hu; cbn in Hu; destruct Hu as [Eq|[Eq|[]]]; discriminate Eq. }
  split; [reflexivity|]. split; [exact HD|]. split; [exact HP|].
  split; [intros i _; destruct (i =? 0)%N; (split; [discriminate|intros _; eexists; reflexivity])|].
  split; [vm_compute; reflexivity|].
  apply (C07_node_klae_satisfiable C07_node_V3 C07_node_E3 100 101 C07_node_V3 (fun _ => 3%Q) C07_node_sc0 [2%N] true 2) with (Pn := fun _ => [1; 2; 3]%N);
    try exact HD; try exact HP.
  - cbn; intuition discriminate.
  - cbn; intuition discriminate.
  - discriminate.
  - intros e He. cbn in He. destruct He as [<-|[<-|[]]]; cbn; tauto.
  - repeat constructor; cbn; intuition discriminate.
  - repeat constructor; cbn; intuition discriminate.
  - intros u v Huv. cbn in Huv. destruct Huv as [Eq|[Eq|[]]]; injection Eq as <- <-; cbn; lia.
  - apply incl_refl.
Qed.
Print Assumptions C07_node_premises_satisfiable_with_ignored_and_unscaled_nodes.

(* ---------------------------------------------------------------------------------------------------------------------------------- *)
(* The CYCLIC class in node mode (kLeastAbsErrorsCycles, flow_attr_origin = 'node'), in the caller's terms (NodeWalkErrE2E.v): the k walks
   are walks of the caller's graph (DilworthNode.nwalk, additional starts S / ends T included), a walk may visit a node several times and
   every visit counts: the error term at a counting node v is scale(v) * |weight(v) - sum_i w_i * visits_i(v)|.  Relative to the solver
   specification and WITHIN THE CAPS of the encoder (node_klaec_adm = the model's cap predicate on the expanded tuple, spelled out in
   visits / traversals by C07_node_cyclic_caps_reading): the objective of an optimal satisfying assignment of the node-expanded
   instance's model is the least total error over all such weighted node walks. *)
From FP Require Import WalkEncRows WalkErrEnc NodeWalkE2E NodeWalkErrE2E.
Theorem C07_node_cyclic_optimal_within_caps :
  forall (V : list node) (E : list PathEnc.edge) (S T : list node) (s t : node) (Wn : list node) (fq sc : node -> Q) (ign : list node)
         (isint : bool),
  ~ In s (expV V) -> ~ In t (expV V) -> s <> t -> (forall e, In e E -> In (fst e) V /\ In (snd e) V) -> NoDup V -> NoDup E ->
  (forall v, In v V -> ~ In v ign -> In v Wn) ->
  forall (k : nat) (a : var -> Q),
  (forall v, In v V -> (0 <= sc v)%Q) -> (isint = true -> forall v, In v (NodeErrE2E.nodes_basic V ign sc) -> is_int (fq v)) ->
  sat a (encode_klae_cycles (node_werr_inst V E S T s t Wn fq sc ign isint k)) ->
  (forall b, sat b (encode_klae_cycles (node_werr_inst V E S T s t Wn fq sc ign isint k)) ->
     (objective a (encode_klae_cycles (node_werr_inst V E S T s t Wn fq sc ign isint k)) <=
      objective b (encode_klae_cycles (node_werr_inst V E S T s t Wn fq sc ign isint k)))%Q) ->
  (exists Pn w, node_walks V E S T k Pn /\ node_klaec_adm V E S T s t Wn fq sc ign isint k Pn w /\
                (node_klaec_cost V fq sc ign k Pn w == objective a (encode_klae_cycles (node_werr_inst V E S T s t Wn fq sc ign isint k)))%Q) /\
  (forall Pn w, node_walks V E S T k Pn -> node_klaec_adm V E S T s t Wn fq sc ign isint k Pn w ->
                (objective a (encode_klae_cycles (node_werr_inst V E S T s t Wn fq sc ign isint k)) <= node_klaec_cost V fq sc ign k Pn w)%Q).
Proof. exact node_klaec_optimal. Qed.
Print Assumptions C07_node_cyclic_optimal_within_caps.

(* the cost is what the text says: the sum over the counting nodes of scale * |weight - sum of weight_i * visits_i| *)
Theorem C07_node_cyclic_cost_unfolded :
  forall (V : list node) (fq sc : node -> Q) (ign : list node) (k : nat) (Pn : N -> list node) (w : N -> Q),
  node_klaec_cost V fq sc ign k Pn w =
  sumq (fun v => (sc v * Qabs.Qabs (fq v - sumq (fun i => (w i * inject_Z (visits v (Pn i)))%Q) (layers k)))%Q) (NodeErrE2E.nodes_basic V ign sc).
Proof. exact node_klaec_cost_unfolded. Qed.
Print Assumptions C07_node_cyclic_cost_unfolded.

(* what "within the caps" says about the caller's walks: weights in [0, w_max] of the requested type, visits of v at most the cap of v's
   node edge, traversals of (u,v) at most the cap of the connecting edge, weight * visits <= w_max, deviation <= w_max *)
Theorem C07_node_cyclic_caps_reading :
  forall (V : list node) (E : list PathEnc.edge) (S T : list node) (s t : node) (Wn : list node) (fq sc : node -> Q) (ign : list node)
         (isint : bool),
  ~ In s (expV V) -> ~ In t (expV V) -> (forall e, In e E -> In (fst e) V /\ In (snd e) V) ->
  (forall v, In v V -> ~ In v ign -> In v Wn) ->
  forall (k : nat) (Pn : N -> list node) (w : N -> Q),
  node_walks V E S T k Pn -> node_klaec_adm V E S T s t Wn fq sc ign isint k Pn w ->
  (forall i, In i (layers k) -> (0 <= w i <= x_wmax (node_werr_inst V E S T s t Wn fq sc ign isint k))%Q /\ (isint = true -> is_int (w i))) /\
  (forall i v, In i (layers k) -> In v V ->
     (inject_Z (visits v (Pn i)) <= cap (werr_walk (node_werr_inst V E S T s t Wn fq sc ign isint k)) (nedge v))%Q) /\
  (forall i e, In i (layers k) -> In e E ->
     (inject_Z (traversals e (Pn i)) <= cap (werr_walk (node_werr_inst V E S T s t Wn fq sc ign isint k)) (cn e))%Q) /\
  (forall i v, In i (layers k) -> In v (NodeErrE2E.nodes_basic V ign sc) ->
     (w i * inject_Z (visits v (Pn i)) <= x_wmax (node_werr_inst V E S T s t Wn fq sc ign isint k))%Q) /\
  (forall v, In v (NodeErrE2E.nodes_basic V ign sc) ->
     (Qabs.Qabs (fq v - node_wexplains k Pn w v) <= x_wmax (node_werr_inst V E S T s t Wn fq sc ign isint k))%Q).
Proof. exact node_klaec_reading. Qed.
Print Assumptions C07_node_cyclic_caps_reading.

(* non-vacuity with a self-loop and a NON-ZERO optimum: 1 -> 2 -> 3 with a self-loop at 2, node weights 3, 6, 1, one walk: every premise
   about the caller's input holds; the walk 1 2 2 2 3 of weight 2 (three visits of node 2) is within the caps and costs 2; and every
   weighted walk of the graph costs at least 2 (each walk visits 1 and 3 exactly once) *)
Example C07_node_cyclic_self_loop_nonzero_optimum :
  NoDup lxV /\ NoDup lxE /\ (forall e, In e lxE -> In (fst e) lxV /\ In (snd e) lxV) /\
  ~ In 100%N (expV lxV) /\ ~ In 101%N (expV lxV) /\ 100%N <> 101%N /\ (forall v, In v lxV -> ~ In v [] -> In v lxV) /\
  (forall v, In v lxV -> (0 <= wxsc v)%Q) /\
  node_walks lxV lxE [] [] 1 lxPn /\ visits 2%N (lxPn 0%N) = 3%Z /\
  node_klaec_adm lxV lxE [] [] 100%N 101%N lxV wxfq wxsc [] false 1 lxPn lxw /\
  (node_klaec_cost lxV wxfq wxsc [] 1 lxPn lxw == 2)%Q /\
  (forall Pn w, node_walks lxV lxE [] [] 1 Pn -> (2 <= node_klaec_cost lxV wxfq wxsc [] 1 Pn w)%Q).
Proof.
  destruct wx_premises as (A1 & A2 & A3 & A4 & A5 & A6 & A7 & A8 & A9 & A10 & A11 & A12 & A13 & _).
  exact (conj A1 (conj A2 (conj A3 (conj A4 (conj A5 (conj A6 (conj A7 (conj A8 (conj A9 (conj A10 (conj A11 (conj A12 A13)))))))))))).
Qed.
Print Assumptions C07_node_cyclic_self_loop_nonzero_optimum.

(* the SOLVER hypotheses (sat a + optimality of a) of the theorem above are satisfiable on the self-loop instance: an optimal satisfying
   assignment exists and its objective is 2 (non-zero) *)
Example C07_node_cyclic_solver_hypotheses_satisfiable :
  exists a, sat a (encode_klae_cycles (node_werr_inst lxV lxE [] [] 100%N 101%N lxV wxfq wxsc [] false 1)) /\
    (forall b, sat b (encode_klae_cycles (node_werr_inst lxV lxE [] [] 100%N 101%N lxV wxfq wxsc [] false 1)) -> (objective a (encode_klae_cycles (node_werr_inst lxV lxE [] [] 100%N 101%N lxV wxfq wxsc [] false 1)) <= objective b (encode_klae_cycles (node_werr_inst lxV lxE [] [] 100%N 101%N lxV wxfq wxsc [] false 1)))%Q) /\
    (objective a (encode_klae_cycles (node_werr_inst lxV lxE [] [] 100%N 101%N lxV wxfq wxsc [] false 1)) == 2)%Q.
Proof. exact (proj1 wx_solver_hypotheses). Qed.
Print Assumptions C07_node_cyclic_solver_hypotheses_satisfiable.
