(* C07 — kLeastAbsErrors for NODE-weighted input, in the caller's terms (NodeErrE2E.v).  Only Theorem / exact / Print Assumptions and
   a non-vacuity Example.  Caller's notions: node_paths V E k Pn (Pn 0 .. Pn (k-1) are source-to-sink paths of the caller's DAG,
   DilworthNode.nroute), node_adm isint k w (non-negative weights of the requested type), nodes_basic V ign sc (the counting nodes:
   not in ign = explicitly ignored / attribute-less, error scaling not 0), node_klae_cost = sum over the counting nodes of
   sc v * | fq v - sum of the weights of the paths through v |.  node_err_inst is the instance node mode hands to the edge model:
   the node expansion (v.0 = 2v, v.1 = 2v+1, tied to NodeExpandedDiGraph by C11 / DilworthNode.expE_is_xrel), node weight and scaling
   on the node edge, connecting edges and ignored nodes' edges in elements_to_ignore. *)
From Coq Require Import List NArith ZArith QArith Bool Arith Lia.
Import ListNotations.
From FP Require Import Lin PathEnc EndToEnd1 ErrEnc ErrEncKlae DilworthNode NodeErrE2E.

(* the non-ignored edges of the expanded instance are exactly the node edges of the counting nodes *)
Theorem C07_node_basic_edges : forall (V : list node) (E : list PathEnc.edge) (s t : node) (fq sc : node -> Q) (ign : list node) (isint : bool) (k : nat),
  ~ In s (expV V) -> ~ In t (expV V) ->
  basic_edges (node_err_inst V E s t fq sc ign isint k) = map nedge (nodes_basic V ign sc).
Proof. exact basic_nedges. Qed.
Print Assumptions C07_node_basic_edges.

(* the error terms agree node-for-edge under the tuple correspondence Pn |-> s :: expand (Pn i) ++ [t] *)
Theorem C07_node_costs_agree : forall (V : list node) (E : list PathEnc.edge) (s t : node) (fq sc : node -> Q) (ign : list node) (isint : bool) (k : nat),
  ~ In s (expV V) -> ~ In t (expV V) ->
  forall Pn w, node_paths V E k Pn ->
  (klae_cost (node_err_inst V E s t fq sc ign isint k) (expP s t Pn) w == node_klae_cost V fq sc ign k Pn w)%Q.
Proof. exact klae_cost_agree. Qed.
Print Assumptions C07_node_costs_agree.

(* the objective of an optimal satisfying assignment of the expanded instance's model = the minimum over all k paths of the
   CALLER's graph and admissible weights of the node cost *)
Theorem C07_node_klae_optimal : forall (V : list node) (E : list PathEnc.edge) (s t : node) (topo : list node) (fq sc : node -> Q)
    (ign : list node) (isint : bool) (k : nat),
  ~ In s (expV V) -> ~ In t (expV V) -> s <> t -> (forall e, In e E -> In (fst e) V /\ In (snd e) V) -> NoDup V -> NoDup E ->
  (forall u v, In (u, v) E -> (posn topo u < posn topo v)%nat) -> incl V topo ->
  forall a : var -> Q, node_domain V fq sc ign isint k ->
  let I := node_err_inst V E s t fq sc ign isint k in
  sat a (encode_klae I) -> (forall b, sat b (encode_klae I) -> (objective a (encode_klae I) <= objective b (encode_klae I))%Q) ->
  (exists Pn w, node_paths V E k Pn /\ node_adm isint k w /\ (node_klae_cost V fq sc ign k Pn w == objective a (encode_klae I))%Q) /\
  (forall Pn w, node_paths V E k Pn -> node_adm isint k w -> (objective a (encode_klae I) <= node_klae_cost V fq sc ign k Pn w)%Q).
Proof. exact node_klae_optimal. Qed.
Print Assumptions C07_node_klae_optimal.

(* the model is satisfiable whenever the caller's graph has k source-to-sink paths *)
Theorem C07_node_klae_satisfiable : forall (V : list node) (E : list PathEnc.edge) (s t : node) (topo : list node) (fq sc : node -> Q)
    (ign : list node) (isint : bool) (k : nat),
  ~ In s (expV V) -> ~ In t (expV V) -> s <> t -> (forall e, In e E -> In (fst e) V /\ In (snd e) V) -> NoDup V -> NoDup E ->
  (forall u v, In (u, v) E -> (posn topo u < posn topo v)%nat) -> incl V topo ->
  forall Pn, node_domain V fq sc ign isint k -> node_paths V E k Pn ->
  exists b, sat b (encode_klae (node_err_inst V E s t fq sc ign isint k)).
Proof. exact node_klae_satisfiable. Qed.
Print Assumptions C07_node_klae_satisfiable.

(* non-vacuity: the path 1 -> 2 with node weights 3, 5 and scaling 1, k = 1 meets every premise about the caller's input; the
   minimum on the right-hand side is 2 (attained by weight 4), not 0 *)
Example C07_node_premises_satisfiable :
  NoDup exV /\ NoDup exE /\ (forall e, In e exE -> In (fst e) exV /\ In (snd e) exV) /\
  (forall u v, In (u, v) exE -> (posn exV u < posn exV v)%nat) /\ incl exV exV /\
  ~ In 100%N (expV exV) /\ ~ In 101%N (expV exV) /\ 100%N <> 101%N /\
  node_domain exV exfq exsc [] false 1 /\ node_paths exV exE 1 exPn /\
  (node_klae_cost exV exfq exsc [] 1 exPn (fun _ => 4) == 2)%Q /\
  (forall Pn w, node_paths exV exE 1 Pn -> (2 <= node_klae_cost exV exfq exsc [] 1 Pn w)%Q).
Proof. exact ex_c07_premises. Qed.
Print Assumptions C07_node_premises_satisfiable.

(* ---------------------------------------------------------------------------------------------------------------------------------- *)
(* WITH additional_starts / additional_ends (NodeErrST.v): node paths may start at a node of S and end at a node of T
   (node_pathsST = DilworthNode.nwalk per index); node_err_instST attaches the global source to v.0 for v in S and v.1 to the global sink
   for v in T.  The cost notion is unchanged.  S = T = [] gives back the statements above (C07_node_paths_without_starts_ends). *)
From FP Require Import NodeFlowST NodeErrST.

Theorem C07_node_klae_optimal_with_starts_ends : forall (V : list node) (E : list PathEnc.edge) (S T : list node) (s t : node) (topo : list node)
    (fq sc : node -> Q) (ign : list node) (isint : bool) (k : nat),
  ~ In s (expV V) -> ~ In t (expV V) -> s <> t -> (forall e, In e E -> In (fst e) V /\ In (snd e) V) -> NoDup V -> NoDup E ->
  (forall u v, In (u, v) E -> (posn topo u < posn topo v)%nat) -> incl V topo ->
  forall a : var -> Q, node_domain V fq sc ign isint k ->
  let I := node_err_instST V E S T s t fq sc ign isint k in
  sat a (encode_klae I) -> (forall b, sat b (encode_klae I) -> (objective a (encode_klae I) <= objective b (encode_klae I))%Q) ->
  (exists Pn w, node_pathsST V E S T k Pn /\ node_adm isint k w /\ (node_klae_cost V fq sc ign k Pn w == objective a (encode_klae I))%Q) /\
  (forall Pn w, node_pathsST V E S T k Pn -> node_adm isint k w -> (objective a (encode_klae I) <= node_klae_cost V fq sc ign k Pn w)%Q).
Proof. exact node_klae_optimalST. Qed.
Print Assumptions C07_node_klae_optimal_with_starts_ends.

Theorem C07_node_paths_without_starts_ends : forall V E k Pn, node_pathsST V E [] [] k Pn <-> node_paths V E k Pn.
Proof. exact node_paths_nil_iff. Qed.
Print Assumptions C07_node_paths_without_starts_ends.

(* non-vacuity: path 1 -> 2 with node weights 3, 5, k = 2: without additional starts every choice costs >= 2; with node 2 as additional
   start the paths 1-2 (weight 3) and 2 (weight 2) have cost 0 *)
Example C07_node_additional_start_lowers_the_optimum :
  node_domain exV exfq exsc [] false 2 /\
  (forall Pn w, node_pathsST exV exE [] [] 2 Pn -> (2 <= node_klae_cost exV exfq exsc [] 2 Pn w)%Q) /\
  node_pathsST exV exE [2%N] [] 2 exPn2 /\ node_adm false 2 exw2 /\ (node_klae_cost exV exfq exsc [] 2 exPn2 exw2 == 0)%Q.
Proof. exact ex_c07_st. Qed.
Print Assumptions C07_node_additional_start_lowers_the_optimum.
