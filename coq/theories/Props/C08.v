(* C08 — k-Minimum-Path-Error is feasible for k >= width and minimises total slack (DAG model).
   Model: ErrEnc.encode_kmpe = the LP kMinPathError hands to the solver (tied by E1 on every run). *)
From Coq Require Import List NArith ZArith QArith Qabs Bool Arith Lia Permutation.
Import ListNotations.
From FP Require Import Lin Blocks BlocksProofs PathEnc Euler EulerProofs1 EulerProofs4 DagDecode PathEncProofs
                       ErrEnc ErrEncProofs ErrEncProofs2 ErrEncProofs3.
Local Close Scope Q_scope.

(* full statement (not proved as one theorem): the encoding is also COMPLETE, i.e. every choice of k
   source-to-sink paths, weights and slacks satisfying the path-error inequality extends to a
   satisfying assignment with the same sum of slacks — for all option settings.  Proved: soundness
   (all settings without given weights), the feasibility witness for k >= width (no length factors,
   no subpath constraints, premise: a path has at most |V| edges); refuted: feasibility with length
   factors (two open findings). *)
Definition C08_full_statement : Prop :=
  forall (M : kmpe_inst) (x : N -> PathEnc.edge -> Z),
    let I := m_err M in
    e_given I = None -> p_cons (e_base I) = [] -> unit_flows (eG I) (eK I) x ->
    (forall e, In e (basic_edges I) -> exists i, In i (layers (eK I)) /\ x i e = 1%Z) ->
    exists a, sat a (encode_kmpe M).

Theorem C08_kmpe_enc_sound : forall (M : kmpe_inst) (a : var -> Q) (rank : node -> nat) (Rm : nat),
  let I := m_err M in let G := eG I in let k := eK I in
  let E := g_edges G in let s := g_src G in let t := g_snk G in
  wf_graph G -> p_allow_empty (e_base I) = false -> e_given I = None ->
  (forall u v, In (u, v) E -> (rank u < rank v)%nat) -> (forall v, (rank v <= Rm)%nat) ->
  sat a (encode_kmpe M) ->
  (forall i, In i (layers k) ->
     exists p, decode E (xval a i) t (S Rm) s = Some p /\ last p s = t /\
               Permutation (Sup E (xval a i)) (pairs (s :: p)) /\
               (forall e, In e E -> count_e e (pairs (s :: p)) = Z.to_nat (xval a i e))) /\
  (forall i, In i (layers k) -> (0 <= a (W i) <= w_max I)%Q /\ (0 <= a (Slack i) <= w_max I)%Q /\
                                (0 <= a (slack_var M i))%Q) /\
  (forall e, In e (basic_edges I) ->
     (Qabs (scale_of I e * (flow_of I e - sumq (fun i => a (W i) * inject_Z (xval a i e)) (layers k)))
        <= sumq (fun i => a (slack_var M i) * inject_Z (xval a i e)) (layers k))%Q) /\
  (objective a (encode_kmpe M) == sumq (fun i => a (Slack i)) (layers k))%Q.
Proof. exact kmpe_enc_sound. Qed.
Print Assumptions C08_kmpe_enc_sound.

Theorem C08_kmpe_factor_sound : forall (M : kmpe_inst) (a : var -> Q) (i : N),
  sat a (encode_kmpe M) -> e_given (m_err M) = None -> has_factors M = true ->
  (0 <= min_factor M)%Q -> (max_factor M <= sslack_ub M)%Q ->
  In i (layers (eK (m_err M))) ->
  (exists p, In p (m_pieces M) /\ (pL p <= a (Len i) <= pU p)%Q /\ (a (Factor i) == pC p)%Q) /\
  (a (SSlack i) == a (Slack i) * a (Factor i))%Q /\
  (a (Len i) == sumq (fun e => plen M e * a (Edge (fst e) (snd e) i)) (g_edges (eG (m_err M))))%Q.
Proof. exact kmpe_factor_sound. Qed.
Print Assumptions C08_kmpe_factor_sound.

Theorem C08_kmpe_feasible_ge_width_partial : forall (M : kmpe_inst) (x : N -> PathEnc.edge -> Z),
  let I := m_err M in
  e_given I = None -> p_cons (e_base I) = [] -> p_allow_empty (e_base I) = false ->
  m_pieces M = [] -> m_len M = None ->
  unit_flows (eG I) (eK I) x ->
  (forall e, In e (basic_edges I) -> exists i, In i (layers (eK I)) /\ x i e = 1%Z) ->
  (forall i, In i (layers (eK I)) -> (sumq (fun e => inject_Z (x i e)) (g_edges (eG I)) <= inject_Z (Z.of_nat (length (g_nodes (eG I)))))%Q) ->
  (forall e, In e (basic_edges I) -> (0 <= flow_of I e)%Q /\ (0 <= scale_of I e <= 1)%Q) ->
  (0 <= max_flow I <= w_max I)%Q -> (e_int I = true -> is_int (max_flow I)) ->
  let a := kmpe_assign M x (max_flow I) in
  sat a (encode_kmpe M) /\ (forall i, a (W i) = 0%Q) /\ (forall i, a (Slack i) = max_flow I) /\
  (objective a (encode_kmpe M) == inject_Z (Z.of_nat (eK I)) * max_flow I)%Q.
Proof. exact kmpe_feasible_ge_width. Qed.
Print Assumptions C08_kmpe_feasible_ge_width_partial.

(* with path-length factors the full statement is false of the faithful model (open findings) *)
Theorem C08_kmpe_factors_gt1_refuted : exists M,
  wf_graph (eG (m_err M)) /\ eK (m_err M) = 1%nat /\
  (forall e, In e (basic_edges (m_err M)) -> In e (pairs [0; 1; 2; 3; 4]%N)) /\
  forall a, ~ sat a (encode_kmpe M).
Proof. exact kmpe_factors_gt1_refuted. Qed.
Print Assumptions C08_kmpe_factors_gt1_refuted.

Theorem C08_kmpe_factors_lt1_refuted : exists M,
  wf_graph (eG (m_err M)) /\ eK (m_err M) = 1%nat /\
  (forall e, In e (basic_edges (m_err M)) -> In e (pairs [0; 1; 2; 3; 4]%N)) /\
  forall a, ~ sat a (encode_kmpe M).
Proof. exact kmpe_factors_lt1_refuted. Qed.
Print Assumptions C08_kmpe_factors_lt1_refuted.

(* is_valid_solution of the code as it is (since /repo 43fc741: error multiplied by the scaling): every
   satisfying assignment passes the per-edge test, for every tolerance >= 0 *)
Theorem C08_kmpe_is_valid_accepts : forall (M : kmpe_inst) (a : var -> Q) (tol : Q) (e : PathEnc.edge),
  sat a (encode_kmpe M) -> e_given (m_err M) = None -> (0 <= tol)%Q ->
  In e (basic_edges (m_err M)) -> (0 <= scale_of (m_err M) e)%Q ->
  kmpe_valid_edge_code M a tol e.
Proof. exact kmpe_is_valid_accepts. Qed.
Print Assumptions C08_kmpe_is_valid_accepts.

(* documentation of the behaviour before 43fc741 (kmpe_valid_edge_old = unscaled error): it rejected
   satisfying assignments that the current test accepts *)
Theorem C08_kmpe_is_valid_old_refuted : exists M a e,
  sat a (encode_kmpe M) /\ In e (basic_edges (m_err M)) /\ (0 <= scale_of (m_err M) e)%Q /\
  kmpe_valid_edge_code M a 0%Q e /\ ~ kmpe_valid_edge_old M a 0%Q e.
Proof. exact kmpe_is_valid_old_refuted. Qed.
Print Assumptions C08_kmpe_is_valid_old_refuted.

(* non-vacuity: the same instance with factor 1 is satisfiable *)
Example C08_factor_one_satisfiable : sat (wit_kmpe_a 1%Q 1%Q 4%Q [1%Q]) (encode_kmpe (wit_kmpe 1%Q 1%Q)).
Proof. exact kmpe_factor_one_satisfiable. Qed.
