(* C08 — k-Minimum-Path-Error is feasible for k >= width and minimises total slack (DAG model).
   Model: ErrEnc.encode_kmpe = the LP kMinPathError hands to the solver (tied by E1 on every run). *)
From Coq Require Import List NArith ZArith QArith Qabs Bool Arith Lia Permutation.
Import ListNotations.
From FP Require Import Lin Blocks BlocksProofs PathEnc Euler EulerProofs1 EulerProofs4 DagDecode PathEncProofs
                       PathEncComplete WfCheck CheckedInstances
                       ErrEnc ErrEncProofs ErrEncProofs2 ErrEncProofs3 ErrEncComplete ErrEncOptimal ErrEncKlae ErrEncOptimal2
                       ErrEncGiven ErrEncGivenMpe ErrEncGivenCons ErrEncChecked ErrEncExamples.
Local Close Scope Q_scope.

(* THE property with executable premises (kmpe_premises_b is evaluated by the extracted driver on every E1 instance), for
   the model without path-length factors and given weights (with subpath constraints, with length attribute):
   (feasible) the LP is satisfiable iff a choice of k source-to-sink paths, weights and slacks exists; in particular every
   k paths that cover all non-ignored edges make it feasible (k >= width);
   (optimal) the objective of an optimal satisfying assignment (= what the solver returns, DESIGN §4) is the minimum of the
   slack sum over ALL choices of k paths covering the subpath constraints, non-negative weights and slacks of the requested
   type (no bound: w_max is removed by clipping) with  scale_e * |f(e) - sum_i w_i [e on i]| <= sum_i slack_i [e on i]. *)
Theorem C08_kmpe_optimal_checked : forall (M : kmpe_inst) (a : var -> Q) (order : list node),
  kmpe_premises_b M order = true -> e_given (m_err M) = None -> m_pieces M = [] -> p_allow_empty (e_base (m_err M)) = false ->
  sat a (encode_kmpe M) -> (forall b, sat b (encode_kmpe M) -> (objective a (encode_kmpe M) <= objective b (encode_kmpe M))%Q) ->
  (exists P w sl, kmpe_choice_unbounded M P w sl /\ (sumq sl (layers (eK (m_err M))) == objective a (encode_kmpe M))%Q) /\
  (forall P w sl, kmpe_choice_unbounded M P w sl -> (objective a (encode_kmpe M) <= sumq sl (layers (eK (m_err M))))%Q).
Proof. exact kmpe_optimal_checked. Qed.
Print Assumptions C08_kmpe_optimal_checked.

Theorem C08_kmpe_feasible_iff_checked : forall (M : kmpe_inst) (order : list node),
  kmpe_premises_b M order = true -> e_given (m_err M) = None -> m_pieces M = [] -> p_allow_empty (e_base (m_err M)) = false ->
  ((exists a, sat a (encode_kmpe M)) <-> (exists P w sl, kmpe_choice M P w sl)).
Proof. exact kmpe_feasible_iff_checked. Qed.
Print Assumptions C08_kmpe_feasible_iff_checked.

(* feasibility for k >= width: k paths covering every non-ignored edge (and the constraints) suffice *)
Theorem C08_kmpe_feasible_ge_width : forall (M : kmpe_inst) (P : N -> list node),
  let I := m_err M in
  e_given I = None -> m_pieces M = [] -> wf_graph (eG I) -> p_allow_empty (e_base I) = false ->
  kmpe_side M -> err_domain I ->
  st_paths (eG I) (eK I) P ->
  (forall e, In e (basic_edges I) -> exists i, In i (layers (eK I)) /\ mem_edge e (pairs (P i)) = true) ->
  constraints_covered (e_base I) P ->
  exists a, sat a (encode_kmpe M) /\ (objective a (encode_kmpe M) == sumq (fun _ => max_flow I) (layers (eK I)))%Q.
Proof. exact kmpe_feasible_ge_width_paths. Qed.
Print Assumptions C08_kmpe_feasible_ge_width.

(* completeness: every choice within the bounds is a satisfying assignment with objective = its slack sum *)
Theorem C08_kmpe_complete : forall (M : kmpe_inst) (P : N -> list node) (w sl : N -> Q),
  let I := m_err M in
  e_given I = None -> m_pieces M = [] -> wf_graph (eG I) -> p_allow_empty (e_base I) = false ->
  (forall c e, In c (p_cons (e_base I)) -> In e c -> (0 <= elen (e_base I) e)%Q) -> lengths_ok M ->
  kmpe_choice M P w sl ->
  exists a, sat a (encode_kmpe M) /\ (objective a (encode_kmpe M) == sumq sl (layers (eK I)))%Q /\
            (forall i, a (W i) = w i /\ a (Slack i) = sl i) /\ (forall u v i, a (Edge u v i) = onq P i (u, v)).
Proof. exact kmpe_complete. Qed.
Print Assumptions C08_kmpe_complete.

(* soundness in decoded form, executable premises: every satisfying assignment IS a choice *)
Theorem C08_kmpe_enc_sound_checked : forall (M : kmpe_inst) (a : var -> Q) (order : list node),
  kmpe_premises_b M order = true -> e_given (m_err M) = None -> m_pieces M = [] -> p_allow_empty (e_base (m_err M)) = false ->
  sat a (encode_kmpe M) ->
  kmpe_choice M (dec_path (eG (m_err M)) a (length order)) (fun i => a (W i)) (fun i => a (Slack i)) /\
  (sumq (fun i => a (Slack i)) (layers (eK (m_err M))) == objective a (encode_kmpe M))%Q.
Proof. exact kmpe_enc_sound_checked. Qed.
Print Assumptions C08_kmpe_enc_sound_checked.

(* optimality over the choices the LP represents (bounded by w_max), rank form *)
Theorem C08_kmpe_optimal : forall (M : kmpe_inst) (a : var -> Q) (rank : node -> nat) (Rm : nat),
  let I := m_err M in
  e_given I = None -> m_pieces M = [] -> wf_graph (eG I) -> p_allow_empty (e_base I) = false ->
  (forall u v, In (u, v) (g_edges (eG I)) -> (rank u < rank v)%nat) -> (forall v, (rank v <= Rm)%nat) ->
  kmpe_side M ->
  sat a (encode_kmpe M) -> (forall b, sat b (encode_kmpe M) -> (objective a (encode_kmpe M) <= objective b (encode_kmpe M))%Q) ->
  (exists P w sl, kmpe_choice M P w sl /\ (sumq sl (layers (eK I)) == objective a (encode_kmpe M))%Q) /\
  (forall P w sl, kmpe_choice M P w sl -> (objective a (encode_kmpe M) <= sumq sl (layers (eK I)))%Q).
Proof. exact kmpe_optimal. Qed.
Print Assumptions C08_kmpe_optimal.

(* solution_weights_superset (no subpath constraints, no length factors): layer i carries the constant weight ws[i], may be
   empty, at most k_orig layers are used; the LP optimum is the minimum of the slack sum over all such choices with slacks
   within [0, w_max] *)
Theorem C08_kmpe_given_optimal : forall (M : kmpe_inst) (ws : list Q) (a : var -> Q) (rank : node -> nat) (Rm : nat),
  e_given (m_err M) = Some ws -> m_pieces M = [] -> wf_graph (eG (m_err M)) -> p_allow_empty (e_base (m_err M)) = true ->
  p_cons (e_base (m_err M)) = [] -> length ws = eK (m_err M) -> lengths_ok M ->
  (forall u v, In (u, v) (g_edges (eG (m_err M))) -> (rank u < rank v)%nat) -> (forall v, (rank v <= Rm)%nat) ->
  sat a (encode_kmpe M) -> (forall b, sat b (encode_kmpe M) -> (objective a (encode_kmpe M) <= objective b (encode_kmpe M))%Q) ->
  (exists P sl, kmpe_given_choice M ws P sl /\ (sumq sl (layers (eK (m_err M))) == objective a (encode_kmpe M))%Q) /\
  (forall P sl, kmpe_given_choice M ws P sl -> (objective a (encode_kmpe M) <= sumq sl (layers (eK (m_err M))))%Q).
Proof. exact kmpe_given_optimal. Qed.
Print Assumptions C08_kmpe_given_optimal.

(* solution_weights_superset TOGETHER WITH subpath constraints (no length factors): layers may be empty, every constraint is
   realised to the required fraction by one layer; the LP optimum is the minimum of the slack sum over all such choices *)
Theorem C08_kmpe_given_optimal_with_constraints : forall (M : kmpe_inst) (ws : list Q) (a : var -> Q) (rank : node -> nat) (Rm : nat),
  e_given (m_err M) = Some ws -> m_pieces M = [] -> wf_graph (eG (m_err M)) -> p_allow_empty (e_base (m_err M)) = true ->
  length ws = eK (m_err M) -> lengths_ok M ->
  (forall u v, In (u, v) (g_edges (eG (m_err M))) -> (rank u < rank v)%nat) -> (forall v, (rank v <= Rm)%nat) ->
  (forall c e, In c (p_cons (e_base (m_err M))) -> In e c -> In e (g_edges (eG (m_err M))) /\ (0 <= elen (e_base (m_err M)) e)%Q) ->
  sat a (encode_kmpe M) -> (forall b, sat b (encode_kmpe M) -> (objective a (encode_kmpe M) <= objective b (encode_kmpe M))%Q) ->
  (exists P sl, kmpe_given_choice M ws P sl /\ constraints_covered (e_base (m_err M)) P /\
                (sumq sl (layers (eK (m_err M))) == objective a (encode_kmpe M))%Q) /\
  (forall P sl, kmpe_given_choice M ws P sl -> constraints_covered (e_base (m_err M)) P ->
                (objective a (encode_kmpe M) <= sumq sl (layers (eK (m_err M))))%Q).
Proof. exact kmpe_given_optimal_cons. Qed.
Print Assumptions C08_kmpe_given_optimal_with_constraints.

Theorem C08_kmpe_given_complete_with_constraints : forall (M : kmpe_inst) (ws : list Q) (P : N -> list node) (sl : N -> Q),
  e_given (m_err M) = Some ws -> m_pieces M = [] -> wf_graph (eG (m_err M)) -> p_allow_empty (e_base (m_err M)) = true ->
  length ws = eK (m_err M) -> lengths_ok M ->
  (forall c e, In c (p_cons (e_base (m_err M))) -> In e c -> (0 <= elen (e_base (m_err M)) e)%Q) ->
  kmpe_given_choice M ws P sl -> constraints_covered (e_base (m_err M)) P ->
  exists a, sat a (encode_kmpe M) /\ (objective a (encode_kmpe M) == sumq sl (layers (eK (m_err M))))%Q /\
            (forall u v i, a (Edge u v i) = onq P i (u, v)) /\ (forall i, a (Slack i) = sl i).
Proof. exact kmpe_given_complete_cons. Qed.
Print Assumptions C08_kmpe_given_complete_with_constraints.

Example C08_given_with_constraints_example :
  sat (gmasgc wit_gc_M wit_gc_P (fun i => match i with 0%N => 2%Q | _ => 0%Q end) (fun _ => 0%N)) (encode_kmpe wit_gc_M) /\
  (objective (gmasgc wit_gc_M wit_gc_P (fun i => match i with 0%N => 2%Q | _ => 0%Q end) (fun _ => 0%N)) (encode_kmpe wit_gc_M) == 2)%Q.
Proof. exact kmpe_given_cons_example. Qed.

(* NOT covered by the completeness / optimality theorems: path-length factors (feasibility refuted below: open findings). *)

Theorem C08_kmpe_enc_sound : forall (M : kmpe_inst) (a : var -> Q) (rank : node -> nat) (Rm : nat),
  let I := m_err M in let G := eG I in let k := eK I in
  let E := g_edges G in let s := g_src G in let t := g_snk G in
  wf_graph G -> p_allow_empty (e_base I) = false -> e_given I = None ->
  (forall u v, In (u, v) E -> (rank u < rank v)%nat) -> (forall v, (rank v <= Rm)%nat) ->
  sat a (encode_kmpe M) ->
  (forall i, In i (layers k) ->
     exists p, decode E (xval a i) t (S Rm) s = Some p /\ last p s = t /\
               Permutation (Sup E (xval a i)) (pairs (s :: p)) /\
               (forall e, In e E -> count_e e (pairs (s :: p)) = Z.to_nat (xval a i e))) /\
  (forall i, In i (layers k) -> (0 <= a (W i) <= w_max I)%Q /\ (0 <= a (Slack i) <= w_max I)%Q /\
                                (0 <= a (slack_var M i))%Q) /\
  (forall e, In e (basic_edges I) ->
     (Qabs (scale_of I e * (flow_of I e - sumq (fun i => a (W i) * inject_Z (xval a i e)) (layers k)))
        <= sumq (fun i => a (slack_var M i) * inject_Z (xval a i e)) (layers k))%Q) /\
  (objective a (encode_kmpe M) == sumq (fun i => a (Slack i)) (layers k))%Q.
Proof. exact kmpe_enc_sound. Qed.
Print Assumptions C08_kmpe_enc_sound.

Theorem C08_kmpe_factor_sound : forall (M : kmpe_inst) (a : var -> Q) (i : N),
  sat a (encode_kmpe M) -> e_given (m_err M) = None -> has_factors M = true ->
  (0 <= min_factor M)%Q -> (max_factor M <= sslack_ub M)%Q ->
  In i (layers (eK (m_err M))) ->
  (exists p, In p (m_pieces M) /\ (pL p <= a (Len i) <= pU p)%Q /\ (a (Factor i) == pC p)%Q) /\
  (a (SSlack i) == a (Slack i) * a (Factor i))%Q /\
  (a (Len i) == sumq (fun e => plen M e * a (Edge (fst e) (snd e) i)) (g_edges (eG (m_err M))))%Q.
Proof. exact kmpe_factor_sound. Qed.
Print Assumptions C08_kmpe_factor_sound.

(* with path-length factors the full statement is false of the faithful model (open findings) *)
Theorem C08_kmpe_factors_gt1_refuted : exists M,
  wf_graph (eG (m_err M)) /\ eK (m_err M) = 1%nat /\
  (forall e, In e (basic_edges (m_err M)) -> In e (pairs [0; 1; 2; 3; 4]%N)) /\
  forall a, ~ sat a (encode_kmpe M).
Proof. exact kmpe_factors_gt1_refuted. Qed.
Print Assumptions C08_kmpe_factors_gt1_refuted.

Theorem C08_kmpe_factors_lt1_refuted : exists M,
  wf_graph (eG (m_err M)) /\ eK (m_err M) = 1%nat /\
  (forall e, In e (basic_edges (m_err M)) -> In e (pairs [0; 1; 2; 3; 4]%N)) /\
  forall a, ~ sat a (encode_kmpe M).
Proof. exact kmpe_factors_lt1_refuted. Qed.
Print Assumptions C08_kmpe_factors_lt1_refuted.

(* is_valid_solution of the code as it is (since /repo 43fc741: error multiplied by the scaling): every
   satisfying assignment passes the per-edge test, for every tolerance >= 0 *)
Theorem C08_kmpe_is_valid_accepts : forall (M : kmpe_inst) (a : var -> Q) (tol : Q) (e : PathEnc.edge),
  sat a (encode_kmpe M) -> e_given (m_err M) = None -> (0 <= tol)%Q ->
  In e (basic_edges (m_err M)) -> (0 <= scale_of (m_err M) e)%Q ->
  kmpe_valid_edge_code M a tol e.
Proof. exact kmpe_is_valid_accepts. Qed.
Print Assumptions C08_kmpe_is_valid_accepts.

(* documentation of the behaviour before 43fc741 (kmpe_valid_edge_old = unscaled error): it rejected
   satisfying assignments that the current test accepts *)
Theorem C08_kmpe_is_valid_old_refuted : exists M a e,
  sat a (encode_kmpe M) /\ In e (basic_edges (m_err M)) /\ (0 <= scale_of (m_err M) e)%Q /\
  kmpe_valid_edge_code M a 0%Q e /\ ~ kmpe_valid_edge_old M a 0%Q e.
Proof. exact kmpe_is_valid_old_refuted. Qed.
Print Assumptions C08_kmpe_is_valid_old_refuted.

(* non-vacuity: the same instance with factor 1 is satisfiable *)
Example C08_factor_one_satisfiable : sat (wit_kmpe_a 1%Q 1%Q 4%Q [1%Q]) (encode_kmpe (wit_kmpe 1%Q 1%Q)).
Proof. exact kmpe_factor_one_satisfiable. Qed.

(* non-vacuity of C08_kmpe_optimal_checked: the instance passes the executable premises and has an optimal satisfying
   assignment (optimum 2/3), and its decoding is a choice *)
Example C08_checked_nonvacuous :
  kmpe_premises_b wit_kmpe_f wit_order = true /\ e_given (m_err wit_kmpe_f) = None /\ m_pieces wit_kmpe_f = [] /\
  p_allow_empty (e_base (m_err wit_kmpe_f)) = false /\
  sat wit_kmpe_f_a (encode_kmpe wit_kmpe_f) /\
  (forall b, sat b (encode_kmpe wit_kmpe_f) -> (objective wit_kmpe_f_a (encode_kmpe wit_kmpe_f) <= objective b (encode_kmpe wit_kmpe_f))%Q) /\
  (objective wit_kmpe_f_a (encode_kmpe wit_kmpe_f) == 2 # 3)%Q.
Proof. exact kmpe_checked_nonvacuous. Qed.

Example C08_given_example : sat (gmasg wit_given_M wit_given_P (fun _ => 2%Q)) (encode_kmpe wit_given_M) /\
                            (objective (gmasg wit_given_M wit_given_P (fun _ => 2%Q)) (encode_kmpe wit_given_M) == 2)%Q.
Proof. exact kmpe_given_example. Qed.

(* The E1 comparison itself is decided by an extracted VERIFIED checker on every instance: when LinEquiv.milp_equiv_b accepts the LP
   read back from the solver and the LP of the encoder (encode_kmpe M, incl. the given-weights variants), the two have the same
   satisfying assignments, the same objective function and direction -- hence the same optimal solutions.  Every theorem above about
   `sat a (encode_kmpe M)` therefore holds for the LP the implementation built on that instance. *)
From FP Require Import LinEquiv.
Theorem C08_lp_comparison_is_verified : forall (m1 m2 : milp), milp_equiv_b m1 m2 = true ->
  (forall a, sat a m1 <-> sat a m2) /\ (forall a, (objective a m1 == objective a m2)%Q) /\ maximize m1 = maximize m2.
Proof. exact milp_equiv_sound. Qed.
Print Assumptions C08_lp_comparison_is_verified.

Theorem C08_equivalent_lps_have_the_same_optima : forall (m1 m2 : milp), milp_equiv_b m1 m2 = true ->
  forall a, (sat a m1 /\ forall b, sat b m1 -> obj_le m1 a b) <-> (sat a m2 /\ forall b, sat b m2 -> obj_le m2 a b).
Proof. exact milp_equiv_optimal. Qed.
Print Assumptions C08_equivalent_lps_have_the_same_optima.

(* ------------------------------------------------------------------ END TO END, hypotheses about the caller's input only *)
(* "k-Minimum-Path-Error is feasible for k >= width".  Caller data: a DAG (V, E) with duplicate-free node and edge lists, fresh
   synthetic source / sink s, t, non-negative integer weights f (no conservation), an ignore list, scalings in [0,1], subpath
   constraints made of edges of E, and some edge that is neither ignored nor scaled by 0.  The instance is BUILT from that data
   (e2e_kmpe_inst: Aug.aug_edges, adjacency tables of st_of); well-formedness of the s-t graph, the weight domain, max f <= w_max
   and the bounds of the position / length columns are derived.  Assumed about the cover, exactly: c source-to-sink paths of
   the augmented graph that contain every non-ignored edge (path_cover ... (ign_all ...)) and cover every subpath constraint to the
   required fraction (constraints_covered).  Then the LP is satisfiable for EVERY k >= c (padding: the first path is repeated,
   all weights 0, every slack max f). *)
From FP Require Import Aug AugProofs PathCoverComplete EndToEnd1 EndToEnd2 EndToEnd3 EndToEndCover EndToEndExample EndToEndErr EndToEndErrExample.
From FP Require Import Search SearchProofs1 SearchProofs2.
From FP Require Peel.
Theorem C08_kmpe_end_to_end_feasible : forall (V : list node) (E : list PathEnc.edge) (s t : node) (f : PathEnc.edge -> Z)
    (ign : list PathEnc.edge) (scale : list (PathEnc.edge * Q)) (cons : list (list PathEnc.edge)) (cov : Q),
  ~ In s V -> ~ In t V -> s <> t -> (forall e, In e E -> In (fst e) V /\ In (snd e) V) -> NoDup V -> NoDup E ->
  (forall e, In e E -> (0 <= f e)%Z) -> (forall es, In es scale -> (0 <= snd es <= 1)%Q) ->
  (forall c e, In c cons -> In e c -> In e E) ->
  (exists e, In e E /\ mem_edge e ign = false /\ mem_edge e (map fst (filter (fun es => Qeq_bool (snd es) 0) scale)) = false) ->
  forall (c k : nat) (P : N -> list node),
  path_cover (e2e_base V E s t cons cov c) (ign_all (e2e_err_inst V E s t f ign scale cons cov c)) P ->
  constraints_covered (e2e_base V E s t cons cov c) P -> (c <= k)%nat ->
  exists a, sat a (encode_kmpe (e2e_kmpe_inst V E s t f ign scale cons cov k)) /\
            (objective a (encode_kmpe (e2e_kmpe_inst V E s t f ign scale cons cov k))
             == sumq (fun _ => max_flow (e2e_err_inst V E s t f ign scale cons cov k)) (layers k))%Q.
Proof. exact kmpe_end_to_end_feasible. Qed.
Print Assumptions C08_kmpe_end_to_end_feasible.

(* composed with C09 (minpathcover_end_to_end): the number MinPathCover returns for the caller's DAG -- the minimum number of
   source-to-sink paths covering every edge -- makes kMinPathError feasible for every k at least that number, whatever the
   (non-negative) weights, the ignore list and the scalings *)
Theorem C08_kmpe_feasible_from_minpathcover : forall (V : list node) (E : list PathEnc.edge) (s t : node)
    (Pa Sa : list (node * list node)) (topo : list node) (feasible : nat -> bool) (lb : nat) (sts : list raw)
    (f : PathEnc.edge -> Z) (ign : list PathEnc.edge) (scale : list (PathEnc.edge * Q)),
  NoDup V -> (forall e, In e E -> In (fst e) V /\ In (snd e) V) -> ~ In s V -> ~ In t V -> s <> t ->
  Peel.peel_inputs_ok E Pa Sa topo = true ->
  (forall k, feasible k = true <-> exists a, sat a (encode_kpc (cover_inst V E s t k) (synth V E s t))) ->
  (forall i, (i < S (length E) - lb)%nat -> exists x, nth_error sts i = Some x /\
             status_of x = if feasible (lb + i)%nat then Optimal else Infeasible) ->
  (forall k, (k < lb)%nat -> feasible k = false) ->
  (forall e, In e E -> (0 <= f e)%Z) -> (forall es, In es scale -> (0 <= snd es <= 1)%Q) ->
  (exists e, In e E /\ mem_edge e ign = false /\ mem_edge e (map fst (filter (fun es => Qeq_bool (snd es) 0) scale)) = false) ->
  exists kopt,
    so_res (mpc_solve true lb (S (length E)) sts) = Solved kopt /\
    forall k, (kopt <= k)%nat -> exists a, sat a (encode_kmpe (e2e_kmpe_inst V E s t f ign scale [] 1%Q k)).
Proof. exact kmpe_feasible_from_minpathcover. Qed.
Print Assumptions C08_kmpe_feasible_from_minpathcover.

(* non-vacuity on the diamond of EndToEndExample.v: both end-to-end theorems apply; kMinPathError feasible for every k >= 2 *)
Example C08_end_to_end_example :
  forall k, (2 <= k)%nat -> exists a, sat a (encode_kmpe (e2e_kmpe_inst xV xE 0%N 5%N xf [] [] [] 1%Q k)).
Proof. exact (proj1 e2e_err_example). Qed.
