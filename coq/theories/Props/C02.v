(* C02 — flow decompositions explain every non-ignored edge's flow exactly (DAG, MILP route).
   Model: PathEnc.encode_kfd = the LP kFlowDecomp hands to the solver (tied by E1 on every run).
   The theorem composes: row-level bridge lemmas, the product theorem of C12, and the decoding
   theorem (the value-1 edges of a layer are exactly one source-to-sink path). *)
From Coq Require Import List NArith ZArith QArith Bool Arith Lia Permutation.
Import ListNotations.
From FP Require Import Lin Blocks BlocksProofs PathEnc Euler EulerProofs1 EulerProofs4 DagDecode PathEncProofs.
Local Close Scope Q_scope.

Theorem C02_kfd_assignment_explains_flow : forall (I : kfd_inst) (a : var -> Q) (rank : node -> nat) (Rm : nat),
  let G := p_graph (f_base I) in let k := p_k (f_base I) in
  let E := g_edges G in let s := g_src G in let t := g_snk G in
  wf_graph G -> p_allow_empty (f_base I) = false ->
  (forall u v, In (u, v) E -> (rank u < rank v)%nat) -> (forall v, (rank v <= Rm)%nat) ->   (* acyclic *)
  sat a (encode_kfd I) ->
  (forall i, In i (layers k) ->
     exists p, decode E (xval a i) t (S Rm) s = Some p /\ last p s = t /\
               Permutation (Sup E (xval a i)) (pairs (s :: p)) /\
               (forall e, In e E -> count_e e (pairs (s :: p)) = Z.to_nat (xval a i e))) /\
  (forall i, In i (layers k) -> (0 <= a (W i) <= f_wmax I)%Q /\ (f_int I = true -> is_int (a (W i)))) /\
  (forall e, In e E -> mem_edge e (f_ignore I) = false ->
     (sumq (fun i => a (W i) * inject_Z (xval a i e)) (layers k) == lookup_q e (f_flow I) 0)%Q).
Proof. exact kfd_sound. Qed.
Print Assumptions C02_kfd_assignment_explains_flow.

(* per-edge statement alone (no acyclicity needed) *)
Theorem C02_kfd_rows_force_flow : forall (I : kfd_inst) (a : var -> Q),
  sat a (encode_kfd I) -> forall e, In e (g_edges (p_graph (f_base I))) -> mem_edge e (f_ignore I) = false ->
  (sumq (fun i => a (W i) * inject_Z (xval a i e)) (layers (p_k (f_base I))) == lookup_q e (f_flow I) 0)%Q.
Proof. exact kfd_flow_explained. Qed.
Print Assumptions C02_kfd_rows_force_flow.

(* the decoder that is run against get_solution_paths (E3) is the decoder of the theorem *)
Theorem C02_executable_decoder_is_the_proved_one : forall E x t fuel v,
  follow_ones E x t fuel v = decode E x t fuel v.
Proof. exact follow_ones_decode. Qed.
Print Assumptions C02_executable_decoder_is_the_proved_one.

(* the checker that decides C02 (integer weights, exact) on every answer of the implementation *)
From FP Require Import Checkers CheckersProofs.
Theorem C02_explains_checker_correct : forall flow ignore routes,
  explains_b flow ignore routes = true <->
  forall e f, In (e, f) flow -> ~ In e ignore -> (explained_q routes e == f)%Q.
Proof. exact explains_b_correct. Qed.
Print Assumptions C02_explains_checker_correct.

(* non-vacuity (PathEncExample.v): the LP of a concrete instance (diamond, flows 2 and 3, one subpath constraint, k = 2)
   has a satisfying assignment, so the hypothesis `sat a (encode_kfd I)` of the theorems above is satisfiable *)
From FP Require Import PathEncComplete PathEncExample.
Example C02_premises_satisfiable :
  PathEncProofs.wf_graph (p_graph (f_base (exI 2))) /\ exists a, sat a (encode_kfd (exI 2)).
Proof. exact (conj ex_wf ex_lp_feasible_2). Qed.
Print Assumptions C02_premises_satisfiable.

(* ---- given weights (solution_weights_superset): PathEnc.encode_kfd_given, empty layers allowed ---- *)
From FP Require Import PathEncGiven.
(* every layer of every satisfying assignment is EITHER empty (no edge has value 1; the decoder returns the empty path)
   OR exactly one source-to-sink path, which the decoder returns *)
Theorem C02_given_weights_layer_is_empty_or_one_path :
  forall (I : kfd_inst) (ws : list Q) (k_orig : nat) (a : var -> Q),
  PathEncProofs.wf_graph (p_graph (f_base I)) -> p_allow_empty (f_base I) = true ->
  length ws = p_k (f_base I) -> sat a (encode_kfd_given I ws k_orig) ->
  forall (rank : node -> nat) (Rm : nat) (i : N),
  (forall u v, In (u, v) (g_edges (p_graph (f_base I))) -> (rank u < rank v)%nat) -> (forall v, (rank v <= Rm)%nat) ->
  In i (layers (p_k (f_base I))) ->
  (sumx (xval a i) (outs (g_edges (p_graph (f_base I))) (g_src (p_graph (f_base I)))) = 0%Z /\
     (forall e, In e (g_edges (p_graph (f_base I))) -> xval a i e = 0%Z) /\
     solution_path (g_edges (p_graph (f_base I))) (xval a i) (g_src (p_graph (f_base I))) (g_snk (p_graph (f_base I))) (S Rm) = Some []) \/
  (sumx (xval a i) (outs (g_edges (p_graph (f_base I))) (g_src (p_graph (f_base I)))) = 1%Z /\
     exists p, decode (g_edges (p_graph (f_base I))) (xval a i) (g_snk (p_graph (f_base I))) (S Rm) (g_src (p_graph (f_base I))) = Some p /\
               last p (g_src (p_graph (f_base I))) = g_snk (p_graph (f_base I)) /\
               Permutation (Sup (g_edges (p_graph (f_base I))) (xval a i)) (EulerProofs1.pairs (g_src (p_graph (f_base I)) :: p))).
Proof. exact given_layer_empty_or_path. Qed.
Print Assumptions C02_given_weights_layer_is_empty_or_one_path.

(* the GIVEN weights of the layers through a non-ignored edge add up to its flow *)
Theorem C02_given_weights_explain_flow :
  forall (I : kfd_inst) (ws : list Q) (k_orig : nat) (a : var -> Q),
  length ws = p_k (f_base I) -> sat a (encode_kfd_given I ws k_orig) ->
  forall e, In e (g_edges (p_graph (f_base I))) -> mem_edge e (f_ignore I) = false ->
  (sumq (fun iw => snd iw * inject_Z (xval a (fst iw) e)) (zipn 0 ws) == lookup_q e (f_flow I) 0)%Q.
Proof. exact given_flow_explained. Qed.
Print Assumptions C02_given_weights_explain_flow.

(* at most k_orig layers are non-empty, and the objective is their number *)
Theorem C02_given_weights_path_count :
  forall (I : kfd_inst) (ws : list Q) (k_orig : nat) (a : var -> Q),
  PathEncProofs.wf_graph (p_graph (f_base I)) -> sat a (encode_kfd_given I ws k_orig) ->
  (sumz (fun i => sumx (xval a i) (outs (g_edges (p_graph (f_base I))) (g_src (p_graph (f_base I))))) (layers (p_k (f_base I))) <= Z.of_nat k_orig)%Z /\
  (objective a (encode_kfd_given I ws k_orig) ==
   inject_Z (sumz (fun i => sumx (xval a i) (outs (g_edges (p_graph (f_base I))) (g_src (p_graph (f_base I))))) (layers (p_k (f_base I)))))%Q.
Proof. exact given_path_count. Qed.
Print Assumptions C02_given_weights_path_count.

Example C02_given_weights_premises_satisfiable :
  sat exAg (encode_kfd_given exIg [2%Q; 3%Q; 5%Q] 2) /\ p_allow_empty (f_base exIg) = true /\ length [2%Q; 3%Q; 5%Q] = p_k (f_base exIg).
Proof. exact (conj ex_given_sat (conj eq_refl eq_refl)). Qed.
Print Assumptions C02_given_weights_premises_satisfiable.

(* converse for the given-weights LP: it is feasible EXACTLY when at most k_orig simple source-to-sink paths, path i carrying
   the i-th given weight, explain every non-ignored edge (the other weights unused) *)
From FP Require Import PathEncGivenComplete.
Theorem C02_given_weights_model_feasible_iff :
  forall (I : kfd_inst) (ws : list Q) (k_orig : nat) (rank : node -> nat) (Rm : nat),
  PathEncProofs.wf_graph (p_graph (f_base I)) -> p_allow_empty (f_base I) = true -> p_cons (f_base I) = [] ->
  length ws = p_k (f_base I) ->
  (forall u v, In (u, v) (g_edges (p_graph (f_base I))) -> (rank u < rank v)%nat) -> (forall v, (rank v <= Rm)%nat) ->
  ((exists a, sat a (encode_kfd_given I ws k_orig)) <-> (exists P, given_choice I ws k_orig P)).
Proof. exact kfdw_feasible_iff. Qed.
Print Assumptions C02_given_weights_model_feasible_iff.

(* the E1 comparison itself is verified: when the extracted checker accepts, the LP read back from the solver and the model's LP
   have the same satisfying assignments, the same objective function and direction -- hence the same optimal solutions.  Every
   theorem above about `sat a (encode_kfd I)` therefore holds for the LP the implementation built on that instance. *)
From FP Require Import LinEquiv.
Theorem C02_lp_comparison_is_verified : forall (m1 m2 : milp), milp_equiv_b m1 m2 = true ->
  (forall a, sat a m1 <-> sat a m2) /\ (forall a, (objective a m1 == objective a m2)%Q) /\ maximize m1 = maximize m2.
Proof. exact milp_equiv_sound. Qed.
Print Assumptions C02_lp_comparison_is_verified.

Theorem C02_equivalent_lps_have_the_same_optima : forall (m1 m2 : milp), milp_equiv_b m1 m2 = true ->
  forall a, (sat a m1 /\ forall b, sat b m1 -> obj_le m1 a b) <-> (sat a m2 /\ forall b, sat b m2 -> obj_le m2 a b).
Proof. exact milp_equiv_optimal. Qed.
Print Assumptions C02_equivalent_lps_have_the_same_optima.

(* ---- audit: ALL hypotheses of C02_kfd_assignment_explains_flow hold together (diamond, flows 2 and 3, one subpath constraint, k = 2),
   and the conclusion is about two real layers with positive weights ---- *)
Example C02_all_premises_hold : exists a : var -> Q,
  PathEncProofs.wf_graph (p_graph (f_base (exI 2))) /\ p_allow_empty (f_base (exI 2)) = false /\
  (forall u v, In (u, v) (g_edges (p_graph (f_base (exI 2)))) -> (exRank u < exRank v)%nat) /\ (forall v, (exRank v <= 3)%nat) /\
  sat a (encode_kfd (exI 2)) /\
  (sumq (fun i => a (W i) * inject_Z (xval a i (0, 1)%N)) (layers 2) == 2)%Q.
Proof.
  destruct ex_lp_feasible_2 as (a & Hsat). exists a.
  split; [exact ex_wf|]. split; [reflexivity|]. split; [exact ex_rank|]. split; [exact ex_rank_le|]. split; [exact Hsat|].
  exact (C02_kfd_rows_force_flow (exI 2) a Hsat (0, 1)%N ltac:(cbn; tauto) eq_refl).
Qed.
Print Assumptions C02_all_premises_hold.
(* degenerate: k = 0 has no layers, the sum of the explained flow is 0, so the LP of an instance with a positive flow is unsatisfiable:
   the theorems are not satisfied vacuously by "no paths" *)
Example C02_k_zero_is_infeasible : ~ exists a, sat a (encode_kfd (exI 0)).
Proof.
  intros (a & Hsat). pose proof (C02_kfd_rows_force_flow (exI 0) a Hsat (0, 1)%N ltac:(cbn; tauto) eq_refl) as H.
  vm_compute in H. discriminate.
Qed.
Print Assumptions C02_k_zero_is_infeasible.
